import AbraModel.Compile
import AbraProofs.Lemmas.VMCore
/-!
Simulation between the reference interpreter `Abra.Sem` and the VM core running `compileF0` output
(fragment F0).  Part 1: code layout (`resolveAt`, `closeBody`, `codeAt`), machine configurations and
one-instruction lemmas.
-/
namespace Abra.Compile
open Abra.Sem Abra.VM

/-! ### layout -/

theorem mapT_comp {α β γ : Type} (f : β → γ) (g : α → β) (i : Instr α) : mapT f (mapT g i) = mapT (fun t => f (g t)) i := by
  cases i <;> rfl

theorem mapT_congr {α β : Type} {f g : α → β} (h : ∀ t, f t = g t) (i : Instr α) : mapT f i = mapT g i := by
  cases i <;> simp [mapT, h]

@[simp] theorem resolveAt_length (base : Nat) (lc : Nat × Nat) (c : Code) : (resolveAt base lc c).length = c.length := by
  induction c generalizing base with
  | nil => rfl
  | cons i r ih => simp [resolveAt, ih]

theorem resolveAt_append (base : Nat) (lc : Nat × Nat) (a b : Code) :
    resolveAt base lc (a ++ b) = resolveAt base lc a ++ resolveAt (base + a.length) lc b := by
  induction a generalizing base with
  | nil => simp [resolveAt]
  | cons i r ih =>
    simp only [List.cons_append, resolveAt, List.length_cons]
    rw [ih]
    have : base + 1 + r.length = base + (r.length + 1) := by omega
    rw [this]

@[simp] theorem closeBody_length (o len i : Nat) (c : Code) : (closeBody o len i c).length = c.length := by
  induction c generalizing i with
  | nil => rfl
  | cons _ r ih => simp [closeBody, ih]

/-- closing a loop body = resolving its placeholders against the loop's own start and end -/
theorem resolveAt_closeBody (base o len : Nat) (lc : Nat × Nat) (c : Code) (i : Nat) (h : i + c.length = len) :
    resolveAt (base + o + i) lc (closeBody o len i c)
      = resolveAt (base + o + i) (base, base + o + len + 1) c := by
  induction c generalizing i with
  | nil => rfl
  | cons ins r ih =>
    simp only [closeBody, resolveAt]
    congr 1
    · rw [mapT_comp]
      apply mapT_congr
      intro t
      cases t with
      | rel k => rfl
      | brk =>
        simp only [resolveT]
        simp only [List.length_cons] at h
        omega
      | cont =>
        simp only [resolveT]
        omega
    · have := ih (i + 1) (by simp only [List.length_cons] at h; omega)
      simpa [Nat.add_assoc] using this

/-- `c` sits in `P` at position `pos` -/
def codeAt (P : Program) (pos : Nat) (c : Program) : Prop :=
  ∃ pre post, P = pre ++ c ++ post ∧ pre.length = pos

theorem codeAt_append_left {P : Program} {pos : Nat} {a b : Program} (h : codeAt P pos (a ++ b)) : codeAt P pos a := by
  obtain ⟨pre, post, hp, hl⟩ := h
  exact ⟨pre, b ++ post, by simp [hp], hl⟩

theorem codeAt_append_right {P : Program} {pos : Nat} {a b : Program} (h : codeAt P pos (a ++ b)) :
    codeAt P (pos + a.length) b := by
  obtain ⟨pre, post, hp, hl⟩ := h
  exact ⟨pre ++ a, post, by simp [hp], by simp [hl]⟩

theorem codeAt_head {P : Program} {pos : Nat} {i : Instr Nat} {r : Program} (h : codeAt P pos (i :: r)) :
    P[pos]? = some i := by
  obtain ⟨pre, post, hp, hl⟩ := h
  subst hp hl
  simp

theorem codeAt_tail {P : Program} {pos : Nat} {i : Instr Nat} {r : Program} (h : codeAt P pos (i :: r)) :
    codeAt P (pos + 1) r := by
  have := codeAt_append_right (a := [i]) (b := r) (by simpa using h)
  simpa using this

/-! ### machine configurations -/

/-- what stays fixed while a function body runs: the program, the stack below the frame, the
    call stack and the heap (F0 allocates nothing) -/
structure World where
  P : Program
  pre : List VM.Val
  frames : List Frame
  heap : List VM.Obj

/-- frame with locals `L`, operand temporaries `T` (bottom first) -/
def World.cfg (W : World) (pc : Nat) (L T : List VM.Val) (out : List String) : State :=
  { pc := pc, stack := W.pre ++ (L ++ T), base := W.pre.length, frames := W.frames, heap := W.heap, out := out }

theorem hpop1 (X L T : List VM.Val) (v : VM.Val) : pop? (X ++ (L ++ (T ++ [v]))) = some (v, X ++ (L ++ T)) := by
  have : X ++ (L ++ (T ++ [v])) = (X ++ (L ++ T)) ++ [v] := by simp
  rw [this]; exact pop?_snoc _ _

theorem hpop2 (X L T : List VM.Val) (a b : VM.Val) :
    pop? (X ++ (L ++ (T ++ [a, b]))) = some (b, X ++ (L ++ (T ++ [a]))) := by
  have : X ++ (L ++ (T ++ [a, b])) = (X ++ (L ++ (T ++ [a]))) ++ [b] := by simp
  rw [this]; exact pop?_snoc _ _

theorem step_pushInt (W : World) {pc : Nat} {k : Int} (h : W.P[pc]? = some (.pushInt k)) (L T out) :
    VM.step W.P (W.cfg pc L T out) = .ok (W.cfg (pc + 1) L (T ++ [.int k]) out) := by
  simp only [VM.step, World.cfg, h, List.append_assoc]

theorem step_pushBool (W : World) {pc : Nat} {b : Bool} (h : W.P[pc]? = some (.pushBool b)) (L T out) :
    VM.step W.P (W.cfg pc L T out) = .ok (W.cfg (pc + 1) L (T ++ [.bool b]) out) := by
  simp only [VM.step, World.cfg, h, List.append_assoc]

theorem step_pop (W : World) {pc : Nat} (h : W.P[pc]? = some .pop) (L T v out) :
    VM.step W.P (W.cfg pc L (T ++ [v]) out) = .ok (W.cfg (pc + 1) L T out) := by
  simp only [VM.step, World.cfg, h, hpop1]

theorem step_jump (W : World) {pc t : Nat} (h : W.P[pc]? = some (.jump t)) (L T out) :
    VM.step W.P (W.cfg pc L T out) = .ok (W.cfg t L T out) := by
  simp only [VM.step, World.cfg, h]

theorem step_jumpIf (W : World) {pc t : Nat} (h : W.P[pc]? = some (.jumpIf t)) (L T b out) :
    VM.step W.P (W.cfg pc L (T ++ [.bool b]) out) = .ok (W.cfg (if b then t else pc + 1) L T out) := by
  simp only [VM.step, World.cfg, h, hpop1, getBool]

theorem step_jumpIfFalse (W : World) {pc t : Nat} (h : W.P[pc]? = some (.jumpIfFalse t)) (L T b out) :
    VM.step W.P (W.cfg pc L (T ++ [.bool b]) out) = .ok (W.cfg (if b then pc + 1 else t) L T out) := by
  simp only [VM.step, World.cfg, h, hpop1, getBool]

theorem step_load (W : World) {pc s : Nat} (h : W.P[pc]? = some (.load s)) (L T out) {v : VM.Val}
    (hv : L[s]? = some v) :
    VM.step W.P (W.cfg pc L T out) = .ok (W.cfg (pc + 1) L (T ++ [v]) out) := by
  have hs : s < L.length := by
    rcases Nat.lt_or_ge s L.length with h1 | h1
    · exact h1
    · simp [List.getElem?_eq_none h1] at hv
  have hidx : (W.pre ++ (L ++ T))[W.pre.length + s]? = some v := by
    rw [List.getElem?_append_right (by omega)]
    simp only [Nat.add_sub_cancel_left]
    rw [List.getElem?_append_left hs]
    exact hv
  simp only [VM.step, World.cfg, h, slotIdx_nat, hidx, List.append_assoc]

theorem step_store (W : World) {pc s : Nat} (h : W.P[pc]? = some (.store s)) (L T v out) (hs : s < L.length) :
    VM.step W.P (W.cfg pc L (T ++ [v]) out) = .ok (W.cfg (pc + 1) (L.set s v) T out) := by
  have hlen : W.pre.length + s < (W.pre ++ (L ++ T)).length := by simp; omega
  have hset : (W.pre ++ (L ++ T)).set (W.pre.length + s) v = W.pre ++ (L.set s v ++ T) := by
    rw [List.set_append_right _ _ (by omega)]
    simp only [Nat.add_sub_cancel_left]
    rw [List.set_append_left _ _ hs]
  simp only [VM.step, World.cfg, h, hpop1, slotIdx_nat, hlen, hset, if_true]

theorem step_print (W : World) {pc : Nat} {t : PTy} (h : W.P[pc]? = some (.print t)) (L T v out) {txt : String}
    (hr : renderVal t v = .ok txt) :
    VM.step W.P (W.cfg pc L (T ++ [v]) out) = .ok (W.cfg (pc + 1) L T ((txt ++ "\n") :: out)) := by
  simp only [VM.step, World.cfg, h, hpop1, hr]

theorem step_not (W : World) {pc : Nat} (h : W.P[pc]? = some (.not .top .top)) (L T b out) :
    VM.step W.P (W.cfg pc L (T ++ [.bool b]) out) = .ok (W.cfg (pc + 1) L (T ++ [.bool (!b)]) out) := by
  simp only [VM.step, World.cfg, h, loadReg, hpop1, storeReg, getBool, List.append_assoc]

theorem step_intCmp (W : World) {pc : Nat} {op : CmpOp} (h : W.P[pc]? = some (.intCmp op .top .top .top)) (L T a b out) :
    VM.step W.P (W.cfg pc L (T ++ [.int a, .int b]) out)
      = .ok (W.cfg (pc + 1) L (T ++ [.bool (op.eval a b)]) out) := by
  simp only [VM.step, World.cfg, h, loadReg, hpop2, hpop1, storeReg, getInt, List.append_assoc]

theorem step_eqBool (W : World) {pc : Nat} (h : W.P[pc]? = some (.eqBool .top .top .top)) (L T a b out) :
    VM.step W.P (W.cfg pc L (T ++ [.bool a, .bool b]) out)
      = .ok (W.cfg (pc + 1) L (T ++ [.bool (a == b)]) out) := by
  simp only [VM.step, World.cfg, h, loadReg, hpop2, hpop1, storeReg, getBool, List.append_assoc]

theorem step_intOp_val (W : World) {pc : Nat} {op : IntOp} (h : W.P[pc]? = some (.intOp op .top .top .top)) (L T a b out)
    {c : Int} (hv : I64.apply op.toI64 a b = .val c) :
    VM.step W.P (W.cfg pc L (T ++ [.int a, .int b]) out) = .ok (W.cfg (pc + 1) L (T ++ [.int c]) out) := by
  simp only [VM.step, World.cfg, h, loadReg, hpop2, hpop1, storeReg, getInt, hv, List.append_assoc]

theorem step_intOp_overflow (W : World) {pc : Nat} {op : IntOp} (h : W.P[pc]? = some (.intOp op .top .top .top)) (L T a b out)
    (hv : I64.apply op.toI64 a b = .overflow) :
    ∃ s2, VM.step W.P (W.cfg pc L (T ++ [.int a, .int b]) out) = .error .overflow s2 := by
  simp only [VM.step, World.cfg, h, loadReg, hpop2, hpop1, getInt, hv]
  exact ⟨_, rfl⟩

theorem step_intOp_divZero (W : World) {pc : Nat} {op : IntOp} (h : W.P[pc]? = some (.intOp op .top .top .top)) (L T a b out)
    (hv : I64.apply op.toI64 a b = .divZero) :
    ∃ s2, VM.step W.P (W.cfg pc L (T ++ [.int a, .int b]) out) = .error .divZero s2 := by
  simp only [VM.step, World.cfg, h, loadReg, hpop2, hpop1, getInt, hv]
  exact ⟨_, rfl⟩


/-! ### Part 2: values, environments, outcomes -/

inductive HasTy : Sem.Val → Ty → Prop where
  | int (n : Int) : HasTy (.int n) .int
  | bool (b : Bool) : HasTy (.bool b) .bool
  | unit : HasTy .unit .unit

def encV : Sem.Val → VM.Val
  | .int n => .int n
  | .bool b => .bool b
  | _ => .int 0

/-- what an expression of type `τ` leaves on the operand stack: nothing for void -/
def pushed (v : Sem.Val) : Ty → List VM.Val
  | .unit => []
  | _ => [encV v]

def encErr : Sem.Err → VM.Err
  | .overflow => .overflow
  | .divZero => .divZero
  | .oob => .oob
  | .panic => .panic

/-- the locals `L` hold the values of the environment at the slots the compiler assigned -/
inductive EnvRel (L : List VM.Val) : TEnv → Env → Prop where
  | nil : EnvRel L [] []
  | cons {Γ : TEnv} {ρ : Env} {x : String} {s : Nat} {t : Ty} {v : Sem.Val} :
      EnvRel L Γ ρ → HasTy v t → t ≠ .unit → L[s]? = some (encV v) → EnvRel L ((x, s, t) :: Γ) ((x, v) :: ρ)

/-- slots strictly decrease along the environment and stay below `n` (every `let` takes a fresh,
    larger slot) -/
def WfΓ : TEnv → Nat → Prop
  | [], _ => True
  | (_, s, _) :: Γ, n => s < n ∧ WfΓ Γ s

theorem WfΓ.mono {Γ : TEnv} {n m : Nat} (h : WfΓ Γ n) (hm : n ≤ m) : WfΓ Γ m := by
  cases Γ with
  | nil => trivial
  | cons e r => obtain ⟨x, s, t⟩ := e; exact ⟨Nat.lt_of_lt_of_le h.1 hm, h.2⟩

theorem find_slot_lt {Γ : TEnv} {n : Nat} (hw : WfΓ Γ n) {x : String} {s : Nat} {t : Ty}
    (hf : Γ.find x = some (s, t)) : s < n := by
  induction Γ generalizing n with
  | nil => simp [TEnv.find] at hf
  | cons e r ih =>
    obtain ⟨y, s', t'⟩ := e
    simp only [TEnv.find] at hf
    by_cases hxy : x = y
    · simp only [hxy, if_true, Option.some.injEq, Prod.mk.injEq] at hf
      have := hw.1
      omega
    · simp only [hxy, if_false] at hf
      exact Nat.lt_trans (ih hw.2 hf) hw.1

theorem EnvRel.length_eq {L : List VM.Val} {Γ : TEnv} {ρ : Env} (h : EnvRel L Γ ρ) : Γ.length = ρ.length := by
  induction h with
  | nil => rfl
  | cons _ _ _ _ ih => simp [ih]

theorem EnvRel.lookup {L : List VM.Val} {Γ : TEnv} {ρ : Env} (h : EnvRel L Γ ρ) {x : String} {s : Nat} {t : Ty}
    (hf : Γ.find x = some (s, t)) :
    ∃ v, Sem.lookup ρ x = some v ∧ HasTy v t ∧ t ≠ .unit ∧ L[s]? = some (encV v) := by
  induction h with
  | nil => simp [TEnv.find] at hf
  | @cons Γ ρ y s' t' v hr hty hne hl ih =>
    simp only [TEnv.find] at hf
    by_cases hxy : x = y
    · simp only [hxy, if_true, Option.some.injEq, Prod.mk.injEq] at hf
      obtain ⟨h1, h2⟩ := hf
      subst h1 h2
      exact ⟨v, by simp [Sem.lookup, hxy], hty, hne, hl⟩
    · simp only [hxy, if_false] at hf
      obtain ⟨w, hw, r⟩ := ih hf
      exact ⟨w, by simp [Sem.lookup, hxy, hw], r⟩

/-- writing a slot that no binding uses keeps the relation -/
theorem EnvRel.set_fresh {L : List VM.Val} {Γ : TEnv} {ρ : Env} (h : EnvRel L Γ ρ) {k : Nat} (w : VM.Val)
    (hw : WfΓ Γ k) : EnvRel (L.set k w) Γ ρ := by
  induction h generalizing k with
  | nil => exact .nil
  | @cons Γ ρ y s' t' v hr hty hne hl ih =>
    refine .cons (ih (WfΓ.mono hw.2 (Nat.le_of_lt hw.1))) hty hne ?_
    rw [List.getElem?_set_ne (by have := hw.1; omega)]
    exact hl

/-- assignment: the innermost binding of `x` and its slot change together -/
theorem EnvRel.update {L : List VM.Val} {Γ : TEnv} {ρ : Env} (h : EnvRel L Γ ρ) {n : Nat} (hw : WfΓ Γ n)
    {x : String} {s : Nat} {t : Ty} (hf : Γ.find x = some (s, t)) {v : Sem.Val} (hv : HasTy v t) (hs : s < L.length) :
    ∃ ρ', Sem.update ρ x v = some ρ' ∧ EnvRel (L.set s (encV v)) Γ ρ' := by
  induction h generalizing n with
  | nil => simp [TEnv.find] at hf
  | @cons Γ ρ y s' t' v' hr hty hne hl ih =>
    simp only [TEnv.find] at hf
    by_cases hxy : x = y
    · simp only [hxy, if_true, Option.some.injEq, Prod.mk.injEq] at hf
      obtain ⟨h1, h2⟩ := hf
      subst h1 h2
      refine ⟨(y, v) :: ρ, by simp [Sem.update, hxy], ?_⟩
      refine .cons (hr.set_fresh _ hw.2) hv hne ?_
      simp [List.getElem?_set_self hs]
    · simp only [hxy, if_false] at hf
      obtain ⟨ρ', hu, hr'⟩ := ih hw.2 hf
      refine ⟨(y, v') :: ρ', by simp [Sem.update, hxy, hu], ?_⟩
      refine .cons hr' hty hne ?_
      have hlt : s < s' := find_slot_lt hw.2 hf
      rw [List.getElem?_set_ne (by omega)]
      exact hl

def popEnv (ρ : Env) (len : Nat) : Env := ρ.drop (ρ.length - len)

theorem popEnv_self (ρ : Env) : popEnv ρ ρ.length = ρ := by simp [popEnv]

theorem popEnv_cons (e : String × Sem.Val) (ρ : Env) (len : Nat) (h : len ≤ ρ.length) :
    popEnv (e :: ρ) len = popEnv ρ len := by
  unfold popEnv
  have : (e :: ρ).length - len = (ρ.length - len) + 1 := by simp; omega
  rw [this]; rfl

theorem popEnv_length (ρ : Env) (len : Nat) (h : len ≤ ρ.length) : (popEnv ρ len).length = len := by
  simp [popEnv]; omega

theorem popEnv_popEnv (ρ : Env) (a b : Nat) (hab : a ≤ b) (hb : b ≤ ρ.length) :
    popEnv (popEnv ρ b) a = popEnv ρ a := by
  unfold popEnv
  rw [List.drop_drop]
  congr 1
  simp
  omega

theorem St.popTo_env (s : St) (len : Nat) : (s.popTo len).env = popEnv s.env len := rfl
theorem St.popTo_out (s : St) (len : Nat) : (s.popTo len).out = s.out := rfl

/-- the operand temporaries `T` without the `d` operands pushed since the body of the enclosing loop began:
    what `break`/`continue` leave on the stack (fix 0c43abd: they emit that many `Pop`s before the jump) -/
def dropPending (T : List VM.Val) (d : Nat) : List VM.Val := T.take (T.length - d)

@[simp] theorem dropPending_zero (T : List VM.Val) : dropPending T 0 = T := by simp [dropPending]

theorem dropPending_snoc (T : List VM.Val) (x : VM.Val) (d : Nat) : dropPending (T ++ [x]) (d + 1) = dropPending T d := by
  unfold dropPending
  have : (T ++ [x]).length - (d + 1) = T.length - d := by simp
  rw [this, List.take_append_of_le_length (by omega)]

/-- `d` pops in a row drop the `d` pending operands -/
theorem steps_pops (W : World) (lc : Nat × Nat) : ∀ (d pos : Nat) (L T : List VM.Val) (out : List String),
    d ≤ T.length → codeAt W.P pos (resolveAt pos lc (List.replicate d .pop)) →
    Steps W.P (W.cfg pos L T out) (W.cfg (pos + d) L (dropPending T d) out) := by
  intro d
  induction d with
  | zero => intro pos L T out _ _; simp only [dropPending_zero, Nat.add_zero]; exact .refl _
  | succ d ih =>
    intro pos L T out hd hcode
    rcases List.eq_nil_or_concat T with rfl | ⟨T', v, rfl⟩
    · simp at hd
    · simp only [List.concat_eq_append] at hd ⊢
      simp only [List.replicate_succ, resolveAt] at hcode
      have h0 : W.P[pos]? = some .pop := codeAt_head hcode
      have hrest := codeAt_tail hcode
      rw [dropPending_snoc]
      have hd' : d ≤ T'.length := by simp at hd; omega
      have := ih (pos + 1) L T' out hd' hrest
      have e : pos + 1 + d = pos + (d + 1) := by omega
      rw [e] at this
      exact (Steps.single (step_pop W h0 L T' v out)).trans this

/-- the shape shared by the three simulation statements; `d` = operands pending since the body of the enclosing
    loop began: a `break`/`continue` reaches the loop's exit/entry with exactly those dropped -/
def Out (W : World) (lc : Nat × Nat) (d : Nat) (pos endpc : Nat) (L T : List VM.Val) (out0 : List String)
    (res : Sem.Val → List VM.Val) (envOk envSig : List VM.Val → Env → Prop) (valOk : Sem.Val → Prop) :
    Res Sem.Val → Prop
  | .ok v st' => ∃ L', Steps W.P (W.cfg pos L T out0) (W.cfg endpc L' (T ++ res v) st'.out)
        ∧ envOk L' st'.env ∧ L'.length = L.length ∧ valOk v
  | .sig .brk st' => ∃ L', Steps W.P (W.cfg pos L T out0) (W.cfg lc.2 L' (dropPending T d) st'.out)
        ∧ envSig L' st'.env ∧ L'.length = L.length
  | .sig .cont st' => ∃ L', Steps W.P (W.cfg pos L T out0) (W.cfg lc.1 L' (dropPending T d) st'.out)
        ∧ envSig L' st'.env ∧ L'.length = L.length
  | .sig (.err k) st' => ∃ s1 s2, Steps W.P (W.cfg pos L T out0) s1 ∧ VM.step W.P s1 = .error (encErr k) s2
        ∧ s1.out = st'.out
  | .sig (.ret _) _ => False    -- F0 has no `return`: never produced
  | .timeout => True
  | .stuck _ => True

end Abra.Compile
