import AbraModel.CallOrder
/-! Helper lemmas for C18: what `update_function_arg_info` computes, the two phases of the decision
loop (positional prefix, then named arguments) and the slot vector of the reorder. -/
namespace Abra.CallOrder

variable {ν : Type} [DecidableEq ν] {α : Type}

/-! ### small set operations -/

theorem mem_setInsert (s : List ν) (x y : ν) : y ∈ setInsert s x ↔ y = x ∨ y ∈ s := by
  unfold setInsert
  split
  · constructor
    · intro h; exact Or.inr h
    · rintro (rfl | h)
      · assumption
      · exact h
  · simp

theorem mem_setRemove (s : List ν) (x y : ν) : y ∈ setRemove s x ↔ y ∈ s ∧ y ≠ x := by
  simp [setRemove]

theorem idIndex_getElem (l : List ν) (hnd : l.Nodup) (j : Nat) (h : j < l.length) :
    idIndex l l[j] = some j := by
  induction l generalizing j with
  | nil => simp at h
  | cons y ys ih =>
    cases j with
    | zero => simp [idIndex]
    | succ j =>
      have hnd' := List.nodup_cons.1 hnd
      have hj : j < ys.length := by simpa using h
      have hne : y ≠ ys[j] := by
        intro he; apply hnd'.1; rw [he]; exact List.getElem_mem _
      simp [idIndex, hne, ih hnd'.2 j hj]

theorem idIndex_lt (l : List ν) (x : ν) (j : Nat) (h : idIndex l x = some j) :
    ∃ hj : j < l.length, l[j] = x := by
  induction l generalizing j with
  | nil => simp [idIndex] at h
  | cons y ys ih =>
    simp only [idIndex] at h
    split at h
    · cases h; exact ⟨by simp, by simpa⟩
    · cases hi : idIndex ys x with
      | none => simp [hi] at h
      | some m =>
        simp [hi] at h
        subst h
        obtain ⟨hm, he⟩ := ih m hi
        exact ⟨by simpa using hm, by simpa using he⟩

theorem idIndex_of_mem (l : List ν) (x : ν) (h : x ∈ l) : ∃ j, idIndex l x = some j := by
  induction l with
  | nil => simp at h
  | cons y ys ih =>
    simp only [idIndex]
    by_cases hy : y = x
    · exact ⟨0, by simp [hy]⟩
    · have : x ∈ ys := by
        rcases List.mem_cons.1 h with h | h
        · exact absurd h.symm hy
        · exact h
      obtain ⟨j, hj⟩ := ih this
      exact ⟨j + 1, by simp [hy, hj]⟩

/-! ### `update_function_arg_info` -/

theorem mkInfoAux_symbols (ps : List (Param ν)) (i : Nat) (acc : Info ν) (x : ν) :
    x ∈ (mkInfoAux i ps acc).symbols ↔ x ∈ ps.map (·.name) ∨ x ∈ acc.symbols := by
  induction ps generalizing i acc with
  | nil => simp [mkInfoAux]
  | cons p ps ih =>
    simp only [mkInfoAux]
    split <;> (rw [ih]; simp; grind)

theorem mkInfoAux_argIndices (ps : List (Param ν)) (i : Nat) (acc : Info ν)
    (hnd : (acc.argIndices ++ ps.map (·.name)).Nodup) :
    (mkInfoAux i ps acc).argIndices = acc.argIndices ++ ps.map (·.name) := by
  induction ps generalizing i acc with
  | nil => simp [mkInfoAux]
  | cons p ps ih =>
    simp only [mkInfoAux]
    have hp : p.name ∉ acc.argIndices := by
      intro hm
      have := List.nodup_append.1 hnd
      exact this.2.2 _ hm _ (by simp) rfl
    split <;> (rw [ih] <;> simp [idInsert, hp] <;> simpa [List.append_assoc] using hnd)

theorem mkInfoAux_required (ps : List (Param ν)) (i : Nat) (acc : Info ν) (x : ν) :
    x ∈ (mkInfoAux i ps acc).required ↔
      (∃ p ∈ ps, p.name = x ∧ p.hasDefault = false) ∨ x ∈ acc.required := by
  induction ps generalizing i acc with
  | nil => simp [mkInfoAux]
  | cons p ps ih =>
    simp only [mkInfoAux]
    split
    · rename_i hd
      rw [ih]; simp
      constructor
      · rintro (⟨q, hq, h1, h2⟩ | h)
        · exact Or.inl (Or.inr ⟨q, hq, h1, h2⟩)
        · exact Or.inr h
      · rintro ((⟨h1, h2⟩ | ⟨q, hq, h1, h2⟩) | h)
        · simp [hd] at h2
        · exact Or.inl ⟨q, hq, h1, h2⟩
        · exact Or.inr h
    · rename_i hd
      rw [ih]; simp [mem_setInsert]
      constructor
      · rintro (⟨q, hq, h1, h2⟩ | h | h)
        · exact Or.inl (Or.inr ⟨q, hq, h1, h2⟩)
        · exact Or.inl (Or.inl ⟨h.symm, by simpa using hd⟩)
        · exact Or.inr h
      · rintro ((⟨h1, h2⟩ | ⟨q, hq, h1, h2⟩) | h)
        · exact Or.inr (Or.inl h1.symm)
        · exact Or.inl ⟨q, hq, h1, h2⟩
        · exact Or.inr (Or.inr h)

theorem mkInfoAux_defaults (ps : List (Param ν)) (i : Nat) (acc : Info ν) (j : Nat) :
    j ∈ (mkInfoAux i ps acc).defaults ↔
      (∃ m, ∃ h : m < ps.length, j = i + m ∧ ps[m].hasDefault = true) ∨ j ∈ acc.defaults := by
  induction ps generalizing i acc with
  | nil => simp [mkInfoAux]
  | cons p ps ih =>
    simp only [mkInfoAux]
    split
    · rename_i hd
      rw [ih]
      constructor
      · rintro (⟨m, hm, h1, h2⟩ | h)
        · exact Or.inl ⟨m + 1, by simpa using hm, by omega, by simpa using h2⟩
        · rcases List.mem_append.1 h with h | h
          · exact Or.inr h
          · exact Or.inl ⟨0, by simp, by simpa using h, by simpa using hd⟩
      · rintro (⟨m, hm, h1, h2⟩ | h)
        · cases m with
          | zero => exact Or.inr (List.mem_append.2 (Or.inr (by simpa using h1)))
          | succ m =>
            exact Or.inl ⟨m, by simpa using hm, by omega, by simpa using h2⟩
        · exact Or.inr (List.mem_append.2 (Or.inl h))
    · rename_i hd
      rw [ih]
      constructor
      · rintro (⟨m, hm, h1, h2⟩ | h)
        · exact Or.inl ⟨m + 1, by simpa using hm, by omega, by simpa using h2⟩
        · exact Or.inr h
      · rintro (⟨m, hm, h1, h2⟩ | h)
        · cases m with
          | zero => simp at h2; simp [h2] at hd
          | succ m =>
            exact Or.inl ⟨m, by simpa using hm, by omega, by simpa using h2⟩
        · exact Or.inr h


theorem mkInfoAux_len (ps : List (Param ν)) (i : Nat) (acc : Info ν)
    (hnd : (ps.map (·.name)).Nodup) (hdis : ∀ x ∈ acc.required, x ∉ ps.map (·.name)) :
    (mkInfoAux i ps acc).required.length + (mkInfoAux i ps acc).defaults.length
      = acc.required.length + acc.defaults.length + ps.length := by
  induction ps generalizing i acc with
  | nil => simp [mkInfoAux]
  | cons p ps ih =>
    simp only [mkInfoAux]
    have hnd' : p.name ∉ ps.map (·.name) ∧ (ps.map (·.name)).Nodup := List.nodup_cons.1 hnd
    split
    · rw [ih]
      · simp; omega
      · exact hnd'.2
      · intro x hx; have := hdis x hx; simp at this ⊢; grind
    · rw [ih]
      · have : p.name ∉ acc.required := by
          intro h; have := hdis _ h; simp at this
        simp [setInsert, this]; omega
      · exact hnd'.2
      · intro x hx
        simp [mem_setInsert] at hx
        rcases hx with rfl | hx
        · simpa using hnd'.1
        · have := hdis x hx; simp at this ⊢; grind

structure InfoOk (info : Info ν) (ps : List (Param ν)) : Prop where
  sym : ∀ x, x ∈ info.symbols ↔ x ∈ ps.map (·.name)
  idx : info.argIndices = ps.map (·.name)
  req : ∀ x, x ∈ info.required ↔ ∃ p ∈ ps, p.name = x ∧ p.hasDefault = false
  dfl : ∀ j, j ∈ info.defaults ↔ ∃ h : j < ps.length, ps[j].hasDefault = true
  nargs : info.nargs = ps.length

theorem mkInfo_ok (ps : List (Param ν)) (hnd : (ps.map (·.name)).Nodup) :
    InfoOk (mkInfo false ps) ps := by
  constructor
  · intro x; simp [mkInfo, mkInfoAux_symbols]
  · simp only [mkInfo]; rw [mkInfoAux_argIndices] <;> simp [hnd]
  · intro x; simp [mkInfo, mkInfoAux_required]
  · intro j; simp [mkInfo, mkInfoAux_defaults]
  · simp only [mkInfo]; rw [mkInfoAux_len] <;> simp [hnd]

/-! ### the decision loop, phase 1: the positional prefix -/

theorem loop_pos (info : Info ν) (pos rest : List (Arg ν α)) (hpos : ∀ a ∈ pos, a.name = none)
    (i : Nat) (s : St ν) (hs : s.named = false) :
    ∃ s' : St ν, loop info i (pos ++ rest) s = loop info (i + pos.length) rest s' ∧
      s'.named = false ∧ s'.unknown = s.unknown ∧ s'.diags = s.diags ∧
      (∀ x, x ∈ s'.seen ↔ x ∈ s.seen ∨ ∃ j, i ≤ j ∧ j < i + pos.length ∧ info.argIndices[j]? = some x) ∧
      (∀ x, x ∈ s'.missing ↔ x ∈ s.missing ∧ ¬ ∃ j, i ≤ j ∧ j < i + pos.length ∧ info.argIndices[j]? = some x) ∧
      (s'.surplus = 0 ↔ s.surplus = 0 ∧ (pos = [] ∨ i + pos.length ≤ info.argIndices.length)) := by
  induction pos generalizing i s with
  | nil =>
    refine ⟨s, by simp, hs, rfl, rfl, ?_, ?_, by simp⟩
    · intro x; constructor
      · intro h; exact Or.inl h
      · rintro (h | ⟨j, h1, h2, _⟩)
        · exact h
        · simp at h2; omega
    · intro x; constructor
      · intro h; exact ⟨h, by rintro ⟨j, h1, h2, _⟩; simp at h2; omega⟩
      · intro h; exact h.1
  | cons a pos ih =>
    have ha : a.name = none := hpos a (by simp)
    have hpos' : ∀ b ∈ pos, b.name = none := fun b hb => hpos b (by simp [hb])
    simp only [List.cons_append, loop]
    cases hi : info.argIndices[i]? with
    | none =>
      have hstep : stepArg info i a s = { s with surplus := s.surplus + 1 } := by
        simp [stepArg, ha, hs, hi]
      obtain ⟨s', h1, h2, h3, h3', h4, h5, h6⟩ := ih hpos' (i + 1) (stepArg info i a s) (by simp [hstep, hs])
      refine ⟨s', by rw [h1]; congr 1; simp; omega, h2, by simp [h3, hstep], by simp [h3', hstep], ?_, ?_, ?_⟩
      · intro x; rw [h4]; simp only [hstep]
        have hlen : info.argIndices.length ≤ i := by simpa using hi
        constructor
        · rintro (h | ⟨j, hj1, hj2, hj3⟩)
          · exact Or.inl h
          · exact Or.inr ⟨j, by omega, by simp; omega, hj3⟩
        · rintro (h | ⟨j, hj1, hj2, hj3⟩)
          · exact Or.inl h
          · have := (List.getElem?_eq_some_iff.1 hj3).1; omega
      · intro x; rw [h5]; simp only [hstep]
        have hlen : info.argIndices.length ≤ i := by simpa using hi
        constructor
        · rintro ⟨h, hn⟩
          refine ⟨h, ?_⟩
          rintro ⟨j, hj1, hj2, hj3⟩
          have := (List.getElem?_eq_some_iff.1 hj3).1; omega
        · rintro ⟨h, hn⟩
          refine ⟨h, ?_⟩
          rintro ⟨j, hj1, hj2, hj3⟩
          have := (List.getElem?_eq_some_iff.1 hj3).1; omega
      · rw [h6]; simp [hstep]
        have hlen : info.argIndices.length ≤ i := by simpa using hi
        omega
    | some n =>
      have hstep : stepArg info i a s =
          { s with seen := setInsert s.seen n, missing := setRemove s.missing n } := by
        simp [stepArg, ha, hs, hi]
      obtain ⟨s', h1, h2, h3, h3', h4, h5, h6⟩ := ih hpos' (i + 1) (stepArg info i a s) (by simp [hstep, hs])
      have hlt : i < info.argIndices.length := (List.getElem?_eq_some_iff.1 hi).1
      refine ⟨s', by rw [h1]; congr 1; simp; omega, h2, by simp [h3, hstep], by simp [h3', hstep], ?_, ?_, ?_⟩
      · intro x; rw [h4]; simp only [hstep, mem_setInsert]
        constructor
        · rintro ((h | h) | ⟨j, hj1, hj2, hj3⟩)
          · exact Or.inr ⟨i, by omega, by simp, by rw [hi, h]⟩
          · exact Or.inl h
          · exact Or.inr ⟨j, by omega, by simp; omega, hj3⟩
        · rintro (h | ⟨j, hj1, hj2, hj3⟩)
          · exact Or.inl (Or.inr h)
          · by_cases hji : j = i
            · subst hji; rw [hi] at hj3; exact Or.inl (Or.inl (by simpa using hj3.symm))
            · exact Or.inr ⟨j, by omega, by simp at hj2; omega, hj3⟩
      · intro x; rw [h5]; simp only [hstep, mem_setRemove]
        constructor
        · rintro ⟨⟨h, hne⟩, hn⟩
          refine ⟨h, ?_⟩
          rintro ⟨j, hj1, hj2, hj3⟩
          by_cases hji : j = i
          · subst hji; rw [hi] at hj3; exact hne (by simpa using hj3.symm)
          · exact hn ⟨j, by omega, by simp at hj2; omega, hj3⟩
        · rintro ⟨h, hn⟩
          refine ⟨⟨h, ?_⟩, ?_⟩
          · rintro rfl; exact hn ⟨i, by omega, by simp, hi⟩
          · rintro ⟨j, hj1, hj2, hj3⟩; exact hn ⟨j, by omega, by simp; omega, hj3⟩
      · rw [h6]; simp [hstep]
        intro _
        constructor
        · rintro (h | h)
          · subst h; simp; omega
          · omega
        · intro h; right; omega

/-! ### phase 2: after the first named argument -/

theorem stepArg_named (info : Info ν) (i : Nat) (a : Arg ν α) (s : St ν) (n : ν) (ha : a.name = some n) :
    stepArg info i a s =
      { named := true, unknown := s.unknown || !(n ∈ info.argIndices), surplus := s.surplus,
        seen := setInsert s.seen n, missing := setRemove s.missing n,
        diags := (if n ∈ s.seen then
                    (if n ∈ info.symbols then s.diags else s.diags ++ [Diag.unknown]) ++ [Diag.dup]
                  else (if n ∈ info.symbols then s.diags else s.diags ++ [Diag.unknown])) } := by
  simp [stepArg, ha]

theorem loop_named (info : Info ν) (rest : List (Arg ν α)) (i : Nat) (s : St ν)
    (hs : s.named = true ∨ ∀ a, rest.head? = some a → a.name ≠ none) :
    (∀ x, x ∈ (loop info i rest s).missing ↔ x ∈ s.missing ∧ x ∉ rest.filterMap (·.name)) ∧
    ((loop info i rest s).diags = [] ↔
        s.diags = [] ∧ (∀ a ∈ rest, ∃ n, a.name = some n ∧ n ∈ info.symbols ∧ n ∉ s.seen) ∧
          (rest.filterMap (·.name)).Nodup) ∧
    ((loop info i rest s).diags = [] → (∀ x ∈ info.symbols, x ∈ info.argIndices) →
        (loop info i rest s).unknown = s.unknown) ∧
    (loop info i rest s).surplus = s.surplus := by
  induction rest generalizing i s with
  | nil => simp [loop]
  | cons a rest ih =>
    simp only [loop]
    cases ha : a.name with
    | none =>
      have hs : s.named = true := by
        rcases hs with hs | hs
        · exact hs
        · exact absurd ha (hs a (by simp))
      have hstep : stepArg info i a s = { s with diags := s.diags ++ [Diag.posAfter] } := by
        simp [stepArg, ha, hs]
      obtain ⟨h1, h2, h3, h4⟩ := ih (i + 1) (stepArg info i a s) (Or.inl (by simp [hstep, hs]))
      refine ⟨?_, ?_, ?_, by rw [h4, hstep]⟩
      · intro x; rw [h1]; simp [hstep, ha]
      · rw [h2]; simp [hstep, ha]
      · intro h; rw [h2] at h; simp [hstep] at h
    | some n =>
      have hstep := stepArg_named info i a s n ha
      obtain ⟨h1, h2, h3, h4⟩ := ih (i + 1) (stepArg info i a s) (Or.inl (by simp [hstep]))
      refine ⟨?_, ?_, ?_, by rw [h4, hstep]⟩
      · intro x; rw [h1]; simp [hstep, ha, mem_setRemove]; grind
      · rw [h2]; simp only [hstep, mem_setInsert]
        by_cases hseen : n ∈ s.seen
        · constructor
          · rintro ⟨h, _⟩; simp [hseen] at h
          · rintro ⟨_, hall, _⟩
            obtain ⟨m, hm1, _, hm3⟩ := hall a (by simp)
            rw [ha] at hm1; cases hm1; exact absurd hseen hm3
        · by_cases hsym : n ∈ info.symbols
          · simp [hseen, hsym, ha]
            intro _
            constructor
            · rintro ⟨hall, hnd⟩
              refine ⟨?_, ?_, hnd⟩
              · intro b hb
                obtain ⟨m, hm1, hm2, hm3⟩ := hall b hb
                exact ⟨m, hm1, hm2, hm3.2⟩
              · intro b hb hbn
                obtain ⟨m, hm1, hm2, hm3⟩ := hall b hb
                rw [hm1] at hbn; simp at hbn; exact hm3.1 hbn
            · rintro ⟨hall, hnot, hnd⟩
              refine ⟨?_, hnd⟩
              intro b hb
              obtain ⟨m, hm1, hm2, hm3⟩ := hall b hb
              refine ⟨m, hm1, hm2, ?_, hm3⟩
              rintro rfl; exact hnot b hb hm1
          · simp [hseen, hsym, ha]
      · intro h hsub
        have h' := h
        rw [h2] at h'
        rw [h3 h hsub]
        simp only [hstep] at h' ⊢
        by_cases hseen : n ∈ s.seen
        · simp [hseen] at h'
        · by_cases hsym : n ∈ info.symbols
          · simp [hsub n hsym]
          · simp [hseen, hsym] at h'
theorem head_dropWhile {β : Type} (p : β → Bool) (l : List β) (a : β)
    (h : (l.dropWhile p).head? = some a) : p a = false := by
  induction l with
  | nil => simp at h
  | cons b l ih =>
    simp only [List.dropWhile_cons] at h
    split at h
    · exact ih h
    · simp at h; subst h; simpa using ‹¬ p b = true›

omit [DecidableEq ν] in
theorem filterMap_name_takeWhile (args : List (Arg ν α)) :
    (args.takeWhile (·.name.isNone)).filterMap (·.name) = [] := by
  induction args with
  | nil => simp
  | cons a args ih =>
    simp only [List.takeWhile_cons]
    split
    · rename_i h
      have : a.name = none := by simpa using h
      simp [this, ih]
    · simp


/-- number of leading positional arguments -/
def posCount (args : List (Arg ν α)) : Nat := (args.takeWhile (·.name.isNone)).length
/-- the names used at the call, in source order -/
def namedNames (args : List (Arg ν α)) : List ν := args.filterMap (·.name)

/-- the property's notion of a well-formed call (independent of the decision loop) -/
structure WellFormed (ps : List (Param ν)) (args : List (Arg ν α)) : Prop where
  pos_first : ∀ a ∈ args.dropWhile (·.name.isNone), a.name ≠ none
  pos_le : posCount args ≤ ps.length
  names_known : ∀ n ∈ namedNames args, n ∈ ps.map (·.name)
  named_once : (namedNames args).Nodup
  not_both : ∀ n ∈ namedNames args, n ∉ (ps.map (·.name)).take (posCount args)
  required_given : ∀ p ∈ ps.drop (posCount args), p.hasDefault = false → p.name ∈ namedNames args

theorem decideInfo_diags_nil (info : Info ν) (args : List (Arg ν α)) :
    (decideInfo info args).diags = [] ↔
      (loop info 0 args { named := false, unknown := false, surplus := 0, seen := [], missing := info.required, diags := [] }).surplus = 0 ∧
      (loop info 0 args { named := false, unknown := false, surplus := 0, seen := [], missing := info.required, diags := [] }).missing = [] ∧
      (loop info 0 args { named := false, unknown := false, surplus := 0, seen := [], missing := info.required, diags := [] }).diags = [] := by
  simp only [decideInfo]
  split
  · rename_i h; simp at h; simp [h]
  · rename_i h0; simp at h0
    split
    · rename_i h; simp at h; simp [h]
    · rename_i h; simp at h
      split <;> simp [h, h0]

theorem of_mem_takeWhile {β : Type} (p : β → Bool) (l : List β) (a : β) (h : a ∈ l.takeWhile p) :
    p a = true := by
  induction l with
  | nil => simp at h
  | cons b l ih =>
    simp only [List.takeWhile_cons] at h
    split at h
    · rcases List.mem_cons.1 h with rfl | h
      · assumption
      · exact ih h
    · simp at h

omit [DecidableEq ν] in
theorem mem_take_iff (l : List ν) (k : Nat) (x : ν) :
    x ∈ l.take k ↔ ∃ j, 0 ≤ j ∧ j < 0 + k ∧ l[j]? = some x := by
  constructor
  · intro h
    obtain ⟨j, hj, he⟩ := List.mem_iff_getElem.1 h
    simp at hj
    refine ⟨j, by omega, by omega, ?_⟩
    rw [List.getElem?_eq_some_iff]
    exact ⟨by omega, by simpa using he⟩
  · rintro ⟨j, _, hj, he⟩
    obtain ⟨hl, he⟩ := List.getElem?_eq_some_iff.1 he
    rw [List.mem_iff_getElem]
    exact ⟨j, by simp; omega, by simpa using he⟩

theorem namedNames_dropWhile (args : List (Arg ν α)) :
    namedNames args = (args.dropWhile (·.name.isNone)).filterMap (·.name) := by
  have hsplit : args = args.takeWhile (·.name.isNone) ++ args.dropWhile (·.name.isNone) :=
    (List.takeWhile_append_dropWhile).symm
  unfold namedNames
  conv => lhs; rw [hsplit]
  rw [List.filterMap_append, filterMap_name_takeWhile]; simp

theorem loop_final (ps : List (Param ν)) (args : List (Arg ν α)) (info : Info ν) (hok : InfoOk info ps) :
    let s := loop info 0 args { named := false, unknown := false, surplus := 0, seen := [], missing := info.required, diags := [] }
    (∀ x, x ∈ s.missing ↔ x ∈ info.required ∧ x ∉ (ps.map (·.name)).take (posCount args) ∧ x ∉ namedNames args) ∧
    (s.surplus = 0 ↔ (posCount args = 0 ∨ posCount args ≤ ps.length)) ∧
    (s.diags = [] ↔
        (∀ a ∈ args.dropWhile (·.name.isNone), ∃ n, a.name = some n ∧ n ∈ ps.map (·.name) ∧
            n ∉ (ps.map (·.name)).take (posCount args)) ∧ (namedNames args).Nodup) ∧
    (s.diags = [] → s.unknown = false) := by
  intro s
  have hsplit : args = args.takeWhile (·.name.isNone) ++ args.dropWhile (·.name.isNone) :=
    (List.takeWhile_append_dropWhile).symm
  have hpos : ∀ a ∈ args.takeWhile (·.name.isNone), a.name = none := by
    intro a ha; simpa using of_mem_takeWhile _ _ _ ha
  obtain ⟨s1, h1, h2, h3, h3', h4, h5, h6⟩ := loop_pos info _ (args.dropWhile (·.name.isNone)) hpos 0
    { named := false, unknown := false, surplus := 0, seen := [], missing := info.required, diags := [] } rfl
  have hs : s = loop info (0 + posCount args) (args.dropWhile (·.name.isNone)) s1 := by
    show loop info 0 args _ = _
    unfold posCount
    rw [← h1]
    exact congrArg (fun l => loop info 0 l _) hsplit
  obtain ⟨g1, g2, g3, g4⟩ := loop_named info (args.dropWhile (·.name.isNone)) (0 + posCount args) s1
    (Or.inr (fun a ha hn => by have := head_dropWhile _ _ _ ha; simp [hn] at this))
  have hnames : namedNames args = (args.dropWhile (·.name.isNone)).filterMap (·.name) := by
    unfold namedNames
    conv => lhs; rw [hsplit]
    rw [List.filterMap_append, filterMap_name_takeWhile]; simp
  rw [hs]
  simp only [hok.idx] at h4 h5 h6
  refine ⟨?_, ?_, ?_, ?_⟩
  · intro x
    rw [g1, h5, hnames, mem_take_iff]
    simp [posCount, and_assoc]
  · rw [g4, h6]
    simp [posCount]
  · rw [g2, h3', hnames]
    simp only [true_and]
    constructor
    · rintro ⟨hall, hnd⟩
      refine ⟨?_, hnd⟩
      intro a ha
      obtain ⟨n, hn1, hn2, hn3⟩ := hall a ha
      refine ⟨n, hn1, (hok.sym n).1 hn2, ?_⟩
      intro hmem
      apply hn3
      rw [h4]; right
      have := (mem_take_iff _ _ _).1 hmem
      simpa [posCount] using this
    · rintro ⟨hall, hnd⟩
      refine ⟨?_, hnd⟩
      intro a ha
      obtain ⟨n, hn1, hn2, hn3⟩ := hall a ha
      refine ⟨n, hn1, (hok.sym n).2 hn2, ?_⟩
      intro hmem
      rw [h4] at hmem
      rcases hmem with hmem | hmem
      · simp at hmem
      · apply hn3
        rw [mem_take_iff]
        simpa [posCount] using hmem
  · intro hd
    rw [g3 hd (fun x hx => by rw [hok.idx]; exact (hok.sym x).1 hx), h3]

/-! ### the slot vector of `calculate_named_arg_order` -/

theorem placeAt_length (sl : List (Option (Entry α))) (j : Nat) (v : Entry α) :
    (placeAt sl j v).length = sl.length := by
  unfold placeAt; split <;> simp

theorem placeAt_getElem? (sl : List (Option (Entry α))) (j : Nat) (v : Entry α) (m : Nat) :
    (placeAt sl j v)[m]? = if m = j ∧ j < sl.length then some (some v) else sl[m]? := by
  unfold placeAt
  by_cases hj : j < sl.length
  · by_cases hm : m = j
    · subst hm; simp [hj]
    · simp [hj, hm, List.getElem?_set, Ne.symm hm]
  · simp [hj]

theorem place_length (info : Info ν) (sl : List (Option (Entry α))) (i : Nat) (a : Arg ν α) :
    (place info sl i a).length = sl.length := by
  unfold place
  split
  · split
    · exact placeAt_length _ _ _
    · rfl
  · exact placeAt_length _ _ _

theorem placeAll_length (info : Info ν) (as : List (Arg ν α)) (i : Nat) (sl : List (Option (Entry α))) :
    (placeAll info i as sl).length = sl.length := by
  induction as generalizing i sl with
  | nil => rfl
  | cons a as ih => simp [placeAll, ih, place_length]

theorem placeAll_append (info : Info ν) (l1 l2 : List (Arg ν α)) (i : Nat) (sl : List (Option (Entry α))) :
    placeAll info i (l1 ++ l2) sl = placeAll info (i + l1.length) l2 (placeAll info i l1 sl) := by
  induction l1 generalizing i sl with
  | nil => simp [placeAll]
  | cons a l1 ih =>
    simp only [List.cons_append, placeAll, ih, List.length_cons]
    congr 1; omega

theorem placeAll_pos (info : Info ν) (pos : List (Arg ν α)) (hpos : ∀ a ∈ pos, a.name = none)
    (i : Nat) (sl : List (Option (Entry α))) (j : Nat) :
    (placeAll info i pos sl)[j]? =
      match (if i ≤ j then pos[j - i]? else none) with
      | some a => if j < sl.length then some (some (Entry.arg a.val)) else none
      | none => sl[j]? := by
  induction pos generalizing i sl with
  | nil => simp [placeAll]
  | cons a pos ih =>
    have ha : a.name = none := hpos a (by simp)
    have hpos' : ∀ b ∈ pos, b.name = none := fun b hb => hpos b (by simp [hb])
    simp only [placeAll]
    rw [ih hpos']
    have hpl : place info sl i a = placeAt sl i (Entry.arg a.val) := by
      simp [place, ha]
    rw [place_length, hpl, placeAt_getElem?]
    by_cases hji : j = i
    · subst hji
      have h1 : ¬ (j + 1 ≤ j) := by omega
      simp only [h1, if_false, Nat.le_refl, if_true, Nat.sub_self, List.getElem?_cons_zero, true_and]
      split
      · rfl
      · rename_i h; simp at h
        simp [List.getElem?_eq_none_iff.2 h]
    · by_cases hlt : i < j
      · have h1 : i + 1 ≤ j := by omega
        have h2 : i ≤ j := by omega
        have h3 : j - i = (j - (i + 1)) + 1 := by omega
        simp only [h1, h2, if_true, h3, List.getElem?_cons_succ, hji, false_and, if_false]
      · have h1 : ¬ (i + 1 ≤ j) := by omega
        have h2 : ¬ (i ≤ j) := by omega
        simp only [h1, h2, if_false, hji, false_and]

theorem placeAll_named (info : Info ν) (hN : info.argIndices.Nodup) (rest : List (Arg ν α))
    (hall : ∀ a ∈ rest, ∃ n, a.name = some n ∧ n ∈ info.argIndices)
    (hnd : (rest.filterMap (·.name)).Nodup) (i : Nat) (sl : List (Option (Entry α)))
    (hlen : sl.length = info.argIndices.length) (j : Nat) (hj : j < info.argIndices.length) :
    (placeAll info i rest sl)[j]? =
      match rest.find? (fun a => a.name = some info.argIndices[j]) with
      | some a => some (some (Entry.arg a.val))
      | none => sl[j]? := by
  induction rest generalizing i sl with
  | nil => simp [placeAll]
  | cons a rest ih =>
    obtain ⟨n, han, hn⟩ := hall a (by simp)
    have hall' : ∀ b ∈ rest, ∃ n, b.name = some n ∧ n ∈ info.argIndices :=
      fun b hb => hall b (by simp [hb])
    have hnd' : (rest.filterMap (·.name)).Nodup ∧ n ∉ rest.filterMap (·.name) := by
      simp only [List.filterMap_cons, han] at hnd
      have := List.nodup_cons.1 hnd
      exact ⟨this.2, this.1⟩
    obtain ⟨m, hm⟩ := idIndex_of_mem _ _ hn
    obtain ⟨hml, hmn⟩ := idIndex_lt _ _ _ hm
    have hpl : place info sl i a = placeAt sl m (Entry.arg a.val) := by
      simp [place, han, hm]
    simp only [placeAll]
    rw [ih hall' hnd'.1 (i + 1) _ (by rw [place_length, hlen]), hpl, placeAt_getElem?]
    simp only [List.find?_cons]
    by_cases hmj : j = m
    · subst hmj
      have hp : (Decidable.decide (a.name = some info.argIndices[j])) = true := by simp [han, hmn]
      have hnone : rest.find? (fun a => a.name = some info.argIndices[j]) = none := by
        rw [List.find?_eq_none]
        intro b hb hbn
        apply hnd'.2
        rw [List.mem_filterMap]
        exact ⟨b, hb, by simpa [hmn] using hbn⟩
      simp [hp, hnone, hlen, hml]
    · have hp : (Decidable.decide (a.name = some info.argIndices[j])) = false := by
        simp only [han, decide_eq_false_iff_not, Option.some.injEq]
        intro he
        apply hmj
        have h1 := idIndex_getElem _ hN j hj
        rw [← he, hm] at h1
        simpa using h1.symm
      simp [hp, hmj]

theorem fillOne_length (sl : List (Option (Entry α))) (d : Nat) : (fillOne sl d).length = sl.length := by
  unfold fillOne; split <;> simp

theorem fillOne_getElem?_ne (sl : List (Option (Entry α))) (d j : Nat) (h : j ≠ d) :
    (fillOne sl d)[j]? = sl[j]? := by
  unfold fillOne
  split
  · simp [List.getElem?_set, Ne.symm h]
  · rfl

theorem fillOne_getElem?_self (sl : List (Option (Entry α))) (d : Nat) (h : sl[d]? = some none) :
    (fillOne sl d)[d]? = some (some (Entry.dflt d)) := by
  have hlt : d < sl.length := (List.getElem?_eq_some_iff.1 h).1
  unfold fillOne
  split
  · simp [hlt]
  · rename_i hh; exact absurd h (hh)

theorem fillOne_eq_self (sl : List (Option (Entry α))) (d : Nat) (h : sl[d]? ≠ some none) :
    fillOne sl d = sl := by
  unfold fillOne
  split
  · rename_i hh; exact absurd hh h
  · rfl

theorem fillDefaults_getElem? (defaults : List Nat) (sl : List (Option (Entry α))) (j : Nat) :
    (fillDefaults defaults sl)[j]? =
      match sl[j]? with
      | some none => if j ∈ defaults then some (some (Entry.dflt j)) else some none
      | x => x := by
  induction defaults generalizing sl with
  | nil => simp [fillDefaults]; split <;> simp_all
  | cons d ds ih =>
    simp only [fillDefaults, List.foldl_cons] at ih ⊢
    rw [ih]
    by_cases hjd : j = d
    · subst hjd
      cases hs : sl[j]? with
      | none =>
        rw [fillOne_eq_self _ _ (by simp [hs])]; simp [hs]
      | some o =>
        cases o with
        | none => rw [fillOne_getElem?_self _ _ hs]; simp
        | some e => rw [fillOne_eq_self _ _ (by simp [hs])]; simp [hs]
    · rw [fillOne_getElem?_ne _ _ _ hjd]
      split <;> simp_all

theorem fillDefaults_length (defaults : List Nat) (sl : List (Option (Entry α))) :
    (fillDefaults defaults sl).length = sl.length := by
  induction defaults generalizing sl with
  | nil => simp [fillDefaults]
  | cons d ds ih =>
    simp only [fillDefaults, List.foldl_cons] at ih ⊢
    rw [ih, fillOne_length]

theorem filterMap_id_of_getElem? {β : Type} (l : List (Option β)) (n : Nat) (f : Nat → β)
    (hlen : l.length = n) (h : ∀ j, j < n → l[j]? = some (some (f j))) :
    l.filterMap id = (List.range n).map f := by
  have : l = (List.range n).map (fun j => some (f j)) := by
    apply List.ext_getElem?
    intro j
    by_cases hj : j < n
    · rw [h j hj]; simp [hj]
    · rw [List.getElem?_eq_none_iff.2 (by omega)]
      rw [List.getElem?_map, List.getElem?_eq_none_iff.2 (by simp; omega)]
      rfl
  rw [this, List.filterMap_map]
  simp [Function.comp_def]

/-- what the equivalent positional call passes for parameter `i`: the `i`-th positional argument,
    else the argument named like parameter `i`, else default `i` -/
def specEntry (ps : List (Param ν)) (args : List (Arg ν α)) (i : Nat) : Option (Entry α) :=
  if i < posCount args then args[i]?.map (fun a => Entry.arg a.val)
  else ps[i]?.map fun p =>
    match args.find? (fun a => a.name = some p.name) with
    | some a => Entry.arg a.val
    | none => Entry.dflt i

theorem find?_takeWhile_none (args : List (Arg ν α)) (x : ν) :
    (args.takeWhile (·.name.isNone)).find? (fun a => a.name = some x) = none := by
  rw [List.find?_eq_none]
  intro a ha
  have := of_mem_takeWhile _ _ _ ha
  have : a.name = none := by simpa using this
  simp [this]

theorem slots_spec (ps : List (Param ν)) (args : List (Arg ν α)) (info : Info ν) (hok : InfoOk info ps)
    (hnd : (ps.map (·.name)).Nodup) (wf : WellFormed ps args) (j : Nat) (hj : j < ps.length) :
    ∃ e, specEntry ps args j = some e ∧
      (fillDefaults info.defaults (placeAll info 0 args (List.replicate info.nargs none)))[j]? = some (some e) := by
  have hsplit : args = args.takeWhile (·.name.isNone) ++ args.dropWhile (·.name.isNone) :=
    (List.takeWhile_append_dropWhile).symm
  have hpos : ∀ a ∈ args.takeWhile (·.name.isNone), a.name = none := by
    intro a ha; simpa using of_mem_takeWhile _ _ _ ha
  have hnames := namedNames_dropWhile args
  have hN : info.argIndices.Nodup := by rw [hok.idx]; exact hnd
  have hNlen : info.argIndices.length = ps.length := by rw [hok.idx]; simp
  have hNj : info.argIndices[j]'(by omega) = (ps[j]).name := by simp [hok.idx]
  -- the named arguments
  have hall : ∀ a ∈ args.dropWhile (·.name.isNone), ∃ n, a.name = some n ∧ n ∈ info.argIndices := by
    intro a ha
    have hne := wf.pos_first a ha
    cases han : a.name with
    | none => exact absurd han hne
    | some n =>
      refine ⟨n, rfl, ?_⟩
      rw [hok.idx]
      exact wf.names_known n (by rw [hnames]; exact List.mem_filterMap.2 ⟨a, ha, han⟩)
  have hndn : ((args.dropWhile (·.name.isNone)).filterMap (·.name)).Nodup := by
    rw [← hnames]; exact wf.named_once
  -- the slot after both placement phases
  have hB : (placeAll info 0 args (List.replicate info.nargs none))[j]? =
      match (args.dropWhile (·.name.isNone)).find? (fun a => a.name = some info.argIndices[j]) with
      | some a => some (some (Entry.arg a.val))
      | none => (placeAll info 0 (args.takeWhile (·.name.isNone)) (List.replicate info.nargs none))[j]? := by
    conv => lhs; rw [hsplit, placeAll_append]
    rw [placeAll_named info hN _ hall hndn _ _ (by rw [placeAll_length]; simp [hok.nargs, hNlen]) j (by omega)]
    all_goals rfl
  have hA := placeAll_pos info (args.takeWhile (·.name.isNone)) hpos 0 (List.replicate info.nargs none) j
  have hfind : args.find? (fun a => a.name = some (ps[j]).name) =
      (args.dropWhile (·.name.isNone)).find? (fun a => a.name = some info.argIndices[j]) := by
    conv => lhs; rw [hsplit]
    rw [List.find?_append, find?_takeWhile_none, hNj]; simp
  rw [fillDefaults_getElem?, hB, hA]
  simp only [Nat.zero_le, if_true, Nat.sub_zero, List.length_replicate, hok.nargs, hj]
  by_cases hjk : j < posCount args
  · -- supplied by position; no argument carries this parameter's name
    have hlt : j < (args.takeWhile (·.name.isNone)).length := hjk
    have hnone : (args.dropWhile (·.name.isNone)).find? (fun a => a.name = some info.argIndices[j]) = none := by
      rw [List.find?_eq_none]
      intro a ha hae
      have hae : a.name = some (ps[j]).name := by simpa [hNj] using hae
      have hmem : (ps[j]).name ∈ namedNames args := by
        rw [hnames]; exact List.mem_filterMap.2 ⟨a, ha, hae⟩
      apply wf.not_both _ hmem
      rw [List.mem_take_iff_getElem]
      exact ⟨j, by simp; omega, by simp⟩
    have hget : (args.takeWhile (·.name.isNone))[j]? = some ((args.takeWhile (·.name.isNone))[j]) :=
      List.getElem?_eq_getElem hlt
    have hargs : args[j]? = some ((args.takeWhile (·.name.isNone))[j]) := by
      conv => lhs; rw [hsplit]
      rw [List.getElem?_append_left hlt, hget]
    refine ⟨Entry.arg ((args.takeWhile (·.name.isNone))[j]).val, ?_, ?_⟩
    · simp [specEntry, hjk, hargs]
    · rw [hnone, hget]
  · have hge : ¬ j < (args.takeWhile (·.name.isNone)).length := hjk
    have hget : (args.takeWhile (·.name.isNone))[j]? = none := List.getElem?_eq_none_iff.2 (by omega)
    have hps : ps[j]? = some ps[j] := List.getElem?_eq_getElem hj
    cases hf : (args.dropWhile (·.name.isNone)).find? (fun a => a.name = some info.argIndices[j]) with
    | some a =>
      refine ⟨Entry.arg a.val, ?_, ?_⟩
      · simp [specEntry, hjk, hps, hfind, hf]
      · simp
    | none =>
      have hdef : (ps[j]).hasDefault = true := by
        cases hd : (ps[j]).hasDefault with
        | true => rfl
        | false =>
          exfalso
          have hmem : ps[j] ∈ ps.drop (posCount args) := by
            rw [List.mem_drop_iff_getElem]
            have hidx : posCount args + (j - posCount args) = j := by omega
            exact ⟨j - posCount args, by omega, by simp [hidx]⟩
          have := wf.required_given _ hmem hd
          rw [hnames] at this
          obtain ⟨a, ha, hae⟩ := List.mem_filterMap.1 this
          have := List.find?_eq_none.1 hf a ha
          simp [hNj, hae] at this
      have hjD : j ∈ info.defaults := (hok.dfl j).2 ⟨hj, hdef⟩
      refine ⟨Entry.dflt j, ?_, ?_⟩
      · simp [specEntry, hjk, hps, hfind, hf]
      · simp [hget, hj, hjD]
end Abra.CallOrder
