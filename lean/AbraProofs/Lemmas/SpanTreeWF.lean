import AbraProofs.Lemmas.SpanTree
/- Soundness of the executable hypothesis checks of `AbraModel/SpanTree.lean`:
   `nestedB`, `cutB`, `uniqueB` imply `Nested`, `CutOK`, `Unique`; `nestedIB` implies `NestedI`. -/
namespace Abra.SpanTree

mutual
theorem hit_iff (off id : Nat) : ∀ t, Hit off id t ↔ ∃ e ∈ idents t, e.2.2 = id ∧ e.1 ≤ off ∧ off < e.2.1
  | .ident lo hi i => by simp [Hit, idents]
  | .node _ _ kids => by simpa [Hit, idents] using hitL_iff off id kids
theorem hitL_iff (off id : Nat) : ∀ ks, HitL off id ks ↔ ∃ e ∈ identsL ks, e.2.2 = id ∧ e.1 ≤ off ∧ off < e.2.1
  | [] => by simp [HitL, identsL]
  | k :: ks => by
    simp only [HitL, identsL, List.mem_append]
    rw [hit_iff off id k, hitL_iff off id ks]
    constructor
    · rintro (⟨e, he, h⟩ | ⟨e, he, h⟩)
      · exact ⟨e, Or.inl he, h⟩
      · exact ⟨e, Or.inr he, h⟩
    · rintro ⟨e, he | he, h⟩
      · exact Or.inl ⟨e, he, h⟩
      · exact Or.inr ⟨e, he, h⟩
end

theorem within_inSpan {s : Span} {e : Nat × Nat × Nat} {off : Nat} (h : within s e = true)
    (h1 : e.1 ≤ off) (h2 : off < e.2.1) : inSpan s off = true := by
  cases s with
  | none => rfl
  | some p =>
    obtain ⟨lo, hi⟩ := p
    simp only [within, Bool.or_eq_true, Bool.and_eq_true, decide_eq_true_eq] at h
    simp only [inSpan, Bool.and_eq_true, decide_eq_true_eq]
    omega

mutual
theorem nestedB_sound : ∀ t, nestedB t = true → Nested t
  | .ident _ _ _, _ => trivial
  | .node span _ kids, h => by
    simp only [nestedB, Bool.and_eq_true, List.all_eq_true] at h
    refine ⟨?_, nestedBL_sound kids h.2⟩
    intro off id hh
    obtain ⟨e, he, _, h1, h2⟩ := (hitL_iff off id kids).1 hh
    exact within_inSpan (h.1 e he) h1 h2
theorem nestedBL_sound : ∀ ks, nestedBL ks = true → NestedL ks
  | [], _ => trivial
  | k :: ks, h => by
    simp only [nestedBL, Bool.and_eq_true] at h
    exact ⟨nestedB_sound k h.1, nestedBL_sound ks h.2⟩
end

theorem cuts_iff (k : STree) (off : Nat) : k.cuts off = true → ∃ s, cutSpan k = some s ∧ inSpan (some s) off = true := by
  intro h
  match k, h with
  | .node (some s) true _, h => exact ⟨s, rfl, by simpa [STree.cuts] using h⟩
  | .node (some _) false _, h => simp [STree.cuts] at h
  | .node none _ _, h => simp [STree.cuts] at h
  | .ident _ _ _, h => simp [STree.cuts] at h

mutual
theorem cutB_sound : ∀ t, cutB t = true → CutOK t
  | .ident _ _ _, _ => trivial
  | .node _ _ kids, h => by
    simp only [cutB] at h
    exact cutBL_sound kids h
theorem cutBL_sound : ∀ ks, cutBL ks = true → CutOKL ks
  | [], _ => trivial
  | k :: ks, h => by
    simp only [cutBL, Bool.and_eq_true] at h
    refine ⟨cutB_sound k h.1.1, ?_, cutBL_sound ks h.2⟩
    intro off id hc hh
    obtain ⟨s, hs, hin⟩ := cuts_iff k off hc
    obtain ⟨e, he, _, h1, h2⟩ := (hitL_iff off id ks).1 hh
    have hall := h.1.2
    rw [hs] at hall
    simp only [List.all_eq_true] at hall
    have hd := hall e he
    obtain ⟨slo, shi⟩ := s
    simp only [disjointFrom, Bool.or_eq_true, decide_eq_true_eq] at hd
    simp only [inSpan, Bool.and_eq_true, decide_eq_true_eq] at hin
    omega
end

theorem uniqueB_sound (t : STree) (h : uniqueB t = true) : Unique t := by
  intro off a b ha hb
  obtain ⟨ea, hea, ra, a1, a2⟩ := (hit_iff off a t).1 ha
  obtain ⟨eb, heb, rb, b1, b2⟩ := (hit_iff off b t).1 hb
  simp only [uniqueB, List.all_eq_true] at h
  have := h ea hea eb heb
  simp only [overlapOK, Bool.or_eq_true, decide_eq_true_eq, beq_iff_eq] at this
  omega

theorem wfB_sound (t : STree) (h : wfB t = true) : Nested t ∧ CutOK t ∧ Unique t := by
  simp only [wfB, Bool.and_eq_true] at h
  exact ⟨nestedB_sound t h.1.1, cutB_sound t h.1.2, uniqueB_sound t h.2⟩

/-! innermost search -/

mutual
theorem cand_iff (off id : Nat) : ∀ t, Cand off id t ↔ ∃ c ∈ cands t, c.2 = id ∧ inSpan c.1 off = true
  | .leaf lo hi i => by
    simp only [Cand, cands, List.mem_singleton]
    constructor
    · rintro ⟨rfl, h1, h2⟩
      exact ⟨_, rfl, rfl, (inSpan_some lo hi off).2 ⟨h1, h2⟩⟩
    · rintro ⟨c, rfl, rfl, h⟩
      exact ⟨rfl, (inSpan_some lo hi off).1 h⟩
  | .node span self kids => by
    simp only [Cand, cands, List.mem_append]
    rw [candL_iff off id kids]
    constructor
    · rintro (⟨hs, hin⟩ | ⟨c, hc, h⟩)
      · subst hs
        exact ⟨(span, id), Or.inl (by simp), rfl, hin⟩
      · exact ⟨c, Or.inr hc, h⟩
    · rintro ⟨c, hc | hc, h1, h2⟩
      · cases self with
        | none => simp at hc
        | some i =>
          simp only [List.mem_singleton] at hc
          subst hc
          exact Or.inl ⟨by simpa using h1, h2⟩
      · exact Or.inr ⟨c, hc, h1, h2⟩
theorem candL_iff (off id : Nat) : ∀ ks, CandL off id ks ↔ ∃ c ∈ candsL ks, c.2 = id ∧ inSpan c.1 off = true
  | [] => by simp [CandL, candsL]
  | k :: ks => by
    simp only [CandL, candsL, List.mem_append]
    rw [cand_iff off id k, candL_iff off id ks]
    constructor
    · rintro (⟨c, hc, h⟩ | ⟨c, hc, h⟩)
      · exact ⟨c, Or.inl hc, h⟩
      · exact ⟨c, Or.inr hc, h⟩
    · rintro ⟨c, hc | hc, h⟩
      · exact Or.inl ⟨c, hc, h⟩
      · exact Or.inr ⟨c, hc, h⟩
end

theorem withinI_inSpan {s : Span} {c : Span × Nat} {off : Nat} (h : withinI s c = true)
    (hin : inSpan c.1 off = true) : inSpan s off = true := by
  cases s with
  | none => rfl
  | some p =>
    obtain ⟨lo, hi⟩ := p
    obtain ⟨cs, cid⟩ := c
    cases cs with
    | none => simp [withinI] at h
    | some q =>
      obtain ⟨l, r⟩ := q
      simp only [withinI, Bool.or_eq_true, Bool.and_eq_true, decide_eq_true_eq] at h
      simp only [inSpan, Bool.and_eq_true, decide_eq_true_eq] at hin ⊢
      omega

mutual
theorem nestedIB_sound : ∀ t, nestedIB t = true → NestedI t
  | .leaf _ _ _, _ => trivial
  | .node span _ kids, h => by
    simp only [nestedIB, Bool.and_eq_true, List.all_eq_true] at h
    refine ⟨?_, nestedIBL_sound kids h.2⟩
    intro off id hh
    obtain ⟨c, hc, _, hin⟩ := (candL_iff off id kids).1 hh
    exact withinI_inSpan (h.1 c hc) hin
theorem nestedIBL_sound : ∀ ks, nestedIBL ks = true → NestedIL ks
  | [], _ => trivial
  | k :: ks, h => by
    simp only [nestedIBL, Bool.and_eq_true] at h
    exact ⟨nestedIB_sound k h.1, nestedIBL_sound ks h.2⟩
end

end Abra.SpanTree
