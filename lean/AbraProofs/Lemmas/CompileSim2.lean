import AbraProofs.Lemmas.CompileSim
/-!
Part 3 of the simulation: the slot counter is monotone; unfolding lemmas; the strict operators.
-/
namespace Abra.Compile
open Abra.Sem Abra.VM

mutual
theorem compE_mono : ∀ (e : Expr) (Γ : TEnv) (next : Nat) (d : Nat) (c : Code) (τ : Ty) (n' : Nat),
    compE Γ next d e = some (c, τ, n') → next ≤ n'
  | .int _, _, _, _, _, _, _, h => by simp only [compE, Option.some.injEq, Prod.mk.injEq] at h; omega
  | .bool _, _, _, _, _, _, _, h => by simp only [compE, Option.some.injEq, Prod.mk.injEq] at h; omega
  | .unit, _, _, _, _, _, _, h => by simp only [compE, Option.some.injEq, Prod.mk.injEq] at h; omega
  | .var x, Γ, next, _, c, τ, n', h => by
    simp only [compE] at h
    split at h <;> simp only [Option.some.injEq, Prod.mk.injEq, reduceCtorEq] at h <;> omega
  | .un .neg a, Γ, next, _, c, τ, n', h => by
    simp only [compE] at h
    split at h
    · rename_i ca n1 heq
      simp only [Option.some.injEq, Prod.mk.injEq] at h
      have := compE_mono a _ _ _ _ _ _ heq
      omega
    · simp at h
  | .un .not a, Γ, next, _, c, τ, n', h => by
    simp only [compE] at h
    split at h
    · rename_i ca n1 heq
      simp only [Option.some.injEq, Prod.mk.injEq] at h
      have := compE_mono a _ _ _ _ _ _ heq
      omega
    · simp at h
  | .bin op a b, Γ, next, _, c, τ, n', h => by
    cases op <;> simp only [compE] at h <;>
    · split at h
      all_goals first
        | (simp at h; done)
        | (rename_i heq1
           split at h
           all_goals first
             | (simp at h; done)
             | (rename_i heq2
                have h1 := compE_mono a _ _ _ _ _ _ heq1
                have h2 := compE_mono b _ _ _ _ _ _ heq2
                first
                  | (simp only [Option.some.injEq, Prod.mk.injEq] at h; omega)
                  | (split at h
                     · simp only [Option.some.injEq, Prod.mk.injEq] at h; omega
                     · simp at h)))
  | .ite cnd t f, Γ, next, _, c, τ, n', h => by
    simp only [compE] at h
    split at h
    · rename_i heq1
      split at h
      · simp at h
      · rename_i heq2
        split at h
        · simp at h
        · rename_i heq3
          have h1 := compE_mono cnd _ _ _ _ _ _ heq1
          have h2 := compE_mono t _ _ _ _ _ _ heq2
          have h3 := compE_mono f _ _ _ _ _ _ heq3
          split at h
          · simp only [Option.some.injEq, Prod.mk.injEq] at h; omega
          · simp at h
    · simp at h
  | .block ss, Γ, next, _, c, τ, n', h => by
    simp only [compE] at h
    exact compSs_mono ss _ _ _ _ _ _ _ h
  | .print a, Γ, next, _, c, τ, n', h => by
    simp only [compE] at h
    split at h
    · rename_i heq; simp only [Option.some.injEq, Prod.mk.injEq] at h
      have := compE_mono a _ _ _ _ _ _ heq; omega
    · rename_i heq; simp only [Option.some.injEq, Prod.mk.injEq] at h
      have := compE_mono a _ _ _ _ _ _ heq; omega
    · simp at h
  | .str _, _, _, _, _, _, _, h => by simp [compE] at h
  | .tuple _, _, _, _, _, _, _, h => by simp [compE] at h
  | .mkStruct _ _, _, _, _, _, _, _, h => by simp [compE] at h
  | .field _ _, _, _, _, _, _, _, h => by simp [compE] at h
  | .mkVariant _ _, _, _, _, _, _, _, h => by simp [compE] at h
  | .matchE _ _, _, _, _, _, _, _, h => by simp [compE] at h
  | .array _, _, _, _, _, _, _, h => by simp [compE] at h
  | .index _ _, _, _, _, _, _, _, h => by simp [compE] at h
  | .len _, _, _, _, _, _, _, h => by simp [compE] at h
  | .push _ _, _, _, _, _, _, _, h => by simp [compE] at h
  | .pop _, _, _, _, _, _, _, h => by simp [compE] at h
  | .call _ _, _, _, _, _, _, _, h => by simp [compE] at h
  | .callv _ _, _, _, _, _, _, _, h => by simp [compE] at h
  | .lam _ _, _, _, _, _, _, _, h => by simp [compE] at h
  | .fnref _, _, _, _, _, _, _, h => by simp [compE] at h
  | .mkref _, _, _, _, _, _, _, h => by simp [compE] at h
  | .try_ _, _, _, _, _, _, _, h => by simp [compE] at h
  | .unwrap _, _, _, _, _, _, _, h => by simp [compE] at h
  | .panic _, _, _, _, _, _, _, h => by simp [compE] at h

theorem compS_mono : ∀ (s : Stmt) (Γ : TEnv) (next : Nat) (d : Nat) (il : Bool) (c : Code) (τ : Ty) (Γ' : TEnv) (n' : Nat),
    compS Γ next d il s = some (c, τ, Γ', n') → next ≤ n'
  | .let_ p e, Γ, next, _, il, c, τ, Γ', n', h => by
    cases p <;> simp only [compS] at h <;> try (simp at h; done)
    split at h
    · simp at h
    · rename_i heq
      simp only [Option.some.injEq, Prod.mk.injEq] at h
      have := compE_mono e _ _ _ _ _ _ heq
      omega
    · simp at h
  | .assign x op e, Γ, next, _, il, c, τ, Γ', n', h => by
    cases op <;> simp only [compS] at h <;>
    · split at h
      · rename_i heq1 heq2
        have := compE_mono e _ _ _ _ _ _ heq2
        first
          | (split at h
             · simp only [Option.some.injEq, Prod.mk.injEq] at h; omega
             · simp at h)
          | (simp only [Option.some.injEq, Prod.mk.injEq] at h; omega)
      · simp at h
  | .expr e, Γ, next, _, il, c, τ, Γ', n', h => by
    simp only [compS] at h
    split at h
    · rename_i heq
      simp only [Option.some.injEq, Prod.mk.injEq] at h
      have := compE_mono e _ _ _ _ _ _ heq
      omega
    · simp at h
  | .while_ cnd body, Γ, next, _, il, c, τ, Γ', n', h => by
    simp only [compS] at h
    split at h
    · rename_i heq1
      split at h
      · rename_i heq2
        simp only [Option.some.injEq, Prod.mk.injEq] at h
        have h1 := compE_mono cnd _ _ _ _ _ _ heq1
        have h2 := compSs_mono body _ _ _ _ _ _ _ heq2
        omega
      · simp at h
    · simp at h
  | .break_, Γ, next, _, il, c, τ, Γ', n', h => by
    simp only [compS, Option.some.injEq, Prod.mk.injEq] at h; omega
  | .continue_, Γ, next, _, il, c, τ, Γ', n', h => by
    simp only [compS, Option.some.injEq, Prod.mk.injEq] at h; omega
  | .assignField _ _ _ _, _, _, _, _, _, _, _, _, h => by simp [compS] at h
  | .assignIndex _ _ _ _, _, _, _, _, _, _, _, _, h => by simp [compS] at h
  | .for_ _ _ _, _, _, _, _, _, _, _, _, h => by simp [compS] at h
  | .ret _, _, _, _, _, _, _, _, _, h => by simp [compS] at h

theorem compSs_mono : ∀ (ss : Stmts) (Γ : TEnv) (next : Nat) (d : Nat) (blk : Bool) (c : Code) (τ : Ty) (n' : Nat),
    compSs Γ next d blk ss = some (c, τ, n') → next ≤ n'
  | .nil, _, _, _, _, _, _, _, h => by simp only [compSs, Option.some.injEq, Prod.mk.injEq] at h; omega
  | .cons s .nil, Γ, next, _, blk, c, τ, n', h => by
    simp only [compSs] at h
    split at h
    · rename_i heq
      simp only [Option.some.injEq, Prod.mk.injEq] at h
      have := compS_mono s _ _ _ _ _ _ _ _ heq
      omega
    · simp at h
  | .cons s (.cons s2 r), Γ, next, _, blk, c, τ, n', h => by
    simp only [compSs] at h
    split at h
    · rename_i heq
      split at h
      · rename_i heq2
        simp only [Option.some.injEq, Prod.mk.injEq] at h
        have h1 := compS_mono s _ _ _ _ _ _ _ _ heq
        have h2 := compSs_mono (.cons s2 r) _ _ _ _ _ _ _ heq2
        omega
      · simp at h
    · simp at h
end

end Abra.Compile
