import AbraModel.PreludeCmp
import AbraProofs.Lemmas.F64
import AbraProofs.Lemmas.StrOps
/-!
Laws of the built-in comparisons (C24): what "lawful" means, that the scalar instances are lawful,
and that the tuple/array constructions of the prelude preserve lawfulness.
-/
namespace Abra.PreludeCmp

/-- `==` is an equivalence relation -/
structure LawfulEq {α : Type} (e : Eq' α) : Prop where
  refl : ∀ a, e a a = true
  symm : ∀ a b, e a b = true → e b a = true
  trans : ∀ a b c, e a b = true → e b c = true → e a c = true

/-- `<`, `<=`, `>`, `>=` are the four relations of ONE strict total order whose equivalence is `==` -/
structure LawfulOrd {α : Type} (o : Ord' α) (e : Eq' α) : Prop extends LawfulEq e where
  /-- exactly one of `a < b`, `a == b`, `b < a` -/
  tri : ∀ a b, (o.lt a b = true ∧ e a b = false ∧ o.lt b a = false) ∨
               (o.lt a b = false ∧ e a b = true ∧ o.lt b a = false) ∨
               (o.lt a b = false ∧ e a b = false ∧ o.lt b a = true)
  lt_trans : ∀ a b c, o.lt a b = true → o.lt b c = true → o.lt a c = true
  gt_def : ∀ a b, o.gt a b = o.lt b a
  le_def : ∀ a b, o.le a b = !o.lt b a
  ge_def : ∀ a b, o.ge a b = !o.lt a b

/-- equal values hash equally -/
def HashCongr {α : Type} (e : Eq' α) (h : Hash' α) : Prop := ∀ a b, e a b = true → h a = h b

namespace LawfulOrd
variable {α : Type} {o : Ord' α} {e : Eq' α} (L : LawfulOrd o e)
include L

theorem lt_of_lt_of_eq {a b c : α} (h1 : o.lt a b = true) (h2 : e b c = true) : o.lt a c = true := by
  rcases L.tri a c with h | h | h
  · exact h.1
  · -- a == c and b == c give a == b, contradicting a < b
    have : e a b = true := L.trans a c b h.2.1 (L.symm b c h2)
    rcases L.tri a b with t | t | t <;> simp_all
  · -- c < a < b, but b == c
    have hcb : o.lt c b = true := L.lt_trans c a b h.2.2 h1
    rcases L.tri c b with t | t | t
    · have := L.symm b c h2; simp_all
    · simp_all
    · simp_all

theorem lt_of_eq_of_lt {a b c : α} (h1 : e a b = true) (h2 : o.lt b c = true) : o.lt a c = true := by
  rcases L.tri a c with h | h | h
  · exact h.1
  · have : e b c = true := L.trans b a c (L.symm a b h1) h.2.1
    rcases L.tri b c with t | t | t <;> simp_all
  · have hba : o.lt b a = true := L.lt_trans b c a h2 h.2.2
    rcases L.tri b a with t | t | t
    · have := L.symm a b h1; simp_all
    · simp_all
    · simp_all

end LawfulOrd

/-! ### scalars -/

theorem void_lawful : LawfulOrd voidOrd voidEqual where
  refl := by intro a; rfl
  symm := by intro a b _; rfl
  trans := by intro a b c _ _; rfl
  tri := by intro a b; right; left; exact ⟨rfl, rfl, rfl⟩
  lt_trans := by intro a b c h; cases h
  gt_def := by intro a b; rfl
  le_def := by intro a b; rfl
  ge_def := by intro a b; rfl

theorem bool_lawful : LawfulOrd boolOrd boolEqual where
  refl := by decide
  symm := by decide
  trans := by decide
  tri := by decide
  lt_trans := by decide
  gt_def := by decide
  le_def := by decide
  ge_def := by decide

theorem int_lawful : LawfulOrd intOrd intEqual where
  refl := by intro a; simp [intEqual]
  symm := by intro a b; simp [intEqual]; omega
  trans := by intro a b c; simp [intEqual]; omega
  tri := by intro a b; simp [intOrd, intEqual]; omega
  lt_trans := by intro a b c; simp [intOrd]; omega
  gt_def := by intro a b; simp [intOrd]
  le_def := by
    intro a b
    show decide (a ≤ b) = !decide (b < a)
    by_cases h : b < a
    · have : ¬ a ≤ b := by omega
      simp [h, this]
    · have : a ≤ b := by omega
      simp [h, this]
  ge_def := by
    intro a b
    show decide (a ≥ b) = !decide (a < b)
    by_cases h : a < b
    · have : ¬ a ≥ b := by omega
      simp [h, this]
    · have : a ≥ b := by omega
      simp [h, this]

theorem float_lawful : LawfulOrd floatOrd floatEqual where
  refl := by intro a; exact (F64.feq_iff a a).2 rfl
  symm := by intro a b h; exact (F64.feq_iff b a).2 ((F64.feq_iff a b).1 h).symm
  trans := by
    intro a b c h1 h2
    exact (F64.feq_iff a c).2 (((F64.feq_iff a b).1 h1).trans ((F64.feq_iff b c).1 h2))
  tri := by
    intro a b
    have h1 := F64.flt_iff a b
    have h2 := F64.flt_iff b a
    have h3 := F64.feq_iff a b
    have hinj := @F64.key_inj a b
    show (F64.flt a b = true ∧ F64.feq a b = false ∧ F64.flt b a = false) ∨
      (F64.flt a b = false ∧ F64.feq a b = true ∧ F64.flt b a = false) ∨
      (F64.flt a b = false ∧ F64.feq a b = false ∧ F64.flt b a = true)
    simp only [← Bool.not_eq_true, h1, h2, h3, ← hinj]
    omega
  lt_trans := by
    intro a b c h1 h2
    have := (F64.flt_iff a b).1 h1
    have := (F64.flt_iff b c).1 h2
    exact (F64.flt_iff a c).2 (by omega)
  gt_def := by
    intro a b
    have h1 := F64.fgt_iff a b
    have h2 := F64.flt_iff b a
    show F64.fgt a b = F64.flt b a
    cases hx : F64.fgt a b <;> cases hy : F64.flt b a <;> simp_all <;> omega
  le_def := by
    intro a b
    have h1 := F64.fle_iff a b
    have h2 := F64.flt_iff b a
    show F64.fle a b = !F64.flt b a
    cases hx : F64.fle a b <;> cases hy : F64.flt b a <;> simp_all <;> omega
  ge_def := by
    intro a b
    have h1 := F64.fge_iff a b
    have h2 := F64.flt_iff a b
    show F64.fge a b = !F64.flt a b
    cases hx : F64.fge a b <;> cases hy : F64.flt a b <;> simp_all <;> omega

/-! ### strings: the VM instructions compute the lexicographic order on bytes (C17's lemmas) -/

open StrOps in
theorem strRun_eq (a b : Bytes) : strEqual a b = decide (a = b) := by
  have hs : eqStep a b (latch a b {}) = eqStep a b {} := by simp only [eqStep, latch_latch]
  have hmid : Mid a b (latch a b {}) [] a b := by
    refine ⟨?_, ?_, ?_, ?_⟩ <;> simp [latch]
  have := eq_run a b a b [] (latch a b {}) (min a.length b.length + 1) hmid (Nat.le_refl _)
  simp only [run, hs] at this
  unfold strEqual strRun
  simp only [run, this]

open StrOps in
theorem strRun_cmp (c : Cmp) (a b : Bytes) : strRun (cmpStep c) a b = c.spec a b := by
  have hs : cmpStep c a b (latch a b {}) = cmpStep c a b {} := by simp only [cmpStep, latch_latch]
  have hmid : Mid a b (latch a b {}) [] a b := by
    refine ⟨?_, ?_, ?_, ?_⟩ <;> simp [latch]
  have := cmp_run c a b a b [] (latch a b {}) (min a.length b.length + 1) hmid (Nat.le_refl _)
  simp only [run, hs] at this
  unfold strRun
  simp only [run, this]

open StrOps in
theorem lexLt_tri (a b : Bytes) :
    (lexLt a b = true ∧ a ≠ b ∧ lexLt b a = false) ∨ (lexLt a b = false ∧ a = b ∧ lexLt b a = false) ∨
    (lexLt a b = false ∧ a ≠ b ∧ lexLt b a = true) := by
  induction a generalizing b with
  | nil => cases b <;> simp [lexLt]
  | cons x xs ih =>
    cases b with
    | nil => simp [lexLt]
    | cons y ys =>
      simp only [lexLt]
      by_cases h1 : x < y
      · have h2 : ¬ y < x := UInt8.lt_asymm h1
        have hne : x ≠ y := fun e => by subst e; exact UInt8.lt_irrefl _ h1
        simp [h1, h2, hne]
      · by_cases h2 : y < x
        · have hne : x ≠ y := fun e => by subst e; exact UInt8.lt_irrefl _ h2
          simp [h1, h2, hne]
        · have e := u8_eq_of_not_lt h1 h2
          subst e
          simp only [h1, if_false, List.cons.injEq, true_and, ne_eq]
          exact ih ys

open StrOps in
theorem lexLt_trans (a b c : Bytes) (h1 : lexLt a b = true) (h2 : lexLt b c = true) : lexLt a c = true := by
  rw [lexLt_iff] at *
  exact List.lt_trans h1 h2

open StrOps in
theorem string_lawful : LawfulOrd strOrd strEqual where
  refl := by intro a; simp [strRun_eq]
  symm := by intro a b; simp [strRun_eq]; exact fun h => h.symm
  trans := by intro a b c; simp [strRun_eq]; exact fun h1 h2 => h1.trans h2
  tri := by
    intro a b
    show (strRun (cmpStep .lt) a b = true ∧ strEqual a b = false ∧ strRun (cmpStep .lt) b a = false) ∨
      (strRun (cmpStep .lt) a b = false ∧ strEqual a b = true ∧ strRun (cmpStep .lt) b a = false) ∨
      (strRun (cmpStep .lt) a b = false ∧ strEqual a b = false ∧ strRun (cmpStep .lt) b a = true)
    simp only [strRun_cmp, strRun_eq, Cmp.spec, decide_eq_true_eq, decide_eq_false_iff_not]
    exact lexLt_tri a b
  lt_trans := by
    intro a b c
    show strRun (cmpStep .lt) a b = true → strRun (cmpStep .lt) b c = true → strRun (cmpStep .lt) a c = true
    simp only [strRun_cmp, Cmp.spec]
    exact lexLt_trans a b c
  gt_def := by
    intro a b
    show strRun (cmpStep .gt) a b = strRun (cmpStep .lt) b a
    simp only [strRun_cmp, Cmp.spec]
  le_def := by
    intro a b
    show strRun (cmpStep .le) a b = !strRun (cmpStep .lt) b a
    simp only [strRun_cmp, Cmp.spec]
  ge_def := by
    intro a b
    show strRun (cmpStep .ge) a b = !strRun (cmpStep .lt) a b
    simp only [strRun_cmp, Cmp.spec]

/-! ### pairs -/

section pair
variable {α β : Type} {o1 : Ord' α} {e1 : Eq' α} {o2 : Ord' β} {e2 : Eq' β}

theorem tuple2Equal_lawful (L1 : LawfulEq e1) (L2 : LawfulEq e2) : LawfulEq (tuple2Equal e1 e2) where
  refl := by
    intro ⟨a1, a2⟩
    simp [tuple2Equal, L1.refl, L2.refl]
  symm := by
    intro ⟨a1, a2⟩ ⟨b1, b2⟩
    simp only [tuple2Equal, Bool.and_eq_true]
    exact fun h => ⟨L1.symm _ _ h.1, L2.symm _ _ h.2⟩
  trans := by
    intro ⟨a1, a2⟩ ⟨b1, b2⟩ ⟨c1, c2⟩
    simp only [tuple2Equal, Bool.and_eq_true]
    exact fun h g => ⟨L1.trans _ _ _ h.1 g.1, L2.trans _ _ _ h.2 g.2⟩

/-- the pair `<` of the prelude is the lexicographic order of the component orders -/
theorem tuple2_lt_iff (L1 : LawfulOrd o1 e1) (a b : α × β) :
    (tuple2Ord o1 o2).lt a b = true ↔
      o1.lt a.1 b.1 = true ∨ (e1 a.1 b.1 = true ∧ o2.lt a.2 b.2 = true) := by
  obtain ⟨a1, a2⟩ := a
  obtain ⟨b1, b2⟩ := b
  simp only [tuple2Ord, L1.gt_def]
  rcases L1.tri a1 b1 with h | h | h <;> simp [h.1, h.2.1, h.2.2]

theorem tuple2_lawful (L1 : LawfulOrd o1 e1) (L2 : LawfulOrd o2 e2) :
    LawfulOrd (tuple2Ord o1 o2) (tuple2Equal e1 e2) where
  toLawfulEq := tuple2Equal_lawful L1.toLawfulEq L2.toLawfulEq
  tri := by
    intro ⟨a1, a2⟩ ⟨b1, b2⟩
    simp only [tuple2Ord, tuple2Equal, L1.gt_def]
    rcases L1.tri a1 b1 with h | h | h <;> rcases L2.tri a2 b2 with g | g | g <;>
      simp [h.1, h.2.1, h.2.2, g.1, g.2.1, g.2.2]
  lt_trans := by
    intro a b c h1 h2
    rw [tuple2_lt_iff L1] at *
    rcases h1 with h1 | ⟨h1, h1'⟩ <;> rcases h2 with h2 | ⟨h2, h2'⟩
    · exact Or.inl (L1.lt_trans _ _ _ h1 h2)
    · exact Or.inl (L1.lt_of_lt_of_eq h1 h2)
    · exact Or.inl (L1.lt_of_eq_of_lt h1 h2)
    · exact Or.inr ⟨L1.trans _ _ _ h1 h2, L2.lt_trans _ _ _ h1' h2'⟩
  gt_def := by
    intro ⟨a1, a2⟩ ⟨b1, b2⟩
    simp only [tuple2Ord, L1.gt_def, L2.gt_def]
  le_def := by
    intro ⟨a1, a2⟩ ⟨b1, b2⟩
    simp only [tuple2Ord, L1.gt_def, L2.le_def]
    rcases L1.tri a1 b1 with h | h | h <;> simp [h.1, h.2.2]
  ge_def := by
    intro ⟨a1, a2⟩ ⟨b1, b2⟩
    simp only [tuple2Ord, L1.gt_def, L2.ge_def]
    rcases L1.tri a1 b1 with h | h | h <;> simp [h.1, h.2.2]

end pair

/-! ### triples and quadruples: the prelude's straight-line code is the nested pair construction -/

theorem tuple3Ord_eq {α β γ : Type} (o1 : Ord' α) (o2 : Ord' β) (o3 : Ord' γ) :
    tuple3Ord o1 o2 o3 = tuple2Ord o1 (tuple2Ord o2 o3) := rfl

theorem tuple4Ord_eq {α β γ δ : Type} (o1 : Ord' α) (o2 : Ord' β) (o3 : Ord' γ) (o4 : Ord' δ) :
    tuple4Ord o1 o2 o3 o4 = tuple2Ord o1 (tuple2Ord o2 (tuple2Ord o3 o4)) := rfl

theorem tuple3Equal_eq {α β γ : Type} (e1 : Eq' α) (e2 : Eq' β) (e3 : Eq' γ) :
    tuple3Equal e1 e2 e3 = tuple2Equal e1 (tuple2Equal e2 e3) := by
  funext ⟨a1, a2, a3⟩ ⟨b1, b2, b3⟩
  simp [tuple3Equal, tuple2Equal, Bool.and_assoc]

theorem tuple4Equal_eq {α β γ δ : Type} (e1 : Eq' α) (e2 : Eq' β) (e3 : Eq' γ) (e4 : Eq' δ) :
    tuple4Equal e1 e2 e3 e4 = tuple2Equal e1 (tuple2Equal e2 (tuple2Equal e3 e4)) := by
  funext ⟨a1, a2, a3, a4⟩ ⟨b1, b2, b3, b4⟩
  simp [tuple4Equal, tuple2Equal, Bool.and_assoc]

/-! ### arrays -/

/-- specification side: element-wise comparison of two lists, by structural recursion -/
def listAll2 {α : Type} (e : Eq' α) : List α → List α → Bool
  | [], [] => true
  | x :: xs, y :: ys => e x y && listAll2 e xs ys
  | _, _ => false

theorem listAll2_length {α : Type} (e : Eq' α) :
    ∀ (a b : List α), listAll2 e a b = true → a.length = b.length
  | [], [], _ => rfl
  | [], _ :: _, h => by simp [listAll2] at h
  | _ :: _, [], h => by simp [listAll2] at h
  | x :: xs, y :: ys, h => by
    simp only [listAll2, Bool.and_eq_true] at h
    simp [listAll2_length e xs ys h.2]

/-- the index loop, started at `i = |p| = |q|` with `fuel = |a'| = |b'|`, compares the suffixes -/
theorem arrayEqualLoop_spec {α : Type} (e : Eq' α) (a' : List α) :
    ∀ (b' p q : List α), p.length = q.length → a'.length = b'.length →
      arrayEqualLoop e (p ++ a') (q ++ b') a'.length p.length = some (listAll2 e a' b') := by
  induction a' with
  | nil =>
    intro b' p q _ hl
    cases b' with
    | nil => simp [arrayEqualLoop, listAll2]
    | cons y ys => simp at hl
  | cons x xs ih =>
    intro b' p q hpq hl
    cases b' with
    | nil => simp at hl
    | cons y ys =>
      have h1 : (p ++ x :: xs)[p.length]? = some x := by simp
      have h2 : (q ++ y :: ys)[p.length]? = some y := by rw [hpq]; simp
      simp only [List.length_cons, arrayEqualLoop, h1, h2, ne, listAll2]
      have := ih ys (p ++ [x]) (q ++ [y]) (by simp [hpq]) (by simpa using hl)
      simp only [List.append_assoc, List.singleton_append, List.length_append, List.length_singleton] at this
      rw [this]
      by_cases hxy : e x y = true
      · simp [hxy]
      · have : e x y = false := by simpa using hxy
        simp [this]

/-- array `==` never runs out of bounds and is: equal length and element-wise equal -/
theorem arrayEqual_spec {α : Type} (e : Eq' α) (a b : List α) :
    arrayEqual? e a b = some (listAll2 e a b) ∧ arrayEqual e a b = listAll2 e a b := by
  have key : arrayEqual? e a b = some (listAll2 e a b) := by
    unfold arrayEqual?
    by_cases hl : a.length = b.length
    · have := arrayEqualLoop_spec e a b [] [] rfl hl
      simpa [hl] using this
    · have : listAll2 e a b = false := by
        cases h : listAll2 e a b with
        | false => rfl
        | true => exact absurd (listAll2_length e a b h) hl
      simp [hl, this]
  exact ⟨key, by simp [arrayEqual, key]⟩

theorem listAll2_lawful {α : Type} {e : Eq' α} (L : LawfulEq e) : LawfulEq (listAll2 e) where
  refl := by
    intro a
    induction a with
    | nil => rfl
    | cons x xs ih => simp [listAll2, L.refl, ih]
  symm := by
    intro a
    induction a with
    | nil => intro b; cases b <;> simp [listAll2]
    | cons x xs ih =>
      intro b
      cases b with
      | nil => simp [listAll2]
      | cons y ys =>
        simp only [listAll2, Bool.and_eq_true]
        exact fun h => ⟨L.symm _ _ h.1, ih ys h.2⟩
  trans := by
    intro a
    induction a with
    | nil => intro b c; cases b <;> cases c <;> simp [listAll2]
    | cons x xs ih =>
      intro b c
      cases b with
      | nil => simp [listAll2]
      | cons y ys =>
        cases c with
        | nil => simp [listAll2]
        | cons z zs =>
          simp only [listAll2, Bool.and_eq_true]
          exact fun h g => ⟨L.trans _ _ _ h.1 g.1, ih ys zs h.2 g.2⟩

theorem arrayEqual_lawful {α : Type} {e : Eq' α} (L : LawfulEq e) : LawfulEq (arrayEqual e) := by
  have : arrayEqual e = listAll2 e := by
    funext a b; exact (arrayEqual_spec e a b).2
  rw [this]; exact listAll2_lawful L

/-! ### hashes -/

theorem arrayHash_congr {α : Type} {e : Eq' α} {h : Hash' α} (H : HashCongr e h) :
    HashCongr (arrayEqual e) (arrayHash h) := by
  intro a b hab
  rw [(arrayEqual_spec e a b).2] at hab
  unfold arrayHash
  generalize (17 : UInt64) = seed
  induction a generalizing b seed with
  | nil => cases b <;> simp_all [listAll2]
  | cons x xs ih =>
    cases b with
    | nil => simp [listAll2] at hab
    | cons y ys =>
      simp only [listAll2, Bool.and_eq_true] at hab
      simp only [List.foldl_cons, hashCombine, H x y hab.1]
      exact ih ys hab.2 _

theorem tuple2Hash_congr {α β : Type} {e1 : Eq' α} {e2 : Eq' β} {h1 : Hash' α} {h2 : Hash' β}
    (H1 : HashCongr e1 h1) (H2 : HashCongr e2 h2) :
    HashCongr (tuple2Equal e1 e2) (tuple2Hash h1 h2) := by
  intro ⟨a1, a2⟩ ⟨b1, b2⟩ h
  simp only [tuple2Equal, Bool.and_eq_true] at h
  simp only [tuple2Hash, hashCombine, H1 _ _ h.1, H2 _ _ h.2]

theorem tuple3Hash_congr {α β γ : Type} {e1 : Eq' α} {e2 : Eq' β} {e3 : Eq' γ}
    {h1 : Hash' α} {h2 : Hash' β} {h3 : Hash' γ}
    (H1 : HashCongr e1 h1) (H2 : HashCongr e2 h2) (H3 : HashCongr e3 h3) :
    HashCongr (tuple3Equal e1 e2 e3) (tuple3Hash h1 h2 h3) := by
  intro ⟨a1, a2, a3⟩ ⟨b1, b2, b3⟩ h
  simp only [tuple3Equal, Bool.and_eq_true] at h
  simp only [tuple3Hash, hashCombine, H1 _ _ h.1.1, H2 _ _ h.1.2, H3 _ _ h.2]

theorem tuple4Hash_congr {α β γ δ : Type} {e1 : Eq' α} {e2 : Eq' β} {e3 : Eq' γ} {e4 : Eq' δ}
    {h1 : Hash' α} {h2 : Hash' β} {h3 : Hash' γ} {h4 : Hash' δ}
    (H1 : HashCongr e1 h1) (H2 : HashCongr e2 h2) (H3 : HashCongr e3 h3) (H4 : HashCongr e4 h4) :
    HashCongr (tuple4Equal e1 e2 e3 e4) (tuple4Hash h1 h2 h3 h4) := by
  intro ⟨a1, a2, a3, a4⟩ ⟨b1, b2, b3, b4⟩ h
  simp only [tuple4Equal, Bool.and_eq_true] at h
  simp only [tuple4Hash, hashCombine, H1 _ _ h.1.1.1, H2 _ _ h.1.1.2, H3 _ _ h.1.2, H4 _ _ h.2]

/-- the prelude's index loop over `string_nth_byte` never runs out of range and is the byte fold -/
theorem strHashLoop_spec (s' : StrOps.Bytes) :
    ∀ (p : StrOps.Bytes) (h : UInt64),
      strHashLoop (p ++ s') s'.length p.length h =
        some (s'.foldl (fun h b => (h ^^^ UInt64.ofNat b.toNat) * 1099511628211) h) := by
  induction s' with
  | nil => intro p h; simp [strHashLoop]
  | cons x xs ih =>
    intro p h
    have hx : x.toNat < 256 := x.toNat_lt
    have hn : StrOps.nthByte (p ++ x :: xs) (p.length : Int) = .val x.toNat := by
      simp [StrOps.nthByte]
    have hb : bitsOfInt (x.toNat : Int) = UInt64.ofNat x.toNat := by
      unfold bitsOfInt
      congr 1
      omega
    simp only [List.length_cons, strHashLoop, hn, hb, List.foldl_cons]
    have := ih (p ++ [x]) ((h ^^^ UInt64.ofNat x.toNat) * 1099511628211)
    simpa using this

theorem strHashIndexed_eq (s : StrOps.Bytes) : strHashIndexed s = some (strHash s) := by
  have := strHashLoop_spec s [] 0xcbf29ce484222325
  simpa [strHashIndexed, strHash, StrOps.countBytes] using this

theorem scalar_hash_congr :
    HashCongr voidEqual voidHash ∧ HashCongr boolEqual boolHash ∧ HashCongr intEqual intHash ∧
    HashCongr strEqual strHash := by
  refine ⟨fun _ _ _ => rfl, by unfold HashCongr; decide, ?_, ?_⟩
  · intro a b h
    simp only [intEqual, decide_eq_true_eq] at h
    rw [h]
  · intro a b h
    rw [strRun_eq, decide_eq_true_eq] at h
    rw [h]

end Abra.PreludeCmp
