import AbraModel.F64
/-!
Helper lemmas for C16/C24: the `total_cmp` key, the six relations as order relations on the key,
decoding of the fields.
-/
namespace Abra.F64

theorem toNat_lt (b : Bits) : b.toNat < 2 ^ 64 := b.toNat_lt

theorem key_lt (b : Bits) : key b < 2 ^ 64 := by
  have := toNat_lt b
  unfold key signBit
  split <;> omega

theorem key_inj {a b : Bits} : key a = key b ↔ a = b := by
  constructor
  · intro h
    apply UInt64.toNat_inj.1
    have ha := toNat_lt a
    have hb := toNat_lt b
    unfold key signBit at h
    split at h <;> split at h <;> omega
  · intro h; rw [h]

theorem flt_iff (a b : Bits) : flt a b = true ↔ key a < key b := by
  unfold flt totalCmp
  rcases Nat.lt_trichotomy (key a) (key b) with h | h | h
  · simp [Nat.compare_eq_lt.2 h, h]
  · simp [h]
  · simp [Nat.compare_eq_gt.2 h]; omega

theorem fle_iff (a b : Bits) : fle a b = true ↔ key a ≤ key b := by
  unfold fle totalCmp
  rcases Nat.lt_trichotomy (key a) (key b) with h | h | h
  · simp [Nat.compare_eq_lt.2 h]; omega
  · simp [h]
  · simp [Nat.compare_eq_gt.2 h]; omega

theorem fgt_iff (a b : Bits) : fgt a b = true ↔ key b < key a := by
  unfold fgt totalCmp
  rcases Nat.lt_trichotomy (key a) (key b) with h | h | h
  · simp [Nat.compare_eq_lt.2 h]; omega
  · simp [h]
  · simp [Nat.compare_eq_gt.2 h, h]

theorem fge_iff (a b : Bits) : fge a b = true ↔ key b ≤ key a := by
  unfold fge totalCmp
  rcases Nat.lt_trichotomy (key a) (key b) with h | h | h
  · simp [Nat.compare_eq_lt.2 h]; omega
  · simp [h]
  · simp [Nat.compare_eq_gt.2 h]; omega

theorem feq_iff (a b : Bits) : feq a b = true ↔ a = b := by
  unfold feq totalCmp
  rw [← key_inj]
  rcases Nat.lt_trichotomy (key a) (key b) with h | h | h
  · simp [Nat.compare_eq_lt.2 h]; omega
  · simp [h]
  · simp [Nat.compare_eq_gt.2 h]; omega

/-! ### decoding and `f as i64` -/

/-- saturation to the 64-bit range -/
def clamp (x : Int) : Int := if x < i64Min then i64Min else if x > i64Max then i64Max else x

theorem mantissa_lt (b : Bits) : mantissa b < 2 ^ 52 := Nat.mod_lt _ (by decide)

theorem tdiv_neg_nat (a d : Nat) : Int.tdiv (-(a : Int)) (d : Int) = -((a / d : Nat) : Int) := by
  rw [Int.neg_tdiv]; rfl

theorem tdiv_nat (a d : Nat) : Int.tdiv (a : Int) (d : Int) = ((a / d : Nat) : Int) := rfl

theorem sat_pos (q : Nat) : (if (q : Int) > i64Max then i64Max else (q : Int)) = clamp q := by
  unfold clamp i64Min i64Max
  split <;> split <;> (try split) <;> omega

theorem sat_neg (q : Nat) : (if (q : Int) ≥ 2 ^ 63 then i64Min else -(q : Int)) = clamp (-(q : Int)) := by
  unfold clamp i64Min i64Max
  split <;> split <;> (try split) <;> omega

/-- the truncated magnitude is the natural-number quotient of the exact value -/
theorem truncMagnitude_eq (b : Bits) (h0 : expField b ≠ 0) :
    let v := finiteValue b
    Int.tdiv v.1 v.2 =
      if sign b then -((truncMagnitude (expField b) (mantissa b) : Nat) : Int)
      else ((truncMagnitude (expField b) (mantissa b) : Nat) : Int) := by
  unfold finiteValue truncMagnitude
  simp only [h0, if_false]
  by_cases hge : expField b ≥ 1075
  · simp only [hge, if_true, Nat.shiftLeft_eq]
    cases sign b
    · simp only [Bool.false_eq_true, if_false, tdiv_nat, Nat.div_one]
    · simp only [if_true, tdiv_neg_nat, Nat.div_one]
  · simp only [hge, if_false, Nat.shiftRight_eq_div_pow]
    cases sign b
    · simp only [Bool.false_eq_true, if_false, tdiv_nat]
    · simp only [if_true, tdiv_neg_nat]

theorem intFromFloat_finite (b : Bits) (hn : isNaN b = false) (hi : isInf b = false) :
    intFromFloat b = clamp (Int.tdiv (finiteValue b).1 (finiteValue b).2) := by
  have hm := mantissa_lt b
  have he : expField b ≠ 2047 := by
    intro h
    simp [isNaN, isInf, h] at hn hi
    exact hi hn
  by_cases h0 : expField b = 0
  · have hz : mantissa b / 2 ^ 1074 = 0 :=
      Nat.div_eq_of_lt (Nat.lt_of_lt_of_le hm (Nat.pow_le_pow_right (by decide) (by omega)))
    have hv : Int.tdiv (finiteValue b).1 (finiteValue b).2 = 0 := by
      unfold finiteValue
      simp only [h0, if_true]
      cases sign b
      · simp only [Bool.false_eq_true, if_false, tdiv_nat, hz]; rfl
      · simp only [if_true, tdiv_neg_nat, hz]; rfl
    rw [hv]
    unfold intFromFloat
    simp [h0, clamp, i64Min, i64Max]
  · have hv := truncMagnitude_eq b h0
    simp only at hv
    rw [hv]
    unfold intFromFloat
    simp only [he, h0, if_false]
    cases sign b
    · simp only [Bool.false_eq_true, if_false]; exact sat_pos _
    · simp only [if_true]; exact sat_neg _

/-! ### `n as f64` -/

theorem msb_spec : ∀ (fuel a : Nat), 1 ≤ a → a < 2 ^ fuel →
    2 ^ msb fuel a ≤ a ∧ a < 2 ^ (msb fuel a + 1) := by
  intro fuel
  induction fuel with
  | zero => intro a h1 h2; simp at h2; omega
  | succ f ih =>
    intro a h1 h2
    unfold msb
    by_cases h : a ≤ 1
    · have : a = 1 := by omega
      subst this; simp
    · simp only [h, if_false]
      have h2' : a / 2 < 2 ^ f := by
        rw [Nat.pow_succ] at h2; omega
      obtain ⟨l, u⟩ := ih (a / 2) (by omega) h2'
      rw [Nat.pow_succ, Nat.pow_succ]
      rw [Nat.pow_succ] at u
      constructor <;> omega

/-- decoding a pattern built from exponent `k` and a 53-bit significand `q'` (`2^53` = carry) -/
theorem decode_fields (k q' : Nat) (hk : k ≤ 63) (h1 : 2 ^ 52 ≤ q') (h2 : q' ≤ 2 ^ 53) :
    let N := (k + 1023) * 2 ^ 52 + (q' - 2 ^ 52)
    N < 2 ^ 63 ∧
    ((q' < 2 ^ 53 ∧ N / 2 ^ 52 % 2 ^ 11 = k + 1023 ∧ N % 2 ^ 52 = q' - 2 ^ 52) ∨
     (q' = 2 ^ 53 ∧ N / 2 ^ 52 % 2 ^ 11 = k + 1024 ∧ N % 2 ^ 52 = 0)) := by
  intro N
  simp only [N]
  omega

/-- what `encodeMagnitude` produces, read back through the exponent and mantissa fields -/
theorem enc_value (a : Nat) (h1 : 1 ≤ a) (h2 : a ≤ 2 ^ 63) :
    let N := encodeMagnitude a
    let k := msb 64 a
    let e := N / 2 ^ 52 % 2 ^ 11
    let m := N % 2 ^ 52
    N < 2 ^ 63 ∧ 1 ≤ e ∧ e ≤ 2046 ∧
    (k ≤ 52 → e ≤ 1075 ∧ 2 ^ 52 + m = a * 2 ^ (1075 - e)) ∧
    (53 ≤ k → e ≥ 1075 ∧
      (let V := (2 ^ 52 + m) * 2 ^ (e - 1075)
       V ≤ a + 2 ^ (k - 53) ∧ a ≤ V + 2 ^ (k - 53) ∧
       ((V = a + 2 ^ (k - 53) ∨ a = V + 2 ^ (k - 53)) → m % 2 = 0) ∧
       (a % 2 ^ (k - 52) = 0 → V = a))) := by
  intro N k e m
  obtain ⟨hlo, hhi⟩ := msb_spec 64 a h1 (by omega)
  have hk63 : k ≤ 63 := by
    rcases Nat.lt_or_ge k 64 with h | h
    · omega
    · exfalso
      have : (2 : Nat) ^ 64 ≤ 2 ^ k := Nat.pow_le_pow_right (by decide) h
      have : 2 ^ k ≤ a := hlo
      omega
  by_cases hk : k ≤ 52
  · -- exact: the significand is a · 2^(52-k)
    have hp : 2 ^ k * 2 ^ (52 - k) = 2 ^ 52 := by rw [← Nat.pow_add]; congr 1; omega
    have hp' : 2 ^ (k + 1) * 2 ^ (52 - k) = 2 ^ 53 := by rw [← Nat.pow_add]; congr 1; omega
    have hpos : 0 < 2 ^ (52 - k) := Nat.pow_pos (by decide)
    have l1 : 2 ^ 52 ≤ a * 2 ^ (52 - k) := by rw [← hp]; exact Nat.mul_le_mul_right _ hlo
    have l2 : a * 2 ^ (52 - k) < 2 ^ 53 := by rw [← hp']; exact Nat.mul_lt_mul_of_pos_right hhi hpos
    have hN : N = (k + 1023) * 2 ^ 52 + (a * 2 ^ (52 - k) - 2 ^ 52) := by
      show encodeMagnitude a = _
      unfold encodeMagnitude
      simp only [show msb 64 a = k from rfl, hk, if_true]
    obtain ⟨d1, d2⟩ := decode_fields k (a * 2 ^ (52 - k)) hk63 l1 (by omega)
    simp only [← hN] at d1 d2
    rcases d2 with ⟨_, he, hm⟩ | ⟨hq, _, _⟩
    · have he' : e = k + 1023 := he
      have hm' : m = a * 2 ^ (52 - k) - 2 ^ 52 := hm
      refine ⟨d1, by omega, by omega, ?_, by omega⟩
      intro _
      refine ⟨by omega, ?_⟩
      have : 1075 - e = 52 - k := by omega
      rw [this, hm']; omega
    · omega
  · -- rounded to 53 bits
    have hk' : 53 ≤ k := by omega
    have hsh : k = 52 + (k - 52) := by omega
    have hP : 2 ^ (k - 52) = 2 * 2 ^ (k - 53) := by
      have : k - 52 = (k - 53) + 1 := by omega
      rw [this, Nat.pow_succ]; omega
    have hkp : 2 ^ k = 2 ^ 52 * 2 ^ (k - 52) := by rw [← Nat.pow_add]; congr 1
    have hkp' : 2 ^ (k + 1) = 2 ^ 53 * 2 ^ (k - 52) := by rw [← Nat.pow_add]; congr 1; omega
    have hPpos : 0 < 2 ^ (k - 52) := Nat.pow_pos (by decide)
    have hq1 : 2 ^ 52 ≤ a / 2 ^ (k - 52) := by
      rw [Nat.le_div_iff_mul_le hPpos, ← hkp]; exact hlo
    have hq2 : a / 2 ^ (k - 52) < 2 ^ 53 := by
      rw [Nat.div_lt_iff_lt_mul hPpos, ← hkp']; exact hhi
    have hdm : 2 ^ (k - 52) * (a / 2 ^ (k - 52)) + a % 2 ^ (k - 52) = a := Nat.div_add_mod a _
    have hrem : a % 2 ^ (k - 52) < 2 ^ (k - 52) := Nat.mod_lt _ hPpos
    -- name the pieces
    generalize hq : a / 2 ^ (k - 52) = q at *
    generalize hr : a % 2 ^ (k - 52) = rem at *
    have hsub : k - 52 - 1 = k - 53 := by omega
    have hN : N = (k + 1023) * 2 ^ 52 +
        ((if rem > 2 ^ (k - 53) ∨ (rem = 2 ^ (k - 53) ∧ q % 2 = 1) then q + 1 else q) - 2 ^ 52) := by
      show encodeMagnitude a = _
      unfold encodeMagnitude
      simp only [show msb 64 a = k from rfl, hk, if_false, hq, hr, hsub]
    generalize hq' : (if rem > 2 ^ (k - 53) ∨ (rem = 2 ^ (k - 53) ∧ q % 2 = 1) then q + 1 else q) = q' at hN
    have hq'b : 2 ^ 52 ≤ q' ∧ q' ≤ 2 ^ 53 := by
      rw [← hq']; split <;> omega
    obtain ⟨d1, d2⟩ := decode_fields k q' hk63 hq'b.1 hq'b.2
    simp only [← hN] at d1 d2
    -- the value decoded from the fields is q' · 2^(k-52)
    have hV : e ≥ 1075 ∧ (2 ^ 52 + m) * 2 ^ (e - 1075) = q' * 2 ^ (k - 52) ∧ m % 2 = q' % 2 := by
      rcases d2 with ⟨hlt, he, hm⟩ | ⟨heq, he, hm⟩
      · have he' : e = k + 1023 := he
        have hm' : m = q' - 2 ^ 52 := hm
        have : e - 1075 = k - 52 := by omega
        refine ⟨by omega, ?_, by omega⟩
        have hs : 2 ^ 52 + (q' - 2 ^ 52) = q' := by omega
        rw [this, hm', hs]
      · have he' : e = k + 1024 := he
        have hm' : m = 0 := hm
        have : e - 1075 = (k - 52) + 1 := by omega
        refine ⟨by omega, ?_, by omega⟩
        rw [this, hm', heq, show (2 : Nat) ^ (k - 52 + 1) = 2 ^ (k - 52) * 2 from Nat.pow_succ _ _]
        generalize 2 ^ (k - 52) = P
        omega
    obtain ⟨hV1, hV2, hV3⟩ := hV
    have he2046 : 1 ≤ e ∧ e ≤ 2046 := by
      rcases d2 with ⟨_, he, _⟩ | ⟨_, he, _⟩ <;> (have : e = _ := he) <;> omega
    refine ⟨d1, he2046.1, he2046.2, by omega, ?_⟩
    intro _
    refine ⟨hV1, ?_⟩
    show (2 ^ 52 + m) * 2 ^ (e - 1075) ≤ a + 2 ^ (k - 53) ∧ a ≤ (2 ^ 52 + m) * 2 ^ (e - 1075) + 2 ^ (k - 53) ∧
      (((2 ^ 52 + m) * 2 ^ (e - 1075) = a + 2 ^ (k - 53) ∨ a = (2 ^ 52 + m) * 2 ^ (e - 1075) + 2 ^ (k - 53)) → m % 2 = 0) ∧
      (rem = 0 → (2 ^ 52 + m) * 2 ^ (e - 1075) = a)
    rw [hV2, hV3]
    have hX : q * 2 ^ (k - 52) = 2 ^ (k - 52) * q := Nat.mul_comm _ _
    have hX1 : (q + 1) * 2 ^ (k - 52) = 2 ^ (k - 52) * q + 2 ^ (k - 52) := by
      rw [Nat.add_mul, hX]; omega
    generalize 2 ^ (k - 52) * q = X at *
    generalize 2 ^ (k - 53) = H at *
    generalize 2 ^ (k - 52) = P at *
    by_cases hc : rem > H ∨ (rem = H ∧ q % 2 = 1)
    · rw [if_pos hc] at hq'
      subst hq'
      rw [hX1]
      omega
    · rw [if_neg hc] at hq'
      subst hq'
      rw [hX]
      omega

theorem fields_ofNat (N : Nat) (hN : N < 2 ^ 63) (neg : Bool) :
    let r := UInt64.ofNat (if neg then signBit + N else N)
    expField r = N / 2 ^ 52 % 2 ^ 11 ∧ mantissa r = N % 2 ^ 52 ∧ sign r = neg := by
  intro r
  have ht : r.toNat = if neg then signBit + N else N := by
    show (UInt64.ofNat _).toNat = _
    rw [UInt64.toNat_ofNat']
    unfold signBit
    cases neg <;> simp <;> omega
  unfold expField mantissa sign
  rw [ht]
  unfold signBit
  cases neg <;> simp <;> omega

theorem float_from_int_spec (n : Int) (hlo : i64Min ≤ n) (hhi : n ≤ i64Max) :
    let r := floatFromInt n
    let v := finiteValue r
    let k := msb 64 n.natAbs
    isNaN r = false ∧ isInf r = false ∧ sign r = decide (n < 0) ∧
    (n.natAbs ≤ 2 ^ 53 → v.1 = n * v.2) ∧
    (2 ^ 53 < n.natAbs → v.2 = 1 ∧ (v.1 - n).natAbs ≤ 2 ^ (k - 53) ∧
      ((v.1 - n).natAbs = 2 ^ (k - 53) → mantissa r % 2 = 0) ∧
      (n.natAbs % 2 ^ (k - 52) = 0 → v.1 = n)) := by
  intro r v k
  by_cases hz : n = 0
  · subst hz
    have hr : r = 0 := rfl
    simp only [v, hr]
    refine ⟨by decide, by decide, by decide, ?_, ?_⟩
    · intro _; simp [finiteValue, expField, mantissa, sign, signBit]
    · intro h; simp at h
  · have ha1 : 1 ≤ n.natAbs := by omega
    have ha2 : n.natAbs ≤ 2 ^ 63 := by unfold i64Min i64Max at *; omega
    obtain ⟨hN, he1, he2, hex, hrd⟩ := enc_value n.natAbs ha1 ha2
    have hkdef : msb 64 n.natAbs = k := rfl
    simp only [hkdef] at hex hrd
    clear_value k
    have hr : r = UInt64.ofNat (if decide (n < 0) then signBit + encodeMagnitude n.natAbs
        else encodeMagnitude n.natAbs) := by
      show floatFromInt n = _
      unfold floatFromInt
      by_cases hneg : n < 0 <;> simp [hz, hneg]
    obtain ⟨fe, fm, fs⟩ := fields_ofNat (encodeMagnitude n.natAbs) hN (decide (n < 0))
    rw [← hr] at fe fm fs
    generalize hE : encodeMagnitude n.natAbs / 2 ^ 52 % 2 ^ 11 = e at *
    generalize hM : encodeMagnitude n.natAbs % 2 ^ 52 = m at *
    have hm52 : m < 2 ^ 52 := by rw [← hM]; exact Nat.mod_lt _ (by decide)
    have hnan : isNaN r = false := by simp [isNaN, fe]; omega
    have hinf : isInf r = false := by simp [isInf, fe]; omega
    have hv : v = (if decide (n < 0) then -(((if e ≥ 1075 then ((2 ^ 52 + m) * 2 ^ (e - 1075), 1)
          else (2 ^ 52 + m, 2 ^ (1075 - e))) : Nat × Nat).1 : Int)
        else (((if e ≥ 1075 then ((2 ^ 52 + m) * 2 ^ (e - 1075), 1)
          else (2 ^ 52 + m, 2 ^ (1075 - e))) : Nat × Nat).1 : Int),
        ((if e ≥ 1075 then ((2 ^ 52 + m) * 2 ^ (e - 1075), 1)
          else (2 ^ 52 + m, 2 ^ (1075 - e))) : Nat × Nat).2) := by
      show finiteValue r = _
      unfold finiteValue
      have he0 : e ≠ 0 := by omega
      simp only [fe, fm, fs, he0, if_false]
    refine ⟨hnan, hinf, fs, ?_, ?_⟩
    · intro hsmall
      by_cases hk : k ≤ 52
      · obtain ⟨hle, hsig⟩ := hex hk
        by_cases hge : e ≥ 1075
        · have : e = 1075 := by omega
          subst this
          rw [hv]
          simp only [ge_iff_le, Nat.le_refl, if_true, Nat.sub_self, Nat.pow_zero, Nat.mul_one] at hsig ⊢
          by_cases hneg : n < 0 <;> simp [hneg, hsig] <;> omega
        · rw [hv]
          simp only [hge, if_false]
          by_cases hneg : n < 0
          · simp only [hneg, decide_true, if_true, hsig]
            have : n = -(n.natAbs : Int) := by omega
            rw [Int.natCast_mul]
            conv => rhs; rw [this]
            simp [Int.neg_mul]
          · simp only [hneg, decide_false, Bool.false_eq_true, if_false, hsig]
            have : n = (n.natAbs : Int) := by omega
            rw [Int.natCast_mul]
            conv => rhs; rw [this]
      · -- k = 53 and |n| = 2^53: representable, hence exact
        obtain ⟨hlo', _⟩ := msb_spec 64 n.natAbs ha1 (by omega)
        rw [hkdef] at hlo'
        have hk53 : k = 53 := by
          rcases Nat.lt_or_ge k 54 with h | h
          · omega
          · exfalso
            have : (2 : Nat) ^ 54 ≤ 2 ^ k := Nat.pow_le_pow_right (by decide) h
            have : 2 ^ k ≤ n.natAbs := hlo'
            omega
        have habs : n.natAbs = 2 ^ 53 := by
          have : 2 ^ k ≤ n.natAbs := hlo'
          rw [hk53] at this; omega
        obtain ⟨hge, _, _, _, hexact⟩ := hrd (by omega)
        have hVa := hexact (by rw [hk53, habs])
        rw [hv]
        simp only [hge, if_true]
        by_cases hneg : n < 0 <;> simp [hneg, hVa] <;> omega
    · intro hbig
      have hk : 53 ≤ k := by
        obtain ⟨_, hhi'⟩ := msb_spec 64 n.natAbs ha1 (by omega)
        rw [hkdef] at hhi'
        rcases Nat.lt_or_ge k 53 with h | h
        · exfalso
          have : (2 : Nat) ^ (k + 1) ≤ 2 ^ 53 := Nat.pow_le_pow_right (by decide) (by omega)
          have : n.natAbs < 2 ^ (k + 1) := hhi'
          omega
        · exact h
      obtain ⟨hge, hnear1, hnear2, htie, hexact⟩ := hrd hk
      rw [hv]
      simp only [hge, if_true, fm]
      generalize (2 ^ 52 + m) * 2 ^ (e - 1075) = V at *
      generalize 2 ^ (k - 53) = H at *
      by_cases hneg : n < 0
      · simp only [hneg, decide_true, if_true]
        refine ⟨trivial, by omega, fun h => htie (by omega), fun h => ?_⟩
        have := hexact h; omega
      · simp only [hneg, decide_false, Bool.false_eq_true, if_false]
        refine ⟨trivial, by omega, fun h => htie (by omega), fun h => ?_⟩
        have := hexact h; omega

/-! ### floor / ceil / round -/

theorem finiteValue_den_pos (x : Bits) : 0 < (finiteValue x).2 := by
  unfold finiteValue
  simp only
  split
  · exact Nat.pow_pos (by decide)
  · split
    · exact Nat.one_pos
    · exact Nat.pow_pos (by decide)

/-- below exponent field 1075 the numerator has fewer than 53 bits -/
theorem finiteValue_num_small (x : Bits) (he : expField x < 1075) : (finiteValue x).1.natAbs < 2 ^ 53 := by
  have hm := mantissa_lt x
  unfold finiteValue
  simp only
  have hge : ¬ expField x ≥ 1075 := by omega
  by_cases h0 : expField x = 0
  · simp only [h0, if_true]
    cases sign x <;> simp <;> omega
  · simp only [h0, hge, if_false]
    cases sign x <;> simp <;> omega

theorem roundInt_small (mode : Rounding) (n : Int) (d : Nat) (hd : 0 < d) (hn : n.natAbs < 2 ^ 53) :
    (roundInt mode n d).natAbs ≤ 2 ^ 53 := by
  cases mode
  · have := Int.natAbs_ediv_le_natAbs n d
    simp only [roundInt]; omega
  · have := Int.natAbs_ediv_le_natAbs (-n) d
    simp only [roundInt, Int.natAbs_neg] at *; omega
  · -- (2a + d) / (2d) ≤ a + 1
    have key : ∀ a : Nat, (2 * a + d) / (2 * d) ≤ a + 1 := by
      intro a
      apply Nat.le_of_lt_succ
      rw [Nat.div_lt_iff_lt_mul (by omega)]
      have h1 : a ≤ a * d := Nat.le_mul_of_pos_right a hd
      have e : (a + 1 + 1) * (2 * d) = 2 * (a * d) + 4 * d := by
        rw [Nat.add_mul, Nat.add_mul, ← Nat.mul_assoc, Nat.mul_comm a 2, Nat.mul_assoc]; omega
      rw [e]; omega
    simp only [roundInt]
    by_cases hs : n ≥ 0
    · simp only [hs, if_true]
      have hc : (2 * n + (d : Int)) / (2 * (d : Int)) = (((2 * n.natAbs + d) / (2 * d) : Nat) : Int) := by
        have : n = (n.natAbs : Int) := by omega
        rw [this]; simp
      rw [hc, Int.natAbs_natCast]
      have := key n.natAbs
      omega
    · simp only [hs, if_false, Int.natAbs_neg]
      have hc : (2 * -n + (d : Int)) / (2 * (d : Int)) = (((2 * n.natAbs + d) / (2 * d) : Nat) : Int) := by
        have : -n = (n.natAbs : Int) := by omega
        rw [this]; simp
      rw [hc, Int.natAbs_natCast]
      have := key n.natAbs
      omega

/-- `floor`/`ceil`/`round`: NaN stays NaN; patterns that are already integral are returned; otherwise the
    result is a finite pattern denoting EXACTLY the integer the exact value rounds to, and a zero result keeps
    the operand's sign -/
theorem roundBits_spec (mode : Rounding) (x : Bits) :
    (isNaN x = true → isNaN (roundBits mode x) = true) ∧
    (isNaN x = false → expField x ≥ 1075 → roundBits mode x = x) ∧
    (isNaN x = false → expField x < 1075 →
      let n := roundInt mode (finiteValue x).1 (finiteValue x).2
      let r := roundBits mode x
      isNaN r = false ∧ isInf r = false ∧
      (finiteValue r).1 = n * (finiteValue r).2 ∧
      (n = 0 → r = if sign x then 0x8000000000000000 else 0) ∧
      (n ≠ 0 → sign r = decide (n < 0))) := by
  refine ⟨?_, ?_, ?_⟩
  · intro h
    have hx := toNat_lt x
    simp only [isNaN, Bool.and_eq_true, decide_eq_true_eq, ne_eq] at h
    obtain ⟨h1, h2⟩ := h
    unfold roundBits
    simp only [isNaN, h1, h2, decide_true, Bool.true_and, ne_eq, not_false_eq_true, if_true, quiet]
    unfold expField mantissa at *
    split
    · rw [UInt64.toNat_ofNat']
      simp only [Bool.and_eq_true, decide_eq_true_eq, ne_eq]
      omega
    · simp only [Bool.and_eq_true, decide_eq_true_eq, ne_eq]
      omega
  · intro h he
    unfold roundBits
    simp [h, he]
  · intro h he n r
    have hge : ¬ expField x ≥ 1075 := by omega
    have hr : r = if n = 0 then (if sign x then 0x8000000000000000 else 0) else floatFromInt n := by
      show roundBits mode x = _
      unfold roundBits
      simp only [h, hge, if_false, Bool.false_eq_true]
      rfl
    by_cases hn0 : n = 0
    · rw [hr]
      simp only [hn0, if_true]
      cases sign x <;> simp <;> decide
    · have hsmall := roundInt_small mode (finiteValue x).1 (finiteValue x).2 (finiteValue_den_pos x)
        (finiteValue_num_small x he)
      have hspec := float_from_int_spec n (by unfold i64Min; omega) (by unfold i64Max; omega)
      simp only at hspec
      obtain ⟨h1, h2, h3, h4, _⟩ := hspec
      rw [hr]
      simp only [hn0, if_false]
      exact ⟨h1, h2, h4 hsmall, fun h => absurd h (by simpa using hn0), fun _ => h3⟩

/-! ### the bit-level key -/

theorem xor_signBit (x : Nat) (h : x < 2 ^ 63) : x ^^^ 2 ^ 63 = x + 2 ^ 63 := by
  apply Nat.eq_of_testBit_eq
  intro i
  rw [Nat.testBit_xor, Nat.add_comm x, Nat.testBit_two_pow]
  by_cases hi : i = 63
  · subst hi
    rw [Nat.testBit_two_pow_add_eq, Nat.testBit_lt_two_pow h]
    simp
  · rcases Nat.lt_or_gt_of_ne hi with hlt | hgt
    · have : ¬ (63 = i) := by omega
      rw [Nat.testBit_two_pow_add_gt hlt]
      simp [this]
    · have h1 : (2:Nat) ^ 64 ≤ 2 ^ i := Nat.pow_le_pow_right (by decide) hgt
      have : ¬ (63 = i) := by omega
      rw [Nat.testBit_lt_two_pow (x := x) (by omega), Nat.testBit_lt_two_pow (x := 2 ^ 63 + x) (by omega)]
      simp [this]

theorem keyBits_toNat (b : Bits) : (keyBits b).toNat = key b := by
  have hb := toNat_lt b
  have hs : (b >>> 63 = 1) ↔ b.toNat ≥ signBit := by
    rw [← UInt64.toNat_inj, UInt64.toNat_shiftRight, Nat.shiftRight_eq_div_pow]
    show b.toNat / 2 ^ 63 = 1 ↔ b.toNat ≥ 2 ^ 63
    omega
  unfold keyBits key
  by_cases h : b.toNat ≥ signBit
  · rw [if_pos (hs.2 h), if_pos h, UInt64.toNat_not]
  · rw [if_neg (fun h' => h (hs.1 h')), if_neg h, UInt64.toNat_xor]
    show b.toNat ^^^ 2 ^ 63 = b.toNat + 2 ^ 63
    exact xor_signBit _ (by unfold signBit at h; omega)

end Abra.F64
