import AbraModel.SrcMap
/-!
Helper lemmas for C32: the table built by the push-unless-same loop equals a run-length encoding,
and the `search … idx-1` lookup on a run-length encoding returns the value of the run containing `pc-1`.
-/
namespace Abra.SrcMap

/-- run-length encoding with explicit start index and the id of the run in progress -/
def rle (i : Nat) (last : Option Nat) : List Nat → Table
  | [] => []
  | x :: xs => if last = some x then rle (i + 1) last xs else (i, x) :: rle (i + 1) (some x) xs

/-- one column of `build` as a fold -/
def colStep (s : Table × Nat) (x : Nat) : Table × Nat := (pushIfNew s.1 s.2 x, s.2 + 1)

def lastId (tbl : Table) : Option Nat := tbl.getLast?.map (·.2)

theorem pushIfNew_eq (tbl : Table) (i x : Nat) :
    pushIfNew tbl i x = if lastId tbl = some x then tbl else tbl ++ [(i, x)] := by
  unfold pushIfNew lastId
  cases h : tbl.getLast? with
  | none => simp
  | some l => simp

theorem lastId_append (tbl : Table) (i x : Nat) : lastId (tbl ++ [(i, x)]) = some x := by
  simp [lastId]

theorem foldl_colStep (xs : List Nat) : ∀ (tbl : Table) (i : Nat),
    xs.foldl colStep (tbl, i) = (tbl ++ rle i (lastId tbl) xs, i + xs.length) := by
  induction xs with
  | nil => intro tbl i; simp [rle]
  | cons x xs ih =>
    intro tbl i
    simp only [List.foldl_cons, colStep]
    rw [pushIfNew_eq]
    by_cases h : lastId tbl = some x
    · simp only [h, if_true]
      rw [ih]
      simp only [rle, h, if_true, List.length_cons]
      congr 1; omega
    · simp only [h, if_false]
      rw [ih, lastId_append]
      simp only [rle, h, if_false, List.length_cons, List.append_assoc, List.singleton_append]
      congr 1; omega

/-- value of the last entry whose key is below `pc`, scanning from the left and stopping at the first
    key that is not below (`c` = candidate so far) -/
def lastBelow : Table → Nat → Option Nat → Option Nat
  | [], _, c => c
  | (k, v) :: rest, pc, c => if k < pc then lastBelow rest pc (some v) else c

/-- keys of `rle i …` are at least `i`, so nothing is below a `pc ≤ i` -/
theorem lastBelow_rle_le (xs : List Nat) : ∀ (i : Nat) (last : Option Nat) (c : Option Nat) (pc : Nat),
    pc ≤ i → lastBelow (rle i last xs) pc c = c := by
  induction xs with
  | nil => intros; simp [rle, lastBelow]
  | cons x xs ih =>
    intro i last c pc h
    simp only [rle]
    by_cases hl : last = some x
    · simp only [hl, if_true]; exact ih (i + 1) (some x) c pc (by omega)
    · simp only [hl, if_false, lastBelow]
      have : ¬ i < pc := by omega
      simp [this]

/-- the entry governing instruction `pc` of a run-length encoding is the instruction's own id -/
theorem lastBelow_rle (xs : List Nat) : ∀ (i : Nat) (last : Option Nat) (pc : Nat),
    i ≤ pc → (h : pc - i < xs.length) →
    lastBelow (rle i last xs) (pc + 1) last = some xs[pc - i] := by
  induction xs with
  | nil => intro i last pc _ h; simp at h
  | cons x xs ih =>
    intro i last pc hi h
    simp only [rle]
    by_cases hl : last = some x
    · simp only [hl, if_true]
      by_cases hp : pc = i
      · subst hp
        rw [lastBelow_rle_le xs (pc + 1) (some x) (some x) (pc + 1) (Nat.le_refl _)]
        simp
      · have h1 : i + 1 ≤ pc := by omega
        have h2 : pc - (i + 1) < xs.length := by simp at h; omega
        have := ih (i + 1) (some x) pc h1 h2
        rw [this]
        have e : pc - i = (pc - (i + 1)) + 1 := by omega
        simp [e]
    · simp only [hl, if_false, lastBelow]
      have hlt : i < pc + 1 := by omega
      simp only [hlt, if_true]
      by_cases hp : pc = i
      · subst hp
        rw [lastBelow_rle_le xs (pc + 1) (some x) (some x) (pc + 1) (Nat.le_refl _)]
        simp
      · have h1 : i + 1 ≤ pc := by omega
        have h2 : pc - (i + 1) < xs.length := by simp at h; omega
        have := ih (i + 1) (some x) pc h1 h2
        rw [this]
        have e : pc - i = (pc - (i + 1)) + 1 := by omega
        simp [e]

/-- index returned by the search = start index + length of the prefix with keys below `pc` -/
def prefixBelow : Table → Nat → Nat
  | [], _ => 0
  | (k, _) :: rest, pc => if k < pc then prefixBelow rest pc + 1 else 0

theorem searchFrom_idx (tbl : Table) : ∀ (i pc : Nat),
    (searchFrom i tbl pc).idx = i + prefixBelow tbl pc := by
  induction tbl with
  | nil => intros; simp [searchFrom, prefixBelow, Search.idx]
  | cons e rest ih =>
    intro i pc
    obtain ⟨k, v⟩ := e
    simp only [searchFrom, prefixBelow]
    by_cases h1 : k = pc
    · subst h1; simp [Search.idx]
    · simp only [h1, if_false]
      by_cases h2 : pc < k
      · have : ¬ k < pc := by omega
        simp [h2, this, Search.idx]
      · have : k < pc := by omega
        simp only [h2, if_false, this, if_true]
        rw [ih]; omega

/-- element before the end of the below-`pc` prefix = `lastBelow` -/
theorem lastBelow_prefix (tbl : Table) : ∀ (pc : Nat) (c : Option Nat),
    lastBelow tbl pc c =
      if prefixBelow tbl pc = 0 then c else (tbl[prefixBelow tbl pc - 1]?).map (·.2) := by
  induction tbl with
  | nil => intros; simp [lastBelow, prefixBelow]
  | cons e rest ih =>
    intro pc c
    obtain ⟨k, v⟩ := e
    simp only [lastBelow, prefixBelow]
    by_cases h : k < pc
    · simp only [h, if_true]
      rw [ih]
      by_cases h0 : prefixBelow rest pc = 0
      · simp [h0]
      · simp only [h0, if_false]
        have : prefixBelow rest pc + 1 - 1 = (prefixBelow rest pc - 1) + 1 := by omega
        simp [this]
    · simp [h]

theorem lookupCol_eq (tbl : Table) (pc : Nat) :
    lookupCol tbl pc =
      if prefixBelow tbl pc = 0 then tbl.head?.map (·.2) else lastBelow tbl pc none := by
  unfold lookupCol search
  have h := searchFrom_idx tbl 0 pc
  simp only [Nat.zero_add] at h
  simp only [h]
  rw [lastBelow_prefix]
  by_cases h0 : prefixBelow tbl pc = 0
  · simp [h0, List.head?_eq_getElem?]
  · have : prefixBelow tbl pc ≥ 1 := by omega
    simp [h0, this]

/-- the column lookup on a freshly compressed column returns the id of instruction `pc` -/
theorem lookupCol_compress (xs : List Nat) (pc : Nat) (h : pc < xs.length) :
    lookupCol (xs.foldl colStep ([], 0)).1 (pc + 1) = some xs[pc] := by
  rw [foldl_colStep]
  simp only [List.nil_append, lastId, List.getLast?_nil, Option.map_none]
  rw [lookupCol_eq]
  have hb := lastBelow_rle xs 0 none pc (Nat.zero_le _) (by simpa using h)
  rw [lastBelow_prefix] at hb
  by_cases h0 : prefixBelow (rle 0 none xs) (pc + 1) = 0
  · simp [h0] at hb
  · simp only [h0, if_false] at hb ⊢
    rw [lastBelow_prefix]
    simp only [h0, if_false]
    simpa using hb

/-! projection of the three-column loop onto one column -/

def colOf (f : Ann → Nat) (ls : List SLine) : List Nat := (instrs ls).map (fun p => f p.1)

theorem foldl_buildStep (ls : List SLine) : ∀ (s : BuildState),
    let r := ls.foldl buildStep s
    (r.t.files, r.idx) = (colOf (·.file) ls).foldl colStep (s.t.files, s.idx) ∧
    (r.t.lines, r.idx) = (colOf (·.line) ls).foldl colStep (s.t.lines, s.idx) ∧
    (r.t.funcs, r.idx) = (colOf (·.func) ls).foldl colStep (s.t.funcs, s.idx) := by
  induction ls with
  | nil => intro s; simp [colOf, instrs]
  | cons l ls ih =>
    intro s
    cases l with
    | label => simpa [buildStep, colOf, instrs] using ih s
    | instr a k =>
      have := ih (buildStep s (.instr a k))
      simpa [buildStep, colOf, instrs, colStep] using this

theorem build_files (ls : List SLine) :
    (build ls).files = ((colOf (·.file) ls).foldl colStep ([], 0)).1 := by
  have := (foldl_buildStep ls { t := { files := [], lines := [], funcs := [] }, idx := 0 }).1
  simp only at this
  unfold build
  rw [← this]

theorem build_lines (ls : List SLine) :
    (build ls).lines = ((colOf (·.line) ls).foldl colStep ([], 0)).1 := by
  have := (foldl_buildStep ls { t := { files := [], lines := [], funcs := [] }, idx := 0 }).2.1
  simp only at this
  unfold build
  rw [← this]

theorem build_funcs (ls : List SLine) :
    (build ls).funcs = ((colOf (·.func) ls).foldl colStep ([], 0)).1 := by
  have := (foldl_buildStep ls { t := { files := [], lines := [], funcs := [] }, idx := 0 }).2.2
  simp only at this
  unfold build
  rw [← this]

end Abra.SrcMap
