import AbraModel.Lib.HashMap
/-! Lemmas for C27, part 1: bounded accesses, chains through `entry_nexts`, the chain walks. -/
namespace Abra.Lib.HashMap

variable {K V : Type}

/-! ## bounded accesses -/

theorem getI_ok {α : Type} (l : List α) (i : Int) (x : α) (h0 : 0 ≤ i) (h : l[i.toNat]? = some x) :
    getI l i = .ok x := by
  have : ¬ i < 0 := by omega
  simp [getI, this, h]

theorem getI_nat {α : Type} (l : List α) (i : Nat) (x : α) (h : l[i]? = some x) : getI l (i : Int) = .ok x :=
  getI_ok l i x (by omega) (by simpa using h)

theorem setI_ok {α : Type} (l : List α) (i : Int) (x : α) (h0 : 0 ≤ i) (h : i.toNat < l.length) :
    setI l i x = .ok (l.set i.toNat x) := by
  have : ¬ i < 0 := by omega
  simp [setI, this, h]

theorem setI_nat {α : Type} (l : List α) (i : Nat) (x : α) (h : i < l.length) :
    setI l (i : Int) x = .ok (l.set i x) := by
  have := setI_ok l (i : Int) x (by omega) (by simpa using h)
  simpa using this

theorem getElem?_lt {α : Type} {l : List α} {i : Nat} {x : α} (h : l[i]? = some x) : i < l.length := by
  rcases Nat.lt_or_ge i l.length with h1 | h1
  · exact h1
  · rw [List.getElem?_eq_none h1] at h; cases h

/-- the bucket index is in range (D9 repaired: `%` is Euclidean, no `abs`) — also for `MIN` -/
theorem bucketIdx_range (h : Int) (len : Nat) (hl : len ≠ 0) :
    ∃ b : Nat, bucketIdx h len = .ok (b : Int) ∧ b < len ∧ (b : Int) = h % (len : Int) := by
  have hpos : (0 : Int) < len := by omega
  have h1 := Int.emod_nonneg h (by omega : (len : Int) ≠ 0)
  have h2 := Int.emod_lt_of_pos h hpos
  refine ⟨(h % (len : Int)).toNat, ?_, by omega, by omega⟩
  simp only [bucketIdx, hl, if_false]
  congr 1
  omega

/-! ## chains -/

/-- `Chain nexts s c`: following `nexts` from `s` visits exactly the slots `c` and then reaches `-1` -/
inductive Chain (nexts : List Int) : Int → List Nat → Prop where
  | nil : Chain nexts (-1) []
  | cons {i nx : Int} {c : List Nat} : 0 ≤ i → nexts[i.toNat]? = some nx → Chain nexts nx c →
      Chain nexts i (i.toNat :: c)

theorem Chain.of_neg1 {nexts : List Int} {c : List Nat} (h : Chain nexts (-1) c) : c = [] := by
  cases h with
  | nil => rfl
  | cons h0 _ _ => omega

theorem Chain.uncons {nexts : List Int} {s : Int} {c : List Nat} (h : Chain nexts s c) (hs : s ≠ -1) :
    0 ≤ s ∧ ∃ nx c', c = s.toNat :: c' ∧ nexts[s.toNat]? = some nx ∧ Chain nexts nx c' := by
  cases h with
  | nil => exact absurd rfl hs
  | cons h0 hn hc => exact ⟨h0, _, _, rfl, hn, hc⟩

theorem Chain.start {nexts : List Int} {s : Int} {c : List Nat} (h : Chain nexts s c) : s = -1 ∨ 0 ≤ s := by
  cases h with
  | nil => exact Or.inl rfl
  | cons h0 _ _ => exact Or.inr h0

theorem Chain.nil_iff {nexts : List Int} {s : Int} {c : List Nat} (h : Chain nexts s c) : c = [] ↔ s = -1 := by
  cases h with
  | nil => simp
  | cons h0 _ _ =>
    constructor
    · intro h; cases h
    · intro h; omega

theorem Chain.lt {nexts : List Int} {s : Int} {c : List Nat} (h : Chain nexts s c) : ∀ i ∈ c, i < nexts.length := by
  induction h with
  | nil => intro i hi; cases hi
  | cons h0 hn _ ih =>
    intro j hj
    cases List.mem_cons.mp hj with
    | inl e => subst e; exact getElem?_lt hn
    | inr hj => exact ih j hj

/-- a chain only depends on the `nexts` fields of its own slots -/
theorem Chain.congr {nexts nexts' : List Int} {s : Int} {c : List Nat} (h : Chain nexts s c)
    (hag : ∀ i ∈ c, nexts'[i]? = nexts[i]?) : Chain nexts' s c := by
  induction h with
  | nil => exact Chain.nil
  | cons h0 hn _ ih =>
    refine Chain.cons h0 ?_ (ih (fun i hi => hag i (List.mem_cons_of_mem _ hi)))
    rw [hag _ (List.mem_cons_self ..)]; exact hn

/-- a chain is determined by its start -/
theorem Chain.unique {nexts : List Int} {s : Int} {c c' : List Nat} (h : Chain nexts s c) (h' : Chain nexts s c') :
    c = c' := by
  induction h generalizing c' with
  | nil => exact (Chain.of_neg1 h').symm
  | cons h0 hn _ ih =>
    cases h' with
    | nil => omega
    | cons h0' hn' hc' =>
      rw [hn] at hn'
      cases hn'
      rw [ih hc']

/-! ## the chain walks -/

/-- the per-slot test of the walks, as a predicate on slot numbers -/
def matchP (eq : K → K → Bool) (t : Table K V) (hc : Int) (key : K) (i : Nat) : Bool :=
  match t.hashes[i]?, t.keys[i]? with
  | some h, some k => decide (h = hc) && eq k key
  | _, _ => false

theorem slotMatches_eq (eq : K → K → Bool) (t : Table K V) (hc : Int) (key : K) (i : Int) (h0 : 0 ≤ i)
    (hh : i.toNat < t.hashes.length) (hk : i.toNat < t.keys.length) :
    slotMatches eq t hc key i = .ok (matchP eq t hc key i.toNat) := by
  have e1 : t.hashes[i.toNat]? = some (t.hashes[i.toNat]) := List.getElem?_eq_getElem hh
  have e2 : t.keys[i.toNat]? = some (t.keys[i.toNat]) := List.getElem?_eq_getElem hk
  simp only [slotMatches, getI_ok _ i _ h0 e1, getI_ok _ i _ h0 e2, matchP, e1, e2]
  by_cases h : t.hashes[i.toNat] = hc <;> simp [h]

/-- `findLoop` along a chain answers the first matching slot of the chain (and never runs out of fuel) -/
theorem findLoop_chain (eq : K → K → Bool) (t : Table K V) (hc : Int) (key : K)
    (hlenH : t.hashes.length = t.keys.length) (hlenN : t.nexts.length = t.keys.length) :
    ∀ (c : List Nat) (s : Int) (fuel : Nat), Chain t.nexts s c → c.length < fuel →
      findLoop eq t hc key fuel s = .ok ((c.find? (matchP eq t hc key)).map Int.ofNat) := by
  intro c
  induction c with
  | nil =>
    intro s fuel hch hf
    have : s = -1 := (Chain.nil_iff hch).mp rfl
    subst this
    cases fuel with
    | zero => simp at hf
    | succ fuel => simp [findLoop]
  | cons i c ih =>
    intro s fuel hch hf
    cases fuel with
    | zero => simp at hf
    | succ fuel =>
      have hs : s ≠ -1 := by
        intro e; have := (Chain.nil_iff hch).mpr e; cases this
      obtain ⟨h0, nx, c', hc', hnx, hrest⟩ := Chain.uncons hch hs
      cases hc'
      have hlt : s.toNat < t.nexts.length := getElem?_lt hnx
      simp only [findLoop, hs, if_false]
      rw [slotMatches_eq eq t hc key s h0 (by omega) (by omega)]
      by_cases hm : matchP eq t hc key s.toNat = true
      · simp only [hm, List.find?_cons_of_pos, Option.map_some]
        congr 2
        simp only [Int.ofNat_eq_natCast]; omega
      · have hm' : matchP eq t hc key s.toNat = false := by simpa using hm
        have hfind : (s.toNat :: c).find? (matchP eq t hc key) = c.find? (matchP eq t hc key) := by
          simp [List.find?_cons, hm']
        simp only [hm', hfind, getI_ok _ s _ h0 hnx]
        exact ih nx fuel hrest (by simp at hf; omega)

/-- `removeLoop` along a chain answers the first matching slot together with its predecessor in the
    chain (`prev0` when it is the first slot visited) -/
theorem removeLoop_chain (eq : K → K → Bool) (t : Table K V) (hc : Int) (key : K)
    (hlenH : t.hashes.length = t.keys.length) (hlenN : t.nexts.length = t.keys.length) :
    ∀ (c : List Nat) (s prev0 : Int) (fuel : Nat), Chain t.nexts s c → c.length < fuel →
      (∀ i ∈ c, matchP eq t hc key i = false) ∧ removeLoop eq t hc key fuel prev0 s = .ok none
      ∨ ∃ pre i post, c = pre ++ i :: post ∧ (∀ j ∈ pre, matchP eq t hc key j = false) ∧
          matchP eq t hc key i = true ∧
          removeLoop eq t hc key fuel prev0 s = .ok (some (((pre.getLast?.map Int.ofNat).getD prev0), Int.ofNat i)) := by
  intro c
  induction c with
  | nil =>
    intro s prev0 fuel hch hf
    have : s = -1 := (Chain.nil_iff hch).mp rfl
    subst this
    cases fuel with
    | zero => simp at hf
    | succ fuel => left; simp [removeLoop]
  | cons i c ih =>
    intro s prev0 fuel hch hf
    cases fuel with
    | zero => simp at hf
    | succ fuel =>
      have hs : s ≠ -1 := by
        intro e; have := (Chain.nil_iff hch).mpr e; cases this
      obtain ⟨h0, nx, c', hc', hnx, hrest⟩ := Chain.uncons hch hs
      cases hc'
      have hlt : s.toNat < t.nexts.length := getElem?_lt hnx
      simp only [removeLoop, hs, if_false]
      rw [slotMatches_eq eq t hc key s h0 (by omega) (by omega)]
      by_cases hm : matchP eq t hc key s.toNat = true
      · right
        refine ⟨[], s.toNat, c, rfl, by simp, hm, ?_⟩
        simp only [hm, List.getLast?_nil, Option.map_none, Option.getD_none]
        congr 3
        simp only [Int.ofNat_eq_natCast]; omega
      · have hm' : matchP eq t hc key s.toNat = false := by simpa using hm
        simp only [hm', getI_ok _ s _ h0 hnx]
        rcases ih nx s fuel hrest (by simp at hf; omega) with ⟨hall, hr⟩ | ⟨pre, j, post, hcpp, hpre, hj, hr⟩
        · left
          refine ⟨?_, hr⟩
          intro k hk
          cases List.mem_cons.mp hk with
          | inl e => subst e; exact hm'
          | inr hk => exact hall k hk
        · right
          refine ⟨s.toNat :: pre, j, post, by rw [hcpp]; rfl, ?_, hj, ?_⟩
          · intro k hk
            cases List.mem_cons.mp hk with
            | inl e => subst e; exact hm'
            | inr hk => exact hpre k hk
          · rw [hr]
            congr 3
            cases pre with
            | nil => simp only [List.getLast?_singleton, Option.map_some, Option.getD_some, List.getLast?_nil, Option.map_none, Option.getD_none, Int.ofNat_eq_natCast]; omega
            | cons p pre =>
              rw [List.getLast?_cons_cons, List.getLast?_eq_some_getLast (List.cons_ne_nil p pre)]
              rfl

end Abra.Lib.HashMap
