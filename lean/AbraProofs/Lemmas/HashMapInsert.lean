import AbraProofs.Lemmas.HashMapInv
/-! Lemmas for C27, part 3: `insert` without its resize check (update in place, slot from the free
    list, new slot). -/
namespace Abra.Lib.HashMap

variable {K V : Type}

theorem count_set_true (l : List Bool) (i : Nat) (h : l[i]? = some false) :
    (l.set i true).count true = l.count true + 1 := by
  induction l generalizing i with
  | nil => simp at h
  | cons a l ih =>
    cases i with
    | zero => simp at h; subst h; simp
    | succ i =>
      simp only [List.getElem?_cons_succ] at h
      simp only [List.set_cons_succ, List.count_cons, ih i h]
      omega

theorem count_set_false (l : List Bool) (i : Nat) (h : l[i]? = some true) :
    (l.set i false).count true + 1 = l.count true := by
  induction l generalizing i with
  | nil => simp at h
  | cons a l ih =>
    cases i with
    | zero => simp at h; subst h; simp
    | succ i =>
      simp only [List.getElem?_cons_succ] at h
      simp only [List.set_cons_succ, List.count_cons]
      have := ih i h
      omega

theorem getElem?_set' {α : Type} (l : List α) (i j : Nat) (x : α) (hi : i < l.length) :
    (l.set i x)[j]? = if j = i then some x else l[j]? := by
  by_cases h : j = i
  · subst h; simp [hi]
  · simp [h, List.getElem?_set_ne (Ne.symm h)]

theorem getElem?_concat' {α : Type} (l : List α) (j : Nat) (x : α) :
    (l ++ [x])[j]? = if j = l.length then some x else l[j]? := by
  by_cases h : j = l.length
  · subst h; simp
  · simp only [h, if_false]
    rcases Nat.lt_or_ge j l.length with h1 | h1
    · exact List.getElem?_append_left h1
    · rw [List.getElem?_eq_none (by simp; omega), List.getElem?_eq_none h1]

section
variable {hash : K → Int} {eq : K → K → Bool} {t : Table K V} {ch : Nat → List Nat} {fr : List Nat}

/-- in-place update of the value of the slot holding the key -/
theorem update_spec (law : Lawful hash eq) (wf : WF hash eq t ch fr) (d : K → Option V)
    (hd : ∀ k v, d k = some v ↔ ∃ i, Holds eq t k i ∧ t.values[i]? = some v)
    (k : K) (v : V) (i : Nat) (hi : Holds eq t k i) :
    Models hash eq { t with values := t.values.set i v } (fun k' => if eq k k' = true then some v else d k') := by
  have hilt : i < t.values.length := by rw [wf.lenV]; exact hi.lt
  refine ⟨⟨ch, fr, ⟨by simp [wf.lenV], wf.lenH, wf.lenN, wf.lenO, wf.noBuckets, wf.chain, wf.nodup, wf.inBucket,
    wf.complete, wf.hashOk, wf.distinct, wf.freeChain, wf.freeNodup, wf.freeIff, wf.countOk⟩⟩, ?_⟩
  intro k' v'
  have hH : ∀ j, Holds eq { t with values := t.values.set i v } k' j ↔ Holds eq t k' j := fun j => Iff.rfl
  simp only [getElem?_set' _ _ _ _ hilt]
  obtain ⟨oi, ki, hki, eki⟩ := hi
  by_cases hk : eq k k' = true
  · simp only [hk, if_true]
    constructor
    · intro h; cases h
      exact ⟨i, ⟨oi, ki, hki, law.trans _ _ _ eki hk⟩, by simp⟩
    · rintro ⟨j, hj, hv⟩
      have : j = i := Holds.unique law wf hj ⟨oi, ki, hki, law.trans _ _ _ eki hk⟩
      subst this
      simpa using hv
  · simp only [hk, Bool.false_eq_true, if_false]
    rw [hd k' v']
    have hne : ∀ j, Holds eq t k' j → j ≠ i := by
      intro j hj e
      subst e
      obtain ⟨_, kj, hkj, ekj⟩ := hj
      rw [hki] at hkj; cases hkj
      exact hk (law.trans _ _ _ (law.symm _ _ eki) ekj)
    constructor
    · rintro ⟨j, hj, hv⟩
      exact ⟨j, hj, by simp [hne j hj, hv]⟩
    · rintro ⟨j, hj, hv⟩
      refine ⟨j, hj, ?_⟩
      simpa [hne j hj] using hv

/-- a key that no slot holds is stored in a so far unoccupied slot `tg` (taken from the free list or
    newly appended) and linked at the head of its bucket chain -/
theorem fresh_slot_spec (law : Lawful hash eq) (wf : WF hash eq t ch fr) (d : K → Option V)
    (hd : ∀ k v, d k = some v ↔ ∃ i, Holds eq t k i ∧ t.values[i]? = some v)
    (k : K) (v : V) (b : Nat) (hb : b < t.buckets.length) (hbm : (b : Int) = hash k % (t.buckets.length : Int))
    (s : Int) (hs : t.buckets[b]? = some s) (hnone : ∀ j, ¬ Holds eq t k j)
    (tg : Nat) (t' : Table K V) (fr' : List Nat)
    (hK : ∀ j, t'.keys[j]? = if j = tg then some k else t.keys[j]?)
    (hV : ∀ j, t'.values[j]? = if j = tg then some v else t.values[j]?)
    (hH : ∀ j, t'.hashes[j]? = if j = tg then some (hash k) else t.hashes[j]?)
    (hN : ∀ j, t'.nexts[j]? = if j = tg then some s else t.nexts[j]?)
    (hO : ∀ j, t'.occupied[j]? = if j = tg then some true else t.occupied[j]?)
    (hB : t'.buckets = t.buckets.set b (tg : Int))
    (lenV : t'.values.length = t'.keys.length) (lenH : t'.hashes.length = t'.keys.length)
    (lenN : t'.nexts.length = t'.keys.length) (lenO : t'.occupied.length = t'.keys.length)
    (hfree : t.occupied[tg]? ≠ some true)
    (hfc : Chain t.nexts t'.freeList fr') (hfn : fr'.Nodup)
    (hfi : ∀ i, i ∈ fr' ↔ (i ≠ tg ∧ t.occupied[i]? = some false))
    (hcount : t'.count = t.count + 1) (hcnt : t'.occupied.count true = t.occupied.count true + 1) :
    Models hash eq t' (fun k' => if eq k k' = true then some v else d k') := by
  have hm' : t'.buckets.length = t.buckets.length := by rw [hB]; simp
  -- the target slot is in no chain
  have htg_ch : ∀ b', b' < t.buckets.length → tg ∉ ch b' := by
    intro b' hb' hmem
    exact hfree (wf.inBucket b' hb' tg hmem).1
  have hcongr : ∀ {s' : Int} {c : List Nat}, Chain t.nexts s' c → tg ∉ c → Chain t'.nexts s' c := by
    intro s' c hc hnot
    apply hc.congr
    intro i hi
    have : i ≠ tg := fun e => hnot (e ▸ hi)
    simp [hN i, this]
  have hHolds : ∀ k' j, Holds eq t' k' j ↔ (j = tg ∧ eq k k' = true) ∨ (j ≠ tg ∧ Holds eq t k' j) := by
    intro k' j
    unfold Holds
    by_cases hj : j = tg
    · subst hj
      simp only [hO, hK, if_true, true_and, ne_eq, not_true_eq_false, false_and, or_false]
      constructor
      · rintro ⟨ki, e, h⟩; cases e; exact h
      · intro h; exact ⟨k, rfl, h⟩
    · simp [hO j, hK j, hj]
  refine ⟨⟨fun b' => if b' = b then tg :: ch b else ch b', fr', ?_⟩, ?_⟩
  · refine ⟨lenV, lenH, lenN, lenO, ?_, ?_, ?_, ?_, ?_, ?_, ?_, ?_, hfn, ?_, ?_⟩
    · intro h0; rw [hm'] at h0; omega
    · -- chain
      intro b' hb'
      rw [hm'] at hb'
      by_cases hbb : b' = b
      · subst hbb
        obtain ⟨s0, hs0, hch⟩ := wf.chain b' hb'
        rw [hs] at hs0; cases hs0
        refine ⟨(tg : Int), by rw [hB]; simp [hb'], ?_⟩
        simp only [if_true]
        have := Chain.cons (nexts := t'.nexts) (i := (tg : Int)) (nx := s) (c := ch b') (by omega)
          (by simp [hN]) (hcongr hch (htg_ch b' hb'))
        simpa using this
      · obtain ⟨s0, hs0, hch⟩ := wf.chain b' hb'
        refine ⟨s0, by rw [hB, List.getElem?_set_ne (Ne.symm hbb)]; exact hs0, ?_⟩
        simp only [hbb, if_false]
        exact hcongr hch (htg_ch b' hb')
    · -- nodup
      intro b' hb'
      rw [hm'] at hb'
      by_cases hbb : b' = b
      · subst hbb
        simp only [if_true]
        exact List.nodup_cons.mpr ⟨htg_ch b' hb', wf.nodup b' hb'⟩
      · simp only [hbb, if_false]; exact wf.nodup b' hb'
    · -- inBucket
      intro b' hb' i hi
      rw [hm'] at hb' ⊢
      have hold : i ∈ ch b' → t'.occupied[i]? = some true ∧ ∃ h, t'.hashes[i]? = some h ∧ h % (t.buckets.length : Int) = b' := by
        intro hi'
        have hne : i ≠ tg := fun e => htg_ch b' hb' (e ▸ hi')
        simpa [hO i, hH i, hne] using wf.inBucket b' hb' i hi'
      by_cases hbb : b' = b
      · subst hbb
        simp only [if_true, List.mem_cons] at hi
        cases hi with
        | inl e =>
          subst e
          exact ⟨by simp [hO], hash k, by simp [hH], hbm.symm⟩
        | inr hi' => exact hold hi'
      · simp only [hbb, if_false] at hi
        exact hold hi
    · -- complete
      intro i h ho hh
      rw [hm']
      by_cases hi : i = tg
      · subst hi
        simp only [hH, if_true] at hh
        cases hh
        have : (hash k % (t.buckets.length : Int)).toNat = b := by omega
        simp [this]
      · simp only [hO i, hH i, hi, if_false] at ho hh
        have := wf.complete i h ho hh
        by_cases hbb : (h % (t.buckets.length : Int)).toNat = b
        · simp only [hbb, if_true, List.mem_cons]; right; rw [← hbb]; exact this
        · simp only [hbb, if_false]; exact this
    · -- hashOk
      intro i k' ho hk
      by_cases hi : i = tg
      · subst hi
        simp only [hK, if_true] at hk; cases hk
        simp [hH]
      · simp only [hO i, hK i, hH i, hi, if_false] at ho hk ⊢
        exact wf.hashOk i k' ho hk
    · -- distinct
      intro i j ki kj hoi hoj hki hkj he
      by_cases hi : i = tg
      · by_cases hj : j = tg
        · rw [hi, hj]
        · exfalso
          subst hi
          simp only [hK, if_true] at hki; cases hki
          simp only [hO j, hK j, hj, if_false] at hoj hkj
          exact hnone j ⟨hoj, kj, hkj, law.symm _ _ he⟩
      · by_cases hj : j = tg
        · exfalso
          subst hj
          simp only [hK, if_true] at hkj; cases hkj
          simp only [hO i, hK i, hi, if_false] at hoi hki
          exact hnone i ⟨hoi, ki, hki, he⟩
        · simp only [hO i, hK i, hO j, hK j, hi, hj, if_false] at hoi hoj hki hkj
          exact wf.distinct i j ki kj hoi hoj hki hkj he
    · -- freeChain
      have hnot : tg ∉ fr' := fun hmem => ((hfi tg).mp hmem).1 rfl
      exact hcongr hfc hnot
    · -- freeIff
      intro i
      rw [hfi i, hO i]
      by_cases hi : i = tg
      · simp [hi]
      · simp [hi]
    · rw [hcount, hcnt, wf.countOk]; omega
  · intro k' v'
    by_cases hk : eq k k' = true
    · simp only [hk, if_true]
      constructor
      · intro h; cases h
        exact ⟨tg, (hHolds k' tg).mpr (Or.inl ⟨rfl, hk⟩), by simp [hV]⟩
      · rintro ⟨j, hj, hv⟩
        rcases (hHolds k' j).mp hj with ⟨e, _⟩ | ⟨_, hold⟩
        · subst e; simpa [hV] using hv
        · exfalso
          obtain ⟨oj, kj, hkj, ekj⟩ := hold
          exact hnone j ⟨oj, kj, hkj, law.trans _ _ _ ekj (law.symm _ _ hk)⟩
    · simp only [hk, Bool.false_eq_true, if_false]
      rw [hd k' v']
      constructor
      · rintro ⟨j, hj, hv⟩
        have hne : j ≠ tg := by
          intro e; subst e; exact hfree hj.1
        exact ⟨j, (hHolds k' j).mpr (Or.inr ⟨hne, hj⟩), by simp [hV j, hne, hv]⟩
      · rintro ⟨j, hj, hv⟩
        rcases (hHolds k' j).mp hj with ⟨_, e⟩ | ⟨hne, hold⟩
        · exact absurd e hk
        · exact ⟨j, hold, by simpa [hV j, hne] using hv⟩

end
end Abra.Lib.HashMap
