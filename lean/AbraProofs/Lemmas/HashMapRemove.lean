import AbraProofs.Lemmas.HashMapResize
/-! Lemmas for C27, part 6: `remove` unlinks the slot from its bucket chain and pushes it on the free list. -/
namespace Abra.Lib.HashMap

variable {K V : Type} {hash : K → Int} {eq : K → K → Bool}

theorem Chain.split {nexts : List Int} : ∀ {pre : List Nat} {s : Int} {i : Nat} {post : List Nat},
    Chain nexts s (pre ++ i :: post) → ∃ nc, nexts[i]? = some nc ∧ Chain nexts nc post ∧ (pre = [] → s = (i : Int)) := by
  intro pre
  induction pre with
  | nil =>
    intro s i post h
    cases h with
    | cons h0 hn hc => exact ⟨_, hn, hc, fun _ => by omega⟩
  | cons a pre ih =>
    intro s i post h
    cases h with
    | cons h0 hn hc =>
      obtain ⟨nc, h1, h2, _⟩ := ih hc
      exact ⟨nc, h1, h2, fun e => by cases e⟩

theorem Chain.splice {nexts : List Int} (nc : Int) : ∀ {pre : List Nat} {s : Int} {i : Nat} {post : List Nat}
    (hpre : pre ≠ []), Chain nexts s (pre ++ i :: post) → (pre ++ i :: post).Nodup → Chain nexts nc post →
    Chain (nexts.set (pre.getLast hpre) nc) s (pre ++ post) := by
  intro pre
  induction pre with
  | nil => intro s i post hpre; exact absurd rfl hpre
  | cons a pre ih =>
    intro s i post hpre h hnd hnc
    cases h with
    | cons h0 hn hc =>
      rename_i nx
      have halt : s.toNat < nexts.length := getElem?_lt hn
      cases pre with
      | nil =>
        simp only [List.getLast_singleton, List.cons_append, List.nil_append]
        have hnot : s.toNat ∉ post := by
          intro hm
          have := List.nodup_cons.mp hnd
          exact this.1 (by simp [hm])
        refine Chain.cons h0 (by simp [halt]) (hnc.congr ?_)
        intro j hj
        have : s.toNat ≠ j := fun e => hnot (e ▸ hj)
        exact List.getElem?_set_ne this
      | cons a2 rest =>
        have hnd' := (List.nodup_cons.mp hnd)
        have ih' := ih (s := nx) (i := i) (post := post) (List.cons_ne_nil a2 rest) hc hnd'.2 hnc
        have hlast : (s.toNat :: a2 :: rest).getLast hpre = (a2 :: rest).getLast (List.cons_ne_nil a2 rest) := by
          simp [List.getLast_cons]
        rw [hlast]
        have hne : (a2 :: rest).getLast (List.cons_ne_nil a2 rest) ≠ s.toNat := by
          intro e
          have hm : (a2 :: rest).getLast (List.cons_ne_nil a2 rest) ∈ a2 :: rest := List.getLast_mem _
          apply hnd'.1
          rw [← e]
          exact List.mem_append_left _ hm
        exact Chain.cons h0 (by rw [List.getElem?_set_ne hne]; exact hn) ih'

theorem models_congr {t : Table K V} {d d' : K → Option V} (hm : Models hash eq t d) (h : ∀ k, d' k = d k) :
    Models hash eq t d' :=
  ⟨hm.1, fun k v => by rw [h k]; exact hm.2 k v⟩

theorem WF.disjoint {t : Table K V} {ch : Nat → List Nat} {fr : List Nat} (wf : WF hash eq t ch fr)
    {b b' i : Nat} (hb : b < t.buckets.length) (hb' : b' < t.buckets.length) (hi : i ∈ ch b) (hi' : i ∈ ch b') : b = b' := by
  obtain ⟨_, h, hh, hm⟩ := wf.inBucket b hb i hi
  obtain ⟨_, h', hh', hm'⟩ := wf.inBucket b' hb' i hi'
  rw [hh] at hh'; cases hh'
  omega

theorem remove_spec (law : Lawful hash eq) (t : Table K V) (d : K → Option V) (hm : Models hash eq t d) (k : K) :
    ∃ t', remove hash eq t k = .ok (t', (d k).isSome) ∧
      Models hash eq t' (fun k' => if eq k k' = true then none else d k') ∧
      t'.count = t.count - (if (d k).isSome then 1 else 0) := by
  obtain ⟨⟨ch, fr, wf⟩, hd⟩ := hm
  -- when no slot holds `k`, nothing changes
  have absent : (∀ j, ¬ Holds eq t k j) → d k = none ∧ Models hash eq t (fun k' => if eq k k' = true then none else d k') := by
    intro hnone
    have hdk : ∀ k', eq k k' = true → d k' = none := by
      intro k' hk
      cases e : d k' with
      | none => rfl
      | some v' =>
        obtain ⟨j, ⟨oj, kj, hkj, ekj⟩, _⟩ := (hd k' v').mp e
        exact absurd ⟨oj, kj, hkj, law.trans _ _ _ ekj (law.symm _ _ hk)⟩ (hnone j)
    refine ⟨hdk k (law.refl k), models_congr ⟨⟨ch, fr, wf⟩, hd⟩ ?_⟩
    intro k'
    by_cases hk : eq k k' = true
    · simp [hk, hdk k' hk]
    · simp [hk]
  unfold remove
  by_cases hm0 : t.buckets.length = 0
  · have hnone : ∀ j, ¬ Holds eq t k j := fun j hj => wf.noBuckets hm0 j hj.1
    obtain ⟨hdk, hmod⟩ := absent hnone
    exact ⟨t, by simp [hm0, hdk], hmod, by simp [hdk]⟩
  · simp only [hm0, if_false]
    obtain ⟨b, hbi, hb, hbm⟩ := bucketIdx_range (hash k) t.buckets.length hm0
    obtain ⟨s, hs, hch⟩ := wf.chain b hb
    simp only [hbi, getI_nat _ b s hs]
    rcases removeLoop_chain eq t (hash k) k wf.lenH wf.lenN (ch b) s (-1) _ hch (wf.chain_len b hb) with
      ⟨hall, hr⟩ | ⟨pre, i, post, hc, hpre, hmi, hr⟩
    · -- not found
      have hf : (ch b).find? (matchP eq t (hash k) k) = none := by
        rw [List.find?_eq_none]; intro j hj; simp [hall j hj]
      obtain ⟨hdk, hmod⟩ := absent (wf.find_none law k b hbm hf)
      exact ⟨t, by simp [hr, hdk], hmod, by simp [hdk]⟩
    · -- found at slot i, after the slots `pre` of the chain
      have hf : (ch b).find? (matchP eq t (hash k) k) = some i := by
        rw [hc, List.find?_append]
        have : pre.find? (matchP eq t (hash k) k) = none := by
          rw [List.find?_eq_none]; intro j hj; simp [hpre j hj]
        simp [this, hmi]
      have hi := wf.find_some law k b hb i hf
      obtain ⟨oi, ki, hki, eki⟩ := hi
      have hin : i < t.keys.length := getElem?_lt hki
      have hich : i ∈ ch b := by rw [hc]; simp
      have hchc : Chain t.nexts s (pre ++ i :: post) := hc ▸ hch
      have hndc : (pre ++ i :: post).Nodup := hc ▸ wf.nodup b hb
      obtain ⟨nc, hnc, hpost, hs0⟩ := hchc.split
      have hvlt : i < t.values.length := by rw [wf.lenV]; exact hin
      have hdk : (d k).isSome = true := by
        have := (hd k t.values[i]).mpr ⟨i, ⟨oi, ki, hki, eki⟩, List.getElem?_eq_getElem hvlt⟩
        simp [this]
      have hi_post : i ∉ post := by
        intro hmem
        have := (List.nodup_append.mp hndc).2.1
        exact (List.nodup_cons.mp this).1 hmem
      have hi_pre : i ∉ pre := by
        intro hmem
        exact (List.nodup_append.mp hndc).2.2 i hmem i (by simp) rfl
      have hi_fr : i ∉ fr := by
        intro hmem; have := (wf.freeIff i).mp hmem; rw [oi] at this; cases this
      -- the unlinked chain of bucket b: either the bucket head or the predecessor's `next` is redirected
      have key : ∃ bs ns,
          (((pre.getLast?.map Int.ofNat).getD (-1) = -1 ∧ setI t.buckets (b : Int) nc = .ok bs ∧ ns = t.nexts) ∨
           ((pre.getLast?.map Int.ofNat).getD (-1) ≠ -1 ∧
              setI t.nexts ((pre.getLast?.map Int.ofNat).getD (-1)) nc = .ok ns ∧ bs = t.buckets)) ∧
          bs.length = t.buckets.length ∧ ns.length = t.nexts.length ∧
          (∀ b', b' ≠ b → bs[b']? = t.buckets[b']?) ∧
          (∃ s', bs[b]? = some s' ∧ Chain ns s' (pre ++ post)) ∧
          (∀ j, j ∉ ch b → ns[j]? = t.nexts[j]?) ∧ ns[i]? = t.nexts[i]? := by
        cases hp : pre with
        | nil =>
          subst hp
          refine ⟨t.buckets.set b nc, t.nexts, Or.inl ⟨by simp, setI_nat _ b nc hb, rfl⟩, by simp, rfl,
            fun b' hb' => List.getElem?_set_ne (Ne.symm hb'), ?_, fun _ _ => rfl, rfl⟩
          exact ⟨nc, by simp [hb], by simpa using hpost⟩
        | cons a rest =>
          have hne : pre ≠ [] := by rw [hp]; exact List.cons_ne_nil _ _
          have hlast : pre.getLast? = some (pre.getLast hne) := List.getLast?_eq_some_getLast hne
          have hpm : pre.getLast hne ∈ ch b := by rw [hc]; simp [List.getLast_mem hne]
          have hplt : pre.getLast hne < t.nexts.length := hch.lt _ hpm
          rw [← hp]
          have hprev : (pre.getLast?.map Int.ofNat).getD (-1) = ((pre.getLast hne : Nat) : Int) := by
            simp [hlast]
          refine ⟨t.buckets, t.nexts.set (pre.getLast hne) nc, Or.inr ⟨by rw [hprev]; omega, by rw [hprev]; exact setI_nat _ _ nc hplt, rfl⟩,
            rfl, by simp, fun _ _ => rfl, ⟨s, hs, hchc.splice nc hne hndc hpost⟩, ?_, ?_⟩
          · intro j hj
            have : pre.getLast hne ≠ j := fun e => hj (e ▸ hpm)
            exact List.getElem?_set_ne this
          · have : pre.getLast hne ≠ i := fun e => hi_pre (e ▸ List.getLast_mem hne)
            exact List.getElem?_set_ne this
      obtain ⟨bs, ns, hsel, lenbs, lenns, hbs_other, ⟨s', hs', hch'⟩, hns_other, hns_i⟩ := key
      have hilt_ns : i < ns.length := by rw [lenns, wf.lenN]; exact hin
      simp only [hr, getI_nat _ i nc hnc, Int.ofNat_eq_natCast]
      have final : ∃ t', (Except.ok (({ buckets := bs, keys := t.keys, values := t.values, hashes := t.hashes, nexts := ns.set i t.freeList, occupied := t.occupied.set i false, count := t.count - 1, freeList := (i : Int) } : Table K V), true) : Except Err (Table K V × Bool)) = Except.ok (t', (d k).isSome) ∧
          Models hash eq t' (fun k' => if eq k k' = true then none else d k') ∧
          t'.count = t.count - (if (d k).isSome then 1 else 0) := by
        refine ⟨_, by rw [hdk], ⟨⟨fun b' => if b' = b then pre ++ post else ch b', i :: fr, ?_⟩, ?_⟩, by simp [hdk]⟩
        · -- the invariant
          have hO : ∀ j, (t.occupied.set i false)[j]? = if j = i then some false else t.occupied[j]? :=
            fun j => getElem?_set' _ _ _ _ (by rw [wf.lenO]; exact hin)
          have hN2 : ∀ j, j ≠ i → (ns.set i t.freeList)[j]? = ns[j]? := fun j hj => List.getElem?_set_ne (Ne.symm hj)
          have hsub : ∀ j, j ∈ pre ++ post → j ∈ ch b ∧ j ≠ i := by
            intro j hj
            rw [hc]
            simp only [List.mem_append, List.mem_cons] at hj ⊢
            rcases hj with hj | hj
            · exact ⟨Or.inl hj, fun e => hi_pre (e ▸ hj)⟩
            · exact ⟨Or.inr (Or.inr hj), fun e => hi_post (e ▸ hj)⟩
          refine ⟨wf.lenV, wf.lenH, by simp [lenns, wf.lenN], by simp [wf.lenO], ?_, ?_, ?_, ?_, ?_, ?_, ?_, ?_, ?_, ?_, ?_⟩
          · intro h0; simp only [lenbs] at h0; exact absurd h0 hm0
          · -- chains
            intro b' hb'
            simp only [lenbs] at hb'
            by_cases hbb : b' = b
            · subst hbb
              refine ⟨s', hs', ?_⟩
              simp only [if_true]
              apply hch'.congr
              intro j hj
              exact hN2 j (hsub j hj).2
            · obtain ⟨s0, hs0', hch0⟩ := wf.chain b' hb'
              refine ⟨s0, by simp only; rw [hbs_other b' hbb]; exact hs0', ?_⟩
              simp only [hbb, if_false]
              apply hch0.congr
              intro j hj
              have hjb : j ∉ ch b := fun hjb => hbb (wf.disjoint hb' hb hj hjb)
              have hji : j ≠ i := fun e => hjb (e ▸ hich)
              show (ns.set i t.freeList)[j]? = t.nexts[j]?
              rw [hN2 j hji, hns_other j hjb]
          · intro b' hb'
            simp only [lenbs] at hb'
            by_cases hbb : b' = b
            · subst hbb
              simp only [if_true]
              have h1 := List.nodup_append.mp hndc
              refine List.nodup_append.mpr ⟨h1.1, (List.nodup_cons.mp h1.2.1).2, ?_⟩
              intro x hx y hy
              exact h1.2.2 x hx y (List.mem_cons_of_mem _ hy)
            · simp only [hbb, if_false]; exact wf.nodup b' hb'
          · -- inBucket
            intro b' hb' j hj
            simp only [lenbs] at hb' ⊢
            have hjold : j ∈ ch b' ∧ j ≠ i := by
              by_cases hbb : b' = b
              · subst hbb; simp only [if_true] at hj; exact hsub j hj
              · simp only [hbb, if_false] at hj
                exact ⟨hj, fun e => hbb (wf.disjoint hb' hb hj (e ▸ hich))⟩
            simp only [hO j, hjold.2, if_false]
            exact wf.inBucket b' hb' j hjold.1
          · -- complete
            intro j h hoj hhj
            simp only [lenbs]
            simp only [hO j] at hoj
            by_cases hji : j = i
            · simp [hji] at hoj
            · simp only [hji, if_false] at hoj
              have := wf.complete j h hoj hhj
              by_cases hbb : (h % (t.buckets.length : Int)).toNat = b
              · simp only [hbb, if_true]
                rw [hbb, hc] at this
                simp only [List.mem_append, List.mem_cons] at this ⊢
                rcases this with h1 | h1 | h1
                · exact Or.inl h1
                · exact absurd h1 hji
                · exact Or.inr h1
              · simp only [hbb, if_false]; exact this
          · intro j k' hoj hkj
            simp only [hO j] at hoj
            by_cases hji : j = i
            · simp [hji] at hoj
            · simp only [hji, if_false] at hoj; exact wf.hashOk j k' hoj hkj
          · intro j1 j2 k1 k2 ho1 ho2 hk1 hk2 he
            simp only [hO j1] at ho1
            simp only [hO j2] at ho2
            by_cases h1 : j1 = i
            · simp [h1] at ho1
            · by_cases h2 : j2 = i
              · simp [h2] at ho2
              · simp only [h1, h2, if_false] at ho1 ho2
                exact wf.distinct j1 j2 k1 k2 ho1 ho2 hk1 hk2 he
          · -- free chain
            have hfc : Chain (ns.set i t.freeList) t.freeList fr := by
              apply wf.freeChain.congr
              intro j hj
              have hji : j ≠ i := fun e => hi_fr (e ▸ hj)
              have hjb : j ∉ ch b := by
                intro hjb
                have := (wf.inBucket b hb j hjb).1
                rw [(wf.freeIff j).mp hj] at this; cases this
              rw [hN2 j hji, hns_other j hjb]
            have := Chain.cons (nexts := ns.set i t.freeList) (i := (i : Int)) (nx := t.freeList) (c := fr) (by omega)
              (by simp [hilt_ns]) hfc
            simpa using this
          · exact List.nodup_cons.mpr ⟨hi_fr, wf.freeNodup⟩
          · intro j
            simp only [List.mem_cons, hO j]
            by_cases hji : j = i
            · simp [hji]
            · simp only [hji, false_or, if_false]; exact wf.freeIff j
          · simp only
            have := count_set_false t.occupied i oi
            rw [wf.countOk]; omega
        · -- the meaning
          intro k' v'
          have hO : ∀ j, (t.occupied.set i false)[j]? = if j = i then some false else t.occupied[j]? :=
            fun j => getElem?_set' _ _ _ _ (by rw [wf.lenO]; exact hin)
          have hHolds : ∀ j, Holds eq ({ buckets := bs, keys := t.keys, values := t.values, hashes := t.hashes, nexts := ns.set i t.freeList, occupied := t.occupied.set i false, count := t.count - 1, freeList := (i : Int) } : Table K V) k' j ↔ j ≠ i ∧ Holds eq t k' j := by
            intro j
            unfold Holds
            simp only [hO j]
            by_cases hji : j = i
            · simp [hji]
            · simp [hji]
          by_cases hk : eq k k' = true
          · simp only [hk, if_true]
            constructor
            · intro h; cases h
            · rintro ⟨j, hj, _⟩
              obtain ⟨hne, hold⟩ := (hHolds j).mp hj
              exact absurd (Holds.unique law wf hold ⟨oi, ki, hki, law.trans _ _ _ eki hk⟩) hne
          · simp only [hk, Bool.false_eq_true, if_false]
            rw [hd k' v']
            constructor
            · rintro ⟨j, hj, hv⟩
              have hne : j ≠ i := by
                intro e; subst e
                obtain ⟨_, kj, hkj, ekj⟩ := hj
                rw [hki] at hkj; cases hkj
                exact hk (law.trans _ _ _ (law.symm _ _ eki) ekj)
              exact ⟨j, (hHolds j).mpr ⟨hne, hj⟩, hv⟩
            · rintro ⟨j, hj, hv⟩
              exact ⟨j, ((hHolds j).mp hj).2, hv⟩

      rcases hsel with ⟨h1, h2, h3⟩ | ⟨h1, h2, h3⟩
      · subst h3
        simp only [h1, if_true, h2, setI_nat t.nexts i t.freeList hilt_ns,
          setI_nat t.occupied i false (by rw [wf.lenO]; exact hin)]
        exact final
      · subst h3
        simp only [h1, if_false, h2, setI_nat ns i t.freeList hilt_ns,
          setI_nat t.occupied i false (by rw [wf.lenO]; exact hin)]
        exact final

end Abra.Lib.HashMap
