import AbraProofs.Lemmas.Pratt
import AbraModel.PrattPrint
/-!
Fuel-free evaluation relations for the Pratt model ("some amount of fuel gives this non-`fuel`
result") and one composition lemma per branch of the parser.  All fuel bookkeeping lives here.
-/
namespace Abra.Pratt

def PB (fold : FoldMode) (bp : Nat) (toks : List Tok) (res : Res Expr) : Prop :=
  res ≠ .fuel ∧ ∃ f, parseBp fold f bp toks = res
def LP (fold : FoldMode) (bp : Nat) (lhs : Expr) (toks : List Tok) (res : Res Expr) : Prop :=
  res ≠ .fuel ∧ ∃ f, loop fold f bp lhs toks = res
def PT (fold : FoldMode) (toks : List Tok) (res : Res Expr) : Prop :=
  res ≠ .fuel ∧ ∃ f, parseTerm fold f toks = res
def PL (fold : FoldMode) (close : Tok) (toks : List Tok) (res : Res Args) : Prop :=
  res ≠ .fuel ∧ ∃ f, parseList fold f close toks = res

theorem ok_ne_fuel {α : Type} {v : α} {r : List Tok} : (Res.ok v r : Res α) ≠ .fuel := by simp

/-- whatever the relation says is what the total function `parseExprWith` returns -/
theorem PB.parseExprWith {fold : FoldMode} {toks : List Tok} {res : Res Expr}
    (h : PB fold 0 (skipNl toks) res) : parseExprWith fold toks = res := by
  obtain ⟨hne, f, hf⟩ := h
  have h1 := fuel_suffices fold toks
  unfold Abra.Pratt.parseExprWith at *
  have a := parseBp_lift hf hne (Nat.le_max_left f (fuelFor toks))
  have b := parseBp_lift rfl h1 (Nat.le_max_right f (fuelFor toks))
  rw [← b, a]

-- ------------------------------------------------------------ parseBp
theorem PB.of_prefix {fold : FoldMode} {bp : Nat} {toks rest r : List Tok} {op : PrefixOp} {rhs : Expr}
    {res : Res Expr} (hs : skipNl toks = toks) (hp : prefixOp? fold toks = some (op, rest))
    (h1 : PB fold op.prec rest (.ok rhs r)) (h2 : LP fold bp (Expr.unop op rhs) r res) :
    PB fold bp toks res := by
  obtain ⟨_, f1, e1⟩ := h1
  obtain ⟨hne, f2, e2⟩ := h2
  refine ⟨hne, max f1 f2 + 1, ?_⟩
  rw [parseBp_succ, hs, hp]
  simp only
  rw [parseBp_lift e1 ok_ne_fuel (Nat.le_max_left f1 f2)]
  simp only
  exact loop_lift e2 hne (Nat.le_max_right f1 f2)

theorem PB.of_term {fold : FoldMode} {bp : Nat} {toks r : List Tok} {lhs : Expr}
    {res : Res Expr} (hs : skipNl toks = toks) (hp : prefixOp? fold toks = none)
    (h1 : PT fold toks (.ok lhs r)) (h2 : LP fold bp lhs r res) :
    PB fold bp toks res := by
  obtain ⟨_, f1, e1⟩ := h1
  obtain ⟨hne, f2, e2⟩ := h2
  refine ⟨hne, max f1 f2 + 1, ?_⟩
  rw [parseBp_succ, hs, hp]
  simp only
  rw [parseTerm_lift e1 ok_ne_fuel (Nat.le_max_left f1 f2)]
  simp only
  exact loop_lift e2 hne (Nat.le_max_right f1 f2)

-- ------------------------------------------------------------ parseTerm
theorem PT.atom {fold : FoldMode} {toks rest : List Tok} {a : Atom}
    (hs : skipNl toks = .atom a :: rest) (hr : ∀ n, a = .int n → n ≤ I64_MAX) :
    PT fold toks (.ok (.atom a) rest) := by
  refine ⟨ok_ne_fuel, 1, ?_⟩
  rw [parseTerm_succ, hs]
  cases a with
  | int n => simp [hr n rfl]
  | _ => rfl

theorem PT.negLit {fold : FoldMode} {toks rest : List Tok} {a : Atom}
    (hs : skipNl toks = .op .sub :: .atom a :: rest) (hn : a.isNum = true)
    (hr : ∀ n, a = .int n → n ≤ I64_MAX + 1) :
    PT fold toks (.ok (.neg (.atom a)) rest) := by
  refine ⟨ok_ne_fuel, 1, ?_⟩
  rw [parseTerm_succ, hs]
  cases a with
  | int n => simp [hr n rfl]
  | float s => rfl
  | _ => simp [Atom.isNum] at hn

theorem PT.paren {fold : FoldMode} {toks rest r : List Tok} {e : Expr}
    (hs : skipNl toks = .lparen :: rest) (h : PL fold .rparen rest (.ok (.cons e .nil) r)) :
    PT fold toks (.ok e r) := by
  obtain ⟨_, f, e1⟩ := h
  refine ⟨ok_ne_fuel, f + 1, ?_⟩
  rw [parseTerm_succ, hs]
  simp only
  rw [e1]

theorem PT.tuple {fold : FoldMode} {toks rest r : List Tok} {es : Args}
    (hs : skipNl toks = .lparen :: rest) (h : PL fold .rparen rest (.ok es r)) (hlen : 2 ≤ es.length) :
    PT fold toks (.ok (.tuple es) r) := by
  obtain ⟨_, f, e1⟩ := h
  refine ⟨ok_ne_fuel, f + 1, ?_⟩
  rw [parseTerm_succ, hs]
  simp only
  rw [e1]
  match es, hlen with
  | .cons a (.cons b c), _ => rfl

theorem PT.array {fold : FoldMode} {toks rest r : List Tok} {es : Args}
    (hs : skipNl toks = .lbrack :: rest) (h : PL fold .rbrack rest (.ok es r)) :
    PT fold toks (.ok (.array es) r) := by
  obtain ⟨_, f, e1⟩ := h
  refine ⟨ok_ne_fuel, f + 1, ?_⟩
  rw [parseTerm_succ, hs]
  simp only
  rw [e1]

-- ------------------------------------------------------------ loop
/-- tokens at which the loop of `parse_expr_bp m` stops without consuming anything (for `m ≤ 10`);
    at `m = 16` (primary expressions) nothing is demanded -/
def stops (m : Nat) : List Tok → Bool
  | .op o :: _ => decide (o.prec ≤ m)
  | .lparen :: _ | .dot :: _ | .lbrack :: _ | .bang :: _ | .question :: _ => decide (16 ≤ m)
  | _ => true

theorem stops_mono {a b : Nat} {rest : List Tok} (h : stops a rest = true) (hab : a ≤ b) :
    stops b rest = true := by
  unfold stops at *
  split <;> simp_all <;> omega

theorem stops_primary (rest : List Tok) : stops 16 rest = true := by
  unfold stops
  split <;> simp
  rename_i o _; cases o <;> simp [BinOp.prec]

theorem LP.stop {fold : FoldMode} {bp : Nat} {lhs : Expr} {toks : List Tok}
    (hs : stops bp toks = true) (hbp : bp ≤ 10) : LP fold bp lhs toks (.ok lhs toks) := by
  refine ⟨ok_ne_fuel, 1, ?_⟩
  rw [loop_succ]
  unfold stops at hs
  split at hs
  · simp_all
  all_goals first
    | (simp at hs; omega)
    | skip
  split <;> simp_all

theorem LP.bin {fold : FoldMode} {bp : Nat} {lhs rhs : Expr} {o : BinOp} {rest r : List Tok}
    {res : Res Expr} (hbp : bp < o.prec)
    (h1 : PB fold o.prec rest (.ok rhs r)) (h2 : LP fold bp (.bin o lhs rhs) r res) :
    LP fold bp lhs (.op o :: rest) res := by
  obtain ⟨_, f1, e1⟩ := h1
  obtain ⟨hne, f2, e2⟩ := h2
  refine ⟨hne, max f1 f2 + 1, ?_⟩
  rw [loop_succ]
  simp only
  rw [if_neg (by omega)]
  rw [parseBp_lift e1 ok_ne_fuel (Nat.le_max_left f1 f2)]
  simp only
  exact loop_lift e2 hne (Nat.le_max_right f1 f2)

theorem LP.call {fold : FoldMode} {bp : Nat} {lhs : Expr} {args : Args} {rest r : List Tok}
    {res : Res Expr} (hbp : bp ≤ 10)
    (h1 : PL fold .rparen rest (.ok args r)) (h2 : LP fold bp (.call lhs args) r res) :
    LP fold bp lhs (.lparen :: rest) res := by
  obtain ⟨_, f1, e1⟩ := h1
  obtain ⟨hne, f2, e2⟩ := h2
  refine ⟨hne, max f1 f2 + 1, ?_⟩
  rw [loop_succ]
  simp only
  rw [if_neg (by simp [precCall]; omega)]
  rw [parseList_lift e1 ok_ne_fuel (Nat.le_max_left f1 f2)]
  simp only
  exact loop_lift e2 hne (Nat.le_max_right f1 f2)

theorem LP.member {fold : FoldMode} {bp : Nat} {lhs : Expr} {s : String} {r : List Tok}
    {res : Res Expr} (hbp : bp ≤ 10) (h2 : LP fold bp (.member lhs s) r res) :
    LP fold bp lhs (.dot :: .atom (.ident s) :: r) res := by
  obtain ⟨hne, f2, e2⟩ := h2
  refine ⟨hne, f2 + 1, ?_⟩
  rw [loop_succ]
  simp only
  rw [if_neg (by simp [precMember]; omega)]
  exact e2

theorem LP.index {fold : FoldMode} {bp : Nat} {lhs i : Expr} {rest r r' : List Tok}
    {res : Res Expr} (hbp : bp ≤ 10)
    (h1 : PB fold 0 (skipNl rest) (.ok i r)) (hr : skipNl r = .rbrack :: r')
    (h2 : LP fold bp (.index lhs i) r' res) :
    LP fold bp lhs (.lbrack :: rest) res := by
  obtain ⟨_, f1, e1⟩ := h1
  obtain ⟨hne, f2, e2⟩ := h2
  refine ⟨hne, max f1 f2 + 1, ?_⟩
  rw [loop_succ]
  simp only
  rw [if_neg (by simp [precIndex]; omega)]
  rw [parseBp_lift e1 ok_ne_fuel (Nat.le_max_left f1 f2)]
  simp only
  rw [hr]
  simp only
  exact loop_lift e2 hne (Nat.le_max_right f1 f2)

theorem LP.unwrap {fold : FoldMode} {bp : Nat} {lhs : Expr} {r : List Tok}
    {res : Res Expr} (hbp : bp ≤ 10) (h2 : LP fold bp (.unwrap lhs) r res) :
    LP fold bp lhs (.bang :: r) res := by
  obtain ⟨hne, f2, e2⟩ := h2
  refine ⟨hne, f2 + 1, ?_⟩
  rw [loop_succ]
  simp only
  rw [if_neg (by simp [precUnwrap]; omega)]
  exact e2

theorem LP.try_ {fold : FoldMode} {bp : Nat} {lhs : Expr} {r : List Tok}
    {res : Res Expr} (hbp : bp ≤ 10) (h2 : LP fold bp (.try_ lhs) r res) :
    LP fold bp lhs (.question :: r) res := by
  obtain ⟨hne, f2, e2⟩ := h2
  refine ⟨hne, f2 + 1, ?_⟩
  rw [loop_succ]
  simp only
  rw [if_neg (by simp [precTry]; omega)]
  exact e2

-- ------------------------------------------------------------ parseList
theorem PL.nil {fold : FoldMode} {close : Tok} {toks rest : List Tok}
    (hs : skipNl toks = close :: rest) : PL fold close toks (.ok .nil rest) := by
  refine ⟨ok_ne_fuel, 1, ?_⟩
  rw [parseList_succ, hs]
  simp

theorem PL.last {fold : FoldMode} {close t : Tok} {toks rest r : List Tok} {e : Expr}
    (hs : skipNl toks = t :: rest) (ht : t ≠ close) (hc : close ≠ .comma ∧ close ≠ .nl)
    (h1 : PB fold 0 (t :: rest) (.ok e (close :: r))) :
    PL fold close toks (.ok (.cons e .nil) r) := by
  obtain ⟨_, f1, e1⟩ := h1
  refine ⟨ok_ne_fuel, f1 + 1, ?_⟩
  rw [parseList_succ, hs]
  simp only
  rw [if_neg ht, e1]
  obtain ⟨hc1, hc2⟩ := hc
  cases close <;> simp_all

/-- an item followed by the separator — `,` *or* a newline — and the rest of the list -/
theorem PL.cons {fold : FoldMode} {close t sep : Tok} {toks rest r r' : List Tok} {e : Expr} {es : Args}
    (hs : skipNl toks = t :: rest) (ht : t ≠ close) (hsep : sep = .comma ∨ sep = .nl)
    (h1 : PB fold 0 (t :: rest) (.ok e (sep :: r)))
    (h2 : PL fold close r (.ok es r')) :
    PL fold close toks (.ok (.cons e es) r') := by
  obtain ⟨_, f1, e1⟩ := h1
  obtain ⟨_, f2, e2⟩ := h2
  refine ⟨ok_ne_fuel, max f1 f2 + 1, ?_⟩
  rw [parseList_succ, hs]
  simp only
  rw [if_neg ht, parseBp_lift e1 ok_ne_fuel (Nat.le_max_left f1 f2)]
  rcases hsep with rfl | rfl
  · simp only
    rw [parseList_lift e2 ok_ne_fuel (Nat.le_max_right f1 f2)]
  · simp only
    rw [parseList_lift e2 ok_ne_fuel (Nat.le_max_right f1 f2)]

end Abra.Pratt
