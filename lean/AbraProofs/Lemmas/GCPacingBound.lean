import AbraProofs.Lemmas.GCPacingRun
/-! Pacing of the collector, the run level: how many calls of `maybe_gc` a cycle can still take (`rho`), and the
    invariant `RInv` linking `heap_size`, `last_gc_heap_size`, the phase and the number of steps inside the
    cycle, from which the heap bound follows. -/
namespace Abra.GCP
open Abra.GC

/-- the budget charge of foreign gray entries is acceptable: there is none, or the slice still covers the heap -/
def LeakOK (p : PSt) (leak : Nat) : Prop := leak = 0 ∨ leak + p.heapBytes < stepFactor * p.debt

theorem leak_cover {p : PSt} {leak : Nat} (h : PInv p) (hp : p.g.phase ≠ .idle) (hl : LeakOK p leak) :
    leak + p.heapBytes < stepFactor * p.debt := by
  rcases hl with hl | hl
  · have h1 := h.debt
    have h2 := h.pos hp
    unfold stepFactor; omega
  · exact hl

/-- an upper bound of the number of calls of `maybe_gc` the running cycle still needs: a marking increment
    that does not end marking has marked a white object of the ghost set -/
noncomputable def rho (p : PSt) (L : Nat → Prop) : Nat :=
  match p.g.phase with
  | .idle => 0
  | .marking => whiteIn p.g L + 2
  | .sweeping => 1

theorem rho_pos {p : PSt} (L : Nat → Prop) (hp : p.g.phase ≠ .idle) : 1 ≤ rho p L := by
  unfold rho
  cases h : p.g.phase with
  | idle => exact absurd h hp
  | marking => simp only; omega
  | sweeping => exact Nat.le_refl _

/-- a call of `maybe_gc` inside a cycle -/
theorem gc_cycle_step {p : PSt} {L : Nat → Prop} {leak : Nat} (h : PInv p) (hp : p.g.phase ≠ .idle)
    (hL : InvL p.g L) (hl : LeakOK p leak) :
    PInv (maybeGc p leak) ∧ InvL (maybeGc p leak).g L ∧ rho (maybeGc p leak) L + 1 ≤ rho p L ∧
    (maybeGc p leak).heapBytes ≤ p.heapBytes ∧
    ((maybeGc p leak).g.phase ≠ .idle →
      (maybeGc p leak).lastGc = p.lastGc ∧ bytesIn (maybeGc p leak) L ≤ bytesIn p L) ∧
    ((maybeGc p leak).g.phase = .idle →
      (maybeGc p leak).lastGc = (maybeGc p leak).heapBytes ∧ (maybeGc p leak).heapBytes ≤ bytesIn p L) := by
  have hc := leak_cover h hp hl
  cases hph : p.g.phase with
  | idle => exact absurd hph hp
  | marking =>
    have hm : maybeGc p leak = markIncr p leak := by unfold maybeGc; rw [hph]
    rw [hm]
    have h1 := markIncr_spec (L := L) leak h hph hL
    have h2 := (markIncr_cover (L := L) leak h hph hL hc).2
    refine ⟨h1.1, h1.2.1, ?_, Nat.le_refl _, ?_, ?_⟩
    · rcases h2 with h2 | ⟨h2, h3⟩
      · unfold rho; rw [h2, hph]; simp only; omega
      · unfold rho; rw [h2, hph]; simp only; omega
    · intro _
      refine ⟨rfl, Nat.le_of_eq ?_⟩
      unfold bytesIn
      rw [markIncr_heap]; rfl
    · intro hid; exact absurd hid h1.2.2.1
  | sweeping =>
    have hm : maybeGc p leak = sweepIncr p := by unfold maybeGc; rw [hph]
    rw [hm]
    have h1 := sweepIncr_spec h hph hL
    have h2 := sweepIncr_cover h hph hL
    refine ⟨h1.1, h1.2.1, ?_, h1.2.2.1, ?_, ?_⟩
    · unfold rho; rw [h2.1, hph]; exact Nat.le_refl _
    · intro hne; exact absurd h2.1 hne
    · intro _; exact h2.2

/-- the call of `maybe_gc` that starts a cycle -/
theorem gc_start_step {p : PSt} (leak : Nat) (h : PInv p) (hp : p.g.phase = .idle)
    (hgt : p.heapBytes > p.lastGc * pauseFactor) :
    PInv (maybeGc p leak) ∧ (maybeGc p leak).g.phase = .marking ∧ InvL (maybeGc p leak).g (Reach p.g) ∧
    (maybeGc p leak).heapBytes = p.heapBytes ∧ (maybeGc p leak).lastGc = p.lastGc ∧
    bytesIn (maybeGc p leak) (Reach p.g) = reachBytes p ∧
    rho (maybeGc p leak) (Reach p.g) ≤ reachCount p + 2 := by
  have hm : maybeGc p leak = { p with g := gcStart p.g } := by
    unfold maybeGc; rw [hp]; simp only [hgt, if_true]
  have hph : (gcStart p.g).phase = .marking := by unfold gcStart; rw [hp]
  rw [hm]
  refine ⟨start_pinv h hp hgt, hph, gcStart_invL h.inv hp, rfl, rfl, ?_, ?_⟩
  · unfold reachBytes bytesIn
    show sumSize p.size ((gcStart p.g).heap.filter _) = _
    rw [gcStart_heap]
  · unfold rho
    show (match (gcStart p.g).phase with
      | .idle => 0 | .marking => whiteIn (gcStart p.g) (Reach p.g) + 2 | .sweeping => 1) ≤ _
    rw [hph]; simp only
    have := whiteIn_le_count (gcStart p.g) (Reach p.g)
    rw [gcStart_heap] at this
    unfold reachCount; omega

theorem gc_idle_stay {p : PSt} (leak : Nat) (hp : p.g.phase = .idle)
    (hgt : ¬ p.heapBytes > p.lastGc * pauseFactor) : maybeGc p leak = p := by
  unfold maybeGc; rw [hp]; simp only [hgt, if_false]

/-! ### the invariant of runs -/

/-- this call of `maybe_gc` starts a cycle -/
def StartsCycle (p : PSt) : Prop := p.g.phase = .idle ∧ p.heapBytes > p.lastGc * pauseFactor

/-- inside a cycle: `L` is the ghost set, `k` the number of `maybe_gc` calls since the one that started the
    cycle, `s` the bytes allocated since the last call, `rem` an upper bound of the calls the cycle still needs;
    `K` bounds the calls of a whole cycle -/
structure CycInv (R A K : Nat) (p : PSt) (s : Nat) (L : Nat → Prop) (k rem : Nat) : Prop where
  invL : InvL p.g L
  heap : p.heapBytes ≤ 2 * p.lastGc + A + k * A + s
  live : bytesIn p L ≤ R + k * A + s
  steps : k + 1 + rem ≤ K
  rem1 : 1 ≤ rem

/-- the invariant linking `heap_size`, `last_gc_heap_size`, the phase and the step count inside the cycle;
    `remOf L` is the bound of the remaining calls used in this state -/
structure RInv (R A K : Nat) (p : PSt) (s : Nat) (remOf : (Nat → Prop) → Nat) : Prop where
  pinv : PInv p
  since : s ≤ A
  last : p.lastGc ≤ R + K * A
  idle : p.g.phase = .idle → p.heapBytes ≤ 2 * p.lastGc + s
  cyc : p.g.phase ≠ .idle → ∃ (L : Nat → Prop) (k : Nat), CycInv R A K p s L k (remOf L)

theorem pinit_pinv : PInv pinit :=
  ⟨init_inv, List.nodup_nil, rfl, Nat.le_refl _, fun h => absurd rfl h⟩

theorem rinv_init (R A K : Nat) (remOf : (Nat → Prop) → Nat) : RInv R A K pinit 0 remOf :=
  ⟨pinit_pinv, Nat.zero_le _, Nat.zero_le _, fun _ => Nat.le_refl _, fun h => absurd rfl h⟩

/-- a call of `maybe_gc` preserves the invariant, given how the bound of the remaining calls evolves -/
theorem rinv_gc {R A K : Nat} {p : PSt} {s : Nat} {remOf remOf' : (Nat → Prop) → Nat} (leak : Nat)
    (h : RInv R A K p s remOf) (hl : LeakOK p leak)
    (hstart : StartsCycle p → reachBytes p ≤ R ∧ remOf' (Reach p.g) + 1 ≤ K ∧ 1 ≤ remOf' (Reach p.g))
    (hdec : ∀ L, p.g.phase ≠ .idle → InvL p.g L → (maybeGc p leak).g.phase ≠ .idle →
      remOf' L + 1 ≤ remOf L ∧ 1 ≤ remOf' L) :
    RInv R A K (maybeGc p leak) 0 remOf' := by
  by_cases hp : p.g.phase = .idle
  · by_cases hgt : p.heapBytes > p.lastGc * pauseFactor
    · have hs := gc_start_step leak h.pinv hp hgt
      obtain ⟨h1, h2, h3, h4, h5, h6, _⟩ := hs
      obtain ⟨hR, hK, hr1⟩ := hstart ⟨hp, hgt⟩
      have hne : (maybeGc p leak).g.phase ≠ .idle := by rw [h2]; simp
      refine ⟨h1, Nat.zero_le _, by rw [h5]; exact h.last, fun hid => absurd hid hne, ?_⟩
      intro _
      refine ⟨Reach p.g, 0, h3, ?_, ?_, ?_, hr1⟩
      · have := h.idle hp
        have := h.since
        rw [h4, h5, Nat.zero_mul]; omega
      · rw [h6, Nat.zero_mul]; omega
      · omega
    · rw [gc_idle_stay leak hp hgt]
      refine ⟨h.pinv, Nat.zero_le _, h.last, ?_, fun hne => absurd hp hne⟩
      intro _
      unfold pauseFactor at hgt
      omega
  · obtain ⟨L, k, hc⟩ := h.cyc hp
    obtain ⟨h1, h2, _, h4, h5, h6⟩ := gc_cycle_step h.pinv hp hc.invL hl
    have hsince := h.since
    have hheap := hc.heap
    have hlive := hc.live
    have hsteps := hc.steps
    have hrem1 := hc.rem1
    have hmul : (k + 1) * A = k * A + A := by rw [Nat.add_mul, Nat.one_mul]
    by_cases hq : (maybeGc p leak).g.phase = .idle
    · obtain ⟨h7, h8⟩ := h6 hq
      have hk : (k + 1) * A ≤ K * A := Nat.mul_le_mul_right A (by omega)
      refine ⟨h1, Nat.zero_le _, ?_, ?_, fun hne => absurd hq hne⟩
      · rw [h7]; omega
      · intro _; rw [h7]; omega
    · obtain ⟨h7, h8⟩ := h5 hq
      obtain ⟨hd1, hd2⟩ := hdec L hp hc.invL hq
      refine ⟨h1, Nat.zero_le _, by rw [h7]; exact h.last, fun hid => absurd hid hq, ?_⟩
      intro _
      refine ⟨L, k + 1, h2, ?_, ?_, ?_, hd2⟩
      · rw [h7, hmul]; omega
      · rw [hmul]; omega
      · omega

theorem rinv_mut {R A K : Nat} {p p' : PSt} {s : Nat} {new pushed : List Nat}
    {remOf remOf' : (Nat → Prop) → Nat} (h : RInv R A K p s remOf)
    (m : PMutatorOK p p' new pushed) (hA : s + (p'.heapBytes - p.heapBytes) ≤ A)
    (hrem : ∀ L, p.g.phase ≠ .idle → 1 ≤ remOf L →
      remOf' (fun a => L a ∨ a ∈ new) ≤ remOf L ∧ 1 ≤ remOf' (fun a => L a ∨ a ∈ new)) :
    RInv R A K p' (s + (p'.heapBytes - p.heapBytes)) remOf' := by
  have hgrow := pmut_grow h.pinv m
  refine ⟨pmut_pinv h.pinv m, hA, by rw [m.lastGc]; exact h.last, ?_, ?_⟩
  · intro hp
    rw [m.graph.phase] at hp
    have := h.idle hp
    rw [m.lastGc]; omega
  · intro hp
    rw [m.graph.phase] at hp
    obtain ⟨L, k, hc⟩ := h.cyc hp
    obtain ⟨hr1, hr2⟩ := hrem L hp hc.rem1
    refine ⟨fun a => L a ∨ a ∈ new, k, mutator_invL h.pinv.inv m.graph hc.invL, ?_, ?_, ?_, hr2⟩
    · have := hc.heap; rw [m.lastGc]; omega
    · have h1 := pmut_bytesIn (L := L) h.pinv m
      have := hc.live; omega
    · have h2 := hc.steps
      omega

/-- the heap bound, from the invariant: `2·R + 3·K·A` -/
theorem rinv_bound {R A K : Nat} {p : PSt} {s : Nat} {remOf : (Nat → Prop) → Nat} (hK : 1 ≤ K)
    (h : RInv R A K p s remOf) : p.heapBytes ≤ 2 * R + 3 * (K * A) := by
  have hl := h.last
  have hs := h.since
  by_cases hp : p.g.phase = .idle
  · have := h.idle hp
    have : A ≤ K * A := by
      have := Nat.mul_le_mul_right A hK
      rwa [Nat.one_mul] at this
    omega
  · obtain ⟨L, k, hc⟩ := h.cyc hp
    have hr := hc.rem1
    have hsteps := hc.steps
    have hk : (k + 2) * A ≤ K * A := Nat.mul_le_mul_right A (by omega)
    have e3 : (k + 2) * A = k * A + 2 * A := Nat.add_mul _ _ _
    have := hc.heap
    omega

theorem boundB_eq (R A N : Nat) : boundB R A N = 2 * R + 3 * ((N + 3) * A) := by
  unfold boundB
  have e1 : (N + 3) * A = N * A + 3 * A := Nat.add_mul _ _ _
  have e2 : (3 * N + 9) * A = 3 * (N * A) + 9 * A := by rw [Nat.add_mul, Nat.mul_assoc]
  omega

/-! ### first instance: the remaining calls are bounded by the white objects of the ghost set -/

theorem pmut_rho {p p' : PSt} {new pushed : List Nat} (L : Nat → Prop) (m : PMutatorOK p p' new pushed) :
    rho p' (fun a => L a ∨ a ∈ new) ≤ rho p L := by
  unfold rho; rw [m.graph.phase]
  cases hp : p.g.phase with
  | idle => exact Nat.le_refl _
  | sweeping => exact Nat.le_refl _
  | marking =>
    have := pmut_whiteIn (L := L) m (by rw [hp]; simp)
    simp only; omega


theorem rinvN_gc {R A N : Nat} {p : PSt} {s : Nat} (leak : Nat)
    (h : RInv R A (N + 3) p s (rho p)) (hl : LeakOK p leak)
    (hstart : StartsCycle p → reachBytes p ≤ R ∧ reachCount p ≤ N) :
    RInv R A (N + 3) (maybeGc p leak) 0 (rho (maybeGc p leak)) := by
  apply rinv_gc leak h hl
  · intro hs
    have h7 := (gc_start_step leak h.pinv hs.1 hs.2).2.2.2.2.2.2
    have h2 := (gc_start_step leak h.pinv hs.1 hs.2).2.1
    obtain ⟨hR, hN⟩ := hstart hs
    refine ⟨hR, by omega, rho_pos _ (by rw [h2]; simp)⟩
  · intro L hp hL hq
    exact ⟨(gc_cycle_step h.pinv hp hL hl).2.2.1, rho_pos L hq⟩

theorem rinvN_mut {R A N : Nat} {p p' : PSt} {s : Nat} {new pushed : List Nat}
    (h : RInv R A (N + 3) p s (rho p)) (m : PMutatorOK p p' new pushed)
    (hA : s + (p'.heapBytes - p.heapBytes) ≤ A) :
    RInv R A (N + 3) p' (s + (p'.heapBytes - p.heapBytes)) (rho p') := by
  apply rinv_mut h m hA
  intro L hp _
  exact ⟨pmut_rho L m, rho_pos _ (by rw [m.graph.phase]; exact hp)⟩

/-! ### second instance: the remaining calls are bounded by the rescan hits the cycle may still have -/

/-- the number of marking increments of the running cycle that ended with the rescan finding an unmarked root
    (the increment stayed in Marking), after the call `maybeGc p leak`; `hc` is the number before the call -/
def hitsAfter (p : PSt) (leak hc : Nat) : Nat :=
  match (maybeGc p leak).g.phase, p.g.phase with
  | .idle, _ => 0
  | _, .idle => 0
  | .marking, .marking => hc + 1
  | _, _ => hc

/-- with at most `M` rescan hits per cycle: remaining calls in Marking after `hc` hits -/
def rhoH (M : Nat) (p : PSt) (hc : Nat) : Nat :=
  match p.g.phase with
  | .idle => 0
  | .marking => (M - hc) + 2
  | .sweeping => 1

theorem rhoH_pos {M : Nat} {p : PSt} (hc : Nat) (hp : p.g.phase ≠ .idle) : 1 ≤ rhoH M p hc := by
  unfold rhoH
  cases h : p.g.phase with
  | idle => exact absurd h hp
  | marking => simp only; omega
  | sweeping => exact Nat.le_refl _

theorem rinvH_gc {R A M : Nat} {p : PSt} {s hc : Nat} (leak : Nat)
    (h : RInv R A (M + 3) p s (fun _ => rhoH M p hc)) (hl : LeakOK p leak)
    (hstart : StartsCycle p → reachBytes p ≤ R) (hM : hitsAfter p leak hc ≤ M) :
    RInv R A (M + 3) (maybeGc p leak) 0 (fun _ => rhoH M (maybeGc p leak) (hitsAfter p leak hc)) := by
  apply rinv_gc leak h hl
  · intro hs
    have h2 := (gc_start_step leak h.pinv hs.1 hs.2).2.1
    have hne : (maybeGc p leak).g.phase ≠ .idle := by rw [h2]; simp
    refine ⟨hstart hs, ?_, rhoH_pos _ hne⟩
    unfold rhoH; rw [h2]; simp only
    have : hitsAfter p leak hc = 0 := by unfold hitsAfter; rw [h2, hs.1]
    rw [this]; omega
  · intro L hp hL hq
    refine ⟨?_, rhoH_pos _ hq⟩
    cases hph : p.g.phase with
    | idle => exact absurd hph hp
    | sweeping =>
      exfalso
      have hm : maybeGc p leak = sweepIncr p := by unfold maybeGc; rw [hph]
      rw [hm] at hq
      exact hq (sweepIncr_cover h.pinv hph hL).1
    | marking =>
      have hm : maybeGc p leak = markIncr p leak := by unfold maybeGc; rw [hph]
      have hc' := leak_cover h.pinv hp hl
      rcases (markIncr_cover (L := L) leak h.pinv hph hL hc').2 with h2 | ⟨h2, _⟩
      · rw [← hm] at h2
        have : hitsAfter p leak hc = hc := by unfold hitsAfter; rw [h2, hph]
        rw [this]
        unfold rhoH; rw [h2, hph]; simp only; omega
      · rw [← hm] at h2
        have hh : hitsAfter p leak hc = hc + 1 := by unfold hitsAfter; rw [h2, hph]
        rw [hh] at hM ⊢
        unfold rhoH; rw [h2, hph]; simp only; omega

theorem rinvH_mut {R A M : Nat} {p p' : PSt} {s hc : Nat} {new pushed : List Nat}
    (h : RInv R A (M + 3) p s (fun _ => rhoH M p hc)) (m : PMutatorOK p p' new pushed)
    (hA : s + (p'.heapBytes - p.heapBytes) ≤ A) :
    RInv R A (M + 3) p' (s + (p'.heapBytes - p.heapBytes)) (fun _ => rhoH M p' hc) := by
  apply rinv_mut h m hA
  intro L hp h1
  have : rhoH M p' hc = rhoH M p hc := by unfold rhoH; rw [m.graph.phase]
  rw [this]; exact ⟨Nat.le_refl _, h1⟩

/-! ### the executable checks are sound -/

theorem nodupB_sound : ∀ {l : List Nat}, nodupB l = true → l.Nodup
  | [], _ => List.nodup_nil
  | a :: l, h => by
    simp only [nodupB, Bool.and_eq_true, Bool.not_eq_true', List.contains_eq_mem, decide_eq_false_iff_not] at h
    exact List.nodup_cons.2 ⟨h.1, nodupB_sound h.2⟩

theorem pmutatorOKb_sound {p p' : PSt} {fuel : Nat} (h : pmutatorOKb p p' fuel = true) :
    PMutatorOK p p' (p'.g.todo.drop p.g.todo.length) (p'.g.gray.take (p'.g.gray.length - p.g.gray.length)) := by
  simp only [pmutatorOKb, mutBytesOKb, Bool.and_eq_true, List.all_eq_true, decide_eq_true_eq, beq_iff_eq] at h
  obtain ⟨hg, ⟨⟨⟨⟨h1, h2⟩, h3⟩, h4⟩, h5⟩⟩ := h
  exact ⟨mutatorOKb_sound hg, nodupB_sound h5, h1, h2, h3, h4⟩

/-- executable sufficient check of a reachability bound: `S` contains the roots and is closed under children,
    and the heap entries in `S` have at most `R` bytes and are at most `N` -/
def reachBoundB (p : PSt) (S : List Nat) (R N : Nat) : Bool :=
  p.g.roots.all S.contains && S.all (fun a => (p.g.children a).all S.contains) &&
  decide (sumSize p.size (p.g.heap.filter S.contains) ≤ R) &&
  decide (sumSize (fun _ => 1) (p.g.heap.filter S.contains) ≤ N)

theorem reachBoundB_sound {p : PSt} {S : List Nat} {R N : Nat} (h : reachBoundB p S R N = true) :
    reachBytes p ≤ R ∧ reachCount p ≤ N := by
  simp only [reachBoundB, Bool.and_eq_true, List.all_eq_true, decide_eq_true_eq, List.contains_eq_mem] at h
  obtain ⟨⟨⟨h1, h2⟩, h3⟩, h4⟩ := h
  have hS : ∀ a, Reach p.g a → a ∈ S := by
    apply reach_subset (S := (· ∈ S))
    · intro r hr; exact h1 r hr
    · intro a ha c hc; exact h2 a ha c hc
  have hq : ∀ x ∈ p.g.heap, inL (Reach p.g) x = true → S.contains x = true := by
    intro x _ hx
    simpa using hS x ((inL_iff _ x).1 hx)
  constructor
  · exact Nat.le_trans (sumSize_filter_mono p.size hq) h3
  · exact Nat.le_trans (sumSize_filter_mono (fun _ => 1) hq) h4

/-- with positive object sizes the number of reachable objects is at most their bytes -/
theorem reachCount_le_bytes {p : PSt} (h : ∀ a ∈ p.g.heap, 1 ≤ p.size a) : reachCount p ≤ reachBytes p := by
  unfold reachCount reachBytes bytesIn
  have : ∀ l : List Nat, (∀ a ∈ l, 1 ≤ p.size a) → sumSize (fun _ => 1) l ≤ sumSize p.size l := by
    intro l
    induction l with
    | nil => intro _; exact Nat.le_refl _
    | cons a l ih =>
      intro hl
      have := ih (fun x hx => hl x (List.mem_cons_of_mem _ hx))
      have := hl a (by simp)
      simp only [sumSize]; omega
  apply this
  intro a ha
  exact h a (List.mem_filter.1 ha).1

end Abra.GCP
