import AbraProofs.Properties.C06
/-! Completeness of a collection cycle (for C07): what survives a cycle was reachable at its start
    or allocated during it.  `L` is a ghost set: "reachable when the cycle started, or allocated since". -/
namespace Abra.GC

/-- phase-independent part of the ghost invariant -/
structure InvL (σ : St) (L : Nat → Prop) : Prop where
  reach : ∀ a, Reach σ a → L a
  closedL : ∀ a ∈ σ.heap, L a → ∀ c ∈ σ.children a, L c
  markedL : ∀ a ∈ σ.todo, σ.marked a = true → L a
  doneL : ∀ a ∈ σ.done, L a

/-- transfer along equal graphs: same roots and children, heap not larger, marks/done described -/
theorem InvL.transfer {σ τ : St} {L : Nat → Prop} (h : InvL σ L)
    (hr : τ.roots = σ.roots) (hc : ∀ x, τ.children x = σ.children x)
    (hh : ∀ a ∈ τ.heap, a ∈ σ.heap)
    (hm : ∀ a ∈ τ.todo, τ.marked a = true → L a)
    (hd : ∀ a ∈ τ.done, L a) : InvL τ L :=
  ⟨fun a ha => h.reach a (reach_congr hr hc a ha),
   fun a ha hl c hcc => h.closedL a (hh a ha) hl c (by rw [← hc]; exact hcc),
   hm, hd⟩

theorem markAll_invL {σ : St} {L : Nat → Prop} {as : List Nat} (h : InvL σ L) (has : ∀ a ∈ as, L a) :
    InvL (markAll σ as) L := by
  apply h.transfer
  · simp
  · simp
  · simp
  · intro a ha hm
    rw [markAll_marked] at hm
    simp only [markAll_todo] at ha
    cases hma : σ.marked a with
    | true => exact h.markedL a ha hma
    | false => rw [hma] at hm; exact has a (by simpa using hm)
  · intro a ha; simp only [markAll_done] at ha; exact h.doneL a ha

theorem finishMark_invL {σ : St} {L : Nat → Prop} (h : InvL σ L) (hd : σ.done = []) :
    InvL (finishMark σ) L := by
  unfold finishMark
  split
  · exact h
  · simp only
    have h' := markAll_invL h (fun a ha => h.reach a (Reach.root ha))
    split
    · apply h'.transfer
      · rfl
      · intro _; rfl
      · intro a ha
        have : a ∈ (markAll σ σ.roots).heap := by
          rcases List.mem_append.1 ha with ha | ha
          · simp at ha
          · exact ha
        exact this
      · intro a ha hm
        have ha' : a ∈ (markAll σ σ.roots).heap := ha
        have ha2 : a ∈ σ.todo := by
          rw [markAll_heap] at ha'
          unfold St.heap at ha'
          rw [hd] at ha'
          simpa using ha'
        exact h'.markedL a (by simpa using ha2) hm
      · intro a ha; simp at ha
    · exact h'

theorem sweepOne_invL {σ : St} {L : Nat → Prop} (h : InvL σ L) : InvL (sweepOne σ) L := by
  unfold sweepOne
  split
  · exact h
  · rename_i a rest ht
    split
    · rename_i hm
      apply h.transfer
      · rfl
      · intro x; show (setMarked σ.obj a false x).children = _; simp [St.children]
      · intro x hx
        simp only [St.heap] at hx ⊢
        rw [ht]
        rcases List.mem_append.1 hx with hx | hx
        · rcases List.mem_append.1 hx with hx | hx
          · simp [hx]
          · simp at hx; simp [hx]
        · simp [hx]
      · intro x hx hmx
        have : (setMarked σ.obj a false x).marked = true := hmx
        rw [setMarked_marked] at this
        by_cases hxa : x = a
        · simp [hxa] at this
        · simp only [hxa, if_false] at this
          exact h.markedL x (by rw [ht]; exact List.mem_cons_of_mem _ hx) this
      · intro x hx
        rcases List.mem_append.1 hx with hx | hx
        · exact h.doneL x hx
        · simp at hx; rw [hx]; exact h.markedL a (by rw [ht]; simp) hm
    · apply h.transfer
      · rfl
      · intro _; rfl
      · intro x hx
        simp only [St.heap] at hx ⊢
        rw [ht]
        rcases List.mem_append.1 hx with hx | hx
        · simp [hx]
        · rw [mem_swapRemoveHead] at hx; simp [hx]
      · intro x hx hmx
        rw [mem_swapRemoveHead] at hx
        exact h.markedL x (by rw [ht]; exact List.mem_cons_of_mem _ hx) hmx
      · intro x hx; exact h.doneL x hx


theorem gcStep_invL {σ : St} {L : Nat → Prop} (hi : Inv σ) (h : InvL σ L) : InvL (gcStep σ) L := by
  unfold gcStep
  cases hp : σ.phase with
  | idle =>
    simp only
    unfold gcStart; rw [hp]; simp only
    have h' := markAll_invL h (fun a ha => h.reach a (Reach.root ha))
    apply h'.transfer
    · rfl
    · intro _; rfl
    · intro a ha; exact ha
    · intro a ha hm; exact h'.markedL a ha hm
    · intro a ha; exact h'.doneL a ha
  | marking =>
    simp only
    unfold gcMarkStep; rw [hp]; simp only
    have hM : InvM σ := by unfold Inv at hi; rw [hp] at hi; exact hi
    split
    · exact finishMark_invL h hM.done
    · rename_i a g hg
      have ha := hM.gray a (by rw [hg]; simp)
      have hLa : L a := h.markedL a ha.1 ha.2
      apply finishMark_invL _ (by simpa using hM.done)
      apply markAll_invL
      · apply h.transfer
        · rfl
        · intro x; show (setMarked σ.obj a true x).children = _; simp [St.children]
        · intro x hx; exact hx
        · intro x hx hm
          have : (setMarked σ.obj a true x).marked = true := hm
          rw [setMarked_marked] at this
          by_cases hxa : x = a
          · rw [hxa]; exact hLa
          · simp only [hxa, if_false] at this; exact h.markedL x hx this
        · intro x hx; exact h.doneL x hx
      · intro c hc
        exact h.closedL a (by simp [St.heap, ha.1]) hLa c hc
  | sweeping =>
    simp only
    unfold gcSweepStep; rw [hp]; simp only
    have h1 : InvL (sweepOne σ) L := sweepOne_invL h
    unfold sweepTail
    split
    · apply h1.transfer
      · rfl
      · intro _; rfl
      · intro x hx
        simp only [St.heap, List.nil_append] at hx
        simp [St.heap, hx]
      · intro x hx _; exact h1.doneL x hx
      · intro x hx; simp at hx
    · exact h1

/-- reachability after a mutator step: through old reachable objects or new ones only -/
theorem reach_mutator {σ σ' : St} {new pushed : List Nat} (m : MutatorOK σ σ' new pushed)
    (hsafe' : Safe σ') : ∀ a, Reach σ' a → Reach σ a ∨ a ∈ new := by
  intro a h
  induction h with
  | root hr => exact m.roots _ hr
  | @step p c hp hc ih =>
    rcases m.refs p (hsafe' p hp) c hc with ⟨h1, h2⟩ | h1 | h1
    · rcases ih with ih | ih
      · exact Or.inl (Reach.step ih h2)
      · exact absurd h1 (m.fresh p ih)
    · exact Or.inl h1
    · exact Or.inr h1

theorem mutator_invL {σ σ' : St} {L : Nat → Prop} {new pushed : List Nat} (hi : Inv σ)
    (m : MutatorOK σ σ' new pushed) (h : InvL σ L) : InvL σ' (fun a => L a ∨ a ∈ new) := by
  have hsafe' : Safe σ' := inv_safe (mutator_inv hi m)
  refine ⟨?_, ?_, ?_, ?_⟩
  · intro a ha
    rcases reach_mutator m hsafe' a ha with h1 | h1
    · exact Or.inl (h.reach a h1)
    · exact Or.inr h1
  · intro a ha hl c hc
    rcases m.refs a ha c hc with ⟨h1, h2⟩ | h1 | h1
    · rcases hl with hl | hl
      · exact Or.inl (h.closedL a h1 hl c h2)
      · exact absurd h1 (m.fresh a hl)
    · exact Or.inl (h.reach c h1)
    · exact Or.inr h1
  · intro a ha hm
    rw [m.todo] at ha
    rcases List.mem_append.1 ha with ha | ha
    · rcases m.marks a (by simp [St.heap, ha]) with e | ⟨_, _, _, _, e⟩
      · rw [e] at hm; exact Or.inl (h.markedL a ha hm)
      · exact Or.inl (h.reach a e)
    · exact Or.inr ha
  · intro a ha
    rw [m.done] at ha
    exact Or.inl (h.doneL a ha)


/-- when a collector increment ends the cycle, everything left in the heap is in `L` -/
theorem gcStep_idleL {σ : St} {L : Nat → Prop} (hi : Inv σ) (h : InvL σ L) (hne : σ.phase ≠ .idle)
    (hidle : (gcStep σ).phase = .idle) : ∀ a ∈ (gcStep σ).heap, L a := by
  have hI := gcStep_inv hi
  have hL := gcStep_invL hi h
  intro a ha
  cases hp : σ.phase with
  | idle => exact absurd hp hne
  | marking =>
    -- a marking increment never ends in Idle
    exfalso
    unfold gcStep gcMarkStep at hidle
    rw [hp] at hidle; simp only at hidle
    have fm : ∀ τ : St, τ.phase = .marking → (finishMark τ).phase ≠ .idle := by
      intro τ hτ
      unfold finishMark
      split
      · rw [hτ]; simp
      · simp only; split
        · simp
        · simp [hτ]
    split at hidle
    · exact fm σ hp hidle
    · exact fm _ (by simp [hp]) hidle
  | sweeping =>
    unfold gcStep gcSweepStep at ha hidle
    rw [hp] at ha hidle; simp only at ha hidle
    have h1 : InvL (sweepOne σ) L := sweepOne_invL h
    unfold sweepTail at ha hidle
    split at ha
    · simp only [St.heap, List.nil_append] at ha
      exact h1.doneL a ha
    · rename_i hh
      rw [hh] at hidle
      simp only at hidle
      rw [sweepOne_phase, hp] at hidle
      cases hidle

end Abra.GC
