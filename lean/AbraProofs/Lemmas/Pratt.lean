import AbraModel.Pratt
/-!
Helper lemmas about the Pratt model (`Abra.Pratt`): one-step unfoldings, fuel monotonicity,
sufficiency of `fuelFor`, and the fuel-free evaluation relations used by the C31 proofs.
-/
namespace Abra.Pratt

-- ------------------------------------------------------------ one-step unfoldings (definitional)
theorem parseBp_succ (fold : FoldMode) (f bp : Nat) (toks : List Tok) :
    parseBp fold (f+1) bp toks =
    match prefixOp? fold (skipNl toks) with
    | some (op, rest) =>
      match parseBp fold f op.prec rest with
      | .ok rhs r => loop fold f bp (Expr.unop op rhs) r
      | .err => .err
      | .fuel => .fuel
    | none =>
      match parseTerm fold f (skipNl toks) with
      | .ok lhs r => loop fold f bp lhs r
      | .err => .err
      | .fuel => .fuel := rfl

theorem loop_succ (fold : FoldMode) (f bp : Nat) (lhs : Expr) (toks : List Tok) :
    loop fold (f+1) bp lhs toks =
    match toks with
    | .lparen :: rest =>
      if precCall ≤ bp then .ok lhs toks else
      match parseList fold f .rparen rest with
      | .ok args r => loop fold f bp (.call lhs args) r
      | .err => .err
      | .fuel => .fuel
    | .dot :: rest =>
      if precMember ≤ bp then .ok lhs toks else
      match rest with
      | .atom (.ident s) :: r => loop fold f bp (.member lhs s) r
      | _ => .err
    | .lbrack :: rest =>
      if precIndex ≤ bp then .ok lhs toks else
      match parseBp fold f 0 (skipNl rest) with
      | .ok i r =>
        match skipNl r with
        | .rbrack :: r' => loop fold f bp (.index lhs i) r'
        | _ => .err
      | .err => .err
      | .fuel => .fuel
    | .bang :: rest =>
      if precUnwrap ≤ bp then .ok lhs toks else loop fold f bp (.unwrap lhs) rest
    | .question :: rest =>
      if precTry ≤ bp then .ok lhs toks else loop fold f bp (.try_ lhs) rest
    | .op o :: rest =>
      if o.prec ≤ bp then .ok lhs toks else
      match parseBp fold f o.prec rest with
      | .ok rhs r => loop fold f bp (.bin o lhs rhs) r
      | .err => .err
      | .fuel => .fuel
    | _ => .ok lhs toks := rfl

theorem parseTerm_succ (fold : FoldMode) (f : Nat) (toks : List Tok) :
    parseTerm fold (f+1) toks =
    match skipNl toks with
    | .atom (.int n) :: rest => if n ≤ I64_MAX then .ok (.atom (.int n)) rest else .err
    | .atom a :: rest => .ok (.atom a) rest
    | .op .sub :: .atom (.int n) :: rest =>
      if n ≤ I64_MAX + 1 then .ok (.neg (.atom (.int n))) rest else .err
    | .op .sub :: .atom (.float s) :: rest => .ok (.neg (.atom (.float s))) rest
    | .lparen :: rest =>
      match parseList fold f .rparen rest with
      | .ok .nil _ => .err
      | .ok (.cons e .nil) r => .ok e r
      | .ok es r => .ok (.tuple es) r
      | .err => .err
      | .fuel => .fuel
    | .lbrack :: rest =>
      match parseList fold f .rbrack rest with
      | .ok es r => .ok (.array es) r
      | .err => .err
      | .fuel => .fuel
    | _ => .err := rfl

theorem parseList_succ (fold : FoldMode) (f : Nat) (close : Tok) (toks : List Tok) :
    parseList fold (f+1) close toks =
    match skipNl toks with
    | [] => .err
    | t :: rest =>
      if t = close then .ok .nil rest else
      match parseBp fold f 0 (t :: rest) with
      | .ok e r =>
        match r with
        | .comma :: r' | .nl :: r' =>
          match parseList fold f close r' with
          | .ok es r'' => .ok (.cons e es) r''
          | .err => .err
          | .fuel => .fuel
        | t' :: r' => if t' = close then .ok (.cons e .nil) r' else .err
        | [] => .err
      | .err => .err
      | .fuel => .fuel := rfl

-- ------------------------------------------------------------ fuel monotonicity
theorem mono_all (fold : FoldMode) : ∀ f,
    (∀ bp toks, parseBp fold f bp toks ≠ .fuel → parseBp fold (f+1) bp toks = parseBp fold f bp toks) ∧
    (∀ bp lhs toks, loop fold f bp lhs toks ≠ .fuel → loop fold (f+1) bp lhs toks = loop fold f bp lhs toks) ∧
    (∀ toks, parseTerm fold f toks ≠ .fuel → parseTerm fold (f+1) toks = parseTerm fold f toks) ∧
    (∀ c toks, parseList fold f c toks ≠ .fuel → parseList fold (f+1) c toks = parseList fold f c toks) := by
  intro f
  induction f with
  | zero => simp [parseBp, loop, parseTerm, parseList]
  | succ n ih =>
    obtain ⟨ihB, ihL, ihT, ihA⟩ := ih
    refine ⟨?_, ?_, ?_, ?_⟩
    · intro bp toks h
      rw [parseBp_succ] at h
      rw [parseBp_succ fold (n+1), parseBp_succ fold n]
      split at h
      · rename_i op rest hp
        cases hsub : parseBp fold n op.prec rest <;> simp_all
      · rename_i hp
        cases hsub : parseTerm fold n (skipNl toks) <;> simp_all
    · intro bp lhs toks h
      rw [loop_succ] at h
      rw [loop_succ fold (n+1), loop_succ fold n]
      split at h
      · split at h
        · simp_all
        · rename_i rest hb
          cases hsub : parseList fold n .rparen rest <;> simp_all
      · split at h
        · simp_all
        · split at h <;> simp_all
      · split at h
        · simp_all
        · rename_i rest hb
          cases hsub : parseBp fold n 0 (skipNl rest) with
          | ok i r =>
            simp_all
            split at h <;> simp_all
          | err => simp_all
          | fuel => simp_all
      · split at h <;> simp_all
      · split at h <;> simp_all
      · split at h
        · simp_all
        · rename_i o rest hb
          cases hsub : parseBp fold n o.prec rest <;> simp_all
      · simp_all
    · intro toks h
      rw [parseTerm_succ] at h
      rw [parseTerm_succ fold (n+1), parseTerm_succ fold n]
      split at h
      · simp_all
      · simp_all
      · simp_all
      · simp_all
      · rename_i rest hs
        cases hsub : parseList fold n .rparen rest <;> simp_all
      · rename_i rest hs
        cases hsub : parseList fold n .rbrack rest <;> simp_all
      · simp_all
    · intro c toks h
      rw [parseList_succ] at h
      rw [parseList_succ fold (n+1), parseList_succ fold n]
      split at h
      · simp_all
      · rename_i t rest hs
        split at h
        · simp_all
        · cases hsub : parseBp fold n 0 (t :: rest) with
          | ok e r =>
            simp_all
            split at h
            · rename_i r'
              cases hsub2 : parseList fold n c r' <;> simp_all
            · rename_i r'
              cases hsub2 : parseList fold n c r' <;> simp_all
            · simp_all
            · simp_all
          | err => simp_all
          | fuel => simp_all

-- ------------------------------------------------------------ `fuelFor` suffices

theorem skipNl_length (ts : List Tok) : (skipNl ts).length ≤ ts.length := by
  induction ts with
  | nil => simp [skipNl]
  | cons t r ih => cases t <;> simp [skipNl] <;> omega

theorem prefixOp_length {fold : FoldMode} {toks rest : List Tok} {op : PrefixOp}
    (h : prefixOp? fold toks = some (op, rest)) : rest.length + 1 = toks.length := by
  unfold prefixOp? at h
  split at h
  · split at h <;> simp_all
  · simp_all
  · simp_all
  · simp at h

/-- a result that is not `fuel` and whose remaining tokens are bounded -/
def Good {α : Type} (bound : Nat) (r : Res α) : Prop :=
  r ≠ .fuel ∧ ∀ v rest, r = .ok v rest → rest.length ≤ bound

theorem Good.err {α : Type} (b : Nat) : Good b (Res.err : Res α) := by simp [Good]
theorem Good.ok {α : Type} {b : Nat} {v : α} {rest : List Tok} (h : rest.length ≤ b) : Good b (Res.ok v rest) := by
  refine ⟨by simp, ?_⟩
  intro v' rest' e; cases e; exact h
theorem Good.weaken {α : Type} {a b : Nat} {r : Res α} (h : Good a r) (hab : a ≤ b) : Good b r :=
  ⟨h.1, fun v rest e => Nat.le_trans (h.2 v rest e) hab⟩

theorem fuel_all (fold : FoldMode) : ∀ f,
    (∀ bp toks, 3 * toks.length + 2 ≤ f → Good (toks.length - 1) (parseBp fold f bp toks) ∧ (toks = [] → parseBp fold f bp toks = .err)) ∧
    (∀ bp lhs toks, 3 * toks.length + 1 ≤ f → Good toks.length (loop fold f bp lhs toks)) ∧
    (∀ toks, 3 * toks.length + 1 ≤ f → Good (toks.length - 1) (parseTerm fold f toks) ∧ (toks = [] → parseTerm fold f toks = .err)) ∧
    (∀ c toks, 3 * toks.length + 3 ≤ f → Good (toks.length - 1) (parseList fold f c toks) ∧ (toks = [] → parseList fold f c toks = .err)) := by
  intro f
  induction f with
  | zero => 
    refine ⟨?_, ?_, ?_, ?_⟩ <;> intros <;> omega
  | succ n ih =>
    obtain ⟨ihB, ihL, ihT, ihA⟩ := ih
    refine ⟨?_, ?_, ?_, ?_⟩
    · intro bp toks hf
      rw [parseBp_succ]
      have hsk := skipNl_length toks
      split
      · rename_i op rest hp
        have hl := prefixOp_length hp
        obtain ⟨⟨hb1, hb2⟩, hb3⟩ := ihB op.prec rest (by omega)
        constructor
        · cases hsub : parseBp fold n op.prec rest with
          | ok rhs r =>
            have := hb2 _ _ hsub
            exact (ihL bp (Expr.unop op rhs) r (by omega)).weaken (by omega)
          | err => exact Good.err _
          | fuel => exact absurd hsub hb1
        · intro ht; subst ht; simp [prefixOp?, skipNl] at hp
      · rename_i hp
        obtain ⟨⟨ht1, ht2⟩, ht3⟩ := ihT (skipNl toks) (by omega)
        constructor
        · cases hsub : parseTerm fold n (skipNl toks) with
          | ok lhs r =>
            have := ht2 _ _ hsub
            by_cases hne : skipNl toks = []
            · rw [ht3 hne] at hsub; cases hsub
            · have : 0 < (skipNl toks).length := List.length_pos_iff.mpr hne
              exact (ihL bp lhs r (by omega)).weaken (by omega)
          | err => exact Good.err _
          | fuel => exact absurd hsub ht1
        · intro ht; subst ht; rw [ht3 (by simp [skipNl])]
    · intro bp lhs toks hf
      rw [loop_succ]
      split
      · -- lparen
        rename_i rest
        simp only [List.length_cons] at hf ⊢
        split
        · exact Good.ok (by simp)
        · obtain ⟨⟨ha1, ha2⟩, ha3⟩ := ihA .rparen rest (by omega)
          cases hsub : parseList fold n .rparen rest with
          | ok args r =>
            have := ha2 _ _ hsub
            exact (ihL bp _ r (by omega)).weaken (by omega)
          | err => exact Good.err _
          | fuel => exact absurd hsub ha1
      · -- dot
        rename_i rest
        simp only [List.length_cons] at hf ⊢
        split
        · exact Good.ok (by simp)
        · split
          · rename_i s r
            simp only [List.length_cons] at hf ⊢
            exact (ihL bp _ r (by omega)).weaken (by omega)
          · exact Good.err _
      · -- lbrack
        rename_i rest
        simp only [List.length_cons] at hf ⊢
        split
        · exact Good.ok (by simp)
        · have hs := skipNl_length rest
          obtain ⟨⟨hb1, hb2⟩, hb3⟩ := ihB 0 (skipNl rest) (by omega)
          cases hsub : parseBp fold n 0 (skipNl rest) with
          | ok i r =>
            have h1 := hb2 _ _ hsub
            have h2 := skipNl_length r
            simp only
            split
            · rename_i r' hr'
              have : r'.length + 1 = (skipNl r).length := by rw [hr']; simp
              exact (ihL bp _ r' (by omega)).weaken (by omega)
            · exact Good.err _
          | err => exact Good.err _
          | fuel => exact absurd hsub hb1
      · rename_i rest
        simp only [List.length_cons] at hf ⊢
        split
        · exact Good.ok (by simp)
        · exact (ihL bp _ rest (by omega)).weaken (by omega)
      · rename_i rest
        simp only [List.length_cons] at hf ⊢
        split
        · exact Good.ok (by simp)
        · exact (ihL bp _ rest (by omega)).weaken (by omega)
      · rename_i o rest
        simp only [List.length_cons] at hf ⊢
        split
        · exact Good.ok (by simp)
        · obtain ⟨⟨hb1, hb2⟩, hb3⟩ := ihB o.prec rest (by omega)
          cases hsub : parseBp fold n o.prec rest with
          | ok rhs r =>
            have := hb2 _ _ hsub
            exact (ihL bp _ r (by omega)).weaken (by omega)
          | err => exact Good.err _
          | fuel => exact absurd hsub hb1
      · exact Good.ok (Nat.le_refl _)
    · intro toks hf
      rw [parseTerm_succ]
      have hs := skipNl_length toks
      constructor
      · split
        · rename_i n' rest hsk
          have : rest.length + 1 = (skipNl toks).length := by rw [hsk]; simp
          split
          · exact Good.ok (by omega)
          · exact Good.err _
        · rename_i a rest _ hsk
          have : rest.length + 1 = (skipNl toks).length := by rw [hsk]; simp
          exact Good.ok (by omega)
        · rename_i n' rest hsk
          have : rest.length + 2 = (skipNl toks).length := by rw [hsk]; simp
          split
          · exact Good.ok (by omega)
          · exact Good.err _
        · rename_i s rest hsk
          have : rest.length + 2 = (skipNl toks).length := by rw [hsk]; simp
          exact Good.ok (by omega)
        · rename_i rest hsk
          have : rest.length + 1 = (skipNl toks).length := by rw [hsk]; simp
          obtain ⟨⟨ha1, ha2⟩, ha3⟩ := ihA .rparen rest (by omega)
          cases hsub : parseList fold n .rparen rest with
          | ok es r =>
            have := ha2 _ _ hsub
            split
            · exact Good.err _
            · rename_i heq; cases heq; exact Good.ok (by omega)
            · rename_i heq; cases heq; exact Good.ok (by omega)
            · rename_i heq; cases heq
            · rename_i heq; cases heq
          | err => exact Good.err _
          | fuel => exact absurd hsub ha1
        · rename_i rest hsk
          have : rest.length + 1 = (skipNl toks).length := by rw [hsk]; simp
          obtain ⟨⟨ha1, ha2⟩, ha3⟩ := ihA .rbrack rest (by omega)
          cases hsub : parseList fold n .rbrack rest with
          | ok es r =>
            have := ha2 _ _ hsub
            exact Good.ok (by omega)
          | err => exact Good.err _
          | fuel => exact absurd hsub ha1
        · exact Good.err _
      · intro ht; subst ht; simp [skipNl]
    · intro c toks hf
      rw [parseList_succ]
      have hs := skipNl_length toks
      constructor
      · split
        · exact Good.err _
        · rename_i t rest hsk
          have hlen : rest.length + 1 = (skipNl toks).length := by rw [hsk]; simp
          split
          · exact Good.ok (by omega)
          · obtain ⟨⟨hb1, hb2⟩, hb3⟩ := ihB 0 (t :: rest) (by simp only [List.length_cons]; omega)
            cases hsub : parseBp fold n 0 (t :: rest) with
            | ok e r =>
              have h1 := hb2 _ _ hsub
              simp only [List.length_cons] at h1
              simp only
              split
              · rename_i r'
                simp only [List.length_cons] at h1
                obtain ⟨⟨ha1, ha2⟩, ha3⟩ := ihA c r' (by omega)
                cases hsub2 : parseList fold n c r' with
                | ok es r'' => have := ha2 _ _ hsub2; exact Good.ok (by omega)
                | err => exact Good.err _
                | fuel => exact absurd hsub2 ha1
              · rename_i r'
                simp only [List.length_cons] at h1
                obtain ⟨⟨ha1, ha2⟩, ha3⟩ := ihA c r' (by omega)
                cases hsub2 : parseList fold n c r' with
                | ok es r'' => have := ha2 _ _ hsub2; exact Good.ok (by omega)
                | err => exact Good.err _
                | fuel => exact absurd hsub2 ha1
              · rename_i t' r' _ _
                simp only [List.length_cons] at h1
                split
                · exact Good.ok (by omega)
                · exact Good.err _
              · exact Good.err _
            | err => exact Good.err _
            | fuel => exact absurd hsub hb1
      · intro ht; subst ht; simp [skipNl]

/-- The parser model never runs out of fuel on any token list: `parseExprWith` is total. -/
theorem fuel_suffices (fold : FoldMode) (toks : List Tok) : parseExprWith fold toks ≠ .fuel := by
  unfold parseExprWith fuelFor
  have hs := skipNl_length toks
  exact ((fuel_all fold _).1 0 (skipNl toks) (by omega)).1.1

-- ------------------------------------------------------------ monotonicity for f ≤ g
theorem parseBp_lift {fold : FoldMode} {f g bp : Nat} {toks : List Tok} {res : Res Expr}
    (h : parseBp fold f bp toks = res) (hne : res ≠ .fuel) (hfg : f ≤ g) : parseBp fold g bp toks = res := by
  induction hfg with
  | refl => exact h
  | step _ ih => rw [((mono_all fold _).1 bp toks (by rw [ih]; exact hne)), ih]

theorem loop_lift {fold : FoldMode} {f g bp : Nat} {lhs : Expr} {toks : List Tok} {res : Res Expr}
    (h : loop fold f bp lhs toks = res) (hne : res ≠ .fuel) (hfg : f ≤ g) : loop fold g bp lhs toks = res := by
  induction hfg with
  | refl => exact h
  | step _ ih => rw [((mono_all fold _).2.1 bp lhs toks (by rw [ih]; exact hne)), ih]

theorem parseTerm_lift {fold : FoldMode} {f g : Nat} {toks : List Tok} {res : Res Expr}
    (h : parseTerm fold f toks = res) (hne : res ≠ .fuel) (hfg : f ≤ g) : parseTerm fold g toks = res := by
  induction hfg with
  | refl => exact h
  | step _ ih => rw [((mono_all fold _).2.2.1 toks (by rw [ih]; exact hne)), ih]

theorem parseList_lift {fold : FoldMode} {f g : Nat} {c : Tok} {toks : List Tok} {res : Res Args}
    (h : parseList fold f c toks = res) (hne : res ≠ .fuel) (hfg : f ≤ g) : parseList fold g c toks = res := by
  induction hfg with
  | refl => exact h
  | step _ ih => rw [((mono_all fold _).2.2.2 c toks (by rw [ih]; exact hne)), ih]

end Abra.Pratt
