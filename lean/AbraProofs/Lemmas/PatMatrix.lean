import AbraModel.PatMatrix
/-!
Lemmas about M9 (`Abra.PatMatrix`): well-formed patterns, the specialisation lemmas (Maranget),
or-expansion, `unspecialize`, `split`, and the invariant `Good` of
`compute_exhaustiveness_and_usefulness` proved by induction on the fuel.
-/
namespace Abra.PatMatrix

/-! ## basic facts about `dmatchAll` / `hasTys` -/

theorem dmatchAll_length {ps : List DPat} {vs : List Val} (h : dmatchAll ps vs = true) :
    ps.length = vs.length := by
  induction ps generalizing vs with
  | nil => cases vs <;> simp_all [dmatchAll]
  | cons p ps ih =>
    cases vs with
    | nil => simp [dmatchAll] at h
    | cons v vs =>
      simp only [dmatchAll, Bool.and_eq_true] at h
      simp [ih h.2]

theorem hasTys_length {env : EnumEnv} {vs : List Val} {ts : List Ty} (h : hasTys env vs ts = true) :
    vs.length = ts.length := by
  induction vs generalizing ts with
  | nil => cases ts <;> simp_all [hasTys]
  | cons v vs ih =>
    cases ts with
    | nil => simp [hasTys] at h
    | cons t ts =>
      simp only [hasTys, Bool.and_eq_true] at h
      simp [ih h.2]

theorem dmatchAll_append (a b : List DPat) (x y : List Val) (h : a.length = x.length) :
    dmatchAll (a ++ b) (x ++ y) = (dmatchAll a x && dmatchAll b y) := by
  induction a generalizing x with
  | nil => cases x with
    | nil => simp [dmatchAll]
    | cons _ _ => simp at h
  | cons p ps ih => cases x with
    | nil => simp at h
    | cons v vs =>
      simp only [List.cons_append, dmatchAll]
      rw [ih vs (by simpa using h), Bool.and_assoc]

theorem hasTys_append (env : EnumEnv) (a b : List Val) (x y : List Ty) (h : a.length = x.length) :
    hasTys env (a ++ b) (x ++ y) = (hasTys env a x && hasTys env b y) := by
  induction a generalizing x with
  | nil => cases x with
    | nil => simp [hasTys]
    | cons _ _ => simp at h
  | cons p ps ih => cases x with
    | nil => simp at h
    | cons v vs =>
      simp only [List.cons_append, hasTys]
      rw [ih vs (by simpa using h), Bool.and_assoc]

/-- wildcards match any vector of the same length -/
theorem dmatchAll_wilds (r : WReason) (tys : List Ty) (vs : List Val) (h : tys.length = vs.length) :
    dmatchAll (tys.map (wildOf r)) vs = true := by
  induction tys generalizing vs with
  | nil => cases vs <;> simp_all [dmatchAll]
  | cons t ts ih =>
    cases vs with
    | nil => simp at h
    | cons v vs => simp [dmatchAll, wildOf, dmatch, ih vs (by simpa using h)]

theorem dmatchAll_specWilds (f : Nat → DPat) (hf : ∀ i, (f i).ctor.isWild = true) (n : Nat) (vs : List Val)
    (h : n = vs.length) : dmatchAll ((List.range n).map f) vs = true := by
  subst h
  induction vs generalizing f with
  | nil => simp [dmatchAll]
  | cons v vs ih =>
    rw [List.length_cons, List.range_succ_eq_map]
    simp only [List.map_cons, List.map_map, dmatchAll, Bool.and_eq_true]
    constructor
    · have := hf 0
      cases hc : f 0 with
      | mk c fs ty => rw [hc] at this; cases c <;> simp_all [DPat.ctor, Ctor.isWild, dmatch]
    · exact ih (f ∘ Nat.succ) (fun i => hf _)

/-! ## well-formed deconstructed patterns -/

mutual
  /-- what the type checker guarantees about a deconstructed pattern of type `T`: the constructor
      belongs to the type and has as many fields as `Matrix::specialize` pushes types for it -/
  def patWT (env : EnumEnv) : DPat → Ty → Bool
    | .mk (.wild r) _ _, _ => r != .nonExh
    | .mk (.bool _) fs _, .bool => fs.isEmpty
    | .mk (.int _) fs _, .int => fs.isEmpty
    | .mk (.float _) fs _, .float => fs.isEmpty
    | .mk (.str _) fs _, .string => fs.isEmpty
    | .mk .product fs _, .void => fs.isEmpty
    | .mk .product fs _, .tuple ts => patsWT env fs ts
    | .mk .product fs _, .struct _ ts => patsWT env fs ts
    | .mk (.variant e i) fs _, .enum e' =>
      e == e' && (variantFields env e i).isSome && patsWT env fs (specTys env (.enum e) (.variant e i))
    | .mk .or fs _, t => !fs.isEmpty && patsWTOr env fs t
    | _, _ => false
  def patsWT (env : EnumEnv) : List DPat → List Ty → Bool
    | [], [] => true
    | p :: ps, t :: ts => patWT env p t && patsWT env ps ts
    | _, _ => false
  def patsWTOr (env : EnumEnv) : List DPat → Ty → Bool
    | [], _ => true
    | p :: ps, t => patWT env p t && patsWTOr env ps t
end

theorem patsWT_length {env : EnumEnv} {ps : List DPat} {ts : List Ty} (h : patsWT env ps ts = true) :
    ps.length = ts.length := by
  induction ps generalizing ts with
  | nil => cases ts <;> simp_all [patsWT]
  | cons p ps ih =>
    cases ts with
    | nil => simp [patsWT] at h
    | cons t ts =>
      simp only [patsWT, Bool.and_eq_true] at h
      simp [ih h.2]

theorem patsWT_append {env : EnumEnv} {a b : List DPat} {x y : List Ty}
    (ha : patsWT env a x = true) (hb : patsWT env b y = true) : patsWT env (a ++ b) (x ++ y) = true := by
  induction a generalizing x with
  | nil => cases x <;> simp_all [patsWT]
  | cons p ps ih =>
    cases x with
    | nil => simp [patsWT] at ha
    | cons t ts =>
      simp only [patsWT, Bool.and_eq_true] at ha
      simp [patsWT, ha.1, ih ha.2]

theorem patsWT_specWilds (env : EnumEnv) (f : Nat → DPat) (hf : ∀ i, (f i).ctor = .wild .spec) (ts : List Ty) :
    patsWT env ((List.range ts.length).map f) ts = true := by
  induction ts generalizing f with
  | nil => simp [patsWT]
  | cons t ts ih =>
    rw [List.length_cons, List.range_succ_eq_map]
    simp only [List.map_cons, List.map_map, patsWT, Bool.and_eq_true]
    constructor
    · have := hf 0
      cases hc : f 0 with
      | mk c fs ty => rw [hc] at this; simp only [DPat.ctor] at this; subst this; simp [patWT]
    · exact ih (f ∘ Nat.succ) (fun i => hf _)

theorem arityOpt_eq (o : Option (List Ty)) : arityOpt o = if (dataTyOpt o).isVoid then 0 else 1 := by
  cases o with
  | none => simp [arityOpt, dataTyOpt, Ty.isVoid]
  | some fs =>
    match fs with
    | [] => simp [arityOpt, arityOfFields, dataTyOpt, dataTyOfFields, Ty.isVoid]
    | [t] => cases t <;> simp [arityOpt, arityOfFields, dataTyOpt, dataTyOfFields, Ty.isVoid]
    | _ :: _ :: _ => simp [arityOpt, arityOfFields, dataTyOpt, dataTyOfFields, Ty.isVoid]

theorem variantArity_eq (env : EnumEnv) (e i : Nat) :
    variantArity env e i = if (dataTy env e i).isVoid then 0 else 1 := arityOpt_eq _

/-- `(specTys …).length` is the constructor's arity -/
theorem specTys_length (env : EnumEnv) (T : Ty) (c : Ctor) :
    (specTys env T c).length = c.arity env T := by
  cases c <;> simp [specTys, Ctor.arity]
  rename_i e i
  rw [variantArity_eq]
  split <;> simp

/-! ## values seen through a constructor -/

/-- the constructor of a value of type `T` -/
def ctorOf (T : Ty) : Val → Ctor
  | .bool b => .bool b
  | .int i => .int i
  | .float f => .float f
  | .str s => .str s
  | .prod _ => .product
  | .variant idx _ =>
    match T with
    | .enum e => .variant e idx
    | _ => .variant 0 idx

/-- the field values `Matrix::specialize` exposes -/
def fieldsOf (env : EnumEnv) (c : Ctor) : Val → List Val
  | .prod vs => match c with
    | .product => vs
    | _ => []
  | .variant _ pl => match c with
    | .variant e i => if variantArity env e i = 0 then [] else [pl]
    | _ => []
  | _ => []

/-- typing of the exposed fields -/
theorem hasTys_fieldsOf {env : EnumEnv} {T : Ty} {v : Val} (h : hasTy env v T = true) :
    hasTys env (fieldsOf env (ctorOf T v) v) (specTys env T (ctorOf T v)) = true := by
  cases v with
  | bool b => simp [fieldsOf, ctorOf, specTys, hasTys]
  | int b => simp [fieldsOf, ctorOf, specTys, hasTys]
  | float b => simp [fieldsOf, ctorOf, specTys, hasTys]
  | str b => simp [fieldsOf, ctorOf, specTys, hasTys]
  | prod vs =>
    cases T <;> simp_all [fieldsOf, ctorOf, specTys, productTys, hasTy]
    cases vs <;> simp_all [hasTy, hasTys]
  | variant idx pl =>
    cases T <;> simp_all [hasTy]
    rename_i e
    have hpl : hasTy env pl (dataTy env e idx) = true := by
      unfold dataTy
      cases hf : variantFields env e idx with
      | none => simp [hf] at h
      | some fs => simpa [hf, dataTyOpt] using h
    simp only [fieldsOf, ctorOf, specTys, variantArity_eq]
    cases hv : (dataTy env e idx).isVoid <;> simp [hasTys, hpl]

theorem fieldsOf_length {env : EnumEnv} {T : Ty} {v : Val} (h : hasTy env v T = true) :
    (fieldsOf env (ctorOf T v) v).length = (ctorOf T v).arity env T := by
  rw [hasTys_length (hasTys_fieldsOf h), specTys_length]

/-! ## Specialisation lemma, row level -/

/-- a non-wildcard, non-or pattern that matches a value has the value's constructor -/
theorem ctor_of_dmatch {env : EnumEnv} {T : Ty} {p : DPat} {v : Val}
    (hp : patWT env p T = true) (hv : hasTy env v T = true) (hm : dmatch p v = true)
    (hw : p.ctor.isWild = false) (ho : p.ctor.isOr = false) : p.ctor = ctorOf T v := by
  obtain ⟨c, fs, ty⟩ := p
  cases c <;> cases v <;> cases T <;>
    simp_all [DPat.ctor, Ctor.isWild, Ctor.isOr, dmatch, ctorOf, patWT, hasTy]

/-- **Specialisation lemma** (constructor of the value): row `p :: ps` matches `v :: vs` iff its head
    covers the value's constructor and the popped row matches the exposed fields followed by `vs` -/
theorem row_specialize {env : EnumEnv} {T : Ty} {p : DPat} {v : Val} (ps : List DPat) (vs : List Val)
    (hp : patWT env p T = true) (hv : hasTy env v T = true) (ho : p.ctor.isOr = false) :
    dmatchAll (p :: ps) (v :: vs) =
      ((ctorOf T v).isCoveredBy p.ctor &&
        dmatchAll (p.specialize env (ctorOf T v) ((ctorOf T v).arity env T) ++ ps)
          (fieldsOf env (ctorOf T v) v ++ vs)) := by
  have hlen := fieldsOf_length hv
  obtain ⟨c, fs, ty⟩ := p
  by_cases hw : c.isWild = true
  · -- wildcard head: `arity` fresh wildcards
    cases c <;> simp [Ctor.isWild] at hw
    simp only [DPat.specialize, DPat.ctor, dmatchAll, dmatch, Bool.true_and]
    rw [dmatchAll_append _ _ _ _ (by simp [hlen])]
    rw [dmatchAll_specWilds _ (fun i => by simp [wildOf, DPat.ctor, Ctor.isWild]) _ _ hlen.symm]
    cases ctorOf T v <;> simp [Ctor.isCoveredBy]
  · -- constructor head
    cases c <;> cases v <;> cases T <;>
      simp_all [DPat.ctor, Ctor.isWild, Ctor.isOr, dmatch, dmatchAll, ctorOf, patWT, hasTy, Ctor.isCoveredBy,
        DPat.specialize, DPat.fields, fieldsOf, List.isEmpty_iff]
    case neg.bool.bool.bool => rw [BEq.comm]
    case neg.int.int.int => rw [BEq.comm]
    case neg.float.float.float => rw [BEq.comm]
    case neg.str.str.string => rw [BEq.comm]
    case neg.product.prod.void =>
      rename_i vs0
      cases vs0 <;> simp_all [hasTy, dmatchAll]
    case neg.product.prod.tuple =>
      rw [dmatchAll_append _ _ _ _ (by rw [patsWT_length hp, hasTys_length hv])]
    case neg.product.prod.struct =>
      rw [dmatchAll_append _ _ _ _ (by rw [patsWT_length hp, hasTys_length hv])]
    case neg.variant.variant.enum =>
      rename_i e i i' pl e'
      obtain ⟨⟨he, _⟩, hfs⟩ := hp
      subst he
      rw [BEq.comm]
      by_cases hii : i' = i
      · subst hii
        have hl := patsWT_length hfs
        rw [specTys_length] at hl
        simp only [Ctor.arity] at hl hlen
        by_cases ha : variantArity env e i' = 0
        · rw [ha] at hl
          have : fs = [] := List.eq_nil_of_length_eq_zero hl
          subst this
          simp [ha]
        · simp only [ha, if_false] at hlen ⊢
          rw [← hlen] at hl
          match fs, hl with
          | [f], _ => simp [dmatchAll]
      · have : (i' == i) = false := by simpa using hii
        rw [this]; simp

/-- the popped row is well-formed for the specialised column types -/
theorem patsWT_specialize {env : EnumEnv} {T : Ty} {p : DPat} {ps : List DPat} {Ts : List Ty} {c : Ctor}
    (hp : patWT env p T = true) (hps : patsWT env ps Ts = true) (ho : p.ctor.isOr = false)
    (hcov : c.isCoveredBy p.ctor = true) :
    patsWT env (p.specialize env c (c.arity env T) ++ ps) (specTys env T c ++ Ts) = true := by
  apply patsWT_append _ hps
  obtain ⟨pc, fs, ty⟩ := p
  by_cases hw : pc.isWild = true
  · cases pc <;> simp [Ctor.isWild] at hw
    simp only [DPat.specialize, DPat.ctor]
    rw [← specTys_length]
    exact patsWT_specWilds env _ (fun i => by simp [wildOf, DPat.ctor]) _
  · cases pc <;> cases c <;> cases T <;>
      simp_all [DPat.ctor, Ctor.isWild, Ctor.isOr, patWT, Ctor.isCoveredBy, DPat.specialize, DPat.fields,
        specTys, productTys, patsWT, List.isEmpty_iff]
    case neg.variant.variant.enum =>
      obtain ⟨⟨he, _⟩, hfs⟩ := hp
      subst he
      exact hfs

/-- **Default-matrix lemma**: a value that no constructor pattern of the column matches is only
    matched by the wildcard rows -/
theorem row_default {env : EnumEnv} {T : Ty} {p : DPat} {v : Val} (ps : List DPat) (vs : List Val) (r : WReason)
    (hd : p.ctor.isWild = false → dmatch p v = false) :
    dmatchAll (p :: ps) (v :: vs) =
      ((Ctor.wild r).isCoveredBy p.ctor &&
        dmatchAll (p.specialize env (.wild r) ((Ctor.wild r).arity env T) ++ ps) vs) := by
  obtain ⟨pc, fs, ty⟩ := p
  by_cases hw : pc.isWild = true
  · cases pc <;> simp [Ctor.isWild] at hw
    simp [DPat.specialize, DPat.ctor, dmatchAll, dmatch, Ctor.isCoveredBy, Ctor.arity]
  · have := hd (by simpa [DPat.ctor] using hw)
    cases pc <;> simp_all [DPat.ctor, Ctor.isWild, dmatchAll, Ctor.isCoveredBy]

theorem patsWT_default {env : EnumEnv} {T : Ty} {p : DPat} {ps : List DPat} {Ts : List Ty} (r : WReason)
    (hps : patsWT env ps Ts = true) (hcov : (Ctor.wild r).isCoveredBy p.ctor = true) :
    patsWT env (p.specialize env (.wild r) ((Ctor.wild r).arity env T) ++ ps)
      (specTys env T (.wild r) ++ Ts) = true := by
  obtain ⟨pc, fs, ty⟩ := p
  cases pc <;> simp_all [DPat.ctor, Ctor.isCoveredBy, DPat.specialize, Ctor.arity, specTys]

/-! ## First matching row; the matrix-level specialisation lemmas -/

/-- index of the first row that matches the value vector -/
def firstMatch (rows : List Row) (vs : List Val) : Option Nat :=
  rows.findIdx? (fun r => dmatchAll r.pats vs)

/-- `parent_row` of the first row of a specialised matrix that matches -/
def firstParent (spec : List Row) (us : List Val) : Option Nat :=
  (spec.find? (fun r => dmatchAll r.pats us)).map Row.parent

theorem firstMatch_nil (vs : List Val) : firstMatch [] vs = none := rfl

theorem firstMatch_cons (r : Row) (rs : List Row) (vs : List Val) :
    firstMatch (r :: rs) vs = if dmatchAll r.pats vs then some 0 else (firstMatch rs vs).map (· + 1) := by
  simp [firstMatch, List.findIdx?_cons]

theorem firstParent_cons (r : Row) (rs : List Row) (us : List Val) :
    firstParent (r :: rs) us = if dmatchAll r.pats us then some r.parent else firstParent rs us := by
  simp only [firstParent, List.find?_cons]
  split <;> simp_all

theorem firstParent_append (a b : List Row) (us : List Val) :
    firstParent (a ++ b) us = (firstParent a us).or (firstParent b us) := by
  induction a with
  | nil => simp [firstParent]
  | cons r rs ih => rw [List.cons_append, firstParent_cons, firstParent_cons, ih]; split <;> simp

/-- **Matrix-level specialisation lemma**, generic in the row-level fact `hrow` -/
theorem specializeAux_first (env : EnumEnv) (c : Ctor) (a : Nat) (rows : List Row) (vs us : List Val)
    (hrow : ∀ r ∈ rows, ∀ k, dmatchAll r.pats vs =
      (c.isCoveredBy r.headCtor && dmatchAll (popHead env r c a k).pats us)) (off : Nat) :
    firstParent (specializeAux env c a off rows) us = (firstMatch rows vs).map (· + off) := by
  induction rows generalizing off with
  | nil => simp [specializeAux, firstParent, firstMatch]
  | cons r rs ih =>
    have hr := hrow r (List.mem_cons_self ..) off
    have ih' := ih (fun r' hr' => hrow r' (List.mem_cons_of_mem _ hr')) (off + 1)
    rw [firstMatch_cons, specializeAux]
    by_cases hc : c.isCoveredBy r.headCtor = true
    · rw [if_pos hc, firstParent_cons, ih']
      rw [hc, Bool.true_and] at hr
      rw [← hr]
      by_cases hm : dmatchAll r.pats vs = true
      · simp [hm, popHead]; cases r.pats <;> simp
      · simp only [hm, Bool.false_eq_true, if_false, Option.map_map]
        congr 1; funext x; simp; omega
    · rw [if_neg hc, ih']
      have hc' : c.isCoveredBy r.headCtor = false := by simpa using hc
      rw [hc', Bool.false_and] at hr
      simp only [hr, Bool.false_eq_true, if_false, Option.map_map]
      congr 1; funext x; simp; omega

/-! ## Or-pattern expansion -/

mutual
  theorem any_expandPat (p : DPat) (v : Val) : (expandPat p).any (fun h => dmatch h v) = dmatch p v := by
    match p with
    | .mk c fs ty =>
      cases c with
      | or => simp only [expandPat, dmatch]; exact any_expandPats fs v
      | _ => simp [expandPat]
  theorem any_expandPats (ps : List DPat) (v : Val) :
      (expandPats ps).any (fun h => dmatch h v) = dmatchAny ps v := by
    match ps with
    | [] => simp [expandPats, dmatchAny]
    | p :: ps =>
      simp only [expandPats, dmatchAny, List.any_append]
      rw [any_expandPat p v, any_expandPats ps v]
end

mutual
  theorem wt_expandPat (env : EnumEnv) (p : DPat) (T : Ty) (hp : patWT env p T = true) :
      ∀ h ∈ expandPat p, patWT env h T = true ∧ h.ctor.isOr = false := by
    match p with
    | .mk c fs ty =>
      cases c with
      | or =>
        simp only [expandPat]
        exact wt_expandPats env fs T (by simp only [patWT, Bool.and_eq_true] at hp; exact hp.2)
      | _ => simp_all [expandPat, DPat.ctor, Ctor.isOr]
  theorem wt_expandPats (env : EnumEnv) (ps : List DPat) (T : Ty) (hp : patsWTOr env ps T = true) :
      ∀ h ∈ expandPats ps, patWT env h T = true ∧ h.ctor.isOr = false := by
    match ps with
    | [] => simp [expandPats]
    | p :: ps =>
      simp only [patsWTOr, Bool.and_eq_true] at hp
      intro h hh
      simp only [expandPats, List.mem_append] at hh
      cases hh with
      | inl hh => exact wt_expandPat env p T hp.1 h hh
      | inr hh => exact wt_expandPats env ps T hp.2 h hh
end

theorem any_expandOrRow (r : Row) (vs : List Val) :
    (expandOrRow r).any (fun e => dmatchAll e.pats vs) = dmatchAll r.pats vs := by
  unfold expandOrRow
  cases hp : r.pats with
  | nil => simp [hp]
  | cons p rest =>
    cases vs with
    | nil => simp [dmatchAll]
    | cons v vs =>
      simp only [List.any_map, dmatchAll, Function.comp_def]
      rw [← any_expandPat p v]
      induction expandPat p with
      | nil => simp
      | cons h hs ih =>
        simp only [List.any_cons, ih]
        cases dmatch h v <;> cases dmatchAll rest vs <;> simp

theorem firstParent_const_parent (l : List Row) (i : Nat) (us : List Val) :
    firstParent (l.map (fun e => { e with parent := i })) us =
      if l.any (fun e => dmatchAll e.pats us) then some i else none := by
  induction l with
  | nil => simp [firstParent]
  | cons e es ih =>
    rw [List.map_cons, firstParent_cons, ih]
    by_cases h : dmatchAll e.pats us = true <;> simp [h]

/-- **Or-expansion lemma**: the first matching row of the expanded matrix comes from the first
    matching row of the original -/
theorem specializeOrAux_first (rows : List Row) (vs : List Val) (off : Nat) :
    firstParent (specializeOrAux off rows) vs = (firstMatch rows vs).map (· + off) := by
  induction rows generalizing off with
  | nil => simp [specializeOrAux, firstParent, firstMatch]
  | cons r rs ih =>
    rw [specializeOrAux, firstParent_append, firstParent_const_parent, any_expandOrRow, ih (off + 1),
      firstMatch_cons]
    by_cases hm : dmatchAll r.pats vs = true
    · simp [hm]
    · simp only [hm, Bool.false_eq_true, if_false, Option.none_or, Option.map_map]
      congr 1; funext x; simp; omega

/-! ## `unspecialize` -/

theorem unspecialize_length (flags : List Bool) (spec : List Row) (cf : List Bool) :
    (unspecialize flags spec cf).length = flags.length := by
  induction spec generalizing flags cf with
  | nil => simp [unspecialize]
  | cons r rs ih =>
    cases cf with
    | nil => simp [unspecialize]
    | cons u us => simp [unspecialize, ih]

theorem unspecialize_getD (flags : List Bool) (spec : List Row) (cf : List Bool) (i : Nat) :
    (unspecialize flags spec cf).getD i false =
      (flags.getD i false ||
        (decide (i < flags.length) && (spec.zip cf).any (fun x => x.1.parent == i && x.2))) := by
  induction spec generalizing flags cf with
  | nil => simp [unspecialize]
  | cons r rs ih =>
    cases cf with
    | nil => simp [unspecialize]
    | cons u us =>
      simp only [unspecialize, List.zip_cons_cons, List.any_cons]
      rw [ih]
      by_cases hi : i < flags.length
      · by_cases hp : r.parent = i
        · subst hp
          simp [hi, List.getD_eq_getElem?_getD, Bool.or_assoc]
        · have : (r.parent == i) = false := by simpa using hp
          simp [hi, this, List.getD_eq_getElem?_getD, List.getElem_set_ne hp]
      · simp [hi, List.getD_eq_getElem?_getD]

theorem any_zip_iff (spec : List Row) (cf : List Bool) (i : Nat) :
    (spec.zip cf).any (fun x => x.1.parent == i && x.2) = true ↔
      ∃ k r, spec[k]? = some r ∧ r.parent = i ∧ cf.getD k false = true := by
  induction spec generalizing cf with
  | nil => simp
  | cons r rs ih =>
    cases cf with
    | nil => simp
    | cons u us =>
      simp only [List.zip_cons_cons, List.any_cons, Bool.or_eq_true, Bool.and_eq_true, beq_iff_eq, ih]
      constructor
      · rintro (⟨h1, h2⟩ | ⟨k, r', h1, h2, h3⟩)
        · exact ⟨0, r, by simp, h1, by simpa using h2⟩
        · exact ⟨k + 1, r', by simpa using h1, h2, by simpa using h3⟩
      · rintro ⟨k, r', h1, h2, h3⟩
        cases k with
        | zero =>
          simp at h1 h3; subst h1; exact Or.inl ⟨h2, h3⟩
        | succ k => exact Or.inr ⟨k, r', by simpa using h1, h2, by simpa using h3⟩

theorem firstParent_eq_some (spec : List Row) (us : List Val) (i : Nat) :
    firstParent spec us = some i ↔
      ∃ k r, firstMatch spec us = some k ∧ spec[k]? = some r ∧ r.parent = i := by
  induction spec with
  | nil => simp [firstParent, firstMatch]
  | cons r rs ih =>
    rw [firstParent_cons, firstMatch_cons]
    by_cases hm : dmatchAll r.pats us = true
    · simp only [hm, if_true, Option.some.injEq]
      constructor
      · intro h; exact ⟨0, r, rfl, by simp, h⟩
      · rintro ⟨k, r', h1, h2, h3⟩
        have : k = 0 := by simpa using h1.symm
        subst this; simp at h2; subst h2; exact h3
    · simp only [hm, Bool.false_eq_true, if_false, ih, Option.map_eq_some_iff]
      constructor
      · rintro ⟨k, r', h1, h2, h3⟩; exact ⟨k + 1, r', ⟨k, h1, rfl⟩, by simpa using h2, h3⟩
      · rintro ⟨k, r', ⟨k', h1, rfl⟩, h2, h3⟩; exact ⟨k', r', h1, by simpa using h2, h3⟩

theorem firstMatch_lt {rows : List Row} {vs : List Val} {k : Nat} (h : firstMatch rows vs = some k) :
    k < rows.length := by
  induction rows generalizing k with
  | nil => simp [firstMatch] at h
  | cons r rs ih =>
    rw [firstMatch_cons] at h
    split at h
    · simp at h; subst h; simp
    · simp only [Option.map_eq_some_iff] at h
      obtain ⟨k', h1, rfl⟩ := h
      have := ih h1; simp; omega

/-- flags of the parent matrix in terms of the child results -/
theorem any_zip_firstParent (U : List Val → Prop) (spec : List Row) (cf : List Bool) (i : Nat)
    (hcf : ∀ k, k < spec.length → (cf.getD k false = true ↔ ∃ us, U us ∧ firstMatch spec us = some k)) :
    (spec.zip cf).any (fun x => x.1.parent == i && x.2) = true ↔ ∃ us, U us ∧ firstParent spec us = some i := by
  rw [any_zip_iff]
  constructor
  · rintro ⟨k, r, h1, h2, h3⟩
    obtain ⟨hk, _⟩ := List.getElem?_eq_some_iff.1 h1
    obtain ⟨us, hU, hf⟩ := (hcf k hk).1 h3
    exact ⟨us, hU, (firstParent_eq_some spec us i).2 ⟨k, r, hf, h1, h2⟩⟩
  · rintro ⟨us, hU, hf⟩
    obtain ⟨k, r, h1, h2, h3⟩ := (firstParent_eq_some spec us i).1 hf
    exact ⟨k, r, h2, h3, (hcf k (firstMatch_lt h1)).2 ⟨us, hU, h1⟩⟩

/-! ## `ConstructorSet::split` -/

/-- every head constructor belongs to a well-formed, non-or pattern of the column type -/
def HeadsWT (env : EnumEnv) (T : Ty) (heads : List Ctor) : Prop :=
  ∀ c ∈ heads, ∃ p, patWT env p T = true ∧ p.ctor = c ∧ c.isOr = false

/-- `c` is a constructor of `T`: every well-typed field vector is the field vector of a value -/
def ValidCtor (env : EnumEnv) (T : Ty) (c : Ctor) : Prop :=
  ∀ fs, hasTys env fs (specTys env T c) = true →
    ∃ v0, hasTy env v0 T = true ∧ ctorOf T v0 = c ∧ fieldsOf env c v0 = fs

theorem mem_presentVariants (e n : Nat) (cs : List Ctor) (acc : List Nat) (i : Nat) :
    i ∈ presentVariants e n cs acc ↔ i ∈ acc ∨ (i < n ∧ Ctor.variant e i ∈ cs) := by
  induction cs generalizing acc with
  | nil => simp [presentVariants]
  | cons c cs ih =>
    cases c with
    | variant e' i' =>
      simp only [presentVariants]
      split
      · rename_i h
        simp only [Bool.and_eq_true, beq_iff_eq, decide_eq_true_eq, Bool.not_eq_true',
          List.contains_eq_mem, decide_eq_false_iff_not] at h
        obtain ⟨⟨he, hn⟩, hacc⟩ := h
        subst he
        rw [ih]
        simp only [List.mem_cons, Ctor.variant.injEq, true_and]
        constructor
        · rintro ((h | h) | h)
          · subst h; exact Or.inr ⟨hn, Or.inl rfl⟩
          · exact Or.inl h
          · exact Or.inr ⟨h.1, Or.inr h.2⟩
        · rintro (h | ⟨h1, (h | h)⟩)
          · exact Or.inl (Or.inr h)
          · subst h; exact Or.inl (Or.inl rfl)
          · exact Or.inr ⟨h1, h⟩
      · rename_i h
        rw [ih]
        simp only [List.mem_cons, Ctor.variant.injEq]
        constructor
        · rintro (h' | h'); exact Or.inl h'; exact Or.inr ⟨h'.1, Or.inr h'.2⟩
        · rintro (h' | ⟨h1, (⟨h2, h3⟩ | h2)⟩)
          · exact Or.inl h'
          · subst h2 h3
            simp only [Bool.and_eq_true, beq_iff_eq, decide_eq_true_eq, Bool.not_eq_true',
              List.contains_eq_mem, decide_eq_false_iff_not, true_and, not_and, Decidable.not_not] at h
            exact Or.inl (h h1)
          · exact Or.inr ⟨h1, h2⟩
    | _ => simp [presentVariants, ih]

/-- something bigger than every literal among the head constructors -/
def litBound : List Ctor → Nat
  | [] => 0
  | .int i :: cs => max i.natAbs (litBound cs)
  | .float f :: cs => max f (litBound cs)
  | .str s :: cs => max s.length (litBound cs)
  | _ :: cs => litBound cs

theorem litBound_int {cs : List Ctor} {i : Int} (h : Ctor.int i ∈ cs) : i.natAbs ≤ litBound cs := by
  induction cs with
  | nil => simp at h
  | cons c cs ih =>
    simp only [List.mem_cons] at h
    cases h with
    | inl h => subst h; simp [litBound]; omega
    | inr h => have := ih h; cases c <;> simp [litBound] <;> omega

theorem litBound_float {cs : List Ctor} {f : Nat} (h : Ctor.float f ∈ cs) : f ≤ litBound cs := by
  induction cs with
  | nil => simp at h
  | cons c cs ih =>
    simp only [List.mem_cons] at h
    cases h with
    | inl h => subst h; simp [litBound]; omega
    | inr h => have := ih h; cases c <;> simp [litBound] <;> omega

theorem litBound_str {cs : List Ctor} {s : List UInt8} (h : Ctor.str s ∈ cs) : s.length ≤ litBound cs := by
  induction cs with
  | nil => simp at h
  | cons c cs ih =>
    simp only [List.mem_cons] at h
    cases h with
    | inl h => subst h; simp [litBound]; omega
    | inr h => have := ih h; cases c <;> simp [litBound] <;> omega

/-- an unlistable type always has a value whose constructor is not among the heads -/
theorem fresh_unlistable (env : EnumEnv) (T : Ty) (heads : List Ctor)
    (hT : T = .int ∨ T = .float ∨ T = .string) : ∃ v0, hasTy env v0 T = true ∧ ctorOf T v0 ∉ heads := by
  rcases hT with h | h | h <;> subst h
  · refine ⟨.int ((litBound heads + 1 : Nat) : Int), by simp [hasTy], ?_⟩
    intro hm; have := litBound_int hm; simp only [ctorOf] at *; omega
  · refine ⟨.float (litBound heads + 1), by simp [hasTy], ?_⟩
    intro hm; have := litBound_float hm; simp only [ctorOf] at *; omega
  · refine ⟨.str (List.replicate (litBound heads + 1) 0), by simp [hasTy], ?_⟩
    intro hm; have := litBound_str hm; simp at this; omega

theorem hasTys_nil {env : EnumEnv} {fs : List Val} (h : hasTys env fs [] = true) : fs = [] := by
  cases fs <;> simp_all [hasTys]

theorem variantFields_isSome (env : EnumEnv) (e i : Nat) : (variantFields env e i).isSome = true ↔ i < (env e).length := by
  simp [variantFields]

theorem hasTy_variant {env : EnumEnv} {e i : Nat} {pl : Val} :
    hasTy env (.variant i pl) (.enum e) = true ↔
      (variantFields env e i).isSome = true ∧ hasTy env pl (dataTy env e i) = true := by
  simp only [hasTy, dataTy]
  cases variantFields env e i <;> simp [dataTyOpt]

theorem isVoid_eq {T : Ty} (h : T.isVoid = true) : T = .void := by
  cases T <;> simp_all [Ty.isVoid]

theorem split_present_valid {env : EnumEnv} {T : Ty} {heads : List Ctor} (hw : HeadsWT env T heads) {c : Ctor}
    (hc : c ∈ (split (ctorsForTy env T) heads).1) (hnw : c.isWild = false) : ValidCtor env T c := by
  have hprod : ∀ T', (T' = .void ∨ (∃ ts, T' = .tuple ts) ∨ ∃ id ts, T' = .struct id ts) →
      ValidCtor env T' .product := by
    intro T' hT' fs hfs
    rcases hT' with h | ⟨ts, h⟩ | ⟨id, ts, h⟩ <;> subst h
    · have := hasTys_nil (by simpa [specTys, productTys] using hfs); subst this
      exact ⟨.prod [], by simp [hasTy], rfl, rfl⟩
    · exact ⟨.prod fs, by cases fs <;> simpa [hasTy, specTys, productTys] using hfs, rfl, rfl⟩
    · exact ⟨.prod fs, by cases fs <;> simpa [hasTy, specTys, productTys] using hfs, rfl, rfl⟩
  have hlit : ∀ c', c' ∈ heads → c'.isWild = false →
      (T = .int ∨ T = .float ∨ T = .string) → ValidCtor env T c' := by
    intro c' hc' hnw' hT fs hfs
    obtain ⟨p, hp, hpc, hor⟩ := hw c' hc'
    obtain ⟨pc, pfs, pty⟩ := p
    simp only [DPat.ctor] at hpc; subst hpc
    rcases hT with h | h | h <;> subst h <;> cases pc <;>
      simp_all [patWT, Ctor.isWild, Ctor.isOr, specTys]
    all_goals (have := hasTys_nil hfs; subst this)
    · rename_i i; exact ⟨.int i, by simp [hasTy], rfl, rfl⟩
    · rename_i i; exact ⟨.float i, by simp [hasTy], rfl, rfl⟩
    · rename_i i; exact ⟨.str i, by simp [hasTy], rfl, rfl⟩
  cases T with
  | bool =>
    simp only [ctorsForTy, split] at hc
    have : c = .bool false ∨ c = .bool true := by
      simp only [List.mem_append] at hc
      rcases hc with hc | hc <;> split at hc <;> simp_all
    intro fs hfs
    rcases this with h | h <;> subst h
    · have := hasTys_nil (by simpa [specTys] using hfs); subst this
      exact ⟨.bool false, by simp [hasTy], rfl, rfl⟩
    · have := hasTys_nil (by simpa [specTys] using hfs); subst this
      exact ⟨.bool true, by simp [hasTy], rfl, rfl⟩
  | void =>
    simp only [ctorsForTy, split] at hc
    split at hc <;> simp_all
  | tuple ts =>
    simp only [ctorsForTy, split] at hc
    split at hc <;> simp_all
  | struct id ts =>
    simp only [ctorsForTy, split] at hc
    split at hc <;> simp_all
  | int => exact hlit c (by simpa [ctorsForTy, split] using hc) hnw (Or.inl rfl)
  | float => exact hlit c (by simpa [ctorsForTy, split] using hc) hnw (Or.inr (Or.inl rfl))
  | string => exact hlit c (by simpa [ctorsForTy, split] using hc) hnw (Or.inr (Or.inr rfl))
  | enum e =>
    simp only [ctorsForTy, split, List.mem_map] at hc
    obtain ⟨i, hi, rfl⟩ := hc
    have hin : i < (env e).length := by
      rcases (mem_presentVariants e _ heads [] i).1 hi with h | h
      · simp at h
      · exact h.1
    intro fs hfs
    simp only [specTys] at hfs
    by_cases hv : (dataTy env e i).isVoid = true
    · simp only [hv, if_true] at hfs
      have := hasTys_nil hfs; subst this
      refine ⟨.variant i (.prod []), ?_, rfl, ?_⟩
      · rw [hasTy_variant, variantFields_isSome, isVoid_eq hv]; exact ⟨hin, by simp [hasTy]⟩
      · simp [fieldsOf, variantArity_eq, hv]
    · simp only [hv] at hfs
      cases fs with
      | nil => simp [hasTys] at hfs
      | cons pl rest =>
        cases rest with
        | cons _ _ => simp [hasTys] at hfs
        | nil =>
          have hpl : hasTy env pl (dataTy env e i) = true := by simpa [hasTys] using hfs
          refine ⟨.variant i pl, ?_, rfl, ?_⟩
          · rw [hasTy_variant, variantFields_isSome]; exact ⟨hin, hpl⟩
          · simp [fieldsOf, variantArity_eq, hv]

/-- every value's constructor is present, or the default class is processed -/
theorem split_cover {env : EnumEnv} {T : Ty} {heads : List Ctor} {v0 : Val} (hv : hasTy env v0 T = true) :
    ctorOf T v0 ∈ (split (ctorsForTy env T) heads).1 ∨
      (ctorOf T v0 ∉ heads ∧
        ((split (ctorsForTy env T) heads).2 ≠ [] ∨ ∃ c ∈ (split (ctorsForTy env T) heads).1, c.isWild = true)) := by
  have hunl : ∀ c, (ctorsForTy env T = .unlistable) → c ∈ (split (ctorsForTy env T) heads).1 ∨
      (c ∉ heads ∧ ((split (ctorsForTy env T) heads).2 ≠ [] ∨
        ∃ c ∈ (split (ctorsForTy env T) heads).1, c.isWild = true)) := by
    intro c hT
    rw [hT]; simp only [split]
    by_cases hc : c ∈ heads
    · exact Or.inl hc
    · refine Or.inr ⟨hc, ?_⟩
      by_cases hw : heads.any Ctor.isWild = true
      · right; simpa using hw
      · left; simp [hw]
  cases v0 with
  | bool b =>
    cases T <;> simp [hasTy] at hv
    simp only [ctorsForTy, split, ctorOf]
    by_cases hb : Ctor.bool b ∈ heads
    · left; cases b <;> simp_all
    · right; refine ⟨hb, Or.inl ?_⟩; cases b <;> simp_all
  | int i => cases T <;> simp [hasTy] at hv; exact hunl _ rfl
  | float i => cases T <;> simp [hasTy] at hv; exact hunl _ rfl
  | str i => cases T <;> simp [hasTy] at hv; exact hunl _ rfl
  | prod vs =>
    have : ctorsForTy env T = .product := by
      cases T <;> cases vs <;> simp_all [hasTy, ctorsForTy]
    rw [this]; simp only [split, ctorOf]
    cases heads <;> simp
  | variant i pl =>
    cases T <;> simp [hasTy] at hv
    rename_i e
    have hv' : hasTy env (.variant i pl) (.enum e) = true := by simpa [hasTy] using hv
    rw [hasTy_variant, variantFields_isSome] at hv'
    simp only [ctorsForTy, split, ctorOf, List.mem_map]
    by_cases hc : Ctor.variant e i ∈ heads
    · left; exact ⟨i, (mem_presentVariants e _ heads [] i).2 (Or.inr ⟨hv'.1, hc⟩), rfl⟩
    · right; refine ⟨hc, Or.inl ?_⟩
      intro hnil
      have : Ctor.variant e i ∈ ((List.range (env e).length).filter
          (fun j => !(presentVariants e (env e).length heads []).contains j)).map (Ctor.variant e) := by
        refine List.mem_map.2 ⟨i, List.mem_filter.2 ⟨List.mem_range.2 hv'.1, ?_⟩, rfl⟩
        simp only [Bool.not_eq_true', List.contains_eq_mem, decide_eq_false_iff_not]
        intro hm
        rcases (mem_presentVariants e _ heads [] i).1 hm with h | h
        · simp at h
        · exact hc h.2
      rw [hnil] at this; simp at this

/-- a missing constructor has a value outside the head constructors that its witness pattern covers -/
theorem split_missing {env : EnumEnv} (hinh : ∀ T, ∃ v, hasTy env v T = true) {T : Ty} {heads : List Ctor}
    {m : Ctor} (hm : m ∈ (split (ctorsForTy env T) heads).2) :
    ∃ v0, hasTy env v0 T = true ∧ ctorOf T v0 ∉ heads ∧ dmatch (missingFromCtor env m T) v0 = true := by
  have hunl : (T = .int ∨ T = .float ∨ T = .string) → ctorsForTy env T = .unlistable →
      ∃ v0, hasTy env v0 T = true ∧ ctorOf T v0 ∉ heads ∧ dmatch (missingFromCtor env m T) v0 = true := by
    intro hT hc
    rw [hc] at hm; simp only [split] at hm
    split at hm <;> simp at hm
    subst hm
    obtain ⟨v0, h1, h2⟩ := fresh_unlistable env T heads hT
    refine ⟨v0, h1, h2, ?_⟩
    rcases hT with h | h | h <;> subst h <;> simp [missingFromCtor, dmatch]
  have hprod : ctorsForTy env T = .product →
      ∃ v0, hasTy env v0 T = true ∧ ctorOf T v0 ∉ heads ∧ dmatch (missingFromCtor env m T) v0 = true := by
    intro hc
    rw [hc] at hm; simp only [split] at hm
    split at hm <;> simp at hm
    rename_i hempty
    subst hm
    have hnil : heads = [] := by simpa using hempty
    subst hnil
    obtain ⟨v0, hv0⟩ := hinh T
    refine ⟨v0, hv0, by simp, ?_⟩
    cases T <;> (try (simp [ctorsForTy] at hc; done)) <;> cases v0 <;> (try (simp [hasTy] at hv0; done))
    · rename_i vs; cases vs <;> simp_all [hasTy, missingFromCtor, dmatch, dmatchAll]
    · rename_i ts vs
      have hv0' : hasTys env vs ts = true := by cases vs <;> simpa [hasTy] using hv0
      simp only [missingFromCtor, dmatch]
      exact dmatchAll_wilds _ _ _ (hasTys_length hv0').symm
    · rename_i id ts vs
      have hv0' : hasTys env vs ts = true := by cases vs <;> simpa [hasTy] using hv0
      simp only [missingFromCtor, dmatch, beq_self_eq_true, if_true]
      exact dmatchAll_wilds _ _ _ (hasTys_length hv0').symm
  cases T with
  | bool =>
    simp only [ctorsForTy, split, List.mem_append] at hm
    have : ∃ b, m = .bool b ∧ Ctor.bool b ∉ heads := by
      rcases hm with hm | hm <;> split at hm <;> simp_all
    obtain ⟨b, rfl, hb⟩ := this
    exact ⟨.bool b, by simp [hasTy], hb, by simp [missingFromCtor, dmatch]⟩
  | void => exact hprod rfl
  | tuple ts => exact hprod rfl
  | struct id ts => exact hprod rfl
  | int => exact hunl (Or.inl rfl) rfl
  | float => exact hunl (Or.inr (Or.inl rfl)) rfl
  | string => exact hunl (Or.inr (Or.inr rfl)) rfl
  | enum e =>
    simp only [ctorsForTy, split, List.mem_map, List.mem_filter, List.mem_range] at hm
    obtain ⟨i, ⟨hi, hnp⟩, rfl⟩ := hm
    obtain ⟨pl, hpl⟩ := hinh (dataTy env e i)
    refine ⟨.variant i pl, ?_, ?_, ?_⟩
    · rw [hasTy_variant, variantFields_isSome]; exact ⟨hi, hpl⟩
    · simp only [ctorOf]
      intro hc
      have := (mem_presentVariants e _ heads [] i).2 (Or.inr ⟨hi, hc⟩)
      simp_all
    · simp only [missingFromCtor]
      split <;> simp [dmatch, dmatchAll, wildOf]

/-- a wildcard among the present constructors: the type is unlistable, so a fresh value exists -/
theorem split_wild {env : EnumEnv} {T : Ty} {heads : List Ctor} (hw : HeadsWT env T heads) {c : Ctor}
    (hc : c ∈ (split (ctorsForTy env T) heads).1) (hcw : c.isWild = true) :
    c.isNonExh = false ∧ c ∈ heads ∧ ∃ v0, hasTy env v0 T = true ∧ ctorOf T v0 ∉ heads := by
  have hunl : (T = .int ∨ T = .float ∨ T = .string) → ctorsForTy env T = .unlistable →
      c.isNonExh = false ∧ c ∈ heads ∧ ∃ v0, hasTy env v0 T = true ∧ ctorOf T v0 ∉ heads := by
    intro hT hcT
    rw [hcT] at hc; simp only [split] at hc
    refine ⟨?_, hc, fresh_unlistable env T heads hT⟩
    obtain ⟨p, hp, hpc, _⟩ := hw c hc
    obtain ⟨pc, pfs, pty⟩ := p
    simp only [DPat.ctor] at hpc; subst hpc
    cases pc <;> simp [Ctor.isWild] at hcw
    rename_i r
    cases r <;> simp_all [patWT, Ctor.isNonExh]
  cases T with
  | bool =>
    simp only [ctorsForTy, split, List.mem_append] at hc
    rcases hc with hc | hc <;> split at hc <;> simp_all [Ctor.isWild]
  | void => simp only [ctorsForTy, split] at hc; split at hc <;> simp_all [Ctor.isWild]
  | tuple ts => simp only [ctorsForTy, split] at hc; split at hc <;> simp_all [Ctor.isWild]
  | struct id ts => simp only [ctorsForTy, split] at hc; split at hc <;> simp_all [Ctor.isWild]
  | int => exact hunl (Or.inl rfl) rfl
  | float => exact hunl (Or.inr (Or.inl rfl)) rfl
  | string => exact hunl (Or.inr (Or.inr rfl)) rfl
  | enum e =>
    simp only [ctorsForTy, split, List.mem_map] at hc
    obtain ⟨i, _, rfl⟩ := hc
    simp [Ctor.isWild] at hcw

/-! ## Matrices: well-formedness and the two class lemmas -/

def rowsWT (env : EnumEnv) (Ts : List Ty) (rows : List Row) : Prop :=
  ∀ r ∈ rows, patsWT env r.pats Ts = true

def noOrHeads (rows : List Row) : Prop := ∀ r ∈ rows, r.headCtor.isOr = false

theorem row_cons_of_WT {env : EnumEnv} {T : Ty} {Ts : List Ty} {r : Row}
    (h : patsWT env r.pats (T :: Ts) = true) :
    ∃ p ps, r.pats = p :: ps ∧ patWT env p T = true ∧ patsWT env ps Ts = true := by
  cases hp : r.pats with
  | nil => simp [hp, patsWT] at h
  | cons p ps =>
    simp only [hp, patsWT, Bool.and_eq_true] at h
    exact ⟨p, ps, rfl, h.1, h.2⟩

theorem headsWT_of_rows {env : EnumEnv} {T : Ty} {Ts : List Ty} {rows : List Row}
    (hwt : rowsWT env (T :: Ts) rows) (hno : noOrHeads rows) : HeadsWT env T (rows.map Row.headCtor) := by
  intro c hc
  obtain ⟨r, hr, rfl⟩ := List.mem_map.1 hc
  obtain ⟨p, ps, hp, hpw, _⟩ := row_cons_of_WT (hwt r hr)
  refine ⟨p, hpw, by simp [Row.headCtor, hp], hno r hr⟩

theorem firstParent_none_iff (spec : List Row) (us : List Val) :
    firstParent spec us = none ↔ firstMatch spec us = none := by
  induction spec with
  | nil => simp [firstParent, firstMatch]
  | cons r rs ih =>
    rw [firstParent_cons, firstMatch_cons]
    by_cases hm : dmatchAll r.pats us = true <;> simp [hm, ih]

/-- class of the value's own constructor -/
theorem class_real {env : EnumEnv} {T : Ty} {Ts : List Ty} {rows : List Row}
    (hwt : rowsWT env (T :: Ts) rows) (hno : noOrHeads rows) {v0 : Val} (vs : List Val)
    (hv0 : hasTy env v0 T = true) :
    firstParent (specialize env (ctorOf T v0) ((ctorOf T v0).arity env T) rows)
      (fieldsOf env (ctorOf T v0) v0 ++ vs) = firstMatch rows (v0 :: vs) := by
  have := specializeAux_first env (ctorOf T v0) ((ctorOf T v0).arity env T) rows (v0 :: vs)
    (fieldsOf env (ctorOf T v0) v0 ++ vs) ?_ 0
  · simpa [specialize] using this
  · intro r hr k
    obtain ⟨p, ps, hp, hpw, _⟩ := row_cons_of_WT (hwt r hr)
    have ho : p.ctor.isOr = false := by have := hno r hr; simpa [Row.headCtor, hp] using this
    rw [hp, row_specialize ps vs hpw hv0 ho]
    simp [Row.headCtor, popHead, hp]

/-- class of the values no constructor pattern of the column matches (default matrix) -/
theorem class_default {env : EnumEnv} {T : Ty} {Ts : List Ty} {rows : List Row}
    (hwt : rowsWT env (T :: Ts) rows) (hno : noOrHeads rows) {v0 : Val} (vs : List Val)
    (hv0 : hasTy env v0 T = true) (hfresh : ctorOf T v0 ∉ rows.map Row.headCtor) (r : WReason) :
    firstParent (specialize env (.wild r) ((Ctor.wild r).arity env T) rows) vs = firstMatch rows (v0 :: vs) := by
  have := specializeAux_first env (.wild r) ((Ctor.wild r).arity env T) rows (v0 :: vs) vs ?_ 0
  · simpa [specialize] using this
  · intro row hr k
    obtain ⟨p, ps, hp, hpw, _⟩ := row_cons_of_WT (hwt row hr)
    have ho : p.ctor.isOr = false := by have := hno row hr; simpa [Row.headCtor, hp] using this
    rw [hp, row_default (env := env) (T := T) ps vs r]
    · simp [Row.headCtor, popHead, hp]
    · intro hw
      cases hm : dmatch p v0 with
      | false => rfl
      | true =>
        exfalso; apply hfresh
        rw [← ctor_of_dmatch hpw hv0 hm hw ho]
        exact List.mem_map.2 ⟨row, hr, by simp [Row.headCtor, hp]⟩

theorem rowsWT_specialize {env : EnumEnv} {T : Ty} {Ts : List Ty} {rows : List Row}
    (hwt : rowsWT env (T :: Ts) rows) (hno : noOrHeads rows) (c : Ctor) :
    rowsWT env (specTys env T c ++ Ts) (specialize env c (c.arity env T) rows) := by
  suffices h : ∀ off, rowsWT env (specTys env T c ++ Ts) (specializeAux env c (c.arity env T) off rows) from h 0
  induction rows with
  | nil => intro off r hr; simp [specializeAux] at hr
  | cons row rs ih =>
    intro off r hr
    have ih' := ih (fun r hr => hwt r (List.mem_cons_of_mem _ hr)) (fun r hr => hno r (List.mem_cons_of_mem _ hr))
    rw [specializeAux] at hr
    split at hr
    · rename_i hcov
      simp only [List.mem_cons] at hr
      rcases hr with hr | hr
      · subst hr
        obtain ⟨p, ps, hp, hpw, hpsw⟩ := row_cons_of_WT (hwt row (List.mem_cons_self ..))
        have ho : p.ctor.isOr = false := by
          have := hno row (List.mem_cons_self ..); simpa [Row.headCtor, hp] using this
        simp only [popHead, hp]
        exact patsWT_specialize hpw hpsw ho (by simpa [Row.headCtor, hp] using hcov)
      · exact ih' _ r hr
    · exact ih' _ r hr

theorem rowsWT_specializeOr {env : EnumEnv} {T : Ty} {Ts : List Ty} {rows : List Row}
    (hwt : rowsWT env (T :: Ts) rows) : rowsWT env (T :: Ts) (specializeOr rows) := by
  suffices h : ∀ off, rowsWT env (T :: Ts) (specializeOrAux off rows) from h 0
  induction rows with
  | nil => intro off r hr; simp [specializeOrAux] at hr
  | cons row rs ih =>
    intro off r hr
    rw [specializeOrAux, List.mem_append] at hr
    rcases hr with hr | hr
    · obtain ⟨e, he, rfl⟩ := List.mem_map.1 hr
      obtain ⟨p, ps, hp, hpw, hpsw⟩ := row_cons_of_WT (hwt row (List.mem_cons_self ..))
      simp only [expandOrRow, hp, List.mem_map] at he
      obtain ⟨h, hh, rfl⟩ := he
      simp [patsWT, (wt_expandPat env p T hpw h hh).1, hpsw]
    · exact ih (fun r hr => hwt r (List.mem_cons_of_mem _ hr)) _ r hr

/-! ## The invariant of `compute_exhaustiveness_and_usefulness` -/

/-- what the result of the algorithm on `(Ts, rows)` means: a row is flagged useful exactly when
    some well-typed value vector reaches it first; no witnesses ⇒ every vector matches a row; every
    witness (a stack: last element = first column) covers a well-typed vector that matches no row -/
structure Good (env : EnumEnv) (Ts : List Ty) (rows : List Row) (res : Result) : Prop where
  len : res.1.length = rows.length
  useful : ∀ i, i < rows.length →
    (res.1.getD i false = true ↔ ∃ vs, hasTys env vs Ts = true ∧ firstMatch rows vs = some i)
  exh : res.2 = [] → ∀ vs, hasTys env vs Ts = true → firstMatch rows vs ≠ none
  wit : ∀ w ∈ res.2, ∃ vs, hasTys env vs Ts = true ∧ firstMatch rows vs = none ∧ dmatchAll w.reverse vs = true

theorem patsWT_nil {env : EnumEnv} {ps : List DPat} (h : patsWT env ps [] = true) : ps = [] := by
  cases ps <;> simp_all [patsWT]

theorem good_base {env : EnumEnv} {rows : List Row} (hwt : rowsWT env [] rows) :
    Good env [] rows (baseFlags rows.length, if rows.isEmpty then [[]] else []) := by
  have hfm : ∀ vs, hasTys env vs [] = true → firstMatch rows vs = if rows.isEmpty then none else some 0 := by
    intro vs hvs
    have := hasTys_nil hvs; subst this
    cases rows with
    | nil => simp [firstMatch]
    | cons r rs =>
      have := patsWT_nil (hwt r (List.mem_cons_self ..))
      simp [firstMatch_cons, this, dmatchAll]
  refine ⟨by simp [baseFlags], ?_, ?_, ?_⟩
  · intro i hi
    have hne : rows.isEmpty = false := by cases rows <;> simp_all
    have hg : (baseFlags rows.length).getD i false = (i == 0) := by
      simp [baseFlags, List.getD_eq_getElem?_getD, hi]
    rw [hg]
    constructor
    · intro h
      have : i = 0 := by simpa using h
      subst this
      exact ⟨[], by simp [hasTys], by rw [hfm [] (by simp [hasTys]), hne]; simp⟩
    · rintro ⟨vs, hvs, hf⟩
      rw [hfm vs hvs, hne] at hf
      simp at hf; simp [hf]
  · intro hw vs hvs
    rw [hfm vs hvs]
    cases rows <;> simp_all
  · intro w hw
    cases rows with
    | nil =>
      simp at hw; subst hw
      exact ⟨[], by simp [hasTys], by simp [firstMatch], by simp [dmatchAll]⟩
    | cons r rs => simp at hw

theorem good_or {env : EnumEnv} {T : Ty} {Ts : List Ty} {rows : List Row} {cf : List Bool}
    {w : List (List DPat)} (h : Good env (T :: Ts) (specializeOr rows) (cf, w)) :
    Good env (T :: Ts) rows (unspecialize (List.replicate rows.length false) (specializeOr rows) cf, w) := by
  have hfp : ∀ vs, firstParent (specializeOr rows) vs = firstMatch rows vs := by
    intro vs; have := specializeOrAux_first rows vs 0; simpa [specializeOr] using this
  refine ⟨by simp [unspecialize_length], ?_, ?_, ?_⟩
  · intro i hi
    simp only []
    rw [unspecialize_getD]
    have hrep : (List.replicate rows.length false).getD i false = false := by
      simp [List.getD_eq_getElem?_getD, hi]
    simp only [List.length_replicate, hi, decide_true, Bool.true_and, hrep, Bool.false_or]
    have := any_zip_firstParent (fun vs => hasTys env vs (T :: Ts) = true) (specializeOr rows) cf i
      (fun k hk => h.useful k hk)
    rw [this]
    simp only [hfp]
  · intro hw vs hvs
    have := h.exh hw vs hvs
    rw [← hfp, Ne, firstParent_none_iff]; exact this
  · intro w' hw'
    obtain ⟨vs, h1, h2, h3⟩ := h.wit w' hw'
    refine ⟨vs, h1, ?_, h3⟩
    rw [← hfp, firstParent_none_iff]; exact h2

/-! ## The constructor loop -/

/-- what one loop iteration does to the child witnesses -/
def transform (env : EnumEnv) (c : Ctor) (arity : Nat) (missing : List Ctor) (T : Ty) (W : List (List DPat)) :
    List (List DPat) :=
  if c.isNonExh then applyMissing env missing T W else applyConstructor c arity T W

theorem mem_transform {env : EnumEnv} {c : Ctor} {a : Nat} {missing : List Ctor} {T : Ty} {W : List (List DPat)} {w1 : List DPat} :
    w1 ∈ transform env c a missing T W ↔ ∃ w0 ∈ W, w1 ∈ transform env c a missing T [w0] := by
  unfold transform
  split
  · unfold applyMissing
    split
    · simp
    · simp only [List.mem_flatMap, List.mem_map, List.mem_singleton]
      constructor
      · rintro ⟨m, hm, w0, hw0, rfl⟩; exact ⟨w0, hw0, m, hm, w0, rfl, rfl⟩
      · rintro ⟨w0, hw0, m, hm, w0', rfl, rfl⟩; exact ⟨m, hm, w0', hw0, rfl⟩
  · simp only [applyConstructor, List.mem_map, List.map_cons, List.map_nil, List.mem_singleton]
    constructor <;> rintro ⟨w0, h, h'⟩ <;> exact ⟨w0, h, h'.symm⟩

theorem transform_nil {env : EnumEnv} {c : Ctor} {a : Nat} {missing : List Ctor} {T : Ty} {W : List (List DPat)}
    (h : transform env c a missing T W = []) : W = [] := by
  unfold transform at h
  split at h
  · unfold applyMissing at h
    split at h
    · exact h
    · rename_i hne
      cases missing with
      | nil => simp at hne
      | cons m ms =>
        simp only [List.flatMap_cons, List.append_eq_nil_iff, List.map_eq_nil_iff] at h
        exact h.1
  · simpa [applyConstructor] using h

theorem hasTys_split {env : EnumEnv} {us : List Val} {x y : List Ty} (h : hasTys env us (x ++ y) = true) :
    hasTys env (us.take x.length) x = true ∧ hasTys env (us.drop x.length) y = true := by
  have hl := hasTys_length h
  rw [List.length_append] at hl
  have := hasTys_append env (us.take x.length) (us.drop x.length) x y (by simp; omega)
  rw [List.take_append_drop, h] at this
  simpa using this.symm

theorem dmatchAll_nil_left {vs : List Val} (h : dmatchAll [] vs = true) : vs = [] := by
  cases vs <;> simp_all [dmatchAll]

theorem dmatchAll_nil_right {ps : List DPat} (h : dmatchAll ps [] = true) : ps = [] := by
  cases ps <;> simp_all [dmatchAll]

/-- the witness head `ctor(fields)` covers the value built from fields the field patterns cover -/
theorem dmatch_ctor_fields {env : EnumEnv} {T : Ty} {v0 : Val} (F : List DPat) (ty : Ty)
    (hw : (ctorOf T v0).isWild = false)
    (hF : dmatchAll F (fieldsOf env (ctorOf T v0) v0) = true) :
    dmatch (.mk (ctorOf T v0) F ty) v0 = true := by
  cases v0 with
  | bool b => simp [ctorOf, dmatch]
  | int b => simp [ctorOf, dmatch]
  | float b => simp [ctorOf, dmatch]
  | str b => simp [ctorOf, dmatch]
  | prod vs => simpa [ctorOf, dmatch, fieldsOf] using hF
  | variant i pl =>
    cases T <;> simp only [ctorOf, dmatch, fieldsOf, beq_self_eq_true, Bool.true_and, Bool.or_eq_true,
      List.isEmpty_iff] at hF ⊢
    all_goals
      split at hF
      · exact Or.inl (dmatchAll_nil_right hF)
      · exact Or.inr hF

/-- every loop iteration is justified by one of the two class lemmas -/
structure CtorOK (env : EnumEnv) (T : Ty) (Ts : List Ty) (rows : List Row) (missing : List Ctor) (c : Ctor) : Prop where
  up : ∀ us, hasTys env us (specTys env T c ++ Ts) = true →
    ∃ vs, hasTys env vs (T :: Ts) = true ∧
      firstMatch rows vs = firstParent (specialize env c (c.arity env T) rows) us
  wit : ∀ us, hasTys env us (specTys env T c ++ Ts) = true → ∀ w0, dmatchAll w0.reverse us = true →
    ∀ w1 ∈ transform env c (c.arity env T) missing T [w0],
      ∃ vs, hasTys env vs (T :: Ts) = true ∧
        firstMatch rows vs = firstParent (specialize env c (c.arity env T) rows) us ∧
        dmatchAll w1.reverse vs = true

theorem ctorOK_real {env : EnumEnv} {T : Ty} {Ts : List Ty} {rows : List Row}
    (hwt : rowsWT env (T :: Ts) rows) (hno : noOrHeads rows) (missing : List Ctor) {c : Ctor}
    (hval : ValidCtor env T c) (hnw : c.isWild = false) : CtorOK env T Ts rows missing c := by
  have key : ∀ us, hasTys env us (specTys env T c ++ Ts) = true →
      ∃ v0, hasTy env v0 T = true ∧ ctorOf T v0 = c ∧
        fieldsOf env c v0 = us.take (c.arity env T) ∧
        hasTys env (v0 :: us.drop (c.arity env T)) (T :: Ts) = true ∧
        firstMatch rows (v0 :: us.drop (c.arity env T)) = firstParent (specialize env c (c.arity env T) rows) us := by
    intro us hus
    obtain ⟨h1, h2⟩ := hasTys_split hus
    rw [specTys_length] at h1 h2
    obtain ⟨v0, hv0, hc, hf⟩ := hval _ h1
    refine ⟨v0, hv0, hc, hf, by simp [hasTys, hv0, h2], ?_⟩
    have := class_real hwt hno (us.drop (c.arity env T)) hv0
    rw [hc, hf, List.take_append_drop] at this
    exact this.symm
  constructor
  · intro us hus
    obtain ⟨v0, _, _, _, h4, h5⟩ := key us hus
    exact ⟨_, h4, h5⟩
  · intro us hus w0 hw0 w1 hw1
    obtain ⟨v0, hv0, hc, hf, h4, h5⟩ := key us hus
    refine ⟨_, h4, h5, ?_⟩
    have hne : c.isNonExh = false := by cases c <;> simp_all [Ctor.isNonExh, Ctor.isWild]
    simp only [transform, hne, applyConstructor, List.map_cons, List.map_nil, List.mem_singleton,
      Bool.false_eq_true, if_false] at hw1
    subst hw1
    have hlen : w0.length = us.length := by simpa using dmatchAll_length hw0
    have hale : c.arity env T ≤ us.length := by
      have := hasTys_length hus; rw [List.length_append, specTys_length] at this; omega
    generalize c.arity env T = a at *
    have hrev : w0.reverse = (w0.drop (w0.length - a)).reverse ++ (w0.take (w0.length - a)).reverse := by
      rw [← List.reverse_append, List.take_append_drop]
    have hus' : us = us.take a ++ us.drop a := (List.take_append_drop a us).symm
    rw [hrev, hus', dmatchAll_append _ _ _ _ (by simp; omega), Bool.and_eq_true] at hw0
    simp only [List.reverse_append, List.reverse_cons, List.reverse_nil, List.nil_append, List.cons_append,
      dmatchAll, Bool.and_eq_true]
    refine ⟨?_, hw0.2⟩
    rw [← hc]
    apply dmatch_ctor_fields (env := env)
    · rw [hc]; exact hnw
    · rw [hc, hf]; exact hw0.1

theorem ctorOK_wild {env : EnumEnv} {T : Ty} {Ts : List Ty} {rows : List Row}
    (hwt : rowsWT env (T :: Ts) rows) (hno : noOrHeads rows) (missing : List Ctor) (r : WReason)
    (hne : (Ctor.wild r).isNonExh = false)
    {v0 : Val} (hv0 : hasTy env v0 T = true) (hfresh : ctorOf T v0 ∉ rows.map Row.headCtor) :
    CtorOK env T Ts rows missing (.wild r) := by
  have key : ∀ us, hasTys env us (specTys env T (.wild r) ++ Ts) = true →
      hasTys env (v0 :: us) (T :: Ts) = true ∧
        firstMatch rows (v0 :: us) = firstParent (specialize env (.wild r) ((Ctor.wild r).arity env T) rows) us := by
    intro us hus
    refine ⟨by simpa [hasTys, hv0, specTys] using hus, (class_default hwt hno us hv0 hfresh r).symm⟩
  constructor
  · intro us hus; exact ⟨_, (key us hus).1, (key us hus).2⟩
  · intro us hus w0 hw0 w1 hw1
    refine ⟨_, (key us hus).1, (key us hus).2, ?_⟩
    simp only [transform, hne, applyConstructor, Ctor.arity, List.map_cons, List.map_nil, List.mem_singleton,
      Bool.false_eq_true, if_false, Nat.sub_zero, List.take_length, List.drop_length, List.reverse_nil] at hw1
    subst hw1
    simp [dmatchAll, dmatch, hw0]

theorem ctorOK_nonExh {env : EnumEnv} (hinh : ∀ T, ∃ v, hasTy env v T = true) {T : Ty} {Ts : List Ty}
    {rows : List Row} (hwt : rowsWT env (T :: Ts) rows) (hno : noOrHeads rows)
    (hmne : (split (ctorsForTy env T) (rows.map Row.headCtor)).2 ≠ []) :
    CtorOK env T Ts rows (split (ctorsForTy env T) (rows.map Row.headCtor)).2 (.wild .nonExh) := by
  have key : ∀ m ∈ (split (ctorsForTy env T) (rows.map Row.headCtor)).2, ∀ us,
      hasTys env us (specTys env T (.wild .nonExh) ++ Ts) = true →
      ∃ v0, hasTys env (v0 :: us) (T :: Ts) = true ∧
        firstMatch rows (v0 :: us) =
          firstParent (specialize env (.wild .nonExh) ((Ctor.wild .nonExh).arity env T) rows) us ∧
        dmatch (missingFromCtor env m T) v0 = true := by
    intro m hm us hus
    obtain ⟨v0, hv0, hfresh, hmatch⟩ := split_missing hinh hm
    exact ⟨v0, by simpa [hasTys, hv0, specTys] using hus, (class_default hwt hno us hv0 hfresh _).symm, hmatch⟩
  constructor
  · intro us hus
    cases hm : (split (ctorsForTy env T) (rows.map Row.headCtor)).2 with
    | nil => exact absurd hm hmne
    | cons m ms =>
      obtain ⟨v0, h1, h2, _⟩ := key m (by rw [hm]; exact List.mem_cons_self ..) us hus
      exact ⟨_, h1, h2⟩
  · intro us hus w0 hw0 w1 hw1
    simp only [transform, Ctor.isNonExh, applyMissing, if_true] at hw1
    have hne : (split (ctorsForTy env T) (rows.map Row.headCtor)).2.isEmpty = false := by
      cases h : (split (ctorsForTy env T) (rows.map Row.headCtor)).2 <;> simp_all
    simp only [hne, Bool.false_eq_true, if_false, List.mem_flatMap, List.map_cons, List.map_nil,
      List.mem_singleton] at hw1
    obtain ⟨m, hm, rfl⟩ := hw1
    obtain ⟨v0, h1, h2, h3⟩ := key m hm us hus
    exact ⟨_, h1, h2, by simp [dmatchAll, h3, hw0]⟩

/-- loop invariant of `for ctor in present_ctors` -/
structure LoopInv (env : EnumEnv) (T : Ty) (Ts : List Ty) (rows : List Row) (done : List Ctor) (acc : Result) : Prop where
  len : acc.1.length = rows.length
  useful : ∀ i, i < rows.length →
    (acc.1.getD i false = true ↔ ∃ c ∈ done, ∃ us, hasTys env us (specTys env T c ++ Ts) = true ∧
      firstParent (specialize env c (c.arity env T) rows) us = some i)
  exh : acc.2 = [] → ∀ c ∈ done, ∀ us, hasTys env us (specTys env T c ++ Ts) = true →
    firstParent (specialize env c (c.arity env T) rows) us ≠ none
  wit : ∀ w ∈ acc.2, ∃ vs, hasTys env vs (T :: Ts) = true ∧ firstMatch rows vs = none ∧ dmatchAll w.reverse vs = true

theorem loop_init (env : EnumEnv) (T : Ty) (Ts : List Ty) (rows : List Row) :
    LoopInv env T Ts rows [] (List.replicate rows.length false, []) := by
  refine ⟨by simp, ?_, by simp, by simp⟩
  intro i hi
  simp [List.getD_eq_getElem?_getD, hi]

theorem loop_step {env : EnumEnv} {rec : List Ty → List Row → Option Result}
    (hrec : ∀ Ts' rows' res, rowsWT env Ts' rows' → rec Ts' rows' = some res → Good env Ts' rows' res)
    {T : Ty} {Ts : List Ty} {rows : List Row} (hwt : rowsWT env (T :: Ts) rows) (hno : noOrHeads rows)
    {missing : List Ctor} {c : Ctor} (hok : CtorOK env T Ts rows missing c) {done : List Ctor} {acc acc' : Result}
    (hinv : LoopInv env T Ts rows done acc)
    (hstep : stepCtor env rec T Ts rows missing acc c = some acc') :
    LoopInv env T Ts rows (done ++ [c]) acc' := by
  unfold stepCtor at hstep
  simp only [] at hstep
  cases hr : rec (specTys env T c ++ Ts) (specialize env c (c.arity env T) rows) with
  | none => simp [hr] at hstep
  | some res =>
    obtain ⟨cf, w⟩ := res
    simp only [hr, Option.some.injEq] at hstep
    subst hstep
    have G := hrec _ _ _ (rowsWT_specialize hwt hno c) hr
    have htr : (if c.isNonExh = true then applyMissing env missing T w else applyConstructor c (c.arity env T) T w) =
        transform env c (c.arity env T) missing T w := rfl
    rw [htr]
    refine ⟨by simp [unspecialize_length, hinv.len], ?_, ?_, ?_⟩
    · intro i hi
      simp only []
      rw [unspecialize_getD, Bool.or_eq_true, hinv.useful i hi]
      simp only [hinv.len, hi, decide_true, Bool.true_and]
      rw [any_zip_firstParent (fun us => hasTys env us (specTys env T c ++ Ts) = true) _ cf i
        (fun k hk => G.useful k hk)]
      simp only [List.mem_append, List.mem_singleton]
      constructor
      · rintro (⟨c', hc', h⟩ | h)
        · exact ⟨c', Or.inl hc', h⟩
        · exact ⟨c, Or.inr rfl, h⟩
      · rintro ⟨c', (hc' | hc'), h⟩
        · exact Or.inl ⟨c', hc', h⟩
        · subst hc'; exact Or.inr h
    · intro hnil c' hc' us hus
      simp only [List.append_eq_nil_iff] at hnil
      simp only [List.mem_append, List.mem_singleton] at hc'
      rcases hc' with hc' | hc'
      · exact hinv.exh hnil.1 c' hc' us hus
      · subst hc'
        have := G.exh (transform_nil hnil.2) us hus
        rw [Ne, firstParent_none_iff]; exact this
    · intro w1 hw1
      simp only [List.mem_append] at hw1
      rcases hw1 with hw1 | hw1
      · exact hinv.wit w1 hw1
      · obtain ⟨w0, hw0, hw1'⟩ := mem_transform.1 hw1
        obtain ⟨us, hus, hnone, hm⟩ := G.wit w0 hw0
        obtain ⟨vs, h1, h2, h3⟩ := hok.wit us hus w0 hm w1 hw1'
        refine ⟨vs, h1, ?_, h3⟩
        rw [h2, firstParent_none_iff]; exact hnone

theorem loop_all {env : EnumEnv} {rec : List Ty → List Row → Option Result}
    (hrec : ∀ Ts' rows' res, rowsWT env Ts' rows' → rec Ts' rows' = some res → Good env Ts' rows' res)
    {T : Ty} {Ts : List Ty} {rows : List Row} (hwt : rowsWT env (T :: Ts) rows) (hno : noOrHeads rows)
    {missing : List Ctor} (cs : List Ctor) (hok : ∀ c ∈ cs, CtorOK env T Ts rows missing c)
    {done : List Ctor} {acc res : Result} (hinv : LoopInv env T Ts rows done acc)
    (hfold : foldCtors (stepCtor env rec T Ts rows missing) acc cs = some res) :
    LoopInv env T Ts rows (done ++ cs) res := by
  induction cs generalizing done acc with
  | nil => simp only [foldCtors, Option.some.injEq] at hfold; subst hfold; simpa using hinv
  | cons c cs ih =>
    simp only [foldCtors] at hfold
    cases hs : stepCtor env rec T Ts rows missing acc c with
    | none => simp [hs] at hfold
    | some acc' =>
      simp only [hs] at hfold
      have := ih (fun c' hc' => hok c' (List.mem_cons_of_mem _ hc'))
        (loop_step hrec hwt hno (hok c (List.mem_cons_self ..)) hinv hs) hfold
      simpa using this

/-- the constructors the loop runs over -/
def presentCtors (env : EnumEnv) (T : Ty) (rows : List Row) : List Ctor :=
  let sp := split (ctorsForTy env T) (rows.map Row.headCtor)
  if sp.2.isEmpty then sp.1 else sp.1 ++ [.wild .nonExh]

theorem hasTys_cons {env : EnumEnv} {vs : List Val} {T : Ty} {Ts : List Ty} (h : hasTys env vs (T :: Ts) = true) :
    ∃ v0 vs', vs = v0 :: vs' ∧ hasTy env v0 T = true ∧ hasTys env vs' Ts = true := by
  cases vs with
  | nil => simp [hasTys] at h
  | cons v0 vs' =>
    simp only [hasTys, Bool.and_eq_true] at h
    exact ⟨v0, vs', rfl, h.1, h.2⟩

theorem ctorOK_all {env : EnumEnv} (hinh : ∀ T, ∃ v, hasTy env v T = true) {T : Ty} {Ts : List Ty}
    {rows : List Row} (hwt : rowsWT env (T :: Ts) rows) (hno : noOrHeads rows) :
    ∀ c ∈ presentCtors env T rows,
      CtorOK env T Ts rows (split (ctorsForTy env T) (rows.map Row.headCtor)).2 c := by
  have hheads := headsWT_of_rows hwt hno
  have h1 : ∀ c ∈ (split (ctorsForTy env T) (rows.map Row.headCtor)).1,
      CtorOK env T Ts rows (split (ctorsForTy env T) (rows.map Row.headCtor)).2 c := by
    intro c hc
    by_cases hw : c.isWild = true
    · obtain ⟨hne, _, v0, hv0, hfresh⟩ := split_wild hheads hc hw
      cases c <;> simp [Ctor.isWild] at hw
      exact ctorOK_wild hwt hno _ _ hne hv0 hfresh
    · exact ctorOK_real hwt hno _ (split_present_valid hheads hc (by simpa using hw)) (by simpa using hw)
  intro c hc
  unfold presentCtors at hc
  simp only [] at hc
  split at hc
  · exact h1 c hc
  · rename_i hne
    simp only [List.mem_append, List.mem_singleton] at hc
    rcases hc with hc | hc
    · exact h1 c hc
    · subst hc
      exact ctorOK_nonExh hinh hwt hno (by intro h; simp [h] at hne)

theorem cover_all {env : EnumEnv} {T : Ty} {Ts : List Ty} {rows : List Row}
    (hwt : rowsWT env (T :: Ts) rows) (hno : noOrHeads rows) {vs : List Val} (hvs : hasTys env vs (T :: Ts) = true) :
    ∃ c ∈ presentCtors env T rows, ∃ us, hasTys env us (specTys env T c ++ Ts) = true ∧
      firstParent (specialize env c (c.arity env T) rows) us = firstMatch rows vs := by
  obtain ⟨v0, vs', rfl, hv0, hvs'⟩ := hasTys_cons hvs
  have hsub : ∀ c ∈ (split (ctorsForTy env T) (rows.map Row.headCtor)).1, c ∈ presentCtors env T rows := by
    intro c hc; unfold presentCtors; simp only []; split <;> simp [hc]
  rcases split_cover (heads := rows.map Row.headCtor) hv0 with h | ⟨hfresh, h⟩
  · refine ⟨_, hsub _ h, fieldsOf env (ctorOf T v0) v0 ++ vs', ?_, class_real hwt hno vs' hv0⟩
    rw [hasTys_append _ _ _ _ _ (by rw [fieldsOf_length hv0, specTys_length]), hasTys_fieldsOf hv0, hvs']; rfl
  · rcases h with h | ⟨c, hc, hcw⟩
    · refine ⟨.wild .nonExh, ?_, vs', by simpa [specTys] using hvs', class_default hwt hno vs' hv0 hfresh _⟩
      unfold presentCtors; simp only []
      split
      · rename_i he; exact absurd (by simpa using he) h
      · simp
    · cases c <;> simp [Ctor.isWild] at hcw
      exact ⟨_, hsub _ hc, vs', by simpa [specTys] using hvs', class_default hwt hno vs' hv0 hfresh _⟩

theorem good_of_loop {env : EnumEnv} (hinh : ∀ T, ∃ v, hasTy env v T = true) {T : Ty} {Ts : List Ty}
    {rows : List Row} (hwt : rowsWT env (T :: Ts) rows) (hno : noOrHeads rows) {res : Result}
    (hinv : LoopInv env T Ts rows (presentCtors env T rows) res) : Good env (T :: Ts) rows res := by
  have hok := ctorOK_all (Ts := Ts) hinh hwt hno
  refine ⟨hinv.len, ?_, ?_, hinv.wit⟩
  · intro i hi
    rw [hinv.useful i hi]
    constructor
    · rintro ⟨c, hc, us, hus, hf⟩
      obtain ⟨vs, h1, h2⟩ := (hok c hc).up us hus
      exact ⟨vs, h1, by rw [h2, hf]⟩
    · rintro ⟨vs, hvs, hf⟩
      obtain ⟨c, hc, us, hus, h⟩ := cover_all hwt hno hvs
      exact ⟨c, hc, us, hus, by rw [h, hf]⟩
  · intro hnil vs hvs
    obtain ⟨c, hc, us, hus, h⟩ := cover_all hwt hno hvs
    rw [← h]; exact hinv.exh hnil c hc us hus

/-- **Main invariant**: whatever fuel the run had, a result is `Good` -/
theorem compute_good {env : EnumEnv} (hinh : ∀ T, ∃ v, hasTy env v T = true) (fuel : Nat) :
    ∀ Ts rows res, rowsWT env Ts rows → compute env fuel Ts rows = some res → Good env Ts rows res := by
  induction fuel with
  | zero => intro Ts rows res _ h; simp [compute] at h
  | succ fuel ih =>
    intro Ts rows res hwt h
    cases Ts with
    | nil =>
      simp only [compute, Option.some.injEq] at h
      subst h; exact good_base hwt
    | cons T Ts =>
      simp only [compute] at h
      split at h
      · -- an or-pattern at the head of some row
        cases hr : compute env fuel (T :: Ts) (specializeOr rows) with
        | none => simp [hr] at h
        | some r =>
          obtain ⟨cf, w⟩ := r
          simp only [hr, Option.some.injEq] at h
          subst h
          exact good_or (ih _ _ _ (rowsWT_specializeOr hwt) hr)
      · rename_i hor
        have hno : noOrHeads rows := by
          intro r hr
          cases hc : r.headCtor.isOr with
          | false => rfl
          | true => exact absurd (List.any_eq_true.2 ⟨r, hr, hc⟩) hor
        have hinv := loop_all ih hwt hno _ (ctorOK_all hinh hwt hno) (loop_init env T Ts rows) h
        exact good_of_loop hinh hwt hno (by simpa [presentCtors] using hinv)

/-! ## From the matrix to the arm list (`match_expr_exhaustive_check`) -/

theorem firstMatch_initRows (pats : List DPat) (v : Val) (off : Nat) :
    firstMatch (initRows off pats) [v] = pats.findIdx? (fun p => dmatch p v) := by
  induction pats generalizing off with
  | nil => simp [initRows, firstMatch]
  | cons p ps ih =>
    rw [initRows, firstMatch_cons, ih (off + 1), List.findIdx?_cons]
    simp [dmatchAll]

theorem initRows_length (pats : List DPat) (off : Nat) : (initRows off pats).length = pats.length := by
  induction pats generalizing off with
  | nil => simp [initRows]
  | cons p ps ih => simp [initRows, ih]

theorem rowsWT_initRows {env : EnumEnv} {ty : Ty} {pats : List DPat} (h : ∀ p ∈ pats, patWT env p ty = true)
    (off : Nat) : rowsWT env [ty] (initRows off pats) := by
  induction pats generalizing off with
  | nil => intro r hr; simp [initRows] at hr
  | cons p ps ih =>
    intro r hr
    simp only [initRows, List.mem_cons] at hr
    rcases hr with hr | hr
    · subst hr; simp [patsWT, h p (List.mem_cons_self ..)]
    · exact ih (fun q hq => h q (List.mem_cons_of_mem _ hq)) _ r hr

theorem hasTys_single {env : EnumEnv} {vs : List Val} {ty : Ty} (h : hasTys env vs [ty] = true) :
    ∃ v, vs = [v] ∧ hasTy env v ty = true := by
  obtain ⟨v, vs', rfl, hv, hvs'⟩ := hasTys_cons h
  have := hasTys_nil hvs'; subst this
  exact ⟨v, rfl, hv⟩

/-- meaning of the result of `checkD` (first match = `List.findIdx?` over the arms) -/
structure GoodCheck (env : EnumEnv) (ty : Ty) (pats : List DPat) (flags : List Bool) (wits : List DPat) : Prop where
  len : flags.length = pats.length
  useful : ∀ i, i < pats.length →
    (flags.getD i false = true ↔ ∃ v, hasTy env v ty = true ∧ pats.findIdx? (fun p => dmatch p v) = some i)
  exh : wits = [] → ∀ v, hasTy env v ty = true → pats.findIdx? (fun p => dmatch p v) ≠ none
  wit : ∀ w ∈ wits, ∃ v, hasTy env v ty = true ∧ pats.findIdx? (fun p => dmatch p v) = none ∧ dmatch w v = true

theorem checkD_good {env : EnumEnv} (hinh : ∀ T, ∃ v, hasTy env v T = true) {fuel : Nat} {ty : Ty}
    {pats : List DPat} (hwt : ∀ p ∈ pats, patWT env p ty = true) {flags : List Bool} {wits : List DPat}
    (h : checkD env fuel ty pats = some (flags, wits)) : GoodCheck env ty pats flags wits := by
  unfold checkD at h
  cases hc : compute env fuel [ty] (initRows 0 pats) with
  | none => simp [hc] at h
  | some res =>
    obtain ⟨fl, W⟩ := res
    simp only [hc, Option.some.injEq, Prod.mk.injEq] at h
    obtain ⟨rfl, rfl⟩ := h
    have G := compute_good hinh fuel _ _ _ (rowsWT_initRows hwt 0) hc
    have hW : ∀ w ∈ W, ∃ v w0, w = [w0] ∧ hasTy env v ty = true ∧
        pats.findIdx? (fun p => dmatch p v) = none ∧ dmatch w0 v = true := by
      intro w hw
      obtain ⟨vs, hvs, hnone, hm⟩ := G.wit w hw
      obtain ⟨v, rfl, hv⟩ := hasTys_single hvs
      rw [firstMatch_initRows] at hnone
      have hl := dmatchAll_length hm
      simp only [List.length_reverse, List.length_cons, List.length_nil] at hl
      match w, hl with
      | [w0], _ => exact ⟨v, w0, rfl, hv, hnone, by simpa [dmatchAll] using hm⟩
    refine ⟨by rw [G.len, initRows_length], ?_, ?_, ?_⟩
    · intro i hi
      rw [G.useful i (by rw [initRows_length]; exact hi)]
      constructor
      · rintro ⟨vs, hvs, hf⟩
        obtain ⟨v, rfl, hv⟩ := hasTys_single hvs
        exact ⟨v, hv, by rw [← firstMatch_initRows pats v 0]; exact hf⟩
      · rintro ⟨v, hv, hf⟩
        exact ⟨[v], by simp [hasTys, hv], by rw [firstMatch_initRows]; exact hf⟩
    · intro hnil v hv
      have hWnil : W = [] := by
        cases W with
        | nil => rfl
        | cons w ws =>
          obtain ⟨_, w0, rfl, _⟩ := hW w (List.mem_cons_self ..)
          simp at hnil
      have := G.exh hWnil [v] (by simp [hasTys, hv])
      rwa [firstMatch_initRows] at this
    · intro w0 hw0
      obtain ⟨w, hw, hh⟩ := List.mem_filterMap.1 hw0
      obtain ⟨v, w0', rfl, hv, hnone, hm⟩ := hW w hw
      simp at hh; subst hh
      exact ⟨v, hv, hnone, hm⟩

/-! ## `from_ast_pat`: well-formedness and meaning are preserved -/

theorem fromAst_ty (env : EnumEnv) (ty : Ty) (p : Pat) : (fromAst env ty p).ty = ty := by
  cases p <;> simp only [fromAst] <;> (try rfl)
  · split <;> rfl
  · split
    · split <;> rfl
    · rfl

theorem hasTy_void {env : EnumEnv} {v : Val} (h : hasTy env v .void = true) : v = .prod [] := by
  cases v <;> (try (simp [hasTy] at h; done))
  rename_i vs; cases vs <;> simp_all [hasTy]

theorem hasTy_prod_tuple {env : EnumEnv} {v : Val} {ts : List Ty} (h : hasTy env v (.tuple ts) = true) :
    ∃ vs, v = .prod vs ∧ hasTys env vs ts = true := by
  cases v <;> (try (simp [hasTy] at h; done))
  rename_i vs; exact ⟨vs, rfl, by cases vs <;> simpa [hasTy] using h⟩

theorem hasTy_prod_struct {env : EnumEnv} {v : Val} {id : Nat} {ts : List Ty}
    (h : hasTy env v (.struct id ts) = true) : ∃ vs, v = .prod vs ∧ hasTys env vs ts = true := by
  cases v <;> (try (simp [hasTy] at h; done))
  rename_i vs; exact ⟨vs, rfl, by cases vs <;> simpa [hasTy] using h⟩

theorem hasTy_enum {env : EnumEnv} {v : Val} {e : Nat} (h : hasTy env v (.enum e) = true) :
    ∃ i pl, v = .variant i pl ∧ (variantFields env e i).isSome = true ∧ hasTy env pl (dataTy env e i) = true := by
  cases v <;> (try (simp [hasTy] at h; done))
  rename_i i pl
  exact ⟨i, pl, rfl, hasTy_variant.1 h⟩

/-- a pattern of type `void` matches the only value of that type -/
theorem pmatch_void {env : EnumEnv} : ∀ (p : Pat), patTyped env p .void = true → pmatch p (.prod []) = true
  | .wild, _ => by simp [pmatch]
  | .bind _, _ => by simp [pmatch]
  | .void, _ => by simp [pmatch]
  | .or l r, h => by
    simp only [patTyped, Bool.and_eq_true] at h
    simp [pmatch, pmatch_void l h.1]
  | .bool _, h => by simp [patTyped] at h
  | .int _, h => by simp [patTyped] at h
  | .float _, h => by simp [patTyped] at h
  | .str _, h => by simp [patTyped] at h
  | .tuple _, h => by simp [patTyped] at h
  | .struct _ _, h => by simp [patTyped] at h
  | .variant0 _ _, h => by simp [patTyped] at h
  | .variantPos _ _ _, h => by simp [patTyped] at h
  | .variantNamed _ _ _, h => by simp [patTyped] at h

theorem dataTy_some {env : EnumEnv} {e i : Nat} {fs : List Ty} (h : variantFields env e i = some fs) :
    dataTy env e i = dataTyOfFields fs := by simp [dataTy, h, dataTyOpt]

mutual
  /-- `from_ast_pat` of a well-typed pattern is well-formed and means what the source pattern means -/
  theorem fromAst_ok (env : EnumEnv) (p : Pat) (ty : Ty) (ht : patTyped env p ty = true) :
      patWT env (fromAst env ty p) ty = true ∧
        ∀ v, hasTy env v ty = true → dmatch (fromAst env ty p) v = pmatch p v := by
    match p with
    | .wild => simp [fromAst, patWT, dmatch, pmatch]
    | .bind _ => simp [fromAst, patWT, dmatch, pmatch]
    | .bool b =>
      cases ty <;> simp [patTyped] at ht
      refine ⟨by simp [fromAst, patWT], fun v hv => ?_⟩
      cases v <;> simp [hasTy] at hv; simp [fromAst, dmatch, pmatch]
    | .int b =>
      cases ty <;> simp [patTyped] at ht
      refine ⟨by simp [fromAst, patWT], fun v hv => ?_⟩
      cases v <;> simp [hasTy] at hv; simp [fromAst, dmatch, pmatch]
    | .float b =>
      cases ty <;> simp [patTyped] at ht
      refine ⟨by simp [fromAst, patWT], fun v hv => ?_⟩
      cases v <;> simp [hasTy] at hv; simp [fromAst, dmatch, pmatch]
    | .str b =>
      cases ty <;> simp [patTyped] at ht
      refine ⟨by simp [fromAst, patWT], fun v hv => ?_⟩
      cases v <;> simp [hasTy] at hv; simp [fromAst, dmatch, pmatch]
    | .void =>
      cases ty <;> simp [patTyped] at ht
      refine ⟨by simp [fromAst, patWT], fun v hv => ?_⟩
      have := hasTy_void hv; subst this
      simp [fromAst, dmatch, dmatchAll, pmatch]
    | .tuple ps =>
      cases ty <;> simp [patTyped] at ht
      rename_i ts
      obtain ⟨h1, h2⟩ := fromAsts_ok env ps ts ht
      refine ⟨by simpa [fromAst, patWT, productTys] using h1, fun v hv => ?_⟩
      obtain ⟨vs, rfl, hvs⟩ := hasTy_prod_tuple hv
      simpa [fromAst, dmatch, pmatch, productTys] using h2 vs hvs
    | .struct id ps =>
      cases ty <;> simp [patTyped] at ht
      rename_i id' ts
      obtain ⟨h1, h2⟩ := fromAsts_ok env ps ts ht.2
      refine ⟨by simpa [fromAst, patWT, productTys] using h1, fun v hv => ?_⟩
      obtain ⟨vs, rfl, hvs⟩ := hasTy_prod_struct hv
      simpa [fromAst, dmatch, pmatch, productTys] using h2 vs hvs
    | .variant0 e i =>
      cases ty <;> simp [patTyped] at ht
      rename_i e'
      obtain ⟨⟨he, hs⟩, hvoid⟩ := ht
      subst he
      refine ⟨by simp [fromAst, patWT, hs, specTys, hvoid, patsWT], fun v hv => ?_⟩
      obtain ⟨i', pl, rfl, _, _⟩ := hasTy_enum hv
      simp [fromAst, dmatch, pmatch]
    | .variantPos e i q =>
      cases ty <;> simp [patTyped] at ht
      rename_i e'
      obtain ⟨⟨he, hs⟩, hq⟩ := ht
      subst he
      obtain ⟨h1, h2⟩ := fromAst_ok env q (dataTy env e i) hq
      by_cases hvoid : (dataTy env e i).isVoid = true
      · refine ⟨by simp [fromAst, hvoid, patWT, hs, specTys, patsWT], fun v hv => ?_⟩
        obtain ⟨i', pl, rfl, _, hpl⟩ := hasTy_enum hv
        simp only [fromAst, hvoid, if_true, dmatch, pmatch, List.isEmpty_nil, Bool.true_or, Bool.and_true]
        by_cases hi : i = i'
        · subst hi
          rw [isVoid_eq hvoid] at hpl hq
          have := hasTy_void hpl; subst this
          simp [pmatch_void q hq]
        · have : (i == i') = false := by simpa using hi
          simp [this]
      · refine ⟨by simp [fromAst, hvoid, patWT, hs, specTys, patsWT, h1], fun v hv => ?_⟩
        obtain ⟨i', pl, rfl, _, hpl⟩ := hasTy_enum hv
        simp only [fromAst, hvoid, Bool.false_eq_true, if_false, dmatch, pmatch, List.isEmpty_cons,
          Bool.false_or, dmatchAll, Bool.and_true]
        by_cases hi : i = i'
        · subst hi; rw [h2 pl hpl]
        · have : (i == i') = false := by simpa using hi
          simp [this]
    | .variantNamed e i ps =>
      cases ty <;> simp [patTyped] at ht
      rename_i e'
      obtain ⟨⟨⟨he, hs⟩, hps⟩, hne⟩ := ht
      subst he
      obtain ⟨fs, hfs⟩ := Option.isSome_iff_exists.1 hs
      rw [hfs] at hps; simp only [Option.getD_some] at hps
      obtain ⟨h1, h2⟩ := fromAsts_ok env ps fs hps
      have hd := dataTy_some hfs
      match ps, fs, hps, h1, h2, hne with
      | [q], [t], hps, h1, h2, _ =>
        simp only [fromAsts, patsWT, Bool.and_true] at h1
        have hqt : patTyped env q t = true := by simpa [patsTyped] using hps
        simp only [dataTyOfFields] at hd
        by_cases hvoid : t.isVoid = true
        · refine ⟨by simp [fromAst, hfs, fromAsts, fromAst_ty, hvoid, patWT, specTys, hd, patsWT], fun v hv => ?_⟩
          obtain ⟨i', pl, rfl, _, hpl⟩ := hasTy_enum hv
          simp only [fromAst, hfs, Option.getD_some, fromAsts, fromAst_ty, hvoid, if_true, dmatch, pmatch,
            List.isEmpty_nil, Bool.true_or, Bool.and_true, pmatchNamed]
          by_cases hi : i = i'
          · subst hi
            rw [hd, isVoid_eq hvoid] at hpl
            rw [isVoid_eq hvoid] at hqt
            have := hasTy_void hpl; subst this
            simp [pmatch_void q hqt]
          · have : (i == i') = false := by simpa using hi
            simp [this]
        · refine ⟨by simp [fromAst, hfs, fromAsts, fromAst_ty, hvoid, patWT, specTys, hd, patsWT, h1],
            fun v hv => ?_⟩
          obtain ⟨i', pl, rfl, _, hpl⟩ := hasTy_enum hv
          simp only [fromAst, hfs, Option.getD_some, fromAsts, fromAst_ty, hvoid, Bool.false_eq_true, if_false,
            dmatch, pmatch, List.isEmpty_cons, Bool.false_or, dmatchAll, Bool.and_true, pmatchNamed]
          by_cases hi : i = i'
          · subst hi
            rw [hd] at hpl
            have := h2 [pl] (by simp [hasTys, hpl])
            simp only [fromAsts, dmatchAll, Bool.and_true, pmatchAll] at this
            rw [this]
          · have : (i == i') = false := by simpa using hi
            simp [this]
      | q :: q' :: qs, t :: t' :: ts, hps, h1, h2, _ =>
        simp only [dataTyOfFields] at hd
        have hnv : (Ty.tuple (t :: t' :: ts)).isVoid = false := rfl
        have hord : fromAsts env (t :: t' :: ts) (q :: q' :: qs) =
            fromAst env t q :: fromAst env t' q' :: fromAsts env ts qs := by simp [fromAsts]
        have h1' := h1
        simp only [hord, patsWT] at h1'
        refine ⟨?_, fun v hv => ?_⟩
        · simp only [fromAst, hfs, Option.getD_some, hord, patWT, specTys, hd, hnv, beq_self_eq_true,
            Bool.true_and, Bool.false_eq_true, if_false, patsWT, Bool.and_true]
          simpa using h1'
        · obtain ⟨i', pl, rfl, _, hpl⟩ := hasTy_enum hv
          by_cases hi : i = i'
          · subst hi
            rw [hd] at hpl
            obtain ⟨vs, rfl, hvs⟩ := hasTy_prod_tuple hpl
            have := h2 vs hvs
            rw [hord] at this
            simp only [fromAst, hfs, Option.getD_some, hord, dmatch, pmatch, List.isEmpty_cons, Bool.false_or,
              dmatchAll, Bool.and_true, pmatchNamed, beq_self_eq_true, Bool.true_and]
            exact this
          · have : (i == i') = false := by simpa using hi
            simp [fromAst, hfs, hord, dmatch, pmatch, this]
      | [], [], _, _, _, hne => simp at hne
      | [q], _ :: _ :: _, hps, _, _, _ => simp [patsTyped] at hps
      | [q], [], hps, _, _, _ => simp [patsTyped] at hps
      | _ :: _ :: _, [t], hps, _, _, _ => simp [patsTyped] at hps
      | _ :: _ :: _, [], hps, _, _, _ => simp [patsTyped] at hps
      | [], _ :: _, hps, _, _, _ => simp [patsTyped] at hps
    | .or l r =>
      simp only [patTyped, Bool.and_eq_true] at ht
      obtain ⟨hl1, hl2⟩ := fromAst_ok env l ty ht.1
      obtain ⟨hr1, hr2⟩ := fromAst_ok env r ty ht.2
      refine ⟨by simp [fromAst, patWT, patsWTOr, hl1, hr1], fun v hv => ?_⟩
      simp [fromAst, dmatch, dmatchAny, pmatch, hl2 v hv, hr2 v hv]
  theorem fromAsts_ok (env : EnumEnv) (ps : List Pat) (ts : List Ty) (ht : patsTyped env ps ts = true) :
      patsWT env (fromAsts env ts ps) ts = true ∧
        ∀ vs, hasTys env vs ts = true → dmatchAll (fromAsts env ts ps) vs = pmatchAll ps vs := by
    match ps, ts, ht with
    | [], [], _ => exact ⟨by simp [fromAsts, patsWT], fun vs hvs => by
        have := hasTys_nil hvs; subst this; simp [fromAsts, dmatchAll, pmatchAll]⟩
    | p :: ps, t :: ts, ht =>
      simp only [patsTyped, Bool.and_eq_true] at ht
      obtain ⟨h1, h2⟩ := fromAst_ok env p t ht.1
      obtain ⟨h3, h4⟩ := fromAsts_ok env ps ts ht.2
      refine ⟨by simp [fromAsts, patsWT, h1, h3], fun vs hvs => ?_⟩
      obtain ⟨v, vs', rfl, hv, hvs'⟩ := hasTys_cons hvs
      simp [fromAsts, dmatchAll, pmatchAll, h2 v hv, h4 vs' hvs']
    | [], _ :: _, ht => simp [patsTyped] at ht
    | _ :: _, [], ht => simp [patsTyped] at ht
end

theorem findIdx?_map_congr {α β : Type} (f : α → β) (P : β → Bool) (Q : α → Bool) (l : List α)
    (h : ∀ a ∈ l, P (f a) = Q a) : (l.map f).findIdx? P = l.findIdx? Q := by
  induction l with
  | nil => rfl
  | cons a as ih =>
    simp only [List.map_cons, List.findIdx?_cons, h a (List.mem_cons_self ..)]
    rw [ih (fun b hb => h b (List.mem_cons_of_mem _ hb))]

/-- meaning of the result of `check` on source arms, in terms of `pmatch` only -/
structure GoodArms (env : EnumEnv) (ty : Ty) (arms : List Pat) (flags : List Bool) (wits : List DPat) : Prop where
  len : flags.length = arms.length
  useful : ∀ i, i < arms.length →
    (flags.getD i false = true ↔ ∃ v, hasTy env v ty = true ∧ arms.findIdx? (fun p => pmatch p v) = some i)
  exh : wits = [] → ∀ v, hasTy env v ty = true → arms.findIdx? (fun p => pmatch p v) ≠ none
  wit : ∀ w ∈ wits, ∃ v, hasTy env v ty = true ∧ arms.findIdx? (fun p => pmatch p v) = none ∧ dmatch w v = true

theorem check_good {env : EnumEnv} (hinh : ∀ T, ∃ v, hasTy env v T = true) {fuel : Nat} {ty : Ty}
    {arms : List Pat} (htyped : ∀ p ∈ arms, patTyped env p ty = true) {flags : List Bool} {wits : List DPat}
    (h : check env fuel ty arms = some (flags, wits)) : GoodArms env ty arms flags wits := by
  have hwt : ∀ p ∈ arms.map (fromAst env ty), patWT env p ty = true := by
    intro p hp
    obtain ⟨a, ha, rfl⟩ := List.mem_map.1 hp
    exact (fromAst_ok env a ty (htyped a ha)).1
  have G := checkD_good hinh hwt h
  have hfi : ∀ v, hasTy env v ty = true →
      (arms.map (fromAst env ty)).findIdx? (fun p => dmatch p v) = arms.findIdx? (fun p => pmatch p v) := by
    intro v hv
    exact findIdx?_map_congr _ _ _ _ (fun a ha => (fromAst_ok env a ty (htyped a ha)).2 v hv)
  refine ⟨by simpa using G.len, ?_, ?_, ?_⟩
  · intro i hi
    rw [G.useful i (by simpa using hi)]
    constructor
    · rintro ⟨v, hv, hf⟩; exact ⟨v, hv, by rw [← hfi v hv]; exact hf⟩
    · rintro ⟨v, hv, hf⟩; exact ⟨v, hv, by rw [hfi v hv]; exact hf⟩
  · intro hnil v hv
    rw [← hfi v hv]; exact G.exh hnil v hv
  · intro w hw
    obtain ⟨v, hv, hn, hm⟩ := G.wit w hw
    exact ⟨v, hv, by rw [← hfi v hv]; exact hn, hm⟩

end Abra.PatMatrix
