import AbraModel.PatCompile
import AbraProofs.Lemmas.PatMatrix
/-!
Lemmas about the pattern part of M8 (`Abra.PatCompile`): the skip-mode machine, label freshness of the
comparison code, and correctness of comparison and binding code by structural induction on patterns.
-/
namespace Abra.PatCompile
open Abra.PatMatrix

/-! ## The machine -/

theorem run_nil (st : St) : run [] st = some st := rfl

theorem run_cons (i : Instr) (code : List Instr) (st : St) :
    run (i :: code) st = (step st i).bind (run code) := by
  simp [run, List.foldlM_cons, Option.bind]
  cases step st i <;> rfl

theorem run_append (a b : List Instr) (st : St) : run (a ++ b) st = (run a st).bind (run b) := by
  induction a generalizing st with
  | nil => simp [run_nil]
  | cons i a ih =>
    rw [List.cons_append, run_cons, run_cons]
    cases step st i with
    | none => rfl
    | some st' => simpa using ih st'

/-- a state: running (not skipping) with the given stack -/
abbrev mk (stack : List SVal) (locals : List (Nat × SVal)) (taken : Option Nat) (skip : Option Label) : St :=
  { stack := stack, locals := locals, taken := taken, skip := skip }

/-- skipping passes over code that does not contain the label -/
theorem run_skip (code : List Instr) (l : Label) (stack : List SVal) (locals : List (Nat × SVal))
    (taken : Option Nat) (h : Instr.label l ∉ code) :
    run code (mk stack locals taken (some l)) = some (mk stack locals taken (some l)) := by
  induction code with
  | nil => rfl
  | cons i code ih =>
    rw [run_cons]
    have hi : i ≠ .label l := fun e => h (by simp [e])
    have : step (mk stack locals taken (some l)) i = some (mk stack locals taken (some l)) := by
      simp [step, hi]
    rw [this]
    exact ih (fun hm => h (List.mem_cons_of_mem _ hm))

/-- skipping stops at the label -/
theorem run_skip_label (l : Label) (stack : List SVal) (locals : List (Nat × SVal)) (taken : Option Nat) :
    step (mk stack locals taken (some l)) (.label l) = some (mk stack locals taken none) := by
  simp [step]

theorem step_skip_ne (l : Label) (i : Instr) (hi : i ≠ .label l) (stack : List SVal)
    (locals : List (Nat × SVal)) (taken : Option Nat) :
    step (mk stack locals taken (some l)) i = some (mk stack locals taken (some l)) := by
  simp [step, hi]

/-! ## The slot(s) a typed value occupies -/

def slot (env : EnumEnv) (ty : Ty) (v : Val) : List SVal := if ty.isVoid then [] else [repr env ty v]

theorem reprFields_cons (env : EnumEnv) (t : Ty) (ts : List Ty) (v : Val) (vs : List Val) :
    reprFields env (t :: ts) (v :: vs) = slot env t v ++ reprFields env ts vs := by
  simp only [reprFields, slot]; split <;> simp

/-! ## Labels of the comparison code -/

def labelsOf : List Instr → List Label
  | [] => []
  | .label l :: code => l :: labelsOf code
  | _ :: code => labelsOf code

@[simp] theorem labelsOf_nil : labelsOf [] = [] := rfl

@[simp] theorem labelsOf_append (a b : List Instr) : labelsOf (a ++ b) = labelsOf a ++ labelsOf b := by
  induction a with
  | nil => rfl
  | cons i a ih => cases i <;> simp [labelsOf, ih]

theorem mem_labelsOf (code : List Instr) (l : Label) : Instr.label l ∈ code ↔ l ∈ labelsOf code := by
  induction code with
  | nil => simp
  | cons i code ih => cases i <;> simp [labelsOf, ih]

theorem labelsOf_ite_pop (c : Prop) [Decidable c] : labelsOf (if c then [] else [Instr.pop]) = [] := by
  split <;> rfl

theorem failChain_labels (π : Path) (i : Nat) (tys : List Ty) :
    ∀ l ∈ labelsOf (failChain π i tys), l.path = π ∧ 4 + i ≤ l.kind := by
  induction tys generalizing i with
  | nil => simp [failChain]
  | cons t ts ih =>
    intro l hl
    simp only [failChain, labelsOf_append, labelsOf_ite_pop, labelsOf, List.nil_append, List.cons_append,
      List.mem_cons] at hl
    rcases hl with hl | hl
    · subst hl; exact ⟨rfl, Nat.le_refl _⟩
    · have := ih (i + 1) l hl; exact ⟨this.1, by omega⟩

theorem prodCode_labels (π : Path) (tys : List Ty) (ps : List Pat) (elems : List Instr)
    (helems : ∀ l ∈ labelsOf elems, π.length < l.path.length) :
    ∀ l ∈ labelsOf (prodCode π tys ps elems), (l.path = π ∧ 2 ≤ l.kind) ∨ π.length < l.path.length := by
  intro l hl
  unfold prodCode at hl
  split at hl
  · simp [labelsOf] at hl
  · simp only [labelsOf_append, labelsOf, List.nil_append, List.cons_append, List.mem_append, List.mem_cons,
      List.mem_nil_iff, or_false] at hl
    rcases hl with (((hl | hl) | hl) | hl)
    · exact Or.inr (helems l hl)
    · rcases hl with hl | hl
      · subst hl; exact Or.inl ⟨rfl, by simp [lblSuccess]⟩
      · subst hl; exact Or.inl ⟨rfl, by simp [lblFail]⟩
    · have := failChain_labels π 1 _ l hl; exact Or.inl ⟨this.1, by omega⟩
    · subst hl; exact Or.inl ⟨rfl, by simp [lblEndTuple]⟩

theorem variantWrap_labels (π : Path) (idx : Nat) (inner : List Instr)
    (hinner : ∀ l ∈ labelsOf inner, π.length ≤ l.path.length) :
    ∀ l ∈ labelsOf (variantWrap π idx inner), π.length ≤ l.path.length := by
  intro l hl
  simp only [variantWrap, labelsOf_append, labelsOf, List.nil_append, List.mem_append, List.mem_cons, List.mem_nil_iff,
    or_false] at hl
  rcases hl with hl | hl | hl
  · exact hinner l hl
  · subst hl; simp [lblTagFail]
  · subst hl; simp [lblEndVariant]

theorem voidCase_labels (π : Path) (idx : Nat) :
    ∀ l ∈ labelsOf (voidCase π idx), π.length ≤ l.path.length := by
  intro l hl
  simp only [voidCase, labelsOf, List.mem_cons, List.mem_nil_iff, or_false] at hl
  rcases hl with hl | hl <;> subst hl <;> simp [lblTagFail, lblEndVariant]

mutual
  theorem cmp_labels (env : EnumEnv) (π : Path) (ty : Ty) (p : Pat) (D : List Path) :
      ∀ l ∈ labelsOf (cmp env π ty p D), π.length ≤ l.path.length := by
    match p with
    | .wild => intro l hl; simp only [cmp, labelsOf_append, labelsOf_ite_pop] at hl; simp [labelsOf] at hl
    | .bind _ => intro l hl; simp only [cmp, labelsOf_append, labelsOf_ite_pop] at hl; simp [labelsOf] at hl
    | .void => intro l hl; simp only [cmp, labelsOf_append, labelsOf_ite_pop] at hl; simp [labelsOf] at hl
    | .int _ => simp [cmp, labelsOf]
    | .float _ => simp [cmp, labelsOf]
    | .bool _ => simp [cmp, labelsOf]
    | .str _ => simp [cmp, labelsOf]
    | .or a b =>
      intro l hl
      simp only [cmp] at hl
      split at hl
      · have := cmp_labels env (π ++ [1]) ty b D l hl; simp at this; omega
      · have := cmp_labels env (π ++ [0]) ty a D l hl; simp at this; omega
    | .tuple ps =>
      intro l hl
      simp only [cmp] at hl
      rcases prodCode_labels π _ ps _ (cmpElems_labels env π 0 _ ps D) l hl with h' | h'
      · rw [h'.1]; exact Nat.le_refl _
      · omega
    | .struct _ ps =>
      intro l hl
      simp only [cmp] at hl
      rcases prodCode_labels π _ ps _ (cmpElems_labels env π 0 _ ps D) l hl with h' | h'
      · rw [h'.1]; exact Nat.le_refl _
      · omega
    | .variant0 _ idx => simp only [cmp]; exact voidCase_labels π idx
    | .variantPos e idx q =>
      simp only [cmp]
      split
      · exact voidCase_labels π idx
      · apply variantWrap_labels
        intro l hl
        have := cmp_labels env (π ++ [0]) _ q D l hl; simp at this; omega
    | .variantNamed e idx ps =>
      simp only [cmp]
      split
      · split
        · exact voidCase_labels π idx
        · apply variantWrap_labels
          intro l hl
          have := cmpFirst_labels env π _ ps D l hl; omega
      · apply variantWrap_labels
        intro l hl
        rcases prodCode_labels π _ ps _ (cmpElems_labels env π 0 _ ps D) l hl with h' | h'
        · rw [h'.1]; exact Nat.le_refl _
        · omega
  theorem cmpFirst_labels (env : EnumEnv) (π : Path) (ty : Ty) (ps : List Pat) (D : List Path) :
      ∀ l ∈ labelsOf (cmpFirst env π ty ps D), π.length < l.path.length := by
    match ps with
    | [] => simp [cmpFirst]
    | p :: _ =>
      intro l hl
      simp only [cmpFirst] at hl
      have := cmp_labels env (π ++ [0]) ty p D l hl; simp at this; omega
  theorem cmpElems_labels (env : EnumEnv) (π : Path) (i : Nat) (tys : List Ty) (ps : List Pat) (D : List Path) :
      ∀ l ∈ labelsOf (cmpElems env π i tys ps D), π.length < l.path.length := by
    match ps with
    | [] => simp [cmpElems]
    | p :: ps =>
      intro l hl
      simp only [cmpElems, labelsOf_append, List.mem_append] at hl
      rcases hl with ((hl | hl) | hl) | hl
      · have := cmp_labels env (π ++ [i]) _ p D l hl; simp at this; omega
      · simp [labelsOf] at hl
      · split at hl <;> simp [labelsOf] at hl
      · exact cmpElems_labels env π (i + 1) _ ps _ l hl
end

/-! ## Which alternative the code compiles; first failing element -/

mutual
  /-- the pattern whose comparison `cmp` emits (and whose variables `bind` binds) under the decision
      set `D`: an or-pattern is replaced by the alternative the decisions select (sub-patterns the code
      never looks at stay as they are) -/
  def resolveP (env : EnumEnv) : Path → Ty → Pat → List Path → Pat
    | π, ty, .or l r, D =>
      if D.contains π then resolveP env (π ++ [1]) ty r D else resolveP env (π ++ [0]) ty l D
    | π, ty, .tuple ps, D => .tuple (resolveElems env π 0 (productTys ty) ps D)
    | π, ty, .struct id ps, D => .struct id (resolveElems env π 0 (productTys ty) ps D)
    | π, _, .variantPos e idx p, D =>
      if (dataTy env e idx).isVoid then .variantPos e idx p
      else .variantPos e idx (resolveP env (π ++ [0]) (dataTy env e idx) p D)
    | π, _, .variantNamed e idx ps, D =>
      if ps.length == 1 then
        if (((variantFields env e idx).getD []).headD .void).isVoid then .variantNamed e idx ps
        else .variantNamed e idx (resolveElems env π 0 ((variantFields env e idx).getD []) ps D)
      else .variantNamed e idx (resolveElems env π 0 ((variantFields env e idx).getD []) ps D)
    | _, _, .wild, _ => .wild
    | _, _, .bind x, _ => .bind x
    | _, _, .bool b, _ => .bool b
    | _, _, .int i, _ => .int i
    | _, _, .float f, _ => .float f
    | _, _, .str s, _ => .str s
    | _, _, .void, _ => .void
    | _, _, .variant0 e i, _ => .variant0 e i
  def resolveElems (env : EnumEnv) : Path → Nat → List Ty → List Pat → List Path → List Pat
    | _, _, _, [], _ => []
    | π, i, tys, p :: ps, D =>
      resolveP env (π ++ [i]) (tys.headD .void) p D :: resolveElems env π (i + 1) (tys.drop 1) ps D
end

/-- index of the first component pattern that does not match -/
def elemsFail : List Pat → List Val → Option Nat
  | [], _ => none
  | p :: ps, v :: vs => if pmatch p v then (elemsFail ps vs).map (· + 1) else some 0
  | _ :: _, [] => some 0

theorem elemsFail_isNone (ps : List Pat) (vs : List Val) (h : ps.length = vs.length) :
    (elemsFail ps vs).isNone = pmatchAll ps vs := by
  induction ps generalizing vs with
  | nil => cases vs <;> simp_all [elemsFail, pmatchAll]
  | cons p ps ih =>
    cases vs with
    | nil => simp at h
    | cons v vs =>
      simp only [elemsFail, pmatchAll]
      cases hp : pmatch p v <;> simp [ih vs (by simpa using h)]

theorem elemsFail_lt {ps : List Pat} {vs : List Val} {k : Nat} (h : elemsFail ps vs = some k) : k < ps.length := by
  induction ps generalizing vs k with
  | nil => simp [elemsFail] at h
  | cons p ps ih =>
    cases vs with
    | nil => simp [elemsFail] at h; subst h; simp
    | cons v vs =>
      simp only [elemsFail] at h
      split at h
      · simp only [Option.map_eq_some_iff] at h
        obtain ⟨k', hk', rfl⟩ := h
        have := ih hk'; simp; omega
      · simp at h; subst h; simp

/-! ## The failure chain -/

theorem failChain_run (env : EnumEnv) (π : Path) (j : Nat) (tys : List Ty) (vs : List Val)
    (hlen : tys.length = vs.length) (stk : List SVal) (locs : List (Nat × SVal)) (tk : Option Nat) :
    run (failChain π j tys) (mk (reprFields env tys vs ++ stk) locs tk none) = some (mk stk locs tk none) := by
  induction tys generalizing j vs with
  | nil => cases vs <;> simp_all [failChain, reprFields, run_nil]
  | cons t ts ih =>
    cases vs with
    | nil => simp at hlen
    | cons v vs =>
      simp only [failChain, reprFields_cons, slot, List.append_assoc]
      by_cases ht : t.isVoid = true
      · simp only [ht, if_true, List.nil_append, List.singleton_append, run_cons]
        simp only [step, Option.bind]
        exact ih (j + 1) vs (by simpa using hlen)
      · simp only [ht, Bool.false_eq_true, if_false, List.singleton_append, List.cons_append, List.nil_append,
          run_cons]
        simp only [step, Option.bind]
        exact ih (j + 1) vs (by simpa using hlen)

theorem failChain_skip (env : EnumEnv) (π : Path) (j : Nat) (tys : List Ty) (vs : List Val)
    (hlen : tys.length = vs.length) (k : Nat) (hk : k < tys.length) (stk : List SVal)
    (locs : List (Nat × SVal)) (tk : Option Nat) :
    run (failChain π j tys)
      (mk (reprFields env (tys.drop (k + 1)) (vs.drop (k + 1)) ++ stk) locs tk (some (lblFail π (j + k)))) =
      some (mk stk locs tk none) := by
  induction tys generalizing j vs k with
  | nil => simp at hk
  | cons t ts ih =>
    cases vs with
    | nil => simp at hlen
    | cons v vs =>
      have hlen' : ts.length = vs.length := by simpa using hlen
      simp only [failChain, List.drop_succ_cons, List.append_assoc]
      rw [run_append]
      have hpop : run (if t.isVoid = true then [] else [Instr.pop])
          (mk (reprFields env (ts.drop k) (vs.drop k) ++ stk) locs tk (some (lblFail π (j + k)))) =
          some (mk (reprFields env (ts.drop k) (vs.drop k) ++ stk) locs tk (some (lblFail π (j + k)))) := by
        apply run_skip
        split <;> simp
      rw [hpop, Option.bind, List.singleton_append, run_cons]
      cases k with
      | zero =>
        simp only [Nat.add_zero, run_skip_label, Option.bind, List.drop_zero]
        exact failChain_run env π (j + 1) ts vs hlen' stk locs tk
      | succ k =>
        have hne : Instr.label (lblFail π j) ≠ Instr.label (lblFail π (j + (k + 1))) := by
          simp [lblFail]
        rw [step_skip_ne _ _ hne, Option.bind]
        have := ih (j + 1) vs hlen' k (by simpa using hk)
        rw [show j + 1 + k = j + (k + 1) by omega] at this
        exact this

/-! ## The product wrapper and the variant wrapper -/

theorem prodCode_ok (env : EnumEnv) (π : Path) (tys : List Ty) (ps rps : List Pat)
    (elems : List Instr) (vs : List Val)
    (hlen : tys.length = vs.length) (hps : ps.length = tys.length) (hrl : rps.length = ps.length)
    (stk : List SVal) (locs : List (Nat × SVal)) (tk : Option Nat)
    (helems : ps ≠ [] → run elems (mk (reprFields env tys vs ++ stk) locs tk none) =
      some (match elemsFail rps vs with
        | none => mk stk locs tk (some (lblSuccess π))
        | some k => mk (reprFields env (tys.drop (k + 1)) (vs.drop (k + 1)) ++ stk) locs tk (some (lblFail π k)))) :
    run (prodCode π tys ps elems) (mk (.struct (reprFields env tys vs) :: stk) locs tk none) =
      some (mk (.bool (pmatchAll rps vs) :: stk) locs tk none) := by
  unfold prodCode
  by_cases hemp : ps.isEmpty = true
  · -- no fields: pop, push true
    have hps0 : ps = [] := by simpa using hemp
    subst hps0
    have : rps = [] := List.eq_nil_of_length_eq_zero (by simpa using hrl)
    subst this
    have : vs = [] := List.eq_nil_of_length_eq_zero (by simp at hps; omega)
    subst this
    simp [hemp, run_cons, step, run_nil, pmatchAll]
  · simp only [hemp, Bool.false_eq_true, if_false]
    have hne : ps ≠ [] := by simpa using hemp
    rw [List.append_assoc, List.append_assoc, List.append_assoc, List.singleton_append, run_cons]
    simp only [step, Option.bind]
    rw [run_append, helems hne]
    rw [← elemsFail_isNone rps vs (by omega)]
    cases hf : elemsFail rps vs with
    | none =>
      simp only [Option.bind, Option.isNone_none]
      -- label success; push true; jump end; … label end
      rw [List.cons_append, run_cons, run_skip_label, Option.bind, List.cons_append, run_cons]
      simp only [step, Option.bind]
      rw [List.cons_append, run_cons]
      simp only [step, Option.bind]
      rw [List.cons_append, run_cons, step_skip_ne _ _ (by simp [lblFail, lblEndTuple]), Option.bind,
        List.nil_append, run_append, run_skip _ _ _ _ _ (by
          rw [mem_labelsOf]; intro hm
          have := failChain_labels π 1 _ _ hm
          simp [lblEndTuple] at this), Option.bind, run_cons, step_skip_ne _ _ (by simp), Option.bind,
        run_cons, run_skip_label, Option.bind, run_nil]
    | some k =>
      have hk := elemsFail_lt hf
      simp only [Option.bind, Option.isNone_some]
      rw [List.cons_append, run_cons, step_skip_ne _ _ (by simp [lblFail, lblSuccess]; omega), Option.bind,
        List.cons_append, run_cons, step_skip_ne _ _ (by simp), Option.bind,
        List.cons_append, run_cons, step_skip_ne _ _ (by simp), Option.bind,
        List.cons_append, run_cons, List.nil_append]
      cases k with
      | zero =>
        rw [run_skip_label, Option.bind, run_append]
        have := failChain_run env π 1 (tys.drop 1) (vs.drop 1) (by simp; omega) stk locs tk
        simp only [Nat.zero_add] at this ⊢
        rw [this, Option.bind, run_cons]
        simp only [step, Option.bind]
        rw [run_cons]; simp only [step, Option.bind]; rfl
      | succ k =>
        rw [step_skip_ne _ _ (by simp [lblFail]), Option.bind, run_append]
        have := failChain_skip env π 1 (tys.drop 1) (vs.drop 1) (by simp; omega) k (by simp; omega) stk locs tk
        simp only [List.drop_drop] at this
        rw [show 1 + k = k + 1 by omega] at this
        rw [show k + 1 + 1 = 1 + (k + 1) by omega]
        rw [this, Option.bind, run_cons]
        simp only [step, Option.bind]
        rw [run_cons]; simp only [step, Option.bind]; rfl

theorem variantWrap_ok (π : Path) (idx tag : Nat) (plv : SVal) (inner : List Instr) (b : Bool)
    (stk : List SVal) (locs : List (Nat × SVal)) (tk : Option Nat)
    (hlab : lblTagFail π ∉ labelsOf inner)
    (hinner : tag = idx → run inner (mk (plv :: stk) locs tk none) = some (mk (.bool b :: stk) locs tk none)) :
    run (variantWrap π idx inner) (mk (.variant tag plv :: stk) locs tk none) =
      some (mk (.bool (idx == tag && b) :: stk) locs tk none) := by
  unfold variantWrap
  rw [List.append_assoc, List.cons_append, run_cons]
  simp only [step, Option.bind]
  rw [List.cons_append, run_cons]
  simp only [step, Option.bind]
  rw [List.cons_append, run_cons]
  simp only [step, Option.bind]
  rw [List.cons_append, run_cons]
  simp only [step, Option.bind, List.nil_append]
  by_cases ht : tag = idx
  · subst ht
    simp only [beq_self_eq_true, if_true, Bool.true_and]
    rw [run_append, hinner rfl, Option.bind, run_cons]
    simp only [step, Option.bind]
    rw [run_cons, step_skip_ne _ _ (by simp [lblTagFail, lblEndVariant]), Option.bind,
      run_cons, step_skip_ne _ _ (by simp), Option.bind,
      run_cons, step_skip_ne _ _ (by simp), Option.bind,
      run_cons, run_skip_label, Option.bind, run_nil]
  · have h1 : ((tag : Int) == (idx : Int)) = false := by
      simp only [beq_eq_false_iff_ne, ne_eq, Int.natCast_inj]; exact ht
    have h2 : (idx == tag) = false := by simpa using fun h => ht h.symm
    simp only [h1, h2, Bool.false_eq_true, if_false, Bool.false_and]
    rw [run_append, run_skip _ _ _ _ _ (by rw [mem_labelsOf]; exact hlab), Option.bind,
      run_cons, step_skip_ne _ _ (by simp), Option.bind,
      run_cons, run_skip_label, Option.bind, run_cons]
    simp only [step, Option.bind]
    rw [run_cons]; simp only [step, Option.bind]
    rw [run_cons]; simp only [step, Option.bind]; rfl

theorem voidCase_ok (π : Path) (idx tag : Nat) (plv : SVal)
    (stk : List SVal) (locs : List (Nat × SVal)) (tk : Option Nat) :
    run (voidCase π idx) (mk (.variant tag plv :: stk) locs tk none) =
      some (mk (.bool (idx == tag) :: stk) locs tk none) := by
  have := variantWrap_ok π idx tag plv [.pop, .pushBool true] true stk locs tk (by simp [labelsOf])
    (fun _ => by simp [run_cons, step, run_nil])
  simpa [variantWrap, voidCase] using this

/-! ## Representation facts -/

theorem repr_enum_eq (env : EnumEnv) (e i : Nat) (pl : Val) :
    repr env (.enum e) (.variant i pl) =
      match (variantFields env e i).getD [] with
      | [] => .variant i .nil
      | [t] => .variant i (if t.isVoid then .nil else repr env t pl)
      | t :: u :: ts =>
        match pl with
        | .prod vs => .variant i (payloadOf (reprFields env (t :: u :: ts) vs))
        | _ => .variant i .nil := by
  rw [repr]
  rcases (variantFields env e i).getD [] with _ | ⟨t, _ | ⟨u, ts⟩⟩
  · rfl
  · rfl
  · cases pl <;> rfl

theorem repr_variant_tag (env : EnumEnv) (e i : Nat) (pl : Val) :
    ∃ X, repr env (.enum e) (.variant i pl) = .variant i X := by
  rw [repr_enum_eq]
  rcases (variantFields env e i).getD [] with _ | ⟨t, _ | ⟨u, ts⟩⟩
  · exact ⟨_, rfl⟩
  · exact ⟨_, rfl⟩
  · cases pl <;> exact ⟨_, rfl⟩

theorem repr_prod (env : EnumEnv) (ty : Ty) (vs : List Val) :
    repr env ty (.prod vs) = .struct (reprFields env (productTys ty) vs) := by
  cases ty <;> rw [repr]

/-- payload slot of a variant whose data type is not void (D46 repaired: several fields = struct) -/
theorem repr_variant_payload (env : EnumEnv) (e i : Nat) (pl : Val)
    (hs : (variantFields env e i).isSome = true) (hnv : (dataTy env e i).isVoid = false)
    (hpl : hasTy env pl (dataTy env e i) = true) :
    repr env (.enum e) (.variant i pl) = .variant i (repr env (dataTy env e i) pl) := by
  obtain ⟨fs, hfs⟩ := Option.isSome_iff_exists.1 hs
  have hd := dataTy_some hfs
  rw [hd] at hnv hpl ⊢
  rw [repr_enum_eq, hfs, Option.getD_some]
  match fs, hnv, hpl with
  | [], hnv, _ => simp [dataTyOfFields, Ty.isVoid] at hnv
  | [t], hnv, _ => simp only [dataTyOfFields] at hnv ⊢; simp [hnv]
  | t :: u :: ts, _, hpl =>
    simp only [dataTyOfFields] at hpl ⊢
    obtain ⟨vs, rfl, _⟩ := hasTy_prod_tuple hpl
    simp [repr_prod, payloadOf, productTys]

theorem resolveElems_length (env : EnumEnv) (π : Path) (i : Nat) (tys : List Ty) (ps : List Pat) (D : List Path) :
    (resolveElems env π i tys ps D).length = ps.length := by
  induction ps generalizing i tys D with
  | nil => simp [resolveElems]
  | cons p ps ih => simp [resolveElems, ih]

theorem patsTyped_length {env : EnumEnv} {ps : List Pat} {ts : List Ty} (h : patsTyped env ps ts = true) :
    ps.length = ts.length := by
  induction ps generalizing ts with
  | nil => cases ts <;> simp_all [patsTyped]
  | cons p ps ih =>
    cases ts with
    | nil => simp [patsTyped] at h
    | cons t ts =>
      simp only [patsTyped, Bool.and_eq_true] at h
      simp [ih h.2]

theorem slot_nonvoid (env : EnumEnv) {ty : Ty} (v : Val) (h : ty.isVoid = false) : slot env ty v = [repr env ty v] := by
  simp [slot, h]

/-! ## Correctness of the comparison code -/

theorem isVoid_false_of_ne {T : Ty} (h : T ≠ .void) : T.isVoid = false := by
  cases T <;> simp_all [Ty.isVoid]

theorem tagfail_not_in (π : Path) (code : List Instr)
    (h : ∀ l ∈ labelsOf code, (l.path = π ∧ 2 ≤ l.kind) ∨ π.length < l.path.length) :
    lblTagFail π ∉ labelsOf code := by
  intro hm
  rcases h _ hm with h' | h'
  · simp [lblTagFail] at h'
  · simp [lblTagFail] at h'

theorem tagfail_not_in' (π : Path) (code : List Instr)
    (h : ∀ l ∈ labelsOf code, π.length < l.path.length) : lblTagFail π ∉ labelsOf code :=
  tagfail_not_in π code (fun l hl => Or.inr (h l hl))

mutual
  /-- **`translate_pat_comparison` is correct**: with a value of the pattern's type on top (nothing for
      `void`), the code leaves `matches (the alternative the decisions select) v` there instead and
      touches nothing else — also when the comparison fails in the middle of a product -/
  theorem cmp_ok (env : EnumEnv) (p : Pat) (π : Path) (ty : Ty) (D : List Path) (v : Val)
      (stk : List SVal) (locs : List (Nat × SVal)) (tk : Option Nat)
      (ht : patTyped env p ty = true) (hv : hasTy env v ty = true) :
      run (cmp env π ty p D) (mk (slot env ty v ++ stk) locs tk none) =
        some (mk (.bool (pmatch (resolveP env π ty p D) v) :: stk) locs tk none) := by
    match p with
    | .wild =>
      simp only [cmp, resolveP, pmatch, slot]
      split <;> simp [run_cons, step, run_nil]
    | .bind _ =>
      simp only [cmp, resolveP, pmatch, slot]
      split <;> simp [run_cons, step, run_nil]
    | .void =>
      cases ty <;> simp [patTyped] at ht
      have := hasTy_void hv; subst this
      simp [cmp, resolveP, pmatch, slot, Ty.isVoid, run_cons, step, run_nil]
    | .bool b =>
      cases ty <;> simp [patTyped] at ht
      cases v <;> simp [hasTy] at hv
      simp [cmp, resolveP, pmatch, slot, Ty.isVoid, repr, run_cons, step, run_nil, BEq.comm]
    | .int b =>
      cases ty <;> simp [patTyped] at ht
      cases v <;> simp [hasTy] at hv
      simp [cmp, resolveP, pmatch, slot, Ty.isVoid, repr, run_cons, step, run_nil, BEq.comm]
    | .float b =>
      cases ty <;> simp [patTyped] at ht
      cases v <;> simp [hasTy] at hv
      simp [cmp, resolveP, pmatch, slot, Ty.isVoid, repr, run_cons, step, run_nil, BEq.comm]
    | .str b =>
      cases ty <;> simp [patTyped] at ht
      cases v <;> simp [hasTy] at hv
      simp [cmp, resolveP, pmatch, slot, Ty.isVoid, repr, run_cons, step, run_nil, BEq.comm]
    | .or a b =>
      simp only [patTyped, Bool.and_eq_true] at ht
      simp only [cmp, resolveP]
      split
      · exact cmp_ok env b (π ++ [1]) ty D v stk locs tk ht.2 hv
      · exact cmp_ok env a (π ++ [0]) ty D v stk locs tk ht.1 hv
    | .tuple ps =>
      cases ty <;> simp [patTyped] at ht
      rename_i ts
      obtain ⟨vs, rfl, hvs⟩ := hasTy_prod_tuple hv
      simp only [cmp, resolveP, pmatch, slot, Ty.isVoid, Bool.false_eq_true, if_false, productTys, repr_prod,
        List.singleton_append]
      apply prodCode_ok env π ts ps _ _ vs (hasTys_length hvs).symm (patsTyped_length ht)
        (resolveElems_length ..)
      intro hne
      have := cmpElems_ok env ps π 0 ts D vs stk locs tk ht hvs hne
      simpa using this
    | .struct id ps =>
      cases ty <;> simp [patTyped] at ht
      rename_i id' ts
      obtain ⟨vs, rfl, hvs⟩ := hasTy_prod_struct hv
      simp only [cmp, resolveP, pmatch, slot, Ty.isVoid, Bool.false_eq_true, if_false, productTys, repr_prod,
        List.singleton_append]
      apply prodCode_ok env π ts ps _ _ vs (hasTys_length hvs).symm (patsTyped_length ht.2)
        (resolveElems_length ..)
      intro hne
      have := cmpElems_ok env ps π 0 ts D vs stk locs tk ht.2 hvs hne
      simpa using this
    | .variant0 e idx =>
      cases ty <;> simp [patTyped] at ht
      rename_i e'
      obtain ⟨i', pl, rfl, _, _⟩ := hasTy_enum hv
      obtain ⟨X, hX⟩ := repr_variant_tag env e' i' pl
      rw [slot_nonvoid env _ (show (Ty.enum e').isVoid = false from rfl), hX]
      simp only [cmp, resolveP, pmatch, List.singleton_append]
      exact voidCase_ok π idx i' X stk locs tk
    | .variantPos e idx q =>
      cases ty <;> simp [patTyped] at ht
      rename_i e'
      obtain ⟨⟨he, hs⟩, hq⟩ := ht
      subst he
      obtain ⟨i', pl, rfl, hs', hpl⟩ := hasTy_enum hv
      rw [slot_nonvoid env _ (show (Ty.enum e).isVoid = false from rfl)]
      simp only [cmp, resolveP, List.singleton_append]
      by_cases hvoid : (dataTy env e idx).isVoid = true
      · simp only [hvoid, if_true, pmatch]
        obtain ⟨X, hX⟩ := repr_variant_tag env e i' pl
        rw [hX, voidCase_ok]
        by_cases hi : idx = i'
        · subst hi
          rw [isVoid_eq hvoid] at hpl hq
          have := hasTy_void hpl; subst this
          simp [pmatch_void q hq]
        · have : (idx == i') = false := by simpa using hi
          simp [this]
      · have hnv : (dataTy env e idx).isVoid = false := by simpa using hvoid
        simp only [hnv, Bool.false_eq_true, if_false, pmatch]
        obtain ⟨X, hX⟩ := repr_variant_tag env e i' pl
        rw [hX]
        apply variantWrap_ok π idx i' X _ _ stk locs tk
        · apply tagfail_not_in'
          intro l hl
          have := cmp_labels env (π ++ [0]) _ q D l hl; simp at this; omega
        · intro hi
          subst hi
          have hX' := repr_variant_payload env e i' pl hs hnv hpl
          rw [hX'] at hX
          cases hX
          have := cmp_ok env q (π ++ [0]) (dataTy env e i') D pl stk locs tk hq hpl
          rwa [slot_nonvoid env pl hnv] at this
    | .variantNamed e idx ps =>
      cases ty <;> simp [patTyped] at ht
      rename_i e'
      obtain ⟨⟨⟨he, hs⟩, hps⟩, hne⟩ := ht
      subst he
      obtain ⟨i', pl, rfl, hs', hpl⟩ := hasTy_enum hv
      obtain ⟨X, hX⟩ := repr_variant_tag env e i' pl
      obtain ⟨fs, hfs⟩ := Option.isSome_iff_exists.1 hs
      have hd := dataTy_some hfs
      rw [hfs] at hps; simp only [Option.getD_some] at hps
      rw [slot_nonvoid env _ (show (Ty.enum e).isVoid = false from rfl), hX]
      simp only [cmp, resolveP, List.singleton_append, hfs, Option.getD_some]
      match ps, fs, hps, hne, hd with
      | [q], [t], hps, _, hd =>
        simp only [dataTyOfFields] at hd
        have hqt : patTyped env q t = true := by simpa [patsTyped] using hps
        simp only [List.length_singleton, beq_self_eq_true, if_true, List.headD_cons]
        by_cases hvoid : t.isVoid = true
        · simp only [hvoid, if_true, pmatch]
          rw [voidCase_ok]
          by_cases hi : idx = i'
          · subst hi
            rw [hd, isVoid_eq hvoid] at hpl
            rw [isVoid_eq hvoid] at hqt
            have := hasTy_void hpl; subst this
            simp [pmatchNamed, pmatch_void q hqt]
          · have : (idx == i') = false := by simpa using hi
            simp [this]
        · have hnv : t.isVoid = false := by simpa using hvoid
          simp only [hnv, Bool.false_eq_true, if_false, pmatch]
          apply variantWrap_ok π idx i' X _ _ stk locs tk
          · apply tagfail_not_in'
            exact cmpFirst_labels env π t [q] D
          · intro hi
            subst hi
            rw [hd] at hpl
            have hX' := repr_variant_payload env e i' pl hs (by rw [hd]; exact hnv) (by rw [hd]; exact hpl)
            rw [hX', hd] at hX
            cases hX
            simp only [cmpFirst, resolveElems, List.headD_cons, pmatchNamed]
            have := cmp_ok env q (π ++ [0]) t D pl stk locs tk hqt hpl
            rwa [slot_nonvoid env pl hnv] at this
      | q :: q' :: qs, t :: t' :: ts, hps, _, hd =>
        simp only [dataTyOfFields] at hd
        have hlen : ((q :: q' :: qs).length == 1) = false := by simp
        simp only [hlen, Bool.false_eq_true, if_false, pmatch]
        apply variantWrap_ok π idx i' X _ _ stk locs tk
        · apply tagfail_not_in
          exact prodCode_labels π _ _ _ (cmpElems_labels env π 0 _ _ D)
        · intro hi
          subst hi
          rw [hd] at hpl
          obtain ⟨vs, rfl, hvs⟩ := hasTy_prod_tuple hpl
          have hX' := repr_variant_payload env e i' (.prod vs) hs (by rw [hd]; rfl) (by rw [hd]; exact hpl)
          rw [hX', hd, repr_prod] at hX
          cases hX
          have hrl := resolveElems_length env π 0 (t :: t' :: ts) (q :: q' :: qs) D
          have : pmatchNamed (resolveElems env π 0 (t :: t' :: ts) (q :: q' :: qs) D) (.prod vs) =
              pmatchAll (resolveElems env π 0 (t :: t' :: ts) (q :: q' :: qs) D) vs := by
            match hr : resolveElems env π 0 (t :: t' :: ts) (q :: q' :: qs) D, hrl with
            | a :: b :: c, _ => simp [pmatchNamed]
          rw [this]
          simp only [productTys]
          apply prodCode_ok env π (t :: t' :: ts) (q :: q' :: qs) _ _ vs (hasTys_length hvs).symm
            (patsTyped_length hps) hrl
          intro hne
          have := cmpElems_ok env (q :: q' :: qs) π 0 (t :: t' :: ts) D vs stk locs tk hps hvs hne
          simpa using this
      | [], [], _, hne, _ => simp at hne
      | [q], _ :: _ :: _, hps, _, _ => simp [patsTyped] at hps
      | [q], [], hps, _, _ => simp [patsTyped] at hps
      | _ :: _ :: _, [t], hps, _, _ => simp [patsTyped] at hps
      | _ :: _ :: _, [], hps, _, _ => simp [patsTyped] at hps
      | [], _ :: _, hps, _, _ => simp [patsTyped] at hps
  /-- the element loop of `translate_product_pat_comparison`: ends skipping to `success` when every
      element matches, otherwise skipping to the failure label of the first element that does not,
      with exactly the later elements still on the stack -/
  theorem cmpElems_ok (env : EnumEnv) (ps : List Pat) (π : Path) (i : Nat) (tys : List Ty) (D : List Path)
      (vs : List Val) (stk : List SVal) (locs : List (Nat × SVal)) (tk : Option Nat)
      (ht : patsTyped env ps tys = true) (hvs : hasTys env vs tys = true) (hne : ps ≠ []) :
      run (cmpElems env π i tys ps D) (mk (reprFields env tys vs ++ stk) locs tk none) =
        some (match elemsFail (resolveElems env π i tys ps D) vs with
          | none => mk stk locs tk (some (lblSuccess π))
          | some k => mk (reprFields env (tys.drop (k + 1)) (vs.drop (k + 1)) ++ stk) locs tk
              (some (lblFail π (i + k)))) := by
    match ps, tys, vs, ht, hvs with
    | [], _, _, _, _ => exact absurd rfl hne
    | p :: ps', t :: ts, v :: vs', ht, hvs =>
      simp only [patsTyped, Bool.and_eq_true] at ht
      simp only [hasTys, Bool.and_eq_true] at hvs
      simp only [cmpElems, resolveElems, List.headD_cons, List.drop_succ_cons, List.drop_zero, elemsFail,
        reprFields_cons, List.append_assoc]
      rw [run_append, cmp_ok env p (π ++ [i]) t D v _ locs tk ht.1 hvs.1, Option.bind, List.singleton_append,
        run_cons]
      simp only [step, Option.bind]
      by_cases hb : pmatch (resolveP env (π ++ [i]) t p D) v = true
      · simp only [hb, if_true]
        by_cases hemp : ps' = []
        · subst hemp
          have h2 := patsTyped_length ht.2
          have h3 := hasTys_length hvs.2
          have : ts = [] := List.eq_nil_of_length_eq_zero (by simpa using h2.symm)
          subst this
          have : vs' = [] := List.eq_nil_of_length_eq_zero (by simpa using h3)
          subst this
          simp [cmpElems, resolveElems, elemsFail, run_cons, step, run_nil, reprFields]
        · have hemp' : ps'.isEmpty = false := by cases ps' <;> simp_all
          simp only [hemp', Bool.false_eq_true, if_false, List.nil_append]
          rw [cmpElems_ok env ps' π (i + 1) ts D vs' stk locs tk ht.2 hvs.2 hemp]
          cases elemsFail (resolveElems env π (i + 1) ts ps' D) vs' with
          | none => rfl
          | some k => simp only [Option.map_some]; rw [show i + 1 + k = i + (k + 1) by omega]
      · have hb' : pmatch (resolveP env (π ++ [i]) t p D) v = false := by simpa using hb
        simp only [hb', Bool.false_eq_true, if_false]
        rw [run_skip]
        · simp
        · rw [mem_labelsOf, labelsOf_append]
          intro hm
          rcases List.mem_append.1 hm with hm | hm
          · split at hm <;> simp [labelsOf] at hm
          · have := cmpElems_labels env π (i + 1) ts ps' D _ hm
            simp [lblFail] at this
    | _ :: _, [], _, ht, _ => simp [patsTyped] at ht
    | _ :: _, _ :: _, [], _, hvs => simp [hasTys] at hvs
end

/-! ## Binding code -/

mutual
  /-- **what a pattern binds** (specification side, no decisions): every variable gets the
      representation of the component it stands for, left to right; an or-pattern binds through its
      first alternative that matches; nothing is stored for a `void` component -/
  def bindingsOf (env : EnumEnv) : Ty → Pat → Val → List (Nat × SVal)
    | ty, .bind x, v => if ty.isVoid then [] else [(x, repr env ty v)]
    | ty, .tuple ps, .prod vs => bindingsList env (productTys ty) ps vs
    | ty, .struct _ ps, .prod vs => bindingsList env (productTys ty) ps vs
    | _, .variantPos e idx q, .variant _ pl => bindingsOf env (dataTy env e idx) q pl
    | _, .variantNamed e idx ps, .variant _ pl => bindingsNamed env ((variantFields env e idx).getD []) ps pl
    | ty, .or l r, v => if pmatch l v then bindingsOf env ty l v else bindingsOf env ty r v
    | _, _, _ => []
  def bindingsList (env : EnumEnv) : List Ty → List Pat → List Val → List (Nat × SVal)
    | t :: ts, p :: ps, v :: vs => bindingsOf env t p v ++ bindingsList env ts ps vs
    | _, _, _ => []
  def bindingsNamed (env : EnumEnv) : List Ty → List Pat → Val → List (Nat × SVal)
    | [t], [p], v => bindingsOf env t p v
    | t :: u :: ts, ps, .prod vs => bindingsList env (t :: u :: ts) ps vs
    | _, _, _ => []
end

/-- a pattern of type `void` binds nothing -/
theorem bindingsOf_void {env : EnumEnv} : ∀ (p : Pat) (v : Val), patTyped env p .void = true →
    bindingsOf env .void p v = []
  | .wild, _, _ => by simp [bindingsOf]
  | .bind _, _, _ => by simp [bindingsOf, Ty.isVoid]
  | .void, _, _ => by simp [bindingsOf]
  | .or l r, v, h => by
    simp only [patTyped, Bool.and_eq_true] at h
    simp only [bindingsOf]
    split
    · exact bindingsOf_void l v h.1
    · exact bindingsOf_void r v h.2
  | .bool _, _, h => by simp [patTyped] at h
  | .int _, _, h => by simp [patTyped] at h
  | .float _, _, h => by simp [patTyped] at h
  | .str _, _, h => by simp [patTyped] at h
  | .tuple _, _, h => by simp [patTyped] at h
  | .struct _ _, _, h => by simp [patTyped] at h
  | .variant0 _ _, _, h => by simp [patTyped] at h
  | .variantPos _ _ _, _, h => by simp [patTyped] at h
  | .variantNamed _ _ _, _, h => by simp [patTyped] at h

mutual
  /-- **`handle_pat_binding` is correct**: on a value that the selected alternative matches, the code
      consumes exactly the value's slot and stores, for every variable, the representation of the
      component it stands for -/
  theorem bind_ok (env : EnumEnv) (p : Pat) (π : Path) (ty : Ty) (D : List Path) (v : Val)
      (stk : List SVal) (locs : List (Nat × SVal)) (tk : Option Nat)
      (ht : patTyped env p ty = true) (hv : hasTy env v ty = true)
      (hm : pmatch (resolveP env π ty p D) v = true) :
      run (bind env π ty p D) (mk (slot env ty v ++ stk) locs tk none) =
        some (mk stk ((bindingsOf env ty (resolveP env π ty p D) v).reverse ++ locs) tk none) := by
    match p with
    | .wild =>
      simp only [bind, resolveP, bindingsOf, slot]
      split <;> simp [run_cons, step, run_nil]
    | .bind x =>
      simp only [bind, resolveP, bindingsOf, slot]
      split <;> simp [run_cons, step, run_nil]
    | .void =>
      cases ty <;> simp [patTyped] at ht
      simp [bind, resolveP, bindingsOf, slot, Ty.isVoid, run_nil]
    | .bool b =>
      cases ty <;> simp [patTyped] at ht
      simp [bind, resolveP, bindingsOf, slot, Ty.isVoid, run_cons, step, run_nil]
    | .int b =>
      cases ty <;> simp [patTyped] at ht
      simp [bind, resolveP, bindingsOf, slot, Ty.isVoid, run_cons, step, run_nil]
    | .float b =>
      cases ty <;> simp [patTyped] at ht
      simp [bind, resolveP, bindingsOf, slot, Ty.isVoid, run_cons, step, run_nil]
    | .str b =>
      cases ty <;> simp [patTyped] at ht
      simp [bind, resolveP, bindingsOf, slot, Ty.isVoid, run_cons, step, run_nil]
    | .or a b =>
      simp only [patTyped, Bool.and_eq_true] at ht
      simp only [bind, resolveP] at hm ⊢
      split
      · rename_i hc; simp only [hc, if_true] at hm
        exact bind_ok env b (π ++ [1]) ty D v stk locs tk ht.2 hv hm
      · rename_i hc; simp only [hc, if_false] at hm
        exact bind_ok env a (π ++ [0]) ty D v stk locs tk ht.1 hv hm
    | .tuple ps =>
      cases ty <;> simp [patTyped] at ht
      rename_i ts
      obtain ⟨vs, rfl, hvs⟩ := hasTy_prod_tuple hv
      rw [slot_nonvoid env _ (show (Ty.tuple ts).isVoid = false from rfl), repr_prod]
      simp only [bind, resolveP, bindingsOf, productTys, pmatch, List.singleton_append] at hm ⊢
      rw [run_cons]; simp only [step, Option.bind]
      exact bindList_ok env ps π 0 ts D vs stk locs tk ht hvs hm
    | .struct id ps =>
      cases ty <;> simp [patTyped] at ht
      rename_i id' ts
      obtain ⟨vs, rfl, hvs⟩ := hasTy_prod_struct hv
      rw [slot_nonvoid env _ (show (Ty.struct id' ts).isVoid = false from rfl), repr_prod]
      simp only [bind, resolveP, bindingsOf, productTys, pmatch, List.singleton_append] at hm ⊢
      rw [run_cons]; simp only [step, Option.bind]
      exact bindList_ok env ps π 0 ts D vs stk locs tk ht.2 hvs hm
    | .variant0 e idx =>
      cases ty <;> simp [patTyped] at ht
      rename_i e'
      rw [slot_nonvoid env _ (show (Ty.enum e').isVoid = false from rfl)]
      simp [bind, resolveP, bindingsOf, run_cons, step, run_nil]
    | .variantPos e idx q =>
      cases ty <;> simp [patTyped] at ht
      rename_i e'
      obtain ⟨⟨he, hs⟩, hq⟩ := ht
      subst he
      obtain ⟨i', pl, rfl, hs', hpl⟩ := hasTy_enum hv
      rw [slot_nonvoid env _ (show (Ty.enum e).isVoid = false from rfl)]
      simp only [bind, resolveP] at hm ⊢
      by_cases hvoid : (dataTy env e idx).isVoid = true
      · simp only [hvoid, if_true, bindingsOf] at hm ⊢
        rw [isVoid_eq hvoid] at hq ⊢
        simp [bindingsOf_void q pl hq, run_cons, step, run_nil]
      · have hnv : (dataTy env e idx).isVoid = false := by simpa using hvoid
        simp only [hnv, Bool.false_eq_true, if_false, bindingsOf, pmatch, Bool.and_eq_true, beq_iff_eq] at hm ⊢
        obtain ⟨hi, hm'⟩ := hm
        subst hi
        rw [repr_variant_payload env e idx pl hs hnv hpl, List.singleton_append, List.cons_append, run_cons]
        simp only [step, Option.bind]
        rw [List.cons_append, run_cons]
        simp only [step, Option.bind, List.nil_append]
        have := bind_ok env q (π ++ [0]) (dataTy env e idx) D pl stk locs tk hq hpl hm'
        rwa [slot_nonvoid env pl hnv] at this
    | .variantNamed e idx ps =>
      cases ty <;> simp [patTyped] at ht
      rename_i e'
      obtain ⟨⟨⟨he, hs⟩, hps⟩, hne⟩ := ht
      subst he
      obtain ⟨i', pl, rfl, hs', hpl⟩ := hasTy_enum hv
      obtain ⟨fs, hfs⟩ := Option.isSome_iff_exists.1 hs
      have hd := dataTy_some hfs
      rw [hfs] at hps; simp only [Option.getD_some] at hps
      rw [slot_nonvoid env _ (show (Ty.enum e).isVoid = false from rfl)]
      simp only [bind, resolveP, hfs, Option.getD_some] at hm ⊢
      match ps, fs, hps, hne, hd with
      | [q], [t], hps, _, hd =>
        simp only [dataTyOfFields] at hd
        have hqt : patTyped env q t = true := by simpa [patsTyped] using hps
        simp only [List.length_singleton, beq_self_eq_true, if_true, List.headD_cons] at hm ⊢
        by_cases hvoid : t.isVoid = true
        · simp only [hvoid, if_true, bindingsOf, hfs, Option.getD_some, bindingsNamed] at hm ⊢
          have hqt' : patTyped env q .void = true := by rw [← isVoid_eq hvoid]; exact hqt
          have hb : bindingsOf env t q pl = [] := by rw [isVoid_eq hvoid]; exact bindingsOf_void q pl hqt'
          simp [hb, run_cons, step, run_nil]
        · have hnv : t.isVoid = false := by simpa using hvoid
          simp only [hnv, Bool.false_eq_true, if_false, bindingsOf, pmatch, Bool.and_eq_true, beq_iff_eq, hfs,
            Option.getD_some] at hm ⊢
          obtain ⟨hi, hm'⟩ := hm
          subst hi
          rw [hd] at hpl
          rw [repr_variant_payload env e idx pl hs (by rw [hd]; exact hnv) (by rw [hd]; exact hpl), hd,
            List.singleton_append, List.cons_append, run_cons]
          simp only [step, Option.bind]
          rw [List.cons_append, run_cons]
          simp only [step, Option.bind, List.nil_append]
          have hm'' : pmatchAll (resolveElems env π 0 [t] [q] D) [pl] = true := by
            simp only [resolveElems, List.headD_cons, pmatchNamed] at hm' ⊢
            simp [pmatchAll, hm']
          have := bindList_ok env [q] π 0 [t] D [pl] stk locs tk hps (by simp [hasTys, hpl]) hm''
          have hrf : reprFields env [t] [pl] ++ stk = repr env t pl :: stk := by
            simp [reprFields, hnv]
          rw [hrf] at this
          show run (bindList env π 0 [t] [q] D) (mk (repr env t pl :: stk) locs tk none) = _
          rw [this]
          simp [resolveElems, bindingsList, bindingsNamed]
      | q :: q' :: qs, t :: t' :: ts, hps, _, hd =>
        simp only [dataTyOfFields] at hd
        have hlen : ((q :: q' :: qs).length == 1) = false := by simp
        simp only [hlen, Bool.false_eq_true, if_false, bindingsOf, pmatch, Bool.and_eq_true, beq_iff_eq, hfs,
          Option.getD_some] at hm ⊢
        obtain ⟨hi, hm'⟩ := hm
        subst hi
        rw [hd] at hpl
        obtain ⟨vs, rfl, hvs⟩ := hasTy_prod_tuple hpl
        rw [repr_variant_payload env e idx (.prod vs) hs (by rw [hd]; rfl) (by rw [hd]; exact hpl), hd, repr_prod,
          List.singleton_append, List.cons_append, run_cons]
        simp only [step, Option.bind]
        rw [List.cons_append, run_cons]
        simp only [step, Option.bind]
        rw [List.cons_append, run_cons]
        simp only [step, Option.bind, List.nil_append, productTys]
        have hrl := resolveElems_length env π 0 (t :: t' :: ts) (q :: q' :: qs) D
        have hm'' : pmatchAll (resolveElems env π 0 (t :: t' :: ts) (q :: q' :: qs) D) vs = true := by
          match hr : resolveElems env π 0 (t :: t' :: ts) (q :: q' :: qs) D, hrl with
          | a :: b :: c, _ => rw [hr] at hm'; simpa [pmatchNamed] using hm'
        rw [bindList_ok env (q :: q' :: qs) π 0 (t :: t' :: ts) D vs stk locs tk hps hvs hm'']
        match hr : resolveElems env π 0 (t :: t' :: ts) (q :: q' :: qs) D, hrl with
        | a :: b :: c, _ => simp [bindingsNamed]
      | [], [], _, hne, _ => simp at hne
      | [q], _ :: _ :: _, hps, _, _ => simp [patsTyped] at hps
      | [q], [], hps, _, _ => simp [patsTyped] at hps
      | _ :: _ :: _, [t], hps, _, _ => simp [patsTyped] at hps
      | _ :: _ :: _, [], hps, _, _ => simp [patsTyped] at hps
      | [], _ :: _, hps, _, _ => simp [patsTyped] at hps
  theorem bindList_ok (env : EnumEnv) (ps : List Pat) (π : Path) (i : Nat) (tys : List Ty) (D : List Path)
      (vs : List Val) (stk : List SVal) (locs : List (Nat × SVal)) (tk : Option Nat)
      (ht : patsTyped env ps tys = true) (hvs : hasTys env vs tys = true)
      (hm : pmatchAll (resolveElems env π i tys ps D) vs = true) :
      run (bindList env π i tys ps D) (mk (reprFields env tys vs ++ stk) locs tk none) =
        some (mk stk ((bindingsList env tys (resolveElems env π i tys ps D) vs).reverse ++ locs) tk none) := by
    match ps, tys, vs, ht, hvs with
    | [], [], [], _, _ => simp [bindList, resolveElems, bindingsList, reprFields, run_nil]
    | p :: ps', t :: ts, v :: vs', ht, hvs =>
      simp only [patsTyped, Bool.and_eq_true] at ht
      simp only [hasTys, Bool.and_eq_true] at hvs
      simp only [resolveElems, List.headD_cons, List.drop_succ_cons, List.drop_zero, pmatchAll,
        Bool.and_eq_true] at hm
      simp only [bindList, resolveElems, List.headD_cons, List.drop_succ_cons, List.drop_zero, bindingsList,
        reprFields_cons, List.append_assoc, List.reverse_append]
      rw [run_append, bind_ok env p (π ++ [i]) t D v _ locs tk ht.1 hvs.1 hm.1, Option.bind,
        bindList_ok env ps' π (i + 1) ts _ vs' stk _ tk ht.2 hvs.2 hm.2]
    | [], _ :: _, _, ht, _ => simp [patsTyped] at ht
    | _ :: _, [], _, ht, _ => simp [patsTyped] at ht
    | [], [], _ :: _, _, hvs => simp [hasTys] at hvs
    | _ :: _, _ :: _, [], _, hvs => simp [hasTys] at hvs
end

/-! ## Or-free patterns: decisions play no role -/

mutual
  theorem orfree_resolve (env : EnumEnv) (p : Pat) (π : Path) (ty : Ty) (D : List Path) (h : orCount p = 0) :
      resolveP env π ty p D = p ∧ traverse env π p D = [] := by
    match p with
    | .wild => simp [resolveP, traverse]
    | .bind _ => simp [resolveP, traverse]
    | .void => simp [resolveP, traverse]
    | .bool _ => simp [resolveP, traverse]
    | .int _ => simp [resolveP, traverse]
    | .float _ => simp [resolveP, traverse]
    | .str _ => simp [resolveP, traverse]
    | .variant0 _ _ => simp [resolveP, traverse]
    | .or a b => simp [orCount] at h
    | .tuple ps =>
      simp only [orCount] at h
      obtain ⟨h2, h3⟩ := orfree_resolveElems env ps π 0 (productTys ty) D h
      exact ⟨by simp [resolveP, h2], by simp [traverse, h3]⟩
    | .struct _ ps =>
      simp only [orCount] at h
      obtain ⟨h2, h3⟩ := orfree_resolveElems env ps π 0 (productTys ty) D h
      exact ⟨by simp [resolveP, h2], by simp [traverse, h3]⟩
    | .variantPos e idx q =>
      simp only [orCount] at h
      obtain ⟨h2, h3⟩ := orfree_resolve env q (π ++ [0]) (dataTy env e idx) D h
      simp only [resolveP, traverse]
      split <;> simp [h2, h3]
    | .variantNamed e idx ps =>
      simp only [orCount] at h
      obtain ⟨h2, h3⟩ := orfree_resolveElems env ps π 0 ((variantFields env e idx).getD []) D h
      simp only [resolveP, traverse]
      split
      · split <;> simp [h2, h3]
      · simp [h2, h3]
  theorem orfree_resolveElems (env : EnumEnv) (ps : List Pat) (π : Path) (i : Nat) (tys : List Ty) (D : List Path)
      (h : orCountList ps = 0) :
      resolveElems env π i tys ps D = ps ∧ traverseList env π i ps D = [] := by
    match ps with
    | [] => simp [resolveElems, traverseList]
    | p :: ps =>
      simp only [orCountList] at h
      obtain ⟨h2, h3⟩ := orfree_resolve env p (π ++ [i]) (tys.headD .void) D (by omega)
      obtain ⟨g2, g3⟩ := orfree_resolveElems env ps π (i + 1) (tys.drop 1) D (by omega)
      simp only [resolveElems, traverseList]
      rw [h2, h3, g2, g3]; simp
end

mutual
  /-- the binding code contains no labels -/
  theorem bind_nolabels (env : EnumEnv) (p : Pat) (π : Path) (ty : Ty) (D : List Path) :
      labelsOf (bind env π ty p D) = [] := by
    match p with
    | .wild => simp only [bind]; split <;> simp [labelsOf]
    | .bind _ => simp only [bind]; split <;> simp [labelsOf]
    | .void => simp [bind]
    | .bool _ => simp [bind, labelsOf]
    | .int _ => simp [bind, labelsOf]
    | .float _ => simp [bind, labelsOf]
    | .str _ => simp [bind, labelsOf]
    | .variant0 _ _ => simp [bind, labelsOf]
    | .or a b =>
      simp only [bind]
      split
      · exact bind_nolabels env b _ ty D
      · exact bind_nolabels env a _ ty D
    | .tuple ps => simp [bind, labelsOf, bindList_nolabels env ps π 0 _ D]
    | .struct _ ps => simp [bind, labelsOf, bindList_nolabels env ps π 0 _ D]
    | .variantPos e idx q =>
      simp only [bind]
      split
      · simp [labelsOf]
      · simp [labelsOf, bind_nolabels env q _ _ D]
    | .variantNamed e idx ps =>
      simp only [bind]
      split
      · split
        · simp [labelsOf]
        · simp [labelsOf, bindList_nolabels env ps π 0 _ D]
      · simp [labelsOf, bindList_nolabels env ps π 0 _ D]
  theorem bindList_nolabels (env : EnumEnv) (ps : List Pat) (π : Path) (i : Nat) (tys : List Ty) (D : List Path) :
      labelsOf (bindList env π i tys ps D) = [] := by
    match ps with
    | [] => simp [bindList]
    | p :: ps => simp [bindList, bind_nolabels env p _ _ D, bindList_nolabels env ps π (i + 1) _ _]
end

/-! ## The match expression: passes -/

abbrev Pass := Nat × List Path × List Instr

/-- the passes are numbered from `pass`; each holds the comparison code of its arm under its own
    decision set -/
def wfPasses (env : EnumEnv) (ty : Ty) (arms : List Pat) : Nat → List Pass → Prop
  | _, [] => True
  | pass, (a, D, code) :: rest =>
    code = [Instr.dup] ++ cmp env [a] ty (arms.getD a .wild) D ++ [.jumpIf (lblArm pass)] ∧
      a < arms.length ∧ wfPasses env ty arms (pass + 1) rest

theorem wfPasses_append (env : EnumEnv) (ty : Ty) (arms : List Pat) (pass : Nat) (P Q : List Pass) :
    wfPasses env ty arms pass (P ++ Q) ↔
      wfPasses env ty arms pass P ∧ wfPasses env ty arms (pass + P.length) Q := by
  induction P generalizing pass with
  | nil => simp [wfPasses]
  | cons x P ih =>
    obtain ⟨a, D', code⟩ := x
    simp only [List.cons_append, wfPasses, ih, List.length_cons]
    rw [show pass + 1 + P.length = pass + (P.length + 1) by omega]
    constructor
    · rintro ⟨h2, h3, h4, h5⟩; exact ⟨⟨h2, h3, h4⟩, h5⟩
    · rintro ⟨⟨h2, h3, h4⟩, h5⟩; exact ⟨h2, h3, h4, h5⟩

theorem armPasses_wf (env : EnumEnv) (ty : Ty) (arms : List Pat) (a : Nat) (ha : a < arms.length)
    (fuel pass : Nat) (D : List Path) :
    wfPasses env ty arms pass ((armPasses env ty a (arms.getD a .wild) fuel pass D).map (fun c => (a, c))) := by
  induction fuel generalizing pass D with
  | zero => simp [armPasses, wfPasses]
  | succ fuel ih =>
    simp only [armPasses]
    split
    · simp only [List.map_cons, List.map_nil]
      exact ⟨rfl, ha, trivial⟩
    · simp only [List.map_cons]
      exact ⟨rfl, ha, ih _ _⟩

theorem allPasses_wf (env : EnumEnv) (ty : Ty) (arms : List Pat) (ps : List Pat) (a pass : Nat)
    (hps : ∀ j, j < ps.length → a + j < arms.length ∧ arms.getD (a + j) .wild = ps.getD j .wild) :
    wfPasses env ty arms pass (allPasses env ty a ps pass) := by
  induction ps generalizing a pass with
  | nil => simp [allPasses, wfPasses]
  | cons p ps ih =>
    have h0 := hps 0 (by simp)
    simp only [Nat.add_zero, List.getD_cons_zero] at h0
    simp only [allPasses]
    rw [wfPasses_append]
    have hw := armPasses_wf env ty arms a h0.1 (2 ^ orCount p) pass []
    rw [h0.2] at hw
    refine ⟨hw, ?_⟩
    rw [List.length_map]
    apply ih
    intro j hj
    have := hps (j + 1) (by simp; omega)
    simpa [Nat.add_assoc, Nat.add_comm 1 j] using this

theorem wfPasses_labels (env : EnumEnv) (ty : Ty) (arms : List Pat) (pass : Nat) (P : List Pass)
    (h : wfPasses env ty arms pass P) :
    ∀ l ∈ labelsOf (P.flatMap (fun x => x.2.2)), 1 ≤ l.path.length := by
  induction P generalizing pass with
  | nil => simp
  | cons x P ih =>
    obtain ⟨a, D', code⟩ := x
    obtain ⟨hc, _, hrest⟩ := h
    intro l hl
    simp only [List.flatMap_cons, labelsOf_append, List.mem_append] at hl
    rcases hl with hl | hl
    · subst hc
      simp only [labelsOf_append, labelsOf, List.nil_append, List.append_nil] at hl
      have := cmp_labels env [a] ty _ D' l hl; simpa using this
    · exact ih _ hrest l hl

/-- the alternative pass `x` compares (and binds) -/
def passPat (env : EnumEnv) (ty : Ty) (arms : List Pat) (x : Pass) : Pat :=
  resolveP env [x.1] ty (arms.getD x.1 .wild) x.2.1

theorem passPat_mk (env : EnumEnv) (ty : Ty) (arms : List Pat) (a : Nat) (D : List Path) (c : List Instr) :
    passPat env ty arms (a, D, c) = resolveP env [a] ty (arms.getD a .wild) D := rfl

/-- comparison phase: ends skipping to the label of the first pass whose alternative matches -/
theorem comparePhase (env : EnumEnv) (ty : Ty) (arms : List Pat) (v : Val) (hv : hasTy env v ty = true)
    (hnv : ty.isVoid = false) (harms : ∀ p ∈ arms, patTyped env p ty = true)
    (P : List Pass) (pass : Nat) (hwf : wfPasses env ty arms pass P)
    (stk : List SVal) (locs : List (Nat × SVal)) (tk : Option Nat) :
    run (P.flatMap (fun x => x.2.2)) (mk (repr env ty v :: stk) locs tk none) =
      some (match P.findIdx? (fun x => pmatch (passPat env ty arms x) v) with
        | some r => mk (repr env ty v :: stk) locs tk (some (lblArm (pass + r)))
        | none => mk (repr env ty v :: stk) locs tk none) := by
  induction P generalizing pass with
  | nil => simp [run_nil]
  | cons x P ih =>
    obtain ⟨a, D', code⟩ := x
    obtain ⟨hc, ha, hrest⟩ := hwf
    subst hc
    have htp : patTyped env (arms.getD a .wild) ty = true := by
      rw [List.getD_eq_getElem?_getD, List.getElem?_eq_getElem ha]
      exact harms _ (List.getElem_mem ha)
    simp only [List.flatMap_cons, List.append_assoc, List.singleton_append, List.cons_append, List.nil_append]
    rw [run_cons]; simp only [step, Option.bind]
    rw [run_append]
    have hc := cmp_ok env (arms.getD a .wild) [a] ty D' v (repr env ty v :: stk) locs tk htp hv
    rw [slot_nonvoid env v hnv, List.singleton_append] at hc
    rw [hc, Option.bind, run_cons]
    simp only [step, Option.bind, List.findIdx?_cons, passPat_mk]
    by_cases hb : pmatch (resolveP env [a] ty (arms.getD a .wild) D') v = true
    · simp only [hb, if_true, Nat.add_zero]
      apply run_skip
      rw [mem_labelsOf]
      intro hm
      have := wfPasses_labels env ty arms _ P hrest _ hm
      simp [lblArm] at this
    · have hb' : pmatch (resolveP env [a] ty (arms.getD a .wild) D') v = false := by simpa using hb
      simp only [hb', Bool.false_eq_true, if_false]
      rw [ih (pass + 1) hrest]
      cases P.findIdx? (fun x => pmatch (passPat env ty arms x) v) with
      | none => rfl
      | some r => simp only [Option.map_some]; rw [show pass + 1 + r = pass + (r + 1) by omega]

theorem bodies_labels (env : EnumEnv) (ty : Ty) (arms : List Pat) (pass : Nat) (L : List Pass) :
    ∀ l ∈ labelsOf (bodies env ty arms pass L), l.path = [] ∧ 100 ≤ l.kind := by
  induction L generalizing pass with
  | nil => simp [bodies]
  | cons x L ih =>
    obtain ⟨a, D, c⟩ := x
    intro l hl
    simp only [bodies, labelsOf_append, labelsOf, bind_nolabels, List.nil_append, List.cons_append,
      List.mem_cons, List.mem_append] at hl
    rcases hl with hl | hl | hl
    · subst hl; simp [lblArm]
    · split at hl <;> simp [labelsOf] at hl
    · exact ih _ l hl

/-- body phase: skipping to `lblArm (pass + r)` reaches the body of pass `r`, which binds through the
    alternative that pass compared and leaves through `endmatch` -/
theorem bodiesPhase (env : EnumEnv) (ty : Ty) (arms : List Pat) (v : Val) (hv : hasTy env v ty = true)
    (hnv : ty.isVoid = false) (harms : ∀ p ∈ arms, patTyped env p ty = true)
    (P : List Pass) (pass : Nat) (hwf : wfPasses env ty arms pass P)
    (r : Nat) (x : Pass) (hx : P[r]? = some x) (hm : pmatch (passPat env ty arms x) v = true)
    (stk : List SVal) (locs : List (Nat × SVal)) (tk : Option Nat) :
    run (bodies env ty arms pass P ++ [.label lblEndMatch])
      (mk (repr env ty v :: stk) locs tk (some (lblArm (pass + r)))) =
      some (mk stk ((bindingsOf env ty (passPat env ty arms x) v).reverse ++ locs) (some (pass + r)) none) := by
  induction P generalizing pass r with
  | nil => simp at hx
  | cons y P ih =>
    obtain ⟨a, D', code⟩ := y
    obtain ⟨hc, ha, hrest⟩ := hwf
    have htp : patTyped env (arms.getD a .wild) ty = true := by
      rw [List.getD_eq_getElem?_getD, List.getElem?_eq_getElem ha]
      exact harms _ (List.getElem_mem ha)
    simp only [bodies, List.append_assoc, List.singleton_append, List.cons_append, List.nil_append]
    rw [run_cons]
    cases r with
    | zero =>
      simp only [List.getElem?_cons_zero, Option.some.injEq] at hx
      subst hx
      simp only [Nat.add_zero, run_skip_label, Option.bind, passPat_mk] at hm ⊢
      rw [run_append]
      have hb := bind_ok env (arms.getD a .wild) [a] ty D' v stk locs tk htp hv hm
      rw [slot_nonvoid env v hnv, List.singleton_append] at hb
      rw [hb, Option.bind, run_cons]
      simp only [step, Option.bind]
      by_cases hemp : P.isEmpty = true
      · have : P = [] := by simpa using hemp
        subst this
        simp [bodies, run_cons, step, run_nil]
      · simp only [hemp, Bool.false_eq_true, if_false, List.singleton_append, List.cons_append, List.nil_append]
        rw [run_cons]
        simp only [step, Option.bind]
        rw [run_append, run_skip _ _ _ _ _ (by
          rw [mem_labelsOf]; intro hmem
          have := bodies_labels env ty arms _ _ _ hmem
          simp [lblEndMatch] at this), Option.bind, run_cons, run_skip_label, Option.bind, run_nil]
    | succ r =>
      have hne : Instr.label (lblArm pass) ≠ Instr.label (lblArm (pass + (r + 1))) := by simp [lblArm]
      rw [step_skip_ne _ _ hne, Option.bind, run_append,
        run_skip _ _ _ _ _ (by rw [mem_labelsOf, bind_nolabels]; simp), Option.bind, run_cons,
        step_skip_ne _ _ (by simp), Option.bind, run_append,
        run_skip _ _ _ _ _ (by split <;> simp [lblArm, lblEndMatch]), Option.bind]
      have := ih (pass + 1) hrest r (by simpa using hx)
      rw [show pass + 1 + r = pass + (r + 1) by omega] at this
      exact this

/-- **the whole match, as the code is**: the body entered is that of the first pass (in emission order)
    whose selected alternative matches the value; it binds through that alternative; the stack below
    the scrutinee is untouched -/
theorem runMatch_general (env : EnumEnv) (ty : Ty) (arms : List Pat) (v : Val) (stk : List SVal)
    (hnv : ty.isVoid = false) (harms : ∀ p ∈ arms, patTyped env p ty = true) (hv : hasTy env v ty = true)
    (r : Nat) (x : Pass)
    (hr : (allPasses env ty 0 arms 0).findIdx? (fun x => pmatch (passPat env ty arms x) v) = some r)
    (hx : (allPasses env ty 0 arms 0)[r]? = some x) :
    runMatch env ty arms v stk =
      some (some x.1, some r, (bindingsOf env ty (passPat env ty arms x) v).reverse, stk) := by
  have hwf := allPasses_wf env ty arms arms 0 0 (fun j hj => by simpa using hj)
  obtain ⟨hrlt, hrm, _⟩ := List.findIdx?_eq_some_iff_getElem.1 hr
  have hxe : x = (allPasses env ty 0 arms 0)[r] := by
    rw [List.getElem?_eq_getElem hrlt] at hx; exact (Option.some.inj hx).symm
  unfold runMatch matchCode
  simp only [hnv, Bool.false_eq_true, if_false, List.append_assoc]
  rw [run_append]
  have h1 := comparePhase env ty arms v hv hnv harms _ 0 hwf stk [] none
  rw [hr] at h1
  simp only [Nat.zero_add] at h1
  rw [show ({ stack := repr env ty v :: stk, locals := [], taken := none, skip := none } : St) =
    mk (repr env ty v :: stk) [] none none from rfl, h1, Option.bind]
  have h2 := bodiesPhase env ty arms v hv hnv harms _ 0 hwf r x hx (by rw [hxe]; exact hrm) stk [] none
  simp only [Nat.zero_add] at h2
  rw [h2]
  simp only [List.append_nil, Option.map_some]
  have : ((allPasses env ty 0 arms 0).map (fun x => x.1)).getD r 0 = x.1 := by
    rw [List.getD_eq_getElem?_getD, List.getElem?_map, hx]; rfl
  rw [this]

/-! ## `let` / `var` / `for` after D103: bind under the first combination that matches -/

theorem armPasses_ne_nil (env : EnumEnv) (ty : Ty) (a : Nat) (p : Pat) (fuel pass : Nat) (D : List Path)
    (h : 1 ≤ fuel) : armPasses env ty a p fuel pass D ≠ [] := by
  cases fuel with
  | zero => omega
  | succ f => simp only [armPasses]; split <;> simp

theorem letBodies_labels (env : EnumEnv) (ty : Ty) (p : Pat) (k : Nat) (L : List (List Path × List Instr)) :
    ∀ l ∈ labelsOf (letBodies env ty p k L), l.path = [] ∧ 100 ≤ l.kind := by
  induction L generalizing k with
  | nil => simp [letBodies]
  | cons x L ih =>
    obtain ⟨D, c⟩ := x
    intro l hl
    simp only [letBodies, labelsOf_append, labelsOf, bind_nolabels, List.nil_append, List.cons_append,
      List.mem_cons] at hl
    rcases hl with hl | hl
    · subst hl; simp [lblArm]
    · exact ih _ l hl

/-- entering the bodies in running mode (after the untested last combination was bound): leave -/
theorem letBodies_running (env : EnumEnv) (ty : Ty) (p : Pat) (k : Nat) (L : List (List Path × List Instr))
    (stk : List SVal) (locs : List (Nat × SVal)) (tk : Option Nat) :
    run (letBodies env ty p k L ++ [.label lblEndMatch]) (mk stk locs tk none) = some (mk stk locs tk none) := by
  cases L with
  | nil => simp [letBodies, run_cons, step, run_nil]
  | cons x L =>
    obtain ⟨D, c⟩ := x
    simp only [letBodies, List.append_assoc, List.cons_append, List.nil_append]
    rw [run_cons]; simp only [step, Option.bind]
    rw [run_cons, step_skip_ne _ _ (by simp [lblArm, lblEndMatch]; omega), Option.bind, run_append,
      run_skip _ _ _ _ _ (by rw [mem_labelsOf, bind_nolabels]; simp), Option.bind, run_append,
      run_skip _ _ _ _ _ (by
        rw [mem_labelsOf]; intro hm
        have := letBodies_labels env ty p _ _ _ hm
        simp [lblEndMatch] at this), Option.bind, run_cons, run_skip_label, Option.bind, run_nil]

/-- skipping to `bind_r`: bind under combination `r`, then leave -/
theorem letBodies_skip (env : EnumEnv) (ty : Ty) (p : Pat) (v : Val) (ht : patTyped env p ty = true)
    (hv : hasTy env v ty = true) (hnv : ty.isVoid = false) (L : List (List Path × List Instr)) (k r : Nat)
    (D : List Path) (c : List Instr) (hx : L[r]? = some (D, c)) (hm : pmatch (resolveP env [0] ty p D) v = true)
    (stk : List SVal) (locs : List (Nat × SVal)) (tk : Option Nat) :
    run (letBodies env ty p k L ++ [.label lblEndMatch])
      (mk (repr env ty v :: stk) locs tk (some (lblArm (k + r)))) =
      some (mk stk ((bindingsOf env ty (resolveP env [0] ty p D) v).reverse ++ locs) tk none) := by
  induction L generalizing k r with
  | nil => simp at hx
  | cons y L ih =>
    obtain ⟨D', c'⟩ := y
    simp only [letBodies, List.append_assoc, List.cons_append, List.nil_append]
    rw [run_cons, step_skip_ne _ _ (by simp), Option.bind, run_cons]
    cases r with
    | zero =>
      simp only [List.getElem?_cons_zero, Option.some.injEq, Prod.mk.injEq] at hx
      obtain ⟨rfl, rfl⟩ := hx
      simp only [Nat.add_zero, run_skip_label, Option.bind]
      rw [run_append]
      have hb := bind_ok env p [0] ty D' v stk locs tk ht hv hm
      rw [slot_nonvoid env v hnv, List.singleton_append] at hb
      rw [hb, Option.bind]
      exact letBodies_running env ty p _ L stk _ tk
    | succ r =>
      have hne : Instr.label (lblArm k) ≠ Instr.label (lblArm (k + (r + 1))) := by simp [lblArm]
      rw [step_skip_ne _ _ hne, Option.bind, run_append,
        run_skip _ _ _ _ _ (by rw [mem_labelsOf, bind_nolabels]; simp), Option.bind]
      have := ih (k + 1) r (by simpa using hx)
      rw [show k + 1 + r = k + (r + 1) by omega] at this
      exact this

/-- **`bind_irrefutable_pat`**: the variables are bound under the first combination of or-pattern
    alternatives that matches the value (combinations in the order of the arm loop), the value is
    consumed and nothing else is touched -/
theorem runLet_general (env : EnumEnv) (ty : Ty) (p : Pat) (v : Val) (stk : List SVal)
    (hnv : ty.isVoid = false) (ht : patTyped env p ty = true) (hv : hasTy env v ty = true)
    (r : Nat) (D : List Path) (c : List Instr)
    (hr : (armPasses env ty 0 p (2 ^ orCount p) 0 []).findIdx? (fun x => pmatch (resolveP env [0] ty p x.1) v) = some r)
    (hx : (armPasses env ty 0 p (2 ^ orCount p) 0 [])[r]? = some (D, c)) :
    runLet env ty p v stk = some ((bindingsOf env ty (resolveP env [0] ty p D) v).reverse, stk) := by
  obtain ⟨hrlt, hrm, hrmin⟩ := List.findIdx?_eq_some_iff_getElem.1 hr
  have hxe : (armPasses env ty 0 p (2 ^ orCount p) 0 [])[r] = (D, c) := by
    rw [List.getElem?_eq_getElem hrlt] at hx; exact Option.some.inj hx
  have hm : pmatch (resolveP env [0] ty p D) v = true := by rw [hxe] at hrm; exact hrm
  have hne := armPasses_ne_nil env ty 0 p (2 ^ orCount p) 0 [] (Nat.one_le_two_pow)
  have hwf := armPasses_wf env ty [p] 0 (by simp) (2 ^ orCount p) 0 []
  simp only [List.getD_cons_zero] at hwf
  unfold runLet letCode
  simp only [hnv, Bool.false_eq_true, if_false, Bool.or_false]
  generalize hP : armPasses env ty 0 p (2 ^ orCount p) 0 [] = P at *
  rcases List.eq_nil_or_concat P with hnil | ⟨init, last, hcat⟩
  · exact absurd hnil hne
  · rw [List.concat_eq_append] at hcat
    subst hcat
    obtain ⟨Dl, cl⟩ := last
    by_cases hone : init = []
    · -- a single combination
      subst hone
      have hr0 : r = 0 := by simp at hrlt; omega
      subst hr0
      simp only [List.nil_append, List.getElem_cons_zero, Prod.mk.injEq] at hxe
      obtain ⟨rfl, rfl⟩ := hxe
      simp only [List.nil_append, List.length_singleton, beq_self_eq_true, if_true, List.head?_cons,
        Option.map_some, Option.getD_some]
      have hb := bind_ok env p [0] ty Dl v stk [] none ht hv hm
      rw [slot_nonvoid env v hnv, List.singleton_append] at hb
      rw [show ({ stack := repr env ty v :: stk, locals := [], taken := none, skip := none } : St) =
        mk (repr env ty v :: stk) [] none none from rfl, hb]
      simp
    · have hlen : ((init ++ [(Dl, cl)]).length == 1) = false := by
        cases init with
        | nil => exact absurd rfl hone
        | cons _ _ => simp
      simp only [hlen, Bool.false_eq_true, if_false, List.dropLast_concat, List.getLast?_concat, Option.map_some,
        Option.getD_some, List.append_assoc]
      rw [List.map_append, wfPasses_append] at hwf
      have hcmp := comparePhase env ty [p] v hv hnv (by simpa using ht) (init.map (fun c => ((0 : Nat), c))) 0 hwf.1
        stk [] none
      have hflat : (init.map (fun c => ((0 : Nat), c))).flatMap (fun x => x.2.2) = init.flatMap (fun x => x.2) := by
        simp [List.flatMap_map]
      have hfind : (init.map (fun c => ((0 : Nat), c))).findIdx? (fun x => pmatch (passPat env ty [p] x) v) =
          init.findIdx? (fun x => pmatch (resolveP env [0] ty p x.1) v) := by
        rw [List.findIdx?_map]; rfl
      rw [hflat, hfind] at hcmp
      rw [show ({ stack := repr env ty v :: stk, locals := [], taken := none, skip := none } : St) =
        mk (repr env ty v :: stk) [] none none from rfl, run_append, hcmp]
      rw [List.findIdx?_append] at hr
      by_cases hin : r < init.length
      · -- one of the tested combinations
        have hfi : init.findIdx? (fun x => pmatch (resolveP env [0] ty p x.1) v) = some r := by
          cases hf : init.findIdx? (fun x => pmatch (resolveP env [0] ty p x.1) v) with
          | some r' => rw [hf] at hr; simpa using hr
          | none =>
            rw [hf] at hr
            simp only [Option.none_or, Option.map_eq_some_iff] at hr
            obtain ⟨j, _, hj⟩ := hr; omega
        rw [hfi]
        simp only [Option.bind, Nat.zero_add]
        rw [run_append, run_skip _ _ _ _ _ (by rw [mem_labelsOf, bind_nolabels]; simp), Option.bind]
        have hxi : init[r]? = some (D, c) := by
          rw [List.getElem?_append_left hin] at hx; exact hx
        have := letBodies_skip env ty p v ht hv hnv init 0 r D c hxi hm stk [] none
        simp only [Nat.zero_add] at this
        rw [this]; simp
      · -- the untested last one
        have hrl : r = init.length := by simp at hrlt; omega
        have hfi : init.findIdx? (fun x => pmatch (resolveP env [0] ty p x.1) v) = none := by
          cases hf : init.findIdx? (fun x => pmatch (resolveP env [0] ty p x.1) v) with
          | none => rfl
          | some r' =>
            rw [hf] at hr
            have := List.findIdx?_eq_some_iff_getElem.1 hf
            obtain ⟨h1, _, _⟩ := this
            simp at hr; omega
        rw [hfi]
        simp only [Option.bind]
        have hlast : (Dl, cl) = (D, c) := by
          subst hrl
          simpa using hxe
        obtain ⟨rfl, rfl⟩ := Prod.mk.inj hlast
        rw [run_append]
        have hb := bind_ok env p [0] ty Dl v stk [] none ht hv hm
        rw [slot_nonvoid env v hnv, List.singleton_append] at hb
        rw [hb, Option.bind, letBodies_running]
        simp

/-! ## Or-chains `a | b | c` of or-free alternatives -/

/-- the alternatives of a right-nested or-chain (the parser builds `a | (b | c)`) -/
def alts : Pat → List Pat
  | .or l r => l :: alts r
  | .wild => [.wild]
  | .bind x => [.bind x]
  | .bool b => [.bool b]
  | .int i => [.int i]
  | .float f => [.float f]
  | .str s => [.str s]
  | .void => [.void]
  | .tuple ps => [.tuple ps]
  | .struct id ps => [.struct id ps]
  | .variant0 e i => [.variant0 e i]
  | .variantPos e i p => [.variantPos e i p]
  | .variantNamed e i ps => [.variantNamed e i ps]

/-- every alternative of the chain is or-free -/
def isChain (p : Pat) : Prop := ∀ q ∈ alts p, orCount q = 0

theorem alts_ne_nil (p : Pat) : alts p ≠ [] := by cases p <;> simp [alts]

theorem alts_orfree {p : Pat} (h : orCount p = 0) : alts p = [p] := by
  cases p <;> simp_all [alts, orCount]

theorem isChain_orfree {p : Pat} (h : orCount p = 0) : isChain p := by
  intro q hq; rw [alts_orfree h] at hq; simp at hq; subst hq; exact h

theorem pmatch_alts (p : Pat) (v : Val) : pmatch p v = (alts p).any (fun q => pmatch q v) := by
  match p with
  | .or l r => simp only [alts, List.any_cons, pmatch]; rw [pmatch_alts r v]
  | .wild => simp [alts]
  | .bind _ => simp [alts]
  | .bool _ => simp [alts]
  | .int _ => simp [alts]
  | .float _ => simp [alts]
  | .str _ => simp [alts]
  | .void => simp [alts]
  | .tuple _ => simp [alts]
  | .struct _ _ => simp [alts]
  | .variant0 _ _ => simp [alts]
  | .variantPos _ _ _ => simp [alts]
  | .variantNamed _ _ _ => simp [alts]

/-- binding through the chain = binding through its first alternative that matches -/
theorem bindingsOf_alts (env : EnumEnv) (ty : Ty) (p : Pat) (v : Val) (i : Nat) (q : Pat)
    (hi : (alts p).findIdx? (fun q => pmatch q v) = some i) (hq : (alts p)[i]? = some q) :
    bindingsOf env ty p v = bindingsOf env ty q v := by
  match p with
  | .or l r =>
    simp only [alts, List.findIdx?_cons] at hi
    simp only [bindingsOf]
    by_cases hl : pmatch l v = true
    · simp only [hl, if_true, Option.some.injEq] at hi ⊢
      subst hi; simp [alts] at hq; subst hq; rfl
    · have hl' : pmatch l v = false := by simpa using hl
      simp only [hl', Bool.false_eq_true, if_false, Option.map_eq_some_iff] at hi ⊢
      obtain ⟨i', hi', rfl⟩ := hi
      simp only [alts, List.getElem?_cons_succ] at hq
      exact bindingsOf_alts env ty r v i' q hi' hq
  | .wild => simp [alts, List.findIdx?_cons] at hi hq; obtain ⟨_, rfl⟩ := hi; simp at hq; subst hq; rfl
  | .bind _ => simp [alts, List.findIdx?_cons] at hi hq; obtain ⟨_, rfl⟩ := hi; simp at hq; subst hq; rfl
  | .bool _ => simp [alts, List.findIdx?_cons] at hi hq; obtain ⟨_, rfl⟩ := hi; simp at hq; subst hq; rfl
  | .int _ => simp [alts, List.findIdx?_cons] at hi hq; obtain ⟨_, rfl⟩ := hi; simp at hq; subst hq; rfl
  | .float _ => simp [alts, List.findIdx?_cons] at hi hq; obtain ⟨_, rfl⟩ := hi; simp at hq; subst hq; rfl
  | .str _ => simp [alts, List.findIdx?_cons] at hi hq; obtain ⟨_, rfl⟩ := hi; simp at hq; subst hq; rfl
  | .void => simp [alts, List.findIdx?_cons] at hi hq; obtain ⟨_, rfl⟩ := hi; simp at hq; subst hq; rfl
  | .tuple _ => simp [alts, List.findIdx?_cons] at hi hq; obtain ⟨_, rfl⟩ := hi; simp at hq; subst hq; rfl
  | .struct _ _ => simp [alts, List.findIdx?_cons] at hi hq; obtain ⟨_, rfl⟩ := hi; simp at hq; subst hq; rfl
  | .variant0 _ _ => simp [alts, List.findIdx?_cons] at hi hq; obtain ⟨_, rfl⟩ := hi; simp at hq; subst hq; rfl
  | .variantPos _ _ _ => simp [alts, List.findIdx?_cons] at hi hq; obtain ⟨_, rfl⟩ := hi; simp at hq; subst hq; rfl
  | .variantNamed _ _ _ => simp [alts, List.findIdx?_cons] at hi hq; obtain ⟨_, rfl⟩ := hi; simp at hq; subst hq; rfl

/-- path of the k-th or-node of a chain rooted at `π` -/
def node (π : Path) (k : Nat) : Path := π ++ List.replicate k 1

theorem node_zero (π : Path) : node π 0 = π := by simp [node]

theorem node_succ (π : Path) (k : Nat) : node (π ++ [1]) k = node π (k + 1) := by
  simp [node, List.replicate_succ]

theorem node_inj (π : Path) (k k' : Nat) (h : node π k = node π k') : k = k' := by
  have := congrArg List.length h
  simpa [node] using this

theorem alts_or_length (l r : Pat) : 2 ≤ (alts (.or l r)).length := by
  have := alts_ne_nil r
  cases h : alts r with
  | nil => exact absurd h this
  | cons _ _ => simp [alts, h]

/-- the or-nodes of a chain that a walk reaches when the first `i` of them are decided right -/
def reached (π : Path) (n i : Nat) : List Path :=
  (List.range (if i + 1 < n then i + 1 else n - 1)).map (node π)

theorem reached_succ (π : Path) (n i : Nat) (hn : 1 ≤ n) :
    π :: reached (π ++ [1]) n i = reached π (n + 1) (i + 1) := by
  unfold reached
  have hc : (if i + 1 + 1 < n + 1 then i + 1 + 1 else n + 1 - 1) = (if i + 1 < n then i + 1 else n - 1) + 1 := by
    split <;> split <;> omega
  rw [hc, List.range_succ_eq_map, List.map_cons, node_zero, List.map_map]
  congr 1
  apply List.map_congr_left
  intro k _
  simp [node_succ]

theorem chain_pass_orfree (env : EnumEnv) (ty : Ty) (p : Pat) (hof : orCount p = 0) (π : Path) (D : List Path)
    (i : Nat) (hi : i < (alts p).length) :
    resolveP env π ty p D = (alts p)[i] ∧ traverse env π p D = reached π (alts p).length i := by
  obtain ⟨g2, g3⟩ := orfree_resolve env p π ty D hof
  have ha := alts_orfree hof
  have hi0 : i = 0 := by rw [ha] at hi; simpa using hi
  subst hi0
  refine ⟨?_, ?_⟩
  · rw [g2]; simp [ha]
  · rw [g3]; simp [ha, reached]

/-- pass `i` of a chain: it compiles alternative `i` and reaches the or-nodes `0 … min(i, n-2)` -/
theorem chain_pass (env : EnumEnv) (ty : Ty) (p : Pat) (hchain : isChain p) (π : Path) (D : List Path) (i : Nat)
    (hi : i < (alts p).length) (hD : ∀ k, D.contains (node π k) = true ↔ k < i) :
    resolveP env π ty p D = (alts p)[i] ∧ traverse env π p D = reached π (alts p).length i := by
  match p with
  | .or l r =>
    have hl : orCount l = 0 := hchain l (by simp [alts])
    have hr : isChain r := fun q hq => hchain q (by simp [alts, hq])
    have h2 := alts_or_length l r
    have hlen : (alts (Pat.or l r)).length = (alts r).length + 1 := by simp [alts]
    have hc0 := hD 0
    rw [node_zero] at hc0
    cases i with
    | zero =>
      have hnc : D.contains π = false := by
        cases hc : D.contains π with
        | false => rfl
        | true => exact absurd (hc0.1 hc) (by omega)
      obtain ⟨g2, g3⟩ := orfree_resolve env l (π ++ [0]) ty D hl
      simp only [resolveP, traverse, hnc, Bool.false_eq_true, if_false, g2, g3]
      refine ⟨by simp [alts], ?_⟩
      unfold reached
      rw [if_pos (by omega)]
      simp [node_zero]
    | succ i =>
      have hc : D.contains π = true := hc0.2 (by omega)
      have hi' : i < (alts r).length := by omega
      obtain ⟨g1, g3⟩ := chain_pass env ty r hr (π ++ [1]) D i hi'
        (fun k => by rw [node_succ]; exact (hD (k + 1)).trans (by omega))
      simp only [resolveP, traverse, hc, if_true, g1, g3]
      refine ⟨by simp [alts], ?_⟩
      rw [hlen]
      exact reached_succ π _ i (by omega)
  | .wild => exact chain_pass_orfree env ty _ (hchain _ (by simp [alts])) π D i hi
  | .bind _ => exact chain_pass_orfree env ty _ (hchain _ (by simp [alts])) π D i hi
  | .bool _ => exact chain_pass_orfree env ty _ (hchain _ (by simp [alts])) π D i hi
  | .int _ => exact chain_pass_orfree env ty _ (hchain _ (by simp [alts])) π D i hi
  | .float _ => exact chain_pass_orfree env ty _ (hchain _ (by simp [alts])) π D i hi
  | .str _ => exact chain_pass_orfree env ty _ (hchain _ (by simp [alts])) π D i hi
  | .void => exact chain_pass_orfree env ty _ (hchain _ (by simp [alts])) π D i hi
  | .tuple _ => exact chain_pass_orfree env ty _ (hchain _ (by simp [alts])) π D i hi
  | .struct _ _ => exact chain_pass_orfree env ty _ (hchain _ (by simp [alts])) π D i hi
  | .variant0 _ _ => exact chain_pass_orfree env ty _ (hchain _ (by simp [alts])) π D i hi
  | .variantPos _ _ _ => exact chain_pass_orfree env ty _ (hchain _ (by simp [alts])) π D i hi
  | .variantNamed _ _ _ => exact chain_pass_orfree env ty _ (hchain _ (by simp [alts])) π D i hi

/-- `lastLeft` over consecutive or-nodes of which exactly those below `i` are decided -/
theorem lastLeft_nodes (π : Path) (D : List Path) (i : Nat) (hD : ∀ k, D.contains (node π k) = true ↔ k < i)
    (s c : Nat) :
    lastLeft ((List.range' s c).map (node π)) D = if c = 0 ∨ s + c ≤ i then none else some (c - 1) := by
  induction c generalizing s with
  | zero => simp [lastLeft]
  | succ c ih =>
    simp only [List.range'_succ, List.map_cons, lastLeft, ih (s + 1)]
    by_cases h1 : c = 0 ∨ s + 1 + c ≤ i
    · rw [if_pos h1]
      by_cases hs : s < i
      · have hc := (hD s).2 hs
        simp only [hc, if_true]
        rw [if_pos (by rcases h1 with h | h <;> omega)]
      · have hc : D.contains (node π s) = false := by
          cases h : D.contains (node π s) with
          | false => rfl
          | true => exact absurd ((hD s).1 h) hs
        simp only [hc, Bool.false_eq_true, if_false]
        rcases h1 with h | h
        · subst h; rw [if_neg (by omega)]
        · omega
    · rw [if_neg h1]
      simp only
      rw [if_neg (by omega)]
      congr 1; omega

theorem contains_cons_node (D : List Path) (a i k : Nat) :
    (node [a] i :: D).contains (node [a] k) = true ↔ (k = i ∨ D.contains (node [a] k) = true) := by
  simp only [List.contains_cons, Bool.or_eq_true, beq_iff_eq]
  constructor
  · rintro (h | h)
    · exact Or.inl (node_inj [a] k i h)
    · exact Or.inr h
  · rintro (h | h)
    · exact Or.inl (by rw [h])
    · exact Or.inr h

/-- the passes of a chain arm compile its alternatives in order -/
theorem armPasses_chain (env : EnumEnv) (ty : Ty) (arms : List Pat) (a : Nat) (p : Pat)
    (hp : arms.getD a .wild = p) (hchain : isChain p) :
    ∀ (m i pass fuel : Nat) (D : List Path), i + m = (alts p).length → 1 ≤ m → m ≤ fuel →
      (∀ k, D.contains (node [a] k) = true ↔ k < i) →
      ((armPasses env ty a p fuel pass D).map (fun c => passPat env ty arms (a, c))) = (alts p).drop i := by
  intro m
  induction m with
  | zero => intro i pass fuel D _ h1; omega
  | succ m ih =>
    intro i pass fuel D him _ hfuel hD
    have hi : i < (alts p).length := by omega
    obtain ⟨g1, g3⟩ := chain_pass env ty p hchain [a] D i hi hD
    cases fuel with
    | zero => omega
    | succ f =>
      have hpp : passPat env ty arms (a, D, [Instr.dup] ++ cmp env [a] ty p D ++ [.jumpIf (lblArm pass)]) =
          (alts p)[i] := by rw [passPat_mk, hp]; exact g1
      have hll : lastLeft (traverse env [a] p D) D =
          if i + 1 < (alts p).length then some i else none := by
        rw [g3]
        unfold reached
        rw [List.range_eq_range', lastLeft_nodes [a] D i hD]
        by_cases hlast : i + 1 < (alts p).length
        · rw [if_pos hlast, if_pos hlast, if_neg (by omega)]; simp
        · rw [if_neg hlast, if_neg hlast, if_pos (by omega)]
      simp only [armPasses, hll]
      by_cases hlast : i + 1 < (alts p).length
      · simp only [hlast, if_true, List.map_cons, hpp]
        have hnext : nextDecisions (traverse env [a] p D) i D = node [a] i :: D := by
          rw [g3]
          unfold nextDecisions reached
          rw [if_pos hlast]
          have h1 : ((List.range (i + 1)).map (node [a])).getD i [] = node [a] i := by
            simp [List.getD_eq_getElem?_getD]
          have h2 : ((List.range (i + 1)).map (node [a])).drop (i + 1) = [] := by
            apply List.drop_eq_nil_of_le; simp
          rw [h1, h2]; simp
        rw [hnext, ih (i + 1) (pass + 1) f (node [a] i :: D) (by omega) (by omega) (by omega)
          (fun k => by
            rw [contains_cons_node]
            constructor
            · rintro (h | h)
              · omega
              · have := (hD k).1 h; omega
            · intro h
              by_cases hk : k = i
              · exact Or.inl hk
              · exact Or.inr ((hD k).2 (by omega)))]
        exact (List.drop_eq_getElem_cons hi).symm
      · simp only [hlast, if_false, List.map_cons, List.map_nil, hpp]
        rw [List.drop_eq_getElem_cons hi, List.drop_eq_nil_of_le (by omega)]

/-- all alternatives of all arms, in order, with their arm index -/
def altList : Nat → List Pat → List (Nat × Pat)
  | _, [] => []
  | a, p :: ps => (alts p).map (fun q => (a, q)) ++ altList (a + 1) ps

theorem orCount_chain {p : Pat} (h : isChain p) : orCount p + 1 = (alts p).length := by
  match p with
  | .or l r =>
    have hl : orCount l = 0 := h l (by simp [alts])
    have hr : isChain r := fun q hq => h q (by simp [alts, hq])
    have := orCount_chain hr
    simp only [orCount, alts, List.length_cons]; omega
  | .wild => simp [orCount, alts]
  | .bind _ => simp [orCount, alts]
  | .bool _ => simp [orCount, alts]
  | .int _ => simp [orCount, alts]
  | .float _ => simp [orCount, alts]
  | .str _ => simp [orCount, alts]
  | .void => simp [orCount, alts]
  | .variant0 _ _ => simp [orCount, alts]
  | .tuple ps => have := h (.tuple ps) (by simp [alts]); simp [alts, this]
  | .struct id ps => have := h (.struct id ps) (by simp [alts]); simp [alts, this]
  | .variantPos e i q => have := h (.variantPos e i q) (by simp [alts]); simp [alts, this]
  | .variantNamed e i ps => have := h (.variantNamed e i ps) (by simp [alts]); simp [alts, this]

theorem allPasses_chain (env : EnumEnv) (ty : Ty) (arms : List Pat) :
    ∀ (ps : List Pat) (a pass : Nat),
      (∀ j, j < ps.length → arms.getD (a + j) .wild = ps.getD j .wild) → (∀ p ∈ ps, isChain p) →
      (allPasses env ty a ps pass).map (fun x => (x.1, passPat env ty arms x)) = altList a ps := by
  intro ps
  induction ps with
  | nil => intro a pass _ _; simp [allPasses, altList]
  | cons p ps ih =>
    intro a pass harms hch
    have hp : arms.getD a .wild = p := by simpa using harms 0 (by simp)
    have hcp := hch p (List.mem_cons_self ..)
    have hfuel : (alts p).length ≤ 2 ^ orCount p := by
      have := orCount_chain hcp
      have h2 : orCount p < 2 ^ orCount p := Nat.lt_two_pow_self
      omega
    have h1 := armPasses_chain env ty arms a p hp hcp (alts p).length 0 pass (2 ^ orCount p) []
      (by simp) (by have := alts_ne_nil p; cases h : alts p <;> simp_all) hfuel (by intro k; simp)
    simp only [allPasses, altList, List.map_append, List.map_map]
    congr 1
    · rw [show (List.map ((fun x => (x.1, passPat env ty arms x)) ∘ fun c => (a, c))
          (armPasses env ty a p (2 ^ orCount p) pass [])) =
        ((armPasses env ty a p (2 ^ orCount p) pass []).map (fun c => passPat env ty arms (a, c))).map
          (fun q => (a, q)) by simp [List.map_map, Function.comp_def], h1]
      simp
    · apply ih
      · intro j hj
        have := harms (j + 1) (by simp; omega)
        simpa [Nat.add_assoc, Nat.add_comm 1 j] using this
      · exact fun q hq => hch q (List.mem_cons_of_mem _ hq)

/-- the first matching entry of `altList` belongs to the first matching arm and is its first
    matching alternative -/
theorem altList_first (v : Val) : ∀ (ps : List Pat) (a k : Nat), ps.findIdx? (fun p => pmatch p v) = some k →
    ∃ r q, (altList a ps).findIdx? (fun x => pmatch x.2 v) = some r ∧ (altList a ps)[r]? = some (a + k, q) ∧
      ∀ env ty, bindingsOf env ty (ps.getD k .wild) v = bindingsOf env ty q v := by
  intro ps
  induction ps with
  | nil => intro a k h; simp at h
  | cons p ps ih =>
    intro a k h
    simp only [List.findIdx?_cons] at h
    simp only [altList, List.findIdx?_append, List.findIdx?_map, Function.comp_def, List.length_map]
    by_cases hp : pmatch p v = true
    · simp only [hp, if_true, Option.some.injEq] at h
      subst h
      have hany : (alts p).any (fun q => pmatch q v) = true := by rw [← pmatch_alts]; exact hp
      obtain ⟨q, hq, hqm⟩ := List.any_eq_true.1 hany
      cases hf : (alts p).findIdx? (fun q => pmatch q v) with
      | none => exact absurd hqm (by simpa using List.findIdx?_eq_none_iff.1 hf q hq)
      | some i =>
        obtain ⟨hi, _, _⟩ := List.findIdx?_eq_some_iff_getElem.1 hf
        refine ⟨i, (alts p)[i], by simp, ?_, fun env ty => ?_⟩
        · rw [List.getElem?_append_left (by simpa using hi)]; simp [hi]
        · exact bindingsOf_alts env ty p v i _ hf (by simp [hi])
    · have hp' : pmatch p v = false := by simpa using hp
      simp only [hp', Bool.false_eq_true, if_false, Option.map_eq_some_iff] at h
      obtain ⟨k', hk', rfl⟩ := h
      have hnone : (alts p).findIdx? (fun q => pmatch q v) = none := by
        rw [List.findIdx?_eq_none_iff]
        intro q hq
        have : (alts p).any (fun q => pmatch q v) = false := by rw [← pmatch_alts]; exact hp'
        simpa using List.any_eq_false.1 this q hq
      obtain ⟨r, q, h1, h2, h3⟩ := ih (a + 1) k' hk'
      refine ⟨r + (alts p).length, q, by simp [hnone, h1], ?_, fun env ty => ?_⟩
      · rw [List.getElem?_append_right (by simp)]
        simp only [List.length_map, Nat.add_sub_cancel]
        rw [h2]; congr 2; omega
      · simpa using h3 env ty

/-- **the whole match on or-chains**: arms that are chains `a | b | …` of or-free alternatives (an
    or-free arm is the chain of length 1) -/
theorem runMatch_chain (env : EnumEnv) (ty : Ty) (arms : List Pat) (v : Val) (stk : List SVal)
    (hnv : ty.isVoid = false) (harms : ∀ p ∈ arms, patTyped env p ty = true) (hch : ∀ p ∈ arms, isChain p)
    (hv : hasTy env v ty = true) (k : Nat) (hk : arms.findIdx? (fun p => pmatch p v) = some k) :
    ∃ r, runMatch env ty arms v stk =
      some (some k, some r, (bindingsOf env ty (arms.getD k .wild) v).reverse, stk) := by
  have hmap := allPasses_chain env ty arms arms 0 0 (fun j _ => by simp) hch
  obtain ⟨r, q, h1, h2, h3⟩ := altList_first v arms 0 k hk
  rw [← hmap, List.findIdx?_map] at h1
  rw [← hmap, List.getElem?_map] at h2
  simp only [Nat.zero_add, Option.map_eq_some_iff] at h2
  obtain ⟨x, hx, hxe⟩ := h2
  have hx1 : x.1 = k := congrArg Prod.fst hxe
  have hx2 : passPat env ty arms x = q := congrArg Prod.snd hxe
  refine ⟨r, ?_⟩
  rw [runMatch_general env ty arms v stk hnv harms hv r x (by simpa [Function.comp_def] using h1) hx, hx1, hx2,
    h3 env ty]

/-- `let` / `for` on an or-chain of or-free alternatives: bound through the first alternative that
    matches, i.e. exactly what the pattern binds as a match arm -/
theorem runLet_chain (env : EnumEnv) (ty : Ty) (p : Pat) (v : Val) (stk : List SVal)
    (hnv : ty.isVoid = false) (ht : patTyped env p ty = true) (hch : isChain p)
    (hv : hasTy env v ty = true) (hm : pmatch p v = true) :
    runLet env ty p v stk = some ((bindingsOf env ty p v).reverse, stk) := by
  have hfuel : (alts p).length ≤ 2 ^ orCount p := by
    have := orCount_chain hch
    have h2 : orCount p < 2 ^ orCount p := Nat.lt_two_pow_self
    omega
  have hmap := armPasses_chain env ty [p] 0 p (by simp) hch (alts p).length 0 0 (2 ^ orCount p) []
    (by simp) (by have := alts_ne_nil p; cases h : alts p <;> simp_all) hfuel (by intro k; simp)
  simp only [List.drop_zero] at hmap
  -- the first alternative that matches
  have hany : (alts p).any (fun q => pmatch q v) = true := by rw [← pmatch_alts]; exact hm
  obtain ⟨q0, hq0, hq0m⟩ := List.any_eq_true.1 hany
  cases hf : (alts p).findIdx? (fun q => pmatch q v) with
  | none => exact absurd hq0m (by simpa using List.findIdx?_eq_none_iff.1 hf q0 hq0)
  | some i =>
    obtain ⟨hi, _, _⟩ := List.findIdx?_eq_some_iff_getElem.1 hf
    have hlen : (armPasses env ty 0 p (2 ^ orCount p) 0 []).length = (alts p).length := by
      rw [← hmap]; simp
    have hi' : i < (armPasses env ty 0 p (2 ^ orCount p) 0 []).length := by omega
    have hfp : (armPasses env ty 0 p (2 ^ orCount p) 0 []).findIdx?
        (fun x => pmatch (resolveP env [0] ty p x.1) v) = some i := by
      have : (alts p).findIdx? (fun q => pmatch q v) =
          (armPasses env ty 0 p (2 ^ orCount p) 0 []).findIdx? (fun x => pmatch (resolveP env [0] ty p x.1) v) := by
        rw [← hmap, List.findIdx?_map]; rfl
      rw [← this]; exact hf
    have hres : resolveP env [0] ty p (armPasses env ty 0 p (2 ^ orCount p) 0 [])[i].1 = (alts p)[i] := by
      have := congrArg (fun l => l[i]?) hmap
      simp only [List.getElem?_map, List.getElem?_eq_getElem hi', List.getElem?_eq_getElem hi, Option.map_some,
        Option.some.injEq] at this
      exact this
    have hgen := runLet_general env ty p v stk hnv ht hv i
      (armPasses env ty 0 p (2 ^ orCount p) 0 [])[i].1 (armPasses env ty 0 p (2 ^ orCount p) 0 [])[i].2 hfp
      (List.getElem?_eq_getElem hi')
    rw [hgen, hres, bindingsOf_alts env ty p v i _ hf (List.getElem?_eq_getElem hi)]

end Abra.PatCompile
