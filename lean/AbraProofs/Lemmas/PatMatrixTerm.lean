import Mathlib.Tactic.Ring
import AbraProofs.Lemmas.PatMatrix
/-!
Termination of `compute_exhaustiveness_and_usefulness` (M9): a measure `phi` that strictly decreases
at every recursive call, hence `phi + 1` fuel always suffices.

`phi = 2 * (A + B) + C` where
* `A` = sum over the rows, over the or-free expansions of the row, of the node weights of the
  expansion (a variant node weighs `1 + tyDepth(payload type)`, every other constructor node 1, a
  wildcard 0) — or-expansion partitions the expansions of a row, so `A` is unchanged by it;
  specialising by a constructor that heads some row removes that node from every expansion;
* `B` = product nesting of the column types (`tyDepths`) — the only thing wildcards are expanded along;
* `C` = 1 if some row has an or-pattern at its head (the or-step removes them all).
-/
namespace Abra.PatMatrix

/-! ## expansions and weights -/

theorem nxProd_append (a b : List DPat) : nxProd (a ++ b) = nxProd a * nxProd b := by
  induction a with
  | nil => simp [nxProd]
  | cons p ps ih => simp [nxProd, ih, Nat.mul_assoc]

theorem twProd_append (env : EnumEnv) (a b : List DPat) :
    twProd env (a ++ b) = twProd env a * nxProd b + nxProd a * twProd env b := by
  induction a with
  | nil => simp [twProd, nxProd]
  | cons p ps ih =>
    simp only [List.cons_append, twProd, nxProd, ih, nxProd_append]
    ring

theorem nxProd_wilds (f : Nat → DPat) (hf : ∀ i, (f i).ctor.isWild = true) (n : Nat) :
    nxProd ((List.range n).map f) = 1 := by
  induction n generalizing f with
  | zero => simp [nxProd]
  | succ n ih =>
    rw [List.range_succ_eq_map]
    simp only [List.map_cons, List.map_map, nxProd]
    have h0 : nx (f 0) = 1 := by
      have := hf 0
      cases hc : f 0 with
      | mk c fs ty => rw [hc] at this; cases c <;> simp_all [DPat.ctor, Ctor.isWild, nx]
    rw [h0, ih (f ∘ Nat.succ) (fun i => hf _)]

theorem twProd_wilds (env : EnumEnv) (f : Nat → DPat) (hf : ∀ i, (f i).ctor.isWild = true) (n : Nat) :
    twProd env ((List.range n).map f) = 0 := by
  induction n generalizing f with
  | zero => simp [twProd]
  | succ n ih =>
    rw [List.range_succ_eq_map]
    simp only [List.map_cons, List.map_map, twProd]
    have h0 : tw env (f 0) = 0 := by
      have := hf 0
      cases hc : f 0 with
      | mk c fs ty => rw [hc] at this; cases c <;> simp_all [DPat.ctor, Ctor.isWild, tw]
    rw [h0, ih (f ∘ Nat.succ) (fun i => hf _)]
    simp

mutual
  /-- a well-formed pattern has at least one expansion -/
  theorem nx_pos (env : EnumEnv) (p : DPat) (T : Ty) (h : patWT env p T = true) : 1 ≤ nx p := by
    match p with
    | .mk c fs ty =>
      cases c with
      | wild r => simp [nx]
      | or =>
        simp only [patWT, Bool.and_eq_true, Bool.not_eq_true', List.isEmpty_eq_false_iff] at h
        simp only [nx]
        exact nxSum_pos env fs T h.2 h.1
      | bool b =>
        cases T <;> simp [patWT] at h
        subst h; simp [nx, nxProd]
      | int b =>
        cases T <;> simp [patWT] at h
        subst h; simp [nx, nxProd]
      | float b =>
        cases T <;> simp [patWT] at h
        subst h; simp [nx, nxProd]
      | str b =>
        cases T <;> simp [patWT] at h
        subst h; simp [nx, nxProd]
      | product =>
        cases T <;> simp [patWT] at h
        · subst h; simp [nx, nxProd]
        · simp only [nx]; exact nxProd_pos env fs _ h
        · simp only [nx]; exact nxProd_pos env fs _ h
      | variant e i =>
        cases T <;> simp [patWT] at h
        simp only [nx]; exact nxProd_pos env fs _ h.2
  theorem nxProd_pos (env : EnumEnv) (ps : List DPat) (Ts : List Ty) (h : patsWT env ps Ts = true) :
      1 ≤ nxProd ps := by
    match ps, Ts, h with
    | [], _, _ => simp [nxProd]
    | p :: ps, t :: ts, h =>
      simp only [patsWT, Bool.and_eq_true] at h
      simp only [nxProd]
      exact Nat.mul_le_mul (nx_pos env p t h.1) (nxProd_pos env ps ts h.2)
    | _ :: _, [], h => simp [patsWT] at h
  theorem nxSum_pos (env : EnumEnv) (ps : List DPat) (T : Ty) (h : patsWTOr env ps T = true) (hne : ps ≠ []) :
      1 ≤ nxSum ps := by
    match ps, hne with
    | p :: ps, _ =>
      simp only [patsWTOr, Bool.and_eq_true] at h
      simp only [nxSum]
      have := nx_pos env p T h.1
      omega
end

/-! ## or-expansion preserves the sums -/

def sumNx : List DPat → Nat
  | [] => 0
  | p :: ps => nx p + sumNx ps

def sumTw (env : EnumEnv) : List DPat → Nat
  | [] => 0
  | p :: ps => tw env p + sumTw env ps

theorem sumNx_append (a b : List DPat) : sumNx (a ++ b) = sumNx a + sumNx b := by
  induction a with
  | nil => simp [sumNx]
  | cons p ps ih => simp [sumNx, ih, Nat.add_assoc]

theorem sumTw_append (env : EnumEnv) (a b : List DPat) : sumTw env (a ++ b) = sumTw env a + sumTw env b := by
  induction a with
  | nil => simp [sumTw]
  | cons p ps ih => simp [sumTw, ih, Nat.add_assoc]

mutual
  theorem sum_expandPat (env : EnumEnv) (p : DPat) :
      sumNx (expandPat p) = nx p ∧ sumTw env (expandPat p) = tw env p := by
    match p with
    | .mk c fs ty =>
      cases c with
      | or => simp only [expandPat, nx, tw]; exact sum_expandPats env fs
      | _ => simp [expandPat, sumNx, sumTw]
  theorem sum_expandPats (env : EnumEnv) (ps : List DPat) :
      sumNx (expandPats ps) = nxSum ps ∧ sumTw env (expandPats ps) = twSum env ps := by
    match ps with
    | [] => simp [expandPats, sumNx, sumTw, nxSum, twSum]
    | p :: ps =>
      obtain ⟨h1, h2⟩ := sum_expandPat env p
      obtain ⟨h3, h4⟩ := sum_expandPats env ps
      simp [expandPats, sumNx_append, sumTw_append, nxSum, twSum, h1, h2, h3, h4]
end

/-! ## the measure -/

theorem rowsA_append (env : EnumEnv) (a b : List Row) : rowsA env (a ++ b) = rowsA env a + rowsA env b := by
  induction a with
  | nil => simp [rowsA]
  | cons r rs ih => simp [rowsA, ih, Nat.add_assoc]

theorem rowsA_expandOrRow (env : EnumEnv) (r : Row) (i : Nat) :
    rowsA env ((expandOrRow r).map (fun e => { e with parent := i })) = twProd env r.pats := by
  unfold expandOrRow
  cases hp : r.pats with
  | nil => simp [rowsA, hp]
  | cons p rest =>
    obtain ⟨h1, h2⟩ := sum_expandPat env p
    simp only [List.map_map, twProd]
    rw [← h1, ← h2]
    induction expandPat p with
    | nil => simp [rowsA, sumNx, sumTw]
    | cons h hs ih =>
      simp only [List.map_cons, Function.comp, rowsA, twProd, sumNx, sumTw, ih]
      ring

theorem rowsA_specializeOr (env : EnumEnv) (rows : List Row) : rowsA env (specializeOr rows) = rowsA env rows := by
  suffices h : ∀ off, rowsA env (specializeOrAux off rows) = rowsA env rows from h 0
  induction rows with
  | nil => intro off; simp [specializeOrAux]
  | cons r rs ih =>
    intro off
    rw [specializeOrAux, rowsA_append, rowsA_expandOrRow, ih]
    simp [rowsA]

theorem noOr_specializeOr {env : EnumEnv} {T : Ty} {Ts : List Ty} {rows : List Row}
    (hwt : rowsWT env (T :: Ts) rows) : orHeads (specializeOr rows) = 0 := by
  suffices h : ∀ off, ∀ r ∈ specializeOrAux off rows, r.headCtor.isOr = false by
    unfold orHeads
    have : (specializeOr rows).any (fun r => r.headCtor.isOr) = false := by
      rw [List.any_eq_false]; intro r hr; simp [h 0 r hr]
    simp [this]
  induction rows with
  | nil => intro off r hr; simp [specializeOrAux] at hr
  | cons row rs ih =>
    intro off r hr
    rw [specializeOrAux, List.mem_append] at hr
    rcases hr with hr | hr
    · obtain ⟨e, he, rfl⟩ := List.mem_map.1 hr
      obtain ⟨p, ps, hp, hpw, _⟩ := row_cons_of_WT (hwt row (List.mem_cons_self ..))
      simp only [expandOrRow, hp, List.mem_map] at he
      obtain ⟨h, hh, rfl⟩ := he
      simpa [Row.headCtor] using (wt_expandPat env p T hpw h hh).2
    · exact ih (fun r hr => hwt r (List.mem_cons_of_mem _ hr)) _ r hr

/-! ## specialisation decreases the measure -/

theorem tyDepth_pos (T : Ty) : 1 ≤ tyDepth T := by
  cases T <;> simp [tyDepth] <;> omega

theorem tyDepths_append (a b : List Ty) : tyDepths (a ++ b) = tyDepths a + tyDepths b := by
  induction a with
  | nil => simp [tyDepths]
  | cons t ts ih => simp [tyDepths, ih, Nat.add_assoc]

theorem tyDepths_specTys (env : EnumEnv) (T : Ty) (c : Ctor) :
    tyDepths (specTys env T c) + 1 ≤ tyDepth T + (nodeW env c - 1) := by
  cases c <;> simp only [specTys, nodeW, tyDepths]
  case product => cases T <;> simp [productTys, tyDepth, tyDepths] <;> omega
  case variant e i =>
    have := tyDepth_pos T
    split <;> simp [tyDepths] <;> omega
  all_goals (have := tyDepth_pos T; omega)

/-- the popped row weighs no more; a constructor head loses its node -/
theorem twProd_popHead {env : EnumEnv} {T : Ty} {Ts : List Ty} {p : DPat} {ps : List DPat} (c : Ctor)
    (hp : patWT env p T = true) (hps : patsWT env ps Ts = true) (ho : p.ctor.isOr = false)
    (hcov : c.isCoveredBy p.ctor = true) :
    twProd env (p.specialize env c (c.arity env T) ++ ps) +
        (if p.ctor.isWild then 0 else nodeW env p.ctor) ≤ twProd env (p :: ps) := by
  have hnps := nxProd_pos env ps Ts hps
  have hspec := patsWT_specialize hp hps ho hcov
  obtain ⟨pc, fs, ty⟩ := p
  rw [twProd_append]
  by_cases hw : pc.isWild = true
  · cases pc <;> simp [Ctor.isWild] at hw
    simp only [DPat.specialize, DPat.ctor, Ctor.isWild, if_true, Nat.add_zero, twProd, tw, nx]
    rw [twProd_wilds env _ (fun i => by simp [wildOf, DPat.ctor, Ctor.isWild]),
      nxProd_wilds _ (fun i => by simp [wildOf, DPat.ctor, Ctor.isWild])]
  · have hfs : 1 ≤ nxProd fs := by
      have := nx_pos env (.mk pc fs ty) T hp
      cases pc <;> simp_all [nx, Ctor.isWild, Ctor.isOr, DPat.ctor]
    have hw' : pc.isWild = false := by simpa using hw
    have key : twProd env (DPat.mk pc fs ty :: ps) =
        (nodeW env pc * nxProd fs + twProd env fs) * nxProd ps + nxProd fs * twProd env ps := by
      cases pc <;> simp_all [twProd, tw, nx, Ctor.isWild, Ctor.isOr, DPat.ctor]
    have hsp : DPat.specialize env (.mk pc fs ty) c (c.arity env T) = fs := by
      cases pc <;> simp_all [DPat.specialize, DPat.ctor, DPat.fields, Ctor.isWild]
    rw [key, hsp]
    simp only [DPat.ctor, hw', Bool.false_eq_true, if_false]
    have : nodeW env pc ≤ nodeW env pc * nxProd fs * nxProd ps := by
      calc nodeW env pc = nodeW env pc * 1 * 1 := by simp
        _ ≤ nodeW env pc * nxProd fs * nxProd ps :=
          Nat.mul_le_mul (Nat.mul_le_mul (Nat.le_refl _) hfs) hnps
    have e : (nodeW env pc * nxProd fs + twProd env fs) * nxProd ps + nxProd fs * twProd env ps =
        twProd env fs * nxProd ps + nxProd fs * twProd env ps + nodeW env pc * nxProd fs * nxProd ps := by ring
    omega

/-- a non-wildcard constructor that covers `c` is `c` -/
theorem covered_eq {c h : Ctor} (hcov : c.isCoveredBy h = true) (hw : h.isWild = false) : h = c := by
  cases c <;> cases h <;> simp_all [Ctor.isCoveredBy, Ctor.isWild]

theorem rowsA_specializeAux {env : EnumEnv} {T : Ty} {Ts : List Ty} (c : Ctor) (rows : List Row)
    (hwt : rowsWT env (T :: Ts) rows) (hno : noOrHeads rows) (off : Nat) :
    rowsA env (specializeAux env c (c.arity env T) off rows) +
        (if c ∈ rows.map Row.headCtor ∧ c.isWild = false then nodeW env c else 0) ≤ rowsA env rows := by
  induction rows generalizing off with
  | nil => simp [specializeAux, rowsA]
  | cons r rs ih =>
    have ih' := ih (fun r hr => hwt r (List.mem_cons_of_mem _ hr)) (fun r hr => hno r (List.mem_cons_of_mem _ hr))
      (off + 1)
    obtain ⟨p, ps, hp, hpw, hpsw⟩ := row_cons_of_WT (hwt r (List.mem_cons_self ..))
    have ho : p.ctor.isOr = false := by
      have := hno r (List.mem_cons_self ..); simpa [Row.headCtor, hp] using this
    have hhead : r.headCtor = p.ctor := by simp [Row.headCtor, hp]
    rw [specializeAux]
    by_cases hcov : c.isCoveredBy r.headCtor = true
    · rw [if_pos hcov]
      have hrow := twProd_popHead (env := env) (T := T) (Ts := Ts) c hpw hpsw ho (by rw [← hhead]; exact hcov)
      simp only [rowsA, popHead, hp, List.map_cons, List.mem_cons]
      by_cases hc : (c = r.headCtor ∨ c ∈ rs.map Row.headCtor) ∧ c.isWild = false
      · rw [if_pos hc]
        by_cases hc2 : c ∈ rs.map Row.headCtor ∧ c.isWild = false
        · rw [if_pos hc2] at ih'; omega
        · rw [if_neg hc2] at ih'
          have hcr : c = r.headCtor := by
            rcases hc.1 with h | h
            · exact h
            · exact absurd ⟨h, hc.2⟩ hc2
          have hpw' : p.ctor.isWild = false := by rw [← hhead, ← hcr]; exact hc.2
          rw [hpw'] at hrow
          simp only [Bool.false_eq_true, if_false] at hrow
          rw [← hhead, ← hcr] at hrow
          omega
      · rw [if_neg hc]
        have hc2 : ¬(c ∈ rs.map Row.headCtor ∧ c.isWild = false) := fun h => hc ⟨Or.inr h.1, h.2⟩
        rw [if_neg hc2] at ih'
        have : twProd env (p.specialize env c (c.arity env T) ++ ps) ≤ twProd env (p :: ps) := by omega
        omega
    · rw [if_neg hcov]
      simp only [rowsA, List.map_cons, List.mem_cons]
      have hne : ¬(c = r.headCtor ∧ c.isWild = false) := by
        rintro ⟨h1, h2⟩
        apply hcov
        have hco : c.isOr = false := by rw [h1, hhead]; exact ho
        rw [← h1]
        cases c <;> simp_all [Ctor.isCoveredBy, Ctor.isWild, Ctor.isOr]
      by_cases hc : (c = r.headCtor ∨ c ∈ rs.map Row.headCtor) ∧ c.isWild = false
      · rw [if_pos hc]
        have hc2 : c ∈ rs.map Row.headCtor ∧ c.isWild = false := by
          rcases hc.1 with h | h
          · exact absurd ⟨h, hc.2⟩ hne
          · exact ⟨h, hc.2⟩
        rw [if_pos hc2] at ih'; omega
      · rw [if_neg hc]
        have hc2 : ¬(c ∈ rs.map Row.headCtor ∧ c.isWild = false) := fun h => hc ⟨Or.inr h.1, h.2⟩
        rw [if_neg hc2] at ih'; omega

/-- a variant among the present constructors heads some row -/
theorem present_variant_mem {env : EnumEnv} {T : Ty} {heads : List Ctor} {e i : Nat}
    (h : Ctor.variant e i ∈ (split (ctorsForTy env T) heads).1) : Ctor.variant e i ∈ heads := by
  cases T <;> simp only [ctorsForTy, split] at h
  case bool =>
    simp only [List.mem_append] at h
    rcases h with h | h <;> split at h <;> simp at h
  case void => split at h <;> simp at h
  case tuple => split at h <;> simp at h
  case struct => split at h <;> simp at h
  case int => exact h
  case float => exact h
  case string => exact h
  case enum e' =>
    simp only [List.mem_map, Ctor.variant.injEq] at h
    obtain ⟨j, hj, rfl, rfl⟩ := h
    rcases (mem_presentVariants _ _ heads [] _).1 hj with h' | h'
    · simp at h'
    · exact h'.2

theorem phi_specialize_lt {env : EnumEnv} {T : Ty} {Ts : List Ty} {rows : List Row}
    (hwt : rowsWT env (T :: Ts) rows) (hno : noOrHeads rows) {c : Ctor} (hc : c ∈ presentCtors env T rows) :
    phi env (specTys env T c ++ Ts) (specialize env c (c.arity env T) rows) < phi env (T :: Ts) rows := by
  have hA := rowsA_specializeAux (env := env) (T := T) (Ts := Ts) c rows hwt hno 0
  have hB := tyDepths_specTys env T c
  have hor : orHeads rows = 0 := by
    unfold orHeads
    have : rows.any (fun r => r.headCtor.isOr) = false := by
      rw [List.any_eq_false]; intro r hr; simp [hno r hr]
    simp [this]
  have hC : orHeads (specialize env c (c.arity env T) rows) ≤ 1 := by unfold orHeads; split <;> omega
  unfold phi
  rw [tyDepths_append, hor]
  simp only [tyDepths]
  -- a variant constructor pays for its payload type with its node weight
  have hnode : nodeW env c - 1 + 0 ≤ (if c ∈ rows.map Row.headCtor ∧ c.isWild = false then nodeW env c else 0) ∨
      nodeW env c = 1 := by
    cases c with
    | variant e i =>
      left
      have hmem : Ctor.variant e i ∈ rows.map Row.headCtor := by
        unfold presentCtors at hc
        simp only [] at hc
        split at hc
        · exact present_variant_mem hc
        · simp only [List.mem_append, List.mem_singleton, reduceCtorEq, or_false] at hc
          exact present_variant_mem hc
      rw [if_pos ⟨hmem, rfl⟩]; omega
    | _ => right; rfl
  have hA' : rowsA env (specialize env c (c.arity env T) rows) +
      (if c ∈ rows.map Row.headCtor ∧ c.isWild = false then nodeW env c else 0) ≤ rowsA env rows := hA
  have hn1 : 1 ≤ nodeW env c := by cases c <;> simp [nodeW]
  rcases hnode with h | h
  · omega
  · rw [h] at hB; omega

/-! ## enough fuel always exists -/

theorem foldCtors_isSome (step : Result → Ctor → Option Result) (cs : List Ctor)
    (h : ∀ acc, ∀ c ∈ cs, (step acc c).isSome = true) (acc : Result) : (foldCtors step acc cs).isSome = true := by
  induction cs generalizing acc with
  | nil => simp [foldCtors]
  | cons c cs ih =>
    simp only [foldCtors]
    have := h acc c (List.mem_cons_self ..)
    cases hs : step acc c with
    | none => simp [hs] at this
    | some acc' => exact ih (fun a c' hc' => h a c' (List.mem_cons_of_mem _ hc')) acc'

/-- **Termination**: with more fuel than the measure the run finishes -/
theorem compute_isSome {env : EnumEnv} (fuel : Nat) :
    ∀ Ts rows, rowsWT env Ts rows → phi env Ts rows < fuel → (compute env fuel Ts rows).isSome = true := by
  induction fuel with
  | zero => intro Ts rows _ h; omega
  | succ fuel ih =>
    intro Ts rows hwt hphi
    cases Ts with
    | nil => simp [compute]
    | cons T Ts =>
      simp only [compute]
      split
      · rename_i hor
        have hlt : phi env (T :: Ts) (specializeOr rows) < fuel := by
          have h1 : orHeads rows = 1 := by unfold orHeads; simp [hor]
          unfold phi at hphi ⊢
          rw [rowsA_specializeOr, noOr_specializeOr hwt]
          omega
        have := ih (T :: Ts) (specializeOr rows) (rowsWT_specializeOr hwt) hlt
        cases hc : compute env fuel (T :: Ts) (specializeOr rows) with
        | none => simp [hc] at this
        | some r => simp
      · rename_i hor
        have hno : noOrHeads rows := by
          intro r hr
          cases hc : r.headCtor.isOr with
          | false => rfl
          | true => exact absurd (List.any_eq_true.2 ⟨r, hr, hc⟩) hor
        apply foldCtors_isSome
        intro acc c hc
        have hc' : c ∈ presentCtors env T rows := by simpa [presentCtors] using hc
        have hlt := phi_specialize_lt hwt hno hc'
        have := ih _ _ (rowsWT_specialize hwt hno c) (by omega)
        unfold stepCtor
        simp only []
        cases hr : compute env fuel (specTys env T c ++ Ts) (specialize env c (c.arity env T) rows) with
        | none => simp [hr] at this
        | some r => simp

theorem checkD_isSome {env : EnumEnv} {ty : Ty} {pats : List DPat} (hwt : ∀ p ∈ pats, patWT env p ty = true) :
    (checkD env (fuelFor env ty pats) ty pats).isSome = true := by
  unfold checkD
  have := compute_isSome (env := env) (fuelFor env ty pats) [ty] (initRows 0 pats) (rowsWT_initRows hwt 0)
    (by unfold fuelFor; omega)
  cases hc : compute env (fuelFor env ty pats) [ty] (initRows 0 pats) with
  | none => simp [hc] at this
  | some r => simp

end Abra.PatMatrix
