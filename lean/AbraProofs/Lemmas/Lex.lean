import AbraModel.Lex
import AbraModel.Literals
/-! Helper lemmas about the lexer model (`Abra.Lex`): character classes, numbers, escapes, scanning. -/
namespace Abra.Lex

theorem char_le_iff (a b : Char) : (a ≤ b) ↔ a.toNat ≤ b.toNat := by
  rw [Char.le_def, UInt32.le_iff_toNat_le]; rfl

theorem digit_not_identStart (c : Char) (hc : isDigit c = true) : isIdentStart c = false := by
  unfold isDigit at hc
  unfold isIdentStart isLower isUpper
  simp only [Bool.and_eq_true, decide_eq_true_eq, char_le_iff] at hc
  have h0 : '0'.toNat = 48 := rfl
  have h9 : '9'.toNat = 57 := rfl
  have hu : c ≠ '_' := by
    intro h; subst h; simp [Char.toNat] at hc
  simp [hu, char_le_iff]
  have ha : 'a'.toNat = 97 := rfl
  have hz : 'A'.toNat = 65 := rfl
  omega

-- ---------------------------------------------------------------- numbers
theorem digitsVal_eq (ds : List Char) : digitsVal ds = Nat.ofDigitChars 10 ds 0 := by
  unfold digitsVal digitVal
  rw [Nat.ofDigitChars_eq_foldl]
  generalize 0 = init
  induction ds generalizing init with
  | nil => rfl
  | cons c cs ih => simp only [List.foldl_cons]; rw [Nat.mul_comm]; exact ih _

theorem digitsVal_toDigits (n : Nat) : digitsVal (Nat.toDigits 10 n) = n := by
  rw [digitsVal_eq]; exact Nat.ofDigitChars_ten_toDigits

/-- the character after the literal cannot continue a number -/
def NumEnd (rest : List Char) : Prop := ∀ c r, rest = c :: r → isNumChar c = false ∧ c ≠ '.'

theorem takeWhile_num (sp rest : List Char) (h : sp.all isNumChar = true)
    (hr : ∀ c r, rest = c :: r → isNumChar c = false) :
    (sp ++ rest).takeWhile isNumChar = sp := by
  induction sp with
  | nil =>
    cases rest with
    | nil => rfl
    | cons c r => simp [hr c r rfl]
  | cons c cs ih =>
    simp only [List.all_cons, Bool.and_eq_true] at h
    simp [h.1, ih h.2]

theorem lexNum_int (sp rest : List Char) (h : sp.all isNumChar = true) (hr : NumEnd rest) :
    lexNum (sp ++ rest) = (.intLit (sp.filter isDigit), sp.length) := by
  unfold lexNum
  have ht := takeWhile_num sp rest h (fun c r e => (hr c r e).1)
  simp only [ht, List.drop_left']
  cases rest with
  | nil => simp
  | cons c r =>
    have := (hr c r rfl).2
    split
    · rename_i heq; simp at heq; exact absurd heq.1 this
    · rfl

-- ---------------------------------------------------------------- escapes
theorem hexByte_roundtrip : ∀ n : Fin 128,
    hexByte? (hexDigitLower (n.val / 16)) (hexDigitLower (n.val % 16)) = some n.val := by
  decide +kernel

theorem pe_nil (p : Nat) : processEscapesAux p [] = ([], []) := by
  rw [processEscapesAux.eq_def]

theorem pe_plain (p : Nat) (c : Char) (rest : List Char) (h : c ≠ '\\') :
    processEscapesAux p (c :: rest) =
      (c :: (processEscapesAux (p + 1) rest).1, (processEscapesAux (p + 1) rest).2) := by
  rw [processEscapesAux.eq_def]; simp [h]

theorem pe_simple (p : Nat) (c2 ch : Char) (rest : List Char)
    (h : (c2 = 'n' ∧ ch = '\n') ∨ (c2 = 't' ∧ ch = '\t') ∨ (c2 = 'r' ∧ ch = '\r') ∨ (c2 = '"' ∧ ch = '"')
      ∨ (c2 = '\'' ∧ ch = '\'') ∨ (c2 = '\\' ∧ ch = '\\')) :
    processEscapesAux p ('\\' :: c2 :: rest) =
      (ch :: (processEscapesAux (p + 2) rest).1, (processEscapesAux (p + 2) rest).2) := by
  rw [processEscapesAux.eq_def]
  rcases h with ⟨rfl, rfl⟩ | ⟨rfl, rfl⟩ | ⟨rfl, rfl⟩ | ⟨rfl, rfl⟩ | ⟨rfl, rfl⟩ | ⟨rfl, rfl⟩ <;> simp

theorem pe_hex (p : Nat) (d2 d3 : Char) (b : Nat) (rest : List Char) (h : hexByte? d2 d3 = some b) :
    processEscapesAux p ('\\' :: 'x' :: d2 :: d3 :: rest) =
      (Char.ofNat b :: (processEscapesAux (p + 4) rest).1, (processEscapesAux (p + 4) rest).2) := by
  rw [processEscapesAux.eq_def]; simp [h]

/-- is `c` spelled as `\xNN` by the printer? -/
def isCtl (c : Char) : Bool := c.toNat < 0x20 || c.toNat = 0x7f

theorem pe_escapeChar (q : Quote) (c : Char) (p : Nat) (rest : List Char) :
    processEscapesAux p (escapeChar q c ++ rest) =
      (c :: (processEscapesAux (p + (escapeChar q c).length) rest).1,
        (processEscapesAux (p + (escapeChar q c).length) rest).2) := by
  unfold escapeChar
  by_cases h1 : c = '\\'
  · subst h1; simp only [if_true]; exact pe_simple p _ _ rest (by simp)
  simp only [h1, if_false]
  by_cases h2 : c = '"'
  · subst h2; simp only [if_true]
    by_cases hq : q = .single
    · simp only [hq, if_true]; exact pe_plain p _ rest (by decide)
    · simp only [hq, if_false]; exact pe_simple p _ _ rest (by simp)
  simp only [h2, if_false]
  by_cases h3 : c = '\''
  · subst h3; simp only [if_true]
    by_cases hq : q = .single
    · simp only [hq, if_true]; exact pe_simple p _ _ rest (by simp)
    · simp only [hq, if_false]; exact pe_plain p _ rest (by decide)
  simp only [h3, if_false]
  by_cases h4 : c = '\n'
  · subst h4; simp only [if_true]; exact pe_simple p _ _ rest (by simp)
  simp only [h4, if_false]
  by_cases h5 : c = '\t'
  · subst h5; simp only [if_true]; exact pe_simple p _ _ rest (by simp)
  simp only [h5, if_false]
  by_cases h6 : c = '\r'
  · subst h6; simp only [if_true]; exact pe_simple p _ _ rest (by simp)
  simp only [h6, if_false]
  by_cases h7 : (c.toNat < 0x20 || c.toNat = 0x7f) = true
  · simp only [h7, if_true]
    have hlt : c.toNat < 128 := by
      simp only [Bool.or_eq_true, decide_eq_true_eq] at h7; omega
    have := hexByte_roundtrip ⟨c.toNat, hlt⟩
    have e := pe_hex p _ _ _ rest this
    simp only [Char.ofNat_toNat] at e
    exact e
  · simp only [h7]
    exact pe_plain p c rest h1

theorem pe_escape (q : Quote) (s : List Char) (p : Nat) :
    processEscapesAux p (escape q s) = (s, []) := by
  induction s generalizing p with
  | nil => simp [escape, pe_nil]
  | cons c cs ih => rw [escape, pe_escapeChar, ih]

-- ---------------------------------------------------------------- scanning for the closing quote
theorem scan_cons_plain (d : Char) (c : Char) (cs : List Char) (h1 : c ≠ '\\') (h2 : d ≠ c) :
    scanDelim [d] (c :: cs) = (scanDelim [d] cs).map (· + 1) := by
  rw [scanDelim.eq_def]; simp [h1, isPrefix, h2]

theorem scan_cons_pair (d : Char) (c2 : Char) (cs : List Char) :
    scanDelim [d] ('\\' :: c2 :: cs) = (scanDelim [d] cs).map (· + 2) := by
  rw [scanDelim.eq_def]; simp

theorem scan_found (d : Char) (cs : List Char) (h : d ≠ '\\') : scanDelim [d] (d :: cs) = some 0 := by
  rw [scanDelim.eq_def]; simp [h, isPrefix]

theorem hexDigitLower_ne (n : Nat) (h : n < 16) :
    hexDigitLower n ≠ '\\' ∧ hexDigitLower n ≠ '"' ∧ hexDigitLower n ≠ '\'' := by
  have : ∀ k : Fin 16, hexDigitLower k.val ≠ '\\' ∧ hexDigitLower k.val ≠ '"' ∧ hexDigitLower k.val ≠ '\'' := by
    decide +kernel
  exact this ⟨n, h⟩

end Abra.Lex
