import AbraProofs.Lemmas.Sched
/-! Single-thread runtimes (programs without tasks): every embedder schedule is equivalent to the
reference embedder that services host calls at once and runs one instruction at a time. -/
namespace Abra.Sched
variable {T V E H : Type}

/-- the program has no tasks -/
def NoSpawn (step : T → Action T V E) : Prop := ∀ t c t', step t ≠ .spawn c t'

/-- at most the main thread is queued, nothing waits to be enqueued -/
def Single (r : Runtime T V E) : Prop :=
  r.newThreads = [] ∧ (r.runQueue = [] ∨ ∃ m, r.runQueue = [m] ∧ m.gone = false)

theorem Single.noDone {r : Runtime T V E} (h : Single r) : NoDone r := by
  refine ⟨?_, by simp [h.1]⟩
  rcases h.2 with h2 | ⟨m, h2, hm⟩ <;> simp [h2]
  exact hm

theorem exec_newThreads_noSpawn (step : T → Action T V E) (hs : NoSpawn step) (r : Runtime T V E)
    (th : Thread T E) : (exec step r th).1.newThreads = r.newThreads := by
  unfold exec
  split <;> try rfl
  · split <;> rfl
  · rename_i c t' heq; exact absurd heq (hs _ _ _)

theorem runN_stuck (step : T → Action T V E) (b : Nat) (r : Runtime T V E) (h : Stuck r) :
    runN step b r = ⟨r, updateStatus r, 0, false⟩ := by
  simp [runN, roundRobin_stuck step b r h]

theorem runN_zero (step : T → Action T V E) (r : Runtime T V E) (hn : r.newThreads = []) :
    runN step 0 r = ⟨r, updateStatus r, 0, false⟩ := by
  simp [runN, roundRobin, drain_nil r hn, loop]

/-- one instruction of a lone runnable thread -/
theorem runN_one_single (step : T → Action T V E) (hs : NoSpawn step) (r : Runtime T V E) (m : Thread T E)
    (hn : r.newThreads = []) (hq : r.runQueue = [m]) (hc : m.canRun = true) :
    (runN step 1 r).steps = 1 ∧ Single (runN step 1 r).rt := by
  have hd : NoDone r := by
    refine ⟨?_, by simp [hn]⟩
    simp [hq]; exact canRun_done hc
  have hnc : (!m.canRun) = false := by simp [hc]
  unfold runN roundRobin
  simp only [drain_nil r hn, Bool.false_eq_true, if_false]
  rw [loop_succ step 0 0 r hn hd]
  simp only [hq, List.dropWhile, hnc, List.takeWhile, List.append_nil]
  -- the state after the instruction
  generalize hr0 : ({ r with runQueue := [] } : Runtime T V E) = r0
  have hr0q : r0.runQueue = [] := by subst hr0; rfl
  have hr0n : r0.newThreads = [] := by subst hr0; exact hn
  have he1 : (exec step r0 m).1.runQueue = [] := by rw [exec_runQueue]; exact hr0q
  have he2 : (exec step r0 m).1.newThreads = [] := by rw [exec_newThreads_noSpawn step hs]; exact hr0n
  have hp : Single (finishThreadTurn (exec step r0 m).1 (exec step r0 m).2).1 := by
    refine ⟨by simpa using he2, ?_⟩
    unfold finishThreadTurn
    split
    · left; exact he1
    · split
      · left; exact he1
      · rename_i h1 h2
        right
        refine ⟨(exec step r0 m).2, by simp [he1], ?_⟩
        unfold Thread.gone
        cases hm : (exec step r0 m).2.isMain <;> cases hdn : (exec step r0 m).2.done <;>
          cases hee : (exec step r0 m).2.err <;> simp_all
  split
  · exact ⟨rfl, hp⟩
  · rw [drain_nil _ hp.1]
    simp only [Bool.false_eq_true, if_false, loop]
    exact ⟨trivial, hp⟩

/-- `run_n_steps(1)` on a lone runnable thread, exactly -/
theorem runN_one_exact (step : T → Action T V E) (r : Runtime T V E) (m : Thread T E)
    (hn : r.newThreads = []) (hq : r.runQueue = [m]) (hc : m.canRun = true) :
    runN step 1 r =
      (if (finishThreadTurn (exec step { r with runQueue := [] } m).1 (exec step { r with runQueue := [] } m).2).2 then
        ⟨(finishThreadTurn (exec step { r with runQueue := [] } m).1 (exec step { r with runQueue := [] } m).2).1, .done, 1, true⟩
       else if (drainNewThreads (finishThreadTurn (exec step { r with runQueue := [] } m).1 (exec step { r with runQueue := [] } m).2).1).2 then
        ⟨(drainNewThreads (finishThreadTurn (exec step { r with runQueue := [] } m).1 (exec step { r with runQueue := [] } m).2).1).1, .done, 1, true⟩
       else
        ⟨(drainNewThreads (finishThreadTurn (exec step { r with runQueue := [] } m).1 (exec step { r with runQueue := [] } m).2).1).1,
         updateStatus (drainNewThreads (finishThreadTurn (exec step { r with runQueue := [] } m).1 (exec step { r with runQueue := [] } m).2).1).1,
         1, false⟩) := by
  have hd : NoDone r := by
    refine ⟨?_, by simp [hn]⟩
    simp [hq]; exact canRun_done hc
  have hnc : (!m.canRun) = false := by simp [hc]
  unfold runN roundRobin
  simp only [drain_nil r hn, Bool.false_eq_true, if_false]
  rw [loop_succ step 0 0 r hn hd]
  simp only [hq, List.dropWhile, hnc, List.takeWhile, List.append_nil]
  split
  · simp
  · split
    · simp
    · simp [loop]

theorem serviceList_noPending (host : H → Nat → T → H × T) (h : H) (q : List (Thread T E))
    (hq : ∀ t ∈ q, t.pending = none) : serviceList host h q = (h, q) := by
  induction q generalizing h with
  | nil => rfl
  | cons t q ih =>
    have ht := hq t (by simp)
    simp [serviceList, ht, ih h (fun u hu => hq u (by simp [hu]))]

theorem serviceAll_noPending (host : H → Nat → T → H × T) (h : H) (r : Runtime T V E)
    (hq : ∀ t ∈ r.runQueue, t.pending = none) : serviceAll host h r = (h, r) := by
  simp [serviceAll, serviceList_noPending host h _ hq]

theorem serviceList_pending_none (host : H → Nat → T → H × T) (h : H) (q : List (Thread T E)) :
    ∀ t ∈ (serviceList host h q).2, t.pending = none := by
  induction q generalizing h with
  | nil => simp [serviceList]
  | cons t q ih =>
    unfold serviceList
    split
    · intro u hu
      simp only [List.mem_cons] at hu
      rcases hu with rfl | hu
      · rfl
      · exact ih _ u hu
    · rename_i hp
      intro u hu
      simp only [List.mem_cons] at hu
      rcases hu with rfl | hu
      · exact hp
      · exact ih _ u hu

/-- servicing is idempotent -/
theorem serviceAll_idem (host : H → Nat → T → H × T) (h : H) (r : Runtime T V E) :
    serviceAll host (serviceAll host h r).1 (serviceAll host h r).2 = serviceAll host h r := by
  rw [serviceAll_noPending]
  exact serviceList_pending_none host h r.runQueue

theorem serviceList_length (host : H → Nat → T → H × T) (h : H) (q : List (Thread T E)) :
    (serviceList host h q).2.length = q.length := by
  induction q generalizing h with
  | nil => rfl
  | cons t q ih => unfold serviceList; split <;> simp [ih]

theorem serviceAll_single (host : H → Nat → T → H × T) (h : H) (r : Runtime T V E) (hs : Single r) :
    Single (serviceAll host h r).2 := by
  refine ⟨hs.1, ?_⟩
  rcases hs.2 with h2 | ⟨m, h2, hm⟩
  · left; simp [serviceAll, h2, serviceList]
  · right
    have hd := serviceList_done host h r.runQueue (by simp [h2]; exact hm)
    have hl := serviceList_length host h r.runQueue
    simp only [serviceAll]
    rw [h2] at hl hd ⊢
    match hx : (serviceList host h [m]).2, hl with
    | [m'], _ => exact ⟨m', rfl, hd m' (by simp [hx])⟩

theorem canon_add (step : T → Action T V E) (host : H → Nat → T → H × T) (a b : Nat) (x : H × Runtime T V E) :
    canon step host (a + b) x = canon step host b (canon step host a x) := by
  induction a generalizing x with
  | zero => simp [canon]
  | succ a ih => rw [show a + 1 + b = (a + b) + 1 by omega]; simp [canon, ih]

/-- **Lemma A.**  One `run_n_steps(b)` call on a single-thread runtime is `steps_consumed` ticks of the
    reference embedder (no host call can be serviced inside the call, and none is needed: the thread
    stops at its first host call). -/
theorem runN_single_canon (step : T → Action T V E) (hs : NoSpawn step) (host : H → Nat → T → H × T)
    (b : Nat) (h : H) (r : Runtime T V E) (hr : Single r) :
    (h, (runN step b r).rt) = canon step host (runN step b r).steps (h, r) ∧ Single (runN step b r).rt := by
  induction b generalizing r with
  | zero => rw [runN_zero step r hr.1]; exact ⟨rfl, hr⟩
  | succ b ih =>
    -- either the lone thread can run, or the call does nothing
    have hstuck : (∀ t ∈ r.runQueue, t.canRun = false ∧ t.gone = false) →
        (h, (runN step (b + 1) r).rt) = canon step host (runN step (b + 1) r).steps (h, r) ∧
          Single (runN step (b + 1) r).rt := by
      intro hall
      rw [runN_stuck step (b + 1) r ⟨hr.1, hall⟩]; exact ⟨rfl, hr⟩
    rcases hr.2 with hq | ⟨m, hq, hm⟩
    · exact hstuck (by simp [hq])
    · by_cases hc : m.canRun = true
      · have h1 := runN_one_single step hs r m hr.1 hq hc
        have hnp : ∀ t ∈ r.runQueue, t.pending = none := by
          simp [hq]
          unfold Thread.canRun at hc
          cases hp : m.pending <;> simp_all
        have htick : tick step host (h, r) = (h, (runN step 1 r).rt) := by
          simp [tick, serviceAll_noPending host h r hnp]
        rw [show b + 1 = 1 + b by omega, runN_add step 1 b r hr.noDone]
        by_cases hdn : (runN step 1 r).doneNow = true
        · simp only [hdn, if_true, h1.1]
          exact ⟨by simp [canon, htick], h1.2⟩
        · have hdn' : (runN step 1 r).doneNow = false := by simpa using hdn
          simp only [hdn', Bool.false_eq_true, if_false, h1.1]
          have ih' := ih (runN step 1 r).rt h1.2
          refine ⟨?_, ih'.2⟩
          rw [show 1 + (runN step b (runN step 1 r).rt).steps = (runN step b (runN step 1 r).rt).steps + 1 by omega]
          simp only [canon, htick]
          exact ih'.1
      · exact hstuck (by simp [hq, hm]; simpa using hc)

/-- servicing first does not change what the reference embedder computes, up to servicing -/
theorem canon_norm (step : T → Action T V E) (host : H → Nat → T → H × T) (k : Nat) (y : H × Runtime T V E) :
    serviceAll host (canon step host k (serviceAll host y.1 y.2)).1 (canon step host k (serviceAll host y.1 y.2)).2 =
    serviceAll host (canon step host k y).1 (canon step host k y).2 := by
  cases k with
  | zero => simp [canon, serviceAll_idem]
  | succ k => simp [canon, tick, serviceAll_idem]

/-- **Every schedule is the reference schedule.**  Whatever budgets the embedder uses and however long
    it delays servicing, the host state (output) and the runtime it ends with are — up to servicing what
    is still pending — those of the reference embedder after the same number of executed instructions. -/
theorem drive_single_canon (step : T → Action T V E) (hs : NoSpawn step) (host : H → Nat → T → H × T)
    (s : List (Nat × Bool)) (h : H) (r : Runtime T V E) (n : Nat) (hr : Single r) :
    ∃ k, (drive step host s h r n).2.2.1 = n + k ∧
      serviceAll host (drive step host s h r n).1 (drive step host s h r n).2.1 =
      serviceAll host (canon step host k (h, r)).1 (canon step host k (h, r)).2 := by
  induction s generalizing h r n with
  | nil => exact ⟨0, rfl, rfl⟩
  | cons c rest ih =>
    obtain ⟨b, sv⟩ := c
    have hA := runN_single_canon step hs host b h r hr
    have hX : canon step host (runN step b r).steps (h, r) = (h, (runN step b r).rt) := hA.1.symm
    unfold drive
    simp only
    split
    · exact ⟨(runN step b r).steps, rfl, by rw [hX]⟩
    · exact ⟨(runN step b r).steps, rfl, by rw [hX]⟩
    · split
      · refine ⟨(runN step b r).steps, rfl, ?_⟩
        rw [hX]
        cases sv
        · simp
        · simp [serviceAll_idem]
      · cases sv
        · simp only [Bool.false_eq_true, if_false]
          obtain ⟨k, hk1, hk2⟩ := ih h (runN step b r).rt (n + (runN step b r).steps) hA.2
          refine ⟨(runN step b r).steps + k, by rw [hk1]; omega, ?_⟩
          rw [hk2, canon_add, hX]
        · simp only [if_true]
          obtain ⟨k, hk1, hk2⟩ := ih (serviceAll host h (runN step b r).rt).1 (serviceAll host h (runN step b r).rt).2
            (n + (runN step b r).steps) (serviceAll_single host h _ hA.2)
          refine ⟨(runN step b r).steps + k, by rw [hk1]; omega, ?_⟩
          rw [hk2, canon_add, hX]
          exact canon_norm step host k (h, (runN step b r).rt)

/-- the program has run to its end: nothing is queued, or only the failed (and not pending) thread -/
def Fin (r : Runtime T V E) : Prop :=
  r.newThreads = [] ∧
    (r.runQueue = [] ∨ ∃ m, r.runQueue = [m] ∧ m.pending = none ∧ m.err.isSome = true ∧ m.gone = false)

theorem Fin.stuck {r : Runtime T V E} (h : Fin r) : Stuck r := by
  refine ⟨h.1, ?_⟩
  rcases h.2 with hq | ⟨m, hq, hp, he, hd⟩
  · simp [hq]
  · cases hm : m.err with
    | none => simp [hm] at he
    | some e => simp [hq, Thread.canRun, hp, hm, hd]

theorem Fin.norm (host : H → Nat → T → H × T) (h : H) {r : Runtime T V E} (hf : Fin r) :
    serviceAll host h r = (h, r) := by
  apply serviceAll_noPending
  rcases hf.2 with hq | ⟨m, hq, hp, _, _⟩
  · simp [hq]
  · simp [hq, hp]

theorem canon_fin (step : T → Action T V E) (host : H → Nat → T → H × T) (j : Nat) (h : H) (r : Runtime T V E)
    (hf : Fin r) : canon step host j (h, r) = (h, r) := by
  induction j with
  | zero => rfl
  | succ j ih =>
    simp only [canon, tick, hf.norm host h, runN_stuck step 1 r hf.stuck]
    exact ih

/-- once the reference embedder has reached the end (up to servicing), further ticks change nothing -/
theorem canon_past_fin (step : T → Action T V E) (host : H → Nat → T → H × T) (j : Nat) (y : H × Runtime T V E)
    (hf : Fin (serviceAll host y.1 y.2).2) :
    serviceAll host (canon step host j y).1 (canon step host j y).2 = serviceAll host y.1 y.2 := by
  cases j with
  | zero => rfl
  | succ j =>
    have ht : tick step host y = serviceAll host y.1 y.2 := by
      simp only [tick, runN_stuck step 1 _ hf.stuck]
    simp only [canon, ht]
    have := canon_fin step host j (serviceAll host y.1 y.2).1 (serviceAll host y.1 y.2).2 hf
    rw [show ((serviceAll host y.1 y.2).1, (serviceAll host y.1 y.2).2) = serviceAll host y.1 y.2 from rfl] at this
    rw [this]
    exact serviceAll_idem host y.1 y.2

/-- two schedules that both ran a task-free program to its end reach the same host state and runtime -/
theorem drive_single_finished (step : T → Action T V E) (hs : NoSpawn step) (host : H → Nat → T → H × T)
    (s₁ s₂ : List (Nat × Bool)) (h : H) (r : Runtime T V E) (hr : Single r)
    (hf₁ : Fin (drive step host s₁ h r 0).2.1) (hf₂ : Fin (drive step host s₂ h r 0).2.1) :
    ((drive step host s₁ h r 0).1, (drive step host s₁ h r 0).2.1) =
    ((drive step host s₂ h r 0).1, (drive step host s₂ h r 0).2.1) := by
  obtain ⟨k₁, _, e1⟩ := drive_single_canon step hs host s₁ h r 0 hr
  obtain ⟨k₂, _, e2⟩ := drive_single_canon step hs host s₂ h r 0 hr
  rw [hf₁.norm host] at e1
  rw [hf₂.norm host] at e2
  -- the later of the two reference runs has gone past the end of the earlier one
  have key : ∀ (ka kb : Nat) (A B : H × Runtime T V E), ka ≤ kb →
      A = serviceAll host (canon step host ka (h, r)).1 (canon step host ka (h, r)).2 →
      B = serviceAll host (canon step host kb (h, r)).1 (canon step host kb (h, r)).2 →
      Fin A.2 → A = B := by
    intro ka kb A B hle hA hB hfin
    obtain ⟨j, rfl⟩ : ∃ j, kb = ka + j := ⟨kb - ka, by omega⟩
    rw [canon_add] at hB
    rw [hB, canon_past_fin step host j _ (by rw [← hA]; exact hfin), ← hA]
  rcases Nat.le_total k₁ k₂ with hle | hle
  · exact key k₁ k₂ _ _ hle e1 e2 hf₁
  · exact (key k₂ k₁ _ _ hle e2 e1 hf₂).symm

end Abra.Sched
