import AbraProofs.Lemmas.LexSteps
/-!
Locality of the tokenizer model: a step that ends strictly inside a prefix `u` of the input does not
depend on what follows `u` (the lexer looks at most one character past the end of a token).
-/
namespace Abra.Lex

theorem takeWhile_local (p : Char → Bool) (u Z Z' : List Char)
    (h : ((u ++ Z).takeWhile p).length < u.length) :
    (u ++ Z').takeWhile p = (u ++ Z).takeWhile p := by
  induction u with
  | nil => simp at h
  | cons c t ih =>
    simp only [List.cons_append, List.takeWhile] at h ⊢
    cases hp : p c with
    | false => rfl
    | true =>
      simp only [hp, List.length_cons] at h ⊢
      rw [ih (by omega)]

theorem lineCommentLen_local (u Z Z' : List Char) (h : lineCommentLen (u ++ Z) < u.length) :
    lineCommentLen (u ++ Z') = lineCommentLen (u ++ Z) := by
  induction u with
  | nil => simp at h
  | cons c t ih =>
    simp only [List.cons_append, lineCommentLen] at h ⊢
    by_cases hc : c = '\n'
    · simp [hc]
    · simp only [hc, if_false, List.length_cons] at h ⊢
      rw [ih (by omega)]

theorem bce_cons (c : Char) (r : List Char) :
    blockCommentEnd (c :: r) = if (c = '*' && r.head? = some '/') then 2 else 1 + blockCommentEnd r := by
  rw [blockCommentEnd]

theorem blockCommentEnd_local (u Z Z' : List Char) (h : blockCommentEnd (u ++ Z) < u.length) :
    blockCommentEnd (u ++ Z') = blockCommentEnd (u ++ Z) := by
  induction u with
  | nil => simp at h
  | cons c t ih =>
    cases t with
    | nil =>
      rw [List.cons_append, bce_cons] at h
      simp only [List.length_cons, List.length_nil] at h
      split at h <;> omega
    | cons d t' =>
      have e1 : (c :: d :: t') ++ Z = c :: (d :: (t' ++ Z)) := rfl
      have e2 : (c :: d :: t') ++ Z' = c :: (d :: (t' ++ Z')) := rfl
      rw [e1, bce_cons] at h
      rw [e1, e2, bce_cons c, bce_cons c]
      by_cases hcd : c = '*' ∧ d = '/'
      · simp [hcd.1, hcd.2]
      · have hf : ∀ X : List Char, (decide (c = '*') && decide ((d :: X).head? = some '/')) = false := by
          intro X
          simp only [List.head?_cons, Option.some.injEq, Bool.and_eq_false_iff, decide_eq_false_iff_not]
          by_cases h1 : c = '*'
          · right; intro h2; exact hcd ⟨h1, h2⟩
          · left; exact h1
        rw [hf] at h
        rw [hf, hf]
        simp only [Bool.false_eq_true, if_false] at h ⊢
        have := ih (by simp only [List.cons_append, List.length_cons] at h ⊢; omega)
        simp only [List.cons_append] at this
        rw [this]

theorem scanDelim_cons (q c : Char) (cs : List Char) :
    scanDelim [q] (c :: cs) =
      if c = '\\' then (match cs with | [] => none | _ :: cs' => (scanDelim [q] cs').map (· + 2))
      else if q = c then some 0 else (scanDelim [q] cs).map (· + 1) := by
  rw [scanDelim.eq_def]
  simp only [isPrefix]
  by_cases hc : c = '\\'
  · simp only [hc, if_true]; cases cs <;> rfl
  · by_cases hq : q = c <;> simp [hc, hq]

theorem scanDelim_local (q : Char) : ∀ (n : Nat) (u : List Char), u.length ≤ n → ∀ (Z Z' : List Char) (k : Nat),
    scanDelim [q] (u ++ Z) = some k → k < u.length → scanDelim [q] (u ++ Z') = some k := by
  intro n
  induction n with
  | zero =>
    intro u hu Z Z' k _ hk
    cases u with
    | nil => simp at hk
    | cons _ _ => simp at hu
  | succ n ih =>
    intro u hu Z Z' k h hk
    cases u with
    | nil => simp at hk
    | cons c t =>
      rw [List.cons_append, scanDelim_cons] at h ⊢
      by_cases hc : c = '\\'
      · simp only [hc, if_true] at h ⊢
        cases t with
        | nil =>
          simp only [List.nil_append] at h
          cases Z with
          | nil => simp at h
          | cons z Z2 =>
            simp only [Option.map_eq_some_iff] at h
            obtain ⟨k', _, rfl⟩ := h
            simp at hk
        | cons c2 t2 =>
          simp only [List.cons_append, Option.map_eq_some_iff] at h ⊢
          obtain ⟨k', hk', rfl⟩ := h
          refine ⟨k', ih t2 (by simp at hu ⊢; omega) Z Z' k' hk' (by simp at hk; omega), rfl⟩
      · simp only [hc, if_false] at h ⊢
        by_cases hq : q = c
        · simp only [hq, if_true] at h ⊢; exact h
        · simp only [hq, if_false, Option.map_eq_some_iff] at h ⊢
          obtain ⟨k', hk', rfl⟩ := h
          refine ⟨k', ih t (by simp at hu ⊢; omega) Z Z' k' hk' (by simp at hk; omega), rfl⟩

theorem lexQuoted_local (q : Char) (u Z Z' : List Char) (h : (lexQuoted q (u ++ Z)).2.1 ≤ u.length) :
    lexQuoted q (u ++ Z') = lexQuoted q (u ++ Z) := by
  unfold lexQuoted at h ⊢
  cases hs : scanDelim [q] (u ++ Z) with
  | none =>
    rw [hs] at h
    simp only [List.length_append] at h
    omega
  | some k =>
    rw [hs] at h
    simp only at h
    have hk : k < u.length := by omega
    rw [scanDelim_local q u.length u (Nat.le_refl _) Z Z' k hs hk]
    simp only
    have e1 : (u ++ Z).take k = u.take k := List.take_append_of_le_length (by omega)
    have e2 : (u ++ Z').take k = u.take k := List.take_append_of_le_length (by omega)
    rw [e1, e2]

theorem lexNum_local (u Z Z' : List Char) (h : (lexNum (u ++ Z)).2 < u.length) :
    lexNum (u ++ Z') = lexNum (u ++ Z) := by
  have hle := takeWhile_len_le isNumChar (u ++ Z)
  -- the first run of digits ends inside `u`
  have hrun_lt : ((u ++ Z).takeWhile isNumChar).length < u.length := by
    unfold lexNum at h
    simp only at h
    split at h <;> (simp only at h; omega)
  have hrun := takeWhile_local isNumChar u Z Z' hrun_lt
  unfold lexNum at h ⊢
  simp only at h ⊢
  rw [hrun]
  generalize hm : ((u ++ Z).takeWhile isNumChar).length = m at *
  have hd : ∀ W : List Char, (u ++ W).drop m = u.drop m ++ W := fun W => List.drop_append_of_le_length (by omega)
  rw [hd Z] at h
  rw [hd Z, hd Z']
  have hne : u.drop m ≠ [] := by
    intro he; have := congrArg List.length he; simp at this; omega
  cases hu : u.drop m with
  | nil => exact absurd hu hne
  | cons d v =>
    rw [hu] at h
    simp only [List.cons_append] at h ⊢
    by_cases hdot : d = '.'
    · subst hdot
      simp only at h ⊢
      have hv : v.length + 1 + m = u.length := by
        have := congrArg List.length hu; simp at this; omega
      have := takeWhile_local isNumChar v Z Z' (by omega)
      rw [this]
    · have : ∀ W : List Char, (match d :: (v ++ W) with
          | '.' :: rest' => (TokenKind.floatLit (List.filter isDigit (List.takeWhile isNumChar (u ++ Z)) ++ '.' :: List.filter isDigit (List.takeWhile isNumChar rest')), m + 1 + (List.takeWhile isNumChar rest').length)
          | _ => (TokenKind.intLit (List.filter isDigit (List.takeWhile isNumChar (u ++ Z))), m)) =
          (TokenKind.intLit (List.filter isDigit (List.takeWhile isNumChar (u ++ Z))), m) := by
        intro W
        split
        · rename_i heq; simp only [List.cons.injEq] at heq; exact absurd heq.1 hdot
        · rfl
      exact (this Z').trans (this Z).symm


theorem head_append_ne_nil {u : List Char} (hu : u ≠ []) (Z : List Char) : (u ++ Z).head? = u.head? := by
  cases u with
  | nil => exact absurd rfl hu
  | cons a b => rfl

theorem lexNum_len_pos (c : Char) (r : List Char) (hd : isDigit c = true) : 1 ≤ (lexNum (c :: r)).2 := by
  unfold lexNum
  have hn : isNumChar c = true := by simp [isNumChar, hd]
  have : 1 ≤ ((c :: r).takeWhile isNumChar).length := by simp [List.takeWhile, hn]
  simp only
  split <;> (simp only; omega)

theorem lexOne_len_pos (c : Char) (rest : List Char) : 1 ≤ (lexOne (c :: rest)).len := by
  rw [lexOne]
  by_cases hid : isIdentStart c = true
  · simp only [hid, if_true]
    split
    · simp [punct]
    · split
      · simp only [punct, List.length_cons]; omega
      · split <;> (simp only [punct, List.length_cons]; omega)
  · simp only [hid, Bool.false_eq_true, if_false]
    by_cases hd : isDigit c = true
    · simp only [hd, if_true]
      have := lexNum_len_pos c rest hd
      simp only [punct]; exact this
    · simp only [hd, Bool.false_eq_true, if_false]
      have hq : ∀ q, 1 ≤ (lexQuoted q rest).2.1 := by
        intro q; unfold lexQuoted; split <;> (simp only; omega)
      split
      all_goals (try (simp only [punct, skip]; omega))
      all_goals (try (split <;> simp only [punct, skip] <;> omega))
      · split
        · simp only [punct]; omega
        · split <;> (simp only [punct]; omega)
      · split
        · show 1 ≤ (lexTriple (rest.drop 2)).2.1 + 3; omega
        · exact hq _
      · exact hq _
      · split
        · simp only [skip]; omega
        · split
          · simp only [skip]; omega
          · split <;> (simp only [punct]; omega)

theorem lexOne_local (c : Char) (u Z Z' : List Char)
    (hnt : startsTriple (c :: (u ++ Z)) = false) (hnt' : startsTriple (c :: (u ++ Z')) = false)
    (h : (lexOne (c :: (u ++ Z))).len ≤ u.length) :
    lexOne (c :: (u ++ Z')) = lexOne (c :: (u ++ Z)) := by
  rw [lexOne] at h
  rw [lexOne, lexOne]
  by_cases hid : isIdentStart c = true
  · simp only [hid, if_true] at h ⊢
    have htw : ((u ++ Z).takeWhile isIdentMid).length < u.length := by
      split at h
      · rename_i heq
        simp only [List.cons.injEq] at heq
        simp only [punct] at h
        rw [heq.2]; simp only [List.length_nil]; omega
      · split at h
        · simp only [punct, List.length_cons] at h; omega
        · split at h <;> (simp only [punct, List.length_cons] at h; omega)
    rw [takeWhile_local isIdentMid u Z Z' htw]
  · simp only [hid, Bool.false_eq_true, if_false] at h ⊢
    by_cases hd : isDigit c = true
    · simp only [hd, if_true] at h ⊢
      have := lexNum_local (c :: u) Z Z' (by simp only [punct, List.cons_append, List.length_cons] at h ⊢; omega)
      simp only [List.cons_append] at this
      rw [this]
    · simp only [hd, Bool.false_eq_true, if_false] at h ⊢
      have hu : u ≠ [] := by
        intro he; subst he
        have := lexOne_len_pos c ([] ++ Z)
        rw [lexOne] at this
        simp only [hid, hd, Bool.false_eq_true, if_false] at this
        simp only [List.length_nil] at h
        omega
      rw [head_append_ne_nil hu Z'] 
      rw [head_append_ne_nil hu Z] at h ⊢
      split
      all_goals (try rfl)
      · -- `"`
        simp only [hnt, hnt', Bool.false_eq_true, if_false] at h ⊢
        rw [lexQuoted_local '"' u Z Z' h]
      · -- `'`
        simp only at h
        rw [lexQuoted_local '\'' u Z Z' h]
      · -- `/`
        simp only at h
        by_cases h1 : u.head? = some '/'
        · simp only [h1, if_true, skip] at h ⊢
          rw [lineCommentLen_local u Z Z' (by omega)]
        · simp only [h1, if_false] at h ⊢
          by_cases h2 : u.head? = some '*'
          · simp only [h2, if_true, skip] at h ⊢
            have hd1 : ∀ W : List Char, (u ++ W).drop 1 = u.drop 1 ++ W := fun W =>
              List.drop_append_of_le_length (by cases u with | nil => exact absurd rfl hu | cons _ _ => simp)
            rw [hd1 Z] at h
            rw [hd1 Z, hd1 Z']
            have hul : (u.drop 1).length = u.length - 1 := by simp
            have hlt : blockCommentEnd (u.drop 1 ++ Z) < (u.drop 1).length := by
              simp only [List.length_append] at h
              omega
            rw [blockCommentEnd_local (u.drop 1) Z Z' hlt]
            simp only [List.length_append] at h ⊢
            congr 1
            omega
          · simp only [h2, if_false]

end Abra.Lex
