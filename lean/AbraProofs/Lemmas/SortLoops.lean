import AbraModel.Lib.SortLoops
import AbraProofs.Lemmas.Sort
/-! Lemmas for C25: the in-place, index-level `merge_by` computes the list-level `merge`. -/
namespace Abra.Lib

variable {α : Type}

theorem set_at (X Y : List α) (g a : α) : (X ++ g :: Y).set X.length a = X ++ a :: Y := by
  induction X with
  | nil => rfl
  | cons x X ih => simp [ih]

theorem get_at (X Y : List α) (b : α) : (X ++ b :: Y)[X.length]? = some b := by
  induction X with
  | nil => rfl
  | cons x X ih => simpa using ih

theorem merge_cons_pos (le : α → α → Bool) (a b : α) (l r : List α) (h : le a b = true) :
    merge le (a :: l) (b :: r) = a :: merge le l (b :: r) := by
  simp [merge, h]

theorem merge_cons_neg (le : α → α → Bool) (a b : α) (l r : List α) (h : le a b = false) :
    merge le (a :: l) (b :: r) = b :: merge le (a :: l) r := by
  simp [merge, h]

theorem merge_nil_left (le : α → α → Bool) (r : List α) : merge le [] r = r := by
  simp [merge]

theorem merge_nil_right (le : α → α → Bool) (l : List α) : merge le l [] = l := by
  cases l <;> simp [merge]

/-- invariant of the main loop: `arr = P ++ M ++ G ++ R ++ S` with `M` the part merged so far (ending at `k`),
    `G` the cells between `k` and `j` whose content is no longer needed (as many as there are unread
    elements of `temp`), `R` the unread elements of the right run (from `j` to `right`) -/
theorem mergeMainA_spec (le : α → α → Bool) (temp : List α) (right : Nat) (P S : List α) :
    ∀ (fuel : Nat) (M G R : List α) (i : Nat),
      i ≤ temp.length → G.length = temp.length - i → right + 1 = P.length + M.length + G.length + R.length →
      (temp.length - i) + R.length ≤ fuel →
      ∃ M' G' R' i', mergeMainA le temp right fuel (P ++ (M ++ (G ++ (R ++ S)))) i (P.length + M.length + G.length) (P.length + M.length)
          = (P ++ (M' ++ (G' ++ (R' ++ S))), i', P.length + M'.length) ∧
        i' ≤ temp.length ∧ G'.length = temp.length - i' ∧ (i' = temp.length ∨ R' = []) ∧
        M' ++ merge le (temp.drop i') R' = M ++ merge le (temp.drop i) R := by
  intro fuel
  induction fuel with
  | zero =>
    intro M G R i hi hG hright hfuel
    have h1 : i = temp.length := by omega
    have h2 : R = [] := List.eq_nil_of_length_eq_zero (by omega)
    exact ⟨M, G, R, i, rfl, hi, hG, Or.inl h1, rfl⟩
  | succ fuel ih =>
    intro M G R i hi hG hright hfuel
    by_cases hend : i < temp.length ∧ P.length + M.length + G.length ≤ right
    · -- one more step
      have hGpos : 0 < G.length := by omega
      have hRpos : 0 < R.length := by omega
      obtain ⟨g, G', rfl⟩ := List.exists_cons_of_length_pos hGpos
      obtain ⟨b, R', rfl⟩ := List.exists_cons_of_length_pos hRpos
      have htemp : temp[i]? = some temp[i] := List.getElem?_eq_getElem hend.1
      have hdrop : temp.drop i = temp[i] :: temp.drop (i + 1) := List.drop_eq_getElem_cons hend.1
      have hget : (P ++ (M ++ (g :: G' ++ (b :: R' ++ S))))[P.length + M.length + (g :: G').length]? = some b := by
        have := get_at (P ++ (M ++ (g :: G'))) (R' ++ S) b
        simpa [List.append_assoc, Nat.add_assoc] using this
      have hset : ∀ a, (P ++ (M ++ (g :: G' ++ (b :: R' ++ S)))).set (P.length + M.length) a
          = P ++ (M ++ (a :: G' ++ (b :: R' ++ S))) := by
        intro a
        have := set_at (P ++ M) (G' ++ (b :: R' ++ S)) g a
        simpa [List.append_assoc] using this
      simp only [mergeMainA, hend, and_self, if_true, htemp, hget, hset]
      by_cases hle : le temp[i] b = true
      · simp only [hle, if_true]
        have e1 : P ++ (M ++ (temp[i] :: G' ++ (b :: R' ++ S))) = P ++ ((M ++ [temp[i]]) ++ (G' ++ (b :: R' ++ S))) := by simp
        have e2 : P.length + M.length + (g :: G').length = P.length + (M ++ [temp[i]]).length + G'.length := by
          simp; omega
        have e3 : P.length + M.length + 1 = P.length + (M ++ [temp[i]]).length := by simp; omega
        rw [e1, e2, e3]
        obtain ⟨M2, G2, R2, i2, hrun, h1, h2, h3, h4⟩ := ih (M ++ [temp[i]]) G' (b :: R') (i + 1) (by omega)
          (by simp at hG ⊢; omega) (by simp at hright ⊢; omega) (by simp at hfuel ⊢; omega)
        refine ⟨M2, G2, R2, i2, hrun, h1, h2, h3, ?_⟩
        rw [h4, hdrop, merge_cons_pos le _ _ _ _ hle]
        simp
      · have hle' : le temp[i] b = false := by simpa using hle
        simp only [hle', Bool.false_eq_true, if_false]
        have e1 : P ++ (M ++ (b :: G' ++ (b :: R' ++ S))) = P ++ ((M ++ [b]) ++ ((G' ++ [b]) ++ (R' ++ S))) := by simp
        have e2 : P.length + M.length + (g :: G').length + 1 = P.length + (M ++ [b]).length + (G' ++ [b]).length := by
          simp; omega
        have e3 : P.length + M.length + 1 = P.length + (M ++ [b]).length := by simp; omega
        rw [e1, e2, e3]
        obtain ⟨M2, G2, R2, i2, hrun, h1, h2, h3, h4⟩ := ih (M ++ [b]) (G' ++ [b]) R' i hi
          (by simp at hG ⊢; omega) (by simp at hright ⊢; omega) (by simp at hfuel ⊢; omega)
        refine ⟨M2, G2, R2, i2, hrun, h1, h2, h3, ?_⟩
        rw [h4, hdrop, merge_cons_neg le _ _ _ _ hle']
        simp
    · -- the loop condition fails
      simp only [mergeMainA, hend, if_false]
      refine ⟨M, G, R, i, rfl, hi, hG, ?_, rfl⟩
      by_cases h1 : i < temp.length
      · right
        have : ¬ (P.length + M.length + G.length ≤ right) := fun h => hend ⟨h1, h⟩
        exact List.eq_nil_of_length_eq_zero (by omega)
      · left; omega

theorem mergeDrainA_spec (temp : List α) (P S : List α) :
    ∀ (fuel : Nat) (M G : List α) (i : Nat), i ≤ temp.length → G.length = temp.length - i → fuel = temp.length - i →
      mergeDrainA temp fuel (P ++ (M ++ (G ++ S))) i (P.length + M.length) = P ++ (M ++ (temp.drop i ++ S)) := by
  intro fuel
  induction fuel with
  | zero =>
    intro M G i hi hG hf
    have : G = [] := List.eq_nil_of_length_eq_zero (by omega)
    subst this
    have : temp.drop i = [] := List.drop_eq_nil_of_le (by omega)
    simp [mergeDrainA, this]
  | succ fuel ih =>
    intro M G i hi hG hf
    have hlt : i < temp.length := by omega
    have hGpos : 0 < G.length := by omega
    obtain ⟨g, G', rfl⟩ := List.exists_cons_of_length_pos hGpos
    have htemp : temp[i]? = some temp[i] := List.getElem?_eq_getElem hlt
    have hdrop : temp.drop i = temp[i] :: temp.drop (i + 1) := List.drop_eq_getElem_cons hlt
    have hset : (P ++ (M ++ (g :: G' ++ S))).set (P.length + M.length) temp[i] = P ++ ((M ++ [temp[i]]) ++ (G' ++ S)) := by
      have := set_at (P ++ M) (G' ++ S) g temp[i]
      simpa [List.append_assoc] using this
    have e3 : P.length + M.length + 1 = P.length + (M ++ [temp[i]]).length := by simp; omega
    have step := ih (M ++ [temp[i]]) G' (i + 1) (by omega) (by simp at hG ⊢; omega) (by omega)
    simp only [mergeDrainA, htemp, hset]
    rw [e3, step, hdrop]
    simp only [List.append_assoc, List.cons_append, List.nil_append]

/-- `merge_by(left, mid, right)` — scratch copy, in-place writes at `k`, drain — leaves the array as it was
    outside `[left, right]` and puts `merge le self[left..=mid] self[mid+1..=right]` inside. -/
theorem mergeByA_eq (le : α → α → Bool) (arr : List α) (left mid right : Nat)
    (h1 : left ≤ mid) (h2 : mid < right) (h3 : right < arr.length) :
    mergeByA le arr left mid right =
      arr.take left ++ merge le ((arr.drop left).take (mid - left + 1)) ((arr.drop (mid + 1)).take (right - mid))
        ++ arr.drop (right + 1) := by
  -- split the array: P = before left, T = left run, R = right run, S = after right
  have hsplit : arr = arr.take left ++ ((arr.drop left).take (mid - left + 1) ++ ((arr.drop (mid + 1)).take (right - mid) ++ arr.drop (right + 1))) := by
    have a1 : arr = arr.take left ++ arr.drop left := (List.take_append_drop left arr).symm
    have a2 : arr.drop left = (arr.drop left).take (mid - left + 1) ++ (arr.drop left).drop (mid - left + 1) :=
      (List.take_append_drop _ _).symm
    have a3 : (arr.drop left).drop (mid - left + 1) = arr.drop (mid + 1) := by
      rw [List.drop_drop]; congr 1; omega
    have a4 : arr.drop (mid + 1) = (arr.drop (mid + 1)).take (right - mid) ++ (arr.drop (mid + 1)).drop (right - mid) :=
      (List.take_append_drop _ _).symm
    have a5 : (arr.drop (mid + 1)).drop (right - mid) = arr.drop (right + 1) := by
      rw [List.drop_drop]; congr 1; omega
    rw [a5] at a4
    rw [a3] at a2
    calc arr = arr.take left ++ arr.drop left := a1
      _ = arr.take left ++ ((arr.drop left).take (mid - left + 1) ++ arr.drop (mid + 1)) :=
          congrArg (fun x => arr.take left ++ x) a2
      _ = _ := congrArg (fun x => arr.take left ++ ((arr.drop left).take (mid - left + 1) ++ x)) a4
  generalize hP : arr.take left = P at hsplit
  generalize hT : (arr.drop left).take (mid - left + 1) = T at hsplit
  generalize hR : (arr.drop (mid + 1)).take (right - mid) = R at hsplit
  generalize hS : arr.drop (right + 1) = S at hsplit
  have lP : P.length = left := by rw [← hP]; simp; omega
  have lT : T.length = mid - left + 1 := by rw [← hT]; simp; omega
  have lR : R.length = right - mid := by rw [← hR]; simp; omega
  unfold mergeByA
  simp only [hT]
  obtain ⟨M', G', R', i', hrun, hi', hG', hor, hmerge⟩ := mergeMainA_spec le T right P S (right + 1 - left) [] T R 0
    (by omega) (by simp) (by simp; omega) (by simp; omega)
  have e0 : P.length + ([] : List α).length + T.length = mid + 1 := by simp; omega
  have e1 : P.length + ([] : List α).length = left := by simp; omega
  rw [e0, e1] at hrun
  have harr : arr = P ++ ([] ++ (T ++ (R ++ S))) := by simpa using hsplit
  rw [← harr] at hrun
  rw [hrun]
  simp only
  simp only [List.drop_zero, List.nil_append] at hmerge
  rw [← hmerge]
  rcases hor with hfull | hRnil
  · -- all of temp consumed: the rest of the right run is already in place
    have hG0 : G' = [] := List.eq_nil_of_length_eq_zero (by omega)
    subst hG0
    have : T.drop i' = [] := List.drop_eq_nil_of_le (by omega)
    have hf : mid - left + 1 - i' = 0 := by omega
    simp [this, hf, mergeDrainA, merge_nil_left]
  · subst hRnil
    have := mergeDrainA_spec T P S (T.length - i') M' G' i' hi' hG' rfl
    simp only [List.nil_append] at this ⊢
    rw [lT] at this
    rw [this, merge_nil_right]
    simp

/-! ## insertion sort in place -/

theorem insRev_length (le : α → α → Bool) (key : α) (rp : List α) : (insRev le key rp).length = rp.length + 1 := by
  induction rp with
  | nil => rfl
  | cons x r ih =>
    simp only [insRev]
    split
    · rfl
    · simp [ih]

/-- the shifting loop: `arr = P ++ A ++ [h] ++ B ++ S`, the hole `h` at `jp = |P| + |A|`; afterwards `key` is
    written into the hole that is left -/
theorem insertShiftA_spec (le : α → α → Bool) (key : α) (P S : List α) :
    ∀ (fuel : Nat) (A B : List α) (h : α), A.length ≤ fuel →
      ((insertShiftA le key P.length fuel (P ++ (A ++ (h :: (B ++ S)))) (P.length + A.length)).1.set
          (insertShiftA le key P.length fuel (P ++ (A ++ (h :: (B ++ S)))) (P.length + A.length)).2 key)
        = P ++ ((insRev le key A.reverse).reverse ++ (B ++ S)) := by
  intro fuel
  induction fuel with
  | zero =>
    intro A B h hf
    have : A = [] := List.eq_nil_of_length_eq_zero (by omega)
    subst this
    have := set_at P (B ++ S) h key
    simpa [insertShiftA, insRev] using this
  | succ fuel ih =>
    intro A B h hf
    rcases List.eq_nil_or_concat A with rfl | ⟨A', x, hA⟩
    · have := set_at P (B ++ S) h key
      simpa [insertShiftA, insRev] using this
    · rw [List.concat_eq_append] at hA
      subst hA
      have hjp : P.length + (A' ++ [x]).length > P.length := by simp
      have hget : (P ++ (A' ++ [x] ++ (h :: (B ++ S))))[P.length + (A' ++ [x]).length - 1]? = some x := by
        have := get_at (P ++ A') (h :: (B ++ S)) x
        have e : P.length + (A' ++ [x]).length - 1 = (P ++ A').length := by simp
        rw [e]
        simpa [List.append_assoc] using this
      have hrev : (A' ++ [x]).reverse = x :: A'.reverse := by simp
      simp only [insertShiftA, hjp, if_true, hget, hrev, insRev]
      by_cases hle : le x key = true
      · -- stop here: the key goes right after x
        simp only [hle, Bool.not_true, Bool.false_eq_true, if_false, if_true]
        have := set_at (P ++ (A' ++ [x])) (B ++ S) h key
        simpa [List.append_assoc] using this
      · have hle' : le x key = false := by simpa using hle
        simp only [hle', Bool.not_false, if_true, Bool.false_eq_true, if_false]
        -- shift x one place to the right and continue with the shorter prefix
        have hset : (P ++ (A' ++ [x] ++ (h :: (B ++ S)))).set (P.length + (A' ++ [x]).length) x
            = P ++ (A' ++ (x :: ((x :: B) ++ S))) := by
          have := set_at (P ++ (A' ++ [x])) (B ++ S) h x
          simpa [List.append_assoc] using this
        have hjp' : P.length + (A' ++ [x]).length - 1 = P.length + A'.length := by simp
        rw [hset, hjp']
        have := ih A' (x :: B) x (by simp at hf; omega)
        rw [this]
        simp

/-- the outer loop: `Sd` is the part sorted so far (from `left`), `U` the rest of the segment -/
theorem insertionSortA_spec (le : α → α → Bool) (P S : List α) :
    ∀ (U Sd : List α),
      insertionSortA le P.length U.length (P ++ (Sd ++ (U ++ S))) (P.length + Sd.length)
        = P ++ ((U.foldl (fun rp key => insRev le key rp) Sd.reverse).reverse ++ S) := by
  intro U
  induction U with
  | nil => intro Sd; simp [insertionSortA]
  | cons key U ih =>
    intro Sd
    have hget : (P ++ (Sd ++ (key :: U ++ S)))[P.length + Sd.length]? = some key := by
      have := get_at (P ++ Sd) (U ++ S) key
      simpa [List.append_assoc] using this
    simp only [List.length_cons, insertionSortA, hget, List.foldl_cons]
    have e : P.length + Sd.length - P.length = Sd.length := by omega
    rw [e]
    have hs := insertShiftA_spec le key P (U ++ S) Sd.length Sd [] key (Nat.le_refl _)
    simp only [List.nil_append] at hs
    have harr : P ++ (Sd ++ (key :: U ++ S)) = P ++ (Sd ++ (key :: (U ++ S))) := by simp
    rw [harr, hs]
    have hl : ((insRev le key Sd.reverse).reverse).length = Sd.length + 1 := by
      simp [insRev_length]
    have := ih (insRev le key Sd.reverse).reverse
    rw [hl, List.reverse_reverse] at this
    have e2 : P.length + Sd.length + 1 = P.length + (Sd.length + 1) := by omega
    rw [e2, this]

/-- `insertion_sort_by(left, right)` — key lifted out, larger elements shifted right one by one, key
    dropped into the hole — sorts the segment `[left, right]` exactly as the list-level `insertRun` does and
    leaves the rest of the array alone. -/
theorem insertionSortByA_eq (le : α → α → Bool) (arr : List α) (left right : Nat)
    (h1 : left ≤ right) (h2 : right < arr.length) :
    insertionSortByA le arr left right =
      arr.take left ++ insertRun le ((arr.drop left).take (right - left + 1)) ++ arr.drop (right + 1) := by
  have hlt : left < arr.length := by omega
  have hseg : (arr.drop left).take (right - left + 1) = arr[left] :: (arr.drop (left + 1)).take (right - left) := by
    rw [List.drop_eq_getElem_cons hlt, List.take_succ_cons]
  have hsplit : arr = arr.take left ++ ([arr[left]] ++ ((arr.drop (left + 1)).take (right - left) ++ arr.drop (right + 1))) := by
    have a1 : arr = arr.take left ++ arr.drop left := (List.take_append_drop left arr).symm
    have a2 : arr.drop left = arr[left] :: arr.drop (left + 1) := List.drop_eq_getElem_cons hlt
    have a4 : arr.drop (left + 1) = (arr.drop (left + 1)).take (right - left) ++ (arr.drop (left + 1)).drop (right - left) :=
      (List.take_append_drop _ _).symm
    have a5 : (arr.drop (left + 1)).drop (right - left) = arr.drop (right + 1) := by
      rw [List.drop_drop]; congr 1; omega
    rw [a5] at a4
    calc arr = arr.take left ++ arr.drop left := a1
      _ = arr.take left ++ (arr[left] :: arr.drop (left + 1)) := congrArg (fun x => arr.take left ++ x) a2
      _ = _ := by
        have := congrArg (fun x => arr.take left ++ (arr[left] :: x)) a4
        simpa using this
  rw [hseg]
  generalize hP : arr.take left = P at hsplit ⊢
  generalize hU : (arr.drop (left + 1)).take (right - left) = U at hsplit ⊢
  generalize hS : arr.drop (right + 1) = S at hsplit ⊢
  generalize arr[left] = x at hsplit ⊢
  have lP : P.length = left := by rw [← hP]; simp; omega
  have lU : U.length = right - left := by rw [← hU]; simp; omega
  unfold insertionSortByA
  have := insertionSortA_spec le P S U [x]
  rw [lU, lP] at this
  simp only [List.length_singleton] at this
  rw [hsplit, this]
  simp [insertRun, insRev]

/-! ## the loops of `sort_by` on the array -/

theorem insertionSortByA_length (le : α → α → Bool) (arr : List α) (left right : Nat)
    (h1 : left ≤ right) (h2 : right < arr.length) : (insertionSortByA le arr left right).length = arr.length := by
  rw [insertionSortByA_eq le arr left right h1 h2]
  simp only [List.length_append, insertRun_length, List.length_take, List.length_drop]
  omega

theorem runsA_spec (le : α → α → Bool) (run : Nat) (hr : 0 < run) :
    ∀ (fuel : Nat) (P L : List α), L.length ≤ fuel →
      runsA le run (P.length + L.length) fuel (P ++ L) P.length = P ++ runs le run L := by
  intro fuel
  induction fuel with
  | zero =>
    intro P L hf
    have : L = [] := List.eq_nil_of_length_eq_zero (by omega)
    subst this
    simp [runsA, runs_nil]
  | succ fuel ih =>
    intro P L hf
    by_cases hL : L = []
    · subst hL; simp [runsA, runs_nil]
    have hpos : 0 < L.length := List.length_pos_iff.mpr hL
    have hlt : P.length < P.length + L.length := by omega
    simp only [runsA, hlt, if_true]
    rw [runs_eq le run L hr hL]
    -- the run sorted by this iteration
    have hend : (if P.length + run - 1 < P.length + L.length - 1 then P.length + run - 1 else P.length + L.length - 1)
        = P.length + (min run L.length - 1) := by
      split <;> omega
    rw [hend]
    have hsort := insertionSortByA_eq le (P ++ L) P.length (P.length + (min run L.length - 1)) (by omega)
      (by simp; omega)
    have e1 : (P ++ L).take P.length = P := by simp
    have e2 : (P ++ L).drop P.length = L := by simp
    have e3 : P.length + (min run L.length - 1) - P.length + 1 = min run L.length := by omega
    have e4 : L.take (min run L.length) = L.take run := by
      rw [List.take_eq_take_iff]; simp
    have e5 : (P ++ L).drop (P.length + (min run L.length - 1) + 1) = L.drop run := by
      rw [show P.length + (min run L.length - 1) + 1 = P.length + min run L.length by omega, ← List.drop_drop, e2]
      by_cases hc : run ≤ L.length
      · rw [Nat.min_eq_left hc]
      · rw [Nat.min_eq_right (by omega), List.drop_of_length_le (Nat.le_refl _), List.drop_of_length_le (by omega)]
    rw [e1, e2, e3, e4, e5] at hsort
    rw [hsort]
    -- continue from i + run
    by_cases hc : run ≤ L.length
    · have hlenI : (P ++ insertRun le (L.take run)).length = P.length + run := by
        simp [insertRun_length]; omega
      have := ih (P ++ insertRun le (L.take run)) (L.drop run) (by simp; omega)
      rw [hlenI] at this
      have hn : P.length + run + (L.drop run).length = P.length + L.length := by simp; omega
      rw [hn] at this
      simp only [List.append_assoc] at this ⊢
      exact this
    · -- the last, short run: the loop ends
      have hd : L.drop run = [] := List.drop_of_length_le (by omega)
      rw [hd, runs_nil]
      cases fuel with
      | zero => simp [runsA]
      | succ fuel =>
        have : ¬ (P.length + run < P.length + L.length) := by omega
        simp [runsA, this]

theorem mergeByA_length (le : α → α → Bool) (arr : List α) (left mid right : Nat)
    (h1 : left ≤ mid) (h2 : mid < right) (h3 : right < arr.length) : (mergeByA le arr left mid right).length = arr.length := by
  rw [mergeByA_eq le arr left mid right h1 h2 h3]
  simp only [List.length_append, merge_length, List.length_take, List.length_drop]
  omega

theorem sweepA_spec (le : α → α → Bool) (w : Nat) (hw : 0 < w) :
    ∀ (fuel : Nat) (P L : List α), L.length ≤ fuel →
      sweepA le w (P.length + L.length) fuel (P ++ L) P.length = P ++ mergePass le w L := by
  intro fuel
  induction fuel with
  | zero =>
    intro P L hf
    have : L = [] := List.eq_nil_of_length_eq_zero (by omega)
    subst this
    simp [sweepA, mergePass_nil]
  | succ fuel ih =>
    intro P L hf
    by_cases hL : L = []
    · subst hL; simp [sweepA, mergePass_nil]
    have hpos : 0 < L.length := List.length_pos_iff.mpr hL
    have hlt : P.length < P.length + L.length := by omega
    simp only [sweepA, hlt, if_true]
    rw [mergePass_eq le w L hw hL]
    have hright : (if P.length + 2 * w - 1 < P.length + L.length - 1 then P.length + 2 * w - 1 else P.length + L.length - 1)
        = P.length + (min (2 * w) L.length - 1) := by
      split <;> omega
    rw [hright]
    have e1 : (P ++ L).take P.length = P := by simp
    have e2 : (P ++ L).drop P.length = L := by simp
    -- the block written by this iteration
    have hblock : (if P.length + w - 1 < P.length + (min (2 * w) L.length - 1)
          then mergeByA le (P ++ L) P.length (P.length + w - 1) (P.length + (min (2 * w) L.length - 1)) else P ++ L)
        = P ++ ((if w < L.length then merge le (L.take w) ((L.drop w).take w) else L.take w) ++ L.drop (2 * w)) := by
      by_cases hc : w < L.length
      · have hcond : P.length + w - 1 < P.length + (min (2 * w) L.length - 1) := by omega
        simp only [hcond, hc, if_true]
        rw [mergeByA_eq le (P ++ L) P.length (P.length + w - 1) (P.length + (min (2 * w) L.length - 1)) (by omega) hcond (by simp; omega)]
        rw [e1, e2]
        have a1 : P.length + w - 1 - P.length + 1 = w := by omega
        have a2 : (P ++ L).drop (P.length + w - 1 + 1) = L.drop w := by
          rw [show P.length + w - 1 + 1 = P.length + w by omega, ← List.drop_drop, e2]
        have a3 : P.length + (min (2 * w) L.length - 1) - (P.length + w - 1) = min w (L.length - w) := by omega
        have a4 : (L.drop w).take (min w (L.length - w)) = (L.drop w).take w := by
          rw [List.take_eq_take_iff]; simp
        have a5 : (P ++ L).drop (P.length + (min (2 * w) L.length - 1) + 1) = L.drop (2 * w) := by
          rw [show P.length + (min (2 * w) L.length - 1) + 1 = P.length + min (2 * w) L.length by omega, ← List.drop_drop, e2]
          by_cases hc2 : 2 * w ≤ L.length
          · rw [Nat.min_eq_left hc2]
          · rw [Nat.min_eq_right (by omega), List.drop_of_length_le (Nat.le_refl _), List.drop_of_length_le (by omega)]
        rw [a1, a2, a3, a4, a5]
        simp [List.append_assoc]
      · have hcond : ¬ (P.length + w - 1 < P.length + (min (2 * w) L.length - 1)) := by omega
        simp only [hcond, hc, if_false]
        rw [List.take_of_length_le (by omega), List.drop_of_length_le (by omega)]
        simp
    rw [hblock]
    generalize hF : (if w < L.length then merge le (L.take w) ((L.drop w).take w) else L.take w) = F
    have hFlen : F.length = min (2 * w) L.length := by
      rw [← hF]
      split
      · rw [merge_length]; simp only [List.length_take, List.length_drop]; omega
      · simp only [List.length_take]; omega
    by_cases hc : 2 * w ≤ L.length
    · have hlenPF : (P ++ F).length = P.length + 2 * w := by simp [hFlen]; omega
      have := ih (P ++ F) (L.drop (2 * w)) (by simp; omega)
      rw [hlenPF] at this
      have hn : P.length + 2 * w + (L.drop (2 * w)).length = P.length + L.length := by simp; omega
      rw [hn] at this
      simp only [List.append_assoc] at this ⊢
      exact this
    · have hd : L.drop (2 * w) = [] := List.drop_of_length_le (by omega)
      rw [hd, mergePass_nil]
      cases fuel with
      | zero => simp [sweepA]
      | succ fuel =>
        have : ¬ (P.length + 2 * w < P.length + L.length) := by omega
        simp [sweepA, this]

theorem sizesA_spec (le : α → α → Bool) :
    ∀ (fuel : Nat) (arr : List α) (size : Nat), 0 < size → arr.length - size < fuel ∨ arr.length ≤ size →
      sizesA le arr.length fuel arr size = mergeLoop le arr.length size arr := by
  intro fuel
  induction fuel with
  | zero =>
    intro arr size hs hf
    have : ¬ (size < arr.length ∧ 0 < size) := by omega
    rw [mergeLoop_eq]; simp [sizesA, this]
  | succ fuel ih =>
    intro arr size hs hf
    rw [mergeLoop_eq]
    by_cases hc : size < arr.length
    · have hsw : sweepA le size arr.length arr.length arr 0 = mergePass le size arr := by
        have := sweepA_spec le size hs arr.length [] arr (Nat.le_refl _)
        simpa using this
      simp only [sizesA, hc, hs, and_self, if_true, hsw]
      have hlen : (mergePass le size arr).length = arr.length := mergePass_length le size arr
      have := ih (mergePass le size arr) (size * 2) (by omega) (by rw [hlen]; omega)
      rw [hlen] at this
      rw [this, Nat.mul_comm]
    · have : ¬ (size < arr.length ∧ 0 < size) := fun h => hc h.1
      simp [sizesA, hc, this]

/-- **`sort_by` on the array, with the source's index arithmetic, is the list-level `sortBy`.** -/
theorem sortByA_eq (le : α → α → Bool) (arr : List α) : sortByA le arr = sortBy le arr := by
  unfold sortByA sortBy
  have hruns : runsA le 32 arr.length arr.length arr 0 = runs le 32 arr := by
    have := runsA_spec le 32 (by decide) arr.length [] arr (Nat.le_refl _)
    simpa using this
  simp only [hruns]
  have hlen : (runs le 32 arr).length = arr.length := (runs_perm le 32 arr).length_eq
  have := sizesA_spec le arr.length (runs le 32 arr) 32 (by decide) (by rw [hlen]; omega)
  rw [hlen] at this
  exact this

end Abra.Lib
