import AbraProofs.Lemmas.SchedStatus
/-! Channel contents versus the trace of executed instructions (for C09). -/
namespace Abra.Sched
variable {T V E : Type}

theorem getQ_setQ (chans : List (List V)) (c c' : Nat) (q : List V) :
    getQ (setQ chans c q) c' = if c' = c then q else getQ chans c' := by
  unfold getQ setQ
  by_cases hc : c < chans.length
  · simp only [hc, if_true]
    by_cases he : c' = c
    · subst he; simp [hc]
    · simp only [he, if_false]
      rw [List.getD_eq_getElem?_getD, List.getD_eq_getElem?_getD, List.getElem?_set_ne (Ne.symm he)]
  · simp only [hc, if_false]
    have hge : chans.length ≤ c := Nat.le_of_not_lt hc
    by_cases he : c' = c
    · subst he
      simp only [if_true]
      rw [List.getD_eq_getElem?_getD]
      have hlen : (chans ++ List.replicate (c' - chans.length) ([] : List V)).length = c' := by
        simp; omega
      have : (chans ++ List.replicate (c' - chans.length) [] ++ [q])[c']? = some q := by
        rw [List.getElem?_append_right (by omega), hlen]
        simp
      rw [this]; rfl
    · simp only [he, if_false]
      rw [List.getD_eq_getElem?_getD, List.getD_eq_getElem?_getD]
      by_cases h1 : c' < chans.length
      · rw [List.append_assoc, List.getElem?_append_left h1]
      · have h1' : chans.length ≤ c' := Nat.le_of_not_lt h1
        rw [List.getElem?_eq_none h1']
        rw [List.append_assoc, List.getElem?_append_right h1', List.getElem?_append]
        simp only [List.length_replicate]
        split
        · rename_i h3; simp [List.getElem?_replicate, h3]
        · rename_i h3
          cases hk : c' - chans.length - (c - chans.length) with
          | zero => omega
          | succ k => simp

theorem getQ_append_nil (chans : List (List V)) (c : Nat) : getQ (chans ++ [[]]) c = getQ chans c := by
  unfold getQ
  rw [List.getD_eq_getElem?_getD, List.getD_eq_getElem?_getD]
  by_cases h : c < chans.length
  · rw [List.getElem?_append_left h]
  · have h' : chans.length ≤ c := Nat.le_of_not_lt h
    rw [List.getElem?_eq_none h']
    by_cases h2 : c = chans.length
    · subst h2; simp
    · rw [List.getElem?_eq_none (by simp; omega)]

/-- values written to queue `c`, in the order of the `ChannelWrite`s -/
def writesOf (c : Nat) (tr : List (Event V E)) : List V :=
  tr.filterMap fun e => match e.kind with
    | .write c' v => if c' = c then some v else none
    | _ => none

/-- values popped from queue `c`, in the order of the successful `ChannelRead`s -/
def readsOf (c : Nat) (tr : List (Event V E)) : List V :=
  tr.filterMap fun e => match e.kind with
    | .readOk c' v => if c' = c then some v else none
    | _ => none

/-- queue refinement: what was written = what was read, followed by what is still queued -/
def ChanInv (r : Runtime T V E) : Prop :=
  ∀ c, writesOf c r.trace = readsOf c r.trace ++ getQ r.chans c

@[simp] theorem ftt_chans (r : Runtime T V E) (th : Thread T E) : (finishThreadTurn r th).1.chans = r.chans := by
  unfold finishThreadTurn; split
  · rfl
  · split <;> rfl

theorem drainAux_chans (ts : List (Thread T E)) (r : Runtime T V E) : (drainAux r ts).1.chans = r.chans := by
  induction ts generalizing r with
  | nil => rfl
  | cons t rest ih =>
    simp only [drainAux]
    split
    · simp
    · rw [ih]; simp

@[simp] theorem drain_chans (r : Runtime T V E) : (drainNewThreads r).1.chans = r.chans := drainAux_chans _ _

theorem skipPhase_chans (f k : Nat) (r : Runtime T V E) : (skipPhase f k r).rt.chans = r.chans := by
  induction f generalizing k r with
  | zero => simp [skipPhase, SkipRes.rt]
  | succ f ih =>
    rw [skipPhase]
    split
    · rfl
    · split
      · rfl
      · simp only
        split
        · rfl
        · split
          · simp [SkipRes.rt]
          · split
            · simp [SkipRes.rt]
            · rw [ih]; simp

/-- any property of (channel contents, trace) kept by single instructions is kept by `loop` -/
theorem loop_ct_inv (step : T → Action T V E) (P : List (List V) → List (Event V E) → Prop)
    (hexec : ∀ (r : Runtime T V E) th, P r.chans r.trace → P (exec step r th).1.chans (exec step r th).1.trace)
    (rem s : Nat) (r : Runtime T V E) (h : P r.chans r.trace) :
    P (loop step rem s r).1.chans (loop step rem s r).1.trace := by
  induction rem generalizing s r with
  | zero => simpa [loop] using h
  | succ rem ih =>
    rw [loop]
    have h1 := skipPhase_chans (r.runQueue.length + r.newThreads.length + 1) 0 r
    have h2 := skipPhase_trace (r.runQueue.length + r.newThreads.length + 1) 0 r
    split
    · rename_i hs; rw [hs] at h1 h2; simp only [SkipRes.rt] at h1 h2; simpa [h1, h2] using h
    · rename_i hs; rw [hs] at h1 h2; simp only [SkipRes.rt] at h1 h2; simpa [h1, h2] using h
    · rename_i th r0 hs
      rw [hs] at h1 h2
      simp only [SkipRes.rt] at h1 h2
      have he := hexec r0 th (by rw [h1, h2]; exact h)
      simp only
      split
      · simpa using he
      · split
        · simpa using he
        · exact ih (s + 1) _ (by simpa using he)

theorem runN_ct_inv (step : T → Action T V E) (P : List (List V) → List (Event V E) → Prop)
    (hexec : ∀ (r : Runtime T V E) th, P r.chans r.trace → P (exec step r th).1.chans (exec step r th).1.trace)
    (b : Nat) (r : Runtime T V E) (h : P r.chans r.trace) :
    P (runN step b r).rt.chans (runN step b r).rt.trace := by
  have hl := loop_ct_inv step P hexec b 0 (drainNewThreads r).1 (by simpa using h)
  unfold runN roundRobin
  simp only
  by_cases hd : (drainNewThreads r).2 = true
  · simp only [hd, if_true]; simpa using h
  · have hd' : (drainNewThreads r).2 = false := by simpa using hd
    simp only [hd', Bool.false_eq_true, if_false]
    split <;> exact hl

theorem serviceAll_ct {H : Type} (host : H → Nat → T → H × T) (h : H) (r : Runtime T V E) :
    (serviceAll host h r).2.chans = r.chans ∧ (serviceAll host h r).2.trace = r.trace := ⟨rfl, rfl⟩

theorem drive_ct_inv {H : Type} (step : T → Action T V E) (host : H → Nat → T → H × T)
    (P : List (List V) → List (Event V E) → Prop)
    (hexec : ∀ (r : Runtime T V E) th, P r.chans r.trace → P (exec step r th).1.chans (exec step r th).1.trace)
    (s : List (Nat × Bool)) (h : H) (r : Runtime T V E) (n : Nat) (hp : P r.chans r.trace) :
    P (drive step host s h r n).2.1.chans (drive step host s h r n).2.1.trace := by
  induction s generalizing h r n with
  | nil => exact hp
  | cons c rest ih =>
    obtain ⟨b, sv⟩ := c
    have hx := runN_ct_inv step P hexec b r hp
    unfold drive
    simp only
    split
    · exact hx
    · exact hx
    · split
      · cases sv <;> exact hx
      · cases sv
        · simp only [Bool.false_eq_true, if_false]; exact ih _ _ _ hx
        · simp only [if_true]; exact ih _ _ _ hx

/-- one instruction keeps the queue refinement -/
theorem exec_chanInv (step : T → Action T V E) (r : Runtime T V E) (th : Thread T E)
    (h : ∀ c, writesOf c r.trace = readsOf c r.trace ++ getQ r.chans c) :
    ∀ c, writesOf c (exec step r th).1.trace = readsOf c (exec step r th).1.trace ++ getQ (exec step r th).1.chans c := by
  intro c
  have hc := h c
  unfold exec
  cases hs : step th.st with
  | cont t => simpa [writesOf, readsOf] using hc
  | newChan k =>
    simp only [writesOf, readsOf, List.filterMap_append] at hc ⊢
    simp [getQ_append_nil, hc]
  | read c' k =>
    simp only
    cases hq : getQ r.chans c' with
    | nil => simpa [writesOf, readsOf] using hc
    | cons v q =>
      simp only [writesOf, readsOf, List.filterMap_append] at hc ⊢
      simp only [getQ_setQ]
      by_cases he : c = c'
      · subst he
        simp [hc, hq]
      · have he' : ¬ c' = c := fun h => he h.symm
        simp [hc, he, he']
  | write c' v t' =>
    simp only [writesOf, readsOf, List.filterMap_append] at hc ⊢
    simp only [getQ_setQ]
    by_cases he : c = c'
    · subst he
      simp [hc]
    · have he' : ¬ c' = c := fun h => he h.symm
      simp [hc, he, he']
  | spawn child t' => simpa [writesOf, readsOf] using hc
  | host n t' => simpa [writesOf, readsOf] using hc
  | stop t' => simpa [writesOf, readsOf] using hc
  | error e t' => simpa [writesOf, readsOf] using hc

end Abra.Sched
