import AbraModel.Opt
/-!
Helper lemmas for C05: the `Res` monad, stack addressing under push, and a simp set that executes
instruction sequences symbolically.
-/
namespace Abra.Asm

variable {H : Type}

@[simp] theorem Res.bind_ok {α β : Type} (a : α) (f : α → Res β) : (Res.ok a).bind f = f a := rfl
@[simp] theorem Res.bind_err {α β : Type} (k : ErrKind) (f : α → Res β) : (Res.err k : Res α).bind f = .err k := rfl
@[simp] theorem Res.bind_fault {α β : Type} (f : α → Res β) : (Res.fault : Res α).bind f = .fault := rfl

theorem Res.bind_assoc {α β γ : Type} (x : Res α) (f : α → Res β) (g : β → Res γ) :
    (x.bind f).bind g = x.bind fun a => (f a).bind g := by
  cases x <;> rfl

@[simp] theorem run_nil (P : Prims H) (s : St H) : run P [] s = .ok (s, .next) := rfl

theorem run_cons (P : Prims H) (i : Instr) (rest : List Instr) (s : St H) :
    run P (i :: rest) s = (exec P i s).bind fun (s', c) =>
      match c with
      | .next => run P rest s'
      | .jump l => .ok (s', .jump l) := rfl

/-- running a single instruction is executing it -/
theorem run_single (P : Prims H) (i : Instr) (s : St H) : run P [i] s = exec P i s := by
  rw [run_cons]
  cases h : exec P i s with
  | ok a =>
    obtain ⟨s', c⟩ := a
    cases c <;> simp
  | err k => simp
  | fault => simp

theorem run_two (P : Prims H) (i j : Instr) (s : St H) :
    run P [i, j] s = (exec P i s).bind fun (s', c) =>
      match c with
      | .next => exec P j s'
      | .jump l => .ok (s', .jump l) := by
  rw [run_cons]
  congr 1
  funext x
  obtain ⟨s', c⟩ := x
  cases c <;> simp [run_single]

theorem run_three (P : Prims H) (i j k : Instr) (s : St H) :
    run P [i, j, k] s = (exec P i s).bind fun (s', c) =>
      match c with
      | .next => (exec P j s').bind fun (s'', c') =>
        match c' with
        | .next => exec P k s''
        | .jump l => .ok (s'', .jump l)
      | .jump l => .ok (s', .jump l) := by
  rw [run_cons]
  congr 1
  funext x
  obtain ⟨s', c⟩ := x
  cases c <;> simp [run_two]

/-- an offset that does not address the slot just above the current top of stack reads the same value
    before and after a push -/
theorem getAbs_push (st : List Val) (v : Val) (i : Nat) (h : i ≠ st.length) :
    getAbs (v :: st) i = getAbs st i := by
  unfold getAbs
  by_cases h1 : i < st.length
  · have h2 : i < (v :: st).length := by simp; omega
    simp only [h1, h2, if_true]
    have e : (v :: st).length - 1 - i = (st.length - 1 - i) + 1 := by simp; omega
    rw [e]; simp
  · have h2 : ¬ i < (v :: st).length := by simp; omega
    simp only [h1, h2, if_false]

/-- the offset does not name the slot that a push is about to create -/
def NotTopSlot (s : St H) (off : Int) : Prop := absIdx s.base off ≠ some s.stack.length

theorem loadOff_push (s : St H) (v : Val) (off : Int) (h : NotTopSlot s off) :
    loadOff { s with stack := v :: s.stack } off = loadOff s off := by
  unfold loadOff
  cases hi : absIdx s.base off with
  | none => simp
  | some i =>
    have : i ≠ s.stack.length := by
      intro e; apply h; rw [hi, e]
    simp [getAbs_push _ _ _ this]

/-- sequencing: run the first part; continue with the second only if control falls through -/
theorem run_append (P : Prims H) (xs ys : List Instr) (s : St H) :
    run P (xs ++ ys) s = (run P xs s).bind fun (s', c) =>
      match c with
      | .next => run P ys s'
      | .jump l => .ok (s', .jump l) := by
  induction xs generalizing s with
  | nil => simp
  | cons i xs ih =>
    simp only [List.cons_append, run_cons, Res.bind_assoc]
    congr 1
    funext x
    obtain ⟨s', c⟩ := x
    cases c with
    | next => simp [ih]
    | jump l => simp

theorem loadOff_cases (s : St H) (off : Int) : (∃ v, loadOff s off = .ok v) ∨ loadOff s off = .fault := by
  unfold loadOff
  cases h1 : absIdx s.base off with
  | none => right; rfl
  | some i =>
    cases h2 : getAbs s.stack i with
    | none => right; simp [h2]
    | some v => left; exact ⟨v, by simp [h2]⟩

@[simp] theorem asInt_bind_fault {β : Type} (w : Val) : (asInt w).bind (fun _ => (Res.fault : Res β)) = .fault := by
  cases w <;> rfl
@[simp] theorem asFloat_bind_fault {β : Type} (w : Val) : (asFloat w).bind (fun _ => (Res.fault : Res β)) = .fault := by
  cases w <;> rfl
@[simp] theorem asBool_bind_fault {β : Type} (w : Val) : (asBool w).bind (fun _ => (Res.fault : Res β)) = .fault := by
  cases w <;> rfl

end Abra.Asm
