import AbraProofs.Lemmas.IdSet
/-!
Per-operation lemmas for C37: under the world invariant every operation of `Abra.IdSet` keeps the
invariant, never answers `ub`, and acts on the abstraction (`absW`: handle ↦ list of distinct values
in insertion order) as the corresponding list operation.
-/
namespace Abra.IdSet

variable {α : Type}

theorem abs_of_getSet {w : World α} {h : Nat} {s : SetS} (hs : w.getSet h = some s) :
    (absW w)[h]? = some (some (w.contents s)) := by
  obtain ⟨h1, h2⟩ := getSet_some hs
  rw [absW_get, h1]; simp [h2]

theorem getSet_of_abs {w : World α} {h : Nat} {l : List α} (ha : (absW w)[h]? = some (some l)) :
    ∃ s, w.getSet h = some s ∧ w.contents s = l := by
  rw [absW_get] at ha
  cases hs : w.sets[h]? with
  | none => rw [hs] at ha; cases ha
  | some s =>
    rw [hs] at ha
    simp only [Option.map_some, Option.some.injEq] at ha
    cases hl : s.live with
    | false => simp [hl] at ha
    | true =>
      simp only [hl, if_true, Option.some.injEq] at ha
      exact ⟨s, by simp [World.getSet, hs, hl], ha⟩

theorem abs_of_getSet_none {w : World α} {h : Nat} (hs : w.getSet h = none) :
    ∀ l, (absW w)[h]? ≠ some (some l) := by
  intro l ha
  obtain ⟨s, h1, _⟩ := getSet_of_abs ha
  rw [hs] at h1; cases h1

theorem absW_length (w : World α) : (absW w).length = w.sets.length := by simp [absW]

/-- `insert`: invariant kept; the contents grow by the value iff it is new; the id is the index of
    the first insertion -/
theorem insert_spec [DecidableEq α] {w : World α} {h : Nat} {s : SetS} (hw : WInv w)
    (hs : w.getSet h = some s) (v : α) :
    WInv (w.insert h v).1 ∧
    absW (w.insert h v).1 =
      (absW w).set h (some (if v ∈ w.contents s then w.contents s else w.contents s ++ [v])) ∧
    (w.insert h v).2 =
      .id (if v ∈ w.contents s then (w.contents s).idxOf v else (w.contents s).length) := by
  obtain ⟨hsets, hlive⟩ := getSet_some hs
  have i := hw h s hsets hlive
  obtain ⟨B0, hB0, hB0live, _, _⟩ := i.owned s.cur (SetInv.cur_mem s)
  unfold World.insert
  simp only [hs, hB0, hB0live]
  rcases hr : w.ensureRoom h s B0 with ⟨w1, s1, B1⟩
  obtain ⟨e_sets, e_ext, i1, e_cont, hB1, room, _, _, e_live⟩ := ensureRoom_spec i hB0 w1 s1 B1 hr
  have hnr : ¬ (B1.elems.length + 1 > B1.cap) := by omega
  simp only [hnr, if_false, Bool.not_true, Bool.false_eq_true]
  obtain ⟨s', hsets', hlive', hne, inv', cont', out'⟩ := pushAndIntern_spec i1 hB1 room v
  rw [e_cont] at cont' out'
  have hs'live : s'.live = true := by rw [hlive', e_live, hlive]
  obtain ⟨B1', hB1', _, hown1, _⟩ := i1.owned s1.cur (SetInv.cur_mem s1)
  rw [hB1] at hB1'; cases hB1'
  have hframe : ∀ (b : Nat) (B : Buffer α), w.bufs[b]? = some B → B.owner ≠ h →
      (w1.pushAndIntern h s1 B1 v).1.bufs[b]? = some B := by
    intro b B hB ho
    have h1 := e_ext b B hB
    have hb : b ≠ s1.cur := by
      intro e; subst e
      rw [hB1] at h1; cases h1
      exact ho hown1
    rw [hne b hb]; exact h1
  obtain ⟨hw', habs⟩ := winv_update (w' := (w1.pushAndIntern h s1 B1 v).1) hw hsets
    (s' := s') (by rw [hsets', e_sets]) hframe (fun _ => inv')
  refine ⟨hw', ?_, out'⟩
  rw [habs, hs'live, cont']; rfl

theorem tryGetId_spec [DecidableEq α] {w : World α} {h : Nat} {s : SetS} (hw : WInv w)
    (hs : w.getSet h = some s) (v : α) :
    w.tryGetId h v =
      (w, .optId (if v ∈ w.contents s then some ((w.contents s).idxOf v) else none)) := by
  obtain ⟨hsets, hlive⟩ := getSet_some hs
  have i := hw h s hsets hlive
  have hl := lookup_zipIdx w v s.idToPtr (w.contents s) 0 i.ptrs
  rw [← i.mapEq] at hl
  unfold World.tryGetId
  simp only [hs, hl]
  by_cases hv : v ∈ w.contents s <;> simp [hv]

theorem contains_spec [DecidableEq α] {w : World α} {h : Nat} {s : SetS} (hw : WInv w)
    (hs : w.getSet h = some s) (v : α) :
    w.contains h v = (w, .bool (decide (v ∈ w.contents s))) := by
  unfold World.contains
  rw [tryGetId_spec hw hs v]
  by_cases hv : v ∈ w.contents s <;> simp [hv]

theorem index_spec {w : World α} {h : Nat} {s : SetS} (hw : WInv w)
    (hs : w.getSet h = some s) (id : Nat) :
    w.index h id = (w, match (w.contents s)[id]? with | some x => .val x | none => .panic) := by
  obtain ⟨hsets, hlive⟩ := getSet_some hs
  have i := hw h s hsets hlive
  have hd := i.deref_get id
  unfold World.index
  simp only [hs]
  cases hp : s.idToPtr[id]? with
  | none =>
    rw [hp] at hd
    cases hc : (w.contents s)[id]? with
    | none => rfl
    | some x => rw [hc] at hd; simp at hd
  | some p =>
    rw [hp] at hd
    cases hc : (w.contents s)[id]? with
    | none => rw [hc] at hd; simp at hd
    | some x =>
      rw [hc] at hd
      simp only [Option.map_some, Option.some.injEq] at hd
      simp [hd]

theorem len_spec {w : World α} {h : Nat} {s : SetS} (hw : WInv w) (hs : w.getSet h = some s) :
    w.len h = (w, .num (w.contents s).length) := by
  obtain ⟨hsets, hlive⟩ := getSet_some hs
  have i := hw h s hsets hlive
  unfold World.len
  simp only [hs]
  rw [i.mapEq, List.length_zipIdx, i.len_eq]

theorem iter_spec {w : World α} {h : Nat} {s : SetS} (hw : WInv w) (hs : w.getSet h = some s) :
    w.iter h = (w, .list (w.contents s)) := by
  obtain ⟨hsets, hlive⟩ := getSet_some hs
  have i := hw h s hsets hlive
  unfold World.iter
  simp only [hs, i.readAll]

/-- freeing distinct live buffers succeeds and touches nothing else -/
theorem free_spec : ∀ (bs : List Nat) (w : World α), bs.Nodup →
    (∀ b ∈ bs, ∃ B, w.bufs[b]? = some B ∧ B.live = true) →
    ∃ w', w.free bs = some w' ∧ w'.sets = w.sets ∧ (∀ b, b ∉ bs → w'.bufs[b]? = w.bufs[b]?) := by
  intro bs
  induction bs with
  | nil => intro w _ _; exact ⟨w, rfl, rfl, fun _ _ => rfl⟩
  | cons b bs ih =>
    intro w hnd hall
    obtain ⟨B, hB, hl⟩ := hall b (by simp)
    rw [List.nodup_cons] at hnd
    have hne : ∀ b' ∈ bs, b' ≠ b := fun b' hb' e => hnd.1 (e ▸ hb')
    have hall' : ∀ b' ∈ bs, ∃ B', (w.setBuf b { B with live := false, elems := [] }).bufs[b']? = some B' ∧ B'.live = true := by
      intro b' hb'
      obtain ⟨B', hB', hl'⟩ := hall b' (by simp [hb'])
      refine ⟨B', ?_, hl'⟩
      simp only [World.setBuf]
      rw [List.getElem?_set_ne (Ne.symm (hne b' hb'))]; exact hB'
    obtain ⟨w', hf, hsets, hother⟩ := ih (w.setBuf b { B with live := false, elems := [] }) hnd.2 hall'
    refine ⟨w', ?_, hsets, ?_⟩
    · simp only [World.free, hB, hl, if_true]; exact hf
    · intro b' hb'
      simp only [List.mem_cons, not_or] at hb'
      rw [hother b' hb'.2]
      simp only [World.setBuf]
      exact List.getElem?_set_ne (Ne.symm hb'.1)

theorem clear_spec {w : World α} {h : Nat} {s : SetS} (hw : WInv w) (hs : w.getSet h = some s) :
    WInv (w.clear h).1 ∧ absW (w.clear h).1 = (absW w).set h (some []) ∧ (w.clear h).2 = .unit := by
  obtain ⟨hsets, hlive⟩ := getSet_some hs
  have i := hw h s hsets hlive
  obtain ⟨B, hB, hBlive, hBown, _⟩ := i.owned s.cur (SetInv.cur_mem s)
  have hnd := i.nodupBufs
  unfold SetS.bufIds at hnd
  rw [List.nodup_append] at hnd
  have hnotold : s.cur ∉ s.old := fun hm => hnd.2.2 _ hm _ (by simp) rfl
  have hcur_lt : s.cur < w.bufs.length := getElem?_some_lt hB
  have hall : ∀ b ∈ s.old, ∃ B', (w.setBuf s.cur { B with elems := [] }).bufs[b]? = some B' ∧ B'.live = true := by
    intro b hb
    obtain ⟨B', hB', hl', _⟩ := i.owned b (by simp [SetS.bufIds, hb])
    refine ⟨B', ?_, hl'⟩
    simp only [World.setBuf]
    rw [List.getElem?_set_ne (fun e => hnotold (by rw [e]; exact hb))]; exact hB'
  obtain ⟨w', hf, hsets', hother⟩ := free_spec s.old (w.setBuf s.cur { B with elems := [] }) hnd.1 hall
  have hBl : (!B.live) = false := by simp [hBlive]
  unfold World.clear
  simp only [hs, hB, hBl, hf, Bool.false_eq_true, if_false]
  have hcur' : w'.bufs[s.cur]? = some { B with elems := [] } := by
    rw [hother s.cur hnotold]
    simp only [World.setBuf]; exact List.getElem?_set_self hcur_lt
  have hframe : ∀ (b : Nat) (B' : Buffer α), w.bufs[b]? = some B' → B'.owner ≠ h →
      (w'.setSet h { s with map := [], old := [], idToPtr := [] }).bufs[b]? = some B' := by
    intro b B' hB' ho
    have hbc : b ≠ s.cur := by
      intro e; subst e; rw [hB] at hB'; cases hB'; exact ho hBown
    have hbo : b ∉ s.old := by
      intro hm
      obtain ⟨B'', hB'', _, ho'', _⟩ := i.owned b (by simp [SetS.bufIds, hm])
      rw [hB'] at hB''; cases hB''; exact ho ho''
    show w'.bufs[b]? = some B'
    rw [hother b hbo]
    simp only [World.setBuf]
    rw [List.getElem?_set_ne (Ne.symm hbc)]; exact hB'
  have hinv : SetInv (w'.setSet h { s with map := [], old := [], idToPtr := [] }) h
      { s with map := [], old := [], idToPtr := [] } := by
    refine SetInv.of_bufs_eq (w := w') rfl ⟨by simp [SetS.bufIds], ?_, ?_, by simp, rfl, ?_⟩
    · intro b hb
      have : b = s.cur := by simpa [SetS.bufIds] using hb
      subst this
      exact ⟨_, hcur', hBlive, hBown, by simp⟩
    · simp [World.contents, SetS.bufIds, World.elemsOf, hcur']
    · simp [World.contents, SetS.bufIds, World.elemsOf, hcur']
  obtain ⟨hw', habs⟩ := winv_update (w' := (w'.setSet h { s with map := [], old := [], idToPtr := [] }))
    hw hsets (s' := { s with map := [], old := [], idToPtr := [] })
    (by simp only [World.setSet, hsets']; rfl) hframe (fun _ => hinv)
  refine ⟨hw', ?_, by first | rfl | trivial⟩
  rw [habs]
  simp [hlive, World.contents, SetS.bufIds, World.elemsOf, World.setSet, hcur']

theorem drop_spec {w : World α} {h : Nat} {s : SetS} (hw : WInv w) (hs : w.getSet h = some s) :
    WInv (w.drop h).1 ∧ absW (w.drop h).1 = (absW w).set h none ∧ (w.drop h).2 = .unit := by
  obtain ⟨hsets, hlive⟩ := getSet_some hs
  have i := hw h s hsets hlive
  have hall : ∀ b ∈ s.bufIds, ∃ B, w.bufs[b]? = some B ∧ B.live = true := by
    intro b hb
    obtain ⟨B, hB, hl, _⟩ := i.owned b hb
    exact ⟨B, hB, hl⟩
  obtain ⟨w', hf, hsets', hother⟩ := free_spec s.bufIds w i.nodupBufs hall
  unfold World.drop
  simp only [hs, hf]
  have hframe : ∀ (b : Nat) (B' : Buffer α), w.bufs[b]? = some B' → B'.owner ≠ h →
      (w'.setSet h { s with live := false, map := [], idToPtr := [] }).bufs[b]? = some B' := by
    intro b B' hB' ho
    have hbo : b ∉ s.bufIds := by
      intro hm
      obtain ⟨B'', hB'', _, ho'', _⟩ := i.owned b hm
      rw [hB'] at hB''; cases hB''; exact ho ho''
    show w'.bufs[b]? = some B'
    rw [hother b hbo]; exact hB'
  obtain ⟨hw', habs⟩ := winv_update (w' := (w'.setSet h { s with live := false, map := [], idToPtr := [] }))
    hw hsets (s' := { s with live := false, map := [], idToPtr := [] })
    (by simp only [World.setSet, hsets']) hframe (fun hl => by cases hl)
  refine ⟨hw', ?_, by first | rfl | trivial⟩
  rw [habs]; rfl

theorem intoIter_spec {w : World α} {h : Nat} {s : SetS} (hw : WInv w) (hs : w.getSet h = some s) :
    WInv (w.intoIter h).1 ∧ absW (w.intoIter h).1 = (absW w).set h none ∧
      (w.intoIter h).2 = .list (w.contents s) := by
  obtain ⟨h1, h2, h3⟩ := drop_spec hw hs
  unfold World.intoIter
  rw [iter_spec hw hs]
  simp only
  rcases hd : w.drop h with ⟨w', o⟩
  rw [hd] at h1 h2 h3
  simp only at h3
  subst h3
  exact ⟨h1, h2, rfl⟩

/-- adding a set with fresh buffers -/
theorem winv_extend {w w' : World α} {s0 : SetS} {extra : List (Buffer α)}
    (hw : WInv w) (hbufs : w'.bufs = w.bufs ++ extra) (hsets : w'.sets = w.sets ++ [s0])
    (hinv : s0.live = true → SetInv w' w.sets.length s0) :
    WInv w' ∧ absW w' = absW w ++ [if s0.live then some (w'.contents s0) else none] := by
  have hold : ∀ (g : Nat) (sg : SetS), w.sets[g]? = some sg → sg.live = true →
      ∀ b ∈ sg.bufIds, w'.bufs[b]? = w.bufs[b]? := by
    intro g sg hsg hlg b hb
    rw [hbufs]
    exact List.getElem?_append_left ((hw g sg hsg hlg).cur_lt b hb)
  constructor
  · intro g sg hsg hlg
    rw [hsets] at hsg
    rcases Nat.lt_or_ge g w.sets.length with hg | hg
    · rw [List.getElem?_append_left hg] at hsg
      exact (hw g sg hsg hlg).congr (hold g sg hsg hlg)
    · rw [List.getElem?_append_right hg] at hsg
      have : g - w.sets.length = 0 := by
        rcases Nat.eq_zero_or_pos (g - w.sets.length) with h0 | h0
        · exact h0
        · rw [List.getElem?_eq_none (by simp only [List.length_singleton]; omega)] at hsg; cases hsg
      rw [this] at hsg
      simp only [List.getElem?_cons_zero, Option.some.injEq] at hsg
      subst hsg
      have hge : g = w.sets.length := by omega
      subst hge
      exact hinv hlg
  · apply List.ext_getElem?
    intro g
    rw [absW_get, hsets]
    rcases Nat.lt_or_ge g w.sets.length with hg | hg
    · rw [List.getElem?_append_left hg, List.getElem?_append_left (by rw [absW_length]; exact hg), absW_get]
      cases hsg : w.sets[g]? with
      | none => rfl
      | some sg =>
        simp only [Option.map_some]
        cases hlg : sg.live with
        | false => simp
        | true =>
          simp only [if_true]
          rw [contents_congr (hold g sg hsg hlg)]
    · rw [List.getElem?_append_right hg, List.getElem?_append_right (by rw [absW_length]; exact hg),
        absW_length]
      cases hk : g - w.sets.length with
      | zero => simp
      | succ k => simp

theorem new_spec (w : World α) (hw : WInv w) :
    WInv w.new.1 ∧ absW w.new.1 = absW w ++ [some []] ∧ w.new.2 = .handle (absW w).length := by
  have hnew : (w.bufs ++ [(⟨w.sets.length, true, 0, []⟩ : Buffer α)])[w.bufs.length]?
      = some ⟨w.sets.length, true, 0, []⟩ := by
    rw [List.getElem?_append_right (Nat.le_refl _)]; simp
  have hinv : SetInv w.new.1 w.sets.length ⟨true, [], w.bufs.length, [], []⟩ := by
    refine ⟨by simp [SetS.bufIds], ?_, ?_, by simp, rfl, ?_⟩
    · intro b hb
      have : b = w.bufs.length := by simpa [SetS.bufIds] using hb
      subst this
      exact ⟨_, hnew, rfl, rfl, by simp⟩
    · simp [World.contents, SetS.bufIds, World.elemsOf, World.new]
    · simp [World.contents, SetS.bufIds, World.elemsOf, World.new]
  obtain ⟨h1, h2⟩ := winv_extend (w' := w.new.1) (s0 := ⟨true, [], w.bufs.length, [], []⟩)
    (extra := [⟨w.sets.length, true, 0, []⟩]) hw rfl rfl (fun _ => hinv)
  refine ⟨h1, ?_, by simp [World.new, absW_length]⟩
  rw [h2]
  simp [World.contents, SetS.bufIds, World.elemsOf, World.new]

/-- the loop of the repaired `clone`: inserting values that are new and pairwise distinct appends them -/
theorem insertAll_spec [DecidableEq α] : ∀ (vs : List α) (w : World α) (h : Nat) (c : List α),
    WInv w → (absW w)[h]? = some (some c) → (c ++ vs).Nodup →
    WInv (w.insertAll h vs).1 ∧ absW (w.insertAll h vs).1 = (absW w).set h (some (c ++ vs)) ∧
      (w.insertAll h vs).2 = .unit := by
  intro vs
  induction vs with
  | nil =>
    intro w h c hw ha _
    refine ⟨hw, ?_, rfl⟩
    simp only [World.insertAll, List.append_nil]
    apply List.ext_getElem?
    intro g
    by_cases hg : h = g
    · subst hg
      rw [List.getElem?_set_self (getElem?_some_lt ha)]; exact ha
    · rw [List.getElem?_set_ne hg]
  | cons v vs ih =>
    intro w h c hw ha hnd
    obtain ⟨s, hs, hc⟩ := getSet_of_abs ha
    have hv : v ∉ c := by
      rw [List.nodup_append] at hnd
      intro hm; exact hnd.2.2 v hm v (by simp) rfl
    obtain ⟨h1, h2, h3⟩ := insert_spec hw hs v
    rw [hc] at h2 h3
    simp only [hv, if_false] at h2 h3
    have hlt : h < (absW w).length := getElem?_some_lt ha
    have ha' : (absW (w.insert h v).1)[h]? = some (some (c ++ [v])) := by
      rw [h2]; exact List.getElem?_set_self hlt
    have hnd' : ((c ++ [v]) ++ vs).Nodup := by simpa [List.append_assoc] using hnd
    obtain ⟨k1, k2, k3⟩ := ih (w.insert h v).1 h (c ++ [v]) h1 ha' hnd'
    unfold World.insertAll
    rcases hr : w.insert h v with ⟨w', o⟩
    rw [hr] at h3 k1 k2 k3 h2
    simp only at h3
    subst h3
    simp only
    refine ⟨k1, ?_, k3⟩
    rw [k2, h2, List.set_set]
    simp [List.append_assoc]

theorem clone_spec [DecidableEq α] {w : World α} {h : Nat} {s : SetS} (hw : WInv w)
    (hs : w.getSet h = some s) :
    WInv (w.clone h).1 ∧ absW (w.clone h).1 = absW w ++ [some (w.contents s)] ∧
      (w.clone h).2 = .handle (absW w).length := by
  obtain ⟨hsets, hlive⟩ := getSet_some hs
  have i := hw h s hsets hlive
  obtain ⟨n1, n2, _⟩ := new_spec w hw
  have ha : (absW w.new.1)[w.sets.length]? = some (some []) := by
    rw [n2, List.getElem?_append_right (by rw [absW_length]; exact Nat.le_refl _), absW_length]; simp
  obtain ⟨k1, k2, k3⟩ := insertAll_spec (w.contents s) w.new.1 w.sets.length [] n1 ha
    (by simpa using i.nodup)
  unfold World.clone
  rw [iter_spec hw hs]
  simp only
  rcases hr : w.new.1.insertAll w.sets.length (w.contents s) with ⟨w2, o⟩
  rw [hr] at k1 k2 k3
  simp only at k3
  subst k3
  refine ⟨k1, ?_, by simp [absW_length]⟩
  rw [k2, n2]
  simp only [List.nil_append]
  rw [List.set_append]
  simp [absW_length]

/-- an operation on a handle that is unknown or already consumed is rejected and changes nothing -/
theorem step_bad [DecidableEq α] {w : World α} (op : Op α) (h : Nat) (hs : w.getSet h = none) :
    (op = .insert h v ∨ op = .tryGetId h v ∨ op = .contains h v ∨ op = .index h n ∨ op = .len h ∨
      op = .iter h ∨ op = .intoIter h ∨ op = .clear h ∨ op = .clone h ∨ op = .drop h) →
    w.step op = (w, .bad) := by
  intro ho
  rcases ho with rfl | rfl | rfl | rfl | rfl | rfl | rfl | rfl | rfl | rfl <;>
    simp [World.step, World.insert, World.tryGetId, World.contains, World.index, World.len,
      World.iter, World.intoIter, World.clear, World.clone, World.drop, hs]

end Abra.IdSet
