import AbraModel.Heap
/-! Lemmas about the value/heap model `Abra.Heap` (C08, C09). -/
namespace Abra.Heap

/-- `H'` extends `H`: every object of `H` is still there, unchanged -/
def Ext (H H' : Heaps) : Prop := ∀ a o, lookup H a = some o → lookup H' a = some o

theorem Ext.refl (H : Heaps) : Ext H H := fun _ _ h => h
theorem Ext.trans {H1 H2 H3 : Heaps} (h12 : Ext H1 H2) (h23 : Ext H2 H3) : Ext H1 H3 :=
  fun a o h => h23 a o (h12 a o h)

theorem alloc_ext (H : Heaps) (t : Nat) (o : Obj) : Ext H (alloc H t o).2 := by
  intro a x h
  simp only [lookup, alloc] at h ⊢
  split
  · rename_i ht
    rw [ht] at h
    have hlt : a.idx < (H t).length := by
      rcases Nat.lt_or_ge a.idx (H t).length with h' | h'
      · exact h'
      · rw [List.getElem?_eq_none h'] at h; cases h
    rw [List.getElem?_append_left hlt]; exact h
  · exact h

theorem lookup_alloc_new (H : Heaps) (t : Nat) (o : Obj) : lookup (alloc H t o).2 (alloc H t o).1 = some o := by
  simp [lookup, alloc]

theorem alloc_tid (H : Heaps) (t : Nat) (o : Obj) : (alloc H t o).1.tid = t := rfl

/-! ### rendering is monotone in the heaps -/

theorem renderList_mono {rd rd' : Val → Option Tree} (h : ∀ v tr, rd v = some tr → rd' v = some tr) :
    ∀ vs ts, renderList rd vs = some ts → renderList rd' vs = some ts := by
  intro vs
  induction vs with
  | nil => intro ts h; exact h
  | cons v vs ih =>
    intro ts hts
    simp only [renderList] at hts ⊢
    cases hv : rd v with
    | none => simp [hv] at hts
    | some t =>
      simp only [hv] at hts
      cases hl : renderList rd vs with
      | none => simp [hl] at hts
      | some ts' =>
        simp only [hl] at hts
        simp [h v t hv, ih ts' hl, hts]

theorem render_mono {H H' : Heaps} (he : Ext H H') : ∀ f v tr, render f H v = some tr → render f H' v = some tr := by
  intro f
  induction f with
  | zero => intro v tr h; simp [render] at h
  | succ f ih =>
    intro v tr h
    cases v with
    | int n => simpa [render] using h
    | float b => simpa [render] using h
    | bool b => simpa [render] using h
    | addr p => simpa [render] using h
    | struct a =>
      simp only [render] at h ⊢
      cases hl : lookup H a with
      | none => simp [hl] at h
      | some o =>
        rw [he a o hl]
        cases o <;> simp only [hl] at h ⊢ <;> try (simp at h)
        rename_i fs
        cases hr : renderList (render f H) fs with
        | none => simp [hr] at h
        | some ts => simp [hr] at h; simp [renderList_mono ih fs ts hr, h]
    | array a =>
      simp only [render] at h ⊢
      cases hl : lookup H a with
      | none => simp [hl] at h
      | some o =>
        rw [he a o hl]
        cases o <;> simp only [hl] at h ⊢ <;> try (simp at h)
        rename_i es
        cases hr : renderList (render f H) es with
        | none => simp [hr] at h
        | some ts => simp [hr] at h; simp [renderList_mono ih es ts hr, h]
    | variant a =>
      simp only [render] at h ⊢
      cases hl : lookup H a with
      | none => simp [hl] at h
      | some o =>
        rw [he a o hl]
        cases o <;> simp only [hl] at h ⊢ <;> try (simp at h)
        rename_i tag x
        cases hr : render f H x with
        | none => simp [hr] at h
        | some t => simp [hr] at h; simp [ih x t hr, h]
    | str a =>
      simp only [render] at h ⊢
      cases hl : lookup H a with
      | none => simp [hl] at h
      | some o => rw [he a o hl]; simpa [hl] using h
    | chan a =>
      simp only [render] at h ⊢
      cases hl : lookup H a with
      | none => simp [hl] at h
      | some o => rw [he a o hl]; simpa [hl] using h

theorem addrsList_mono {ad ad' : Val → Option (List Addr)} (h : ∀ v xs, ad v = some xs → ad' v = some xs) :
    ∀ vs xs, addrsList ad vs = some xs → addrsList ad' vs = some xs := by
  intro vs
  induction vs with
  | nil => intro xs h; exact h
  | cons v vs ih =>
    intro xs hxs
    simp only [addrsList] at hxs ⊢
    cases hv : ad v with
    | none => simp [hv] at hxs
    | some t =>
      simp only [hv] at hxs
      cases hl : addrsList ad vs with
      | none => simp [hl] at hxs
      | some ts' =>
        simp only [hl] at hxs
        simp [h v t hv, ih ts' hl, hxs]

theorem addrs_mono {H H' : Heaps} (he : Ext H H') : ∀ f v xs, addrs f H v = some xs → addrs f H' v = some xs := by
  intro f
  induction f with
  | zero => intro v xs h; simp [addrs] at h
  | succ f ih =>
    intro v xs h
    cases v with
    | int n => simpa [addrs] using h
    | float b => simpa [addrs] using h
    | bool b => simpa [addrs] using h
    | addr p => simpa [addrs] using h
    | struct a =>
      simp only [addrs] at h ⊢
      cases hl : lookup H a with
      | none => simp [hl] at h
      | some o =>
        rw [he a o hl]
        cases o <;> simp only [hl] at h ⊢ <;> try (simp at h)
        rename_i fs
        cases hr : addrsList (addrs f H) fs with
        | none => simp [hr] at h
        | some ts => simp [hr] at h; simp [addrsList_mono ih fs ts hr, h]
    | array a =>
      simp only [addrs] at h ⊢
      cases hl : lookup H a with
      | none => simp [hl] at h
      | some o =>
        rw [he a o hl]
        cases o <;> simp only [hl] at h ⊢ <;> try (simp at h)
        rename_i es
        cases hr : addrsList (addrs f H) es with
        | none => simp [hr] at h
        | some ts => simp [hr] at h; simp [addrsList_mono ih es ts hr, h]
    | variant a =>
      simp only [addrs] at h ⊢
      cases hl : lookup H a with
      | none => simp [hl] at h
      | some o =>
        rw [he a o hl]
        cases o <;> simp only [hl] at h ⊢ <;> try (simp at h)
        rename_i tag x
        cases hr : addrs f H x with
        | none => simp [hr] at h
        | some t => simp [hr] at h; simp [ih x t hr, h]
    | str a =>
      simp only [addrs] at h ⊢
      cases hl : lookup H a with
      | none => simp [hl] at h
      | some o => rw [he a o hl]; simpa [hl] using h
    | chan a =>
      simp only [addrs] at h ⊢
      cases hl : lookup H a with
      | none => simp [hl] at h
      | some o => rw [he a o hl]; simpa [hl] using h

/-! ### what a successful deep copy guarantees -/

/-- the three facts carried through the recursion: the heaps only grow; in the final heaps original and
    copy render alike; everything reachable from the copy lives in thread `t` -/
structure CopyOk (f : Nat) (t : Nat) (H : Heaps) (v : Val) (v' : Val) (H' : Heaps) : Prop where
  ext : Ext H H'
  same : ∃ tr, render f H' v = some tr ∧ render f H' v' = some tr
  own : ∃ xs, addrs f H' v' = some xs ∧ ∀ a ∈ xs, a.tid = t

structure CopyListOk (f : Nat) (t : Nat) (H : Heaps) (vs : List Val) (vs' : List Val) (H' : Heaps) : Prop where
  ext : Ext H H'
  same : ∃ ts, renderList (render f H') vs = some ts ∧ renderList (render f H') vs' = some ts
  own : ∃ xs, addrsList (addrs f H') vs' = some xs ∧ ∀ a ∈ xs, a.tid = t

theorem copyList_ok (f t : Nat) (cp : Heaps → Val → Option (Val × Heaps))
    (hcp : ∀ H v v' H', cp H v = some (v', H') → CopyOk f t H v v' H') :
    ∀ vs H vs' H', copyListOld cp H vs = some (vs', H') → CopyListOk f t H vs vs' H' := by
  intro vs
  induction vs with
  | nil =>
    intro H vs' H' h
    simp only [copyListOld, Option.some.injEq, Prod.mk.injEq] at h
    obtain ⟨rfl, rfl⟩ := h
    exact ⟨Ext.refl _, ⟨[], rfl, rfl⟩, ⟨[], rfl, by simp⟩⟩
  | cons v vs ih =>
    intro H vs' H' h
    simp only [copyListOld] at h
    cases h1 : cp H v with
    | none => simp [h1] at h
    | some p1 =>
      obtain ⟨v1, H1⟩ := p1
      simp only [h1] at h
      cases h2 : copyListOld cp H1 vs with
      | none => simp [h2] at h
      | some p2 =>
        obtain ⟨vs2, H2⟩ := p2
        simp only [h2, Option.some.injEq, Prod.mk.injEq] at h
        obtain ⟨rfl, rfl⟩ := h
        have c1 := hcp H v v1 H1 h1
        have c2 := ih H1 vs2 H2 h2
        obtain ⟨tr, s1, s2⟩ := c1.same
        obtain ⟨ts, l1, l2⟩ := c2.same
        obtain ⟨xs, o1, o2⟩ := c1.own
        obtain ⟨ys, p1, p2⟩ := c2.own
        refine ⟨c1.ext.trans c2.ext, ⟨tr :: ts, ?_, ?_⟩, ⟨xs ++ ys, ?_, ?_⟩⟩
        · simp [renderList, render_mono c2.ext f v tr s1, l1]
        · simp [renderList, render_mono c2.ext f v1 tr s2, l2]
        · simp [addrsList, addrs_mono c2.ext f v1 xs o1, p1]
        · intro a ha
          simp only [List.mem_append] at ha
          rcases ha with ha | ha
          · exact o2 a ha
          · exact p2 a ha

/-- fuel can be raised by one in `render` / `addrs` (used to line the copy's fuel up with the caller's) -/
theorem deepCopyOld_ok (t : Nat) : ∀ f H v v' H', deepCopyOld f H t v = some (v', H') → CopyOk f t H v v' H' := by
  intro f
  induction f with
  | zero => intro H v v' H' h; simp [deepCopyOld] at h
  | succ f ih =>
    intro H v v' H' h
    cases v with
    | int n =>
      simp only [deepCopyOld, Option.some.injEq, Prod.mk.injEq] at h; obtain ⟨rfl, rfl⟩ := h
      exact ⟨Ext.refl _, ⟨_, rfl, rfl⟩, ⟨[], rfl, by simp⟩⟩
    | float b =>
      simp only [deepCopyOld, Option.some.injEq, Prod.mk.injEq] at h; obtain ⟨rfl, rfl⟩ := h
      exact ⟨Ext.refl _, ⟨_, rfl, rfl⟩, ⟨[], rfl, by simp⟩⟩
    | bool b =>
      simp only [deepCopyOld, Option.some.injEq, Prod.mk.injEq] at h; obtain ⟨rfl, rfl⟩ := h
      exact ⟨Ext.refl _, ⟨_, rfl, rfl⟩, ⟨[], rfl, by simp⟩⟩
    | addr p =>
      simp only [deepCopyOld, Option.some.injEq, Prod.mk.injEq] at h; obtain ⟨rfl, rfl⟩ := h
      exact ⟨Ext.refl _, ⟨_, rfl, rfl⟩, ⟨[], rfl, by simp⟩⟩
    | struct a =>
      simp only [deepCopyOld] at h
      cases hl : lookup H a with
      | none => simp [hl] at h
      | some o =>
        cases o <;> simp only [hl] at h <;> try (simp at h)
        rename_i fs
        cases hc : copyListOld (fun H v => deepCopyOld f H t v) H fs with
        | none => simp [hc] at h
        | some p =>
          obtain ⟨fs', H1⟩ := p
          simp only [hc, Option.some.injEq, Prod.mk.injEq] at h
          obtain ⟨rfl, rfl⟩ := h
          have c := copyList_ok f t _ (fun H v v' H' h => ih H v v' H' h) fs H fs' H1 hc
          have e2 := alloc_ext H1 t (.struct fs')
          obtain ⟨ts, l1, l2⟩ := c.same
          obtain ⟨xs, o1, o2⟩ := c.own
          refine ⟨c.ext.trans e2, ⟨.struct ts, ?_, ?_⟩, ⟨(alloc H1 t (.struct fs')).1 :: xs, ?_, ?_⟩⟩
          · simp only [render, (c.ext.trans e2) a _ hl]
            simp [renderList_mono (render_mono e2 f) fs ts l1]
          · simp only [render, lookup_alloc_new]
            simp [renderList_mono (render_mono e2 f) fs' ts l2]
          · simp only [addrs, lookup_alloc_new]
            simp [addrsList_mono (addrs_mono e2 f) fs' xs o1]
          · intro x hx
            simp only [List.mem_cons] at hx
            rcases hx with rfl | hx
            · rfl
            · exact o2 x hx
    | array a =>
      simp only [deepCopyOld] at h
      cases hl : lookup H a with
      | none => simp [hl] at h
      | some o =>
        cases o <;> simp only [hl] at h <;> try (simp at h)
        rename_i es
        cases hc : copyListOld (fun H v => deepCopyOld f H t v) H es with
        | none => simp [hc] at h
        | some p =>
          obtain ⟨es', H1⟩ := p
          simp only [hc, Option.some.injEq, Prod.mk.injEq] at h
          obtain ⟨rfl, rfl⟩ := h
          have c := copyList_ok f t _ (fun H v v' H' h => ih H v v' H' h) es H es' H1 hc
          have e2 := alloc_ext H1 t (.array es')
          obtain ⟨ts, l1, l2⟩ := c.same
          obtain ⟨xs, o1, o2⟩ := c.own
          refine ⟨c.ext.trans e2, ⟨.array ts, ?_, ?_⟩, ⟨(alloc H1 t (.array es')).1 :: xs, ?_, ?_⟩⟩
          · simp only [render, (c.ext.trans e2) a _ hl]
            simp [renderList_mono (render_mono e2 f) es ts l1]
          · simp only [render, lookup_alloc_new]
            simp [renderList_mono (render_mono e2 f) es' ts l2]
          · simp only [addrs, lookup_alloc_new]
            simp [addrsList_mono (addrs_mono e2 f) es' xs o1]
          · intro x hx
            simp only [List.mem_cons] at hx
            rcases hx with rfl | hx
            · rfl
            · exact o2 x hx
    | variant a =>
      simp only [deepCopyOld] at h
      cases hl : lookup H a with
      | none => simp [hl] at h
      | some o =>
        cases o <;> simp only [hl] at h <;> try (simp at h)
        rename_i tag x
        cases hc : deepCopyOld f H t x with
        | none => simp [hc] at h
        | some p =>
          obtain ⟨x', H1⟩ := p
          simp only [hc, Option.some.injEq, Prod.mk.injEq] at h
          obtain ⟨rfl, rfl⟩ := h
          have c := ih H x x' H1 hc
          have e2 := alloc_ext H1 t (.variant tag x')
          obtain ⟨tr, l1, l2⟩ := c.same
          obtain ⟨xs, o1, o2⟩ := c.own
          refine ⟨c.ext.trans e2, ⟨.variant tag tr, ?_, ?_⟩, ⟨(alloc H1 t (.variant tag x')).1 :: xs, ?_, ?_⟩⟩
          · simp only [render, (c.ext.trans e2) a _ hl]
            simp [render_mono e2 f x tr l1]
          · simp only [render, lookup_alloc_new]
            simp [render_mono e2 f x' tr l2]
          · simp only [addrs, lookup_alloc_new]
            simp [addrs_mono e2 f x' xs o1]
          · intro y hy
            simp only [List.mem_cons] at hy
            rcases hy with rfl | hy
            · rfl
            · exact o2 y hy
    | str a =>
      simp only [deepCopyOld] at h
      cases hl : lookup H a with
      | none => simp [hl] at h
      | some o =>
        cases o <;> simp only [hl] at h <;> try (simp at h)
        rename_i bs
        obtain ⟨rfl, rfl⟩ := h
        have e2 := alloc_ext H t (.str bs)
        refine ⟨e2, ⟨.str bs, ?_, ?_⟩, ⟨[(alloc H t (.str bs)).1], ?_, ?_⟩⟩
        · simp [render, e2 a _ hl]
        · simp [render, lookup_alloc_new]
        · simp [addrs, lookup_alloc_new]
        · intro y hy; simp at hy; subst hy; rfl
    | chan a =>
      simp only [deepCopyOld] at h
      cases hl : lookup H a with
      | none => simp [hl] at h
      | some o =>
        cases o <;> simp only [hl] at h <;> try (simp at h)
        rename_i q
        obtain ⟨rfl, rfl⟩ := h
        have e2 := alloc_ext H t (.chan q)
        refine ⟨e2, ⟨.chan q, ?_, ?_⟩, ⟨[(alloc H t (.chan q)).1], ?_, ?_⟩⟩
        · simp [render, e2 a _ hl]
        · simp [render, lookup_alloc_new]
        · simp [addrs, lookup_alloc_new]
        · intro y hy; simp at hy; subst hy; rfl

/-! ### rendering only looks at the reachable objects -/

theorem renderList_congr {rd rd' : Val → Option Tree} {ad : Val → Option (List Addr)} {P : Addr → Prop}
    (h : ∀ v xs, ad v = some xs → (∀ a ∈ xs, P a) → rd' v = rd v) :
    ∀ vs xs, addrsList ad vs = some xs → (∀ a ∈ xs, P a) → renderList rd' vs = renderList rd vs := by
  intro vs
  induction vs with
  | nil => intro xs _ _; rfl
  | cons v vs ih =>
    intro xs hxs hP
    simp only [addrsList] at hxs
    cases hv : ad v with
    | none => simp [hv] at hxs
    | some ys =>
      simp only [hv] at hxs
      cases hl : addrsList ad vs with
      | none => simp [hl] at hxs
      | some zs =>
        simp only [hl, Option.some.injEq] at hxs
        subst hxs
        simp only [renderList]
        rw [h v ys hv (fun a ha => hP a (by simp [ha])), ih zs hl (fun a ha => hP a (by simp [ha]))]

/-- if `H'` agrees with `H` on every address reachable from `v`, then `v` renders the same in both -/
theorem render_congr {H H' : Heaps} : ∀ f v xs, addrs f H v = some xs →
    (∀ a ∈ xs, lookup H' a = lookup H a) → render f H' v = render f H v := by
  intro f
  induction f with
  | zero => intro v xs h; simp [addrs] at h
  | succ f ih =>
    intro v xs h hag
    cases v with
    | int n => rfl
    | float b => rfl
    | bool b => rfl
    | addr p => rfl
    | struct a =>
      simp only [addrs] at h
      cases hl : lookup H a with
      | none => simp [hl] at h
      | some o =>
        cases o <;> simp only [hl] at h <;> try (simp at h)
        rename_i fs
        cases hr : addrsList (addrs f H) fs with
        | none => simp [hr] at h
        | some ys =>
          simp only [hr, Option.map_some, Option.some.injEq] at h
          first | subst h | (obtain ⟨_, rfl, rfl⟩ := h)
          have ha : lookup H' a = lookup H a := hag a (by simp)
          simp only [render, ha, hl]
          rw [renderList_congr (P := fun a => lookup H' a = lookup H a) (fun v xs hv hp => ih v xs hv hp) fs ys hr
            (fun x hx => hag x (by simp [hx]))]
    | array a =>
      simp only [addrs] at h
      cases hl : lookup H a with
      | none => simp [hl] at h
      | some o =>
        cases o <;> simp only [hl] at h <;> try (simp at h)
        rename_i es
        cases hr : addrsList (addrs f H) es with
        | none => simp [hr] at h
        | some ys =>
          simp only [hr, Option.map_some, Option.some.injEq] at h
          first | subst h | (obtain ⟨_, rfl, rfl⟩ := h)
          have ha : lookup H' a = lookup H a := hag a (by simp)
          simp only [render, ha, hl]
          rw [renderList_congr (P := fun a => lookup H' a = lookup H a) (fun v xs hv hp => ih v xs hv hp) es ys hr
            (fun x hx => hag x (by simp [hx]))]
    | variant a =>
      simp only [addrs] at h
      cases hl : lookup H a with
      | none => simp [hl] at h
      | some o =>
        cases o <;> simp only [hl] at h <;> try (simp at h)
        rename_i tag x
        cases hr : addrs f H x with
        | none => simp [hr] at h
        | some ys =>
          simp only [hr, Option.map_some, Option.some.injEq] at h
          first | subst h | (obtain ⟨_, rfl, rfl⟩ := h)
          have ha : lookup H' a = lookup H a := hag a (by simp)
          simp only [render, ha, hl]
          rw [ih x ys hr (fun y hy => hag y (by simp [hy]))]
    | str a =>
      simp only [addrs] at h
      cases hl : lookup H a with
      | none => simp [hl] at h
      | some o =>
        cases o <;> simp only [hl] at h <;> try (simp at h)
        subst h
        have ha : lookup H' a = lookup H a := hag a (by simp)
        simp only [render, ha, hl]
    | chan a =>
      simp only [addrs] at h
      cases hl : lookup H a with
      | none => simp [hl] at h
      | some o =>
        cases o <;> simp only [hl] at h <;> try (simp at h)
        subst h
        have ha : lookup H' a = lookup H a := hag a (by simp)
        simp only [render, ha, hl]

theorem lookup_setSlot_other (H : Heaps) (a : Addr) (i : Nat) (v : Val) (x : Addr) (h : x.tid ≠ a.tid) :
    lookup (setSlot H a i v) x = lookup H x := by
  simp [lookup, setSlot, h]

theorem lookup_dropThread_other (H : Heaps) (t : Nat) (x : Addr) (h : x.tid ≠ t) :
    lookup (dropThread H t) x = lookup H x := by
  simp [lookup, dropThread, h]

end Abra.Heap
