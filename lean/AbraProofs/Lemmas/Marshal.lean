import AbraModel.Marshal
/-!
Helper lemmas for C36: the encoding function `enc` (what one host value looks like as one VM value),
`toVm` pushes exactly `enc`, `fromVm` reads `enc` back.
-/
namespace Abra.Marshal

def mapOpt {β γ : Type} (g : β → Option γ) : List β → Option (List γ)
  | [] => some []
  | v :: vs =>
    match g v, mapOpt g vs with
    | some x, some xs => some (x :: xs)
    | _, _ => none

mutual
/-- the VM value a host value of a given type is marshalled to -/
def enc : Ty → HV → Option VV
  | .int, .int n => some (.int n)
  | .float, .float b => some (.float b)
  | .bool, .bool b => some (.bool b)
  | .str, .str x => some (.str x)
  | .unit, .unit => some (.int 0)
  | .opt t, .some v => (enc t v).map (VV.variant 0)
  | .opt _, .none => some (.variant 1 (.int 0))
  | .res t _, .ok v => (enc t v).map (VV.variant 0)
  | .res _ e, .err v => (enc e v).map (VV.variant 1)
  | .arr t, .arr vs => (mapOpt (enc t) vs).map VV.arr
  | .tup ts, .tup vs => (encElems ts vs).map VV.strct
  | .strct ts, .tup vs => (encFields ts vs).map VV.strct
  | .enm vars, .variant tag p => encVariant vars tag tag p
  | _, _ => none
def encElems : TyList → List HV → Option (List VV)
  | .nil, [] => some []
  | .cons t ts, v :: vs =>
    match enc t v, encElems ts vs with
    | some x, some xs => some (x :: xs)
    | _, _ => none
  | _, _ => none
def encFields : TyList → List HV → Option (List VV)
  | .nil, [] => some []
  | .cons .unit ts, .unit :: vs => encFields ts vs
  | .cons t ts, v :: vs =>
    match enc t v, encFields ts vs with
    | some x, some xs => some (x :: xs)
    | _, _ => none
  | _, _ => none
def encVariant : VarList → Nat → Nat → Option HV → Option VV
  | .bare _, 0, tag, .none => some (.variant tag (.int 0))
  | .payload t _, 0, tag, .some v => (enc t v).map (VV.variant tag)
  | .bare rest, k + 1, tag, p => encVariant rest k tag p
  | .payload _ rest, k + 1, tag, p => encVariant rest k tag p
  | _, _, _, _ => none
end

theorem popN_append (xs : List VV) (s : Stack) : popN xs.length (xs.reverse ++ s) = some (xs, s) := by
  unfold popN
  have h1 : xs.length ≤ (xs.reverse ++ s).length := by simp
  rw [if_pos h1]
  have h2 : (xs.reverse ++ s).take xs.length = xs.reverse := by
    rw [List.take_append_of_le_length (by simp)]
    rw [List.take_of_length_le (by simp)]
  have h3 : (xs.reverse ++ s).drop xs.length = s := by
    rw [List.drop_append_of_le_length (by simp)]
    rw [List.drop_of_length_le (by simp)]; simp
  rw [h2, h3, List.reverse_reverse]

theorem mapOpt_length {β γ : Type} (g : β → Option γ) : ∀ (vs : List β) (xs : List γ),
    mapOpt g vs = some xs → xs.length = vs.length := by
  intro vs
  induction vs with
  | nil => intro xs h; simp [mapOpt] at h; subst h; rfl
  | cons v vs ih =>
    intro xs h
    simp only [mapOpt] at h
    split at h
    · rename_i x xs' _ h2
      cases h
      simp [ih xs' h2]
    · cases h

/-- pushing a list of values leaves their encodings, last on top -/
theorem pushAll_enc (f : HV → Stack → Option Stack) (g : HV → Option VV)
    (hf : ∀ v s, f v s = (g v).map (· :: s)) :
    ∀ (vs : List HV) (s : Stack),
      pushAll f vs s = (mapOpt g vs).map (fun xs => xs.reverse ++ s) := by
  intro vs
  induction vs with
  | nil => intro s; simp [pushAll, mapOpt]
  | cons v vs ih =>
    intro s
    simp only [pushAll, mapOpt, hf]
    cases hg : g v with
    | none => simp
    | some x =>
      simp only [Option.map_some]
      rw [ih]
      cases mapOpt g vs with
      | none => simp
      | some xs => simp

/-- reading `n` values off a stack that starts with `n` encodings, first on top -/
theorem readN_enc (f : Stack → Option (HV × Stack)) (g : HV → Option VV)
    (hf : ∀ v x s, g v = some x → f (x :: s) = some (v, s)) :
    ∀ (vs : List HV) (xs : List VV) (s : Stack), mapOpt g vs = some xs →
      readN f vs.length (xs ++ s) = some (vs, s) := by
  intro vs
  induction vs with
  | nil => intro xs s h; simp [mapOpt] at h; subst h; simp [readN]
  | cons v vs ih =>
    intro xs s h
    simp only [mapOpt] at h
    split at h
    · rename_i x xs' h1 h2
      cases h
      simp only [List.length_cons, readN, List.cons_append, hf v x _ h1, ih xs' s h2]
    · cases h

mutual
/-- `to_vm` pushes exactly one value: the encoding -/
theorem toVm_enc : ∀ (t : Ty) (v : HV) (s : Stack), toVm t v s = (enc t v).map (· :: s)
  | .int, v, s => by cases v <;> simp [toVm, enc]
  | .float, v, s => by cases v <;> simp [toVm, enc]
  | .bool, v, s => by cases v <;> simp [toVm, enc]
  | .str, v, s => by cases v <;> simp [toVm, enc]
  | .unit, v, s => by cases v <;> simp [toVm, enc]
  | .opt t, v, s => by
    cases v <;> simp only [toVm, enc, Option.map_none, constructVariant, Option.map_some]
    rw [toVm_enc t]
    cases enc t _ <;> simp [constructVariant]
  | .res t e, v, s => by
    cases v <;> simp only [toVm, enc, Option.map_none]
    · rw [toVm_enc t]; cases enc t _ <;> simp [constructVariant]
    · rw [toVm_enc e]; cases enc e _ <;> simp [constructVariant]
  | .arr t, v, s => by
    cases v <;> simp only [toVm, enc, Option.map_none]
    rename_i vs
    rw [pushAll_enc (toVm t) (enc t) (toVm_enc t)]
    cases hm : mapOpt (enc t) vs with
    | none => simp
    | some xs =>
      simp only [Option.map_some, constructArray]
      rw [← mapOpt_length _ _ _ hm, popN_append]
  | .tup ts, v, s => by
    cases v <;> simp only [toVm, enc, Option.map_none]
    rename_i vs
    rw [toVmElems_enc ts]
    cases hm : encElems ts vs with
    | none => simp
    | some xs =>
      simp only [Option.map_some, constructStruct]
      rw [← encElems_length ts vs xs hm, popN_append]
  | .strct ts, v, s => by
    cases v <;> simp only [toVm, enc, Option.map_none]
    rename_i vs
    rw [toVmFields_enc ts]
    cases hm : encFields ts vs with
    | none => simp
    | some xs =>
      simp only [Option.map_some, constructStruct]
      rw [← encFields_length ts vs xs hm, popN_append]
  | .enm vars, v, s => by
    cases v <;> simp only [toVm, enc, Option.map_none]
    exact toVmVariant_enc vars _ _ _ s

theorem toVmElems_enc : ∀ (ts : TyList) (vs : List HV) (s : Stack),
    toVmElems ts vs s = (encElems ts vs).map (fun xs => xs.reverse ++ s)
  | .nil, vs, s => by cases vs <;> simp [toVmElems, encElems]
  | .cons t ts, vs, s => by
    cases vs with
    | nil => simp [toVmElems, encElems]
    | cons v vs =>
      simp only [toVmElems, encElems]
      rw [toVm_enc t]
      cases enc t v with
      | none => simp
      | some x =>
        simp only [Option.map_some]
        rw [toVmElems_enc ts]
        cases encElems ts vs <;> simp

theorem encElems_length : ∀ (ts : TyList) (vs : List HV) (xs : List VV),
    encElems ts vs = some xs → xs.length = ts.length
  | .nil, vs, xs => by cases vs <;> simp [encElems, TyList.length] <;> (intro h; subst h; rfl)
  | .cons t ts, vs, xs => by
    cases vs with
    | nil => simp [encElems]
    | cons v vs =>
      simp only [encElems, TyList.length]
      intro h
      split at h
      · rename_i x xs' _ h2
        cases h
        simp [encElems_length ts vs xs' h2]
      · cases h

theorem toVmFields_enc : ∀ (ts : TyList) (vs : List HV) (s : Stack),
    toVmFields ts vs s = (encFields ts vs).map (fun xs => xs.reverse ++ s)
  | .nil, vs, s => by cases vs <;> simp [toVmFields, encFields]
  | .cons t ts, vs, s => by
    cases vs with
    | nil => cases t <;> simp [toVmFields, encFields]
    | cons v vs =>
      by_cases hu : t = .unit ∧ v = .unit
      · obtain ⟨rfl, rfl⟩ := hu
        simp only [toVmFields, encFields]
        exact toVmFields_enc ts vs s
      · have e1 : toVmFields (.cons t ts) (v :: vs) s =
            match toVm t v s with
            | some s' => toVmFields ts vs s'
            | none => none := by
          cases t <;> cases v <;> first | rfl | simp_all [toVmFields]
        have e2 : encFields (.cons t ts) (v :: vs) =
            match enc t v, encFields ts vs with
            | some x, some xs => some (x :: xs)
            | _, _ => none := by
          cases t <;> cases v <;> first | rfl | simp_all [encFields]
        rw [e1, e2, toVm_enc t]
        cases enc t v with
        | none => simp
        | some x =>
          simp only [Option.map_some]
          rw [toVmFields_enc ts]
          cases encFields ts vs <;> simp

theorem encFields_length : ∀ (ts : TyList) (vs : List HV) (xs : List VV),
    encFields ts vs = some xs → xs.length = ts.slots
  | .nil, vs, xs => by cases vs <;> simp [encFields, TyList.slots] <;> (intro h; subst h; rfl)
  | .cons t ts, vs, xs => by
    cases vs with
    | nil => cases t <;> simp [encFields]
    | cons v vs =>
      by_cases hu : t = .unit ∧ v = .unit
      · obtain ⟨rfl, rfl⟩ := hu
        simp only [encFields, TyList.slots]
        exact encFields_length ts vs xs
      · have e2 : encFields (.cons t ts) (v :: vs) =
            match enc t v, encFields ts vs with
            | some x, some xs => some (x :: xs)
            | _, _ => none := by
          cases t <;> cases v <;> first | rfl | simp_all [encFields]
        rw [e2]
        intro h
        split at h
        · rename_i x xs' h1 h2
          cases h
          have hne : t ≠ .unit := by
            intro e; subst e
            cases v <;> simp_all [enc]
          have : (TyList.cons t ts).slots = ts.slots + 1 := by
            cases t <;> simp_all [TyList.slots]
          rw [this]
          simp [encFields_length ts vs xs' h2]
        · cases h

theorem toVmVariant_enc : ∀ (vars : VarList) (k tag : Nat) (p : Option HV) (s : Stack),
    toVmVariant vars k tag p s = (encVariant vars k tag p).map (· :: s)
  | .nil, k, tag, p, s => by cases k <;> simp [toVmVariant, encVariant]
  | .bare rest, k, tag, p, s => by
    cases k with
    | zero => cases p <;> simp [toVmVariant, encVariant, constructVariant]
    | succ k => simp only [toVmVariant, encVariant]; exact toVmVariant_enc rest k tag p s
  | .payload t rest, k, tag, p, s => by
    cases k with
    | zero =>
      cases p with
      | none => simp [toVmVariant, encVariant]
      | some v =>
        simp only [toVmVariant, encVariant]
        rw [toVm_enc t]
        cases enc t v <;> simp [constructVariant]
    | succ k => simp only [toVmVariant, encVariant]; exact toVmVariant_enc rest k tag p s
end


theorem mapOpt_some_cons {β γ : Type} {g : β → Option γ} {v : β} {vs : List β} {ys : List γ}
    (h : mapOpt g (v :: vs) = some ys) : ∃ x xs, g v = some x ∧ mapOpt g vs = some xs ∧ ys = x :: xs := by
  simp only [mapOpt] at h
  split at h
  · rename_i x xs h1 h2; cases h; exact ⟨x, xs, h1, h2, rfl⟩
  · cases h

mutual
/-- `from_vm` reads an encoding back and removes exactly that one value -/
theorem fromVm_enc : ∀ (t : Ty) (v : HV) (x : VV) (s : Stack),
    enc t v = some x → fromVm t (x :: s) = some (v, s)
  | .int, v, x, s => by cases v <;> simp [enc] <;> (intro h; subst h; simp [fromVm])
  | .float, v, x, s => by cases v <;> simp [enc] <;> (intro h; subst h; simp [fromVm])
  | .bool, v, x, s => by cases v <;> simp [enc] <;> (intro h; subst h; simp [fromVm])
  | .str, v, x, s => by cases v <;> simp [enc] <;> (intro h; subst h; simp [fromVm])
  | .unit, v, x, s => by cases v <;> simp [enc] <;> (intro h; subst h; simp [fromVm, pop])
  | .opt t, v, x, s => by
    cases v <;> simp only [enc, Option.map_eq_some_iff, reduceCtorEq, false_imp_iff, Option.some.injEq]
    · rintro ⟨y, hy, rfl⟩
      simp [fromVm, deconstructVariant, popInt, fromVm_enc t _ y s hy]
    · rintro rfl
      simp [fromVm, deconstructVariant, popInt, pop]
  | .res t e, v, x, s => by
    cases v <;> simp only [enc, Option.map_eq_some_iff, reduceCtorEq, false_imp_iff]
    · rintro ⟨y, hy, rfl⟩
      simp [fromVm, deconstructVariant, popInt, fromVm_enc t _ y s hy]
    · rintro ⟨y, hy, rfl⟩
      simp [fromVm, deconstructVariant, popInt, fromVm_enc e _ y s hy]
  | .arr t, v, x, s => by
    cases v <;> simp only [enc, Option.map_eq_some_iff, reduceCtorEq, false_imp_iff]
    rename_i vs
    rintro ⟨xs, hxs, rfl⟩
    have hl := mapOpt_length _ _ _ hxs
    have := readN_enc (fromVm t) (enc t) (fun v x s h => fromVm_enc t v x s h) vs xs s hxs
    simp [fromVm, arrayLen, deconstructArray, hl, this]
  | .tup ts, v, x, s => by
    cases v <;> simp only [enc, Option.map_eq_some_iff, reduceCtorEq, false_imp_iff]
    rename_i vs
    rintro ⟨xs, hxs, rfl⟩
    simp [fromVm, deconstructStruct, fromVmElems_enc ts vs xs s hxs]
  | .strct ts, v, x, s => by
    cases v <;> simp only [enc, Option.map_eq_some_iff, reduceCtorEq, false_imp_iff]
    rename_i vs
    rintro ⟨xs, hxs, rfl⟩
    simp [fromVm, deconstructStruct, fromVmFields_enc ts vs xs s hxs]
  | .enm vars, v, x, s => by
    cases v <;> simp only [enc, reduceCtorEq, false_imp_iff]
    rename_i tag p
    intro h
    obtain ⟨y, rfl, hy⟩ := fromVmVariant_enc vars tag tag p x s h
    have hneg : ¬ ((tag : Int) < 0) := by omega
    simp [fromVm, deconstructVariant, popInt, hneg, hy]

theorem fromVmElems_enc : ∀ (ts : TyList) (vs : List HV) (xs : List VV) (s : Stack),
    encElems ts vs = some xs → fromVmElems ts (xs ++ s) = some (vs, s)
  | .nil, vs, xs, s => by
    cases vs <;> simp [encElems]
    rintro rfl; simp [fromVmElems]
  | .cons t ts, vs, xs, s => by
    cases vs with
    | nil => simp [encElems]
    | cons v vs =>
      simp only [encElems]
      intro h
      split at h
      · rename_i x xs' h1 h2
        cases h
        simp [fromVmElems, fromVm_enc t v x _ h1, fromVmElems_enc ts vs xs' s h2]
      · cases h

theorem fromVmFields_enc : ∀ (ts : TyList) (vs : List HV) (xs : List VV) (s : Stack),
    encFields ts vs = some xs → fromVmFields ts (xs ++ s) = some (vs, s)
  | .nil, vs, xs, s => by
    cases vs <;> simp [encFields]
    rintro rfl; simp [fromVmFields]
  | .cons t ts, vs, xs, s => by
    cases vs with
    | nil => cases t <;> simp [encFields]
    | cons v vs =>
      by_cases hu : t = .unit ∧ v = .unit
      · obtain ⟨rfl, rfl⟩ := hu
        simp only [encFields]
        intro h
        simp [fromVmFields, fromVmFields_enc ts vs xs s h]
      · have e2 : encFields (.cons t ts) (v :: vs) =
            match enc t v, encFields ts vs with
            | some x, some xs => some (x :: xs)
            | _, _ => none := by
          cases t <;> cases v <;> first | rfl | simp_all [encFields]
        rw [e2]
        intro h
        split at h
        · rename_i x xs' h1 h2
          cases h
          have hne : t ≠ .unit := by
            intro e; subst e
            cases v <;> simp_all [enc]
          have e1 : ∀ s1, fromVmFields (.cons t ts) s1 =
              match fromVm t s1 with
              | some (v, s2) =>
                match fromVmFields ts s2 with
                | some (vs, s3) => some (v :: vs, s3)
                | none => none
              | none => none := by
            intro s1
            cases t <;> first | rfl | simp_all [fromVmFields]
          rw [e1]
          simp [fromVm_enc t v x _ h1, fromVmFields_enc ts vs xs' s h2]
        · cases h

theorem fromVmVariant_enc : ∀ (vars : VarList) (k tag : Nat) (p : Option HV) (x : VV) (s : Stack),
    encVariant vars k tag p = some x →
      ∃ y, x = .variant tag y ∧ fromVmVariant vars k tag (y :: s) = some (.variant tag p, s)
  | .nil, k, tag, p, x, s => by cases k <;> simp [encVariant]
  | .bare rest, k, tag, p, x, s => by
    cases k with
    | zero =>
      cases p <;> simp [encVariant]
      rintro rfl
      exact ⟨_, rfl, by simp [fromVmVariant, pop]⟩
    | succ k =>
      simp only [encVariant, fromVmVariant]
      exact fromVmVariant_enc rest k tag p x s
  | .payload t rest, k, tag, p, x, s => by
    cases k with
    | zero =>
      cases p with
      | none => simp [encVariant]
      | some v =>
        simp only [encVariant, Option.map_eq_some_iff]
        rintro ⟨y, hy, rfl⟩
        exact ⟨y, rfl, by simp [fromVmVariant, fromVm_enc t v y s hy]⟩
    | succ k =>
      simp only [encVariant, fromVmVariant]
      exact fromVmVariant_enc rest k tag p x s
end

end Abra.Marshal
