import AbraModel.Sched
/-! Lemmas about the scheduler model `Abra.Sched` (M4). -/
namespace Abra.Sched
variable {T V E : Type}

/-- a thread the scheduler skips and keeps: cannot run and is not finished -/
def Thread.stuck (t : Thread T E) : Bool := !t.canRun && !t.done

/-- no thread that is released at the end of its turn (finished; a task stopped by an error, fix 39422dd) is waiting
    in a queue (`finish_thread_turn` never enqueues one) -/
def NoDone (r : Runtime T V E) : Prop :=
  (∀ t ∈ r.runQueue, t.gone = false) ∧ (∀ t ∈ r.newThreads, t.gone = false)

/-- every queued thread is blocked (pending host call or error) and nothing waits to be enqueued -/
def Stuck (r : Runtime T V E) : Prop :=
  r.newThreads = [] ∧ ∀ t ∈ r.runQueue, t.canRun = false ∧ t.gone = false

theorem canRun_done {t : Thread T E} (h : t.canRun = true) : t.gone = false := by
  unfold Thread.canRun at h
  unfold Thread.gone
  cases hd : t.done <;> cases he : t.err <;> simp_all

theorem gone_done {t : Thread T E} (h : t.gone = false) : t.done = false := by
  unfold Thread.gone at h
  cases hd : t.done <;> simp_all

theorem canRun_done' {t : Thread T E} (h : t.canRun = true) : t.done = false := gone_done (canRun_done h)

theorem ftt_notDone (r : Runtime T V E) (th : Thread T E) (h : th.gone = false) :
    finishThreadTurn r th = ({ r with runQueue := r.runQueue ++ [th] }, false) := by
  unfold Thread.gone at h
  unfold finishThreadTurn
  cases hm : th.isMain <;> cases hd : th.done <;> cases he : th.err <;> simp_all

@[simp] theorem ftt_newThreads (r : Runtime T V E) (th : Thread T E) :
    (finishThreadTurn r th).1.newThreads = r.newThreads := by
  unfold finishThreadTurn; split
  · rfl
  · split <;> rfl

theorem drain_nil (r : Runtime T V E) (h : r.newThreads = []) : drainNewThreads r = (r, false) := by
  cases r; simp_all [drainNewThreads, drainAux]

theorem drainAux_newThreads (ts : List (Thread T E)) (r : Runtime T V E)
    (h : (drainAux r ts).2 = false) : (drainAux r ts).1.newThreads = [] := by
  induction ts generalizing r with
  | nil => simp [drainAux]
  | cons t rest ih =>
    simp only [drainAux] at h ⊢
    split
    · rename_i hp; simp [hp] at h
    · rename_i hp; simp [hp] at h; exact ih _ h

theorem drain_newThreads (r : Runtime T V E) (h : (drainNewThreads r).2 = false) :
    (drainNewThreads r).1.newThreads = [] := drainAux_newThreads _ _ h

/-- `finish_thread_turn` never puts a finished thread or a failed task into the run queue -/
theorem ftt_noDone (r : Runtime T V E) (th : Thread T E) (h : ∀ t ∈ r.runQueue, t.gone = false) :
    ∀ t ∈ (finishThreadTurn r th).1.runQueue, t.gone = false := by
  unfold finishThreadTurn
  split
  · exact h
  · split
    · exact h
    · rename_i h1 h2
      intro t ht
      simp only [List.mem_append, List.mem_singleton] at ht
      rcases ht with ht | rfl
      · exact h t ht
      · unfold Thread.gone
        cases hm : t.isMain <;> cases hd : t.done <;> cases he : t.err <;> simp_all

theorem drainAux_noDone (ts : List (Thread T E)) (r : Runtime T V E)
    (h : ∀ t ∈ r.runQueue, t.gone = false) :
    ∀ t ∈ (drainAux r ts).1.runQueue, t.gone = false := by
  induction ts generalizing r with
  | nil => simpa [drainAux] using h
  | cons t rest ih =>
    simp only [drainAux]
    split
    · exact ftt_noDone r t h
    · exact ih _ (ftt_noDone r t h)

/-- `skipPhase` unfolded on a state where nothing waits to be enqueued and no queued thread is finished -/
theorem skipPhase_succ (f k : Nat) (r : Runtime T V E) (th : Thread T E) (rest : List (Thread T E))
    (hn : r.newThreads = []) (hq : r.runQueue = th :: rest) (hd : th.gone = false)
    (hk : k < r.runQueue.length) :
    skipPhase (f + 1) k r =
      if th.canRun then .run th { r with runQueue := rest }
      else skipPhase f (k + 1) { r with runQueue := rest ++ [th] } := by
  rw [skipPhase]
  simp only [Nat.not_le.mpr hk, if_false]
  rw [hq]
  simp only
  split
  · rfl
  · rw [ftt_notDone _ _ hd]
    simp only [Bool.false_eq_true, if_false]
    rw [drain_nil _ (by simpa using hn)]
    simp

/-- **The scheduler's choice, stated on lists.**  With the queue `A ++ B`, the last `k = |B|` threads
    already skipped, all of `B` stuck and no finished thread queued, the skipping turns rotate the
    longest stuck prefix `S` of `A` to the back and pick the first thread of `A` that can run; when
    there is none the loop ends with the queue `B ++ A`. -/
theorem skipPhase_spec (f k : Nat) (r : Runtime T V E) (A B : List (Thread T E))
    (hn : r.newThreads = []) (hq : r.runQueue = A ++ B) (hk : B.length = k)
    (hA : ∀ t ∈ A, t.gone = false) (hf : A.length < f) :
    skipPhase f k r =
      match A.dropWhile (fun t => !t.canRun) with
      | [] => .exit { r with runQueue := B ++ A }
      | th :: A2 => .run th { r with runQueue := A2 ++ B ++ A.takeWhile (fun t => !t.canRun) } := by
  induction f generalizing k r A B with
  | zero => omega
  | succ f ih =>
    cases A with
    | nil =>
      have : r.runQueue.length ≤ k := by simp [hq, hk]
      rw [skipPhase]; simp only [this, if_true]
      cases r; simp_all
    | cons th A' =>
      have hlen : k < r.runQueue.length := by simp [hq, hk]; omega
      have hth : th.gone = false := hA th (by simp)
      rw [skipPhase_succ f k r th (A' ++ B) hn (by simpa using hq) hth hlen]
      by_cases hc : th.canRun = true
      · simp [hc, List.dropWhile, List.takeWhile]
      · have hc' : th.canRun = false := by simpa using hc
        simp only [hc', Bool.false_eq_true, if_false]
        rw [ih (k + 1) _ A' (B ++ [th]) (by simpa using hn) (by simp) (by simp [hk])
          (fun t ht => hA t (by simp [ht])) (by simp at hf; omega)]
        simp only [List.dropWhile, List.takeWhile, hc', Bool.not_false]
        split <;> simp

/-- at call entry / after an executed instruction (`skipped_threads = 0`) -/
theorem skipPhase_zero (r : Runtime T V E) (hn : r.newThreads = [])
    (hd : ∀ t ∈ r.runQueue, t.gone = false) :
    skipPhase (r.runQueue.length + r.newThreads.length + 1) 0 r =
      match r.runQueue.dropWhile (fun t => !t.canRun) with
      | [] => .exit r
      | th :: A2 => .run th { r with runQueue := A2 ++ r.runQueue.takeWhile (fun t => !t.canRun) } := by
  rw [skipPhase_spec _ 0 r r.runQueue [] hn (by simp) rfl hd (by omega)]
  split <;> simp

theorem dropWhile_nil_of_stuck (q : List (Thread T E)) (h : ∀ t ∈ q, t.canRun = false) :
    q.dropWhile (fun t => !t.canRun) = [] := by
  induction q with
  | nil => rfl
  | cons t q ih =>
    have := h t (by simp)
    simp [List.dropWhile, this]
    exact ih (fun t ht => h t (by simp [ht]))

theorem stuck_of_dropWhile_nil (q : List (Thread T E)) (h : q.dropWhile (fun t => !t.canRun) = []) :
    ∀ t ∈ q, t.canRun = false := by
  induction q with
  | nil => simp
  | cons t q ih =>
    by_cases hc : t.canRun = true
    · simp [List.dropWhile, hc] at h
    · have hc' : t.canRun = false := by simpa using hc
      simp [List.dropWhile, hc'] at h
      intro u hu
      simp at hu
      rcases hu with rfl | hu
      · exact hc'
      · exact ih h u hu

/-- a call on a runtime in which every thread is blocked executes nothing and changes nothing -/
theorem loop_stuck (step : T → Action T V E) (b s : Nat) (r : Runtime T V E) (h : Stuck r) :
    loop step b s r = (r, false, s) := by
  cases b with
  | zero => rfl
  | succ b =>
    rw [loop, skipPhase_zero r h.1 (fun t ht => (h.2 t ht).2),
      dropWhile_nil_of_stuck _ (fun t ht => (h.2 t ht).1)]

/-! #### invariants of one executed turn -/

theorem exec_runQueue (step : T → Action T V E) (r : Runtime T V E) (th : Thread T E) :
    (exec step r th).1.runQueue = r.runQueue := by
  unfold exec; split <;> try rfl
  split <;> rfl

theorem exec_newThreads_noDone (step : T → Action T V E) (r : Runtime T V E) (th : Thread T E)
    (h : ∀ t ∈ r.newThreads, t.gone = false) : ∀ t ∈ (exec step r th).1.newThreads, t.gone = false := by
  unfold exec; split <;> try exact h
  · split <;> exact h
  · intro t ht
    simp only [List.mem_append, List.mem_singleton] at ht
    rcases ht with ht | rfl
    · exact h t ht
    · rfl

theorem drain_noDone (r : Runtime T V E) (h : NoDone r) : NoDone (drainNewThreads r).1 := by
  refine ⟨drainAux_noDone _ _ h.1, ?_⟩
  -- the threads still waiting are a suffix of the old ones
  have : ∀ (ts : List (Thread T E)) (r : Runtime T V E), (∀ t ∈ ts, t.gone = false) →
      ∀ t ∈ (drainAux r ts).1.newThreads, t.gone = false := by
    intro ts
    induction ts with
    | nil => intro r _; simp [drainAux]
    | cons t rest ih =>
      intro r hts
      simp only [drainAux]
      split
      · intro u hu; exact hts u (by simp [hu])
      · exact ih _ (fun u hu => hts u (by simp [hu]))
  exact this _ _ h.2

theorem ftt_NoDone (r : Runtime T V E) (th : Thread T E) (h : NoDone r) :
    NoDone (finishThreadTurn r th).1 :=
  ⟨ftt_noDone r th h.1, by simpa using h.2⟩

theorem exec_NoDone (step : T → Action T V E) (r : Runtime T V E) (th : Thread T E) (h : NoDone r) :
    NoDone (exec step r th).1 :=
  ⟨by rw [exec_runQueue]; exact h.1, exec_newThreads_noDone step r th h.2⟩

/-- the state in which `loop` continues after an executed instruction is again clean -/
theorem turn_inv (step : T → Action T V E) (r0 : Runtime T V E) (th : Thread T E) (h : NoDone r0)
    (hq : (drainNewThreads (finishThreadTurn (exec step r0 th).1 (exec step r0 th).2).1).2 = false) :
    (drainNewThreads (finishThreadTurn (exec step r0 th).1 (exec step r0 th).2).1).1.newThreads = [] ∧
    NoDone (drainNewThreads (finishThreadTurn (exec step r0 th).1 (exec step r0 th).2).1).1 :=
  ⟨drain_newThreads _ hq, drain_noDone _ (ftt_NoDone _ _ (exec_NoDone step r0 th h))⟩

theorem mem_of_dropWhile {α} (p : α → Bool) (q : List α) (x : α) (xs : List α)
    (h : q.dropWhile p = x :: xs) : x ∈ q ∧ (∀ y ∈ xs, y ∈ q) := by
  have hs : (q.dropWhile p).Sublist q := List.dropWhile_sublist p
  rw [h] at hs
  exact ⟨hs.subset (by simp), fun y hy => hs.subset (by simp [hy])⟩

/-- **Budgets add up.**  On a clean state, a budget `a + b` behaves like budget `a` followed — unless the
    main thread finished — by budget `b` on the resulting state, with the step counter carried over. -/
theorem loop_add (step : T → Action T V E) (a b s : Nat) (r : Runtime T V E)
    (hn : r.newThreads = []) (hd : NoDone r) :
    loop step (a + b) s r =
      (if (loop step a s r).2.1 then loop step a s r
       else loop step b (loop step a s r).2.2 (loop step a s r).1) := by
  induction a generalizing s r with
  | zero => simp [loop]
  | succ a ih =>
    rw [show a + 1 + b = (a + b) + 1 by omega]
    rw [loop, loop, skipPhase_zero r hn hd.1]
    cases hdw : r.runQueue.dropWhile (fun t => !t.canRun) with
    | nil =>
      simp only [Bool.false_eq_true, if_false]
      have hst : Stuck r := ⟨hn, fun t ht => ⟨stuck_of_dropWhile_nil _ hdw t ht, hd.1 t ht⟩⟩
      rw [loop_stuck step b s r hst]
    | cons th A2 =>
      simp only
      have hmem := mem_of_dropWhile _ _ _ _ hdw
      have hr0 : NoDone ({ r with runQueue := A2 ++ r.runQueue.takeWhile (fun t => !t.canRun) } : Runtime T V E) := by
        refine ⟨?_, hd.2⟩
        intro t ht
        simp only [List.mem_append] at ht
        rcases ht with ht | ht
        · exact hd.1 t (hmem.2 t ht)
        · exact hd.1 t ((List.takeWhile_sublist _).subset ht)
      split
      · simp
      · split
        · simp
        · rename_i hp hq
          have hinv := turn_inv step _ th hr0 (by simpa using hq)
          exact ih (s + 1) _ hinv.1 hinv.2

/-- the state of `loop` after it has executed the thread chosen by `skipPhase`: one unfolding on a
    clean state, with the choice stated on lists -/
theorem loop_succ (step : T → Action T V E) (rem s : Nat) (r : Runtime T V E)
    (hn : r.newThreads = []) (hd : NoDone r) :
    loop step (rem + 1) s r =
      match r.runQueue.dropWhile (fun t => !t.canRun) with
      | [] => (r, false, s)
      | th :: A2 =>
        let r0 : Runtime T V E := { r with runQueue := A2 ++ r.runQueue.takeWhile (fun t => !t.canRun) }
        let e := exec step r0 th
        let p := finishThreadTurn e.1 e.2
        if p.2 then (p.1, true, s + 1) else
        let q := drainNewThreads p.1
        if q.2 then (q.1, true, s + 1) else loop step rem (s + 1) q.1 := by
  rw [loop, skipPhase_zero r hn hd.1]
  cases hdw : r.runQueue.dropWhile (fun t => !t.canRun) <;> rfl

theorem noDone_r0 (r : Runtime T V E) (hd : NoDone r) (th : Thread T E) (A2 : List (Thread T E))
    (hdw : r.runQueue.dropWhile (fun t => !t.canRun) = th :: A2) :
    NoDone ({ r with runQueue := A2 ++ r.runQueue.takeWhile (fun t => !t.canRun) } : Runtime T V E) := by
  have hmem := mem_of_dropWhile _ _ _ _ hdw
  refine ⟨?_, hd.2⟩
  intro t ht
  simp only [List.mem_append] at ht
  rcases ht with ht | ht
  · exact hd.1 t (hmem.2 t ht)
  · exact hd.1 t ((List.takeWhile_sublist _).subset ht)

/-- `loop` keeps the state clean (unless it returned because main finished: then threads may still wait) -/
theorem loop_inv (step : T → Action T V E) (rem s : Nat) (r : Runtime T V E)
    (hn : r.newThreads = []) (hd : NoDone r) :
    NoDone (loop step rem s r).1 ∧ ((loop step rem s r).2.1 = false → (loop step rem s r).1.newThreads = []) := by
  induction rem generalizing s r with
  | zero => simp [loop, hn, hd]
  | succ rem ih =>
    rw [loop_succ step rem s r hn hd]
    cases hdw : r.runQueue.dropWhile (fun t => !t.canRun) with
    | nil => simp [hn, hd]
    | cons th A2 =>
      have hr0 := noDone_r0 r hd th A2 hdw
      simp only
      split
      · exact ⟨ftt_NoDone _ _ (exec_NoDone step _ th hr0), by simp⟩
      · split
        · exact ⟨drain_noDone _ (ftt_NoDone _ _ (exec_NoDone step _ th hr0)), by simp⟩
        · rename_i hp hq
          have hinv := turn_inv step _ th hr0 (by simpa using hq)
          exact ih (s + 1) _ hinv.1 hinv.2

/-- the step counter is an accumulator -/
theorem loop_steps_shift (step : T → Action T V E) (rem s : Nat) (r : Runtime T V E) :
    loop step rem s r = ((loop step rem 0 r).1, (loop step rem 0 r).2.1, s + (loop step rem 0 r).2.2) := by
  induction rem generalizing s r with
  | zero => simp [loop]
  | succ rem ih =>
    rw [loop, loop]
    split
    · simp
    · simp
    · simp only
      split
      · simp
      · split
        · simp
        · rw [ih (s + 1), ih (0 + 1)]
          simp; omega

/-- a round-robin call on a clean, all-blocked state is the identity -/
theorem roundRobin_stuck (step : T → Action T V E) (b : Nat) (r : Runtime T V E) (h : Stuck r) :
    roundRobin step b r = (r, false, 0) := by
  simp [roundRobin, drain_nil r h.1, loop_stuck step b 0 r h]

theorem roundRobin_inv (step : T → Action T V E) (b : Nat) (r : Runtime T V E) (hd : NoDone r) :
    NoDone (roundRobin step b r).1 ∧
      ((roundRobin step b r).2.1 = false → (roundRobin step b r).1.newThreads = []) := by
  unfold roundRobin
  simp only
  split
  · rename_i h; exact ⟨drain_noDone r hd, by simp⟩
  · rename_i h
    exact loop_inv step b 0 _ (drain_newThreads r (by simpa using h)) (drain_noDone r hd)

theorem noDone_new (m : T) : NoDone (Runtime.new m : Runtime T V E) := by
  constructor <;> simp [Runtime.new, Thread.gone]

theorem serviceList_done {H : Type} (host : H → Nat → T → H × T) (h : H) (q : List (Thread T E))
    (hq : ∀ t ∈ q, t.gone = false) : ∀ t ∈ (serviceList host h q).2, t.gone = false := by
  induction q generalizing h with
  | nil => simp [serviceList]
  | cons t q ih =>
    have ht := hq t (by simp)
    have hq' : ∀ u ∈ q, u.gone = false := fun u hu => hq u (by simp [hu])
    unfold serviceList
    split
    · intro u hu
      simp only [List.mem_cons] at hu
      rcases hu with rfl | hu
      · exact ht
      · exact ih _ hq' u hu
    · intro u hu
      simp only [List.mem_cons] at hu
      rcases hu with rfl | hu
      · exact ht
      · exact ih _ hq' u hu

theorem serviceAll_noDone {H : Type} (host : H → Nat → T → H × T) (h : H) (r : Runtime T V E)
    (hd : NoDone r) : NoDone (serviceAll host h r).2 :=
  ⟨serviceList_done host h _ hd.1, hd.2⟩

/-- budgets add up (see `C10_runN_add`) -/
theorem runN_add (step : T → Action T V E) (a b : Nat) (r : Runtime T V E) (hd : NoDone r) :
    runN step (a + b) r =
      (if (runN step a r).doneNow then runN step a r
       else { runN step b (runN step a r).rt with
              steps := (runN step a r).steps + (runN step b (runN step a r).rt).steps }) := by
  unfold runN roundRobin
  simp only
  by_cases hdr : (drainNewThreads r).2 = true
  · simp [hdr]
  · have hdr' : (drainNewThreads r).2 = false := by simpa using hdr
    have hn := drain_newThreads r hdr'
    have hnd := drain_noDone r hd
    simp only [hdr', Bool.false_eq_true, if_false]
    rw [loop_add step a b 0 _ hn hnd]
    by_cases hl : (loop step a 0 (drainNewThreads r).1).2.1 = true
    · simp [hl]
    · have hl' : (loop step a 0 (drainNewThreads r).1).2.1 = false := by simpa using hl
      have hinv := loop_inv step a 0 _ hn hnd
      have hn2 := hinv.2 hl'
      simp only [hl', Bool.false_eq_true, if_false]
      rw [drain_nil _ hn2]
      simp only [Bool.false_eq_true, if_false]
      rw [loop_steps_shift step b (loop step a 0 (drainNewThreads r).1).2.2]
      split <;> simp

end Abra.Sched
