import AbraModel.GCPacing
import AbraProofs.Lemmas.GCCycle
import AbraProofs.Lemmas.GCProgress
/-! Pacing of the collector (for C07): the byte-budgeted increments of `Abra.GCP` preserve the invariants of
    M5, one increment covers the whole heap when the debt covers the heap, and the counters obey the
    inequalities from which the heap bound follows. -/
namespace Abra.GCP
open Abra.GC

/-! ### sums of sizes over (filtered) lists -/

theorem sumSize_append (size : Nat → Nat) (l1 l2 : List Nat) :
    sumSize size (l1 ++ l2) = sumSize size l1 + sumSize size l2 := by
  induction l1 with
  | nil => simp [sumSize]
  | cons a l ih => simp only [List.cons_append, sumSize, ih]; omega

theorem sumSize_filter_le (size : Nat → Nat) (q : Nat → Bool) (l : List Nat) :
    sumSize size (l.filter q) ≤ sumSize size l := by
  induction l with
  | nil => simp [sumSize]
  | cons a l ih =>
    rw [List.filter_cons]
    split <;> simp only [sumSize] <;> omega

/-- a smaller predicate gives a smaller sum; an entry that drops out is saved entirely -/
theorem sumSize_filter_mono (size : Nat → Nat) {q q' : Nat → Bool} {l : List Nat}
    (h : ∀ x ∈ l, q' x = true → q x = true) :
    sumSize size (l.filter q') ≤ sumSize size (l.filter q) := by
  induction l with
  | nil => simp [sumSize]
  | cons a l ih =>
    have ih' := ih (fun x hx => h x (List.mem_cons_of_mem _ hx))
    rw [List.filter_cons, List.filter_cons]
    cases hq' : q' a with
    | true => simp only [h a (by simp) hq', if_true, sumSize]; omega
    | false =>
      cases hq : q a with
      | true => simp only [if_true, sumSize, Bool.false_eq_true, if_false]; omega
      | false => simpa using ih'

theorem sumSize_filter_drop (size : Nat → Nat) {q q' : Nat → Bool} {l : List Nat} {a : Nat}
    (h : ∀ x ∈ l, q' x = true → q x = true) (ha : a ∈ l) (hq : q a = true) (hq' : q' a = false) :
    sumSize size (l.filter q') + size a ≤ sumSize size (l.filter q) := by
  induction l with
  | nil => simp at ha
  | cons b l ih =>
    have hmono := sumSize_filter_mono size (fun x hx => h x (List.mem_cons_of_mem _ hx))
    rw [List.filter_cons, List.filter_cons]
    by_cases hba : b = a
    · subst hba
      simp only [hq, hq', if_true, Bool.false_eq_true, if_false, sumSize]
      omega
    · have ha' : a ∈ l := by
        rcases List.mem_cons.1 ha with h1 | h1
        · exact absurd h1.symm hba
        · exact h1
      have ih' := ih (fun x hx => h x (List.mem_cons_of_mem _ hx)) ha'
      cases hqb' : q' b with
      | true => simp only [h b (by simp) hqb', if_true, sumSize]; omega
      | false =>
        cases hqb : q b with
        | true => simp only [if_true, sumSize, Bool.false_eq_true, if_false]; omega
        | false => simpa using ih'

theorem sumSize_filter_congr (size : Nat → Nat) {q q' : Nat → Bool} {l : List Nat}
    (h : ∀ x ∈ l, q' x = q x) : sumSize size (l.filter q') = sumSize size (l.filter q) := by
  apply Nat.le_antisymm
  · exact sumSize_filter_mono size (fun x hx hq => by rw [← h x hx]; exact hq)
  · exact sumSize_filter_mono size (fun x hx hq => by rw [h x hx]; exact hq)

theorem sumSize_filter_all (size : Nat → Nat) {q : Nat → Bool} {l : List Nat}
    (h : ∀ x ∈ l, q x = true) : sumSize size (l.filter q) = sumSize size l := by
  rw [List.filter_eq_self.2 h]

theorem sumSize_filter_append (size : Nat → Nat) (q : Nat → Bool) (l1 l2 : List Nat) :
    sumSize size ((l1 ++ l2).filter q) = sumSize size (l1.filter q) + sumSize size (l2.filter q) := by
  rw [List.filter_append, sumSize_append]

/-- `swap_remove` keeps every other entry: the (filtered) sum over what remains is the sum over the tail -/
theorem sumSize_filter_swapRemoveHead (size : Nat → Nat) (q : Nat → Bool) (a : Nat) (rest : List Nat) :
    sumSize size ((swapRemoveHead (a :: rest)).filter q) = sumSize size (rest.filter q) := by
  cases rest with
  | nil => simp [swapRemoveHead]
  | cons y r =>
    simp only [swapRemoveHead]
    have hne : (y :: r) ≠ [] := by simp
    have hl : (y :: r).getLast! = (y :: r).getLast hne := by
      simp [List.getLast!_eq_getLast?_getD, List.getLast?_eq_some_getLast hne]
    rw [hl]
    have hsplit := List.dropLast_concat_getLast hne
    have h2 : sumSize size ((y :: r).filter q) =
        sumSize size (((y :: r).dropLast).filter q) + sumSize size ([(y :: r).getLast hne].filter q) := by
      rw [← sumSize_filter_append, hsplit]
    rw [h2]
    have h3 : (y :: r).getLast hne :: (y :: r).dropLast = [(y :: r).getLast hne] ++ (y :: r).dropLast := rfl
    rw [h3, sumSize_filter_append]
    omega

theorem sumSize_swapRemoveHead (size : Nat → Nat) (a : Nat) (rest : List Nat) :
    sumSize size (swapRemoveHead (a :: rest)) = sumSize size rest := by
  have := sumSize_filter_swapRemoveHead size (fun _ => true) a rest
  rw [List.filter_eq_self.2 (by intros; rfl), List.filter_eq_self.2 (by intros; rfl)] at this
  exact this

/-- growing sizes: a part grows by no more than the whole -/
theorem sumSize_grow_part {size size' : Nat → Nat} (q : Nat → Bool) {l : List Nat}
    (h : ∀ a ∈ l, size a ≤ size' a) :
    sumSize size' (l.filter q) + sumSize size l ≤ sumSize size (l.filter q) + sumSize size' l ∧
    sumSize size l ≤ sumSize size' l := by
  induction l with
  | nil => simp [sumSize]
  | cons a l ih =>
    have ih' := ih (fun x hx => h x (List.mem_cons_of_mem _ hx))
    have ha := h a (by simp)
    rw [List.filter_cons]
    split <;> simp only [sumSize] <;> omega

theorem sumSize_one (l : List Nat) : sumSize (fun _ => 1) l = l.length := by
  induction l with
  | nil => rfl
  | cons a l ih => simp only [sumSize, ih, List.length_cons]; omega

/-! ### one pop of `process_gray` -/

/-- the state after `gray_stack.pop()` and `header.visited = gc_visited`, before the children are marked -/
def popped (σ : St) (a : Nat) (g : List Nat) : St :=
  { obj := setMarked σ.obj a true, done := σ.done, todo := σ.todo, roots := σ.roots, gray := g, phase := σ.phase }

theorem blacken_nil {σ : St} (h : σ.gray = []) : blacken σ = σ := by unfold blacken; rw [h]

theorem blacken_cons {σ : St} {a : Nat} {g : List Nat} (h : σ.gray = a :: g) :
    blacken σ = markAll (popped σ a g) (σ.children a) := by unfold blacken; rw [h]; rfl

theorem popped_marked (σ : St) (a : Nat) (g : List Nat) (x : Nat) :
    (popped σ a g).marked x = if x = a then true else σ.marked x := by
  show (setMarked σ.obj a true x).marked = _; rw [setMarked_marked]; rfl

theorem popped_children (σ : St) (a : Nat) (g : List Nat) (x : Nat) :
    (popped σ a g).children x = σ.children x := by
  show (setMarked σ.obj a true x).children = _; simp [St.children]

/-- `τ` differs from `σ` only by more mark bits and another gray stack -/
structure MarkExt (σ τ : St) : Prop where
  phase : τ.phase = σ.phase
  done : τ.done = σ.done
  todo : τ.todo = σ.todo
  roots : τ.roots = σ.roots
  children : ∀ x, τ.children x = σ.children x
  mono : ∀ x, σ.marked x = true → τ.marked x = true

theorem MarkExt.refl (σ : St) : MarkExt σ σ := ⟨rfl, rfl, rfl, rfl, fun _ => rfl, fun _ h => h⟩

theorem MarkExt.trans {σ τ υ : St} (h1 : MarkExt σ τ) (h2 : MarkExt τ υ) : MarkExt σ υ :=
  ⟨h2.phase.trans h1.phase, h2.done.trans h1.done, h2.todo.trans h1.todo, h2.roots.trans h1.roots,
   fun x => (h2.children x).trans (h1.children x), fun x h => h2.mono x (h1.mono x h)⟩

theorem MarkExt.heap {σ τ : St} (h : MarkExt σ τ) : τ.heap = σ.heap := by
  unfold St.heap; rw [h.done, h.todo]

theorem markAll_ext (σ : St) (as : List Nat) : MarkExt σ (markAll σ as) :=
  ⟨by simp, by simp, by simp, by simp, by simp, fun x h => by rw [markAll_marked, h]; rfl⟩

theorem blacken_ext (σ : St) : MarkExt σ (blacken σ) := by
  cases hg : σ.gray with
  | nil => rw [blacken_nil hg]; exact MarkExt.refl σ
  | cons a g =>
    rw [blacken_cons hg]
    refine MarkExt.trans (τ := popped σ a g) ⟨rfl, rfl, rfl, rfl, popped_children σ a g, ?_⟩ (markAll_ext _ _)
    intro x hx; rw [popped_marked]; split <;> simp [hx]

theorem blk_invM {σ : St} (h : InvM σ) : InvM (blacken σ) := by
  cases hg : σ.gray with
  | nil => rw [blacken_nil hg]; exact h
  | cons a g =>
    rw [blacken_cons hg]
    exact blacken_invM (σ1 := popped σ a g) h hg rfl rfl rfl rfl (popped_marked σ a g) (popped_children σ a g)

theorem blk_invL {σ : St} {L : Nat → Prop} (hM : InvM σ) (h : InvL σ L) : InvL (blacken σ) L := by
  cases hg : σ.gray with
  | nil => rw [blacken_nil hg]; exact h
  | cons a g =>
    rw [blacken_cons hg]
    have ha := hM.gray a (by rw [hg]; simp)
    have hLa : L a := h.markedL a ha.1 ha.2
    apply markAll_invL
    · apply h.transfer
      · rfl
      · exact popped_children σ a g
      · intro x hx; exact hx
      · intro x hx hm
        rw [popped_marked] at hm
        by_cases hxa : x = a
        · rw [hxa]; exact hLa
        · simp only [hxa, if_false] at hm; exact h.markedL x hx hm
      · intro x hx; exact h.doneL x hx
    · intro c hc
      exact h.closedL a (by simp [St.heap, ha.1]) hLa c hc

/-! ### the gray stack has no duplicates -/

def GrayMarked (σ : St) : Prop := ∀ g ∈ σ.gray, σ.marked g = true

theorem markPush_grayOK {σ : St} {a : Nat} (hm : GrayMarked σ) (hn : σ.gray.Nodup) :
    GrayMarked (markPush σ a) ∧ (markPush σ a).gray.Nodup := by
  constructor
  · intro x hx
    rw [markPush_gray] at hx
    rw [markPush_marked]
    rcases hx with hx | ⟨hx, _⟩
    · simp [hm x hx]
    · simp [hx]
  · unfold markPush
    cases hma : σ.marked a with
    | true => simpa using hn
    | false =>
      simp only [Bool.false_eq_true, if_false]
      refine List.nodup_cons.2 ⟨?_, hn⟩
      intro hin
      rw [hm a hin] at hma; cases hma

theorem markAll_grayOK {σ : St} {as : List Nat} (hm : GrayMarked σ) (hn : σ.gray.Nodup) :
    GrayMarked (markAll σ as) ∧ (markAll σ as).gray.Nodup := by
  induction as generalizing σ with
  | nil => exact ⟨hm, hn⟩
  | cons a as ih =>
    rw [markAll_cons]
    have := markPush_grayOK (a := a) hm hn
    exact ih this.1 this.2

theorem grayMarked_of_invM {σ : St} (h : InvM σ) : GrayMarked σ := fun g hg => (h.gray g hg).2

theorem blk_nodup {σ : St} (hM : InvM σ) (hn : σ.gray.Nodup) : (blacken σ).gray.Nodup := by
  cases hg : σ.gray with
  | nil => rw [blacken_nil hg, hg]; exact List.nodup_nil
  | cons a g =>
    rw [blacken_cons hg]
    rw [hg] at hn
    have hn' := List.nodup_cons.1 hn
    apply (markAll_grayOK (σ := popped σ a g) ?_ hn'.2).2
    intro x hx
    rw [popped_marked]
    have := hM.gray x (by rw [hg]; exact List.mem_cons_of_mem _ hx)
    split <;> simp [this.2]

/-! ### the budget argument for marking: the bytes of gray and white objects -/

def grayOrWhite (σ : St) (x : Nat) : Bool := !σ.marked x || σ.gray.contains x

/-- the bytes a marking loop can still be charged: objects that are gray or not yet marked -/
def psi (size : Nat → Nat) (σ : St) : Nat := sumSize size (σ.heap.filter (grayOrWhite σ))

theorem psi_le (size : Nat → Nat) (σ : St) : psi size σ ≤ sumSize size σ.heap :=
  sumSize_filter_le size _ _

theorem blk_psi (size : Nat → Nat) {σ : St} {a : Nat} {g : List Nat} (hM : InvM σ) (hn : σ.gray.Nodup)
    (hg : σ.gray = a :: g) : psi size (blacken σ) + size a ≤ psi size σ := by
  unfold psi
  rw [(blacken_ext σ).heap]
  have ha := hM.gray a (by rw [hg]; simp)
  rw [hg] at hn
  have hn' := List.nodup_cons.1 hn
  have hmarkA : (blacken σ).marked a = true := by
    rw [blacken_cons hg, markAll_marked, popped_marked]; simp
  have hgrayMem : ∀ x, x ∈ (blacken σ).gray → x ∈ g ∨ (x ≠ a ∧ σ.marked x = false) := by
    intro x hx
    rw [blacken_cons hg] at hx
    rcases markAll_gray_mem _ _ _ hx with h1 | ⟨_, h2⟩
    · exact Or.inl h1
    · rw [popped_marked] at h2
      by_cases hxa : x = a
      · simp [hxa] at h2
      · simp only [hxa, if_false] at h2; exact Or.inr ⟨hxa, h2⟩
  apply sumSize_filter_drop size (q := grayOrWhite σ) (q' := grayOrWhite (blacken σ)) (a := a)
  · intro x _ hq'
    unfold grayOrWhite at hq' ⊢
    rcases Bool.or_eq_true_iff.1 hq' with h1 | h1
    · cases hmx : σ.marked x with
      | false => simp
      | true => rw [(blacken_ext σ).mono x hmx] at h1; simp at h1
    · have hx : x ∈ (blacken σ).gray := by simpa using h1
      rcases hgrayMem x hx with h2 | ⟨_, h2⟩
      · simp [hg, h2]
      · simp [h2]
  · simp [St.heap, ha.1]
  · unfold grayOrWhite; simp [hg]
  · unfold grayOrWhite
    rw [hmarkA]
    have : a ∉ (blacken σ).gray := by
      intro hin
      rcases hgrayMem a hin with h2 | ⟨h2, _⟩
      · exact hn'.1 h2
      · exact h2 rfl
    simp [this]

theorem white_le_heap (σ : St) : white σ ≤ σ.heap.length := by
  unfold white whiteOf; exact List.length_filter_le _ _

theorem blk_measure {σ : St} {a : Nat} {g : List Nat} (hM : InvM σ) (hg : σ.gray = a :: g) :
    white (blacken σ) + (blacken σ).gray.length + 1 ≤ white σ + σ.gray.length := by
  rw [blacken_cons hg]
  have ha := hM.gray a (by rw [hg]; simp)
  have hh : σ.heap = σ.todo := by simp [St.heap, hM.done]
  have hheap : (popped σ a g).heap = σ.heap := rfl
  have hch : ∀ c ∈ σ.children a, c ∈ (popped σ a g).heap := by
    intro c hc; rw [hheap, hh]; exact hM.closed a ha.1 c hc
  have hm := (markAll_measure (σ := popped σ a g) (as := σ.children a) hch).1
  have hw : white (popped σ a g) ≤ white σ := by
    unfold white; rw [hheap]
    apply whiteOf_mono
    intro x hx; rw [popped_marked]; split <;> simp [hx]
  have hgl : (popped σ a g).gray.length = g.length := rfl
  rw [hg]; simp only [List.length_cons]
  omega

/-! ### white objects of the ghost set `L` (reachable when the cycle started, or allocated since) -/

noncomputable def inL (L : Nat → Prop) (a : Nat) : Bool := @decide (L a) (Classical.propDecidable _)

theorem inL_iff (L : Nat → Prop) (a : Nat) : inL L a = true ↔ L a := by
  unfold inL; exact @decide_eq_true_iff (L a) (Classical.propDecidable _)

/-- number of heap entries that are in `L` and not yet marked -/
noncomputable def whiteIn (σ : St) (L : Nat → Prop) : Nat :=
  sumSize (fun _ => 1) (σ.heap.filter (fun a => !σ.marked a && inL L a))

theorem whiteIn_ext {σ τ : St} (L : Nat → Prop) (h : MarkExt σ τ) : whiteIn τ L ≤ whiteIn σ L := by
  unfold whiteIn
  rw [h.heap]
  apply sumSize_filter_mono
  intro x _ hx
  rcases Bool.and_eq_true_iff.1 hx with ⟨h1, h2⟩
  cases hmx : σ.marked x with
  | false => simp [h2]
  | true => rw [h.mono x hmx] at h1; simp at h1

theorem whiteIn_ext_drop {σ τ : St} (L : Nat → Prop) (h : MarkExt σ τ) {r : Nat} (hr : r ∈ σ.heap)
    (hL : L r) (hw : σ.marked r = false) (hm : τ.marked r = true) : whiteIn τ L + 1 ≤ whiteIn σ L := by
  unfold whiteIn
  rw [h.heap]
  apply sumSize_filter_drop (fun _ => 1) (a := r) _ hr
  · simp [hw, (inL_iff L r).2 hL]
  · simp [hm]
  · intro x _ hx
    rcases Bool.and_eq_true_iff.1 hx with ⟨h1, h2⟩
    cases hmx : σ.marked x with
    | false => simp [h2]
    | true => rw [h.mono x hmx] at h1; simp at h1

/-! ### the marking loop -/

theorem markLoop_ext (size : Nat → Nat) : ∀ (fuel batch : Nat) (σ : St),
    MarkExt σ (markLoop size fuel batch σ) := by
  intro fuel
  induction fuel with
  | zero => intro batch σ; exact MarkExt.refl σ
  | succ fuel ih =>
    intro batch σ
    rw [markLoop]
    split
    · exact MarkExt.refl σ
    · split
      · exact MarkExt.refl σ
      · exact (blacken_ext σ).trans (ih _ _)

theorem markLoop_inv (size : Nat → Nat) {L : Nat → Prop} : ∀ (fuel batch : Nat) (σ : St),
    InvM σ → σ.gray.Nodup → InvL σ L →
    InvM (markLoop size fuel batch σ) ∧ (markLoop size fuel batch σ).gray.Nodup ∧
      InvL (markLoop size fuel batch σ) L := by
  intro fuel
  induction fuel with
  | zero => intro batch σ h1 h2 h3; exact ⟨h1, h2, h3⟩
  | succ fuel ih =>
    intro batch σ h1 h2 h3
    rw [markLoop]
    split
    · exact ⟨h1, h2, h3⟩
    · split
      · exact ⟨h1, h2, h3⟩
      · exact ih _ _ (blk_invM h1) (blk_nodup h1 h2) (blk_invL h1 h3)

/-- **the slice covers the heap**: if the bytes of the gray and white objects are below the budget, the loop
    runs until the gray stack is empty -/
theorem markLoop_drains (size : Nat → Nat) : ∀ (fuel batch : Nat) (σ : St),
    InvM σ → σ.gray.Nodup → psi size σ < batch → σ.gray.length + white σ ≤ fuel →
    (markLoop size fuel batch σ).gray = [] := by
  intro fuel
  induction fuel with
  | zero =>
    intro batch σ _ _ _ hf
    rw [markLoop]
    have : σ.gray.length = 0 := by omega
    exact List.length_eq_zero_iff.1 this
  | succ fuel ih =>
    intro batch σ hM hn hb hf
    rw [markLoop]
    have hb0 : batch ≠ 0 := by omega
    simp only [hb0, if_false]
    split
    · assumption
    · rename_i a g hg
      have h1 := blk_psi size hM hn hg
      have h2 := blk_measure hM hg
      apply ih _ _ (blk_invM hM) (blk_nodup hM hn)
      · omega
      · omega

theorem markFuel_ok (σ : St) : σ.gray.length + white σ ≤ markFuel σ := by
  have := white_le_heap σ
  unfold markFuel; omega

/-! ### the end-of-call test after the loop -/

theorem finishMark_nodup {σ : St} (hM : InvM σ) (hn : σ.gray.Nodup) : (finishMark σ).gray.Nodup := by
  unfold finishMark
  split
  · exact hn
  · simp only
    have h' := (markAll_grayOK (as := σ.roots) (grayMarked_of_invM hM) hn).2
    split
    · exact h'
    · exact h'

/-- when the gray stack has drained, the end-of-call test either enters the sweep phase or has found an
    unmarked root: then a white object of `L` has just been marked -/
theorem finishMark_progress {σ : St} {L : Nat → Prop} (hM : InvM σ) (hp : σ.phase = .marking)
    (hL : InvL σ L) (hg : σ.gray = []) :
    (finishMark σ).phase = .sweeping ∨
    ((finishMark σ).phase = .marking ∧ whiteIn (finishMark σ) L + 1 ≤ whiteIn σ L) := by
  unfold finishMark
  rw [hg]; simp only
  cases hg' : (markAll σ σ.roots).gray with
  | nil => left; rfl
  | cons r g' =>
    right
    simp only
    refine ⟨by simp [hp], ?_⟩
    have hr : r ∈ (markAll σ σ.roots).gray := by rw [hg']; simp
    rcases markAll_gray_mem _ _ _ hr with h1 | ⟨h1, h2⟩
    · rw [hg] at h1; simp at h1
    · have hh : σ.heap = σ.todo := by simp [St.heap, hM.done]
      apply whiteIn_ext_drop L (markAll_ext σ σ.roots) (r := r)
      · rw [hh]; exact hM.roots r h1
      · exact hL.reach r (Reach.root h1)
      · exact h2
      · rw [markAll_marked]; simp [h1]

theorem finishMark_whiteIn_le {σ : St} (L : Nat → Prop) :
    whiteIn (finishMark σ) L ≤ whiteIn σ L := by
  unfold finishMark
  split
  · exact Nat.le_refl _
  · simp only
    have h1 := whiteIn_ext L (markAll_ext σ σ.roots)
    split
    · refine Nat.le_trans ?_ h1
      apply Nat.le_of_eq
      unfold whiteIn
      have : ({ markAll σ σ.roots with phase := Phase.sweeping, done := [], todo := (markAll σ σ.roots).heap } : St).heap
          = (markAll σ σ.roots).heap := by simp [St.heap]
      rw [this]; rfl
    · exact h1

theorem finishMark_heap (σ : St) : (finishMark σ).heap = σ.heap := by
  unfold finishMark
  split
  · rfl
  · simp only; split
    · simp [St.heap]
    · simp

theorem finishMark_phase_ne_idle {σ : St} (hp : σ.phase = .marking) : (finishMark σ).phase ≠ .idle := by
  unfold finishMark
  split
  · rw [hp]; simp
  · simp only; split
    · simp
    · simp [hp]

/-! ### the sweep loop -/

/-- bytes of the heap entries that are in the ghost set -/
noncomputable def bytesIn (p : PSt) (L : Nat → Prop) : Nat := sumSize p.size (p.g.heap.filter (inL L))

theorem invL_top (σ : St) : InvL σ (fun _ => True) :=
  ⟨fun _ _ => trivial, fun _ _ _ _ _ => trivial, fun _ _ _ => trivial, fun _ _ => trivial⟩

structure SwInv (p : PSt) (L : Nat → Prop) : Prop where
  invS : InvS p.g
  phase : p.g.phase = .sweeping
  invL : InvL p.g L
  acct : p.heapBytes = sumSize p.size p.g.heap

theorem sweepOne_marked {σ : St} {a : Nat} {rest : List Nat} (ht : σ.todo = a :: rest)
    (hm : σ.marked a = true) :
    (sweepOne σ).heap = σ.heap ∧ (sweepOne σ).todo = rest := by
  unfold sweepOne; rw [ht]; simp only [hm, if_true]
  constructor <;> simp [St.heap, ht]

theorem sweepOne_unmarked {σ : St} {a : Nat} {rest : List Nat} (ht : σ.todo = a :: rest)
    (hm : σ.marked a = false) :
    (sweepOne σ).done = σ.done ∧ (sweepOne σ).todo = swapRemoveHead (a :: rest) := by
  unfold sweepOne; rw [ht]; simp only [hm, Bool.false_eq_true, if_false]
  constructor <;> simp

theorem sweepOne_roots (σ : St) : (sweepOne σ).roots = σ.roots := by
  unfold sweepOne; split
  · rfl
  · split <;> rfl

theorem sweepOne_children (σ : St) (x : Nat) : (sweepOne σ).children x = σ.children x := by
  unfold sweepOne; split
  · rfl
  · split
    · show (setMarked σ.obj _ false x).children = _; simp [St.children]
    · rfl

/-- the state after one iteration of the sweep loop -/
def swStep (p : PSt) (a : Nat) : PSt :=
  { p with g := sweepOne p.g,
           heapBytes := if p.g.marked a then p.heapBytes else p.heapBytes - p.size a }

theorem swStep_spec {p : PSt} {L : Nat → Prop} {a : Nat} {rest : List Nat} (h : SwInv p L)
    (ht : p.g.todo = a :: rest) :
    SwInv (swStep p a) L ∧ (swStep p a).heapBytes ≤ p.heapBytes ∧
    bytesIn (swStep p a) L ≤ bytesIn p L ∧
    (swStep p a).g.todo.length = rest.length ∧
    sumSize p.size (swStep p a).g.todo + p.size a = sumSize p.size p.g.todo := by
  have hsz : (swStep p a).size = p.size := rfl
  have hg : (swStep p a).g = sweepOne p.g := rfl
  have hbase : SwInv (swStep p a) L → (swStep p a).heapBytes ≤ p.heapBytes := by
    intro _; show (if p.g.marked a then p.heapBytes else p.heapBytes - p.size a) ≤ _
    split <;> omega
  cases hm : p.g.marked a with
  | true =>
    have h1 := sweepOne_marked ht hm
    have hH : (swStep p a).heapBytes = p.heapBytes := by
      show (if p.g.marked a then p.heapBytes else p.heapBytes - p.size a) = _
      rw [hm]; rfl
    have hsw : SwInv (swStep p a) L :=
      ⟨by rw [hg]; exact sweepOne_invS h.invS, by rw [hg, sweepOne_phase]; exact h.phase,
       by rw [hg]; exact sweepOne_invL h.invL, by rw [hH, hsz, hg, h1.1]; exact h.acct⟩
    refine ⟨hsw, hbase hsw, ?_, ?_, ?_⟩
    · unfold bytesIn; rw [hsz, hg, h1.1]; exact Nat.le_refl _
    · rw [hg, h1.2]
    · rw [hg, h1.2, ht]; simp only [sumSize]; omega
  | false =>
    have h1 := sweepOne_unmarked ht hm
    have hheap : p.g.heap = p.g.done ++ a :: rest := by simp [St.heap, ht]
    have hheap' : (sweepOne p.g).heap = p.g.done ++ swapRemoveHead (a :: rest) := by
      simp [St.heap, h1.1, h1.2]
    have hacct := h.acct
    rw [hheap, sumSize_append] at hacct
    simp only [sumSize] at hacct
    have hH : (swStep p a).heapBytes = p.heapBytes - p.size a := by
      show (if p.g.marked a then p.heapBytes else p.heapBytes - p.size a) = _
      rw [hm]; rfl
    have hsw : SwInv (swStep p a) L := by
      refine ⟨by rw [hg]; exact sweepOne_invS h.invS, by rw [hg, sweepOne_phase]; exact h.phase,
       by rw [hg]; exact sweepOne_invL h.invL, ?_⟩
      rw [hH, hsz, hg, hheap', sumSize_append, sumSize_swapRemoveHead]
      omega
    refine ⟨hsw, hbase hsw, ?_, ?_, ?_⟩
    · unfold bytesIn
      rw [hsz, hg, hheap', hheap, sumSize_filter_append, sumSize_filter_append,
        sumSize_filter_swapRemoveHead, List.filter_cons]
      split
      · simp only [sumSize]; omega
      · omega
    · rw [hg, h1.2, length_swapRemoveHead]
    · rw [hg, h1.2, ht, sumSize_swapRemoveHead]; simp only [sumSize]; omega

theorem sweepLoop_spec {L : Nat → Prop} : ∀ (fuel work batch : Nat) (p : PSt), SwInv p L →
    SwInv (sweepLoop fuel work batch p) L ∧
    (sweepLoop fuel work batch p).size = p.size ∧ (sweepLoop fuel work batch p).debt = p.debt ∧
    (sweepLoop fuel work batch p).lastGc = p.lastGc ∧
    (sweepLoop fuel work batch p).heapBytes ≤ p.heapBytes ∧
    bytesIn (sweepLoop fuel work batch p) L ≤ bytesIn p L := by
  intro fuel
  induction fuel with
  | zero => intro work batch p h; exact ⟨h, rfl, rfl, rfl, Nat.le_refl _, Nat.le_refl _⟩
  | succ fuel ih =>
    intro work batch p h
    rw [sweepLoop]
    split
    · split
      · exact ⟨h, rfl, rfl, rfl, Nat.le_refl _, Nat.le_refl _⟩
      · rename_i a rest ht
        have h1 := swStep_spec h ht
        have h2 := ih (work + p.size a) batch (swStep p a) h1.1
        refine ⟨h2.1, h2.2.1, h2.2.2.1, h2.2.2.2.1, Nat.le_trans h2.2.2.2.2.1 h1.2.1,
          Nat.le_trans h2.2.2.2.2.2 h1.2.2.1⟩
    · exact ⟨h, rfl, rfl, rfl, Nat.le_refl _, Nat.le_refl _⟩

/-- **the slice covers the heap**: if the bytes still to be swept are below what is left of the budget, the
    loop reaches the end of the heap list -/
theorem sweepLoop_finishes {L : Nat → Prop} : ∀ (fuel work batch : Nat) (p : PSt), SwInv p L →
    (p.g.todo = [] ∨ work + sumSize p.size p.g.todo < batch) → p.g.todo.length ≤ fuel →
    (sweepLoop fuel work batch p).g.todo = [] := by
  intro fuel
  induction fuel with
  | zero =>
    intro work batch p _ _ hf
    rw [sweepLoop]
    exact List.length_eq_zero_iff.1 (by omega)
  | succ fuel ih =>
    intro work batch p h hc hf
    rw [sweepLoop]
    cases ht : p.g.todo with
    | nil => split <;> simp [ht]
    | cons a rest =>
      have hc' : work + sumSize p.size p.g.todo < batch := by
        rcases hc with hc | hc
        · rw [ht] at hc; cases hc
        · exact hc
      have hw : work < batch := by omega
      simp only [hw, if_true]
      have h1 := swStep_spec h ht
      apply ih _ _ _ h1.1
      · right
        have : (swStep p a).size = p.size := rfl
        rw [this]
        have := h1.2.2.2.2
        omega
      · rw [h1.2.2.2.1]; rw [ht] at hf; simp at hf; omega

end Abra.GCP
