import AbraModel.SpanTree
/- Lemmas for C35/C34: the two offset searches of `lsp_helper.rs` on their search trees.
   The specification side is stated with plain membership-style predicates (`Hit`, `Cand`) that do not
   mention the order in which the searches walk. -/
namespace Abra.SpanTree

theorem inSpan_some (lo hi off : Nat) : inSpan (some (lo, hi)) off = true ↔ lo ≤ off ∧ off < hi := by
  simp [inSpan]

/-! ## identifier search -/

mutual
/-- `id` is an identifier occurrence of `t` whose span contains `off` (no reference to walk order or to
    the spans of enclosing nodes) -/
def Hit (off id : Nat) : STree → Prop
  | .ident lo hi i => i = id ∧ lo ≤ off ∧ off < hi
  | .node _ _ kids => HitL off id kids
def HitL (off id : Nat) : List STree → Prop
  | [] => False
  | k :: ks => Hit off id k ∨ HitL off id ks
end

mutual
/-- children lie inside the parent's range: an identifier below a node with a span is inside that span -/
def Nested : STree → Prop
  | .ident _ _ _ => True
  | .node span _ kids => (∀ off id, HitL off id kids → inSpan span off = true) ∧ NestedL kids
def NestedL : List STree → Prop
  | [] => True
  | k :: ks => Nested k ∧ NestedL ks
end

mutual
/-- a node whose answer is final for the enclosing loop (a match arm) does not overlap the identifiers of
    the siblings visited after it -/
def CutOK : STree → Prop
  | .ident _ _ _ => True
  | .node _ _ kids => CutOKL kids
def CutOKL : List STree → Prop
  | [] => True
  | k :: ks => CutOK k ∧ (∀ off id, k.cuts off = true → ¬ HitL off id ks) ∧ CutOKL ks
end

/-- identifier spans are pairwise disjoint: no offset lies in two different identifiers -/
def Unique (t : STree) : Prop := ∀ off id₁ id₂, Hit off id₁ t → Hit off id₂ t → id₁ = id₂

mutual
theorem search_sound (off id : Nat) : ∀ t, search off t = some id → Hit off id t
  | .ident lo hi i, h => by
    unfold search at h
    split at h
    · rename_i hs
      have := (inSpan_some lo hi off).1 hs
      simp at h
      simp [Hit, h, this]
    · simp at h
  | .node span cut kids, h => by
    unfold search at h
    split at h
    · exact (by simpa [Hit] using searchKids_sound off id kids h)
    · simp at h
theorem searchKids_sound (off id : Nat) : ∀ ks, searchKids off ks = some id → HitL off id ks
  | [], h => by simp [searchKids] at h
  | k :: ks, h => by
    unfold searchKids at h
    split at h
    · rename_i r hr
      simp at h
      subst h
      exact Or.inl (search_sound off r k hr)
    · split at h
      · simp at h
      · exact Or.inr (searchKids_sound off id ks h)
end

mutual
theorem search_complete (off id : Nat) : ∀ t, Nested t → CutOK t → Hit off id t → ∃ r, search off t = some r
  | .ident lo hi i, _, _, h => by
    simp [Hit] at h
    refine ⟨i, ?_⟩
    unfold search
    have : inSpan (some (lo, hi)) off = true := (inSpan_some lo hi off).2 ⟨h.2.1, h.2.2⟩
    simp [this]
  | .node span cut kids, hn, hc, h => by
    simp only [Nested] at hn
    simp only [CutOK] at hc
    simp only [Hit] at h
    have hs := hn.1 off id h
    obtain ⟨r, hr⟩ := searchKids_complete off id kids hn.2 hc h
    exact ⟨r, by unfold search; simp [hs, hr]⟩
theorem searchKids_complete (off id : Nat) :
    ∀ ks, NestedL ks → CutOKL ks → HitL off id ks → ∃ r, searchKids off ks = some r
  | [], _, _, h => by simp [HitL] at h
  | k :: ks, hn, hc, h => by
    simp only [NestedL] at hn
    simp only [CutOKL] at hc
    simp only [HitL] at h
    unfold searchKids
    cases hk : search off k with
    | some r => exact ⟨r, rfl⟩
    | none =>
      have hks : HitL off id ks := by
        rcases h with h | h
        · obtain ⟨r, hr⟩ := search_complete off id k hn.1 hc.1 h
          rw [hk] at hr; cases hr
        · exact h
      cases hcut : k.cuts off with
      | true => exact absurd hks (hc.2.1 off id hcut)
      | false =>
        obtain ⟨r, hr⟩ := searchKids_complete off id ks hn.2 hc.2.2 hks
        exact ⟨r, by simp [hr]⟩
end

/-- The identifier search returns exactly the identifier whose span contains the offset. -/
theorem search_spec (t : STree) (hn : Nested t) (hc : CutOK t) (hu : Unique t) (off : Nat) :
    (∀ id, search off t = some id ↔ Hit off id t) ∧ (search off t = none ↔ ∀ id, ¬ Hit off id t) := by
  have fwd : ∀ id, search off t = some id → Hit off id t := fun id => search_sound off id t
  have bwd : ∀ id, Hit off id t → search off t = some id := by
    intro id h
    obtain ⟨r, hr⟩ := search_complete off id t hn hc h
    have := hu off r id (fwd r hr) h
    rw [hr, this]
  refine ⟨fun id => ⟨fwd id, bwd id⟩, ?_, ?_⟩
  · intro h id hh
    rw [bwd id hh] at h; cases h
  · intro h
    cases hs : search off t with
    | none => rfl
    | some r => exact absurd (fwd r hs) (h r)

/-! ## innermost-node search -/

mutual
/-- `id` is a node of `t` that can be returned and whose own span contains `off` -/
def Cand (off id : Nat) : ITree → Prop
  | .leaf lo hi i => i = id ∧ lo ≤ off ∧ off < hi
  | .node span self kids => (self = some id ∧ inSpan span off = true) ∨ CandL off id kids
def CandL (off id : Nat) : List ITree → Prop
  | [] => False
  | k :: ks => Cand off id k ∨ CandL off id ks
end

mutual
/-- children lie inside the parent's range -/
def NestedI : ITree → Prop
  | .leaf _ _ _ => True
  | .node span _ kids => (∀ off id, CandL off id kids → inSpan span off = true) ∧ NestedIL kids
def NestedIL : List ITree → Prop
  | [] => True
  | k :: ks => NestedI k ∧ NestedIL ks
end

mutual
/-- `id` is a node of `t` whose span contains `off` while no node below it does -/
def Innermost (off id : Nat) : ITree → Prop
  | .leaf lo hi i => i = id ∧ lo ≤ off ∧ off < hi
  | .node span self kids =>
    inSpan span off = true ∧ ((self = some id ∧ ∀ id', ¬ CandL off id' kids) ∨ InnermostL off id kids)
def InnermostL (off id : Nat) : List ITree → Prop
  | [] => False
  | k :: ks => Innermost off id k ∨ InnermostL off id ks
end

mutual
theorem searchI_none (off : Nat) : ∀ t, NestedI t → searchI off t = none → ∀ id, ¬ Cand off id t
  | .leaf lo hi i, _, h, id => by
    unfold searchI at h
    split at h
    · simp at h
    · rename_i hs
      intro hc
      simp only [Cand] at hc
      exact hs ((inSpan_some lo hi off).2 ⟨hc.2.1, hc.2.2⟩)
  | .node span self kids, hn, h, id => by
    simp only [NestedI] at hn
    unfold searchI at h
    intro hc
    simp only [Cand] at hc
    split at h
    · split at h
      · simp at h
      · rename_i hk
        rcases hc with ⟨hs, _⟩ | hc
        · rw [h] at hs; cases hs
        · exact searchKidsI_none off kids hn.2 hk id hc
    · rename_i hs
      rcases hc with ⟨_, hin⟩ | hc
      · exact hs hin
      · exact hs (hn.1 off id hc)
theorem searchKidsI_none (off : Nat) : ∀ ks, NestedIL ks → searchKidsI off ks = none → ∀ id, ¬ CandL off id ks
  | [], _, _, id => by simp [CandL]
  | k :: ks, hn, h, id => by
    simp only [NestedIL] at hn
    unfold searchKidsI at h
    split at h
    · simp at h
    · rename_i hk
      intro hc
      simp only [CandL] at hc
      rcases hc with hc | hc
      · exact searchI_none off k hn.1 hk id hc
      · exact searchKidsI_none off ks hn.2 h id hc
end

mutual
theorem searchI_sound (off id : Nat) : ∀ t, NestedI t → searchI off t = some id → Innermost off id t
  | .leaf lo hi i, _, h => by
    unfold searchI at h
    split at h
    · rename_i hs
      have := (inSpan_some lo hi off).1 hs
      simp at h
      simp [Innermost, h, this]
    · simp at h
  | .node span self kids, hn, h => by
    simp only [NestedI] at hn
    unfold searchI at h
    simp only [Innermost]
    split at h
    · rename_i hs
      refine ⟨hs, ?_⟩
      split at h
      · rename_i r hr
        simp at h; subst h
        exact Or.inr (searchKidsI_sound off r kids hn.2 hr)
      · rename_i hk
        exact Or.inl ⟨h, fun id' => searchKidsI_none off kids hn.2 hk id'⟩
    · simp at h
theorem searchKidsI_sound (off id : Nat) : ∀ ks, NestedIL ks → searchKidsI off ks = some id → InnermostL off id ks
  | [], _, h => by simp [searchKidsI] at h
  | k :: ks, hn, h => by
    simp only [NestedIL] at hn
    unfold searchKidsI at h
    simp only [InnermostL]
    split at h
    · rename_i r hr
      simp at h; subst h
      exact Or.inl (searchI_sound off r k hn.1 hr)
    · exact Or.inr (searchKidsI_sound off id ks hn.2 h)
end

/-- some node contains the offset → the search answers -/
theorem searchI_complete (off id : Nat) (t : ITree) (hn : NestedI t) (h : Cand off id t) :
    ∃ r, searchI off t = some r := by
  cases hs : searchI off t with
  | some r => exact ⟨r, rfl⟩
  | none => exact absurd h (searchI_none off t hn hs id)

mutual
/-- an innermost node is in particular a node whose span contains the offset -/
theorem Innermost.cand (off id : Nat) : ∀ t, Innermost off id t → Cand off id t
  | .leaf _ _ _, h => by simpa [Innermost, Cand] using h
  | .node span self kids, h => by
    simp only [Innermost] at h
    simp only [Cand]
    rcases h with ⟨hs, ⟨h1, _⟩ | h2⟩
    · exact Or.inl ⟨h1, hs⟩
    · exact Or.inr (InnermostL.cand off id kids h2)
theorem InnermostL.cand (off id : Nat) : ∀ ks, InnermostL off id ks → CandL off id ks
  | [], h => by simp [InnermostL] at h
  | k :: ks, h => by
    simp only [InnermostL] at h
    simp only [CandL]
    rcases h with h | h
    · exact Or.inl (Innermost.cand off id k h)
    · exact Or.inr (InnermostL.cand off id ks h)
end


/-! ## innermost-node search, without any hypothesis on the tree

`Reach off id t`: `id` is a node of `t` that can answer, whose own span AND the spans of all nodes above it
contain `off` (on a properly nested tree that is just "its span contains `off`", see `reach_iff_cand`). -/

mutual
def Reach (off id : Nat) : ITree → Prop
  | .leaf lo hi i => i = id ∧ lo ≤ off ∧ off < hi
  | .node span self kids => inSpan span off = true ∧ (self = some id ∨ ReachL off id kids)
def ReachL (off id : Nat) : List ITree → Prop
  | [] => False
  | k :: ks => Reach off id k ∨ ReachL off id ks
end

mutual
/-- `id` is reachable at `off` and no node below it is -/
def InnermostR (off id : Nat) : ITree → Prop
  | .leaf lo hi i => i = id ∧ lo ≤ off ∧ off < hi
  | .node span self kids =>
    inSpan span off = true ∧ ((self = some id ∧ ∀ id', ¬ ReachL off id' kids) ∨ InnermostRL off id kids)
def InnermostRL (off id : Nat) : List ITree → Prop
  | [] => False
  | k :: ks => InnermostR off id k ∨ InnermostRL off id ks
end

mutual
theorem searchI_none_reach (off : Nat) : ∀ t, searchI off t = none → ∀ id, ¬ Reach off id t
  | .leaf lo hi i, h, id => by
    unfold searchI at h
    split at h
    · simp at h
    · rename_i hs
      intro hc
      simp only [Reach] at hc
      exact hs ((inSpan_some lo hi off).2 ⟨hc.2.1, hc.2.2⟩)
  | .node span self kids, h, id => by
    unfold searchI at h
    intro hc
    simp only [Reach] at hc
    split at h
    · split at h
      · simp at h
      · rename_i hk
        rcases hc.2 with hs | hc'
        · rw [h] at hs; cases hs
        · exact searchKidsI_none_reach off kids hk id hc'
    · rename_i hs
      exact hs hc.1
theorem searchKidsI_none_reach (off : Nat) : ∀ ks, searchKidsI off ks = none → ∀ id, ¬ ReachL off id ks
  | [], _, id => by simp [ReachL]
  | k :: ks, h, id => by
    unfold searchKidsI at h
    split at h
    · simp at h
    · rename_i hk
      intro hc
      simp only [ReachL] at hc
      rcases hc with hc | hc
      · exact searchI_none_reach off k hk id hc
      · exact searchKidsI_none_reach off ks h id hc
end

mutual
theorem searchI_sound_reach (off id : Nat) : ∀ t, searchI off t = some id → InnermostR off id t
  | .leaf lo hi i, h => by
    unfold searchI at h
    split at h
    · rename_i hs
      have := (inSpan_some lo hi off).1 hs
      simp at h
      simp [InnermostR, h, this]
    · simp at h
  | .node span self kids, h => by
    unfold searchI at h
    simp only [InnermostR]
    split at h
    · rename_i hs
      refine ⟨hs, ?_⟩
      split at h
      · rename_i r hr
        simp at h; subst h
        exact Or.inr (searchKidsI_sound_reach off r kids hr)
      · rename_i hk
        exact Or.inl ⟨h, fun id' => searchKidsI_none_reach off kids hk id'⟩
    · simp at h
theorem searchKidsI_sound_reach (off id : Nat) : ∀ ks, searchKidsI off ks = some id → InnermostRL off id ks
  | [], h => by simp [searchKidsI] at h
  | k :: ks, h => by
    unfold searchKidsI at h
    simp only [InnermostRL]
    split at h
    · rename_i r hr
      simp at h; subst h
      exact Or.inl (searchI_sound_reach off r k hr)
    · exact Or.inr (searchKidsI_sound_reach off id ks h)
end

mutual
theorem InnermostR.reach (off id : Nat) : ∀ t, InnermostR off id t → Reach off id t
  | .leaf _ _ _, h => by simpa [InnermostR, Reach] using h
  | .node span self kids, h => by
    simp only [InnermostR] at h
    simp only [Reach]
    rcases h with ⟨hs, ⟨h1, _⟩ | h2⟩
    · exact ⟨hs, Or.inl h1⟩
    · exact ⟨hs, Or.inr (InnermostRL.reach off id kids h2)⟩
theorem InnermostRL.reach (off id : Nat) : ∀ ks, InnermostRL off id ks → ReachL off id ks
  | [], h => by simp [InnermostRL] at h
  | k :: ks, h => by
    simp only [InnermostRL] at h
    simp only [ReachL]
    rcases h with h | h
    · exact Or.inl (InnermostR.reach off id k h)
    · exact Or.inr (InnermostRL.reach off id ks h)
end

mutual
/-- on a properly nested tree "reachable" is just "its span contains the offset" -/
theorem reach_iff_cand (off id : Nat) : ∀ t, NestedI t → (Reach off id t ↔ Cand off id t)
  | .leaf _ _ _, _ => by simp [Reach, Cand]
  | .node span self kids, hn => by
    simp only [NestedI] at hn
    simp only [Reach, Cand]
    rw [reachL_iff_candL off id kids hn.2]
    constructor
    · rintro ⟨hs, h | h⟩
      · exact Or.inl ⟨h, hs⟩
      · exact Or.inr h
    · rintro (⟨h, hs⟩ | h)
      · exact ⟨hs, Or.inl h⟩
      · exact ⟨hn.1 off id h, Or.inr h⟩
theorem reachL_iff_candL (off id : Nat) : ∀ ks, NestedIL ks → (ReachL off id ks ↔ CandL off id ks)
  | [], _ => by simp [ReachL, CandL]
  | k :: ks, hn => by
    simp only [NestedIL] at hn
    simp only [ReachL, CandL]
    rw [reach_iff_cand off id k hn.1, reachL_iff_candL off id ks hn.2]
end

end Abra.SpanTree
