import AbraModel.Drv.Util
import AbraModel.Drv.I64
import AbraModel.Drv.GC
import AbraModel.Drv.GCPacing
import AbraModel.Drv.Arena
import AbraModel.Drv.IdSet
import AbraModel.Drv.Marshal
import AbraModel.Drv.Sort
import AbraModel.Drv.CallOrder
import AbraModel.Drv.Pratt
import AbraModel.Drv.PrattPrint
import AbraModel.Drv.TopLevel
import AbraModel.Drv.Lex
import AbraModel.Drv.StrOps
import AbraModel.Drv.SrcMap
import AbraModel.Drv.Sched
import AbraModel.Drv.Heap
import AbraModel.Drv.PatMatrix
import AbraModel.Drv.Sem
import AbraModel.Drv.Compile
import AbraModel.Drv.TryLower
import AbraModel.Drv.Analysis
import AbraModel.Drv.Pending
import AbraModel.Drv.Arr
import AbraModel.Drv.F64
import AbraModel.Drv.Opt
import AbraModel.Drv.Names
import AbraModel.Drv.PreludeCmp
import AbraModel.Drv.Render
import AbraModel.Drv.HashMap
import AbraModel.Drv.Assign
import AbraModel.Drv.SpanTree
import AbraModel.Drv.PatCompile
import AbraModel.Drv.Mono
/- Line-protocol model driver: one request per input line (`<component> <args…>`), one answer per line. -/
open Abra.Drv

def dispatch (line : String) : String :=
  match words line with
  | [] => "bad-op"
  | "i64" :: rest => handleI64 rest
  | "gc" :: rest => handleGC rest
  | "gcp" :: rest => handleGCP rest
  | "arena" :: rest => handleArena rest
  | "idset" :: rest => handleIdSet rest
  | "marshal" :: rest => handleMarshal rest
  | "sort" :: rest => handleSort rest
  | "callorder" :: rest => handleCallOrder rest
  | "pratt" :: rest => handlePratt rest
  | "prattfix" :: rest => handlePrattFix rest
  | "prattfold" :: rest => handlePrattFold rest
  | "prattprint" :: rest => handlePrattPrint rest
  | "toplevel" :: rest => handleTopLevel rest
  | "lex" :: rest => handleLex true rest
  | "lexkinds" :: rest => handleLex false rest
  | "intlit" :: rest => handleIntLit rest
  | "escape" :: rest => handleEscape rest
  | "str" :: rest => handleStr rest
  | "srcmap" :: rest => handleSrcMap rest
  | "sched" :: rest => handleSched rest
  | "hostcall" :: rest => handleHostCall rest
  | "heapcopy" :: rest => handleHeapCopy rest
  | "heapalias" :: rest => handleHeapAlias rest
  | "heapsend" :: rest => handleHeapSend rest
  | "pm" :: rest => handlePatMatrix rest
  | "pc" :: rest => handlePatCompile rest
  | "sem" :: rest => handleSem rest
  | "cgen" :: rest => handleCgen rest
  | "vmrun" :: rest => handleVmRun rest
  | "prelude" :: rest => handlePrelude rest
  | "trylower" :: rest => handleTryLower rest
  | "trycompat" :: rest => handleTryCompat rest
  | "analysis" :: rest => handleAnalysis rest
  | "loopctx" :: rest => handleLoopCtx rest
  | "pending" :: rest => handlePending rest
  | "arr" :: rest => handleArr rest
  | "f64" :: rest => handleF64 rest
  | "opt" :: rest => handleOpt rest
  | "names" :: rest => handleNames rest
  | "cmp24" :: rest => handleCmp24 rest
  | "cmp24m" :: rest => handleCmp24m rest
  | "render" :: rest => handleRender rest
  | "hmap" :: rest => handleHMap rest
  | "assign" :: rest => handleAssign rest
  | "assignat" :: rest => handleAssignAt rest
  | "spantree" :: rest => handleSpanTree rest
  | "mono" :: rest => handleMono rest
  | "monov" :: rest => handleMonoV rest
  | "monoop" :: rest => handleMonoOp rest
  | "monolabel" :: rest => handleMonoLabel rest
  | _ => "bad-op"

partial def loop (h : IO.FS.Stream) (out : IO.FS.Stream) : IO Unit := do
  let line ← h.getLine
  if line.isEmpty then return ()
  out.putStrLn (dispatch line)
  loop h out

def main : IO Unit := do
  let out ← IO.getStdout
  loop (← IO.getStdin) out
  out.flush
