/-!
# M13 `Mono` — monomorphisation environment, impl selection, function labels

Follows translate_bytecode.rs: `MonomorphEnv::update`, `Type::subst`,
`extract_impl_ty_from_overloaded_func_ty_helper`, `translate_iface_method_call_helper`,
`get_func_label`; statics.rs `get_iface_impl_for_type`; typecheck.rs `SolvedType::key`,
`TypeKey::fits_impl_ty` — on a small type language with the shape of `SolvedType`.

`poly 0` plays the role of `Poly(InterfaceSelf)`, `poly (n+1)` of an ordinary type variable.
The method of the selected implementation is looked up by *name* (D48, repaired in /repo); the
positional lookup the code used before that repair is kept as `methodByPosition`.
-/
namespace Abra.Mono

inductive Ty where
  | int | float | bool | string | void
  | poly (p : Nat)
  | nominal (n : Nat) (params : List Ty)      -- array / channel / struct / enum with type arguments
  | func (args : List Ty) (out : Ty)
  | tuple (elems : List Ty)
deriving Repr

/-- `Environment<PolytypeDeclaration, Type>`: latest binding first -/
abbrev Env := List (Nat × Ty)

def Env.lookup : Env → Nat → Option Ty
  | [], _ => none
  | (q, t) :: rest, p => if q = p then some t else Env.lookup rest p

def Env.extend (env : Env) (p : Nat) (t : Ty) : Env := (p, t) :: env

mutual
/-- `MonomorphEnv::update(overloaded_ty, monomorphic_ty)` -/
def update (env : Env) : Ty → Ty → Env
  | .func args out, .func args2 out2 => update (updateList env args args2) out out2
  | .nominal _ ps, .nominal _ ps2 => updateList env ps ps2
  | .poly p, t => env.extend p t
  | .tuple es, .tuple es2 => updateList env es es2
  | _, _ => env

def updateList (env : Env) : List Ty → List Ty → Env
  | a :: as, b :: bs => updateList (update env a b) as bs
  | _, _ => env
end

mutual
/-- `Type::subst(monomorphic_env)` -/
def subst (env : Env) : Ty → Ty
  | .func args out => .func (substList env args) (subst env out)
  | .nominal n ps => .nominal n (substList env ps)
  | .poly p =>
    match env.lookup p with
    | some t => t
    | none => .poly p
  | .tuple es => .tuple (substList env es)
  | t => t

def substList (env : Env) : List Ty → List Ty
  | [] => []
  | t :: ts => subst env t :: substList env ts
end

/-- is this the interface's `Self`? -/
def isSelf : Ty → Bool
  | .poly 0 => true
  | _ => false

/-- first argument position holding `Self` in the method signature → that component of the instance -/
def firstSelf : List Ty → List Ty → Option Ty
  | a :: as, b :: bs => if isSelf a then some b else firstSelf as bs
  | _, _ => none

/-- `extract_impl_ty_from_overloaded_func_ty_helper(method_signature, overloaded_ty)`;
    `none` where the real code hits `unreachable!()` -/
def extractImplTy : Ty → Ty → Option Ty
  | .func args out, .func args2 out2 =>
    match firstSelf args args2 with
    | some t => some t
    | none => if isSelf out then some out2 else none
  | _, _ => none

/-- `TypeKey` -/
inductive Key where
  | int | float | bool | string | void
  | poly (p : Nat)
  | nominal (n : Nat)
  | func (nargs : Nat)
  | tuple (nelems : Nat)
deriving DecidableEq, Repr

/-- `SolvedType::key` -/
def Ty.key : Ty → Key
  | .int => .int | .float => .float | .bool => .bool | .string => .string | .void => .void
  | .poly p => .poly p
  | .nominal n _ => .nominal n
  | .func args _ => .func args.length
  | .tuple es => .tuple es.length

/-- `TypeKey::fits_impl_ty(impl_ty)` -/
def fits : Key → Ty → Bool
  | .int, .int => true
  | .bool, .bool => true
  | .float, .float => true
  | .string, .string => true
  | .void, .void => true
  | .tuple n, .tuple es => n = es.length
  | .func n, .func args _ => n = args.length
  | .nominal n, .nominal m _ => n = m
  | _, _ => false

/-- `get_iface_impl_for_type`: the first implementation (in declaration order) that fits -/
def selectImpl : List Ty → Key → Option Nat
  | [], _ => none
  | t :: ts, k => if fits k t then some 0 else (selectImpl ts k).map (· + 1)

/-- the method of the chosen implementation: by the *name* of the interface's method `idx` -/
def methodByName {ν : Type} [DecidableEq ν] (ifaceMethods : List ν) (implMethods : List ν) (idx : Nat) :
    Option Nat :=
  match ifaceMethods[idx]? with
  | some name => implMethods.findIdx? (· = name)
  | none => none

/-- the code before the D48 repair: `imp.methods[method_index]` -/
def methodByPosition {ν : Type} (implMethods : List ν) (idx : Nat) : Option Nat :=
  if idx < implMethods.length then some idx else none

/-- the whole chain of `translate_iface_method_call_helper` inside a function generated for the
    instance `inst` of a function with signature `sig`:
    overloaded method type ↦ subst ↦ extract the `Self` component ↦ key ↦ implementation -/
def selectFor (impls : List Ty) : Option Ty → Option Nat
  | some t => selectImpl impls t.key
  | none => none

def dispatch (sig inst msig callTy : Ty) (impls : List Ty) : Option Nat :=
  selectFor impls (extractImplTy msig (subst (update [] sig inst) callTy))

/-- An interface method used as a function VALUE (`let f = Iface.m`, an argument of a higher-order
    function, an array element …; `translate_declaration`, `Declaration::InterfaceMethod`): the
    closure is built for the implementation selected exactly as for a call, from the value's
    (instantiated) function type — and the method is the one with the interface method's name. -/
def dispatchValue (sig inst msig valueTy : Ty) (impls : List Ty) : Option Nat :=
  selectFor impls (extractImplTy msig (subst (update [] sig inst) valueTy))

def methodOfValue {ν : Type} [DecidableEq ν] (ifaceMethods implMethods : List ν) (idx : Nat) : Option Nat :=
  match ifaceMethods[idx]? with
  | some name => implMethods.findIdx? (· = name)
  | none => none

/-! ### the monotype component of a label

What the code does: the label TEXT is `func_name__%{monoty}…__#<counter>`, and `Display for Monotype`
prints a nominal type by its UNQUALIFIED name (`nominal.name()`), so the text before the counter can
coincide for two types called `Item` in two modules.  Labels are nevertheless distinct per
instantiation because (a) `func_map` is keyed by the descriptor `FuncDesc`, whose `overload_ty` holds
the type itself (a nominal type is identified by its declaration), and (b) `make_label` appends a
process-wide counter to every new label.
What the model's code denotes: `Ty.code` is NOT the printed text; it is a prefix code of the
descriptor's type in which a nominal type contributes its declaration id `n` (two same-named types in
two modules are two ids).  `Ty.codeBy short` is the coding that identifies a nominal type by
`short n` instead (e.g. by its unqualified name, which is what a label without the counter and
keyed by the printed text would amount to). -/

mutual
def Ty.codeBy (short : Nat → Nat) : Ty → List Nat
  | .int => [0] | .float => [1] | .bool => [2] | .string => [3] | .void => [4]
  | .poly p => [5, p]
  | .nominal n ps => 6 :: short n :: ps.length :: Ty.codeListBy short ps
  | .func args out => 7 :: args.length :: (Ty.codeListBy short args ++ Ty.codeBy short out)
  | .tuple es => 8 :: es.length :: Ty.codeListBy short es

def Ty.codeListBy (short : Nat → Nat) : List Ty → List Nat
  | [] => []
  | t :: ts => Ty.codeBy short t ++ Ty.codeListBy short ts
end

/-- the qualified rendering: a nominal type is named by its declaration -/
def Ty.code (t : Ty) : List Nat := Ty.codeBy id t

/-! ### labels (`get_func_label`, `make_label`) -/

/-- `FuncDesc`: the function (or lambda / task block), its monotype (if its own type is overloaded)
    and, for a lambda or task, what it captures: the rendering of each capture's concrete type in
    this instantiation (`capture_types_concrete`) and whether its declared type mentions a type
    parameter (`capture_types[i].is_overloaded()`) -/
structure Desc where
  func : Nat
  mono : Option (List Nat)          -- `Ty.code` of the monotype
  captures : List (List Nat × Bool) -- `Ty.code` of each capture's concrete type, and `is_overloaded` of its declared type
deriving DecidableEq, Repr

/-- `captures_overloaded`: ANY captured variable has an overloaded declared type -/
def Desc.capturesOverloaded (d : Desc) : Bool := d.captures.any (·.2)

/-- the function keeps its plain name: own type not overloaded and no overloaded capture -/
def Desc.plain (d : Desc) : Bool := d.mono.isNone && !d.capturesOverloaded

/-- a label: the hint and the process-wide counter value appended by `make_label`
    (`None` for a plain function, whose label is its fully qualified name) -/
structure Label where
  hint : Nat × Option (List Nat) × List (List Nat)
  id : Option Nat
deriving DecidableEq, Repr

structure LabelState where
  map : List (Desc × Label)    -- `func_map`
  counter : Nat                -- `ID_COUNTER`

def LabelState.find (st : LabelState) (d : Desc) : Option Label :=
  (st.map.find? (fun e => e.1 = d)).map (·.2)

/-- `get_func_label`: `None if !captures_overloaded => func_name`, otherwise
    `func_name__%monoty__%capture,types__#id` -/
def getLabel (st : LabelState) (d : Desc) : Label × LabelState :=
  match st.find d with
  | some l => (l, st)
  | none =>
    if d.plain then
      let l : Label := { hint := (d.func, none, []), id := none }
      (l, { st with map := (d, l) :: st.map })
    else
      let l : Label := { hint := (d.func, d.mono, d.captures.map (·.1)), id := some st.counter }
      (l, { map := (d, l) :: st.map, counter := st.counter + 1 })

/-! ### operators on non-builtin types (`translate_expr` BinOp / compound assignment) -/

inductive Oper where
  | add | sub | mul | div | pow         -- + - * / ^
  | lt | le | gt | ge                   -- < <= > >=
  | eq | ne                             -- == !=
  | concat                              -- ..
deriving DecidableEq, Repr

/-- interface and method an operator is lowered to when the operand type is not a builtin scalar:
    `helper(mono, "prelude.Num.add")` … (`!=` is `Equal.equal` followed by `Not`, `..` converts both
    operands with `ToString.str`) -/
def Oper.method : Oper → String × String
  | .add => ("Num", "add") | .sub => ("Num", "subtract") | .mul => ("Num", "multiply")
  | .div => ("Num", "divide") | .pow => ("Num", "power")
  | .lt => ("Ord", "less_than") | .le => ("Ord", "less_than_or_equal")
  | .gt => ("Ord", "greater_than") | .ge => ("Ord", "greater_than_or_equal")
  | .eq => ("Equal", "equal") | .ne => ("Equal", "equal")
  | .concat => ("ToString", "str")

/-- the operators that have a compound-assignment form (`+= -= *= /=`; `%=` is int only) -/
def Oper.compound : Oper → Bool
  | .add | .sub | .mul | .div => true
  | _ => false

/-- `x op= v` on a user type: LoadOffset / index_get, rhs, then the same interface method as `x op v` -/
def compoundMethod (o : Oper) : Option (String × String) :=
  if o.compound then some o.method else none

/-- position of a method in its prelude interface -/
def ifaceMethods : String → List String
  | "Num" => ["add", "subtract", "multiply", "divide", "power"]
  | "Ord" => ["less_than", "less_than_or_equal", "greater_than", "greater_than_or_equal"]
  | "Equal" => ["equal"]
  | "ToString" => ["str"]
  | _ => []

/-- the descriptor of generic function `f` instantiated at the type `t` -/
def descOf (f : Nat) (t : Ty) : Desc := { func := f, mono := some t.code, captures := [] }

/-- the labels two instantiations of one function get when requested one after the other -/
def twoLabels (f : Nat) (t1 t2 : Ty) : Label × Label :=
  let r1 := getLabel { map := [], counter := 1 } (descOf f t1)
  let r2 := getLabel r1.2 (descOf f t2)
  (r1.1, r2.1)

end Abra.Mono
