import AbraModel.Int64
/-
M7 — `Abra.Sem`: deep embedding of core Abra and a fuel-based big-step reference interpreter, written
from the language reference (/repo/book/src/language_reference): left-to-right evaluation of operands
and arguments, short-circuit `and`/`or`, block scoping with shadowing, arrays and structs with reference
semantics (a heap), tuples/enum values immutable, integers as `Abra.I64` (exact or the documented error),
closures capture the values of the enclosing bindings at creation, `?`/`!` on option/result.

The AST is the one the harness generator owns (it is *not* produced by the real parser/resolver/checker).
`fuel` bounds the recursion depth (every recursive call spends one unit; a loop iteration is one call),
so every function here is structurally recursive on the fuel.

Places where the reference is silent and the interpreter follows the code (see props/C02.py assumptions):
  * `o.f = e` evaluates `e` before `o`; compound forms and `a[i] = e` evaluate the target first;
  * in `f(args)` where `f` is an expression, the arguments are evaluated before `f`;
  * `break`/`continue` in the condition of a `while` refer to the enclosing loop;
  * `for x in arr` re-reads the array's length on every iteration.
-/
namespace Abra.Sem

inductive UnOp where
  | neg | not
  deriving DecidableEq, Repr, Inhabited

inductive BinOp where
  | add | sub | mul | div | mod | pow
  | lt | le | gt | ge | eq | ne
  | and | or | concat
  deriving DecidableEq, Repr, Inhabited

inductive AsgOp where
  | set | add | sub | mul | div | mod
  deriving DecidableEq, Repr, Inhabited

inductive Pat where
  | wild
  | bind (x : String)
  | int (n : Int)
  | bool (b : Bool)
  | str (s : String)
  | unit
  | tuple (ps : List Pat)
  | struct_ (name : String) (ps : List Pat)
  | variant (ctor : String) (ps : List Pat)
  deriving Repr, Inhabited

mutual
inductive Expr where
  | int (n : Int)
  | bool (b : Bool)
  | str (s : String)
  | unit
  | var (x : String)
  | un (op : UnOp) (e : Expr)
  | bin (op : BinOp) (a b : Expr)
  | ite (c t e : Expr)
  | block (ss : Stmts)
  | print (e : Expr)
  | tuple (es : Exprs)
  | mkStruct (name : String) (es : Exprs)
  | field (e : Expr) (f : String)
  | mkVariant (ctor : String) (es : Exprs)
  | matchE (e : Expr) (arms : Arms)
  | array (es : Exprs)
  | index (a i : Expr)
  | len (a : Expr)
  | push (a v : Expr)
  | pop (a : Expr)
  | call (f : String) (args : Exprs)
  | callv (f : Expr) (args : Exprs)
  | lam (params : List String) (body : Expr)
  /-- a top-level function used as a value (`let f = twice`, `[twice, twice]`, `apply(twice)`) -/
  | fnref (f : String)
  /-- a struct name used as a value: its constructor function (`let mk = Pt`) -/
  | mkref (name : String)
  | try_ (e : Expr)
  | unwrap (e : Expr)
  | panic (msg : Expr)
inductive Stmt where
  | let_ (p : Pat) (e : Expr)
  | assign (x : String) (op : AsgOp) (e : Expr)
  | assignField (obj : Expr) (f : String) (op : AsgOp) (e : Expr)
  | assignIndex (a i : Expr) (op : AsgOp) (e : Expr)
  | expr (e : Expr)
  | while_ (c : Expr) (body : Stmts)
  | for_ (p : Pat) (it : Expr) (body : Stmts)
  | break_
  | continue_
  | ret (e : Expr)
inductive Stmts where
  | nil
  | cons (s : Stmt) (rest : Stmts)
inductive Exprs where
  | nil
  | cons (e : Expr) (rest : Exprs)
inductive Arms where
  | nil
  | cons (p : Pat) (body : Expr) (rest : Arms)
end

instance : Inhabited Expr := ⟨.unit⟩
instance : Inhabited Stmt := ⟨.break_⟩
instance : Inhabited Stmts := ⟨.nil⟩
instance : Inhabited Exprs := ⟨.nil⟩
instance : Inhabited Arms := ⟨.nil⟩

def Stmts.ofList : List Stmt → Stmts
  | [] => .nil
  | s :: r => .cons s (Stmts.ofList r)
def Exprs.ofList : List Expr → Exprs
  | [] => .nil
  | s :: r => .cons s (Exprs.ofList r)
def Arms.ofList : List (Pat × Expr) → Arms
  | [] => .nil
  | (p, e) :: r => .cons p e (Arms.ofList r)

inductive Val where
  | int (n : Int)
  | bool (b : Bool)
  | str (s : String)
  | unit
  | tuple (vs : List Val)
  | variant (ctor : String) (vs : List Val)
  | ref (a : Nat)
  | clo (params : List String) (body : Expr) (env : List (String × Val))
  deriving Inhabited

abbrev Env := List (String × Val)

inductive Obj where
  | arr (vs : List Val)
  | struct_ (name : String) (vs : List Val)
  deriving Inhabited

/-- runtime error kinds (vm.rs `VmErrorKind` user errors) -/
inductive Err where
  | overflow | divZero | oob | panic
  deriving DecidableEq, Repr, Inhabited

structure St where
  env : Env
  heap : Array Obj
  out : List String          -- printed chunks, most recent first
  deriving Inhabited

inductive Sig where
  | err (k : Err)
  | brk
  | cont
  | ret (v : Val)
  deriving Inhabited

inductive Res (α : Type) where
  | ok (a : α) (s : St)
  | sig (g : Sig) (s : St)
  | timeout
  | stuck (why : String)
  deriving Inhabited

@[inline] def Res.bind {α β : Type} (r : Res α) (f : α → St → Res β) : Res β :=
  match r with
  | .ok a s => f a s
  | .sig g s => .sig g s
  | .timeout => .timeout
  | .stuck w => .stuck w

/-- leave a scope: drop the bindings added since the environment had `len` entries -/
def St.popTo (s : St) (len : Nat) : St := { s with env := s.env.drop (s.env.length - len) }

def Res.popTo {α : Type} (r : Res α) (len : Nat) : Res α :=
  match r with
  | .ok a s => .ok a (s.popTo len)
  | .sig g s => .sig g (s.popTo len)
  | .timeout => .timeout
  | .stuck w => .stuck w

def Res.withEnv {α : Type} (r : Res α) (env : Env) : Res α :=
  match r with
  | .ok a s => .ok a { s with env := env }
  | .sig g s => .sig g { s with env := env }
  | .timeout => .timeout
  | .stuck w => .stuck w

def lookup : Env → String → Option Val
  | [], _ => none
  | (y, v) :: r, x => if x = y then some v else lookup r x

/-- assignment updates the innermost binding of the name -/
def update : Env → String → Val → Option Env
  | [], _, _ => none
  | (y, w) :: r, x, v =>
    if x = y then some ((y, v) :: r)
    else match update r x v with
      | some r' => some ((y, w) :: r')
      | none => none

structure FnDef where
  name : String
  params : List String
  body : Expr
  deriving Inhabited

structure StructDef where
  name : String
  fields : List String
  deriving Inhabited

structure Prog where
  structs : List StructDef
  fns : List FnDef
  main : Stmts
  deriving Inhabited

def Prog.findFn (P : Prog) (f : String) : Option FnDef := P.fns.find? (·.name = f)
def Prog.findStruct (P : Prog) (sname : String) : Option StructDef := P.structs.find? (·.name = sname)
def Prog.fieldIdx (P : Prog) (sname f : String) : Option Nat :=
  match P.structs.find? (·.name = sname) with
  | some d => d.fields.idxOf? f
  | none => none

def ofOut (o : I64.Out) (s : St) : Res Val :=
  match o with
  | .val n => .ok (.int n) s
  | .overflow => .sig (.err .overflow) s
  | .divZero => .sig (.err .divZero) s

def unop (op : UnOp) (v : Val) (s : St) : Res Val :=
  match op, v with
  | .neg, .int n => ofOut (I64.neg n) s
  | .not, .bool b => .ok (.bool (!b)) s
  | _, _ => .stuck "unop"

def allEq (f : Val → Val → Option Bool) : List Val → List Val → Option Bool
  | [], [] => some true
  | a :: as, b :: bs =>
    match f a b with
    | some true => allEq f as bs
    | some false => some false
    | none => none
  | _, _ => none

def mapOpt {α β : Type} (f : α → Option β) : List α → Option (List β)
  | [] => some []
  | a :: r => match f a, mapOpt f r with
    | some b, some bs => some (b :: bs)
    | _, _ => none

/-- structural equality on the types that implement `Equal` in the prelude (ints, bools, strings,
    void, tuples of those) -/
def valEq : Nat → Val → Val → Option Bool
  | 0, _, _ => none
  | _ + 1, .int a, .int b => some (a == b)
  | _ + 1, .bool a, .bool b => some (a == b)
  | _ + 1, .str a, .str b => some (a == b)
  | _ + 1, .unit, .unit => some true
  | n + 1, .tuple as, .tuple bs => allEq (valEq n) as bs
  | _ + 1, _, _ => none

/-- `ToString.str` of the prelude for the printable types -/
def render : Nat → Array Obj → Val → Option String
  | 0, _, _ => none
  | _ + 1, _, .int n => some (toString n)
  | _ + 1, _, .bool b => some (if b then "true" else "false")
  | _ + 1, _, .str s => some s
  | _ + 1, _, .unit => some "nil"
  | n + 1, h, .tuple vs =>
    match mapOpt (render n h) vs with
    | some parts => some ("(" ++ ", ".intercalate parts ++ ")")
    | none => none
  | n + 1, h, .variant c vs =>
    match c, vs with
    | "some", [v] => (render n h v).map fun a => "some(" ++ a ++ ")"
    | "none", [] => some "none"
    | "ok", [v] => (render n h v).map fun a => "ok(" ++ a ++ ")"
    | "err", [v] => (render n h v).map fun a => "err(" ++ a ++ ")"
    | _, _ => none
  | n + 1, h, .ref a =>
    match h[a]? with
    | some (.arr vs) =>
      match mapOpt (render n h) vs with
      | some parts => some ("[ " ++ ", ".intercalate parts ++ " ]")
      | none => none
    | _ => none
  | _ + 1, _, .clo .. => none

def cmpInt (op : BinOp) (a b : Int) : Option Bool :=
  match op with
  | .lt => some (decide (a < b))
  | .le => some (decide (a ≤ b))
  | .gt => some (decide (a > b))
  | .ge => some (decide (a ≥ b))
  | _ => none

/-- strict lexicographic order on byte strings -/
def bytesLt : List UInt8 → List UInt8 → Bool
  | [], [] => false
  | [], _ :: _ => true
  | _ :: _, [] => false
  | a :: as, b :: bs => if a < b then true else if b < a then false else bytesLt as bs

/-- strict binary operators (both operands already evaluated, left first) -/
def binop (fuel : Nat) (op : BinOp) (a b : Val) (s : St) : Res Val :=
  match op, a, b with
  | .add, .int x, .int y => ofOut (I64.add x y) s
  | .sub, .int x, .int y => ofOut (I64.sub x y) s
  | .mul, .int x, .int y => ofOut (I64.mul x y) s
  | .div, .int x, .int y => ofOut (I64.div x y) s
  | .mod, .int x, .int y => ofOut (I64.mod x y) s
  | .pow, .int x, .int y => ofOut (I64.pow x y) s
  | .lt, .int x, .int y => .ok (.bool (decide (x < y))) s
  | .le, .int x, .int y => .ok (.bool (decide (x ≤ y))) s
  | .gt, .int x, .int y => .ok (.bool (decide (x > y))) s
  | .ge, .int x, .int y => .ok (.bool (decide (x ≥ y))) s
  -- strings: lexicographic by bytes, a proper prefix is smaller (operators.md: `"apple" < "banana"`)
  | .lt, .str x, .str y => .ok (.bool (bytesLt x.toUTF8.toList y.toUTF8.toList)) s
  | .le, .str x, .str y => .ok (.bool (!bytesLt y.toUTF8.toList x.toUTF8.toList)) s
  | .gt, .str x, .str y => .ok (.bool (bytesLt y.toUTF8.toList x.toUTF8.toList)) s
  | .ge, .str x, .str y => .ok (.bool (!bytesLt x.toUTF8.toList y.toUTF8.toList)) s
  | .eq, x, y => match valEq fuel x y with
    | some r => .ok (.bool r) s
    | none => .stuck "eq"
  | .ne, x, y => match valEq fuel x y with
    | some r => .ok (.bool (!r)) s
    | none => .stuck "ne"
  | .concat, x, y => match render fuel s.heap x, render fuel s.heap y with
    | some p, some q => .ok (.str (p ++ q)) s
    | _, _ => .stuck "concat"
  | _, _, _ => .stuck "binop"

def asgBin : AsgOp → Option BinOp
  | .set => none
  | .add => some .add
  | .sub => some .sub
  | .mul => some .mul
  | .div => some .div
  | .mod => some .mod

def bindParams : List String → List Val → Env → Option Env
  | [], [], env => some env
  | p :: ps, v :: vs, env => bindParams ps vs ((p, v) :: env)
  | _, _, _ => none

/-- pattern matching: `some bindings` (innermost last) when the value has the pattern's shape -/
def matchPat : Nat → Array Obj → Pat → Val → Option (Option Env)
  | 0, _, _, _ => none
  | _ + 1, _, .wild, _ => some (some [])
  | _ + 1, _, .bind x, v => some (some [(x, v)])
  | _ + 1, _, .int n, .int m => some (if n = m then some [] else none)
  | _ + 1, _, .bool n, .bool m => some (if n = m then some [] else none)
  | _ + 1, _, .str n, .str m => some (if n = m then some [] else none)
  | _ + 1, _, .unit, .unit => some (some [])
  | n + 1, h, .tuple ps, .tuple vs => matchPats n h ps vs
  | n + 1, h, .variant c ps, .variant c' vs =>
    if c = c' then matchPats n h ps vs else some none
  | n + 1, h, .struct_ _ ps, .ref a =>
    match h[a]? with
    | some (.struct_ _ vs) => matchPats n h ps vs
    | _ => none
  | _ + 1, _, _, _ => none
where
  matchPats : Nat → Array Obj → List Pat → List Val → Option (Option Env)
    | _, _, [], [] => some (some [])
    | n, h, p :: ps, v :: vs =>
      match matchPat n h p v with
      | some (some b1) =>
        match matchPats n h ps vs with
        | some (some b2) => some (some (b2 ++ b1))
        | some none => some none
        | none => none
      | some none =>
        -- shape mismatch: the remaining sub-patterns are not consulted
        some none
      | none => none
    | _, _, _, _ => none

def St.print (s : St) (t : String) : St := { s with out := t :: s.out }

def St.alloc (s : St) (o : Obj) : St × Nat := ({ s with heap := s.heap.push o }, s.heap.size)

def getField (P : Prog) (s : St) (vo : Val) (f : String) : Option Val :=
  match vo with
  | .ref a =>
    match s.heap[a]? with
    | some (.struct_ name vs) =>
      match P.fieldIdx name f with
      | some i => vs[i]?
      | none => none
    | _ => none
  | _ => none
def setField (P : Prog) (s : St) (vo : Val) (f : String) (v : Val) : Res Val :=
  match vo with
  | .ref a =>
    match s.heap[a]? with
    | some (.struct_ name vs) =>
      match P.fieldIdx name f with
      | some i =>
        if i < vs.length then .ok .unit { s with heap := s.heap.setIfInBounds a (.struct_ name (vs.set i v)) }
        else .stuck "field index"
      | none => .stuck "field name"
    | _ => .stuck "field of non-struct"
  | _ => .stuck "field of non-ref"
def getIndex (s : St) (va vi : Val) : Res Val :=
  match va, vi with
  | .ref ad, .int k =>
    match s.heap[ad]? with
    | some (.arr vs) =>
      if k < 0 then .sig (.err .oob) s
      else match vs[k.toNat]? with
        | some x => .ok x s
        | none => .sig (.err .oob) s
    | _ => .stuck "index of non-array"
  | _, _ => .stuck "index"
def setIndex (s : St) (va vi v : Val) : Res Val :=
  match va, vi with
  | .ref ad, .int k =>
    match s.heap[ad]? with
    | some (.arr vs) =>
      if k < 0 then .sig (.err .oob) s
      else if k.toNat < vs.length then
        .ok .unit { s with heap := s.heap.setIfInBounds ad (.arr (vs.set k.toNat v)) }
      else .sig (.err .oob) s
    | _ => .stuck "index of non-array"
  | _, _ => .stuck "index"


/-- `e?`: the payload of `some`/`ok`; otherwise the enclosing function returns `none` / the `err` -/
def tryVal (v : Val) (s : St) : Res Val :=
  match v with
  | .variant "some" [x] => .ok x s
  | .variant "none" [] => .sig (.ret (.variant "none" [])) s
  | .variant "ok" [x] => .ok x s
  | .variant "err" [x] => .sig (.ret (.variant "err" [x])) s
  | _ => .stuck "try"

/-- `e!`: the payload of `some`/`ok`; otherwise the program stops with a panic error -/
def unwrapVal (v : Val) (s : St) : Res Val :=
  match v with
  | .variant "some" [x] => .ok x s
  | .variant "none" [] => .sig (.err .panic) s
  | .variant "ok" [x] => .ok x s
  | .variant "err" [_] => .sig (.err .panic) s
  | _ => .stuck "unwrap"

def assignVar (s : St) (x : String) (v : Val) : Res Val :=
  match update s.env x v with
  | some env => .ok .unit { s with env := env }
  | none => .stuck ("assign unbound " ++ x)

inductive Iter where
  | range (cur stop : Int)
  | arr (a : Nat) (i : Nat)

mutual
def evalE : Nat → Prog → St → Expr → Res Val
  | 0, _, _, _ => .timeout
  | n + 1, P, s, e =>
    match e with
    | .int k => .ok (.int k) s
    | .bool b => .ok (.bool b) s
    | .str t => .ok (.str t) s
    | .unit => .ok .unit s
    | .var x =>
      match lookup s.env x with
      | some v => .ok v s
      | none => .stuck ("unbound " ++ x)
    | .un op a => (evalE n P s a).bind fun v s1 => unop op v s1
    | .bin .and a b =>
      (evalE n P s a).bind fun v s1 =>
        match v with
        | .bool false => .ok (.bool false) s1
        | .bool true => evalE n P s1 b
        | _ => .stuck "and"
    | .bin .or a b =>
      (evalE n P s a).bind fun v s1 =>
        match v with
        | .bool true => .ok (.bool true) s1
        | .bool false => evalE n P s1 b
        | _ => .stuck "or"
    | .bin op a b =>
      (evalE n P s a).bind fun va s1 =>
        (evalE n P s1 b).bind fun vb s2 => binop n op va vb s2
    | .ite c t f =>
      (evalE n P s c).bind fun v s1 =>
        match v with
        | .bool true => evalE n P s1 t
        | .bool false => evalE n P s1 f
        | _ => .stuck "if"
    | .block ss => (evalSs n P s ss).popTo s.env.length
    | .print a =>
      (evalE n P s a).bind fun v s1 =>
        match render n s1.heap v with
        | some t => .ok .unit (s1.print (t ++ "\n"))
        | none => .stuck "print"
    | .tuple es => (evalEs n P s es).bind fun vs s1 => .ok (.tuple vs) s1
    | .mkStruct name es =>
      (evalEs n P s es).bind fun vs s1 =>
        let (s2, a) := s1.alloc (.struct_ name vs)
        .ok (.ref a) s2
    | .field o f =>
      (evalE n P s o).bind fun v s1 =>
        match v with
        | .ref a =>
          match s1.heap[a]? with
          | some (.struct_ name vs) =>
            match P.fieldIdx name f with
            | some i => match vs[i]? with
              | some x => .ok x s1
              | none => .stuck "field index"
            | none => .stuck "field name"
          | _ => .stuck "field of non-struct"
        | _ => .stuck "field of non-ref"
    | .mkVariant c es => (evalEs n P s es).bind fun vs s1 => .ok (.variant c vs) s1
    | .matchE scrut arms =>
      (evalE n P s scrut).bind fun v s1 => (evalArms n P s1 v arms).popTo s.env.length
    | .array es =>
      (evalEs n P s es).bind fun vs s1 =>
        let (s2, a) := s1.alloc (.arr vs)
        .ok (.ref a) s2
    | .index a i =>
      (evalE n P s a).bind fun va s1 =>
        (evalE n P s1 i).bind fun vi s2 =>
          match va, vi with
          | .ref ad, .int k =>
            match s2.heap[ad]? with
            | some (.arr vs) =>
              if k < 0 then .sig (.err .oob) s2
              else match vs[k.toNat]? with
                | some x => .ok x s2
                | none => .sig (.err .oob) s2
            | _ => .stuck "index of non-array"
          | _, _ => .stuck "index"
    | .len a =>
      (evalE n P s a).bind fun va s1 =>
        match va with
        | .ref ad =>
          match s1.heap[ad]? with
          | some (.arr vs) => .ok (.int vs.length) s1
          | _ => .stuck "len of non-array"
        | _ => .stuck "len"
    | .push a x =>
      (evalE n P s a).bind fun va s1 =>
        (evalE n P s1 x).bind fun vx s2 =>
          match va with
          | .ref ad =>
            match s2.heap[ad]? with
            | some (.arr vs) => .ok .unit { s2 with heap := s2.heap.setIfInBounds ad (.arr (vs ++ [vx])) }
            | _ => .stuck "push to non-array"
          | _ => .stuck "push"
    | .pop a =>
      (evalE n P s a).bind fun va s1 =>
        match va with
        | .ref ad =>
          match s1.heap[ad]? with
          | some (.arr vs) =>
            match vs.getLast? with
            | some x => .ok x { s1 with heap := s1.heap.setIfInBounds ad (.arr vs.dropLast) }
            | none => .sig (.err .oob) s1
          | _ => .stuck "pop of non-array"
        | _ => .stuck "pop"
    | .call f args =>
      match P.findFn f with
      | none => .stuck ("unknown function " ++ f)
      | some d =>
        (evalEs n P s args).bind fun vs s1 =>
          match bindParams d.params vs [] with
          | none => .stuck "arity"
          | some env => callBody n P s1 env d.body
    | .callv f args =>
      (evalEs n P s args).bind fun vs s1 =>
        (evalE n P s1 f).bind fun vf s2 =>
          match vf with
          | .clo ps body cenv =>
            match bindParams ps vs cenv with
            | none => .stuck "arity"
            | some env => callBody n P s2 env body
          | _ => .stuck "call of non-function"
    | .lam ps body => .ok (.clo ps body s.env) s
    -- a named function / a constructor as a value: a function object that captures NOTHING (its environment is
    -- empty whatever the bindings in scope are); calling it runs the function's own body
    | .fnref f =>
      match P.findFn f with
      | some d => .ok (.clo d.params d.body []) s
      | none => .stuck ("unknown function " ++ f)
    | .mkref name =>
      match P.findStruct name with
      | some d => .ok (.clo d.fields (.mkStruct name (Exprs.ofList (d.fields.map .var))) []) s
      | none => .stuck ("unknown struct " ++ name)
    | .try_ a => (evalE n P s a).bind fun v s1 => tryVal v s1
    | .unwrap a => (evalE n P s a).bind fun v s1 => unwrapVal v s1
    | .panic a =>
      (evalE n P s a).bind fun v s1 =>
        match v with
        | .str _ => .sig (.err .panic) s1
        | _ => .stuck "panic"

/-- run a function body in its own environment; `return` is caught here -/
def callBody : Nat → Prog → St → Env → Expr → Res Val
  | 0, _, _, _, _ => .timeout
  | n + 1, P, s, env, body =>
    match evalE n P { s with env := env } body with
    | .ok v s' => .ok v { s' with env := s.env }
    | .sig (.ret v) s' => .ok v { s' with env := s.env }
    | .sig (.err k) s' => .sig (.err k) { s' with env := s.env }
    | .sig .brk _ => .stuck "break outside loop"
    | .sig .cont _ => .stuck "continue outside loop"
    | .timeout => .timeout
    | .stuck w => .stuck w

def evalEs : Nat → Prog → St → Exprs → Res (List Val)
  | 0, _, _, _ => .timeout
  | n + 1, P, s, es =>
    match es with
    | .nil => .ok [] s
    | .cons e rest =>
      (evalE n P s e).bind fun v s1 =>
        (evalEs n P s1 rest).bind fun vs s2 => .ok (v :: vs) s2

def evalArms : Nat → Prog → St → Val → Arms → Res Val
  | 0, _, _, _, _ => .timeout
  | n + 1, P, s, v, arms =>
    match arms with
    | .nil => .stuck "no arm matches"
    | .cons p body rest =>
      match matchPat n s.heap p v with
      | some (some bs) => evalE n P { s with env := bs ++ s.env } body
      | some none => evalArms n P s v rest
      | none => .stuck "pattern"

/-- value of a statement list = value of its last statement when that is an expression, else unit -/
def evalSs : Nat → Prog → St → Stmts → Res Val
  | 0, _, _, _ => .timeout
  | n + 1, P, s, ss =>
    match ss with
    | .nil => .ok .unit s
    | .cons st .nil => evalS n P s st
    | .cons st rest => (evalS n P s st).bind fun _ s1 => evalSs n P s1 rest

def evalS : Nat → Prog → St → Stmt → Res Val
  | 0, _, _, _ => .timeout
  | n + 1, P, s, st =>
    match st with
    | .let_ p e =>
      (evalE n P s e).bind fun v s1 =>
        match matchPat n s1.heap p v with
        | some (some bs) => .ok .unit { s1 with env := bs ++ s1.env }
        | _ => .stuck "let pattern"
    | .assign x .set e => (evalE n P s e).bind fun v s1 => assignVar s1 x v
    | .assign x op e =>
      match lookup s.env x, asgBin op with
      | some old, some bop =>
        (evalE n P s e).bind fun v s1 => (binop n bop old v s1).bind fun r s2 => assignVar s2 x r
      | _, _ => .stuck ("assign unbound " ++ x)
    | .assignField o f .set e =>
      (evalE n P s e).bind fun v s1 =>
        (evalE n P s1 o).bind fun vo s2 => setField P s2 vo f v
    | .assignField o f op e =>
      (evalE n P s o).bind fun vo s1 =>
        match getField P s1 vo f, asgBin op with
        | some old, some bop =>
          (evalE n P s1 e).bind fun v s2 =>
            (binop n bop old v s2).bind fun r s3 => setField P s3 vo f r
        | _, _ => .stuck "field assign"
    | .assignIndex a i .set e =>
      (evalE n P s a).bind fun va s1 =>
        (evalE n P s1 i).bind fun vi s2 =>
          (evalE n P s2 e).bind fun v s3 => setIndex s3 va vi v
    | .assignIndex a i op e =>
      (evalE n P s a).bind fun va s1 =>
        (evalE n P s1 i).bind fun vi s2 =>
          (getIndex s2 va vi).bind fun old s3 =>
            match asgBin op with
            | some bop =>
              (evalE n P s3 e).bind fun v s4 =>
                (binop n bop old v s4).bind fun r s5 => setIndex s5 va vi r
            | none => .stuck "index assign"
    | .expr e => evalE n P s e
    | .while_ c body =>
      (evalE n P s c).bind fun v s1 =>
        match v with
        | .bool false => .ok .unit s1
        | .bool true =>
          match evalSs n P s1 body with
          | .ok _ s2 => evalS n P (s2.popTo s.env.length) (.while_ c body)
          | .sig .brk s2 => .ok .unit (s2.popTo s.env.length)
          | .sig .cont s2 => evalS n P (s2.popTo s.env.length) (.while_ c body)
          | .sig g s2 => .sig g (s2.popTo s.env.length)
          | .timeout => .timeout
          | .stuck w => .stuck w
        | _ => .stuck "while"
    | .for_ p it body =>
      (evalE n P s it).bind fun v s1 =>
        match v with
        | .int k => forLoop n P s1 p (.range 0 k) body
        | .ref a => forLoop n P s1 p (.arr a 0) body
        | _ => .stuck "for"
    | .break_ => .sig .brk s
    | .continue_ => .sig .cont s
    | .ret e => (evalE n P s e).bind fun v s1 => .sig (.ret v) s1

def forLoop : Nat → Prog → St → Pat → Iter → Stmts → Res Val
  | 0, _, _, _, _, _ => .timeout
  | n + 1, P, s, p, it, body =>
    -- `next` of RangeIterator / ArrayIterator (prelude.abra)
    let nxt : Res (Option (Val × Iter)) :=
      match it with
      | .range cur stop => if cur ≥ stop then .ok none s else .ok (some (.int cur, .range (cur + 1) stop)) s
      | .arr a i =>
        match s.heap[a]? with
        | some (.arr vs) =>
          if i = vs.length then .ok none s
          else match vs[i]? with
            | some x => .ok (some (x, .arr a (i + 1))) s
            | none => .sig (.err .oob) s
        | _ => .stuck "for over non-array"
    nxt.bind fun o s0 =>
      match o with
      | none => .ok .unit s0
      | some (x, it') =>
        match matchPat n s0.heap p x with
        | some (some bs) =>
          match evalSs n P { s0 with env := bs ++ s0.env } body with
          | .ok _ s2 => forLoop n P (s2.popTo s.env.length) p it' body
          | .sig .brk s2 => .ok .unit (s2.popTo s.env.length)
          | .sig .cont s2 => forLoop n P (s2.popTo s.env.length) p it' body
          | .sig g s2 => .sig g (s2.popTo s.env.length)
          | .timeout => .timeout
          | .stuck w => .stuck w
        | _ => .stuck "for pattern"
end

/-- outcome of a whole program -/
inductive Outcome where
  | done (final : Val) (heap : Array Obj) (out : List String)
  | error (k : Err) (out : List String)
  | timeout
  | stuck (why : String)

def St.init : St := { env := [], heap := #[], out := [] }

def run (fuel : Nat) (P : Prog) : Outcome :=
  match evalSs fuel P St.init P.main with
  | .ok v s => .done v s.heap s.out
  | .sig (.err k) s => .error k s.out
  | .sig (.ret _) s => .done .unit s.heap s.out   -- top-level `return` stops the program
  | .sig .brk _ => .stuck "break outside loop"
  | .sig .cont _ => .stuck "continue outside loop"
  | .timeout => .timeout
  | .stuck w => .stuck w

end Abra.Sem
