import AbraModel.Sem
import AbraModel.VMCore
/-
M8 (try/unwrap) — the lowering of `e?` and `e!` in translate_bytecode.rs (`ExprKind::Try`, `ExprKind::Unwrap`)
and a hand transliteration of the prelude functions they call (modules/prelude.abra: `Try`/`Unwrap`
implementations for `option<T>` and `result<T, E>`) into the reference interpreter's AST.

`e?`:   <e>; Call branch; DeconstructVariant; PushInt 0; EqualInt top top top; JumpIfFalse tag_success;
        Call from_residual; Return n; tag_success: [Pop when the output type is void]
        (`ControlFlow = Break(B) | Continue(C)`: tag 0 = Break.  `n` is the enclosing function's argument count.
        A void residual (`option`) is not passed: `Call 0`, the nil payload stays on the stack as a temporary.)
`e!`:   <e>; Call unwrap      — everything else happens inside the prelude function.
-/
namespace Abra.TryLower
open Abra.Sem Abra.VM

/-- the instructions that follow the call to `branch`, placed at absolute position `pos` -/
def tryCode (pos : Nat) (residualArgs frAddr retNargs : Nat) (outVoid : Bool) : List (Instr Nat) :=
  [.deconstructVariant, .pushInt 0, .intCmp .eq .top .top .top, .jumpIfFalse (pos + 6),
   .call residualArgs frAddr, .ret retNargs] ++ (if outVoid then [.pop] else [])

/-! ### prelude.abra, transliterated (the names are the harness's; bodies follow the source line by line) -/

def pv (x : String) : Pat := .bind x

/-- `implement Try for option<T> { fn branch(self) { match self { .some(x) -> .Continue(x)  .none -> .Break(nil) } } }` -/
def branchOption : FnDef :=
  { name := "option.branch", params := ["self"],
    body := .matchE (.var "self") (Arms.ofList [
      (.variant "some" [pv "x"], .mkVariant "Continue" (Exprs.ofList [.var "x"])),
      (.variant "none" [], .mkVariant "Break" (Exprs.ofList [.unit]))]) }

/-- `fn from_residual(r: void) -> option<T> { option.none }` -/
def fromResidualOption : FnDef :=
  { name := "option.from_residual", params := ["r"], body := .mkVariant "none" .nil }

/-- `implement Try for result<T2, E2> { fn branch(self) { match self { .ok(x) -> .Continue(x)  .err(e) -> .Break(e) } } }` -/
def branchResult : FnDef :=
  { name := "result.branch", params := ["self"],
    body := .matchE (.var "self") (Arms.ofList [
      (.variant "ok" [pv "x"], .mkVariant "Continue" (Exprs.ofList [.var "x"])),
      (.variant "err" [pv "e"], .mkVariant "Break" (Exprs.ofList [.var "e"]))]) }

/-- `fn from_residual(r: E2) -> result<T2, E2> { result.err(r) }` -/
def fromResidualResult : FnDef :=
  { name := "result.from_residual", params := ["r"], body := .mkVariant "err" (Exprs.ofList [.var "r"]) }

/-- `implement Unwrap for option<T> { fn unwrap(self) { match self { .some(x) -> x  .none -> panic("cannot unwrap option.none") } } }` -/
def unwrapOption : FnDef :=
  { name := "option.unwrap", params := ["self"],
    body := .matchE (.var "self") (Arms.ofList [
      (.variant "some" [pv "x"], .var "x"),
      (.variant "none" [], .panic (.str "cannot unwrap option.none"))]) }

/-- `implement Unwrap for result<T, E> { fn unwrap(self) { match self { .ok(x) -> x  .err(_) -> panic("cannot unwrap result.err") } } }` -/
def unwrapResult : FnDef :=
  { name := "result.unwrap", params := ["self"],
    body := .matchE (.var "self") (Arms.ofList [
      (.variant "ok" [pv "x"], .var "x"),
      (.variant "err" [.wild], .panic (.str "cannot unwrap result.err"))]) }

def prelude : Prog :=
  { structs := [], fns := [branchOption, fromResidualOption, branchResult, fromResidualResult, unwrapOption, unwrapResult],
    main := .nil }

/-- run one of the transliterated functions on a value -/
def callPrelude (fuel : Nat) (f : FnDef) (v : Sem.Val) (s : St) : Res Sem.Val :=
  match f.params with
  | [p] => callBody fuel prelude s [(p, v)] f.body
  | _ => .stuck "arity"

/-- `e?` as the lowering composes it from the prelude: `branch`, then either the payload or an
    early return of `from_residual(residual)` -/
def tryViaPrelude (fuel : Nat) (branch fromResidual : FnDef) (v : Sem.Val) (s : St) : Res Sem.Val :=
  (callPrelude fuel branch v s).bind fun cf s1 =>
    match cf with
    | .variant "Continue" [x] => .ok x s1
    | .variant "Break" [r] => (callPrelude fuel fromResidual r s1).bind fun res s2 => .sig (.ret res) s2
    | _ => .stuck "ControlFlow"

/-! ### the static rule of `?` (typecheck.rs 1682-1687, error.rs `TriedExpressionAndRetTypeMustMatch`)

error_handling.md: "The enclosing function must return a compatible type"; "`?` works with `option` too, but the
enclosing function must return an `option`".  Type families as the checker compares them: `option` (any payload),
`result` with its error type (by name), anything else. -/
inductive TryFam where
  | option
  | result (err : String)
  | plain
  deriving DecidableEq, Repr, Inhabited

/-- `e?` with `e` of family `operand` inside a function returning family `ret` is accepted -/
def tryAccepted (operand ret : TryFam) : Bool :=
  match operand, ret with
  | .option, .option => true
  | .result e, .result e' => e == e'
  | _, _ => false

/-- runtime values of a family (payloads unconstrained) -/
def InFam : TryFam → Sem.Val → Prop
  | .option, v => v = .variant "none" [] ∨ ∃ x, v = .variant "some" [x]
  | .result _, v => (∃ x, v = .variant "ok" [x]) ∨ ∃ x, v = .variant "err" [x]
  | .plain, v => v ≠ .variant "none" [] ∧ (∀ x, v ≠ .variant "some" [x]) ∧ (∀ x, v ≠ .variant "ok" [x]) ∧ ∀ x, v ≠ .variant "err" [x]

end Abra.TryLower
