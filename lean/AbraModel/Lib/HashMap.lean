/-!
# M11 (Lib) — `modules/core/map.abra` (and `set.abra` = `map<T, void>`)

Chained hash table in struct-of-arrays form, transliterated field by field and loop by loop:

    type map<K, V> = { buckets: array<int>, entry_keys, entry_values, entry_hashes: array<int>,
                       entry_nexts: array<int>, entry_occupied: array<bool>, count: int, free_list: int }

`buckets[hash % buckets.len()]` heads a chain through `entry_nexts` (`-1` ends it); removed slots go on
`free_list` (linked through the same `entry_nexts`) and are reused; `resize` doubles the buckets when
`entry_keys.len() >= buckets.len()` (slot count, not live count) and re-links the occupied entries.
After fix D9 the bucket index is `hash_code % len` (`%` is the Euclidean remainder).

`Hash.hash` and `Equal.equal` of the key type are parameters.  Array accesses keep their bound checks
(`Err.oob`), chain walks take fuel = number of slots + 1 and report `Err.fuel` when it runs out
(theorem `fuel_enough`: it never does under the representation invariant).
-/
namespace Abra.Lib.HashMap

inductive Err where
  | oob       -- array index out of bounds
  | divzero   -- `% 0`
  | fuel      -- a chain walk did not end within the fuel (cyclic chain)
  | panic     -- `get` of an absent key (`try_get(key)!`)
  deriving Repr, DecidableEq

structure Table (K V : Type) where
  buckets : List Int
  keys : List K
  values : List V
  hashes : List Int
  nexts : List Int
  occupied : List Bool
  count : Int
  freeList : Int

/-- `a[i]` with the VM's bound check -/
def getI {α : Type} (l : List α) (i : Int) : Except Err α :=
  if i < 0 then .error .oob
  else match l[i.toNat]? with
    | some x => .ok x
    | none => .error .oob

/-- `a[i] = x` with the VM's bound check -/
def setI {α : Type} (l : List α) (i : Int) (x : α) : Except Err (List α) :=
  if i < 0 then .error .oob
  else if i.toNat < l.length then .ok (l.set i.toNat x) else .error .oob

/-- `hash_code % self.buckets.len()` -/
def bucketIdx (h : Int) (len : Nat) : Except Err Int :=
  if len = 0 then .error .divzero else .ok (h % (len : Int))

variable {K V : Type}

/-- `map.new()` -/
def Table.new : Table K V :=
  { buckets := [], keys := [], values := [], hashes := [], nexts := [], occupied := [], count := 0, freeList := -1 }

def Table.len (t : Table K V) : Int := t.count

/-- `resize`'s loop `for i in self.entry_keys.len() { if occupied[i] { … relink … } }`, from slot `i` on -/
def relink (newSize : Nat) (hashes : List Int) (occupied : List Bool) :
    Nat → Nat → List Int → List Int → Except Err (List Int × List Int)
  | 0, _, buckets, nexts => .ok (buckets, nexts)
  | todo + 1, i, buckets, nexts =>
    match getI occupied i with
    | .error e => .error e
    | .ok occ =>
      if occ then
        match getI hashes i with
        | .error e => .error e
        | .ok h =>
          match bucketIdx h newSize with
          | .error e => .error e
          | .ok b =>
            match getI buckets b with
            | .error e => .error e
            | .ok head =>
              match setI nexts i head with
              | .error e => .error e
              | .ok nexts' =>
                match setI buckets b i with
                | .error e => .error e
                | .ok buckets' => relink newSize hashes occupied todo (i + 1) buckets' nexts'
      else relink newSize hashes occupied todo (i + 1) buckets nexts

/-- `fn resize(self)` -/
def resize (t : Table K V) : Except Err (Table K V) :=
  let oldLen := t.buckets.length
  let newSize := if oldLen = 0 then 4 else oldLen * 2
  let newBuckets : List Int := List.replicate newSize (-1)
  match relink newSize t.hashes t.occupied t.keys.length 0 newBuckets t.nexts with
  | .error e => .error e
  | .ok (b, n) => .ok { t with buckets := b, nexts := n }

/-- the test inside every chain walk: `if hashes[i] == hash_code { if keys[i] == key { … } }` -/
def slotMatches (eq : K → K → Bool) (t : Table K V) (hc : Int) (key : K) (i : Int) : Except Err Bool :=
  match getI t.hashes i with
  | .error e => .error e
  | .ok h =>
    if h = hc then
      match getI t.keys i with
      | .error e => .error e
      | .ok k => .ok (eq k key)
    else .ok false

/-- the collision-chain walk shared by `insert` and `try_get`:
    `while i != -1 { if hashes[i] == hash_code { if keys[i] == key { FOUND i } }; i = nexts[i] }` -/
def findLoop (eq : K → K → Bool) (t : Table K V) (hc : Int) (key : K) : Nat → Int → Except Err (Option Int)
  | 0, _ => .error .fuel
  | fuel + 1, i =>
    if i = -1 then .ok none
    else match slotMatches eq t hc key i with
      | .error e => .error e
      | .ok true => .ok (some i)
      | .ok false =>
        match getI t.nexts i with
        | .error e => .error e
        | .ok nx => findLoop eq t hc key fuel nx

/-- `fn try_get(self, key) -> option<V>` -/
def tryGet (hash : K → Int) (eq : K → K → Bool) (t : Table K V) (key : K) : Except Err (Option V) :=
  if t.buckets.length = 0 then .ok none
  else
    let hc := hash key
    match bucketIdx hc t.buckets.length with
    | .error e => .error e
    | .ok b =>
      match getI t.buckets b with
      | .error e => .error e
      | .ok head =>
        match findLoop eq t hc key (t.keys.length + 1) head with
        | .error e => .error e
        | .ok none => .ok none
        | .ok (some i) =>
          match getI t.values i with
          | .error e => .error e
          | .ok v => .ok (some v)

/-- `fn get(self, key) -> V { self.try_get(key)! }` -/
def get (hash : K → Int) (eq : K → K → Bool) (t : Table K V) (key : K) : Except Err V :=
  match tryGet hash eq t key with
  | .error e => .error e
  | .ok none => .error .panic
  | .ok (some v) => .ok v

/-- `fn contains(self, key) -> bool { self.try_get(key).is_some() }` -/
def contains (hash : K → Int) (eq : K → K → Bool) (t : Table K V) (key : K) : Except Err Bool :=
  match tryGet hash eq t key with
  | .error e => .error e
  | .ok o => .ok o.isSome

/-- `insert` after its resize check: the rest of the function body -/
def insertCore (hash : K → Int) (eq : K → K → Bool) (t : Table K V) (key : K) (value : V) : Except Err (Table K V) :=
  let hc := hash key
  match bucketIdx hc t.buckets.length with
  | .error e => .error e
  | .ok b =>
    match getI t.buckets b with
    | .error e => .error e
    | .ok head =>
      match findLoop eq t hc key (t.keys.length + 1) head with
      | .error e => .error e
      | .ok (some i) =>
        -- update in place
        match setI t.values i value with
        | .error e => .error e
        | .ok vs => .ok { t with values := vs }
      | .ok none =>
        if t.freeList ≠ -1 then
          -- grab a slot from the free list
          let target := t.freeList
          match getI t.nexts target with
          | .error e => .error e
          | .ok nf =>
            match setI t.keys target key, setI t.values target value, setI t.hashes target hc,
                  setI t.nexts target head, setI t.occupied target true, setI t.buckets b target with
            | .ok ks, .ok vs, .ok hs, .ok ns, .ok os, .ok bs =>
              .ok { buckets := bs, keys := ks, values := vs, hashes := hs, nexts := ns, occupied := os,
                    count := t.count + 1, freeList := nf }
            | _, _, _, _, _, _ => .error .oob
        else
          -- create a new slot
          let target : Int := t.keys.length
          match setI t.buckets b target with
          | .error e => .error e
          | .ok bs =>
            .ok { buckets := bs, keys := t.keys ++ [key], values := t.values ++ [value],
                  hashes := t.hashes ++ [hc], nexts := t.nexts ++ [head], occupied := t.occupied ++ [true],
                  count := t.count + 1, freeList := t.freeList }

/-- `fn insert(self, key, value)`: `if self.entry_keys.len() >= self.buckets.len() { self.resize() }`, then the body -/
def insert (hash : K → Int) (eq : K → K → Bool) (t0 : Table K V) (key : K) (value : V) : Except Err (Table K V) :=
  match (if t0.keys.length ≥ t0.buckets.length then resize t0 else .ok t0) with
  | .error e => .error e
  | .ok t => insertCore hash eq t key value

/-- the walk of `remove` with its trailing `prev` pointer; answers the slot to unlink and its predecessor -/
def removeLoop (eq : K → K → Bool) (t : Table K V) (hc : Int) (key : K) : Nat → Int → Int → Except Err (Option (Int × Int))
  | 0, _, _ => .error .fuel
  | fuel + 1, prev, curr =>
    if curr = -1 then .ok none
    else match slotMatches eq t hc key curr with
      | .error e => .error e
      | .ok true => .ok (some (prev, curr))
      | .ok false =>
        match getI t.nexts curr with
        | .error e => .error e
        | .ok nx => removeLoop eq t hc key fuel curr nx

/-- `fn remove(self, key) -> bool` -/
def remove (hash : K → Int) (eq : K → K → Bool) (t : Table K V) (key : K) : Except Err (Table K V × Bool) :=
  if t.buckets.length = 0 then .ok (t, false)
  else
    let hc := hash key
    match bucketIdx hc t.buckets.length with
    | .error e => .error e
    | .ok b =>
      match getI t.buckets b with
      | .error e => .error e
      | .ok head =>
        match removeLoop eq t hc key (t.keys.length + 1) (-1) head with
        | .error e => .error e
        | .ok none => .ok (t, false)
        | .ok (some (prev, curr)) =>
          match getI t.nexts curr with
          | .error e => .error e
          | .ok nc =>
            -- unlink from the bucket chain
            match (if prev = -1 then
                     match setI t.buckets b nc with
                     | .error e => Except.error e
                     | .ok bs => .ok (bs, t.nexts)
                   else
                     match setI t.nexts prev nc with
                     | .error e => .error e
                     | .ok ns => .ok (t.buckets, ns)) with
            | .error e => .error e
            | .ok (bs, ns) =>
              -- add to the free list (the `next` field now points to the next free slot)
              match setI ns curr t.freeList, setI t.occupied curr false with
              | .ok ns', .ok os =>
                .ok ({ t with buckets := bs, nexts := ns', occupied := os, count := t.count - 1, freeList := curr }, true)
              | _, _ => .error .oob

/-- `Index for map`: `m[k]` = `get`, `m[k] = v` = `insert` -/
def indexGet (hash : K → Int) (eq : K → K → Bool) (t : Table K V) (key : K) : Except Err V := get hash eq t key
def indexSet (hash : K → Int) (eq : K → K → Bool) (t : Table K V) (key : K) (value : V) : Except Err (Table K V) :=
  insert hash eq t key value

/-- `m[k] op= v` (`+= -= *= /= %=` through the `Index` impl): the map and the key are evaluated once, then
    `index_set(m, k, op(index_get(m, k), v))`; `f` is `fun x => x op v` -/
def indexUpdate (hash : K → Int) (eq : K → K → Bool) (t : Table K V) (key : K) (f : V → V) : Except Err (Table K V) :=
  match indexGet hash eq t key with
  | .error e => .error e
  | .ok x => indexSet hash eq t key (f x)

end Abra.Lib.HashMap
