/-!
# M11 (Lib) — `sort_by` / `insertion_sort_by` / `merge_by` of `modules/prelude.abra`

Functional transliteration on lists, loop by loop, with the comparator as a parameter.  Nothing is
assumed about the comparator, so the model's output is the program's output for *every*
`less_than_or_equal`, lawful or not (that is what the correspondence checks with the unlawful ones).

Source (prelude.abra, `extend array<T>`):

    fn sort_by(self, le) {
        let n = self.len();  let RUN = 32
        var i = 0
        while i < n { let end = if i+RUN-1 < n-1 { i+RUN-1 } else { n-1 }
                      self.insertion_sort_by(i, end, le);  i = i + RUN }
        let temp = [];  var size = RUN
        while size < n {
            var left = 0
            while left < n {
                let mid = left + size - 1
                let right = if left + 2*size - 1 < n - 1 { left + 2*size - 1 } else { n - 1 }
                if mid < right { self.merge_by(left, mid, right, temp, le) }
                left = left + 2*size }
            size = size * 2 } }
-/
namespace Abra.Lib

variable {α : Type}

/-- Inner `while j >= left and not le(self[j], key)` loop of `insertion_sort_by`.
    The argument is the already sorted prefix `self[left .. i-1]` *reversed* (so its head is
    `self[j]` for `j = i-1`); elements are shifted right until `le(self[j], key)` holds. -/
def insRev (le : α → α → Bool) (key : α) : List α → List α
  | [] => [key]
  | x :: rest => if le x key then key :: x :: rest else x :: insRev le key rest

/-- `insertion_sort_by(left, right, le)` on the segment `l = self[left ..= right]`:
    `i` runs over the segment, inserting `self[i]` into the prefix. -/
def insertRun (le : α → α → Bool) (l : List α) : List α :=
  (l.foldl (fun rp key => insRev le key rp) []).reverse

/-- First loop of `sort_by`: runs `[i, min(i+run-1, n-1)]`, `i = 0, run, 2·run, …`, each insertion-sorted.
    The argument is `self[i ..]`. -/
def runs (le : α → α → Bool) (run : Nat) (l : List α) : List α :=
  if h : l = [] ∨ run = 0 then l
  else insertRun le (l.take run) ++ runs le run (l.drop run)
termination_by l.length
decreasing_by
  have : l ≠ [] := fun e => h (Or.inl e)
  have : 0 < l.length := List.length_pos_iff.mpr this
  simp only [List.length_drop]; omega

/-- `merge_by`: the left half was copied to `temp`; take from `temp` when `le(temp[i], self[j])`
    (left wins ties), else from the right half; then the rest of `temp`; the rest of the right half
    is already in place. -/
def merge (le : α → α → Bool) : List α → List α → List α
  | [], r => r
  | l, [] => l
  | a :: l, b :: r =>
    if le a b then a :: merge le l (b :: r) else b :: merge le (a :: l) r

/-- One `while left < n` sweep at width `w = size`.  The argument is `self[left ..]`, so all indices
    below are relative to `left`; `n` is the number of elements from `left` to the end. -/
def mergePass (le : α → α → Bool) (w : Nat) (l : List α) : List α :=
  if h : l = [] ∨ w = 0 then l
  else
    let n := l.length
    let mid := w - 1
    let right := if 2 * w - 1 < n - 1 then 2 * w - 1 else n - 1
    (if mid < right then merge le (l.take (mid + 1)) ((l.drop (mid + 1)).take (right - mid))
     else l.take (2 * w))
      ++ mergePass le w (l.drop (2 * w))
termination_by l.length
decreasing_by
  have : l ≠ [] := fun e => h (Or.inl e)
  have : 0 < l.length := List.length_pos_iff.mpr this
  simp only [List.length_drop]; omega

/-- `while size < n { sweep; size = size * 2 }` (`n` was read once, before the loops). -/
def mergeLoop (le : α → α → Bool) (n w : Nat) (l : List α) : List α :=
  if w < n ∧ 0 < w then mergeLoop le n (2 * w) (mergePass le w l) else l
termination_by n - w
decreasing_by omega

/-- `sort_by` with `RUN = 32`. -/
def sortBy (le : α → α → Bool) (l : List α) : List α :=
  mergeLoop le l.length 32 (runs le 32 l)

/-- `sort` (for `T Ord`) = `sort_by((a, b) -> a <= b)`; `sort_by_key(key)` = `sort_by((a, b) -> key(a) <= key(b))`,
    where `<=` is the element/key type's `Ord.less_than_or_equal`. -/
def sort (leT : α → α → Bool) (l : List α) : List α := sortBy (fun a b => leT a b) l

def sortByKey {κ : Type} (leK : κ → κ → Bool) (key : α → κ) (l : List α) : List α :=
  sortBy (fun a b => leK (key a) (key b)) l

/-- `Ord.less_than_or_equal` for `(int, int)` as the prelude spells it:
    `if a1 < b1 return true; if a1 > b1 return false; a2 <= b2`. -/
def lexLe (a b : Int × Int) : Bool :=
  if a.1 < b.1 then true else if a.1 > b.1 then false else decide (a.2 ≤ b.2)

end Abra.Lib
