/-!
# M11 (Lib) / M4 fragment — arrays: the VM's array instructions on an explicit heap, and the prelude's
array extension functions written on top of them as the Abra source spells them.

Arrays are heap objects: a value of array type is an address, so two variables holding the same
address observe each other's updates (reference semantics).  The heap is a list of arrays, the
address is the position; nothing is ever freed in the model (collection is C06's business).

`vm.rs`:
  GetIndex/SetIndex : error ArrayOutOfBounds when `idx as usize >= len || idx < 0`
  ArrayPush         : `data.push(v)`         ArrayLength : `data.len()`
  ArrayPop          : `data.pop()`, ArrayOutOfBounds on an empty array (after fix D6)
  ConstructArray n  : pops n values, in order, into a new array object
-/
namespace Abra.Lib.Arr

inductive Val where
  | int (n : Int)
  | bool (b : Bool)
  | nil
  | str (s : String)
  | ref (addr : Nat)
  deriving Repr, DecidableEq, Inhabited

inductive Err where
  | oob      -- documented runtime error: "indexed past the end of an array"
  | fault    -- not an array / dangling address: cannot happen in a typed program
  deriving Repr, DecidableEq

abbrev Heap := List (List Val)

/-- contents of the array at address `a` (empty for an address that was never allocated) -/
def Heap.arr (h : Heap) (a : Nat) : List Val := h.getD a []

/-- `ConstructArray n`: a new object holding the `n` popped values in order -/
def construct (h : Heap) (vs : List Val) : Heap × Val := (h ++ [vs], .ref h.length)

/-- `idx as usize` -/
def asUsize (idx : Int) : Nat := (idx % 18446744073709551616).toNat

/-- the bound test of GetIndex/SetIndex exactly as written: `idx as usize >= len || idx < 0` -/
def outOfBounds (idx : Int) (len : Nat) : Bool := decide (asUsize idx ≥ len) || decide (idx < 0)

/-- address of an array value that is present in the heap -/
def addrOf (h : Heap) : Val → Except Err Nat
  | .ref a => if a < h.length then .ok a else .error .fault
  | _ => .error .fault

/-- `ArrayLength` -/
def lenOp (h : Heap) (v : Val) : Except Err Int :=
  match addrOf h v with
  | .error e => .error e
  | .ok a => .ok (h.arr a).length

/-- `GetIndex` -/
def getIndex (h : Heap) (v : Val) (idx : Int) : Except Err Val :=
  match addrOf h v with
  | .error e => .error e
  | .ok a =>
    if outOfBounds idx (h.arr a).length then .error .oob
    else match (h.arr a)[idx.toNat]? with
      | some x => .ok x
      | none => .error .fault

/-- `SetIndex` -/
def setIndex (h : Heap) (v : Val) (idx : Int) (x : Val) : Except Err Heap :=
  match addrOf h v with
  | .error e => .error e
  | .ok a =>
    if outOfBounds idx (h.arr a).length then .error .oob
    else .ok (h.set a ((h.arr a).set idx.toNat x))

/-- `ArrayPush` -/
def pushOp (h : Heap) (v : Val) (x : Val) : Except Err Heap :=
  match addrOf h v with
  | .error e => .error e
  | .ok a => .ok (h.set a (h.arr a ++ [x]))

/-- `ArrayPop` (repaired behaviour, D6: an empty array is the ArrayOutOfBounds error) -/
def popOp (h : Heap) (v : Val) : Except Err (Heap × Val) :=
  match addrOf h v with
  | .error e => .error e
  | .ok a =>
    match (h.arr a).getLast? with
    | none => .error .oob
    | some x => .ok (h.set a (h.arr a).dropLast, x)

/-- `MAX_COUNT` of translate_bytecode.rs: `ConstructArray` counts its elements with 16 bits -/
def maxCount : Nat := 65535

/-- the pushes that follow `ConstructArray` for the rest of a long literal: `Duplicate; <expr>; ArrayPush` each -/
def pushAll (v : Val) : List Val → Heap → Except Err Heap
  | [], h => .ok h
  | x :: xs, h =>
    match pushOp h v x with
    | .error e => .error e
    | .ok h1 => pushAll v xs h1

/-- an array literal `[e1, …, en]` as translate_bytecode.rs compiles it: `ConstructArray` over the first
    `min(n, 65535)` values, the remaining ones pushed onto the new array in order (arrays of `void` hold
    dummy values the same way) -/
def constructLit (h : Heap) (vs : List Val) : Except Err (Heap × Val) :=
  let (h0, a) := construct h (vs.take maxCount)
  match pushAll a (vs.drop maxCount) h0 with
  | .error e => .error e
  | .ok h1 => .ok (h1, a)

/-! ## prelude.abra, `extend array<T>` -/

/-- `fn is_empty(self) = self.len() == 0` -/
def isEmpty (h : Heap) (v : Val) : Except Err Bool :=
  match lenOp h v with
  | .error e => .error e
  | .ok n => .ok (n == 0)

/-- `fn swap(self, i, j) { let temp = self[i]; self[i] = self[j]; self[j] = temp }` -/
def swap (h : Heap) (v : Val) (i j : Int) : Except Err Heap :=
  match getIndex h v i with
  | .error e => .error e
  | .ok temp =>
    match getIndex h v j with
    | .error e => .error e
    | .ok xj =>
      match setIndex h v i xj with
      | .error e => .error e
      | .ok h1 => setIndex h1 v j temp

/-- `fn remove(self, index) { self.swap(index, self.len()-1); self.pop(); nil }` -/
def remove (h : Heap) (v : Val) (idx : Int) : Except Err Heap :=
  match lenOp h v with
  | .error e => .error e
  | .ok n =>
    match swap h v idx (n - 1) with
    | .error e => .error e
    | .ok h1 =>
      match popOp h1 v with
      | .error e => .error e
      | .ok (h2, _) => .ok h2

/-- `fn clear(self) { while self.len() > 0 { self.pop() } }`; the fuel is the initial length -/
def clearLoop (v : Val) : Nat → Heap → Except Err Heap
  | 0, h => .ok h
  | fuel + 1, h =>
    match lenOp h v with
    | .error e => .error e
    | .ok n =>
      if n > 0 then
        match popOp h v with
        | .error e => .error e
        | .ok (h1, _) => clearLoop v fuel h1
      else .ok h

def clear (h : Heap) (v : Val) : Except Err Heap :=
  match lenOp h v with
  | .error e => .error e
  | .ok n => clearLoop v (n.toNat + 1) h

/-- `for i in self.len() { if self[i] == x { return .some(i) } }  .none` — `i` counts up from 0 to the
    length read once before the loop; `eq` is the element type's `Equal.equal`. -/
def findLoop (eq : Val → Val → Bool) (h : Heap) (v : Val) (x : Val) (n : Int) : Nat → Int → Except Err (Option Int)
  | 0, _ => .ok none
  | fuel + 1, i =>
    if i ≥ n then .ok none
    else match getIndex h v i with
      | .error e => .error e
      | .ok y => if eq y x then .ok (some i) else findLoop eq h v x n fuel (i + 1)

def find (eq : Val → Val → Bool) (h : Heap) (v : Val) (x : Val) : Except Err (Option Int) :=
  match lenOp h v with
  | .error e => .error e
  | .ok n => findLoop eq h v x n (n.toNat + 1) 0

/-- `fn contains(self, x) = match self.find(x) { .some(_) -> true, .none -> false }` -/
def contains (eq : Val → Val → Bool) (h : Heap) (v : Val) (x : Val) : Except Err Bool :=
  match find eq h v x with
  | .error e => .error e
  | .ok (some _) => .ok true
  | .ok none => .ok false

/-! ## type-directed `Equal` and `Clone` (the nesting depth of the static type selects the impl) -/

/-- `Equal.equal` at a scalar type -/
def scalarEq : Val → Val → Bool
  | .int a, .int b => a == b
  | .bool a, .bool b => if a && b then true else if a || b then false else true
  | .nil, .nil => true
  | .str a, .str b => a == b
  | _, _ => false

/-- `Equal for array<T Equal>`: `if a.len() != b.len() return false; for i in a.len() { if a[i] != b[i] return false }; true` -/
def eqAt : Nat → Heap → Val → Val → Bool
  | 0, _, a, b => scalarEq a b
  | d + 1, h, .ref a, .ref b =>
    let la := h.arr a
    let lb := h.arr b
    if la.length != lb.length then false
    else (List.zipWith (eqAt d h) la lb).all id
  | _ + 1, _, _, _ => false

/-- the loop `for x in arr { new.push(Clone.clone(x)) }` with the element type's `clone` as a parameter;
    the list is the sequence of elements the iterator yields (`arr` is not aliased with `new`) -/
def cloneLoop (cl : Heap → Val → Except Err (Heap × Val)) (new : Val) : List Val → Heap → Except Err Heap
  | [], h => .ok h
  | x :: xs, h =>
    match cl h x with
    | .error e => .error e
    | .ok (h1, c) =>
      match pushOp h1 new c with
      | .error e => .error e
      | .ok h2 => cloneLoop cl new xs h2

/-- `Clone.clone` at nesting depth `d`: scalars are returned as they are; for an array
    `let new = []; for x in arr { new.push(Clone.clone(x)) }; new`. -/
def cloneAt : Nat → Heap → Val → Except Err (Heap × Val)
  | 0, h, v => .ok (h, v)
  | d + 1, h, v =>
    match addrOf h v with
    | .error e => .error e
    | .ok a =>
      match cloneLoop (cloneAt d) (construct h []).2 (h.arr a) (construct h []).1 with
      | .error e => .error e
      | .ok h1 => .ok (h1, (construct h []).2)

/-- `array.filled(x, n)`: `let ret = []; for _ in n { ret.push(Clone.clone(x)) }; ret` (`d` = depth of `x`) -/
def filledLoop (d : Nat) (x ret : Val) : Nat → Heap → Except Err Heap
  | 0, h => .ok h
  | k + 1, h =>
    match cloneAt d h x with
    | .error e => .error e
    | .ok (h1, c) =>
      match pushOp h1 ret c with
      | .error e => .error e
      | .ok h2 => filledLoop d x ret k h2

def filled (d : Nat) (h : Heap) (x : Val) (n : Int) : Except Err (Heap × Val) :=
  let (h0, ret) := construct h []
  match filledLoop d x ret n.toNat h0 with
  | .error e => .error e
  | .ok h1 => .ok (h1, ret)

end Abra.Lib.Arr
