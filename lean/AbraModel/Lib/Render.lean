/-!
# M11 (Lib) — `ToString` implementations of `modules/prelude.abra`, `array_to_string_helper`, `format_append`

    implement ToString for string { fn str(s) = s }
    implement ToString for void   { fn str(s) = "nil" }
    implement ToString for int    { fn str(n) = string_from_int(n) }        -- Rust `i64::to_string`
    implement ToString for bool   { fn str(b) = if b "true" else "false" }
    implement ToString for option<T ToString>     { .some(x) -> "some(" .. x .. ")"   .none -> "none" }
    implement ToString for result<T, E>           { .ok(x) -> "ok(" .. x .. ")"       .err(x) -> "err(" .. x .. ")" }
    implement ToString for array<T ToString>      { fn str(arr) { "[ " .. array_to_string_helper(arr, 0) .. " ]" } }
    fn array_to_string_helper(arr, idx) {
        let l = array_length(arr)
        if idx == l { "" } else if idx == l - 1 { ToString.str(arr[idx]) }
        else { ToString.str(arr[idx]) .. ", " .. array_to_string_helper(arr, idx + 1) } }
    implement ToString for (T1, T2)  { let (a, b) = p;  "(" .. ToString.str(a) .. ", " .. ToString.str(b) .. ")" }   (also 3, 4)
    fn format_append(s1, s2) { concat_strings(ToString.str(s1), ToString.str(s2)) }          -- the `..` operator
    fn print(x) { print_string(ToString.str(x)) }     fn println(x) { print_string(ToString.str(x) .. "\n") }

`a .. b` is `format_append(a, b)`; on an operand that already is a string `ToString.str` is the identity,
so a chain `s .. x .. t` is `(s ++ str x) ++ t`.  Floats, values of user types and channels with their own `ToString`
enter as `ext` leaves carrying the text their own `str` yields (for a float Rust's `f64::to_string`, trusted): the
model fixes how the built-in containers splice that text in, not the text itself.
-/
namespace Abra.Lib.Render

/-- values of the nested built-in types -/
inductive Val where
  | int (n : Int)
  | bool (b : Bool)
  | nil
  | str (s : String)
  | arr (xs : List Val)
  | tup2 (a b : Val)
  | tup3 (a b c : Val)
  | tup4 (a b c d : Val)
  | some (x : Val)
  | none
  | ok (x : Val)
  | err (x : Val)
  /-- a value of a type outside the nested built-in ones whose own `ToString.str` yields `text`: a float
      (`string_from_float` = Rust `f64::to_string`, trusted), a user type or a `channel<T>` with a user
      `implement ToString` — what matters here is how the built-in containers splice that text in -/
  | ext (text : String)
  deriving Inhabited

/-- `string_from_int`: decimal text of a 64-bit integer (trusted to be `i64::to_string`) -/
def stringFromInt (n : Int) : String := toString n

mutual
  /-- `ToString.str` at the value's type -/
  def strV : Val → String
    | .int n => stringFromInt n
    | .bool b => if b then "true" else "false"
    | .nil => "nil"
    | .str s => s
    | .arr xs => ("[ " ++ helper xs) ++ " ]"
    | .tup2 a b => ((("(" ++ strV a) ++ ", ") ++ strV b) ++ ")"
    | .tup3 a b c => ((((("(" ++ strV a) ++ ", ") ++ strV b) ++ ", ") ++ strV c) ++ ")"
    | .tup4 a b c d => ((((((("(" ++ strV a) ++ ", ") ++ strV b) ++ ", ") ++ strV c) ++ ", ") ++ strV d) ++ ")"
    | .some x => ("some(" ++ strV x) ++ ")"
    | .none => "none"
    | .ok x => ("ok(" ++ strV x) ++ ")"
    | .err x => ("err(" ++ strV x) ++ ")"
    | .ext t => t
  /-- `array_to_string_helper(arr, idx)`; the argument is the suffix `arr[idx ..]`, so `idx == l` is the
      empty suffix and `idx == l - 1` the one-element suffix -/
  def helper : List Val → String
    | [] => ""
    | [x] => strV x
    | x :: y :: rest => (strV x ++ ", ") ++ helper (y :: rest)
end

/-- `format_append(s1, s2)` = `s1 .. s2` -/
def formatAppend (a b : Val) : String := strV a ++ strV b

/-- what `print(x)` / `println(x)` hand to `print_string` -/
def printed (x : Val) : String := strV x
def printedLn (x : Val) : String := formatAppend (.str (strV x)) (.str "\n")

/-- `a .. b .. c .. …`: the chain of `format_append`s, left to right (the intermediate results are strings,
    on which `ToString.str` is the identity) -/
def formatChain : List Val → String
  | [] => ""
  | v :: vs => vs.foldl (fun acc w => formatAppend (.str acc) w) (strV v)

/-- one rendering statement of a program -/
inductive Stmt where
  | print (v : Val)
  | println (v : Val)
  | str (v : Val)            -- `let s = ToString.str(v); print(s)`
  | chain (vs : List Val)    -- `print(v1 .. v2 .. …)`
  | lit (s : String)         -- `print("…")` of a literal

/-- the text a statement hands to `print_string`.  The model has no store: values are immutable, so what a
    statement prints depends on its operands only — never on what was rendered before. -/
def Stmt.emit : Stmt → String
  | .print v => printed v
  | .println v => printedLn v
  | .str v => strV v
  | .chain vs => formatChain vs
  | .lit s => s

/-- a sequence of rendering statements over the same values -/
def emitAll (l : List Stmt) : String := String.join (l.map Stmt.emit)

end Abra.Lib.Render
