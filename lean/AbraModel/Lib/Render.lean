/-!
# M11 (Lib) — `ToString` implementations of `modules/prelude.abra`, `array_to_string_helper`, `format_append`

    implement ToString for string { fn str(s) = s }
    implement ToString for void   { fn str(s) = "nil" }
    implement ToString for int    { fn str(n) = string_from_int(n) }        -- Rust `i64::to_string`
    implement ToString for bool   { fn str(b) = if b "true" else "false" }
    implement ToString for option<T ToString>     { .some(x) -> "some(" .. x .. ")"   .none -> "none" }
    implement ToString for result<T, E>           { .ok(x) -> "ok(" .. x .. ")"       .err(x) -> "err(" .. x .. ")" }
    implement ToString for array<T ToString>      { fn str(arr) { "[ " .. array_to_string_helper(arr, 0) .. " ]" } }
    fn array_to_string_helper(arr, idx) {
        let l = array_length(arr)
        if idx == l { "" } else if idx == l - 1 { ToString.str(arr[idx]) }
        else { ToString.str(arr[idx]) .. ", " .. array_to_string_helper(arr, idx + 1) } }
    implement ToString for (T1, T2)  { let (a, b) = p;  "(" .. ToString.str(a) .. ", " .. ToString.str(b) .. ")" }   (also 3, 4)
    fn format_append(s1, s2) { concat_strings(ToString.str(s1), ToString.str(s2)) }          -- the `..` operator
    fn print(x) { print_string(ToString.str(x)) }     fn println(x) { print_string(ToString.str(x) .. "\n") }

`a .. b` is `format_append(a, b)`; on an operand that already is a string `ToString.str` is the identity,
so a chain `s .. x .. t` is `(s ++ str x) ++ t`.  Floats are outside this model (their text is Rust's
`f64::to_string`, tied by correspondence only elsewhere).
-/
namespace Abra.Lib.Render

/-- values of the nested built-in types -/
inductive Val where
  | int (n : Int)
  | bool (b : Bool)
  | nil
  | str (s : String)
  | arr (xs : List Val)
  | tup2 (a b : Val)
  | tup3 (a b c : Val)
  | tup4 (a b c d : Val)
  | some (x : Val)
  | none
  | ok (x : Val)
  | err (x : Val)
  deriving Inhabited

/-- `string_from_int`: decimal text of a 64-bit integer (trusted to be `i64::to_string`) -/
def stringFromInt (n : Int) : String := toString n

mutual
  /-- `ToString.str` at the value's type -/
  def strV : Val → String
    | .int n => stringFromInt n
    | .bool b => if b then "true" else "false"
    | .nil => "nil"
    | .str s => s
    | .arr xs => ("[ " ++ helper xs) ++ " ]"
    | .tup2 a b => ((("(" ++ strV a) ++ ", ") ++ strV b) ++ ")"
    | .tup3 a b c => ((((("(" ++ strV a) ++ ", ") ++ strV b) ++ ", ") ++ strV c) ++ ")"
    | .tup4 a b c d => ((((((("(" ++ strV a) ++ ", ") ++ strV b) ++ ", ") ++ strV c) ++ ", ") ++ strV d) ++ ")"
    | .some x => ("some(" ++ strV x) ++ ")"
    | .none => "none"
    | .ok x => ("ok(" ++ strV x) ++ ")"
    | .err x => ("err(" ++ strV x) ++ ")"
  /-- `array_to_string_helper(arr, idx)`; the argument is the suffix `arr[idx ..]`, so `idx == l` is the
      empty suffix and `idx == l - 1` the one-element suffix -/
  def helper : List Val → String
    | [] => ""
    | [x] => strV x
    | x :: y :: rest => (strV x ++ ", ") ++ helper (y :: rest)
end

/-- `format_append(s1, s2)` = `s1 .. s2` -/
def formatAppend (a b : Val) : String := strV a ++ strV b

/-- what `print(x)` / `println(x)` hand to `print_string` -/
def printed (x : Val) : String := strV x
def printedLn (x : Val) : String := formatAppend (.str (strV x)) (.str "\n")

end Abra.Lib.Render
