import AbraModel.Lib.Sort
/-!
# M11 (Lib) — `merge_by` and `insertion_sort_by` at the level of the array and its indices

`AbraModel/Lib/Sort.lean` models the two functions on lists (`merge`, `insertRun`).  Here they are written
once more exactly as the source does it — on the whole array `self` with the index variables
`i`, `j`, `k`, `i_curr`, the scratch array `temp`, and in-place writes `self[k] = …` — so that the step
from the index arithmetic to the list functions is a theorem (`AbraProofs/Properties/C25.lean`) and not
only a correspondence.

    fn merge_by(self, left, mid, right, temp, le) {
        let n1 = mid - left + 1
        var i = 0;  while i < n1 { temp.push(self[left + i]); i = i + 1 }
        var i_curr = 0;  var j = mid + 1;  var k = left
        while i_curr < n1 and j <= right {
            if le(temp[i_curr], self[j]) { self[k] = temp[i_curr]; i_curr = i_curr + 1 }
            else                         { self[k] = self[j];       j = j + 1 }
            k = k + 1 }
        while i_curr < n1 { self[k] = temp[i_curr]; i_curr = i_curr + 1; k = k + 1 }
        … temp is emptied again … }

    fn insertion_sort_by(self, left, right, le) {
        var i = left + 1
        while i <= right {
            let key = self[i];  var j = i - 1
            while j >= left and not le(self[j], key) { self[j + 1] = self[j]; j = j - 1 }
            self[j + 1] = key;  i = i + 1 } }
-/
namespace Abra.Lib

variable {α : Type}

/-- the main loop of `merge_by`; answers the array and the final `i_curr`, `k` -/
def mergeMainA (le : α → α → Bool) (temp : List α) (right : Nat) :
    Nat → List α → Nat → Nat → Nat → List α × Nat × Nat
  | 0, arr, i, _, k => (arr, i, k)
  | fuel + 1, arr, i, j, k =>
    if i < temp.length ∧ j ≤ right then
      match temp[i]?, arr[j]? with
      | some a, some b =>
        if le a b then mergeMainA le temp right fuel (arr.set k a) (i + 1) j (k + 1)
        else mergeMainA le temp right fuel (arr.set k b) i (j + 1) (k + 1)
      | _, _ => (arr, i, k)
    else (arr, i, k)

/-- `while i_curr < n1 { self[k] = temp[i_curr]; … }` -/
def mergeDrainA (temp : List α) : Nat → List α → Nat → Nat → List α
  | 0, arr, _, _ => arr
  | fuel + 1, arr, i, k =>
    match temp[i]? with
    | some a => mergeDrainA temp fuel (arr.set k a) (i + 1) (k + 1)
    | none => arr

/-- `merge_by(left, mid, right)` on the whole array -/
def mergeByA (le : α → α → Bool) (arr : List α) (left mid right : Nat) : List α :=
  let n1 := mid - left + 1
  let temp := (arr.drop left).take n1          -- first loop: temp = self[left ..= mid]
  let (arr1, i, k) := mergeMainA le temp right (right + 1 - left) arr 0 (mid + 1) left
  mergeDrainA temp (n1 - i) arr1 i k

/-- the inner loop of `insertion_sort_by`: `j` is kept as `j + 1` (a natural number), so `jp = 0`
    would be `j = -1`; the loop runs while `jp > left` (i.e. `j >= left`) and `not le(self[j], key)` -/
def insertShiftA (le : α → α → Bool) (key : α) (left : Nat) : Nat → List α → Nat → List α × Nat
  | 0, arr, jp => (arr, jp)
  | fuel + 1, arr, jp =>
    if jp > left then
      match arr[jp - 1]? with
      | some x => if !le x key then insertShiftA le key left fuel (arr.set jp x) (jp - 1) else (arr, jp)
      | none => (arr, jp)
    else (arr, jp)

/-- the outer loop of `insertion_sort_by(left, right)`: `i = left + 1 ..= right` -/
def insertionSortA (le : α → α → Bool) (left : Nat) : Nat → List α → Nat → List α
  | 0, arr, _ => arr
  | fuel + 1, arr, i =>
    match arr[i]? with
    | some key =>
      let (arr1, jp) := insertShiftA le key left (i - left) arr i
      insertionSortA le left fuel (arr1.set jp key) (i + 1)
    | none => arr

def insertionSortByA (le : α → α → Bool) (arr : List α) (left right : Nat) : List α :=
  insertionSortA le left (right - left) arr (left + 1)

/-- first loop of `sort_by` on the whole array: `i = 0, RUN, 2·RUN, …`, `end = min(i+RUN-1, n-1)` -/
def runsA (le : α → α → Bool) (run n : Nat) : Nat → List α → Nat → List α
  | 0, arr, _ => arr
  | fuel + 1, arr, i =>
    if i < n then
      let end_ := if i + run - 1 < n - 1 then i + run - 1 else n - 1
      runsA le run n fuel (insertionSortByA le arr i end_) (i + run)
    else arr

/-- `while left < n { mid, right; if mid < right { merge_by }; left = left + 2*size }` -/
def sweepA (le : α → α → Bool) (size n : Nat) : Nat → List α → Nat → List α
  | 0, arr, _ => arr
  | fuel + 1, arr, left =>
    if left < n then
      let mid := left + size - 1
      let right := if left + 2 * size - 1 < n - 1 then left + 2 * size - 1 else n - 1
      sweepA le size n fuel (if mid < right then mergeByA le arr left mid right else arr) (left + 2 * size)
    else arr

/-- `while size < n { sweep; size = size * 2 }` -/
def sizesA (le : α → α → Bool) (n : Nat) : Nat → List α → Nat → List α
  | 0, arr, _ => arr
  | fuel + 1, arr, size =>
    if size < n then sizesA le n fuel (sweepA le size n n arr 0) (size * 2) else arr

/-- `sort_by` on the array, index for index as in the source (`RUN = 32`) -/
def sortByA (le : α → α → Bool) (arr : List α) : List α :=
  let n := arr.length
  sizesA le n n (runsA le 32 n n arr 0) 32

end Abra.Lib
