import AbraModel.Sem
import AbraModel.VMCore
/-
M8 (core) — `compileF0`: the code generator of abra_core/src/translate_bytecode.rs
(`translate_expr` / `translate_stmt`) for the fragment F0 of the generator AST: ints, bools, locals,
unary/binary operators (short-circuit `and`/`or`), `if`/`else`, blocks with shadowing, `let`/`var`,
the assignment forms, `while` with `break`/`continue`, `println` of ints and bools.

Leroy style: the output is label-free.  Jumps are relative (`Target.rel k`: to `pc + 1 + k`); a
`break`/`continue` is emitted as `Pop` × (operands pending since the loop body began, fix 0c43abd) followed by
a jump to the placeholder `brk`/`cont` of the innermost enclosing loop and
`closeBody` turns the placeholders of a finished loop body into relative jumps, exactly the targets
the real code reaches through `loop_stack` labels (`while_end` / `while_start`; the loop stack is pushed
after the condition has been translated, so placeholders inside a condition stay open for the outer
loop).  `resolveAt` maps relative code placed at an absolute position to what the VM executes.

Types are synthesised on the way (the real code asks the checker's solution for the type of an
expression statement to decide whether to emit `Pop`, of `==` operands to pick the instruction, of a
`let` to decide whether it owns a slot); `none` = outside F0 or ill-typed.

Slots: every `let` owns a fresh slot (the real code numbers them by hash-set iteration order; the model
numbers them in source order — the correspondence compares modulo that renaming).
-/
namespace Abra.Compile
open Abra.Sem Abra.VM

inductive Target where
  | rel (k : Int)
  | brk
  | cont
  deriving DecidableEq, Repr, Inhabited

abbrev Code := List (Instr Target)

inductive Ty where
  | int | bool | unit
  deriving DecidableEq, Repr, Inhabited

/-- compile-time environment, innermost binding first: name ↦ (slot, type) -/
abbrev TEnv := List (String × Nat × Ty)

def TEnv.find : TEnv → String → Option (Nat × Ty)
  | [], _ => none
  | (y, s, t) :: r, x => if x = y then some (s, t) else TEnv.find r x

def mapT {α β : Type} (f : α → β) : Instr α → Instr β
  | .pushNil n => .pushNil n
  | .pushInt n => .pushInt n
  | .pushBool b => .pushBool b
  | .pushStr s => .pushStr s
  | .pushAddr t => .pushAddr (f t)
  | .pop => .pop
  | .dup => .dup
  | .load i => .load i
  | .store i => .store i
  | .intOp op d a b => .intOp op d a b
  | .intCmp op d a b => .intCmp op d a b
  | .eqBool d a b => .eqBool d a b
  | .not d a => .not d a
  | .jump t => .jump (f t)
  | .jumpIf t => .jumpIf (f t)
  | .jumpIfFalse t => .jumpIfFalse (f t)
  | .call n t => .call n (f t)
  | .callFuncObj n => .callFuncObj n
  | .ret n => .ret n
  | .retVoid => .retVoid
  | .stop => .stop
  | .panic => .panic
  | .constructStruct n => .constructStruct n
  | .constructVariant t => .constructVariant t
  | .deconstructStruct => .deconstructStruct
  | .deconstructVariant => .deconstructVariant
  | .makeClosure n => .makeClosure n
  | .getField i r => .getField i r
  | .print t => .print t

/-- absolute target of a jump sitting at absolute position `pos`; `lc` = (start, end) of the
    enclosing loop for the open placeholders -/
def resolveT (pos : Nat) (lc : Nat × Nat) : Target → Nat
  | .rel k => ((pos : Int) + 1 + k).toNat
  | .brk => lc.2
  | .cont => lc.1

def resolveAt (base : Nat) (lc : Nat × Nat) : Code → Program
  | [] => []
  | i :: rest => mapT (resolveT base lc) i :: resolveAt (base + 1) lc rest

/-- close the placeholders of a loop body: the body starts `o` instructions after the loop start
    and is `len` long; `i` is the index of the head of the list inside the body.  `brk` goes just past the
    back jump that follows the body, `cont` to the loop start. -/
def closeBody (o len : Nat) (i : Nat) : Code → Code
  | [] => []
  | ins :: rest =>
    mapT (fun t => match t with
      | .brk => .rel ((len : Int) - i)
      | .cont => .rel (-((o : Int) + i + 1))
      | t => t) ins :: closeBody o len (i + 1) rest

def arithOp : BinOp → Option IntOp
  | .add => some .add | .sub => some .sub | .mul => some .mul
  | .div => some .div | .pow => some .pow | .mod => some .mod
  | _ => none

def cmpOp : BinOp → Option CmpOp
  | .lt => some .lt | .le => some .le | .gt => some .gt | .ge => some .ge
  | _ => none

def asgOp : AsgOp → Option IntOp
  | .set => none
  | .add => some .add | .sub => some .sub | .mul => some .mul | .div => some .div | .mod => some .mod

/-- the instructions after both operands of a strict binary operator, and the result type -/
def strictOp (op : BinOp) (ta tb : Ty) : Option (Code × Ty) :=
  match op, ta, tb with
  | .eq, .int, .int => some ([.intCmp .eq .top .top .top], .bool)
  | .ne, .int, .int => some ([.intCmp .eq .top .top .top, .not .top .top], .bool)
  | .eq, .bool, .bool => some ([.eqBool .top .top .top], .bool)
  | .ne, .bool, .bool => some ([.eqBool .top .top .top, .not .top .top], .bool)
  | op, .int, .int =>
    match arithOp op, cmpOp op with
    | some o, _ => some ([.intOp o .top .top .top], .int)
    | none, some o => some ([.intCmp o .top .top .top], .bool)
    | none, none => none
  | _, _, _ => none

mutual
/-- code, type and the next free slot.  `d` = number of operands pending on the stack since the body of the
    innermost enclosing loop began (`TranslatorState::pending_operands` minus `EnclosingLoop::pending_operands`,
    fix 0c43abd): `translate_expr` leaves it at its value on entry plus one when the expression yields a value,
    `translate_stmt` restores it; `break`/`continue` pop that many operands before they jump. -/
def compE (Γ : TEnv) (next : Nat) (d : Nat) : Expr → Option (Code × Ty × Nat)
  | .int k => some ([.pushInt k], .int, next)
  | .bool b => some ([.pushBool b], .bool, next)
  | .unit => some ([], .unit, next)
  | .var x =>
    match Γ.find x with
    | some (_, .unit) => some ([], .unit, next)
    | some (s, t) => some ([.load s], t, next)
    | none => none
  | .un .neg a =>
    -- `PushInt 0` is pending while the operand runs
    match compE Γ next (d + 1) a with
    | some (ca, .int, n1) => some ([.pushInt 0] ++ ca ++ [.intOp .sub .top .top .top], .int, n1)
    | _ => none
  | .un .not a =>
    match compE Γ next d a with
    | some (ca, .bool, n1) => some (ca ++ [.not .top .top], .bool, n1)
    | _ => none
  | .bin .or a b =>
    -- the conditional jump consumes the left operand before the right one runs
    match compE Γ next d a with
    | some (ca, .bool, n1) =>
      match compE Γ n1 d b with
      | some (cb, .bool, n2) =>
        some (ca ++ [.jumpIf (.rel (cb.length + 1))] ++ cb ++ [.jump (.rel 1), .pushBool true], .bool, n2)
      | _ => none
    | _ => none
  | .bin .and a b =>
    match compE Γ next d a with
    | some (ca, .bool, n1) =>
      match compE Γ n1 d b with
      | some (cb, .bool, n2) =>
        some (ca ++ [.jumpIfFalse (.rel (cb.length + 1))] ++ cb ++ [.jump (.rel 1), .pushBool false], .bool, n2)
      | _ => none
    | _ => none
  | .bin op a b =>
    -- the left operand (int or bool in F0: one value) is pending while the right one runs
    match compE Γ next d a with
    | none => none
    | some (ca, ta, n1) =>
      match compE Γ n1 (d + 1) b with
      | none => none
      | some (cb, tb, n2) =>
        match strictOp op ta tb with
        | some (is, t) => some (ca ++ cb ++ is, t, n2)
        | none => none
  | .ite c t f =>
    match compE Γ next d c with
    | some (cc, .bool, n1) =>
      match compE Γ n1 d t with
      | none => none
      | some (ct, tt, n2) =>
        match compE Γ n2 d f with
        | none => none
        | some (cf, tf, n3) =>
          if tt = tf then
            some (cc ++ [.jumpIfFalse (.rel (ct.length + 1))] ++ ct ++ [.jump (.rel cf.length)] ++ cf, tt, n3)
          else none
    | _ => none
  | .block ss => compSs Γ next d true ss
  | .print a =>
    match compE Γ next d a with
    | some (ca, .int, n1) => some (ca ++ [.print .int], .unit, n1)
    | some (ca, .bool, n1) => some (ca ++ [.print .bool], .unit, n1)
    | _ => none
  | _ => none

/-- one statement; `isLast` = last statement of a block expression (its value is the block's) -/
def compS (Γ : TEnv) (next : Nat) (d : Nat) (isLast : Bool) : Stmt → Option (Code × Ty × TEnv × Nat)
  | .let_ (.bind x) e =>
    match compE Γ (next + 1) d e with
    | some (_, .unit, _) => none          -- void bindings own no slot: outside F0
    | some (ce, t, n1) => some (ce ++ [.store next], .unit, (x, next, t) :: Γ, n1)
    | none => none
  | .assign x .set e =>
    match Γ.find x, compE Γ next d e with
    | some (s, t), some (ce, t', n1) =>
      if t = t' ∧ t ≠ .unit then some (ce ++ [.store s], .unit, Γ, n1) else none
    | _, _ => none
  | .assign x op e =>
    -- the loaded old value is pending while the right-hand side runs
    match Γ.find x, asgOp op, compE Γ next (d + 1) e with
    | some (s, .int), some o, some (ce, .int, n1) =>
      some ([.load s] ++ ce ++ [.intOp o .top .top .top, .store s], .unit, Γ, n1)
    | _, _, _ => none
  | .expr e =>
    match compE Γ next d e with
    | some (ce, t, n1) =>
      some (if !isLast && t != .unit then ce ++ [.pop] else ce, (if isLast then t else .unit), Γ, n1)
    | none => none
  | .while_ c body =>
    -- the condition still belongs to the enclosing loop; the body starts a new count
    match compE Γ next d c with
    | some (cc, .bool, n1) =>
      match compSs Γ n1 0 false body with
      | some (cb, _, n2) =>
        some (cc ++ [.jumpIfFalse (.rel (cb.length + 1))] ++ closeBody (cc.length + 1) cb.length 0 cb
                ++ [.jump (.rel (-((cc.length : Int) + 1 + cb.length + 1)))], .unit, Γ, n2)
      | none => none
    | _ => none
  -- inside an expression: drop the operands pushed since the loop body began, then jump
  | .break_ => some (List.replicate d .pop ++ [.jump .brk], .unit, Γ, next)
  | .continue_ => some (List.replicate d .pop ++ [.jump .cont], .unit, Γ, next)
  | _ => none

/-- statement list; `blk` = block expression (the last statement is translated with `is_last`),
    otherwise a loop body (every statement with `is_last = false`).  The bindings are local. -/
def compSs (Γ : TEnv) (next : Nat) (d : Nat) (blk : Bool) : Stmts → Option (Code × Ty × Nat)
  | .nil => some ([], .unit, next)
  | .cons s .nil =>
    match compS Γ next d blk s with
    | some (c, t, _, n1) => some (c, t, n1)
    | none => none
  | .cons s rest =>
    match compS Γ next d false s with
    | some (c, _, Γ', n1) =>
      match compSs Γ' n1 d blk rest with
      | some (cr, t, n2) => some (c ++ cr, t, n2)
      | none => none
    | none => none
end

/- HISTORICAL (before 0c43abd): `break`/`continue` were a bare `Jump`, and the generated code kept the operand
   stack in step only for programs where no operand of the enclosing loop is pending at a `break`/`continue`
   (D21).  `depthSafe*` is that side condition; it is no longer a hypothesis of any theorem — it only classifies
   generated programs in the harness statistics (`d` = number of pending operands). -/
mutual
def depthSafeE (d : Nat) : Expr → Bool
  | .un .neg a => depthSafeE (d + 1) a
  | .un .not a => depthSafeE d a
  | .bin .and a b => depthSafeE d a && depthSafeE d b
  | .bin .or a b => depthSafeE d a && depthSafeE d b
  | .bin _ a b => depthSafeE d a && depthSafeE (d + 1) b
  | .ite c t f => depthSafeE d c && depthSafeE d t && depthSafeE d f
  | .block ss => depthSafeSs d ss
  | .print a => depthSafeE d a
  | _ => true
def depthSafeS (d : Nat) : Stmt → Bool
  | .let_ _ e => depthSafeE d e
  | .assign _ .set e => depthSafeE d e
  | .assign _ _ e => depthSafeE (d + 1) e
  | .expr e => depthSafeE d e
  | .while_ c body => depthSafeE d c && depthSafeSs 0 body
  | .break_ => d == 0
  | .continue_ => d == 0
  | _ => true
def depthSafeSs (d : Nat) : Stmts → Bool
  | .nil => true
  | .cons s rest => depthSafeS d s && depthSafeSs d rest
end

/-- `<main>`: `PushNil(#locals)`, the statements (the last one with `is_last`), `Stop` -/
def compileMain (ss : Stmts) : Option Program :=
  match compSs [] 0 0 true ss with
  | some (c, _, n) => some (resolveAt 0 (0, 0) ([.pushNil n] ++ c ++ [.stop]))
  | none => none

end Abra.Compile
