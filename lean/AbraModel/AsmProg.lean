import AbraModel.Opt
/-
M6 (part 3) — whole labelled programs: control flow through labels, calls and returns.

The block semantics `Asm.run` stops at a taken jump.  Here a program is a `List Line`; the point of
execution is a continuation (the suffix of the line list still to run), code addresses are symbolic
(a label names the suffix after its first occurrence; a return address is the suffix after the call),
so that the states of a program and of its optimized image can be compared for equality.

Instructions outside the optimizer's vocabulary (`Instr.other`) are classified by an uninterpreted
`Ctrl`: a plain state transformer (which may jump to a label), a call (push a frame holding the return
continuation and whatever the VM saves — stack base, argument count — as opaque `info`, continue at a
label: `Call`, and `CallFuncObj` whose target the transformer reads from the function object), a return
(pop a frame and rebuild the state from its `info`: `Return`, `ReturnVoid`), or a halt (`Stop`).
-/
namespace Abra.Asm

variable {H : Type}

inductive OtherStep (H : Type) where
  | plain (r : Res (St H × Ctl))
  | call (s : St H) (target : String) (info : List Nat)
  | ret (k : List Nat → Res (St H))
  | halt (s : St H)

structure Ctrl (H : Type) where
  classify : String → St H → OtherStep H

/-- the code after the first occurrence of `label l` -/
def afterLabel : List Line → String → Option (List Line)
  | [], _ => none
  | .label l' :: r, l => if l' = l then some r else afterLabel r l
  | .instr _ _ :: r, l => afterLabel r l

inductive Final (H : Type) where
  | halted (s : St H)
  | fellOff (s : St H)
  | err (k : ErrKind)
  | fault
  | badJump (l : String)
  | sideFail          -- only with `chk`: a side condition of the optimizer does not hold here
  | timeout

abbrev Frames := List (List Line × List Nat)

def secondOffsetOf : Instr → Option Int
  | .binI _ _ _ (.off y) => some y
  | .binF _ _ _ (.off y) => some y
  | .atan2 _ _ (.off y) => some y
  | .arrayPush _ (.off y) => some y
  | .getIndex _ (.off y) => some y
  | .setIndex _ (.off y) => some y
  | _ => none

/-- the two side conditions of the peephole rules at an adjacent instruction pair (see C05):
    `Duplicate` is followed by another instruction only on a non-empty stack, and after `LoadOffset` the
    second operand offset of the next instruction does not name the slot just above the top of stack -/
def winOkB (s : St H) (i1 i2 : Instr) : Bool :=
  (match i1 with
   | .duplicate => !s.stack.isEmpty
   | _ => true) &&
  (match i1, secondOffsetOf i2 with
   | .loadOffset _, some y => Opt.secondArgIsTop i2 || (absIdx s.base y != some s.stack.length)
   | _, _ => true)

def nextPairOk (s : St H) (i : Instr) : List Line → Bool
  | .instr i2 _ :: _ => winOkB s i i2
  | _ => true

/-- what one instruction does: an opaque instruction as classified, any other as a plain step -/
def stepOf (P : Prims H) (C : Ctrl H) (i : Instr) (s : St H) : OtherStep H :=
  match i with
  | .other t => C.classify t s
  | i => .plain (exec P i s)

/-- one instruction of a whole program; `k` is "the rest of the run" -/
def stepBody (prog : List Line) (k : List Line → Frames → St H → Final H) (st : OtherStep H)
    (r : List Line) (fr : Frames) : Final H :=
  match st with
  | .plain (.ok (s', .next)) => k r fr s'
  | .plain (.ok (s', .jump l)) =>
    match afterLabel prog l with
    | some r' => k r' fr s'
    | none => .badJump l
  | .plain (.err e) => .err e
  | .plain .fault => .fault
  | .call s' l info =>
    match afterLabel prog l with
    | some r' => k r' ((r, info) :: fr) s'
    | none => .badJump l
  | .ret g =>
    match fr with
    | [] => .fault
    | (r', info) :: fr' =>
      match g info with
      | .ok s' => k r' fr' s'
      | .err e => .err e
      | .fault => .fault
  | .halt s' => .halted s'

def stepG (P : Prims H) (C : Ctrl H) (prog : List Line) (chk : Bool)
    (k : List Line → Frames → St H → Final H) (i : Instr) (r : List Line) (fr : Frames) (s : St H) : Final H :=
  if chk && !nextPairOk s i r then .sideFail else stepBody prog k (stepOf P C i s) r fr

/-- run a program from a continuation (`fuel` bounds the number of lines visited); `chk` additionally
    stops with `sideFail` when an adjacent instruction pair about to be executed violates a side condition -/
def runG (P : Prims H) (C : Ctrl H) (prog : List Line) (chk : Bool) :
    Nat → List Line → Frames → St H → Final H
  | 0, _, _, _ => .timeout
  | _ + 1, [], _, s => .fellOff s
  | f + 1, .label _ :: r, fr, s => runG P C prog chk f r fr s
  | f + 1, .instr i _ :: r, fr, s => stepG P C prog chk (runG P C prog chk f) i r fr s

end Abra.Asm
