import AbraModel.GC
import AbraModel.Drv.Util
/-
Driver for M5.  A snapshot is five words, as written by the `verif_gc::snapshot` hook:
  phase=<i|m|s> idx=<n> heap=<addr>:<0|1>:<child,..>;.. roots=<a,..> gray=<a,..>   (gray bottom first)
Requests:
  gc step <before> <after>   "ok" iff one collector increment of the model maps before to after
  gc mut  <before> <after>   "ok" iff the pair satisfies the mutator contract `mutatorOKb`
  gc safe <snap>             "ok" iff every address reachable from the roots is in the heap list
-/
namespace Abra.Drv
open Abra.GC

def splitNonEmpty (s : String) (sep : String) : List String :=
  (s.splitOn sep).filter (· ≠ "")

def parseNats (s : String) : Option (List Nat) :=
  (splitNonEmpty s ",").mapM (·.toNat?)

def afterEq (w : String) (key : String) : Option String :=
  if w.startsWith (key ++ "=") then some ((w.drop (key.length + 1)).toString) else none

def parseObjEntry (e : String) : Option (Nat × Obj) :=
  match e.splitOn ":" with
  | [a, m, cs] =>
    match a.toNat?, parseNats cs with
    | some a, some cs =>
      if m = "1" then some (a, ⟨cs, true⟩) else if m = "0" then some (a, ⟨cs, false⟩) else none
    | _, _ => none
  | _ => none

def lookupObj (tbl : List (Nat × Obj)) (a : Nat) : Obj :=
  match tbl.lookup a with
  | some o => o
  | none => ⟨[], false⟩

def parseSnap : List String → Option St
  | [p, i, h, r, g] =>
    match afterEq p "phase", afterEq i "idx", afterEq h "heap", afterEq r "roots", afterEq g "gray" with
    | some p, some i, some h, some r, some g =>
      match i.toNat?, (splitNonEmpty h ";").mapM parseObjEntry, parseNats r, parseNats g with
      | some i, some tbl, some roots, some gray =>
        let addrs := tbl.map Prod.fst
        let ph? : Option Phase :=
          if p = "i" then some .idle else if p = "m" then some .marking
          else if p = "s" then some .sweeping else none
        match ph? with
        | some ph =>
          let (done, todo) := if ph = .sweeping then (addrs.take i, addrs.drop i) else ([], addrs)
          some { obj := lookupObj tbl, done := done, todo := todo, roots := roots,
                 gray := gray.reverse, phase := ph }
        | none => none
      | _, _, _, _ => none
    | _, _, _, _, _ => none
  | _ => none

def joinNats (l : List Nat) : String := String.intercalate "," (l.map toString)

def renderSnap (σ : St) : String :=
  let ph := match σ.phase with | .idle => "i" | .marking => "m" | .sweeping => "s"
  let ents := σ.heap.map (fun a =>
    s!"{a}:{if σ.marked a then "1" else "0"}:{joinNats (σ.children a)}")
  s!"phase={ph} idx={σ.done.length} heap={String.intercalate ";" ents} roots={joinNats σ.roots} gray={joinNats σ.gray.reverse}"

def fuelFor (σ : St) : Nat :=
  σ.roots.length + σ.heap.length + (σ.heap.map (fun a => (σ.children a).length)).foldl (· + ·) 0 + 1

/-- which clauses of the contract fail (diagnostics only; the verdict is `mutatorOKb`) -/
def mutatorWhy (σ σ' : St) (fuel : Nat) : String :=
  let R := reachList σ fuel
  let new := σ'.todo.drop σ.todo.length
  let okRef := fun c => R.contains c || new.contains c
  let k := σ'.gray.length - σ.gray.length
  let cs : List (String × Bool) := [
    ("phase", decide (σ'.phase = σ.phase)),
    ("done", decide (σ'.done = σ.done)),
    ("todo-prefix", decide (σ'.todo.take σ.todo.length = σ.todo)),
    ("fresh", allB new (fun a => !(σ.heap.contains a))),
    ("new-colour", allB new (fun a => σ'.marked a == (σ.phase != .idle))),
    ("new-gray", allB new (fun a => σ.phase != .marking || σ'.gray.contains a)),
    ("marks", allB σ.heap (fun a => σ'.marked a == σ.marked a ||
        (σ.phase == .marking && !σ.marked a && σ'.marked a && σ'.gray.contains a && R.contains a))),
    ("gray-grows", decide (σ'.gray.drop k = σ.gray) && decide (σ.gray.length ≤ σ'.gray.length)),
    ("pushed", allB (σ'.gray.take k) (fun a => σ'.heap.contains a && σ'.marked a) && (σ.phase == .marking || k == 0)),
    ("refs", allB σ'.heap (fun a => allB (σ'.children a) (fun c =>
        (σ.heap.contains a && (σ.children a).contains c) || okRef c))),
    ("roots", allB σ'.roots okRef),
    ("barrier", σ.phase != .marking || allB σ'.heap (fun p => !σ'.marked p || σ'.gray.contains p ||
        allB (σ'.children p) (fun c => (σ.heap.contains p && (σ.children p).contains c) || σ'.marked c)))]
  String.intercalate "," ((cs.filter (fun c => !c.2)).map Prod.fst)

def handleGC : List String → String
  | "step" :: rest =>
    if rest.length ≠ 10 then "bad-op" else
    match parseSnap (rest.take 5), parseSnap (rest.drop 5) with
    | some σ, some _ =>
      let want := String.intercalate " " (rest.drop 5)
      let got := renderSnap (gcStep σ)
      if got = want then "ok" else "diff model=" ++ got.replace " " "|"
    | _, _ => "bad-op"
  | "mut" :: rest =>
    if rest.length ≠ 10 then "bad-op" else
    match parseSnap (rest.take 5), parseSnap (rest.drop 5) with
    | some σ, some σ' =>
      let fuel := fuelFor σ
      if mutatorOKb σ σ' fuel then "ok" else "bad " ++ mutatorWhy σ σ' fuel
    | _, _ => "bad-op"
  | "safe" :: rest =>
    match parseSnap rest with
    | some σ => if safeB σ (fuelFor σ) then "ok" else "unsafe"
    | none => "bad-op"
  | _ => "bad-op"

end Abra.Drv
