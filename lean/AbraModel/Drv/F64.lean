import AbraModel.F64
import AbraModel.Drv.Util
/- Driver for M2.  Bit patterns travel as 16 hex digits.
   `f64 cmp <a> <b>`                       the six comparison instructions
   `f64 arith <var|lit> <op> <a> <b> <c>`  `c` = the IEEE result of `a op b` as the host computes it (IEEE
                                           arithmetic is a parameter of the model); var = VM instruction,
                                           lit = both operands literal (optimizer fold)
   `f64 neg <x> <c>`                       unary minus; `c` = the host's `-0.0 - x`
   `f64 toint <a>`                         IntFromFloat
   `f64 fromint <n>`                       FloatFromInt
   NOTE: `arith`, `chain`, `chainr`, `neg`, `atan2` and `math` (except floor/ceil/round) carry the host's IEEE result in
   the request and the model hands it back: there the model only decides the zero-divisor error, the evaluation
   order, fold = computation and the NaN rendering; the value comparison is the harness's Rust oracle.
   `cmp`, `toint`, `fromint`, `math floor|ceil|round` and `viastring` are computed by the model alone. -/
namespace Abra.Drv
namespace F64D
open Abra.F64

def bits? (s : String) : Option UInt64 :=
  if s.length ≠ 16 then none else
  match unhex s with
  | some bs => some (bs.foldl (fun acc b => acc * 256 + b.toUInt64) 0)
  | none => none

def hex64 (b : UInt64) : String :=
  String.ofList ((List.range 16).map (fun i => hexDigit ((b.toNat / 16 ^ (15 - i)) % 16)))

/-- NaNs are rendered by sign only: the payload cannot be observed through printing or comparing -/
def renderBits (b : UInt64) : String :=
  if isNaN b then (if sign b then "nan-" else "nan+") else hex64 b

def renderRes : Res → String
  | .val b => "ok " ++ renderBits b
  | .divZero => "err divzero"

def arith? : String → Option Arith
  | "add" => some .add | "sub" => some .sub | "mul" => some .mul | "div" => some .div | "pow" => some .pow
  | _ => none

def bit01 (b : Bool) : String := if b then "1" else "0"

end F64D
open Abra.F64 F64D

def handleF64 : List String → String
  | ["cmp", a, b] =>
    match bits? a, bits? b with
    | some a, some b =>
      s!"lt={bit01 (flt a b)} le={bit01 (fle a b)} gt={bit01 (fgt a b)} ge={bit01 (fge a b)} eq={bit01 (feq a b)} ne={bit01 (fne a b)}"
    | _, _ => "bad-op"
  | ["arith", form, op, a, b, c] =>
    match arith? op, bits? a, bits? b, bits? c with
    | some op, some a, some b, some c =>
      let ar : Arith → UInt64 → UInt64 → UInt64 := fun _ _ _ => c
      match form with
      | "var" => renderRes (computed ar op a b)
      | "lit" => renderRes (folded ar op a b)
      | _ => "bad-op"
    | _, _, _, _ => "bad-op"
  | "chain" :: v :: rest =>
    -- `chain <v> (<op> <a> <c>)+`: `c` = the host's result of `running op a`, step by step
    let rec parse : List String → Option (List (Arith × UInt64 × UInt64))
      | [] => some []
      | op :: a :: c :: more =>
        match arith? op, bits? a, bits? c, parse more with
        | some op, some a, some c, some l => some ((op, a, c) :: l)
        | _, _, _, _ => none
      | _ => none
    match bits? v, parse rest with
    | some v, some steps =>
      if steps.isEmpty then "bad-op" else
      -- IEEE arithmetic as the host performed it: a table from (op, running value, operand) to the result
      let rec table : UInt64 → List (Arith × UInt64 × UInt64) → List (Arith × UInt64 × UInt64 × UInt64)
        | _, [] => []
        | x, (op, a, c) :: more => (op, x, a, c) :: table c more
      let tb := table v steps
      let ar : Arith → UInt64 → UInt64 → UInt64 := fun op x y =>
        match tb.find? (fun (o, x', y', _) => o == op && x' == x && y' == y) with
        | some (_, _, _, c) => c
        | none => 0
      renderRes (evalChain ar (.val v) (steps.map (fun (op, a, _) => (op, a))))
    | _, _ => "bad-op"
  | ["chainr", v, op1, a, op2, b, t, c] =>
    -- `v op1 (a op2 b)`: `t` = host's `a op2 b`, `c` = host's `v op1 t`
    match bits? v, arith? op1, bits? a, arith? op2, bits? b, bits? t, bits? c with
    | some v, some op1, some a, some op2, some b, some t, some c =>
      let ar : Arith → UInt64 → UInt64 → UInt64 := fun op x y =>
        if op == op2 && x == a && y == b then t else if op == op1 && x == v && y == t then c else 0
      renderRes (evalRight ar v op1 a op2 b)
    | _, _, _, _, _, _, _ => "bad-op"
  | ["math", f, x, c] =>
    -- unary math instruction; `c` = the host's libm result (ignored for floor/ceil/round, which the model computes)
    let fn? : Option Math1 := match f with
      | "sqrt" => some .sqrt | "sin" => some .sin | "cos" => some .cos | "tan" => some .tan
      | "asin" => some .asin | "acos" => some .acos | "atan" => some .atan | "log" => some .log
      | "log2" => some .log2 | "log10" => some .log10 | "floor" => some .floor | "ceil" => some .ceil
      | "round" => some .round | _ => none
    match fn?, bits? x, bits? c with
    | some fn, some x, some c => "ok " ++ renderBits (math1 (fun _ _ => c) fn x)
    | _, _, _ => "bad-op"
  | ["atan2", _y, _x, c] =>
    match bits? c with
    | some c => "ok " ++ renderBits c
    | none => "bad-op"
  | ["viastring", x] =>
    -- `string_from_float` / `.str()` then parsed back by the host
    match bits? x with
    | some x => "ok " ++ renderBits (viaString x)
    | none => "bad-op"
  | ["neg", x, c] =>
    match bits? x, bits? c with
    | some x, some c => "ok " ++ renderBits (negate (fun _ _ => c) x)
    | _, _ => "bad-op"
  | ["toint", a] =>
    match bits? a with
    | some a => toString (intFromFloat a)
    | none => "bad-op"
  | ["fromint", n] =>
    match parseInt? n with
    | some n => if i64Min ≤ n ∧ n ≤ i64Max then hex64 (floatFromInt n) else "bad-op"
    | none => "bad-op"
  | _ => "bad-op"

end Abra.Drv
