import AbraModel.Lib.Sort
import AbraModel.Lib.SortLoops
import AbraModel.Drv.Util
/- Driver for M11 sort: `sort <cmp> e1 e2 …`; elements are `key,tag` pairs (plain `key` for cmp = int).
   Answer: the sorted elements in the same spelling, `-` for the empty array.
   The driver runs the index-level model `sortByA` (array, indices, scratch array, in-place writes);
   `C25_sort_by_index_level` proves it equal to the list-level `sortBy` the property theorems are about. -/
namespace Abra.Drv.SortDrv
open Abra.Lib

def parsePair? (s : String) : Option (Int × Int) :=
  match s.splitOn "," with
  | [k, t] => match parseInt? k, parseInt? t with
    | some k, some t => some (k, t)
    | _, _ => none
  | _ => none

def parseAll? {β : Type} (f : String → Option β) : List String → Option (List β)
  | [] => some []
  | s :: rest => match f s, parseAll? f rest with
    | some x, some xs => some (x :: xs)
    | _, _ => none

def showPairs (l : List (Int × Int)) : String :=
  if l.isEmpty then "-" else " ".intercalate (l.map fun p => s!"{p.1},{p.2}")

def showInts (l : List Int) : String :=
  if l.isEmpty then "-" else " ".intercalate (l.map fun p => s!"{p}")

/-- the comparators the harness passes to `sort_by` / `sort_by_key`, as the Abra lambdas spell them -/
def pairCmp? : String → Option (List (Int × Int) → List (Int × Int))
  | "lex" => some (sortByA lexLe)
  | "le" => some (sortByA fun a b => decide (a.1 ≤ b.1))
  | "ge" => some (sortByA fun a b => decide (a.1 ≥ b.1))
  | "key" => some (sortByA fun a b => decide (a.1 ≤ b.1))         -- sort_by_key(k) = sort_by(key(a) <= key(b))
  | "keymod" => some (sortByA fun a b => decide (a.1 % 5 ≤ b.1 % 5))
  | "lt" => some (sortByA fun a b => decide (a.1 < b.1))
  | "tt" => some (sortByA fun _ _ => true)
  | "ff" => some (sortByA fun _ _ => false)
  | "cyc" => some (sortByA fun a b => (a.1 % 3 == b.1 % 3) || ((a.1 % 3 + 1) % 3 == b.1 % 3))
  | _ => none

def handleSort : List String → String
  | "int" :: elems =>
    match parseAll? parseInt? elems with
    | some l => showInts (sortByA (fun a b : Int => decide (a ≤ b)) l)
    | none => "bad-op"
  | cmp :: elems =>
    match pairCmp? cmp, parseAll? parsePair? elems with
    | some f, some l => showPairs (f l)
    | _, _ => "bad-op"
  | _ => "bad-op"

end Abra.Drv.SortDrv

def Abra.Drv.handleSort : List String → String := Abra.Drv.SortDrv.handleSort
