import AbraModel.Lib.Render
import AbraModel.Drv.Util
/- Driver for the rendering model (C28).
   Request: `render print v | render println v | render str v | render cat v w`
   value  := I <int> | B T | B F | N | S <hex utf-8> | A <n> v1 … vn | T <n> v1 … vn (n = 2,3,4)
           | SOME v | NONE | OK v | ERR v
   Answer: hex of the UTF-8 text handed to print_string (`-` for the empty text). -/
namespace Abra.Drv.RenderDrv
open Abra.Lib.Render Abra.Drv

mutual
  partial def parseVal : List String → Option (Val × List String)
    | "I" :: n :: rest => (parseInt? n).map fun n => (.int n, rest)
    | "B" :: "T" :: rest => some (.bool true, rest)
    | "B" :: "F" :: rest => some (.bool false, rest)
    | "N" :: rest => some (.nil, rest)
    | "S" :: hx :: rest =>
      match unhex hx with
      | some bs => match String.fromUTF8? (ByteArray.mk bs.toArray) with
        | some s => some (.str s, rest)
        | none => none
      | none => none
    | "A" :: n :: rest =>
      match n.toNat? with
      | some n => (parseVals n rest).map fun (vs, rest) => (.arr vs, rest)
      | none => none
    | "T" :: n :: rest =>
      match n.toNat? with
      | some n =>
        match parseVals n rest with
        | some ([a, b], rest) => some (.tup2 a b, rest)
        | some ([a, b, c], rest) => some (.tup3 a b c, rest)
        | some ([a, b, c, d], rest) => some (.tup4 a b c d, rest)
        | _ => none
      | none => none
    | "SOME" :: rest => (parseVal rest).map fun (v, rest) => (.some v, rest)
    | "NONE" :: rest => some (.none, rest)
    | "OK" :: rest => (parseVal rest).map fun (v, rest) => (.ok v, rest)
    | "ERR" :: rest => (parseVal rest).map fun (v, rest) => (.err v, rest)
    | _ => none
  partial def parseVals : Nat → List String → Option (List Val × List String)
    | 0, rest => some ([], rest)
    | n + 1, toks =>
      match parseVal toks with
      | none => none
      | some (v, rest) => (parseVals n rest).map fun (vs, rest) => (v :: vs, rest)
end

def out (s : String) : String := hex s.toUTF8.toList

def handleRender : List String → String
  | "print" :: toks => match parseVal toks with
    | some (v, []) => out (printed v)
    | _ => "bad-op"
  | "println" :: toks => match parseVal toks with
    | some (v, []) => out (printedLn v)
    | _ => "bad-op"
  | "str" :: toks => match parseVal toks with
    | some (v, []) => out (strV v)
    | _ => "bad-op"
  | "cat" :: toks => match parseVal toks with
    | some (v, rest) => match parseVal rest with
      | some (w, []) => out (formatAppend v w)
      | _ => "bad-op"
    | _ => "bad-op"
  | _ => "bad-op"

end Abra.Drv.RenderDrv

def Abra.Drv.handleRender : List String → String := Abra.Drv.RenderDrv.handleRender
