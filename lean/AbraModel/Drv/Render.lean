import AbraModel.Lib.Render
import AbraModel.Drv.Util
/- Driver for the rendering model (C28).
   Request: `render print v | render println v | render str v | render cat v w`
   value  := X <hex text of a float / user-type / channel value's own str> | I <int> | B T | B F | N | S <hex utf-8> | A <n> v1 … vn | T <n> v1 … vn (n = 2,3,4)
           | SOME v | NONE | OK v | ERR v
           | render multi <stmt> ; <stmt> ; …    (one program rendering the same values several times)
   stmt   := print v | println v | str v | chain <n> v1 … vn | lit <hex> | eq v w   (`print(v == w)`)
   Answer: hex of the UTF-8 text handed to print_string (`-` for the empty text). -/
namespace Abra.Drv.RenderDrv
open Abra.Lib.Render Abra.Drv

mutual
  partial def parseVal : List String → Option (Val × List String)
    | "I" :: n :: rest => (parseInt? n).map fun n => (.int n, rest)
    | "B" :: "T" :: rest => some (.bool true, rest)
    | "B" :: "F" :: rest => some (.bool false, rest)
    | "N" :: rest => some (.nil, rest)
    | "S" :: hx :: rest =>
      match unhex hx with
      | some bs => match String.fromUTF8? (ByteArray.mk bs.toArray) with
        | some s => some (.str s, rest)
        | none => none
      | none => none
    | "X" :: hx :: rest =>
      match unhex hx with
      | some bs => match String.fromUTF8? (ByteArray.mk bs.toArray) with
        | some s => some (.ext s, rest)
        | none => none
      | none => none
    | "A" :: n :: rest =>
      match n.toNat? with
      | some n => (parseVals n rest).map fun (vs, rest) => (.arr vs, rest)
      | none => none
    | "T" :: n :: rest =>
      match n.toNat? with
      | some n =>
        match parseVals n rest with
        | some ([a, b], rest) => some (.tup2 a b, rest)
        | some ([a, b, c], rest) => some (.tup3 a b c, rest)
        | some ([a, b, c, d], rest) => some (.tup4 a b c d, rest)
        | _ => none
      | none => none
    | "SOME" :: rest => (parseVal rest).map fun (v, rest) => (.some v, rest)
    | "NONE" :: rest => some (.none, rest)
    | "OK" :: rest => (parseVal rest).map fun (v, rest) => (.ok v, rest)
    | "ERR" :: rest => (parseVal rest).map fun (v, rest) => (.err v, rest)
    | _ => none
  partial def parseVals : Nat → List String → Option (List Val × List String)
    | 0, rest => some ([], rest)
    | n + 1, toks =>
      match parseVal toks with
      | none => none
      | some (v, rest) => (parseVals n rest).map fun (vs, rest) => (v :: vs, rest)
end

def out (s : String) : String := hex s.toUTF8.toList

/-- `Equal.equal` on values of the same built-in type (string/int/bool equality, arrays and tuples elementwise) -/
partial def valEq : Val → Val → Bool
  | .int a, .int b => a == b
  | .bool a, .bool b => a == b
  | .nil, .nil => true
  | .str a, .str b => a == b
  | .ext a, .ext b => a == b
  | .arr xs, .arr ys => xs.length == ys.length && (List.zipWith valEq xs ys).all id
  | .tup2 a b, .tup2 c d => valEq a c && valEq b d
  | .tup3 a b c, .tup3 d e f => valEq a d && valEq b e && valEq c f
  | .tup4 a b c d, .tup4 e f g h => valEq a e && valEq b f && valEq c g && valEq d h
  | _, _ => false

def splitSemi (toks : List String) : List (List String) :=
  (toks.foldr (fun t (acc : List (List String)) =>
    if t == ";" then [] :: acc
    else match acc with
      | [] => [[t]]
      | cur :: more => (t :: cur) :: more) [[]]).filter (· ≠ [])

def parseStmt : List String → Option Stmt
  | "print" :: toks => match parseVal toks with
    | some (v, []) => some (.print v)
    | _ => none
  | "println" :: toks => match parseVal toks with
    | some (v, []) => some (.println v)
    | _ => none
  | "str" :: toks => match parseVal toks with
    | some (v, []) => some (.str v)
    | _ => none
  | "chain" :: n :: toks => match n.toNat? with
    | some n => match parseVals n toks with
      | some (vs, []) => some (.chain vs)
      | _ => none
    | none => none
  | ["lit", hx] => match unhex hx with
    | some bs => (String.fromUTF8? (ByteArray.mk bs.toArray)).map .lit
    | none => none
  | "eq" :: toks => match parseVal toks with
    | some (v, rest) => match parseVal rest with
      | some (w, []) => some (.print (.bool (valEq v w)))
      | _ => none
    | _ => none
  | _ => none

def parseStmts : List (List String) → Option (List Stmt)
  | [] => some []
  | s :: rest => match parseStmt s, parseStmts rest with
    | some x, some xs => some (x :: xs)
    | _, _ => none

def handleRender : List String → String
  | "print" :: toks => match parseVal toks with
    | some (v, []) => out (printed v)
    | _ => "bad-op"
  | "println" :: toks => match parseVal toks with
    | some (v, []) => out (printedLn v)
    | _ => "bad-op"
  | "str" :: toks => match parseVal toks with
    | some (v, []) => out (strV v)
    | _ => "bad-op"
  | "multi" :: toks => match parseStmts (splitSemi toks) with
    | some l => out (emitAll l)
    | none => "bad-op"
  | "cat" :: toks => match parseVal toks with
    | some (v, rest) => match parseVal rest with
      | some (w, []) => out (formatAppend v w)
      | _ => "bad-op"
    | _ => "bad-op"
  | _ => "bad-op"

end Abra.Drv.RenderDrv

def Abra.Drv.handleRender : List String → String := Abra.Drv.RenderDrv.handleRender
