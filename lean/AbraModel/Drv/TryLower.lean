import AbraModel.TryLower
import AbraModel.Drv.Sem
import AbraModel.Drv.Compile
/- Driver for the try/unwrap models:
   `prelude <fn> <value>`      fn ∈ option.branch | option.from_residual | result.branch | result.from_residual |
                               option.unwrap | result.unwrap; value ∈ none | some:<p> | ok:<p> | err:<p> | <p>,
                               payload p ∈ int:<n> | str:<hex> | nil
                               → `C <text>` / `B <text>` (ControlFlow), `V <text>` (a value), `panic`
   `trylower <residualArgs> <retNargs>` → the six instructions of `tryCode` in the cgen spelling, jump relative
   `trycompat <operand> <ret>`  families option | result:<error type> | plain → `accept` / `reject` (`tryAccepted`) -/
namespace Abra.Drv.BG9
open Abra.Sem Abra.TryLower

def parsePayload : List String → Option Sem.Val
  | ["int", n] => n.toInt?.map .int
  | ["str", h] => (strOfHex h).map .str
  | ["nil"] => some .unit
  | _ => none

def parseValue (w : String) : Option Sem.Val :=
  match w.splitOn ":" with
  | ["none"] => some (.variant "none" [])
  | "some" :: p => (parsePayload p).map fun v => .variant "some" [v]
  | "ok" :: p => (parsePayload p).map fun v => .variant "ok" [v]
  | "err" :: p => (parsePayload p).map fun v => .variant "err" [v]
  | p => parsePayload p

def preludeFn : String → Option FnDef
  | "option.branch" => some branchOption
  | "option.from_residual" => some fromResidualOption
  | "result.branch" => some branchResult
  | "result.from_residual" => some fromResidualResult
  | "option.unwrap" => some unwrapOption
  | "result.unwrap" => some unwrapResult
  | _ => none

def parseFam (w : String) : Option TryFam :=
  match w.splitOn ":" with
  | ["option"] => some .option
  | ["result", e] => some (.result e)
  | ["plain"] => some .plain
  | _ => none

def renderV (v : Sem.Val) : String := (render 20 #[] v).getD "?"

end Abra.Drv.BG9

namespace Abra.Drv
open Abra.Drv.BG9
open Abra.Sem Abra.TryLower

def handlePrelude : List String → String
  | [f, w] =>
    match preludeFn f, parseValue w with
    | some fd, some v =>
      match callPrelude 30 fd v St.init with
      | .ok (.variant "Continue" [x]) _ => "C " ++ renderV x
      | .ok (.variant "Break" [x]) _ => "B " ++ renderV x
      | .ok x _ => "V " ++ renderV x
      | .sig (.err .panic) _ => "panic"
      | _ => "other"
    | _, _ => "bad-op"
  | _ => "bad-op"

def handleTryLower : List String → String
  | [ra, rn] =>
    match ra.toNat?, rn.toNat? with
    | some ra, some rn =>
      -- position 0, from_residual at the symbolic address 0: the harness prints the callee as `from_residual`
      let code := (tryCode 0 ra 0 rn false).take 6
      ";".intercalate (code.map fun i => match i with
        | .jumpIfFalse t => s!"jump_if_false +{t - 4}"
        | .call n _ => s!"call {n} from_residual"
        | i => (instrText [] i).2)
    | _, _ => "bad-op"
  | _ => "bad-op"

def handleTryCompat : List String → String
  | [o, r] =>
    match parseFam o, parseFam r with
    | some o, some r => if tryAccepted o r then "accept" else "reject"
    | _, _ => "bad-op"
  | _ => "bad-op"

end Abra.Drv
