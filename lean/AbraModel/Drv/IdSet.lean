import AbraModel.IdSet
import AbraModel.Drv.Util
/- Driver for M14b: `idset <op>…` runs one whole history on `World String` and answers one token per op.
   ops: `new`, `ins:h:v`, `get:h:v`, `has:h:v`, `idx:h:i`, `len:h`, `iter:h`, `into:h`, `clear:h`, `clone:h`,
   `drop:h`, and `lay:h` (no operation: dumps the set's layout — `len/cap` per buffer in iteration order, then
   `buffer:index` per id).  Answers: `h<n>`, `id<n>`, `some<n>`/`none`, `t`/`f`, `v<val>`/`panic`, `n<k>`, `[a,b]`,
   `u`, `ub`, `bad`. -/
namespace Abra.Drv
open Abra.IdSet

def renderOut : Out String → String
  | .unit => "u"
  | .handle h => "h" ++ toString h
  | .id n => "id" ++ toString n
  | .optId (some n) => "some" ++ toString n
  | .optId none => "none"
  | .bool true => "t"
  | .bool false => "f"
  | .val v => "v" ++ v
  | .panic => "panic"
  | .list l => "[" ++ String.intercalate "," l ++ "]"
  | .num n => "n" ++ toString n
  | .ub => "ub"
  | .bad => "bad"

def indexOfNat (x : Nat) : List Nat → Nat → Option Nat
  | [], _ => none
  | y :: ys, k => if x = y then some k else indexOfNat x ys (k + 1)

def layout (w : World String) (h : Nat) : String :=
  match w.getSet h with
  | none => "bad"
  | some s =>
    let ids := s.bufIds
    let bufs := ids.map (fun b =>
      match w.bufs[b]? with
      | some B => (if B.live then "" else "dead") ++ toString B.elems.length ++ "/" ++ toString B.cap
      | none => "?")
    let ptrs := s.idToPtr.map (fun p =>
      match indexOfNat p.buf ids 0 with
      | some k => toString k ++ ":" ++ toString p.idx
      | none => "x" ++ toString p.buf ++ ":" ++ toString p.idx)
    "L" ++ String.intercalate "," bufs ++ ";" ++ String.intercalate "," ptrs ++ ";" ++ toString s.map.length

inductive Cmd where
  | op (o : Op String)
  | lay (h : Nat)

def parseCmd (t : String) : Option Cmd :=
  match t.splitOn ":" with
  | ["new"] => some (.op .new)
  | ["ins", h, v] => (parseNat? h).map (fun h => .op (.insert h v))
  | ["get", h, v] => (parseNat? h).map (fun h => .op (.tryGetId h v))
  | ["has", h, v] => (parseNat? h).map (fun h => .op (.contains h v))
  | ["idx", h, i] => match parseNat? h, parseNat? i with
    | some h, some i => some (.op (.index h i))
    | _, _ => none
  | ["len", h] => (parseNat? h).map (fun h => .op (.len h))
  | ["iter", h] => (parseNat? h).map (fun h => .op (.iter h))
  | ["into", h] => (parseNat? h).map (fun h => .op (.intoIter h))
  | ["clear", h] => (parseNat? h).map (fun h => .op (.clear h))
  | ["clone", h] => (parseNat? h).map (fun h => .op (.clone h))
  | ["drop", h] => (parseNat? h).map (fun h => .op (.drop h))
  | ["lay", h] => (parseNat? h).map .lay
  | _ => none

def runCmds (w : World String) : List String → List String → Option (List String)
  | [], acc => some acc.reverse
  | t :: ts, acc =>
    match parseCmd t with
    | none => none
    | some (.op o) =>
      let (w', out) := w.step o
      runCmds w' ts (renderOut out :: acc)
    | some (.lay h) => runCmds w ts (layout w h :: acc)

def handleIdSet (args : List String) : String :=
  match runCmds World.empty args [] with
  | some outs => String.intercalate " " outs
  | none => "bad-op"

end Abra.Drv
