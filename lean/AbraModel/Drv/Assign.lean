import AbraModel.Assign
import AbraModel.Drv.Util
import AbraModel.Drv.Names
/- Driver for `assignDecision`: `assign <target> <captured 0|1> <op> <old> <rhs>`
   target ∈ {let,var,for,match,param,lamparam,elem,field,nonvar}; op ∈ {eq,add,sub,mul,div,mod};
   old/rhs integers or `-` (decision only).
   answer: `accept <new value>` | `accept` | `accept err <kind>` | `diag immutable` | `diag notvar` | `diag captured` -/
namespace Abra.Drv
open Abra.Assign

private def parseTarget (s : String) (cap : Bool) : Option Target :=
  match s with
  | "let" => some (.name .letB cap)
  | "var" => some (.name .varB cap)
  | "for" => some (.name .forB cap)
  | "match" => some (.name .matchB cap)
  | "param" => some (.name .paramB cap)
  | "lamparam" => some (.name .lamParamB cap)
  | "elem" => if cap then none else some .elem
  | "field" => if cap then none else some .field
  | "nonvar" => if cap then none else some .nonVar
  | _ => none

private def parseOp : String → Option AOp
  | "eq" => some .eq | "add" => some .add | "sub" => some .sub
  | "mul" => some .mul | "div" => some .div | "mod" => some .mod
  | _ => none

/-- the answer for a target already determined -/
private def answerFor (tgt : Target) (op : AOp) (old rhs : String) : String :=
  match assignDecision tgt op with
  | .diagImmutable => "diag immutable"
  | .diagNotVar => "diag notvar"
  | .diagCaptured => "diag captured"
  | .crash => "crash"
  | .accept =>
    if old = "-" && rhs = "-" then "accept" else
    match parseInt? old, parseInt? rhs with
    | some a, some b =>
      if !(Abra.I64.inRange a && Abra.I64.inRange b) then "bad-op" else
      match run [7, a, 9] [] (assignCode op 1 b) with
      | .ok [_, v, _] [] => "accept " ++ toString v
      | .err .overflow => "accept err overflow"
      | .err .divZero => "accept err divzero"
      | _ => "bad-model"
    | _, _ => "bad-op"

private def parseBase : String → Option Base
  | "let" => some .letB | "var" => some .varB | "for" => some .forB | "match" => some .matchB
  | "param" => some .paramB | "lamparam" => some .lamParamB
  | _ => none

private def parseKinds (s : String) : Option (List (Nat × Base × Bool)) :=
  (s.splitOn ",").mapM fun e =>
    match e.splitOn ":" with
    | [i, k, c] =>
      match i.toNat?, parseBase k with
      | some id, some b => if c = "1" then some (id, b, true) else if c = "0" then some (id, b, false) else none
      | _, _ => none
    | _ => none

/-- `assignat <statements> <id:kind:captured,…> <op> <old> <rhs>`: the statements (grammar of the `names`
    driver) contain the declarations and exactly one use `u<name>;` marking where the assignment to
    `<name>` stands; the Names model decides which declaration the target means (the innermost
    visible one), the decision table does the rest. -/
def handleAssignAt : List String → String
  | [body, kinds, o, old, rhs] =>
    match parseNamesBody body, parseKinds kinds, parseOp o with
    | some ss, some ks, some op =>
      let w : Abra.Names.World String := { builtins := [], prelude := [], files := [] }
      match (Abra.Names.resolveStmts w true [] [[]] ss).2 with
      | [Abra.Names.Res.to (Abra.Names.Decl.loc id)] =>
        match ks.find? (fun k => k.1 = id) with
        | some (_, b, cap) => answerFor (.name b cap) op old rhs
        | none => "bad-op"
      | [Abra.Names.Res.unresolved] => "unresolved"
      | _ => "bad-op"
    | _, _, _ => "bad-op"
  | _ => "bad-op"

def handleAssign : List String → String
  | [t, c, o, old, rhs] =>
    let cap? : Option Bool := if c = "1" then some true else if c = "0" then some false else none
    match cap?, parseOp o with
    | some cap, some op =>
      match parseTarget t cap with
      | none => "bad-op"
      | some tgt =>
        match assignDecision tgt op with
        | .diagImmutable => "diag immutable"
        | .diagNotVar => "diag notvar"
        | .diagCaptured => "diag captured"
        | .crash => "crash"
        | .accept =>
          if old = "-" && rhs = "-" then "accept" else
          match parseInt? old, parseInt? rhs with
          | some a, some b =>
            if !(Abra.I64.inRange a && Abra.I64.inRange b) then "bad-op" else
            -- what the emitted code leaves in the slot (slot 1 of a three-slot frame)
            match run [7, a, 9] [] (assignCode op 1 b) with
            | .ok [_, v, _] [] => "accept " ++ toString v
            | .err .overflow => "accept err overflow"
            | .err .divZero => "accept err divzero"
            | _ => "bad-model"
          | _, _ => "bad-op"
    | _, _ => "bad-op"
  | _ => "bad-op"

end Abra.Drv
