import AbraModel.Pratt
import AbraModel.Drv.Util
/- Driver for M10 `Pratt`: `pratt <tok>*` — one word per token of the expression (without `Eof`):
   `id:<name>` `i:<digits>` `f:<spelling>` `s:<hex>` `true` `false` `nil`, the operator names
   `and or eq ne fmt lt le gt ge add sub mul div mod pow`, `not`, `( ) [ ] . ! ? ,`, `nl`, `other`.
   Answer: `ok <sexpr>` | `partial <tokens consumed> <sexpr>` | `err`.
   `pratt` is the code today (FoldMode.loose); `prattfix <tok>*` runs the variant in which `-` before a
   numeric literal is always an ordinary prefix minus, `prattfold <tok>*` the variant in which
   `parse_expr_term` always folds it into the literal (the code before the fix of D11). -/
namespace Abra.Drv
open Abra.Pratt

def prattTok? (w : String) : Option Tok :=
  match w with
  | "and" => some (.op .and) | "or" => some (.op .or) | "eq" => some (.op .eq) | "ne" => some (.op .ne)
  | "fmt" => some (.op .fmt) | "lt" => some (.op .lt) | "le" => some (.op .le) | "gt" => some (.op .gt)
  | "ge" => some (.op .ge) | "add" => some (.op .add) | "sub" => some (.op .sub) | "mul" => some (.op .mul)
  | "div" => some (.op .div) | "mod" => some (.op .mod) | "pow" => some (.op .pow)
  | "not" => some .not | "(" => some .lparen | ")" => some .rparen | "[" => some .lbrack | "]" => some .rbrack
  | "." => some .dot | "!" => some .bang | "?" => some .question | "," => some .comma | "nl" => some .nl
  | "other" => some .other | "true" => some (.atom (.bool true)) | "false" => some (.atom (.bool false))
  | "nil" => some (.atom .nil)
  | _ =>
    if w.startsWith "id:" then some (.atom (.ident (w.drop 3).toString))
    else if w.startsWith "i:" then (w.drop 2).toString.toNat?.map (fun n => .atom (.int n))
    else if w.startsWith "f:" then some (.atom (.float (w.drop 2).toString))
    else if w.startsWith "s:" then some (.atom (.str (w.drop 2).toString))
    else none

def prattToks? : List String → Option (List Tok)
  | [] => some []
  | w :: ws => match prattTok? w, prattToks? ws with
    | some t, some ts => some (t :: ts)
    | _, _ => none

def prattRenderRes (toks : List Tok) : Res Expr → String
  | .ok e rest =>
    if (skipNl rest).isEmpty then "ok " ++ e.render
    else "partial " ++ toString (toks.length - rest.length) ++ " " ++ e.render
  | .err => "err"
  | .fuel => "fuel"

def handlePratt (ws : List String) : String :=
  match prattToks? ws with
  | some toks => prattRenderRes toks (parseExpr toks)
  | none => "bad-op"

def handlePrattFold (ws : List String) : String :=
  match prattToks? ws with
  | some toks => prattRenderRes toks (parseExprWith .always toks)
  | none => "bad-op"

def handlePrattFix (ws : List String) : String :=
  match prattToks? ws with
  | some toks => prattRenderRes toks (parseExprWith .never toks)
  | none => "bad-op"

end Abra.Drv
