import AbraModel.PatCompile
import AbraModel.Drv.PatMatrix
/-!
Driver for the pattern part of M8 (`Abra.PatCompile`).

  `pc match <env> <ty> <narms> <pat>… <val>`   run the match code on the value
  `pc let <env> <ty> <pat> <val>`              run the `let`/`for` destructuring code
  `pc first <env> <ty> <narms> <pat>… <val>`   first arm whose pattern matches (`pmatch`, M9), `arm=<k>`
  val ::= vt | vf | vi<int> | vd<bits> | vs<hex> | vP <n> <val>… | vV <idx> <val>     (void = `vP 0`)

Answers: `arm=<k> leak=<n> <slot>=<val> …` (slots ascending, the latest store wins; `leak` =
stack entries left above the caller's) / `leak=<n> <slot>=<val> …`; `fault` when the model VM faults,
`ill-typed` when an arm or the value does not have the scrutinee type.  Values: `true false <int>
F<bits> S<hex> (v …) V<tag>[v] nil`.
-/
namespace Abra.Drv
open Abra.PatMatrix Abra.PatCompile

def pValF : Nat → P Val
  | 0, _ => none
  | fuel + 1, w :: ws =>
    match w with
    | "vt" => some (.bool true, ws)
    | "vf" => some (.bool false, ws)
    | "vP" =>
      match pNat ws with
      | some (n, ws) => (pMany (pValF fuel) n ws).map (fun (vs, ws) => (.prod vs, ws))
      | none => none
    | "vV" =>
      match pNat ws with
      | some (i, ws) => (pValF fuel ws).map (fun (v, ws) => (.variant i v, ws))
      | none => none
    | _ =>
      if w.startsWith "vi" then (parseInt? (w.drop 2).toString).map (fun i => (.int i, ws))
      else if w.startsWith "vd" then (parseNat? (w.drop 2).toString).map (fun i => (.float i, ws))
      else if w.startsWith "vs" then (unhex (w.drop 2).toString).map (fun s => (.str s, ws))
      else none
  | _, [] => none

def pVal : P Val := fun ws => pValF (ws.length + 1) ws

mutual
  def showSVal : SVal → String
    | .bool b => if b then "true" else "false"
    | .int i => toString i
    | .float f => "F" ++ toString f
    | .str s => "S" ++ hex s
    | .struct fs => "(" ++ joinWith " " (showSVals fs) ++ ")"
    | .variant t p => "V" ++ toString t ++ "[" ++ showSVal p ++ "]"
    | .nil => "nil"
  def showSVals : List SVal → List String
    | [] => []
    | x :: xs => showSVal x :: showSVals xs
end

/-- latest store per slot, ascending -/
def finalLocals (locals : List (Nat × SVal)) : List (Nat × SVal) :=
  let slots := (locals.map (·.1)).eraseDups
  let sorted := slots.foldr (fun s acc => (acc.filter (· < s)) ++ [s] ++ (acc.filter (· > s))) []
  sorted.filterMap (fun s => (locals.find? (·.1 == s)).map (fun x => (s, x.2)))

def showLocals (locals : List (Nat × SVal)) : String :=
  joinWith " " ((finalLocals locals).map (fun x => toString x.1 ++ "=" ++ showSVal x.2))

def sentinel : List SVal := [.int 424242]

def handlePatCompile : List String → String
  | "match" :: ws =>
    match pEnv ws with
    | none => "bad-op"
    | some (defs, ws) =>
      match pTy ws with
      | none => "bad-op"
      | some (ty, ws) =>
        match pNat ws with
        | none => "bad-op"
        | some (n, ws) =>
          match pMany pPat n ws with
          | none => "bad-op"
          | some (arms, ws) =>
            match pVal ws with
            | some (v, []) =>
              let env := mkEnv defs
              if !(arms.all (fun p => patTyped env p ty)) || !hasTy env v ty then "ill-typed" else
              match runMatch env ty arms v sentinel with
              | none => "fault"
              | some (arm, _pass, locals, stack) =>
                let leak : Int := (stack.length : Int) - 1
                "arm=" ++ (match arm with | some k => toString k | none => "none") ++
                " leak=" ++ toString leak ++
                (if locals.isEmpty then "" else " " ++ showLocals locals)
            | _ => "bad-op"
  | "let" :: ws =>
    match pEnv ws with
    | none => "bad-op"
    | some (defs, ws) =>
      match pTy ws with
      | none => "bad-op"
      | some (ty, ws) =>
        match pPat ws with
        | none => "bad-op"
        | some (p, ws) =>
          match pVal ws with
          | some (v, []) =>
            let env := mkEnv defs
            if !patTyped env p ty || !hasTy env v ty then "ill-typed" else
            match runLet env ty p v sentinel with
            | none => "fault"
            | some (locals, stack) =>
              let leak : Int := (stack.length : Int) - 1
              "leak=" ++ toString leak ++ (if locals.isEmpty then "" else " " ++ showLocals locals)
          | _ => "bad-op"
  | "first" :: ws =>
    -- the arm the matrix model's semantics (`pmatch`, first match in source order) selects
    match pEnv ws with
    | none => "bad-op"
    | some (defs, ws) =>
      match pTy ws with
      | none => "bad-op"
      | some (ty, ws) =>
        match pNat ws with
        | none => "bad-op"
        | some (n, ws) =>
          match pMany pPat n ws with
          | none => "bad-op"
          | some (arms, ws) =>
            match pVal ws with
            | some (v, []) =>
              let env := mkEnv defs
              if !(arms.all (fun p => patTyped env p ty)) || !hasTy env v ty then "ill-typed" else
              match arms.findIdx? (fun p => pmatch p v) with
              | some k => "arm=" ++ toString k
              | none => "arm=none"
            | _ => "bad-op"
  | _ => "bad-op"

end Abra.Drv
