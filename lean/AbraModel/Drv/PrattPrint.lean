import AbraModel.PrattPrint
import AbraModel.Drv.Pratt
/- Driver for the specification-side printer: `prattprint <tree in prefix notation>` →
   the token words of `printMinimal tree` (same words as the input of `pratt`).
   Tree: `atom <tok>` | `neg T` | `not T` | `bin <op> T T` | `member T <name>` | `index T T` |
   `unwrap T` | `try T` | `call <n> T T₁…Tₙ` | `tuple <n> T₁…Tₙ` | `array <n> T₁…Tₙ`. -/
namespace Abra.Drv
open Abra.Pratt

def prattOp? (w : String) : Option BinOp :=
  match prattTok? w with
  | some (.op o) => some o
  | _ => none

mutual
def readTree : Nat → List String → Option (Expr × List String)
  | 0, _ => none
  | f + 1, ws =>
    match ws with
    | "atom" :: w :: r => match prattTok? w with
      | some (.atom a) => some (.atom a, r)
      | _ => none
    | "neg" :: r => (readTree f r).map (fun (e, r') => (.neg e, r'))
    | "not" :: r => (readTree f r).map (fun (e, r') => (.not e, r'))
    | "unwrap" :: r => (readTree f r).map (fun (e, r') => (.unwrap e, r'))
    | "try" :: r => (readTree f r).map (fun (e, r') => (.try_ e, r'))
    | "bin" :: w :: r =>
      match prattOp? w, readTree f r with
      | some o, some (l, r1) => (readTree f r1).map (fun (rr, r2) => (.bin o l rr, r2))
      | _, _ => none
    | "index" :: r =>
      match readTree f r with
      | some (e, r1) => (readTree f r1).map (fun (i, r2) => (.index e i, r2))
      | none => none
    | "member" :: r =>
      match readTree f r with
      | some (e, name :: r1) => some (.member e name, r1)
      | _ => none
    | "call" :: n :: r =>
      match n.toNat?, readTree f r with
      | some k, some (fn, r1) => (readArgs f k r1).map (fun (as, r2) => (.call fn as, r2))
      | _, _ => none
    | "tuple" :: n :: r =>
      match n.toNat? with
      | some k => (readArgs f k r).map (fun (as, r2) => (.tuple as, r2))
      | none => none
    | "array" :: n :: r =>
      match n.toNat? with
      | some k => (readArgs f k r).map (fun (as, r2) => (.array as, r2))
      | none => none
    | _ => none
def readArgs : Nat → Nat → List String → Option (Args × List String)
  | 0, _, _ => none
  | _ + 1, 0, ws => some (.nil, ws)
  | f + 1, k + 1, ws =>
    match readTree f ws with
    | some (e, r) => (readArgs f k r).map (fun (es, r') => (.cons e es, r'))
    | none => none
end

def prattTokWord : Tok → String
  | .atom (.ident s) => "id:" ++ s
  | .atom (.int n) => "i:" ++ toString n
  | .atom (.float s) => "f:" ++ s
  | .atom (.str s) => "s:" ++ s
  | .atom (.bool b) => if b then "true" else "false"
  | .atom .nil => "nil"
  | .op o => o.name
  | .not => "not" | .lparen => "(" | .rparen => ")" | .lbrack => "[" | .rbrack => "]"
  | .dot => "." | .bang => "!" | .question => "?" | .comma => "," | .nl => "nl" | .other => "other"

def handlePrattPrint (ws : List String) : String :=
  match readTree (ws.length + 1) ws with
  | some (t, []) => String.intercalate " " ((printMinimal t).map prattTokWord)
  | _ => "bad-op"

end Abra.Drv
