import AbraModel.Sem
import AbraModel.Drv.Util
/- Driver for M7: `sem <fuel> final|nofinal <program as space-separated S-expression tokens>`.
   Answer: `done <final> <hex output>` | `error:<kind> - <hex output>` | `timeout` | `stuck <why>` | `bad-op`.
   The term language is produced by the harness generator (harness/src/progen.rs); strings travel as hex. -/
namespace Abra.Drv.BG9
open Abra.Sem

inductive SExp where
  | atom (s : String)
  | list (xs : List SExp)
  deriving Inhabited

/-- parse one S-expression from a token list; returns the rest -/
partial def parseSExp : List String → Option (SExp × List String)
  | [] => none
  | "(" :: rest =>
    let rec go (acc : List SExp) (toks : List String) : Option (SExp × List String) :=
      match toks with
      | [] => none
      | ")" :: r => some (.list acc.reverse, r)
      | _ =>
        match parseSExp toks with
        | some (x, r) => go (x :: acc) r
        | none => none
    go [] rest
  | ")" :: _ => none
  | a :: rest => some (.atom a, rest)

def strOfHex (h : String) : Option String :=
  (unhex h).map fun bs => String.ofList (bs.map fun b => Char.ofNat b.toNat)

def parseUn : String → Option UnOp
  | "neg" => some .neg | "not" => some .not | _ => none

def parseBin : String → Option BinOp
  | "add" => some .add | "sub" => some .sub | "mul" => some .mul | "div" => some .div
  | "mod" => some .mod | "pow" => some .pow | "lt" => some .lt | "le" => some .le
  | "gt" => some .gt | "ge" => some .ge | "eq" => some .eq | "ne" => some .ne
  | "and" => some .and | "or" => some .or | "concat" => some .concat | _ => none

def parseAsg : String → Option AsgOp
  | "set" => some .set | "add" => some .add | "sub" => some .sub | "mul" => some .mul
  | "div" => some .div | "mod" => some .mod | _ => none

def atoms : List SExp → Option (List String)
  | [] => some []
  | .atom a :: r => (atoms r).map (a :: ·)
  | _ => none

def allSome {α : Type} : List (Option α) → Option (List α)
  | [] => some []
  | some a :: r => (allSome r).map (a :: ·)
  | none :: _ => none

partial def toPat : SExp → Option Pat
  | .list [.atom "pwild"] => some .wild
  | .list [.atom "pbind", .atom x] => some (.bind x)
  | .list [.atom "pint", .atom n] => n.toInt?.map .int
  | .list [.atom "pbool", .atom "true"] => some (.bool true)
  | .list [.atom "pbool", .atom "false"] => some (.bool false)
  | .list [.atom "pstr", .atom h] => (strOfHex h).map .str
  | .list [.atom "punit"] => some .unit
  | .list (.atom "ptuple" :: ps) => (allSome (ps.map toPat)).map .tuple
  | .list (.atom "pstruct" :: .atom name :: ps) => (allSome (ps.map toPat)).map (.struct_ name)
  | .list (.atom "pvariant" :: .atom c :: ps) => (allSome (ps.map toPat)).map (.variant c)
  | _ => none

mutual
partial def toExpr : SExp → Option Expr
  | .list [.atom "int", .atom n] => n.toInt?.map .int
  | .list [.atom "bool", .atom "true"] => some (.bool true)
  | .list [.atom "bool", .atom "false"] => some (.bool false)
  | .list [.atom "str", .atom h] => (strOfHex h).map .str
  | .list [.atom "unit"] => some .unit
  | .list [.atom "var", .atom x] => some (.var x)
  | .list [.atom "un", .atom op, a] => do some (.un (← parseUn op) (← toExpr a))
  | .list [.atom "bin", .atom op, a, b] => do some (.bin (← parseBin op) (← toExpr a) (← toExpr b))
  | .list [.atom "if", c, t, f] => do some (.ite (← toExpr c) (← toExpr t) (← toExpr f))
  | .list (.atom "block" :: ss) => do some (.block (Stmts.ofList (← allSome (ss.map toStmt))))
  | .list [.atom "print", a] => do some (.print (← toExpr a))
  | .list (.atom "tuple" :: es) => do some (.tuple (Exprs.ofList (← allSome (es.map toExpr))))
  | .list (.atom "mk" :: .atom name :: es) => do some (.mkStruct name (Exprs.ofList (← allSome (es.map toExpr))))
  | .list [.atom "field", o, .atom f] => do some (.field (← toExpr o) f)
  | .list (.atom "variant" :: .atom c :: es) => do some (.mkVariant c (Exprs.ofList (← allSome (es.map toExpr))))
  | .list (.atom "match" :: scrut :: arms) => do
    let arms ← allSome (arms.map fun a => match a with
      | .list [.atom "arm", p, body] => do some ((← toPat p), (← toExpr body))
      | _ => none)
    some (.matchE (← toExpr scrut) (Arms.ofList arms))
  | .list (.atom "array" :: es) => do some (.array (Exprs.ofList (← allSome (es.map toExpr))))
  | .list [.atom "index", a, i] => do some (.index (← toExpr a) (← toExpr i))
  | .list [.atom "len", a] => do some (.len (← toExpr a))
  | .list [.atom "push", a, v] => do some (.push (← toExpr a) (← toExpr v))
  | .list [.atom "pop", a] => do some (.pop (← toExpr a))
  | .list (.atom "call" :: .atom f :: es) => do some (.call f (Exprs.ofList (← allSome (es.map toExpr))))
  | .list (.atom "callv" :: f :: es) => do some (.callv (← toExpr f) (Exprs.ofList (← allSome (es.map toExpr))))
  | .list [.atom "lam", .list (.atom "params" :: ps), body] => do some (.lam (← atoms ps) (← toExpr body))
  | .list [.atom "fnref", .atom f] => some (.fnref f)
  | .list [.atom "mkref", .atom f] => some (.mkref f)
  | .list [.atom "try", a] => do some (.try_ (← toExpr a))
  | .list [.atom "unwrap", a] => do some (.unwrap (← toExpr a))
  | .list [.atom "panic", a] => do some (.panic (← toExpr a))
  | _ => none
partial def toStmt : SExp → Option Stmt
  | .list [.atom "let", p, e] => do some (.let_ (← toPat p) (← toExpr e))
  | .list [.atom "assign", .atom x, .atom op, e] => do some (.assign x (← parseAsg op) (← toExpr e))
  | .list [.atom "assignf", o, .atom f, .atom op, e] => do some (.assignField (← toExpr o) f (← parseAsg op) (← toExpr e))
  | .list [.atom "assigni", a, i, .atom op, e] => do some (.assignIndex (← toExpr a) (← toExpr i) (← parseAsg op) (← toExpr e))
  | .list [.atom "expr", e] => do some (.expr (← toExpr e))
  | .list (.atom "while" :: c :: ss) => do some (.while_ (← toExpr c) (Stmts.ofList (← allSome (ss.map toStmt))))
  | .list (.atom "for" :: p :: it :: ss) => do some (.for_ (← toPat p) (← toExpr it) (Stmts.ofList (← allSome (ss.map toStmt))))
  | .list [.atom "break"] => some .break_
  | .list [.atom "continue"] => some .continue_
  | .list [.atom "ret", e] => do some (.ret (← toExpr e))
  | _ => none
end

def toProg : SExp → Option Prog
  | .list [.atom "prog", .list (.atom "structs" :: sds), .list (.atom "fns" :: fds), .list (.atom "main" :: ss)] => do
    let structs ← allSome (sds.map fun d => match d with
      | .list (.atom "struct" :: .atom name :: fs) => (atoms fs).map fun fs => ({ name := name, fields := fs } : StructDef)
      | _ => none)
    let fns ← allSome (fds.map fun d => match d with
      | .list [.atom "fn", .atom name, .list (.atom "params" :: ps), body] => do
        some ({ name := name, params := (← atoms ps), body := (← toExpr body) } : FnDef)
      | _ => none)
    let main ← allSome (ss.map toStmt)
    some { structs := structs, fns := fns, main := Stmts.ofList main }
  | _ => none

def hexOfString (s : String) : String := hex s.toUTF8.toList

def errName : Err → String
  | .overflow => "overflow" | .divZero => "divzero" | .oob => "oob" | .panic => "panic"

/-- final value as the harness renders `Runtime::top()`: ints, bools and strings are compared,
    anything else is `-` -/
def finalName : Val → String
  | .int n => s!"int:{n}"
  | .bool b => if b then "bool:1" else "bool:0"
  | .str s => "str:" ++ hexOfString s
  | _ => "-"

def renderOutcome (withFinal : Bool) : Outcome → String
  | .done v _ out => s!"done {if withFinal then finalName v else "-"} {hexOfString (String.join out.reverse)}"
  | .error k out => s!"error:{errName k} - {hexOfString (String.join out.reverse)}"
  | .timeout => "timeout"
  | .stuck w => "stuck " ++ w.replace " " "_"

end Abra.Drv.BG9

namespace Abra.Drv
open Abra.Drv.BG9
open Abra.Sem

def handleSem : List String → String
  | fuel :: fin :: toks =>
    match fuel.toNat?, parseSExp toks with
    | some fuel, some (sx, []) =>
      match toProg sx, fin with
      | some P, "final" => renderOutcome true (run fuel P)
      | some P, "nofinal" => renderOutcome false (run fuel P)
      | _, _ => "bad-op"
    | _, _ => "bad-op"
  | _ => "bad-op"

end Abra.Drv
