import AbraModel.Lex
import AbraModel.Literals
import AbraModel.Drv.Util
/- Driver for M10 `Lex`/`Literals`:
   `lex <hex of the UTF-8 source>` → `<tok> <tok> … | <err> …` with tok = `Tag/lo/hi` or
   `Tag:<hex of payload>/lo/hi` (byte offsets), err = `U/lo/hi` (unrecognized character) or `E/lo/hi` (bad escape);
   `lexkinds <hex>` → the same without spans; `intlit <0|1 negated> <digits>` → `ok <value>` | `range`;
   `escape <s|d|t> <hex>` → hex of the escaped spelling (the generator's printer). -/
namespace Abra.Drv
open Abra.Lex

def lexCapitalize (s : String) : String :=
  match s.toList with
  | [] => s
  | c :: cs => String.ofList (c.toUpper :: cs)

def lexTag : TokenKind → String
  | .eq => "Eq" | .lt => "Lt" | .le => "Le" | .eqeq => "EqEq" | .noteq => "NotEq" | .ge => "Ge" | .gt => "Gt"
  | .bang => "Bang" | .question => "Question" | .plus => "Plus" | .pluseq => "PlusEq" | .minus => "Minus"
  | .minuseq => "MinusEq" | .star => "Star" | .stareq => "StarEq" | .slash => "Slash" | .slasheq => "SlashEq"
  | .caret => "Caret" | .mod => "Mod" | .modeq => "ModEq" | .dot => "Dot" | .dotdot => "DotDot" | .comma => "Comma"
  | .colon => "Colon" | .semicolon => "Semicolon" | .rarrow => "RArrow" | .vbar => "VBar" | .pound => "Pound"
  | .lparen => "OpenParen" | .rparen => "CloseParen" | .lbrace => "OpenBrace" | .rbrace => "CloseBrace"
  | .lbrack => "OpenBracket" | .rbrack => "CloseBracket"
  | .kw name => if name = "outputtype" then "OutputType" else lexCapitalize name
  | .intLit _ => "IntLit" | .floatLit _ => "FloatLit" | .strLit _ => "StringLit" | .ident _ => "Ident"
  | .polyIdent _ => "PolyIdent" | .wildcard => "Wildcard" | .newline => "Newline" | .eof => "Eof"

def lexPayload? : TokenKind → Option (List Char)
  | .intLit s | .floatLit s | .strLit s | .ident s | .polyIdent s => some s
  | _ => none

def lexHexOfChars (cs : List Char) : String := hex (String.ofList cs).toUTF8.toList

def lexKindWord (k : TokenKind) : String :=
  match lexPayload? k with
  | some p => lexTag k ++ ":" ++ lexHexOfChars p
  | none => lexTag k

def lexErrWord : LexError → String
  | .unrecognized lo hi => "U/" ++ toString lo ++ "/" ++ toString hi
  | .badEscape lo hi => "E/" ++ toString lo ++ "/" ++ toString hi

def lexDecode? (w : String) : Option (List Char) :=
  match unhex w with
  | some bs => (String.fromUTF8? (ByteArray.mk bs.toArray)).map String.toList
  | none => none

def handleLex (spans : Bool) : List String → String
  | [w] =>
    match lexDecode? w with
    | some src =>
      let (ts, es) := tokenizeBytes src
      let tw := ts.map (fun t => if spans then lexKindWord t.kind ++ "/" ++ toString t.lo ++ "/" ++ toString t.hi
                                  else lexKindWord t.kind)
      String.intercalate " " tw ++ " |" ++ String.join (es.map (fun e => " " ++ lexErrWord e))
    | none => "bad-op"
  | _ => "bad-op"

def handleIntLit : List String → String
  | [neg, digits] =>
    if !(digits.toList.all isDigit) || digits.isEmpty then "bad-op" else
    match intLiteral (neg = "1") digits.toList with
    | some v => "ok " ++ toString v
    | none => "range"
  | _ => "bad-op"

def handleEscape : List String → String
  | [q, w] =>
    let q? : Option Quote := if q = "s" then some .single else if q = "d" then some .double
                              else if q = "t" then some .triple else none
    match q?, lexDecode? w with
    | some q, some s => lexHexOfChars (escape q s)
    | _, _ => "bad-op"
  | _ => "bad-op"

end Abra.Drv
