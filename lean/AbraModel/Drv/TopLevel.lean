import AbraModel.TopLevel
/- Driver: `toplevel <i|;|nl>*` → `accept` | `reject`. -/
namespace Abra.Drv
open Abra.TopLevel

def topLevelToks? : List String → Option (List TTok)
  | [] => some []
  | w :: ws =>
    match (if w = "i" then some TTok.item else if w = ";" then some .semi else if w = "nl" then some .nl else none),
          topLevelToks? ws with
    | some t, some ts => some (t :: ts)
    | _, _ => none

def handleTopLevel (ws : List String) : String :=
  match topLevelToks? ws with
  | some ts => if accepted ts then "accept" else "reject"
  | none => "bad-op"

end Abra.Drv
