import AbraModel.Pending
import AbraModel.Drv.Sem
/- Driver for the pending-operand model: `pending <S-expression>` where the term is a statement list
     ( prog PSTMT* )
   PEXPR = ( leaf v ) | ( seq v PEXPR* ) | ( pre N v PEXPR ) | ( un v PEXPR ) | ( if v P P P ) | ( orand P P )
         | ( match v P P* ) | ( block v PSTMT* ) | ( fn P ) | ( bigarray ( first P* ) ( rest P* ) )        v ∈ 0 | 1
   PSTMT = ( expr P ) | ( let P ) | ( assign P ) | ( compound P ) | ( assignf RHS OBJ ) | ( compoundf OBJ RHS )
         | ( assigni A I RHS ) | ( compoundi A I RHS ) | ( while P PSTMT* ) | ( for P PSTMT* ) | ( break ) | ( continue ) | ( ret P )
   Answer: the number of `Pop`s of every break/continue in source order, space separated (`-` when there is none). -/
namespace Abra.Drv.BG9
open Abra.Pending

def flagOf : String → Option Bool
  | "0" => some false
  | "1" => some true
  | _ => none

mutual
partial def toPE : SExp → Option PE
  | .list [.atom "leaf", .atom v] => do some (.leaf (← flagOf v))
  | .list (.atom "seq" :: .atom v :: es) => do some (.seq (← flagOf v) (PEs.ofList (← allSome (es.map toPE))))
  | .list [.atom "pre", .atom n, .atom v, e] => do some (.pre (← n.toNat?) (← flagOf v) (← toPE e))
  | .list [.atom "un", .atom v, e] => do some (.un (← flagOf v) (← toPE e))
  | .list [.atom "if", .atom v, c, t, f] => do some (.ite (← flagOf v) (← toPE c) (← toPE t) (← toPE f))
  | .list [.atom "orand", a, b] => do some (.orand (← toPE a) (← toPE b))
  | .list (.atom "match" :: .atom v :: s :: arms) => do
    some (.matchE (← flagOf v) (← toPE s) (PEs.ofList (← allSome (arms.map toPE))))
  | .list (.atom "block" :: .atom v :: ss) => do some (.block (← flagOf v) (PSs.ofList (← allSome (ss.map toPS))))
  | .list [.atom "fn", b] => do some (.fn (← toPE b))
  | .list [.atom "bigarray", .list (.atom "first" :: fs), .list (.atom "rest" :: rs)] => do
    some (.bigArray (PEs.ofList (← allSome (fs.map toPE))) (PEs.ofList (← allSome (rs.map toPE))))
  | _ => none
partial def toPS : SExp → Option PS
  | .list [.atom "expr", e] => do some (.expr (← toPE e))
  | .list [.atom "let", e] => do some (.let_ (← toPE e))
  | .list [.atom "assign", e] => do some (.assign (← toPE e))
  | .list [.atom "compound", e] => do some (.compound (← toPE e))
  | .list [.atom "assignf", r, o] => do some (.assignField (← toPE r) (← toPE o))
  | .list [.atom "compoundf", o, r] => do some (.compoundField (← toPE o) (← toPE r))
  | .list [.atom "assigni", a, i, r] => do some (.assignIndex (← toPE a) (← toPE i) (← toPE r))
  | .list [.atom "compoundi", a, i, r] => do some (.compoundIndex (← toPE a) (← toPE i) (← toPE r))
  | .list (.atom "while" :: c :: ss) => do some (.while_ (← toPE c) (PSs.ofList (← allSome (ss.map toPS))))
  | .list (.atom "for" :: it :: ss) => do some (.for_ (← toPE it) (PSs.ofList (← allSome (ss.map toPS))))
  | .list [.atom "break"] => some .brk
  | .list [.atom "continue"] => some .cont
  | .list [.atom "ret", e] => do some (.ret (← toPE e))
  | _ => none
end

end Abra.Drv.BG9

namespace Abra.Drv
open Abra.Drv.BG9 Abra.Pending

def handlePending (toks : List String) : String :=
  match parseSExp toks with
  | some (.list (.atom "prog" :: ss), []) =>
    match allSome (ss.map toPS) with
    | some ss =>
      match popsSs 0 (PSs.ofList ss) with
      | [] => "-"
      | l => " ".intercalate (l.map toString)
    | none => "bad-op"
  | _ => "bad-op"

end Abra.Drv
