import AbraModel.Analysis
import AbraModel.Drv.Sem
/- Driver for the analysis model: `analysis <S-expression>` where the term is
     ( bodies BODY* )      BODY = ( body ( params ID* ) REXPR )   -- main has no params
   REXPR = ( lit ) | ( var ID ) | ( op REXPR* ) | ( if R R R ) | ( block RSTMT* ) | ( match R ( arm ( ids ID* ) R )* )
         | ( lam ( params ID* ) R ) | ( task R )
   RSTMT = ( let ( ids ID* ) R ) | ( assignv ID R ) | ( assignp ( ids ID* ) R R ) | ( expr R ) | ( while R RSTMT* )
         | ( for ( ids ID* ) R RSTMT* ) | ( break ) | ( continue ) | ( ret R )
   Answer: for every lambda/task of every body `captures:locals`, sorted; then ` loops=ok|bad`
   (checker loop context and captured-assignment rule accept and the code generator's loop context agrees) and ` table=ok|missing` (every lookup of every
   function body — main, lambdas, tasks — has an entry in that function's offset table). -/
namespace Abra.Drv.BG9
open Abra.Analysis

def natsOf (xs : List SExp) : Option (List Nat) :=
  allSome (xs.map fun x => match x with | .atom a => a.toNat? | _ => none)

mutual
partial def toRExpr : SExp → Option RExpr
  | .list [.atom "lit"] => some .lit
  | .list [.atom "var", .atom i] => i.toNat?.map .var
  | .list (.atom "op" :: es) => do some (.op (RExprs.ofList (← allSome (es.map toRExpr))))
  | .list [.atom "if", c, t, f] => do some (.ite (← toRExpr c) (← toRExpr t) (← toRExpr f))
  | .list (.atom "block" :: ss) => do some (.block (RStmts.ofList (← allSome (ss.map toRStmt))))
  | .list (.atom "match" :: s :: arms) => do
    let arms ← allSome (arms.map fun a => match a with
      | .list [.atom "arm", .list (.atom "ids" :: ids), body] => do some ((← natsOf ids), (← toRExpr body))
      | _ => none)
    some (.matchE (← toRExpr s) (RArms.ofList arms))
  | .list [.atom "lam", .list (.atom "params" :: ps), body] => do some (.lam (← natsOf ps) (← toRExpr body))
  | .list [.atom "task", body] => do some (.task (← toRExpr body))
  | _ => none
partial def toRStmt : SExp → Option RStmt
  | .list [.atom "let", .list (.atom "ids" :: ids), e] => do some (.let_ (← natsOf ids) (← toRExpr e))
  | .list [.atom "assignv", .atom i, e] => do some (.assignVar (← i.toNat?) (← toRExpr e))
  | .list [.atom "assignp", .list (.atom "ids" :: ts), t, e] => do some (.assignPlace (← natsOf ts) (← toRExpr t) (← toRExpr e))
  | .list [.atom "expr", e] => do some (.expr (← toRExpr e))
  | .list (.atom "while" :: c :: ss) => do some (.while_ (← toRExpr c) (RStmts.ofList (← allSome (ss.map toRStmt))))
  | .list (.atom "for" :: .list (.atom "ids" :: ids) :: it :: ss) => do
    some (.for_ (← natsOf ids) (← toRExpr it) (RStmts.ofList (← allSome (ss.map toRStmt))))
  | .list [.atom "break"] => some .break_
  | .list [.atom "continue"] => some .continue_
  | .list [.atom "ret", e] => do some (.ret (← toRExpr e))
  | _ => none
end

/- every function body nested in `e` (lambdas and tasks, any depth) with its parameters -/
mutual
partial def nestedFns : RExpr → List (List Nat × RExpr)
  | .lit => []
  | .var _ => []
  | .op es => nestedFnsEs es
  | .ite c t f => nestedFns c ++ nestedFns t ++ nestedFns f
  | .block ss => nestedFnsSs ss
  | .matchE s arms => nestedFns s ++ nestedFnsArms arms
  | .lam ps body => (ps, body) :: nestedFns body
  | .task body => ([], body) :: nestedFns body
partial def nestedFnsS : RStmt → List (List Nat × RExpr)
  | .let_ _ e => nestedFns e
  | .assignVar _ e => nestedFns e
  | .assignPlace _ t e => nestedFns t ++ nestedFns e
  | .expr e => nestedFns e
  | .while_ c body => nestedFns c ++ nestedFnsSs body
  | .for_ _ it body => nestedFns it ++ nestedFnsSs body
  | .break_ => []
  | .continue_ => []
  | .ret e => nestedFns e
partial def nestedFnsSs : RStmts → List (List Nat × RExpr)
  | .nil => []
  | .cons s r => nestedFnsS s ++ nestedFnsSs r
partial def nestedFnsEs : RExprs → List (List Nat × RExpr)
  | .nil => []
  | .cons e r => nestedFns e ++ nestedFnsEs r
partial def nestedFnsArms : RArms → List (List Nat × RExpr)
  | .nil => []
  | .cons _ body r => nestedFns body ++ nestedFnsArms r
end

def insertPairSorted (p : Nat × Nat) : List (Nat × Nat) → List (Nat × Nat)
  | [] => [p]
  | q :: r => if p.1 < q.1 || (p.1 == q.1 && p.2 ≤ q.2) then p :: q :: r else q :: insertPairSorted p r

end Abra.Drv.BG9

namespace Abra.Drv
open Abra.Drv.BG9
open Abra.Analysis

def handleAnalysis (toks : List String) : String :=
  match parseSExp toks with
  | some (.list (.atom "bodies" :: bs), []) =>
    let bodies := allSome (bs.map fun b => match b with
      | .list [.atom "body", .list (.atom "params" :: ps), e] => do some ((← natsOf ps), (← toRExpr e))
      | _ => none)
    match bodies with
    | none => "bad-op"
    | some bodies =>
      let pairs := bodies.foldl (fun acc (_, e) => acc ++ closuresE e) []
      let sorted := pairs.foldl (fun acc p => insertPairSorted p acc) []
      let loopsOk := bodies.all fun (_, e) => checkerLoopsE false e && codegenLoopsE 0 e && checkerAssignE none e
      let fns := bodies ++ bodies.foldl (fun acc (_, e) => acc ++ nestedFns e) []
      let tableOk := fns.all fun (ps, e) => (lookupsE e).all fun k => (tableKeys ps e).contains k
      " ".intercalate (sorted.map fun (c, l) => s!"{c}:{l}") ++ (if loopsOk then " loops=ok" else " loops=bad")
        ++ (if tableOk then " table=ok" else " table=missing")
  | _ => "bad-op"


/-- `loopctx ( bodies … )`: the verdict of the checker model on `break`/`continue` placement and captured assignment
    (`accept` / `reject`); an accepted program never makes the code generator's loop stack run empty (C03_loop_ctx_agree) —
    should the model ever say otherwise the answer is `accept codegen-panic`. -/
def handleLoopCtx (toks : List String) : String :=
  match parseSExp toks with
  | some (.list (.atom "bodies" :: bs), []) =>
    let bodies := allSome (bs.map fun b => match b with
      | .list [.atom "body", .list (.atom "params" :: ps), e] => do some ((← natsOf ps), (← toRExpr e))
      | _ => none)
    match bodies with
    | none => "bad-op"
    | some bodies =>
      if bodies.all fun (_, e) => checkerLoopsE false e && checkerAssignE none e then
        (if bodies.all fun (_, e) => codegenLoopsE 0 e then "accept" else "accept codegen-panic")
      else "reject"
  | _ => "bad-op"

end Abra.Drv
