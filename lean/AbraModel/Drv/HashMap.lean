import AbraModel.Lib.HashMap
import AbraModel.Drv.Util
/- Driver for the hash-table model (C27).
   Request: `hmap <op> ; <op> ; …` on one initially empty `map<K, int>` (for a set the values are ignored)
   op   := ins <key> <int> | iset <key> <int> | iadd <key> <int> | isub <key> <int> | imul <key> <int>   (`m[k] op= v`)
          | get <key> | iget <key> | tryget <key> | has <key> | rem <key> | len
   key  := i:<int> (hash = the int) | c:<int> (user key type, constant hash 7, equality on the id)
         | s:<hex utf-8> (FNV-1a as in the prelude) | t:<int>,<int> (tuple: hash_combine chain from 17)
   Answer: per op `<result>,<len>/`; `ERR:<kind>` where the program stops (`get` of an absent key panics). -/
namespace Abra.Drv.HashMapDrv
open Abra.Lib.HashMap Abra.Drv

inductive Key where
  | int (n : Int)
  | const (id : Int)
  | str (bytes : List UInt8)
  | tup (a b : Int)
  deriving BEq

def wrapI64 (x : Int) : Int := ((x + 9223372036854775808) % 18446744073709551616) - 9223372036854775808
def wrappingMul (a b : Int) : Int := wrapI64 (a * b)
def wrappingAdd (a b : Int) : Int := wrapI64 (a + b)
def toU64 (x : Int) : Nat := (x % 18446744073709551616).toNat
def bitXor (a b : Int) : Int := wrapI64 (Int.ofNat (Nat.xor (toU64 a) (toU64 b)))

/-- prelude: `Hash for string` (FNV-1a over the bytes with wrapping 64-bit arithmetic) -/
def hashString (bs : List UInt8) : Int :=
  bs.foldl (fun h b => wrappingMul (bitXor h (Int.ofNat b.toNat)) 1099511628211) (-3750763034362895579)

/-- prelude: `hash_combine(seed, value) = wrapping_add(wrapping_mul(seed, 31), Hash.hash(value))` -/
def hashCombine (seed : Int) (h : Int) : Int := wrappingAdd (wrappingMul seed 31) h

def hashKey : Key → Int
  | .int n => n
  | .const _ => 7
  | .str bs => hashString bs
  | .tup a b => hashCombine (hashCombine 17 a) b

def eqKey (a b : Key) : Bool := a == b

def parseKey? (s : String) : Option Key :=
  if s.startsWith "i:" then ((s.drop 2).toString.toInt?).map .int
  else if s.startsWith "c:" then ((s.drop 2).toString.toInt?).map .const
  else if s.startsWith "s:" then (unhex (s.drop 2).toString).map .str
  else if s.startsWith "t:" then
    match (s.drop 2).toString.splitOn "," with
    | [a, b] => match a.toInt?, b.toInt? with
      | some a, some b => some (.tup a b)
      | _, _ => none
    | _ => none
  else none

abbrev T := Table Key Int

def errName : Err → String
  | .oob => "oob"
  | .divzero => "divzero"
  | .fuel => "fuel"
  | .panic => "panic"

/-- one op: `none` = malformed; else the printed result and the new table, or the error -/
def execOp (t : T) : List String → Option (Except Err (String × T))
  | ["ins", k, v] | ["iset", k, v] =>
    match parseKey? k, v.toInt? with
    | some k, some v => some (match insert hashKey eqKey t k v with
      | .ok t' => .ok ("", t')
      | .error e => .error e)
    | _, _ => none
  | [op, k, v] =>
    let f? : Option (Int → Int → Int) :=
      if op == "iadd" then some (· + ·) else if op == "isub" then some (· - ·) else if op == "imul" then some (· * ·) else none
    match f?, parseKey? k, v.toInt? with
    | some f, some k, some v => some (match indexUpdate hashKey eqKey t k (fun x => f x v) with
      | .ok t' => .ok ("", t')
      | .error e => .error e)
    | _, _, _ => none
  | ["get", k] | ["iget", k] =>
    (parseKey? k).map fun k => match get hashKey eqKey t k with
      | .ok v => .ok (toString v, t)
      | .error e => .error e
  | ["tryget", k] =>
    (parseKey? k).map fun k => match tryGet hashKey eqKey t k with
      | .ok (some v) => .ok (s!"some({v})", t)
      | .ok none => .ok ("none", t)
      | .error e => .error e
  | ["has", k] =>
    (parseKey? k).map fun k => match contains hashKey eqKey t k with
      | .ok b => .ok (if b then "true" else "false", t)
      | .error e => .error e
  | ["rem", k] =>
    (parseKey? k).map fun k => match remove hashKey eqKey t k with
      | .ok (t', b) => .ok (if b then "true" else "false", t')
      | .error e => .error e
  | ["len"] => some (.ok ("", t))
  | _ => none

def splitOps (toks : List String) : List (List String) :=
  (toks.foldr (fun t (acc : List (List String)) =>
    if t == ";" then [] :: acc
    else match acc with
      | [] => [[t]]
      | cur :: more => (t :: cur) :: more) [[]]).filter (· ≠ [])

def runOps : T → String → List (List String) → String
  | _, out, [] => out
  | t, out, op :: more =>
    match execOp t op with
    | none => "bad-op"
    | some (.error e) => out ++ "ERR:" ++ errName e
    | some (.ok (res, t')) => runOps t' (out ++ res ++ "," ++ toString t'.len ++ "/") more

def handleHMap (toks : List String) : String := runOps Table.new "" (splitOps toks)

end Abra.Drv.HashMapDrv

def Abra.Drv.handleHMap : List String → String := Abra.Drv.HashMapDrv.handleHMap
