import AbraModel.Arena
import AbraModel.Drv.Util
/- Driver for M14a: `arena <base0> <cap0> (<size> <align> <fresh>)*` →
   `<buf>:<start> … | <number of buffers> <final offset> <current len>`; `fresh` is the base address the
   real allocator returned when the implementation switched buffers at that request (ignored by the model
   unless the model switches there too). A zero alignment is not a Rust alignment: `bad-op`. -/
namespace Abra.Drv
open Abra.Arena

def parseReqs : List String → List Req → Option (List Req)
  | [], acc => some acc.reverse
  | s :: a :: f :: rest, acc =>
    match parseNat? s, parseNat? a, parseNat? f with
    | some s, some a, some f => if a = 0 then none else parseReqs rest (⟨s, a, f⟩ :: acc)
    | _, _, _ => none
  | _, _ => none

def handleArena : List String → String
  | base :: cap :: rest =>
    match parseNat? base, parseNat? cap, parseReqs rest [] with
    | some base, some cap, some rs =>
      let (s, log) := run (withCapacity base cap) rs
      let ps := log.map (fun p => toString p.buf ++ ":" ++ toString p.start)
      String.intercalate " " ps ++ " | " ++ toString s.bufs.length ++ " " ++ toString s.offset ++ " " ++ toString s.cur.len
    | _, _, _ => "bad-op"
  | _ => "bad-op"

end Abra.Drv
