import AbraModel.PatMatrix
import AbraModel.Drv.Util
/-!
Driver for M9.  Request (prefix notation, one token per word):

  `pm <mode> <env> <ty> <narms> <pat>…`      mode ::= w (witnesses, C12) | u (useful flags, C13) | wu
  env  ::= <nenums> { <nvariants> { <nfields> <ty>… } }          enum ids are 0..nenums-1
  ty   ::= B | V | I | F | S | T <n> <ty>… | R <id> <n> <ty>… | E <id>
  pat  ::= _ | b | b<slot> | pt | pf | i<int> | d<bits> | s<hex> | n | T <n> <pat>… | R <id> <n> <pat>…
         | v0 <eid> <idx> | vp <eid> <idx> <pat> | vn <eid> <idx> <n> <pat>… | or <pat> <pat>

Answer: `u=<one 0/1 per arm> w=<witness strings, sorted, joined by ;>` — the witness strings are the
code's `Display for DeconstructedPat` with the harness' naming scheme (struct `St<id>` with fields
`f<j>`, variant `Vr<eid>x<idx>`), floats as `F<bits>`, strings as their hex.  `fuel` if the fuel bound
is exceeded, `ill-typed` if an arm does not have the scrutinee type, `bad-op` on a malformed request.
-/
namespace Abra.Drv
open Abra.PatMatrix

abbrev P (α : Type) := List String → Option (α × List String)

def pNat : P Nat
  | w :: ws => (parseNat? w).map (·, ws)
  | [] => none

/-- `n` items -/
def pMany {α : Type} (item : P α) : Nat → P (List α)
  | 0, ws => some ([], ws)
  | n + 1, ws =>
    match item ws with
    | none => none
    | some (a, ws) =>
      match pMany item n ws with
      | none => none
      | some (as, ws) => some (a :: as, ws)

/-- the token stream bounds the recursion -/
def pTyF : Nat → P Ty
  | 0, _ => none
  | fuel + 1, w :: ws =>
    match w with
    | "B" => some (.bool, ws)
    | "V" => some (.void, ws)
    | "I" => some (.int, ws)
    | "F" => some (.float, ws)
    | "S" => some (.string, ws)
    | "T" =>
      match pNat ws with
      | some (n, ws) => (pMany (pTyF fuel) n ws).map (fun (ts, ws) => (.tuple ts, ws))
      | none => none
    | "R" =>
      match pNat ws with
      | some (id, ws) =>
        match pNat ws with
        | some (n, ws) => (pMany (pTyF fuel) n ws).map (fun (ts, ws) => (.struct id ts, ws))
        | none => none
      | none => none
    | "E" => (pNat ws).map (fun (id, ws) => (.enum id, ws))
    | _ => none
  | _, [] => none

def pTy : P Ty := fun ws => pTyF (ws.length + 1) ws

def pVariant : P (List Ty) := fun ws =>
  match pNat ws with
  | some (n, ws) => pMany pTy n ws
  | none => none

def pEnum : P (List (List Ty)) := fun ws =>
  match pNat ws with
  | some (n, ws) => pMany pVariant n ws
  | none => none

def pEnv : P (List (List (List Ty))) := fun ws =>
  match pNat ws with
  | some (n, ws) => pMany pEnum n ws
  | none => none

def pPatF : Nat → P Pat
  | 0, _ => none
  | fuel + 1, w :: ws =>
    match w with
    | "_" => some (.wild, ws)
    | "b" => some (.bind 0, ws)
    | "pt" => some (.bool true, ws)
    | "pf" => some (.bool false, ws)
    | "n" => some (.void, ws)
    | "T" =>
      match pNat ws with
      | some (n, ws) => (pMany (pPatF fuel) n ws).map (fun (ps, ws) => (.tuple ps, ws))
      | none => none
    | "R" =>
      match pNat ws with
      | some (id, ws) =>
        match pNat ws with
        | some (n, ws) => (pMany (pPatF fuel) n ws).map (fun (ps, ws) => (.struct id ps, ws))
        | none => none
      | none => none
    | "v0" =>
      match pNat ws with
      | some (e, ws) => (pNat ws).map (fun (i, ws) => (.variant0 e i, ws))
      | none => none
    | "vp" =>
      match pNat ws with
      | some (e, ws) =>
        match pNat ws with
        | some (i, ws) => (pPatF fuel ws).map (fun (p, ws) => (.variantPos e i p, ws))
        | none => none
      | none => none
    | "vn" =>
      match pNat ws with
      | some (e, ws) =>
        match pNat ws with
        | some (i, ws) =>
          match pNat ws with
          | some (n, ws) => (pMany (pPatF fuel) n ws).map (fun (ps, ws) => (.variantNamed e i ps, ws))
          | none => none
        | none => none
      | none => none
    | "or" =>
      match pPatF fuel ws with
      | some (l, ws) => (pPatF fuel ws).map (fun (r, ws) => (.or l r, ws))
      | none => none
    | _ =>
      if w.startsWith "b" then (parseNat? (w.drop 1).toString).map (fun i => (.bind i, ws))
      else if w.startsWith "i" then (parseInt? (w.drop 1).toString).map (fun i => (.int i, ws))
      else if w.startsWith "d" then (parseNat? (w.drop 1).toString).map (fun i => (.float i, ws))
      else if w.startsWith "s" then (unhex (w.drop 1).toString).map (fun s => (.str s, ws))
      else none
  | _, [] => none

def pPat : P Pat := fun ws => pPatF (ws.length + 1) ws

def mkEnv (defs : List (List (List Ty))) : EnumEnv := fun id => defs.getD id []

/-! rendering: `Display for DeconstructedPat` -/

def joinWith (sep : String) : List String → String
  | [] => ""
  | [s] => s
  | s :: ss => s ++ sep ++ joinWith sep ss

def hexOfBytes (bs : List UInt8) : String := hex bs

mutual
  def showPat : DPat → String
    | .mk (.wild _) _ _ => "_"
    | .mk (.bool b) _ _ => if b then "true" else "false"
    | .mk (.int i) _ _ => toString i
    | .mk (.float f) _ _ => "F" ++ toString f
    | .mk (.str s) _ _ => hexOfBytes s
    | .mk .product fs ty =>
      match ty with
      | .struct id _ => "St" ++ toString id ++ "(" ++ joinWith ", " (showFields 0 fs) ++ ")"
      | _ => "(" ++ joinWith ", " (showPats fs) ++ ")"
    | .mk .or fs _ => "(" ++ joinWith " | " (showPats fs) ++ ")"
    | .mk (.variant e i) fs _ =>
      "Vr" ++ toString e ++ "x" ++ toString i ++
        (if fs.isEmpty then "" else " of " ++ joinWith ", " (showPats fs))
  def showPats : List DPat → List String
    | [] => []
    | p :: ps => showPat p :: showPats ps
  def showFields : Nat → List DPat → List String
    | _, [] => []
    | j, p :: ps => ("f" ++ toString j ++ " = " ++ showPat p) :: showFields (j + 1) ps
end

def insertSorted (s : String) : List String → List String
  | [] => [s]
  | t :: ts => if s ≤ t then s :: t :: ts else t :: insertSorted s ts

def sortStrings (l : List String) : List String := l.foldr insertSorted []

def handlePatMatrixMode (mode : String) (ws : List String) : String :=
  match pEnv ws with
  | none => "bad-op"
  | some (defs, ws) =>
    match pTy ws with
    | none => "bad-op"
    | some (ty, ws) =>
      match pNat ws with
      | none => "bad-op"
      | some (n, ws) =>
        match pMany pPat n ws with
        | some (arms, []) =>
          let env := mkEnv defs
          if !(arms.all (fun p => patTyped env p ty)) then "ill-typed" else
          let pats := arms.map (fromAst env ty)
          match checkD env (fuelFor env ty pats) ty pats with
          | none => "fuel"
          | some (flags, wits) =>
            let u := "u=" ++ String.ofList (flags.map (fun b => if b then '1' else '0'))
            let w := "w=" ++ joinWith ";" (sortStrings (wits.map showPat))
            if mode == "w" then w else if mode == "u" then u else u ++ " " ++ w
        | _ => "bad-op"

/-- `pm let <env> <ty> <pat>`: is the destructuring pattern accepted (irrefutable)? -/
def handleLetCheck (ws : List String) : String :=
  match pEnv ws with
  | none => "bad-op"
  | some (defs, ws) =>
    match pTy ws with
    | none => "bad-op"
    | some (ty, ws) =>
      match pPat ws with
      | some (p, []) =>
        let env := mkEnv defs
        if !patTyped env p ty then "ill-typed" else
        match checkLet env (fuelFor env ty [fromAst env ty p]) ty p with
        | none => "fuel"
        | some true => "let=accepted"
        | some false => "let=rejected"
      | _ => "bad-op"

def handlePatMatrix : List String → String
  | "let" :: ws => handleLetCheck ws
  | "w" :: ws => handlePatMatrixMode "w" ws
  | "u" :: ws => handlePatMatrixMode "u" ws
  | "wu" :: ws => handlePatMatrixMode "wu" ws
  | _ => "bad-op"

end Abra.Drv
