import AbraModel.Names
import AbraModel.Drv.Util
/- Driver for M12 `Names`:
   `names <builtins> <prelude> (<decls> <types> <imports> <probe> <top>)*`   one group of five words per file, file 0 = main
   types: comma list of `E:<name>:<variant>+<variant>` (enum) / `I:<name>:<method>+…` (interface)
   lists are comma separated, `-` = empty; imports: `g<k>` glob, `i<k>:a+b` inclusion, `e<k>:a+b` exclusion,
   `a<k>:p` alias, `m` missing file; statements (no spaces):
   `l<name>.<id>;` let, `u<name>;` use, `q<alias>.<name>;` qualified use, `{…}` block,
   `f<name>.<id>{…}` for, `m<name>.<id>{…}` match arm, `p<name>.<id>{…}` lambda parameter,
   `M<a<name>.<id>{…}n{…}…>` multi-arm match (arm binding a name / binding nothing), `I{…}{…}` if/else,
   `x<prefix|_>.<type>.<variant>;` qualified variant pattern, `y<prefix|_>.<type>.<variant>;` variant expression
   answer: `ok <file>.p=<tags>;<file>.t=<tags>;…` or `diag clash=<names> unres=<file>.<p|t>.<index>,… bad=<n>` -/
namespace Abra.Drv
open Abra.Names

private def splitC (s : String) : List String := if s = "-" then [] else s.splitOn ","

private def isNameChar (c : Char) : Bool := c.isAlphanum || c = '_'

private def takeName (cs : List Char) : String × List Char :=
  (String.ofList (cs.takeWhile isNameChar), cs.dropWhile isNameChar)

private def takeNat (cs : List Char) : Option (Nat × List Char) :=
  let ds := cs.takeWhile Char.isDigit
  if ds.isEmpty then none else (String.ofList ds).toNat?.map (fun n => (n, cs.dropWhile Char.isDigit))

private def parseVariantUse (cs : List Char) (mk : Option String → String → String → Stmt String) :
    Option (Stmt String × List Char) :=
  let (p, r1) := takeName cs
  match r1 with
  | '.' :: r2 =>
    let (ty, r3) := takeName r2
    match r3 with
    | '.' :: r4 =>
      let (v, r5) := takeName r4
      match r5 with
      | ';' :: r6 =>
        if p.isEmpty || ty.isEmpty || v.isEmpty then none
        else some (mk (if p = "_" then none else some p) ty v, r6)
      | _ => none
    | _ => none
  | _ => none

mutual
private def parseStmts : Nat → List Char → Option (List (Stmt String) × List Char)
  | 0, _ => none
  | fuel + 1, cs =>
    match cs with
    | [] => some ([], [])
    | '}' :: _ => some ([], cs)
    | _ =>
      match parseStmt fuel cs with
      | none => none
      | some (s, rest) =>
        match parseStmts fuel rest with
        | none => none
        | some (ss, rest2) => some (s :: ss, rest2)

private def parseArms : Nat → List Char → Option (List (Option (String × Nat) × List (Stmt String)) × List Char)
  | 0, _ => none
  | fuel + 1, cs =>
    match cs with
    | '>' :: _ => some ([], cs)
    | 'n' :: '{' :: r =>
      match parseStmts fuel r with
      | some (body, '}' :: r2) =>
        match parseArms fuel r2 with
        | some (arms, r3) => some ((none, body) :: arms, r3)
        | none => none
      | _ => none
    | 'a' :: r =>
      let (x, r1) := takeName r
      match r1 with
      | '.' :: r2 =>
        match takeNat r2 with
        | some (id, '{' :: r3) =>
          match parseStmts fuel r3 with
          | some (body, '}' :: r4) =>
            match parseArms fuel r4 with
            | some (arms, r5) => if x.isEmpty then none else some ((some (x, id), body) :: arms, r5)
            | none => none
          | _ => none
        | _ => none
      | _ => none
    | _ => none

private def parseBinder (fuel : Nat) (cs : List Char)
    (mk : String → Nat → List (Stmt String) → Stmt String) : Option (Stmt String × List Char) :=
  let (x, r1) := takeName cs
  match r1 with
  | '.' :: r2 =>
    match takeNat r2 with
    | some (id, '{' :: r3) =>
      match parseStmts fuel r3 with
      | some (body, '}' :: r4) => if x.isEmpty then none else some (mk x id body, r4)
      | _ => none
    | _ => none
  | _ => none

private def parseStmt : Nat → List Char → Option (Stmt String × List Char)
  | 0, _ => none
  | fuel + 1, cs =>
    match cs with
    | 'l' :: r =>
      let (x, r1) := takeName r
      match r1 with
      | '.' :: r2 =>
        match takeNat r2 with
        | some (id, ';' :: r3) => if x.isEmpty then none else some (Stmt.letv x id, r3)
        | _ => none
      | _ => none
    | 'u' :: r =>
      let (x, r1) := takeName r
      match r1 with
      | ';' :: r2 => if x.isEmpty then none else some (Stmt.use x, r2)
      | _ => none
    | 'q' :: r =>
      let (q, r1) := takeName r
      match r1 with
      | '.' :: r2 =>
        let (x, r3) := takeName r2
        match r3 with
        | ';' :: r4 => if q.isEmpty || x.isEmpty then none else some (Stmt.quse q x, r4)
        | _ => none
      | _ => none
    | '{' :: r =>
      match parseStmts fuel r with
      | some (body, '}' :: r2) => some (Stmt.block body, r2)
      | _ => none
    | 'M' :: '<' :: r =>
      match parseArms fuel r with
      | some (arms, '>' :: r2) => some (Stmt.marms arms, r2)
      | _ => none
    | 'I' :: '{' :: r =>
      match parseStmts fuel r with
      | some (a, '}' :: '{' :: r2) =>
        match parseStmts fuel r2 with
        | some (b, '}' :: r3) => some (Stmt.ifelse a b, r3)
        | _ => none
      | _ => none
    | 'x' :: r => parseVariantUse r Stmt.pmatch
    | 'y' :: r => parseVariantUse r Stmt.euse
    | 'f' :: r => parseBinder fuel r Stmt.forv
    | 'm' :: r => parseBinder fuel r Stmt.matchv
    | 'p' :: r => parseBinder fuel r Stmt.lam
    | _ => none
end

def parseNamesBody (s : String) : Option (List (Stmt String)) :=
  if s = "-" then some [] else
  match parseStmts (2 * s.length + 4) s.toList with
  | some (ss, []) => some ss
  | _ => none

private def parseImport (s : String) : Option (Import String) :=
  if s = "m" then some Import.missing else
  match s.toList with
  | k :: rest =>
    let (numS, tail) := (String.ofList (rest.takeWhile Char.isDigit), rest.dropWhile Char.isDigit)
    match numS.toNat? with
    | none => none
    | some f =>
      let arg : Option String := match tail with
        | [] => some ""
        | ':' :: t => some (String.ofList t)
        | _ => none
      match arg with
      | none => none
      | some a =>
        let names := if a.isEmpty then [] else a.splitOn "+"
        match k with
        | 'g' => if a.isEmpty then some (Import.glob f) else none
        | 'i' => some (Import.incl f names)
        | 'e' => some (Import.excl f names)
        | 'a' => if a.isEmpty then none else some (Import.as_ f a)
        | _ => none
  | [] => none

private def parseType (s : String) : Option (TypeD String) :=
  match s.splitOn ":" with
  | [k, n, ms] =>
    if n.isEmpty then none
    else if k = "E" then some { name := n, isEnum := true, members := ms.splitOn "+" }
    else if k = "I" then some { name := n, isEnum := false, members := ms.splitOn "+" }
    else none
  | _ => none

private def parseFiles : List String → Option (List (FileD String))
  | [] => some []
  | d :: ty :: i :: p :: t :: rest =>
    match (splitC ty).mapM parseType, (splitC i).mapM parseImport, parseNamesBody p, parseNamesBody t, parseFiles rest with
    | some tys, some imps, some pb, some tb, some fs =>
      some ({ decls := splitC d, types := tys, imports := imps, probe := pb, top := tb } :: fs)
    | _, _, _, _, _ => none
  | _ => none

private def tagOf : Decl String → String
  | .fn f x => "F" ++ toString f ++ "." ++ x
  | .alias _ x _ => "A." ++ x
  | .builtin x => "B." ++ x
  | .prelude x => "P." ++ x
  | .loc id => "L" ++ toString id
  | .enum_ f _ n => "E" ++ toString f ++ "." ++ n
  | .iface f _ n => "I" ++ toString f ++ "." ++ n
  | .variant f _ n v => "F" ++ toString f ++ "." ++ n ++ "." ++ v

private def insertSortedS (x : String) : List String → List String
  | [] => [x]
  | y :: ys => if x < y || x = y then x :: y :: ys else y :: insertSortedS x ys

private def sortS (xs : List String) : List String := xs.foldl (fun acc x => insertSortedS x acc) []

private def joinC (xs : List String) : String := if xs.isEmpty then "-" else String.intercalate "," xs

private def unresIdx (pre : String) : Nat → List (Res String) → List String
  | _, [] => []
  | i, Res.unresolved :: rs => (pre ++ toString i) :: unresIdx pre (i + 1) rs
  | i, Res.to _ :: rs => unresIdx pre (i + 1) rs

private def tags (rs : List (Res String)) : List String :=
  rs.map fun r => match r with
    | Res.to d => tagOf d
    | Res.unresolved => "?"

def handleNames : List String → String
  | b :: p :: rest =>
    match parseFiles rest with
    | none => "bad-op"
    | some files =>
      let w : World String := { builtins := splitC b, prelude := splitC p, files := files }
      let idxs := List.range files.length
      let clashes := idxs.foldl (fun acc k => acc ++ (ownTable w k).2 ++ memberClashes w k ++ (effective w k).clashes) []
      let bad := idxs.foldl (fun acc k => acc + (effective w k).badImports) 0
      let per := idxs.map fun k => (k, resolveProbe w true k, resolveTop w true k)
      let unres := per.foldl (fun acc (k, pr, tp) =>
        acc ++ unresIdx (toString k ++ ".p.") 0 pr ++ unresIdx (toString k ++ ".t.") 0 tp) []
      if clashes.isEmpty && unres.isEmpty && bad == 0 then
        "ok " ++ String.intercalate ";" (per.map fun (k, pr, tp) =>
          toString k ++ ".p=" ++ joinC (tags pr) ++ ";" ++ toString k ++ ".t=" ++ joinC (tags tp))
      else
        "diag clash=" ++ joinC (sortS clashes) ++ " unres=" ++ joinC unres ++ " bad=" ++ toString bad
  | _ => "bad-op"

end Abra.Drv
