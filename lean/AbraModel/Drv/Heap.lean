import AbraModel.Heap
import AbraModel.Drv.Util
/-
Driver for the value/heap model: `heapcopy <s-expression>`.
  val := <int> | t | f | '<text>' | (S val…) | (A val…) | (V <tag> val)
`(S …)` is a struct or tuple object, `(A …)` an array, `(V tag x)` an enum value.  The value is built in
thread 1's heap, deep-copied (`Value::deep_copy`) into thread 2's heap and the copy is rendered back;
`owned` = every object reachable from the copy lives in thread 2's heap.
-/
namespace Abra.Drv.HeapDrv
open Abra.Heap

inductive SVal where
  | int (n : Int)
  | bool (b : Bool)
  | str (s : List Char)
  | node (kind : Char) (tag : Nat) (kids : List SVal)

def isDigit (c : Char) : Bool := '0' ≤ c ∧ c ≤ '9'

def takeWhileC (p : Char → Bool) : List Char → List Char × List Char
  | [] => ([], [])
  | c :: cs => if p c then let r := takeWhileC p cs; (c :: r.1, r.2) else ([], c :: cs)

def skipSp : List Char → List Char
  | ' ' :: cs => skipSp cs
  | cs => cs

mutual
def parseVal : Nat → List Char → Option (SVal × List Char)
  | 0, _ => none
  | f + 1, cs =>
    match skipSp cs with
    | 't' :: rest => some (.bool true, rest)
    | 'f' :: rest => some (.bool false, rest)
    | '\'' :: rest =>
      let r := takeWhileC (· ≠ '\'') rest
      match r.2 with
      | '\'' :: rest' => some (.str r.1, rest')
      | _ => none
    | '(' :: k :: rest =>
      if k = 'V' then
        let r := takeWhileC isDigit (skipSp rest)
        match (String.ofList r.1).toNat? with
        | some tag =>
          match parseKids f r.2 with
          | some (kids, rest') => some (.node 'V' tag kids, rest')
          | none => none
        | none => none
      else if k = 'S' ∨ k = 'A' then
        match parseKids f rest with
        | some (kids, rest') => some (.node k 0 kids, rest')
        | none => none
      else none
    | c :: rest =>
      if c = '-' ∨ isDigit c then
        let r := takeWhileC isDigit rest
        match (String.ofList (c :: r.1)).toInt? with
        | some n => some (.int n, r.2)
        | none => none
      else none
    | [] => none
def parseKids : Nat → List Char → Option (List SVal × List Char)
  | 0, _ => none
  | f + 1, cs =>
    match skipSp cs with
    | ')' :: rest => some ([], rest)
    | cs' =>
      match parseVal f cs' with
      | some (v, rest) =>
        match parseKids f rest with
        | some (vs, rest') => some (v :: vs, rest')
        | none => none
      | none => none
end

mutual
def build (t : Nat) : SVal → Heaps → Val × Heaps
  | .int n, H => (.int n, H)
  | .bool b, H => (.bool b, H)
  | .str s, H => let r := alloc H t (.str (s.map (·.toNat))); (.str r.1, r.2)
  | .node k tag kids, H =>
    let r := buildList t kids H
    if k = 'A' then let a := alloc r.2 t (.array r.1); (.array a.1, a.2)
    else if k = 'V' then
      let a := alloc r.2 t (.variant tag (r.1.headD (.int 0))); (.variant a.1, a.2)
    else let a := alloc r.2 t (.struct r.1); (.struct a.1, a.2)
def buildList (t : Nat) : List SVal → Heaps → List Val × Heaps
  | [], H => ([], H)
  | v :: vs, H =>
    let r := build t v H
    let rs := buildList t vs r.2
    (r.1 :: rs.1, rs.2)
end

mutual
def showTree : Tree → String
  | .int n => toString n
  | .float b => s!"F{b}"
  | .bool b => if b then "t" else "f"
  | .addr p => s!"@{p}"
  | .struct fs => "(S" ++ showTrees fs ++ ")"
  | .array es => "(A" ++ showTrees es ++ ")"
  | .variant tag t => s!"(V {tag} " ++ showTree t ++ ")"
  | .str bs => "'" ++ String.ofList (bs.map Char.ofNat) ++ "'"
  | .chan q => s!"C{q}"
def showTrees : List Tree → String
  | [] => ""
  | t :: ts => " " ++ showTree t ++ showTrees ts
end

end Abra.Drv.HeapDrv
namespace Abra.Drv
open Abra.Drv.HeapDrv Abra.Heap

def handleHeapCopy (ws : List String) : String :=
  match parseVal 200 (" ".intercalate ws).toList with
  | some (sv, rest) =>
    if !(skipSp rest).isEmpty then "bad-op" else
    let b := build 1 sv (fun _ => [])
    match deepCopy 64 b.2 2 b.1 with
    | some (v', H') =>
      match render 64 H' v', addrs 64 H' v' with
      | some tr, some xs => showTree tr ++ (if xs.all (·.tid = 2) then " owned" else " shared")
      | _, _ => "render-fault"
    | none => "copy-fault"
  | none => "bad-op"

end Abra.Drv
