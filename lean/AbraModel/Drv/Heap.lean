import AbraModel.Heap
import AbraModel.Drv.Util
/-
Driver for the value/heap model: `heapcopy <s-expression>`.
  val := <int> | t | f | '<text>' | (S val…) | (A val…) | (V <tag> val)
`(S …)` is a struct or tuple object, `(A …)` an array, `(V tag x)` an enum value.  The value is built in
thread 1's heap, deep-copied (`Value::deep_copy`) into thread 2's heap and the copy is rendered back;
`owned` = every object reachable from the copy lives in thread 2's heap.

`heapalias <captures> | <ops>`: the captures of one task, written with datum labels for sharing and cycles
(`&3=(A 1 2)` names a node, `&3` refers to it); they are built in thread 1's heap and copied with ONE map
(`spawnCopy`, as `SpawnTask` does) into thread 2's heap.  ops, separated by `;`, act on the task's copies (`T`)
or on the spawner's originals (`M`), addressed by a path `<capture>.<slot>.<slot>…`:
  `T set <path> <slot> <int>` | `T push <path> <int>` | `T pushv <path> <value>` (a fresh value built in the
  acting side's heap) | `T show <path>` | `T len <path>` (same with `M`).
Answer: the shown renderings joined by `;`, then ` owned` / ` shared`.

`heapsend <values> | <ops>`: the writer's values (thread 1) and one stream of ops: `W <path>` = ChannelWrite of the
writer's value at <path> (a snapshot of the heaps as they are NOW), `R` = ChannelRead by thread 2 of the oldest
unread message (rebuilt on thread 2's heap; the received values are the `T` roots, in order of reading), and the
`M …` / `T …` ops above.  Answer: the shown renderings joined by `;`.
-/
namespace Abra.Drv.HeapDrv
open Abra.Heap

inductive SVal where
  | int (n : Int)
  | bool (b : Bool)
  | str (s : List Char)
  | node (kind : Char) (tag : Nat) (kids : List SVal)
  /-- `&n=<node>` -/
  | lab (n : Nat) (v : SVal)
  /-- `&n` -/
  | ref (n : Nat)

def isDigit (c : Char) : Bool := '0' ≤ c ∧ c ≤ '9'

def takeWhileC (p : Char → Bool) : List Char → List Char × List Char
  | [] => ([], [])
  | c :: cs => if p c then let r := takeWhileC p cs; (c :: r.1, r.2) else ([], c :: cs)

def skipSp : List Char → List Char
  | ' ' :: cs => skipSp cs
  | cs => cs

mutual
def parseVal : Nat → List Char → Option (SVal × List Char)
  | 0, _ => none
  | f + 1, cs =>
    match skipSp cs with
    | '&' :: rest =>
      let r := takeWhileC isDigit rest
      match (String.ofList r.1).toNat?, r.2 with
      | some n, '=' :: rest' =>
        match parseVal f rest' with
        | some (v, rest'') => some (.lab n v, rest'')
        | none => none
      | some n, rest' => some (.ref n, rest')
      | none, _ => none
    | 't' :: rest => some (.bool true, rest)
    | 'f' :: rest => some (.bool false, rest)
    | '\'' :: rest =>
      let r := takeWhileC (· ≠ '\'') rest
      match r.2 with
      | '\'' :: rest' => some (.str r.1, rest')
      | _ => none
    | '(' :: k :: rest =>
      if k = 'V' then
        let r := takeWhileC isDigit (skipSp rest)
        match (String.ofList r.1).toNat? with
        | some tag =>
          match parseKids f r.2 with
          | some (kids, rest') => some (.node 'V' tag kids, rest')
          | none => none
        | none => none
      else if k = 'S' ∨ k = 'A' then
        match parseKids f rest with
        | some (kids, rest') => some (.node k 0 kids, rest')
        | none => none
      else none
    | c :: rest =>
      if c = '-' ∨ isDigit c then
        let r := takeWhileC isDigit rest
        match (String.ofList (c :: r.1)).toInt? with
        | some n => some (.int n, r.2)
        | none => none
      else none
    | [] => none
def parseKids : Nat → List Char → Option (List SVal × List Char)
  | 0, _ => none
  | f + 1, cs =>
    match skipSp cs with
    | ')' :: rest => some ([], rest)
    | cs' =>
      match parseVal f cs' with
      | some (v, rest) =>
        match parseKids f rest with
        | some (vs, rest') => some (v :: vs, rest')
        | none => none
      | none => none
end

mutual
def build (t : Nat) : SVal → Heaps → Val × Heaps
  | .int n, H => (.int n, H)
  | .bool b, H => (.bool b, H)
  | .str s, H => let r := alloc H t (.str (s.map (·.toNat))); (.str r.1, r.2)
  | .lab _ v, H => build t v H
  | .ref _, H => (.int 0, H)
  | .node k tag kids, H =>
    let r := buildList t kids H
    if k = 'A' then let a := alloc r.2 t (.array r.1); (.array a.1, a.2)
    else if k = 'V' then
      let a := alloc r.2 t (.variant tag (r.1.headD (.int 0))); (.variant a.1, a.2)
    else let a := alloc r.2 t (.struct r.1); (.struct a.1, a.2)
def buildList (t : Nat) : List SVal → Heaps → List Val × Heaps
  | [], H => ([], H)
  | v :: vs, H =>
    let r := build t v H
    let rs := buildList t vs r.2
    (r.1 :: rs.1, rs.2)
end

/-- builder state: heaps and the labels seen so far -/
structure BSt where
  H : Heaps
  labs : List (Nat × Val)

def labLookup (labs : List (Nat × Val)) (n : Nat) : Option Val :=
  match labs with
  | [] => none
  | (k, v) :: rest => if k = n then some v else labLookup rest n

mutual
/-- build a value with sharing and cycles: a labelled node is allocated (with placeholder slots) and its
    label recorded before its children are built, then filled -/
def buildL (t : Nat) : SVal → Option Nat → BSt → Option (Val × BSt)
  | .int n, _, s => some (.int n, s)
  | .bool b, _, s => some (.bool b, s)
  | .str cs, l, s =>
    let r := alloc s.H t (.str (cs.map (·.toNat)))
    some (.str r.1, { H := r.2, labs := match l with | some n => (n, .str r.1) :: s.labs | none => s.labs })
  | .ref n, _, s => (labLookup s.labs n).map (·, s)
  | .lab n v, _, s => buildL t v (some n) s
  | .node k tag kids, l, s =>
    let ph : Obj := if k = 'A' then .array (kids.map fun _ => Val.int 0)
      else if k = 'V' then .variant tag (.int 0) else .struct (kids.map fun _ => Val.int 0)
    let r := alloc s.H t ph
    let me : Val := if k = 'A' then .array r.1 else if k = 'V' then .variant r.1 else .struct r.1
    let s1 : BSt := { H := r.2, labs := match l with | some n => (n, me) :: s.labs | none => s.labs }
    match buildLs t kids s1 with
    | some (ks, s2) =>
      let obj : Obj := if k = 'A' then .array ks else if k = 'V' then .variant tag (ks.headD (.int 0)) else .struct ks
      some (me, { s2 with H := putObj s2.H r.1 obj })
    | none => none
def buildLs (t : Nat) : List SVal → BSt → Option (List Val × BSt)
  | [], s => some ([], s)
  | v :: vs, s =>
    match buildL t v none s with
    | some (x, s1) =>
      match buildLs t vs s1 with
      | some (xs, s2) => some (x :: xs, s2)
      | none => none
    | none => none
end

/-- all values of a top-level list (the captures) -/
def parseVals : Nat → List Char → Option (List SVal)
  | 0, _ => none
  | f + 1, cs =>
    match skipSp cs with
    | [] => some []
    | cs' =>
      match parseVal 200 cs' with
      | some (v, rest) => (parseVals f rest).map (v :: ·)
      | none => none

/-- follow slots from a value -/
def follow (H : Heaps) : Val → List Nat → Option Val
  | v, [] => some v
  | v, i :: is =>
    match ptr? v with
    | some a =>
      match lookup H a with
      | some obj => match obj.kids[i]? with
        | some k => follow H k is
        | none => none
      | none => none
    | none => none

def resolve (H : Heaps) (roots : List Val) (path : List Nat) : Option Val :=
  match path with
  | [] => none
  | c :: is => match roots[c]? with
    | some v => follow H v is
    | none => none

/-- every address reachable from the work list (graph search with a visited list) -/
def reachAddrs : Nat → Heaps → List Val → List Addr → List Addr
  | 0, _, _, seen => seen
  | _, _, [], seen => seen
  | f + 1, H, v :: todo, seen =>
    match ptr? v with
    | none => reachAddrs f H todo seen
    | some a =>
      if seen.contains a then reachAddrs f H todo seen
      else match lookup H a with
        | some obj => reachAddrs f H (obj.kids ++ todo) (a :: seen)
        | none => reachAddrs f H todo (a :: seen)

mutual
def showTree : Tree → String
  | .int n => toString n
  | .float b => s!"F{b}"
  | .bool b => if b then "t" else "f"
  | .addr p => s!"@{p}"
  | .struct fs => "(S" ++ showTrees fs ++ ")"
  | .array es => "(A" ++ showTrees es ++ ")"
  | .variant tag t => s!"(V {tag} " ++ showTree t ++ ")"
  | .str bs => "'" ++ String.ofList (bs.map Char.ofNat) ++ "'"
  | .chan q => s!"C{q}"
def showTrees : List Tree → String
  | [] => ""
  | t :: ts => " " ++ showTree t ++ showTrees ts
end

end Abra.Drv.HeapDrv
namespace Abra.Drv
open Abra.Drv.HeapDrv Abra.Heap

def handleHeapCopy (ws : List String) : String :=
  match parseVal 200 (" ".intercalate ws).toList with
  | some (sv, rest) =>
    if !(skipSp rest).isEmpty then "bad-op" else
    let b := build 1 sv (fun _ => [])
    match deepCopy 64 b.2 2 b.1 with
    | some (v', H') =>
      match render 64 H' v', addrs 64 H' v' with
      | some tr, some xs => showTree tr ++ (if xs.all (·.tid = 2) then " owned" else " shared")
      | _, _ => "render-fault"
    | none => "copy-fault"
  | none => "bad-op"

def parsePath (w : String) : Option (List Nat) := (w.splitOn ".").mapM String.toNat?

/-- one op: (heaps, shown so far) → … ; `none` = the op does not apply (bad path / not an object) -/
def aliasOp (orig copy : List Val) (H : Heaps) (shown : List String) (ws : List String) :
    Option (Heaps × List String) :=
  match ws with
  | [side, "set", p, i, k] =>
    let roots := if side = "T" then copy else orig
    match parsePath p, i.toNat?, k.toInt? with
    | some path, some i, some k =>
      match resolve H roots path with
      | some v => match ptr? v with
        | some a => some (setSlot H a i (.int k), shown)
        | none => none
      | none => none
    | _, _, _ => none
  | [side, "push", p, k] =>
    let roots := if side = "T" then copy else orig
    match parsePath p, k.toInt? with
    | some path, some k =>
      match resolve H roots path with
      | some (.array a) => match lookup H a with
        | some (.array es) => some (putObj H a (.array (es ++ [.int k])), shown)
        | _ => none
      | _ => none
    | _, _ => none
  | [side, "len", p] =>
    let roots := if side = "T" then copy else orig
    match parsePath p with
    | some path =>
      match resolve H roots path with
      | some (.array a) => match lookup H a with
        | some (.array es) => some (H, shown ++ [toString es.length])
        | _ => none
      | _ => none
    | none => none
  | side :: "pushv" :: p :: rest =>
    let roots := if side = "T" then copy else orig
    match parsePath p, parseVal 200 (" ".intercalate rest).toList with
    | some path, some (sv, _) =>
      match resolve H roots path with
      | some (.array a) =>
        match buildL (if side = "T" then 2 else 1) sv none { H := H, labs := [] } with
        | some (v, st) => match lookup st.H a with
          | some (.array es) => some (putObj st.H a (.array (es ++ [v])), shown)
          | _ => none
        | none => none
      | _ => none
    | _, _ => none
  | [side, "show", p] =>
    let roots := if side = "T" then copy else orig
    match parsePath p with
    | some path =>
      match resolve H roots path with
      | some v => match render 64 H v with
        | some tr => some (H, shown ++ [showTree tr])
        | none => some (H, shown ++ ["unrenderable"])
      | none => none
    | none => none
  | _ => none

def aliasOps (orig copy : List Val) : List (List String) → Heaps → List String → Option (Heaps × List String)
  | [], H, shown => some (H, shown)
  | op :: ops, H, shown =>
    match aliasOp orig copy H shown op with
    | some (H', shown') => aliasOps orig copy ops H' shown'
    | none => none

def splitOps (ws : List String) : List (List String) :=
  (ws.foldl (fun (acc : List (List String)) w =>
      if w = ";" then [] :: acc else match acc with
        | cur :: rest => (cur ++ [w]) :: rest
        | [] => [[w]]) [[]]).reverse.filter (!·.isEmpty)

/-- ops of `heapsend`: heaps, queue of messages (heaps at write time, written value), values received -/
def sendOps (orig : List Val) : List (List String) → Heaps → List (Heaps × Val) → List Val → List String →
    Option (List String)
  | [], _, _, _, shown => some shown
  | op :: ops, H, queue, recv, shown =>
    match op with
    | ["W", p] =>
      match parsePath p with
      | some path => match resolve H orig path with
        | some v => sendOps orig ops H (queue ++ [(H, v)]) recv shown
        | none => none
      | none => none
    | ["R"] =>
      match queue with
      | (Hw, v) :: rest =>
        match chanReceive 64 Hw H 2 v with
        | some (v', H') => sendOps orig ops H' rest (recv ++ [v']) shown
        | none => none
      | [] => none
    | _ =>
      match aliasOp orig recv H shown op with
      | some (H', shown') => sendOps orig ops H' queue recv shown'
      | none => none

def handleHeapSend (ws : List String) : String :=
  let capWords := ws.takeWhile (· ≠ "|")
  let opWords := (ws.dropWhile (· ≠ "|")).drop 1
  match parseVals 50 (" ".intercalate capWords).toList with
  | some svs =>
    match buildLs 1 svs { H := fun _ => [], labs := [] } with
    | some (caps, st) =>
      match sendOps caps (splitOps opWords) st.H [] [] [] with
      | some shown => ";".intercalate shown
      | none => "bad-op"
    | none => "bad-label"
  | none => "bad-op"

def handleHeapAlias (ws : List String) : String :=
  let capWords := ws.takeWhile (· ≠ "|")
  let opWords := (ws.dropWhile (· ≠ "|")).drop 1
  match parseVals 50 (" ".intercalate capWords).toList with
  | some svs =>
    match buildLs 1 svs { H := fun _ => [], labs := [] } with
    | some (caps, st) =>
      match spawnCopy 64 st.H 2 caps with
      | some (caps', H') =>
        let owned := (reachAddrs 10000 H' caps' []).all (·.tid = 2)
        match aliasOps caps caps' (splitOps opWords) H' [] with
        | some (_, shown) => ";".intercalate shown ++ (if owned then " owned" else " shared")
        | none => "bad-op"
      | none => "copy-fault"
    | none => "bad-label"
  | none => "bad-op"

end Abra.Drv
