import AbraModel.Marshal
import AbraModel.Drv.Util
/- Driver for M15: `marshal P <n> <ty>* R <ty> A <v>* V <v> T <n> (<bits> <texthex>)*`
   — one host call: the Abra side pushes the arguments (`pushArgs`), the generated `HostFunctionArgs::from_vm`
   reads them (`fromVmArgs`), the host answers `V` with `HostFunctionRet::into_vm` (`intoVm`), and the Abra
   program prints the value it received with the prelude's `ToString` (rendered here from the VM value).
   Answer: `args=<canonical args> | out=<printed text> | pending=<cleared?>`.
   Types: `int float bool str unit | opt T | res T E | arr T | tup n T* | struct Name n (field T)* |
   enum Name n (Variant bare | Variant pay T)*`; values: `I n | F bits | B 0/1 | S hex | U | some v | none | ok v |
   err v | arr n v* | tup n v* | var tag 0 | var tag 1 v`.  `T` lists how floats print (bits ↦ text, hex). -/
namespace Abra.Drv
open Abra.Marshal

instance : Inhabited Ty := ⟨.int⟩

/-- types with the names needed to print values the way the Abra program does -/
inductive DTy where
  | int | float | bool | str | unit
  | opt (t : DTy) | res (t e : DTy) | arr (t : DTy)
  | tup (ts : List DTy)
  | strct (name : String) (fields : List DTy)
  | enm (name : String) (variants : List (String × Option DTy))
  deriving Inhabited

partial def DTy.toTy : DTy → Ty
  | .int => .int | .float => .float | .bool => .bool | .str => .str | .unit => .unit
  | .opt t => .opt t.toTy
  | .res t e => .res t.toTy e.toTy
  | .arr t => .arr t.toTy
  | .tup ts => .tup (ts.foldr (fun t acc => .cons t.toTy acc) .nil)
  | .strct _ fs => .strct (fs.foldr (fun t acc => .cons t.toTy acc) .nil)
  | .enm _ vs => .enm (vs.foldr (fun (_, p) acc => match p with
      | none => .bare acc
      | some t => .payload t.toTy acc) .nil)

mutual
partial def parseTy : List String → Option (DTy × List String)
  | "int" :: r => some (.int, r)
  | "float" :: r => some (.float, r)
  | "bool" :: r => some (.bool, r)
  | "str" :: r => some (.str, r)
  | "unit" :: r => some (.unit, r)
  | "opt" :: r => (parseTy r).map (fun (t, r) => (.opt t, r))
  | "res" :: r => (parseTy r).bind (fun (t, r) => (parseTy r).map (fun (e, r) => (.res t e, r)))
  | "arr" :: r => (parseTy r).map (fun (t, r) => (.arr t, r))
  | "tup" :: n :: r => (parseNat? n).bind (fun n => (parseTys n r).map (fun (ts, r) => (.tup ts, r)))
  | "struct" :: name :: n :: r =>
    (parseNat? n).bind (fun n => (parseFields n r).map (fun (ts, r) => (.strct name ts, r)))
  | "enum" :: name :: n :: r =>
    (parseNat? n).bind (fun n => (parseVariants n r).map (fun (vs, r) => (.enm name vs, r)))
  | _ => none
partial def parseTys : Nat → List String → Option (List DTy × List String)
  | 0, r => some ([], r)
  | n + 1, r => (parseTy r).bind (fun (t, r) => (parseTys n r).map (fun (ts, r) => (t :: ts, r)))
partial def parseFields : Nat → List String → Option (List DTy × List String)
  | 0, r => some ([], r)
  | n + 1, _ :: r => (parseTy r).bind (fun (t, r) => (parseFields n r).map (fun (ts, r) => (t :: ts, r)))
  | _, _ => none
partial def parseVariants : Nat → List String → Option (List (String × Option DTy) × List String)
  | 0, r => some ([], r)
  | n + 1, v :: "bare" :: r => (parseVariants n r).map (fun (vs, r) => ((v, none) :: vs, r))
  | n + 1, v :: "pay" :: r =>
    (parseTy r).bind (fun (t, r) => (parseVariants n r).map (fun (vs, r) => ((v, some t) :: vs, r)))
  | _, _ => none
end

mutual
partial def parseVal : List String → Option (HV × List String)
  | "I" :: n :: r => (parseInt? n).map (fun n => (.int n, r))
  | "F" :: b :: r => (parseNat? b).map (fun b => (.float (UInt64.ofNat b), r))
  | "B" :: b :: r => some (.bool (b == "1"), r)
  | "S" :: h :: r => some (.str h, r)
  | "U" :: r => some (.unit, r)
  | "some" :: r => (parseVal r).map (fun (v, r) => (.some v, r))
  | "none" :: r => some (.none, r)
  | "ok" :: r => (parseVal r).map (fun (v, r) => (.ok v, r))
  | "err" :: r => (parseVal r).map (fun (v, r) => (.err v, r))
  | "arr" :: n :: r => (parseNat? n).bind (fun n => (parseVals n r).map (fun (vs, r) => (.arr vs, r)))
  | "tup" :: n :: r => (parseNat? n).bind (fun n => (parseVals n r).map (fun (vs, r) => (.tup vs, r)))
  | "var" :: tag :: "0" :: r => (parseNat? tag).map (fun tag => (.variant tag none, r))
  | "var" :: tag :: "1" :: r =>
    (parseNat? tag).bind (fun tag => (parseVal r).map (fun (v, r) => (.variant tag (some v), r)))
  | _ => none
partial def parseVals : Nat → List String → Option (List HV × List String)
  | 0, r => some ([], r)
  | n + 1, r => (parseVal r).bind (fun (v, r) => (parseVals n r).map (fun (vs, r) => (v :: vs, r)))
end

partial def canon : HV → String
  | .int n => "I" ++ toString n
  | .float b => "F" ++ toString b.toNat
  | .bool true => "Bt"
  | .bool false => "Bf"
  | .str h => "S" ++ h
  | .unit => "U"
  | .some v => "some(" ++ canon v ++ ")"
  | .none => "none"
  | .ok v => "ok(" ++ canon v ++ ")"
  | .err v => "err(" ++ canon v ++ ")"
  | .arr vs => "[" ++ String.intercalate "," (vs.map canon) ++ "]"
  | .tup vs => "(" ++ String.intercalate "," (vs.map canon) ++ ")"
  | .variant t none => "#" ++ toString t
  | .variant t (some v) => "#" ++ toString t ++ "(" ++ canon v ++ ")"

def hexToString (h : String) : String :=
  match unhex h with
  | some bs => (String.fromUTF8? (ByteArray.mk bs.toArray)).getD "?"
  | none => "?"

def lookupFloat (tbl : List (Nat × String)) (b : UInt64) : String :=
  match tbl.find? (fun p => p.1 == b.toNat) with
  | some p => p.2
  | none => "<float " ++ toString b.toNat ++ ">"

/-- what `println` shows for a VM value of the given type (prelude `ToString`, and the `ToString`
    impls the test program declares for the #host types); `none` = the VM value does not have the type -/
partial def showVV (tbl : List (Nat × String)) : DTy → VV → Option String
  | .int, .int n => some (toString n)
  | .float, .float b => some (lookupFloat tbl b)
  | .bool, .bool b => some (if b then "true" else "false")
  | .str, .str h => some (hexToString h)
  | .unit, _ => some "nil"
  | .opt t, .variant 0 x => (showVV tbl t x).map (fun s => "some(" ++ s ++ ")")
  | .opt _, .variant 1 _ => some "none"
  | .res t _, .variant 0 x => (showVV tbl t x).map (fun s => "ok(" ++ s ++ ")")
  | .res _ e, .variant 1 x => (showVV tbl e x).map (fun s => "err(" ++ s ++ ")")
  | .arr t, .arr xs =>
    (xs.mapM (showVV tbl t)).map (fun ss => "[ " ++ String.intercalate ", " ss ++ " ]")
  | .tup ts, .strct xs =>
    if ts.length != xs.length then none else
    ((ts.zip xs).mapM (fun (t, x) => showVV tbl t x)).map (fun ss =>
      -- the prelude prints tuples up to width 4; a wider result is destructured and printed one component per line
      if ts.length > 4 then String.intercalate "\\n" ss else "(" ++ String.intercalate ", " ss ++ ")")
  | .strct name fs, .strct xs =>
    let fs' := fs.filter (fun t => match t with | .unit => false | _ => true)
    if fs'.length != xs.length then none else
    ((fs'.zip xs).mapM (fun (t, x) => showVV tbl t x)).map (fun ss => name ++ "(" ++ String.intercalate ", " ss ++ ")")
  | .enm name vs, .variant tag x =>
    match vs[tag]? with
    | some (v, none) => some (name ++ "." ++ v)
    | some (v, some (.tup ts)) =>
      match x with
      | .strct xs =>
        if ts.length != xs.length then none else
        ((ts.zip xs).mapM (fun (t, x) => showVV tbl t x)).map
          (fun ss => name ++ "." ++ v ++ "(" ++ String.intercalate ", " ss ++ ")")
      | _ => none
    | some (v, some t) => (showVV tbl t x).map (fun s => name ++ "." ++ v ++ "(" ++ s ++ ")")
    | none => none
  | _, _ => none

partial def parseTable : Nat → List String → Option (List (Nat × String))
  | 0, _ => some []
  | n + 1, b :: t :: r =>
    (parseNat? b).bind (fun b => (parseTable n r).map (fun tbl => (b, hexToString t) :: tbl))
  | _, _ => none

def handleMarshal : List String → String
  | "P" :: n :: rest =>
    match (parseNat? n).bind (fun n => parseTys n rest) with
    | some (ps, "R" :: rest) =>
      match parseTy rest with
      | some (rt, "A" :: rest) =>
        match parseVals ps.length rest with
        | some (args, "V" :: rest) =>
          match parseVal rest with
          | some (rv, "T" :: k :: rest) =>
            match (parseNat? k).bind (fun k => parseTable k rest) with
            | some tbl =>
              let pts : TyList := ps.foldr (fun t acc => .cons t.toTy acc) .nil
              -- the Abra side pushes the arguments and suspends in the host call
              match pushArgs pts args [] with
              | none => "bad-op"
              | some s =>
                let th := hostCall 0 ⟨s, none⟩
                -- the generated HostFunctionArgs::from_vm
                match fromVmArgs pts th.stack with
                | none => "panic-from-vm"
                | some (seen, s') =>
                  -- the generated HostFunctionRet::into_vm
                  match intoVm rt.toTy rv ⟨s', th.pending⟩ with
                  | none => "panic-into-vm"
                  | some th' =>
                    let shown : Option String :=
                      match rt, th'.stack with
                      | .unit, _ => some "nil"
                      | t, x :: _ => showVV tbl t x
                      | _, [] => none
                    let argsS := if seen.isEmpty then "()" else String.intercalate " " (seen.map canon)
                    match shown with
                    | none => "bad-render"
                    | some out =>
                      "args=" ++ argsS ++ " | out=" ++ out ++ " | pending=" ++
                        (if canRun th' then "cleared" else "set")
            | none => "bad-op"
          | _ => "bad-op"
        | _ => "bad-op"
      | _ => "bad-op"
    | _ => "bad-op"
  | _ => "bad-op"

end Abra.Drv
