import AbraModel.SpanTree
import AbraModel.Drv.Util
/- Driver for M12b `SpanTree`:
   `spantree <ident|inner|wf|wfi> <maxoff> <tree>`   tree ::= `(` kind lo hi id tree* `)`
   answer: `ok r0,r1,…,r<maxoff>` — per offset the id of the node the search returns, `-` for none;
   for `wf`: `wf nested=<0|1> cut=<0|1> unique=<0|1>`, for `wfi`: `wfi inner=<0|1>` (the executable hypothesis checks);
   `bad-tree` when the tree has a shape the model does not know, `bad-op` for a malformed request. -/
namespace Abra.Drv.SpanTree
open Abra.SpanTree

mutual
def parseTree : Nat → List String → Option (Ast × List String)
  | 0, _ => none
  | fuel + 1, toks =>
    match toks with
    | "(" :: kind :: lo :: hi :: id :: rest =>
      match lo.toNat?, hi.toNat?, id.toNat? with
      | some lo, some hi, some id =>
        match parseKids fuel rest with
        | some (kids, rest2) => some (.node kind lo hi id kids, rest2)
        | none => none
      | _, _, _ => none
    | _ => none
def parseKids : Nat → List String → Option (List Ast × List String)
  | 0, _ => none
  | fuel + 1, toks =>
    match toks with
    | ")" :: rest => some ([], rest)
    | _ =>
      match parseTree fuel toks with
      | some (k, rest) =>
        match parseKids fuel rest with
        | some (ks, rest2) => some (k :: ks, rest2)
        | none => none
      | none => none
end

def renderAns : Option Nat → String
  | none => "-"
  | some id => toString id

def answers (f : Nat → Option Nat) (maxoff : Nat) : String :=
  "ok " ++ ",".intercalate ((List.range (maxoff + 1)).map (fun off => renderAns (f off)))

end Abra.Drv.SpanTree

namespace Abra.Drv
open Abra.SpanTree Abra.Drv.SpanTree

def handleSpanTree : List String → String
  | mode :: maxoff :: toks =>
    match maxoff.toNat?, parseTree (toks.length + 1) toks with
    | some maxoff, some (ast, []) =>
      match mode with
      | "ident" =>
        match identPlan ast with
        | some t => answers (fun off => search off t) maxoff
        | none => "bad-tree"
      | "inner" =>
        match innerPlan ast with
        | some t => answers (fun off => searchI off t) maxoff
        | none => "bad-tree"
      -- the hypotheses of the search theorems, decided for this tree (maxoff is ignored)
      | "wf" =>
        match identPlan ast, innerPlan ast with
        | some t, some _ =>
          "wf nested=" ++ toString (nestedB t).toNat ++ " cut=" ++ toString (cutB t).toNat ++
            " unique=" ++ toString (uniqueB t).toNat
        | _, _ => "bad-tree"
      | "wfi" =>
        match innerPlan ast with
        | some u => "wfi inner=" ++ toString (nestedIB u).toNat
        | none => "bad-tree"
      | _ => "bad-op"
    | _, _ => "bad-op"
  | _ => "bad-op"

end Abra.Drv
