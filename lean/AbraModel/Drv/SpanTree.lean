import AbraModel.SpanTree
import AbraModel.Drv.Util
/- Driver for M12b `SpanTree`:
   `spantree <ident|inner> <maxoff> <tree>`   tree ::= `(` kind lo hi id tree* `)`
   answer: `ok r0,r1,…,r<maxoff>` — per offset the id of the node the search returns, `-` for none;
   `bad-tree` when the tree has a shape the model does not know, `bad-op` for a malformed request. -/
namespace Abra.Drv.SpanTree
open Abra.SpanTree

mutual
def parseTree : Nat → List String → Option (Ast × List String)
  | 0, _ => none
  | fuel + 1, toks =>
    match toks with
    | "(" :: kind :: lo :: hi :: id :: rest =>
      match lo.toNat?, hi.toNat?, id.toNat? with
      | some lo, some hi, some id =>
        match parseKids fuel rest with
        | some (kids, rest2) => some (.node kind lo hi id kids, rest2)
        | none => none
      | _, _, _ => none
    | _ => none
def parseKids : Nat → List String → Option (List Ast × List String)
  | 0, _ => none
  | fuel + 1, toks =>
    match toks with
    | ")" :: rest => some ([], rest)
    | _ =>
      match parseTree fuel toks with
      | some (k, rest) =>
        match parseKids fuel rest with
        | some (ks, rest2) => some (k :: ks, rest2)
        | none => none
      | none => none
end

def renderAns : Option Nat → String
  | none => "-"
  | some id => toString id

def answers (f : Nat → Option Nat) (maxoff : Nat) : String :=
  "ok " ++ ",".intercalate ((List.range (maxoff + 1)).map (fun off => renderAns (f off)))

end Abra.Drv.SpanTree

namespace Abra.Drv
open Abra.SpanTree Abra.Drv.SpanTree

def handleSpanTree : List String → String
  | mode :: maxoff :: toks =>
    match maxoff.toNat?, parseTree (toks.length + 1) toks with
    | some maxoff, some (ast, []) =>
      match mode with
      | "ident" =>
        match identPlan ast with
        | some t => answers (fun off => search off t) maxoff
        | none => "bad-tree"
      | "inner" =>
        match innerPlan ast with
        | some t => answers (fun off => searchI off t) maxoff
        | none => "bad-tree"
      | _ => "bad-op"
    | _, _ => "bad-op"
  | _ => "bad-op"

end Abra.Drv
