import AbraModel.StrOps
import AbraModel.Drv.Util
/- Driver for M3.
   `str ops <k> <hexA> <hexB>` — run the six string instructions on the operands, execution sliced into
   budgets of `k` steps (as `run_n_steps(k)` does), from a fresh register file; the registers left by
   one instruction are the ones the next instruction starts with (as in a thread).
   `str utf8 <hex>` — the validity test behind `String::from_utf8(..).unwrap()`. -/
namespace Abra.Drv
open Abra.StrOps

def bit (b : Bool) : String := if b then "1" else "0"

/-- enough slices of `k` steps to cover `need` steps, plus one spare -/
def slices (k need : Nat) : List Nat := List.replicate (need / (max k 1) + 2) (max k 1)

def runBool (step : Regs → Step Bool) (ks : List Nat) (r : Regs) : Option (Bool × Regs) :=
  match runBudgets step ks r with
  | .finished v r' => some (v, r')
  | _ => none

def strOps (k : Nat) (a b : Bytes) : String :=
  let ks := slices k (a.length + b.length + 1)
  match runBool (eqStep a b) ks {} with
  | none => "stuck eq"
  | some (eq, r1) =>
  match runBool (cmpStep .lt a b) ks r1 with
  | none => "stuck lt"
  | some (lt, r2) =>
  match runBool (cmpStep .le a b) ks r2 with
  | none => "stuck le"
  | some (le, r3) =>
  match runBool (cmpStep .gt a b) ks r3 with
  | none => "stuck gt"
  | some (gt, r4) =>
  match runBool (cmpStep .ge a b) ks r4 with
  | none => "stuck ge"
  | some (ge, r5) =>
  match runBudgets (catStep a b) ks r5 with
  | .finished c _ =>
    s!"eq={bit eq} ne={bit (neOfEq eq)} lt={bit lt} le={bit le} gt={bit gt} ge={bit ge} cat={hex c}"
  | .faulted => "fault cat"
  | _ => "stuck cat"

/-- `let a = A1 .. A2; let b = B1 .. B2; let r = a .. b; let aa = a .. a; let m = a .. b;
    let r1 = m .. a; let r2 = m .. b` on the heap model, then every cell is read back -/
def strFrame (k : Nat) (a1 a2 b1 b2 : Bytes) : String :=
  let total := a1.length + a2.length + b1.length + b2.length
  let ks := slices k (3 * total + 1)
  let h0 : Heap := [a1, a2, b1, b2]
  let go : Option String := do
    let (h, a, r) ← concatHeap h0 0 1 ks {}
    let (h, b, r) ← concatHeap h 2 3 ks r
    let (h, rr, r) ← concatHeap h a b ks r
    let (h, aa, r) ← concatHeap h a a ks r
    let (h, m, r) ← concatHeap h a b ks r
    let (h, r1, r) ← concatHeap h m a ks r
    let (h, r2, _) ← concatHeap h m b ks r
    let rd := fun (i : Nat) => hex (h.getD i [])
    pure s!"a={rd a} b={rd b} r={rd rr} aa={rd aa} m={rd m} r1={rd r1} r2={rd r2}"
  go.getD "stuck"

def handleStr : List String → String
  | ["nth", a, n] =>
    match unhex a, parseInt? n with
    | some a, some n =>
      match nthByte a n with
      | .val b => s!"ok {b}"
      | .outOfBounds => "err oob"
    | _, _ => "bad-op"
  | ["count", a] =>
    match unhex a with
    | some a => s!"ok {countBytes a}"
    | none => "bad-op"
  | ["frame", k, a1, a2, b1, b2] =>
    match parseNat? k, unhex a1, unhex a2, unhex b1, unhex b2 with
    | some k, some a1, some a2, some b1, some b2 => if k = 0 then "bad-op" else strFrame k a1 a2 b1 b2
    | _, _, _, _, _ => "bad-op"
  | ["ops", k, a, b] =>
    match parseNat? k, unhex a, unhex b with
    | some k, some a, some b => if k = 0 then "bad-op" else strOps k a b
    | _, _, _ => "bad-op"
  | ["utf8", a] =>
    match unhex a with
    | some a => if utf8Valid a then "valid" else "invalid"
    | none => "bad-op"
  | _ => "bad-op"

end Abra.Drv
