import AbraModel.Compile
import AbraModel.Drv.Sem
/- Driver for M8: `cgen <program as S-expression tokens>` → the instruction list `compileMain` produces for
   `<main>`, one instruction per `;`, in the `Display` spelling of assembly.rs with absolute jump targets and
   slots renamed in order of first appearance (the real numbering comes from hash-set iteration order);
   `not-f0` when the program is outside the fragment. -/
namespace Abra.Drv.BG9
open Abra.VM Abra.Compile

def regName : Reg → String
  | .top => "top"
  | .off i => toString i

def intOpName : IntOp → String
  | .add => "add_int" | .sub => "sub_int" | .mul => "multiply_int"
  | .div => "divide_int" | .pow => "power_int" | .mod => "modulo"

def cmpOpName : CmpOp → String
  | .lt => "less_than_int" | .le => "less_than_or_equal_int" | .gt => "greater_than_int"
  | .ge => "greater_than_or_equal_int" | .eq => "equal_int"

/-- slot renaming: first appearance order -/
def renameSlot (seen : List Int) (i : Int) : List Int × Nat :=
  match seen.idxOf? i with
  | some k => (seen, k)
  | none => (seen ++ [i], seen.length)

def instrText (seen : List Int) : Instr Nat → List Int × String
  | .pushNil n => (seen, s!"push_nil {n}")
  | .pushInt n => (seen, s!"push_int {n}")
  | .pushBool b => (seen, s!"push_bool {b}")
  | .pushStr s => (seen, s!"push_string {s}")
  | .pushAddr t => (seen, s!"push_addr {t}")
  | .pop => (seen, "pop")
  | .dup => (seen, "duplicate")
  | .load i => let (sn, k) := renameSlot seen i; (sn, s!"load_offset {k}")
  | .store i => let (sn, k) := renameSlot seen i; (sn, s!"store_offset {k}")
  | .intOp op d a b => (seen, s!"{intOpName op} {regName d} {regName a} {regName b}")
  | .intCmp op d a b => (seen, s!"{cmpOpName op} {regName d} {regName a} {regName b}")
  | .eqBool d a b => (seen, s!"equal_bool {regName d} {regName a} {regName b}")
  | .not d a => (seen, s!"not {regName d} {regName a}")
  | .jump t => (seen, s!"jump {t}")
  | .jumpIf t => (seen, s!"jump_if {t}")
  | .jumpIfFalse t => (seen, s!"jump_if_false {t}")
  | .call n t => (seen, s!"call {n} {t}")
  | .callFuncObj n => (seen, s!"call_func_obj {n}")
  | .ret n => (seen, s!"return {n}")
  | .retVoid => (seen, "return")
  | .stop => (seen, "stop")
  | .panic => (seen, "panic")
  | .constructStruct n => (seen, s!"construct_struct {n}")
  | .constructVariant t => (seen, s!"construct_variant {t}")
  | .deconstructStruct => (seen, "deconstruct_struct")
  | .deconstructVariant => (seen, "deconstruct_variant")
  | .makeClosure n => (seen, s!"make_closure {n}")
  | .getField i r => (seen, s!"get_field {i} {regName r}")
  | .print .int => (seen, "print int")
  | .print .bool => (seen, "print bool")

def programText (p : Program) : String :=
  let rec go (seen : List Int) : List (Instr Nat) → List String
    | [] => []
    | i :: r => let (sn, t) := instrText seen i; t :: go sn r
  ";".intercalate (go [] p)


def vmErrName : VM.Err → String
  | .overflow => "overflow" | .divZero => "divzero" | .oob => "oob" | .panic => "panic"

end Abra.Drv.BG9

namespace Abra.Drv
open Abra.Drv.BG9
open Abra.VM Abra.Compile

def handleCgen (toks : List String) : String :=
  match parseSExp toks with
  | some (sx, []) =>
    match toProg sx with
    | some P =>
      match compileMain P.main with
      | some code => programText code
      | none => "not-f0"
    | none => "bad-op"
  | _ => "bad-op"

/-- `vmrun <fuel> <program>`: compile `<main>` with the model compiler and run it on the VM core -/
def handleVmRun : List String → String
  | fuel :: toks =>
    match fuel.toNat?, parseSExp toks with
    | some fuel, some (sx, []) =>
      match toProg sx with
      | some P =>
        match compileMain P.main with
        | none => "not-f0"
        | some code =>
          match VM.run code fuel State.init with
          | .done s => s!"done {hexOfString (String.join s.out.reverse)}"
          | .error k s => s!"error:{vmErrName k} {hexOfString (String.join s.out.reverse)}"
          | .fault f => s!"fault:{repr f}".replace " " "_"
          | .outOfFuel _ => "outoffuel"
      | none => "bad-op"
    | _, _ => "bad-op"
  | _ => "bad-op"

end Abra.Drv
