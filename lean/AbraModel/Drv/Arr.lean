import AbraModel.Lib.Arr
import AbraModel.Drv.Util
/- Driver for the array model (C26).
   Request:  `arr <n1> <n2> <stmt> ; <stmt> ; …`   (n1 variables of depth 1 `1.k`, n2 of depth 2 `2.k`,
             all starting as fresh empty arrays)
   expr  :=  S <scalar> | V <var> | I <var> <int> | L <depth> <n> e1 … en | F <int> e | C e | P <var>
   stmt  :=  let <var> e | push <var> e | set <var> <int> e | swap <var> <int> <int> | remove <var> <int>
           | clear <var> | get <var> <int> | len <var> | empty <var> | find <var> e | contains <var> e | pop <var>
   scalar := <int> | T | F | N | s:<chars>
   Answer: per statement `<printed result>|<dump of every variable>/`, and `ERR:<kind>` where the program stops. -/
namespace Abra.Drv.ArrDrv
open Abra.Lib.Arr

inductive AExpr where
  | scalar (v : Val)
  | var (d k : Nat)
  | index (d k : Nat) (idx : Int)
  | lit (d : Nat) (es : List AExpr)
  | filled (n : Int) (e : AExpr)
  | clone (e : AExpr)
  | pop (d k : Nat)

def parseVar? (s : String) : Option (Nat × Nat) :=
  match s.splitOn "." with
  | [d, k] => match d.toNat?, k.toNat? with
    | some d, some k => some (d, k)
    | _, _ => none
  | _ => none

def parseScalar? (s : String) : Option Val :=
  if s == "T" then some (.bool true)
  else if s == "F" then some (.bool false)
  else if s == "N" then some .nil
  else if s.startsWith "s:" then some (.str (s.drop 2).toString)
  else (s.toInt?).map .int

mutual
  partial def parseExpr : List String → Option (AExpr × List String)
    | "S" :: s :: rest => (parseScalar? s).map fun v => (.scalar v, rest)
    | "V" :: v :: rest => (parseVar? v).map fun (d, k) => (.var d k, rest)
    | "I" :: v :: i :: rest =>
      match parseVar? v, i.toInt? with
      | some (d, k), some i => some (.index d k i, rest)
      | _, _ => none
    | "L" :: d :: n :: rest =>
      match d.toNat?, n.toNat? with
      | some d, some n => (parseExprs n rest).map fun (es, rest) => (.lit d es, rest)
      | _, _ => none
    | "F" :: n :: rest =>
      match n.toInt?, parseExpr rest with
      | some n, some (e, rest) => some (.filled n e, rest)
      | _, _ => none
    | "C" :: rest => (parseExpr rest).map fun (e, rest) => (.clone e, rest)
    | "P" :: v :: rest => (parseVar? v).map fun (d, k) => (.pop d k, rest)
    | _ => none
  partial def parseExprs : Nat → List String → Option (List AExpr × List String)
    | 0, rest => some ([], rest)
    | n + 1, toks =>
      match parseExpr toks with
      | none => none
      | some (e, rest) => (parseExprs n rest).map fun (es, rest) => (e :: es, rest)
end

structure AState where
  heap : Heap
  vars1 : List Val
  vars2 : List Val

def AState.var? (s : AState) (d k : Nat) : Option Val :=
  if d == 1 then s.vars1[k]? else if d == 2 then s.vars2[k]? else none

def AState.setVar (s : AState) (d k : Nat) (v : Val) : AState :=
  if d == 1 then { s with vars1 := s.vars1.set k v } else { s with vars2 := s.vars2.set k v }

partial def AExpr.depth : AExpr → Nat
  | .scalar _ => 0
  | .var d _ => d
  | .index d _ _ => d - 1
  | .lit d _ => d
  | .filled _ e => e.depth + 1
  | .clone e => e.depth
  | .pop d _ => d - 1

/-- evaluation, left to right; `none` = malformed request -/
partial def evalExpr (s : AState) : AExpr → Option (Except Err (AState × Val))
  | .scalar v => some (.ok (s, v))
  | .var d k => (s.var? d k).map fun v => .ok (s, v)
  | .index d k i => (s.var? d k).map fun v =>
      match getIndex s.heap v i with
      | .ok x => .ok (s, x)
      | .error e => .error e
  | .lit _ es =>
      let rec go (s : AState) (acc : List Val) : List AExpr → Option (Except Err (AState × List Val))
        | [] => some (.ok (s, acc.reverse))
        | e :: es => match evalExpr s e with
          | none => none
          | some (.error e) => some (.error e)
          | some (.ok (s, v)) => go s (v :: acc) es
      match go s [] es with
      | none => none
      | some (.error e) => some (.error e)
      | some (.ok (s, vs)) =>
        match constructLit s.heap vs with
        | .ok (h, v) => some (.ok ({ s with heap := h }, v))
        | .error e => some (.error e)
  | .filled n e =>
      match evalExpr s e with
      | none => none
      | some (.error e) => some (.error e)
      | some (.ok (s, x)) =>
        match filled e.depth s.heap x n with
        | .ok (h, v) => some (.ok ({ s with heap := h }, v))
        | .error e => some (.error e)
  | .clone e =>
      match evalExpr s e with
      | none => none
      | some (.error e) => some (.error e)
      | some (.ok (s, x)) =>
        match cloneAt e.depth s.heap x with
        | .ok (h, v) => some (.ok ({ s with heap := h }, v))
        | .error e => some (.error e)
  | .pop d k => (s.var? d k).map fun v =>
      match popOp s.heap v with
      | .ok (h, x) => .ok ({ s with heap := h }, x)
      | .error e => .error e

def showScalar : Val → String
  | .int n => toString n
  | .bool b => if b then "true" else "false"
  | .nil => "nil"
  | .str s => s
  | .ref _ => "<ref>"

def showAt : Nat → Heap → Val → String
  | 0, _, v => showScalar v
  | d + 1, h, .ref a => "[" ++ String.join ((h.arr a).map fun x => showAt d h x ++ ",") ++ "]"
  | _ + 1, _, _ => "<bad>"

def dump (s : AState) : String :=
  String.join (s.vars1.map fun v => showAt 1 s.heap v ++ " ") ++ String.join (s.vars2.map fun v => showAt 2 s.heap v ++ " ")

def errName : Err → String
  | .oob => "oob"
  | .fault => "fault"

/-- one statement: `none` = malformed; otherwise the printed result and the new state, or the error -/
partial def execStmt (s : AState) : List String → Option (Except Err (String × AState))
  | "let" :: v :: rest =>
    match parseVar? v, parseExpr rest with
    | some (d, k), some (e, []) =>
      match evalExpr s e with
      | none => none
      | some (.error e) => some (.error e)
      | some (.ok (s, x)) => if (s.var? d k).isSome then some (.ok ("", s.setVar d k x)) else none
    | _, _ => none
  | "push" :: v :: rest =>
    match parseVar? v, parseExpr rest with
    | some (d, k), some (e, []) =>
      match s.var? d k with
      | none => none
      | some a =>
        match evalExpr s e with
        | none => none
        | some (.error e) => some (.error e)
        | some (.ok (s, x)) =>
          match pushOp s.heap a x with
          | .ok h => some (.ok ("", { s with heap := h }))
          | .error e => some (.error e)
    | _, _ => none
  | "set" :: v :: i :: rest =>
    match parseVar? v, i.toInt?, parseExpr rest with
    | some (d, k), some i, some (e, []) =>
      match s.var? d k with
      | none => none
      | some a =>
        match evalExpr s e with
        | none => none
        | some (.error e) => some (.error e)
        | some (.ok (s, x)) =>
          match setIndex s.heap a i x with
          | .ok h => some (.ok ("", { s with heap := h }))
          | .error e => some (.error e)
    | _, _, _ => none
  | ["swap", v, i, j] =>
    match parseVar? v, i.toInt?, j.toInt? with
    | some (d, k), some i, some j => (s.var? d k).map fun a =>
      match swap s.heap a i j with
      | .ok h => .ok ("", { s with heap := h })
      | .error e => .error e
    | _, _, _ => none
  | ["remove", v, i] =>
    match parseVar? v, i.toInt? with
    | some (d, k), some i => (s.var? d k).map fun a =>
      match remove s.heap a i with
      | .ok h => .ok ("", { s with heap := h })
      | .error e => .error e
    | _, _ => none
  | ["clear", v] =>
    match parseVar? v with
    | some (d, k) => (s.var? d k).map fun a =>
      match clear s.heap a with
      | .ok h => .ok ("", { s with heap := h })
      | .error e => .error e
    | _ => none
  | ["get", v, i] =>
    match parseVar? v, i.toInt? with
    | some (d, k), some i => (s.var? d k).map fun a =>
      match getIndex s.heap a i with
      | .ok x => .ok (showAt (d - 1) s.heap x, s)
      | .error e => .error e
    | _, _ => none
  | ["len", v] =>
    match parseVar? v with
    | some (d, k) => (s.var? d k).map fun a =>
      match lenOp s.heap a with
      | .ok n => .ok (toString n, s)
      | .error e => .error e
    | _ => none
  | ["empty", v] =>
    match parseVar? v with
    | some (d, k) => (s.var? d k).map fun a =>
      match isEmpty s.heap a with
      | .ok b => .ok (if b then "true" else "false", s)
      | .error e => .error e
    | _ => none
  | "find" :: v :: rest =>
    match parseVar? v, parseExpr rest with
    | some (d, k), some (e, []) =>
      match s.var? d k with
      | none => none
      | some a =>
        match evalExpr s e with
        | none => none
        | some (.error e) => some (.error e)
        | some (.ok (s, x)) =>
          match find (eqAt (d - 1) s.heap) s.heap a x with
          | .ok (some i) => some (.ok ("some " ++ toString i, s))
          | .ok none => some (.ok ("none", s))
          | .error e => some (.error e)
    | _, _ => none
  | "contains" :: v :: rest =>
    match parseVar? v, parseExpr rest with
    | some (d, k), some (e, []) =>
      match s.var? d k with
      | none => none
      | some a =>
        match evalExpr s e with
        | none => none
        | some (.error e) => some (.error e)
        | some (.ok (s, x)) =>
          match contains (eqAt (d - 1) s.heap) s.heap a x with
          | .ok b => some (.ok (if b then "true" else "false", s))
          | .error e => some (.error e)
    | _, _ => none
  | ["pop", v] =>
    match parseVar? v with
    | some (d, k) => (s.var? d k).map fun a =>
      match popOp s.heap a with
      | .ok (h, x) => .ok (showAt (d - 1) h x, { s with heap := h })
      | .error e => .error e
    | _ => none
  | _ => none

def splitStmts (toks : List String) : List (List String) :=
  (toks.foldr (fun t (acc : List (List String)) =>
    if t == ";" then [] :: acc
    else match acc with
      | [] => [[t]]
      | cur :: more => (t :: cur) :: more) [[]]).filter (· ≠ [])

partial def runStmts (s : AState) (out : String) : List (List String) → String
  | [] => out
  | st :: more =>
    match execStmt s st with
    | none => "bad-op"
    | some (.error e) => out ++ "ERR:" ++ errName e
    | some (.ok (res, s)) => runStmts s (out ++ res ++ "|" ++ dump s ++ "/") more

def initState (n1 n2 : Nat) : AState :=
  let mk (n : Nat) (h : Heap) : Heap × List Val :=
    (List.range n).foldl (fun (hv : Heap × List Val) _ =>
      let (h, v) := construct hv.1 []
      (h, hv.2 ++ [v])) (h, [])
  let (h1, v1) := mk n1 []
  let (h2, v2) := mk n2 h1
  { heap := h2, vars1 := v1, vars2 := v2 }

/-- element `i` of the big literals the harness writes: int `i % 7`, bool `i % 2 == 0`, void `nil`, string a/b/"" -/
def bigElem (ty : String) (i : Nat) : Val :=
  if ty == "int" then .int (i % 7)
  else if ty == "bool" then .bool (i % 2 == 0)
  else if ty == "void" then .nil
  else .str (if i % 3 == 0 then "a" else if i % 3 == 1 then "b" else "")

/-- `arrbig <ty> <n> <i1> <i2> …`: one literal of `n` elements (compiled as ConstructArray + pushes beyond 65535);
    the program prints len, the listed elements, pushes one more, prints len, pops it, and reads past the end -/
def handleArrBig : List String → String
  | ty :: n :: idxs =>
    match n.toNat?, parseAll idxs with
    | some n, some idxs =>
      match constructLit [] ((List.range n).map (bigElem ty)) with
      | .error e => "ERR:" ++ errName e
      | .ok (h, a) =>
        let lenS := match lenOp h a with | .ok k => toString k | .error e => "ERR:" ++ errName e
        let elems := idxs.map fun i => match getIndex h a i with
          | .ok x => showScalar x
          | .error e => "ERR:" ++ errName e
        match pushOp h a (bigElem ty n) with
        | .error e => "ERR:" ++ errName e
        | .ok h1 =>
          let len2 := match lenOp h1 a with | .ok k => toString k | .error e => "ERR:" ++ errName e
          match popOp h1 a with
          | .error e => "ERR:" ++ errName e
          | .ok (h2, x) =>
            let last := match getIndex h2 a ((n : Int) + 5) with | .ok x => showScalar x | .error e => "ERR:" ++ errName e
            lenS ++ ";" ++ ",".intercalate elems ++ ";" ++ len2 ++ ";" ++ showScalar x ++ ";" ++ last
    | _, _ => "bad-op"
  | _ => "bad-op"
where
  parseAll : List String → Option (List Int)
    | [] => some []
    | s :: r => match s.toInt?, parseAll r with
      | some i, some is => some (i :: is)
      | _, _ => none

def handleArr : List String → String
  | "big" :: rest => handleArrBig rest
  | n1 :: n2 :: toks =>
    match n1.toNat?, n2.toNat? with
    | some n1, some n2 => runStmts (initState n1 n2) "" (splitStmts toks)
    | _, _ => "bad-op"
  | _ => "bad-op"

end Abra.Drv.ArrDrv

def Abra.Drv.handleArr : List String → String := Abra.Drv.ArrDrv.handleArr
