import AbraModel.GCPacing
import AbraModel.Drv.GC
/-
Driver for M5p (pacing of the collector).  A pacing snapshot is seven words: the five words of a `gc` snapshot
(hook `verif_gc::snapshot`) followed by
  sz=<addr>:<nbytes>;..        (heap-list order)      ctr=<heap_size>,<last_gc_heap_size>,<gc_debt>
Requests:
  gcp gc <leak> <before> <after>   "ok" iff one call of `maybe_gc` (model `maybeGc`, foreign budget charge `leak`)
                                   maps before to after
  gcp mut <before> <after>         "ok" iff the pair satisfies the contract of one VM instruction (`pmutatorOKb`) and
                                   the after-state the accounting facts (`acctB`)
  gcp idle <heap> <last> <debt>    "start" / "stay": what `maybeGc` does in an idle state with these counters
                                   (an idle call that does not start a cycle changes nothing)
  gcp acct <snap>                  "ok" iff `acctB`
  gcp bound <R> <A> <N>            the value of `boundB`
-/
namespace Abra.Drv.GCPacing
open Abra.GC Abra.GCP Abra.Drv

def parseSizes (s : String) : Option (List (Nat × Nat)) :=
  (splitNonEmpty s ";").mapM (fun e =>
    match e.splitOn ":" with
    | [a, n] =>
      match a.toNat?, n.toNat? with
      | some a, some n => some (a, n)
      | _, _ => none
    | _ => none)

def parsePSnap (ws : List String) : Option PSt :=
  if ws.length ≠ 7 then none else
  match parseSnap (ws.take 5), ws.drop 5 with
  | some σ, [z, c] =>
    match afterEq z "sz", afterEq c "ctr" with
    | some z, some c =>
      match parseSizes z, parseNats c with
      | some tbl, some [h, l, d] =>
        -- every heap entry has exactly one size entry, in heap order
        if tbl.map Prod.fst ≠ σ.heap then none else
        some { g := σ, size := fun a => (tbl.lookup a).getD 0, heapBytes := h, lastGc := l, debt := d }
      | _, _ => none
    | _, _ => none
  | _, _ => none

def renderPSnap (p : PSt) : String :=
  let ents := p.g.heap.map (fun a => s!"{a}:{p.size a}")
  s!"{renderSnap p.g} sz={String.intercalate ";" ents} ctr={p.heapBytes},{p.lastGc},{p.debt}"

def bytesWhy (p p' : PSt) : String :=
  let cs : List (String × Bool) := [
    ("size-shrinks", p.g.heap.all (fun a => decide (p.size a ≤ p'.size a))),
    ("heap-size-is-sum", p'.heapBytes == sumSize p'.size p'.g.heap),
    ("debt-grows-with-heap", p'.debt == p.debt + (p'.heapBytes - p.heapBytes)),
    ("last-gc-untouched", p'.lastGc == p.lastGc),
    ("gray-nodup", nodupB p'.g.gray),
    ("acct", acctB p')]
  String.intercalate "," ((cs.filter (fun c => !c.2)).map Prod.fst)

end Abra.Drv.GCPacing

namespace Abra.Drv
open Abra.GC Abra.GCP Abra.Drv.GCPacing

def handleGCP : List String → String
  | "gc" :: leak :: rest =>
    match leak.toNat?, parsePSnap (rest.take 7), parsePSnap (rest.drop 7) with
    | some leak, some p, some _ =>
      let want := String.intercalate " " (rest.drop 7)
      let got := renderPSnap (maybeGc p leak)
      if got = want then "ok" else "diff model=" ++ got.replace " " "|"
    | _, _, _ => "bad-op"
  | "mut" :: rest =>
    match parsePSnap (rest.take 7), parsePSnap (rest.drop 7) with
    | some p, some p' =>
      let fuel := fuelFor p.g
      if pmutatorOKb p p' fuel && acctB p' then "ok"
      else "bad " ++ mutatorWhy p.g p'.g fuel ++ "/" ++ bytesWhy p p'
    | _, _ => "bad-op"
  | ["idle", h, l, d] =>
    match h.toNat?, l.toNat?, d.toNat? with
    | some h, some l, some d =>
      let p : PSt := { pinit with heapBytes := h, lastGc := l, debt := d }
      match (maybeGc p 0).g.phase with
      | .idle => "stay"
      | .marking => "start"
      | .sweeping => "bad-op"
    | _, _, _ => "bad-op"
  | "acct" :: rest =>
    match parsePSnap rest with
    | some p => if acctB p then "ok" else "bad"
    | none => "bad-op"
  | ["bound", r, a, n] =>
    match r.toNat?, a.toNat?, n.toNat? with
    | some r, some a, some n => toString (boundB r a n)
    | _, _, _ => "bad-op"
  | _ => "bad-op"

end Abra.Drv
