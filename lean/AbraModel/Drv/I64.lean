import AbraModel.Int64
import AbraModel.Drv.Util
/- Driver for M1: `i64 <form> <op> <a> <b>`; form ∈ {var, lit}: `lit` goes through the optimizer fold. -/
namespace Abra.Drv
open Abra.I64

def handleI64 : List String → String
  | [form, op, a, b] =>
    match Op.parse? op, parseInt? a, parseInt? b with
    | some op, some a, some b =>
      if !(inRange a && inRange b) then "bad-op" else
      match form with
      | "var" => (apply op a b).render
      | "lit" => (applyFolded op a b).render
      | _ => "bad-op"
    | _, _, _ => "bad-op"
  | ["neg", a] =>
    match parseInt? a with
    | some a => if inRange a then (neg a).render else "bad-op"
    | none => "bad-op"
  | _ => "bad-op"

end Abra.Drv
