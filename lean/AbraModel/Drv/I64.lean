import AbraModel.Int64
import AbraModel.Drv.Util
/- Driver for M1: `i64 <form> <op> <a> <b>`; form ∈ {var, lit}: `lit` goes through the optimizer fold;
   `i64 chain <op1> <op2> <x> <c1> <c2>` is `(x op1 c1) op2 c2`. -/
namespace Abra.Drv
open Abra.I64

def handleI64 : List String → String
  | [form, op, a, b] =>
    match Op.parse? op, parseInt? a, parseInt? b with
    | some op, some a, some b =>
      if !(inRange a && inRange b) then "bad-op" else
      match form with
      | "var" => (apply op a b).render
      | "lit" => (applyFolded op a b).render
      | _ => "bad-op"
    | _, _, _ => "bad-op"
  | ["chain", op1, op2, x, c1, c2] =>
    match Op.parse? op1, Op.parse? op2, parseInt? x, parseInt? c1, parseInt? c2 with
    | some op1, some op2, some x, some c1, some c2 =>
      if !(inRange x && inRange c1 && inRange c2) then "bad-op" else (chain op1 op2 x c1 c2).render
    | _, _, _, _, _ => "bad-op"
  | ["neg", a] =>
    match parseInt? a with
    | some a => if inRange a then (neg a).render else "bad-op"
    | none => "bad-op"
  | _ => "bad-op"

end Abra.Drv
