import AbraModel.CallOrder
import AbraModel.Drv.Util
/- Driver for M8 `callOrder`: `callorder <kind> <params> <args>`
   kind ∈ {fn, method, struct, variant}
   params: `-` or comma list of `name` / `name?` (`?` = has a default); a method lists `self` first
   args:   `-` or comma list of `_` (positional) / `name`
   answer: `ok <entries>|<evaluation order>` (entry `aK` = K-th argument of the call, `dI` = default of
           parameter I) or `diag <sorted kinds>` -/
namespace Abra.Drv
open Abra.CallOrder

private def splitList (s : String) : List String :=
  if s = "-" then [] else s.splitOn ","

private def parseParam (s : String) : Option (Param String) :=
  if s.isEmpty then none
  else if s.endsWith "?" then
    let n := (s.dropEnd 1).toString
    if n.isEmpty then none else some { name := n, hasDefault := true }
  else some { name := s, hasDefault := false }

private def diagName : Diag → String
  | .unknown => "unknown" | .dup => "dup" | .posAfter => "posafter"
  | .missing => "missing" | .surplus => "surplus"

private def insertSorted (x : String) : List String → List String
  | [] => [x]
  | y :: ys => if x < y then x :: y :: ys else if x = y then y :: ys else y :: insertSorted x ys

private def commaJoin (xs : List String) : String :=
  if xs.isEmpty then "-" else String.intercalate "," xs

private def entryName : Entry Nat → String
  | .arg k => "a" ++ toString k
  | .dflt i => "d" ++ toString i

private def number : Nat → List String → List (Arg String Nat)
  | _, [] => []
  | k, w :: ws => { name := if w = "_" then none else some w, val := k } :: number (k + 1) ws

def handleCallOrder : List String → String
  | [kind, params, args] =>
    match (splitList params).mapM parseParam with
    | none => "bad-op"
    | some ps =>
      let as := number 0 (splitList args)
      if as.any (fun a => a.name = some "") then "bad-op" else
      let d? : Option (Decision Nat) := match kind with
        | "fn" | "struct" | "variant" => some (decide ps as)
        | "method" => some (decideMethod "self" ps as)
        | _ => none
      match d? with
      | none => "bad-op"
      | some d =>
        match d.order, d.diags with
        | some es, [] =>
          "ok " ++ commaJoin (es.map entryName) ++ "|" ++ commaJoin ((evalOrder es).map toString)
        | none, [] => "bad-model"
        | _, ds => "diag " ++ commaJoin (ds.foldl (fun acc x => insertSorted (diagName x) acc) [])
  | _ => "bad-op"

end Abra.Drv
