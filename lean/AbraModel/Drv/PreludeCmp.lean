import AbraModel.PreludeCmp
import AbraModel.Drv.Util
/- Driver for the built-in comparison model.
   `cmp24 <type> <a> <b>`  →  `eq=. ne=. [lt=. le=. gt=. ge=.] [ha=<int> hb=<int>]`
   type (prefix, no spaces): B bool, V void, I int, F float, S string, 2xy 3xyz 4xyzw tuples, Ax array
   value: 0/1, u, decimal, 16 hex digits, hex bytes or `-`, (v,v,…), [v,v,…] -/
namespace Abra.Drv
namespace Cmp24
open Abra.PreludeCmp

inductive Ty where
  | bool | void | int | float | str
  | t2 (a b : Ty) | t3 (a b c : Ty) | t4 (a b c d : Ty) | arr (a : Ty)

inductive Val where
  | b (x : Bool) | u | i (x : Int) | f (x : UInt64) | s (x : List UInt8)
  | tup (xs : List Val) | arr (xs : List Val)

def parseTy : Nat → List Char → Option (Ty × List Char)
  | 0, _ => none
  | fuel + 1, c :: r =>
    match c with
    | 'B' => some (.bool, r) | 'V' => some (.void, r) | 'I' => some (.int, r)
    | 'F' => some (.float, r) | 'S' => some (.str, r)
    | 'A' => (parseTy fuel r).map (fun (t, r) => (.arr t, r))
    | '2' => do
      let (a, r) ← parseTy fuel r
      let (b, r) ← parseTy fuel r
      pure (.t2 a b, r)
    | '3' => do
      let (a, r) ← parseTy fuel r
      let (b, r) ← parseTy fuel r
      let (c, r) ← parseTy fuel r
      pure (.t3 a b c, r)
    | '4' => do
      let (a, r) ← parseTy fuel r
      let (b, r) ← parseTy fuel r
      let (c, r) ← parseTy fuel r
      let (d, r) ← parseTy fuel r
      pure (.t4 a b c d, r)
    | _ => none
  | _, [] => none

def isHexC (c : Char) : Bool := (hexVal c).isSome

def expect (c : Char) : List Char → Option (List Char)
  | d :: r => if c = d then some r else none
  | [] => none

mutual
def parseVal : Ty → List Char → Option (Val × List Char)
  | .bool, '0' :: r => some (.b false, r)
  | .bool, '1' :: r => some (.b true, r)
  | .void, 'u' :: r => some (.u, r)
  | .int, cs =>
    let w := cs.takeWhile (fun c => c.isDigit || c = '-')
    (String.ofList w).toInt?.map (fun n => (.i n, cs.drop w.length))
  | .float, cs =>
    let w := cs.take 16
    if w.length ≠ 16 then none else
    (unhex (String.ofList w)).map (fun bs => (.f (bs.foldl (fun acc b => acc * 256 + b.toUInt64) 0), cs.drop 16))
  | .str, '-' :: r => some (.s [], r)
  | .str, cs =>
    let w := cs.takeWhile isHexC
    if w.isEmpty then none else (unhex (String.ofList w)).map (fun bs => (.s bs, cs.drop w.length))
  | .t2 a b, '(' :: r => do
    let (x, r) ← parseVal a r
    let r ← expect ',' r
    let (y, r) ← parseVal b r
    let r ← expect ')' r
    pure (.tup [x, y], r)
  | .t3 a b c, '(' :: r => do
    let (x, r) ← parseVal a r
    let r ← expect ',' r
    let (y, r) ← parseVal b r
    let r ← expect ',' r
    let (z, r) ← parseVal c r
    let r ← expect ')' r
    pure (.tup [x, y, z], r)
  | .t4 a b c d, '(' :: r => do
    let (x, r) ← parseVal a r
    let r ← expect ',' r
    let (y, r) ← parseVal b r
    let r ← expect ',' r
    let (z, r) ← parseVal c r
    let r ← expect ',' r
    let (w, r) ← parseVal d r
    let r ← expect ')' r
    pure (.tup [x, y, z, w], r)
  | .arr _, '[' :: ']' :: r => some (.arr [], r)
  | .arr a, '[' :: r => (parseElems a r.length r).map (fun (xs, r) => (.arr xs, r))
  | _, _ => none
def parseElems : Ty → Nat → List Char → Option (List Val × List Char)
  | _, 0, _ => none
  | a, fuel + 1, cs => do
    let (x, r) ← parseVal a cs
    match r with
    | ',' :: r => (parseElems a fuel r).map (fun (xs, r) => (x :: xs, r))
    | ']' :: r => pure ([x], r)
    | _ => none
end

/-- `Equal.equal` at a type, through the hand model -/
def eqOf : Ty → Eq' Val
  | .bool => fun | .b x, .b y => boolEqual x y | _, _ => false
  | .void => fun | .u, .u => voidEqual () () | _, _ => false
  | .int => fun | .i x, .i y => intEqual x y | _, _ => false
  | .float => fun | .f x, .f y => floatEqual x y | _, _ => false
  | .str => fun | .s x, .s y => strEqual x y | _, _ => false
  | .t2 a b => fun
    | .tup [a1, a2], .tup [b1, b2] => tuple2Equal (eqOf a) (eqOf b) (a1, a2) (b1, b2)
    | _, _ => false
  | .t3 a b c => fun
    | .tup [a1, a2, a3], .tup [b1, b2, b3] => tuple3Equal (eqOf a) (eqOf b) (eqOf c) (a1, a2, a3) (b1, b2, b3)
    | _, _ => false
  | .t4 a b c d => fun
    | .tup [a1, a2, a3, a4], .tup [b1, b2, b3, b4] =>
      tuple4Equal (eqOf a) (eqOf b) (eqOf c) (eqOf d) (a1, a2, a3, a4) (b1, b2, b3, b4)
    | _, _ => false
  | .arr a => fun | .arr xs, .arr ys => arrayEqual (eqOf a) xs ys | _, _ => false

def liftOrd {α : Type} (o : Ord' α) (get : Val → Option α) : Ord' Val :=
  let l (f : α → α → Bool) : Val → Val → Bool := fun x y =>
    match get x, get y with
    | some x, some y => f x y
    | _, _ => false
  ⟨l o.lt, l o.le, l o.gt, l o.ge⟩

def tup2? : Val → Option (Val × Val) | .tup [a, b] => some (a, b) | _ => none
def tup3? : Val → Option (Val × Val × Val) | .tup [a, b, c] => some (a, b, c) | _ => none
def tup4? : Val → Option (Val × Val × Val × Val) | .tup [a, b, c, d] => some (a, b, c, d) | _ => none

/-- `Ord` at a type; arrays have no `Ord` implementation -/
def ordOf : Ty → Option (Ord' Val)
  | .bool => some (liftOrd boolOrd (fun | .b x => some x | _ => none))
  | .void => some (liftOrd voidOrd (fun | .u => some () | _ => none))
  | .int => some (liftOrd intOrd (fun | .i x => some x | _ => none))
  | .float => some (liftOrd floatOrd (fun | .f x => some x | _ => none))
  | .str => some (liftOrd strOrd (fun | .s x => some x | _ => none))
  | .t2 a b => do
    let oa ← ordOf a
    let ob ← ordOf b
    pure (liftOrd (tuple2Ord oa ob) tup2?)
  | .t3 a b c => do
    let oa ← ordOf a
    let ob ← ordOf b
    let oc ← ordOf c
    pure (liftOrd (tuple3Ord oa ob oc) tup3?)
  | .t4 a b c d => do
    let oa ← ordOf a
    let ob ← ordOf b
    let oc ← ordOf c
    let od ← ordOf d
    pure (liftOrd (tuple4Ord oa ob oc od) tup4?)
  | .arr _ => none

/-- `Hash` at a type; float has no `Hash` implementation -/
def hashOf : Ty → Option (Hash' Val)
  | .bool => some (fun | .b x => boolHash x | _ => 0)
  | .void => some (fun _ => voidHash ())
  | .int => some (fun | .i x => intHash x | _ => 0)
  | .float => none
  | .str => some (fun | .s x => (strHashIndexed x).getD 0 | _ => 0)
  | .t2 a b => do
    let ha ← hashOf a
    let hb ← hashOf b
    pure (fun v => match tup2? v with | some p => tuple2Hash ha hb p | none => 0)
  | .t3 a b c => do
    let ha ← hashOf a
    let hb ← hashOf b
    let hc ← hashOf c
    pure (fun v => match tup3? v with | some p => tuple3Hash ha hb hc p | none => 0)
  | .t4 a b c d => do
    let ha ← hashOf a
    let hb ← hashOf b
    let hc ← hashOf c
    let hd ← hashOf d
    pure (fun v => match tup4? v with | some p => tuple4Hash ha hb hc hd p | none => 0)
  | .arr a => do
    let ha ← hashOf a
    pure (fun | .arr xs => arrayHash ha xs | _ => 0)

def bit (b : Bool) : String := if b then "1" else "0"

def answer (t : Ty) (a b : Val) : String :=
  let e := eqOf t
  let s := s!"eq={bit (e a b)} ne={bit (ne e a b)}"
  let s := match ordOf t with
    | some o => s ++ s!" lt={bit (o.lt a b)} le={bit (o.le a b)} gt={bit (o.gt a b)} ge={bit (o.ge a b)}"
    | none => s
  match hashOf t with
  | some h => s ++ s!" ha={signedOfBits (h a)} hb={signedOfBits (h b)}"
  | none => s

end Cmp24
open Cmp24

/-- `cmp24m <type> <a> <b>`: `match a { <literal b> -> true, _ -> false }` — a literal pattern matches
    exactly the values `==` to it -/
def handleCmp24m : List String → String
  | [ty, a, b] =>
    match parseTy 64 ty.toList with
    | some (t, []) =>
      match parseVal t a.toList, parseVal t b.toList with
      | some (x, []), some (y, []) => s!"eq={bit (eqOf t x y)}"
      | _, _ => "bad-op"
    | _ => "bad-op"
  | _ => "bad-op"

def handleCmp24 : List String → String
  | [ty, a, b] =>
    match parseTy 64 ty.toList with
    | some (t, []) =>
      match parseVal t a.toList, parseVal t b.toList with
      | some (x, []), some (y, []) => answer t x y
      | _, _ => "bad-op"
    | _ => "bad-op"
  | _ => "bad-op"

end Abra.Drv
