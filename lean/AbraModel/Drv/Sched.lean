import AbraModel.Sched
import AbraModel.MiniVM
import AbraModel.Drv.Util
/-
Driver for M4 `Sched`: trace validation of the scheduler.

  sched <calls> <script 0> <script 1> …

`calls`: comma separated `run_n_steps` budgets; a trailing `!` means the embedder does not service the
pending host calls after that call (it calls again first).  `script i`: what the i-th created thread
(0 = main) executes, one item per *completed* instruction, comma separated (`-` = nothing):
  o other | n ConstructChannel | r<c> ChannelRead on channel c | w<c>:<v> ChannelWrite of token v |
  s<j> SpawnTask of script j | h<n> HostFunc(n) | x Stop | e:<kind> failing instruction.
Whether a read blocks, which value it pops, thread and channel numbering, the interleaving, statuses
and step counts are all decided by the model.  Answer, per call, joined by `;`:
  <events>|<status>|<steps>|<run queue>
-/
namespace Abra.Drv.SchedDrv
open Abra.Sched Abra.Drv

inductive Item where
  | o | n | r (c : Nat) | w (c v : Nat) | s (j : Nat) | h (n : Nat) | x | e (k : String)

abbrev Script := List Item

/-- the thread "program": the rest of its script -/
def scriptStep (table : List Script) : Script → Action Script Nat String
  | [] => .error "script-exhausted" []
  | .o :: t => .cont t
  | .n :: t => .newChan (fun _ => t)
  | .r c :: t => .read c (fun _ => t)
  | .w c v :: t => .write c v t
  | .s j :: t => .spawn (table.getD j []) t
  | .h n :: t => .host n t
  | .x :: t => .stop t
  | .e k :: t => .error k t

def parseItem (w : String) : Option Item :=
  match w.toList with
  | ['o'] => some .o
  | ['n'] => some .n
  | ['x'] => some .x
  | 'r' :: cs => (String.ofList cs).toNat?.map .r
  | 's' :: cs => (String.ofList cs).toNat?.map .s
  | 'h' :: cs => (String.ofList cs).toNat?.map .h
  | 'e' :: ':' :: cs => some (.e (String.ofList cs))
  | 'w' :: cs =>
    match (String.ofList cs).splitOn ":" with
    | [c, v] => match c.toNat?, v.toNat? with
      | some c, some v => some (.w c v)
      | _, _ => none
    | _ => none
  | _ => none

def parseScript (w : String) : Option Script :=
  if w = "-" then some [] else (w.splitOn ",").mapM parseItem

/-- `<n>` = run_n_steps(n) then service; `<n>!` = no service afterwards; a leading `g` = the call is
    `run_with_granularity(n)` (`Runtime::run()` is `g4294967295`) -/
def parseCall (w : String) : Option (Nat × Bool × Bool) :=
  let gran := w.startsWith "g"
  let w := if gran then (w.drop 1).toString else w
  if w.endsWith "!" then (w.dropEnd 1).toString.toNat?.map (·, false, gran) else w.toNat?.map (·, true, gran)

def renderKind : Kind Nat String → String
  | .other => "o"
  | .newChan c => s!"n{c}"
  | .readOk c v => s!"r{c}:{v}"
  | .readBlocked c => s!"b{c}"
  | .write c v => s!"w{c}:{v}"
  | .spawn j => s!"s{j}"
  | .host n => s!"h{n}"
  | .stop => "x"
  | .error k => s!"e:{k}"

def renderEvents (es : List (Event Nat String)) : String :=
  if es.isEmpty then "-" else ",".intercalate (es.map fun e => s!"{e.tid}.{renderKind e.kind}")

def renderStatus : Status String → String
  | .done => "done"
  | .pendingHost => "pending"
  | .outOfSteps => "out"
  | .mainError k => s!"err:{k}"

def renderThread (t : Thread Script String) : String :=
  match t.status with
  | .done => s!"{t.id}d"
  | .pendingHost n => s!"{t.id}p{n}"
  | .outOfSteps => s!"{t.id}"
  | .error _ => s!"{t.id}e"

def renderQueue (q : List (Thread Script String)) : String :=
  if q.isEmpty then "-" else ",".intercalate (q.map renderThread)

/-- channel ids used by the trace must exist (the real code cannot touch a queue that was never made) -/
def chanOk (nchans : Nat) : Kind Nat String → Bool
  | .readOk c _ | .readBlocked c | .write c _ => c < nchans
  | _ => true

def runCalls (table : List Script) : List (Nat × Bool × Bool) → Runtime Script Nat String → List String → List String
  | [], _, acc => acc.reverse
  | (b, sv, gran) :: rest, r, acc =>
    match (if gran then runG (scriptStep table) b 1000000 r else some (runN (scriptStep table) b r)) with
    | none => ["never-returns"]
    | some x =>
      let evs := x.rt.trace.drop r.trace.length
      let line := s!"{renderEvents evs}|{renderStatus x.status}|{x.steps}|{renderQueue x.rt.runQueue}"
      let r' := if sv then (serviceAll (fun (h : Unit) _ t => (h, t)) () x.rt).2 else x.rt
      if evs.all (fun e => chanOk x.rt.chans.length e.kind) then runCalls table rest r' (line :: acc)
      else ["bad-script"]

end Abra.Drv.SchedDrv
namespace Abra.Drv
open Abra.Drv.SchedDrv Abra.Sched

def handleSched : List String → String
  | calls :: scripts =>
    match (calls.splitOn ",").mapM parseCall, scripts.mapM parseScript with
    | some calls, some (main :: others) =>
      ";".intercalate (runCalls (main :: others) calls (Runtime.new main) [])
    | _, _ => "bad-op"
  | _ => "bad-op"

/-- `hostcall <n> <result> <a1,a2,…|->`: the MiniVM program `push a1 … push ak; HostFunc(n); Stop` is run
    until the host call is pending; the binding (arity k) pops the arguments and pushes `result`.
    Answer: `seen <n> <args in parameter order> top <value on top when execution resumes>`. -/
def handleHostCall : List String → String
  | [n, res, args] =>
    match n.toNat?, res.toInt?, (if args = "-" then some [] else (args.splitOn ",").mapM String.toInt?) with
    | some n, some res, some args =>
      let prog := args.map MiniVM.Instr.pushInt ++ [MiniVM.Instr.hostFunc n, MiniVM.Instr.stop]
      let r0 : Runtime MiniVM.St Int String := Runtime.new ⟨0, []⟩
      let x := runN (MiniVM.stepI prog) (args.length + 5) r0
      match x.status with
      | .pendingHost =>
        let y := serviceAll (MiniVM.echoHost (fun _ => args.length) (fun _ _ => res)) [] x.rt
        match y.1, y.2.runQueue with
        | [(m, seen)], [t] =>
          let a := if seen.isEmpty then "-" else ",".intercalate (seen.map toString)
          match t.st.stack.getLast? with
          | some v => s!"seen {m} {a} top {v}"
          | none => "empty-stack"
        | _, _ => "bad-service"
      | _ => "not-pending"
    | _, _, _ => "bad-op"
  | _ => "bad-op"

end Abra.Drv
