import AbraModel.SrcMap
import AbraModel.Drv.Util
/- Driver for M16.
   `srcmap build <line>*`            line = `L` | `<file>:<lineno>:<func>`  → the three tables
   `srcmap locs <line>*`             → lookup (pc+1) on the built tables for every instruction index pc
   `srcmap render <kind-hex> <loc>*` loc = `<file-hex>:<lineno>:<func-hex>` → hex of the `VmError` text -/
/- Note: every instruction of a request is parsed with kind `other` (the requests carry annotations only).  The
   driver therefore exercises `build`, `lookup` and `renderTrace`; the call/return part of the model (`Step`,
   `Reachable`, `stackTrace`) meets the real VM only through the rendered chain that the harness compares with the
   `VmError` text of programs whose expected frames are known to the generator. -/
namespace Abra.Drv.SrcMapD
open Abra.SrcMap Abra.Drv

def parseSLine (w : String) : Option SLine :=
  if w = "L" then some .label else
  match w.splitOn ":" with
  | [f, l, n] =>
    match f.toNat?, l.toNat?, n.toNat? with
    | some f, some l, some n => some (.instr { file := f, line := l, func := n } .other)
    | _, _, _ => none
  | _ => none

def parseSLines : List String → Option (List SLine)
  | [] => some []
  | w :: ws =>
    match parseSLine w, parseSLines ws with
    | some l, some ls => some (l :: ls)
    | _, _ => none

def renderTable (t : Table) : String :=
  if t.isEmpty then "-" else ",".intercalate (t.map (fun p => s!"{p.1}:{p.2}"))

def renderAnn : Option Ann → String
  | some a => s!"{a.file}:{a.line}:{a.func}"
  | none => "oob"

def bytesToString (bs : List UInt8) : Option String := String.fromUTF8? (ByteArray.mk bs.toArray)

def parseLoc (w : String) : Option Loc :=
  match w.splitOn ":" with
  | [f, l, n] =>
    match (unhex f).bind bytesToString, l.toNat?, (unhex n).bind bytesToString with
    | some f, some l, some n => some { filename := f, lineno := l, function := n }
    | _, _, _ => none
  | _ => none

def parseLocs : List String → Option (List Loc)
  | [] => some []
  | w :: ws =>
    match parseLoc w, parseLocs ws with
    | some l, some ls => some (l :: ls)
    | _, _ => none

def handle : List String → String
  | "build" :: ws =>
    match parseSLines ws with
    | some ls =>
      let t := build ls
      s!"files={renderTable t.files} lines={renderTable t.lines} funcs={renderTable t.funcs}"
    | none => "bad-op"
  | "locs" :: ws =>
    match parseSLines ws with
    | some ls =>
      let t := build ls
      let n := (instrs ls).length
      " ".intercalate ((List.range n).map (fun pc => renderAnn (lookup t (pc + 1))))
    | none => "bad-op"
  | "render" :: kind :: ws =>
    match (unhex kind).bind bytesToString, parseLocs ws with
    | some k, some locs => hex (renderTrace k locs).toUTF8.toList
    | _, _ => "bad-op"
  | _ => "bad-op"

end Abra.Drv.SrcMapD

namespace Abra.Drv
def handleSrcMap : List String → String := SrcMapD.handle
end Abra.Drv
