import AbraModel.Opt
import AbraModel.Drv.Util
/- Driver for M6.
   `opt pass|full <table entry>* <line>*`
     table entry  `F:<op>:<a>:<b>:<c>`  float fold  a op b = c (literal tokens; c = `NAN` when the result is a NaN)
                  `Z:<b>`               literal b parses to ±0.0
     line         `L:<label>` | `I:<file>:<lineno>:<func>:<instr>`
     instr        Rust `Debug` of assembly::Instr without blanks, string payloads as `$<hex>` tokens
   answer: the resulting lines in the same format, or `need-fold`.
   `opt expand <CI:int:index>* <CF:lit:index>* <line>*`: `expand_immediates`; the entries give the constant-pool index of
     every constant used by an immediate-operand instruction (an unlisted constant has no index and does not fit);
     answer: one word per instruction, `Name` or `Name:<constant>` (labels dropped)
   `opt run …` is not offered: execution is compared implementation-vs-implementation by the harness. -/
namespace Abra.Drv.OptD
open Abra.Asm Abra.Opt Abra.Drv

def intOpNames : List (String × IntOp) :=
  [("AddInt", .add), ("SubInt", .sub), ("MulInt", .mul), ("DivInt", .div), ("PowInt", .pow), ("Modulo", .mod),
   ("LessThanInt", .lt), ("LessThanOrEqualInt", .le), ("GreaterThanInt", .gt), ("GreaterThanOrEqualInt", .ge),
   ("EqualInt", .eq)]

def floatOpNames : List (String × FloatOp) :=
  [("AddFloat", .add), ("SubFloat", .sub), ("MulFloat", .mul), ("DivFloat", .div), ("PowFloat", .pow),
   ("LessThanFloat", .lt), ("LessThanOrEqualFloat", .le), ("GreaterThanFloat", .gt),
   ("GreaterThanOrEqualFloat", .ge), ("EqualFloat", .eq)]

def unOpNames : List (String × UnOp) :=
  [("Ceil", .ceil), ("Floor", .floor), ("Round", .round), ("SquareRoot", .sqrt), ("Sin", .sin), ("Cos", .cos),
   ("Tan", .tan), ("Asin", .asin), ("Acos", .acos), ("Atan", .atan), ("Log", .log), ("Log2", .log2),
   ("Log10", .log10), ("Not", .not), ("FloatFromInt", .floatFromInt), ("IntFromFloat", .intFromFloat),
   ("StringFromInt", .stringFromInt), ("StringFromFloat", .stringFromFloat), ("ArrayLength", .arrayLength),
   ("ArrayPop", .arrayPop)]

def lookupName {α : Type} (tbl : List (String × α)) (n : String) : Option α :=
  (tbl.find? (·.1 == n)).map (·.2)

def nameOf {α : Type} [DecidableEq α] (tbl : List (String × α)) (a : α) : String :=
  ((tbl.find? (·.2 = a)).map (·.1)).getD "?"

/-- split `a,b(c,d),e` at top-level commas -/
def splitArgs (cs : List Char) : List String :=
  let rec go (cs : List Char) (depth : Nat) (cur : List Char) (acc : List String) : List String :=
    match cs with
    | [] => (String.ofList cur.reverse :: acc).reverse
    | c :: rest =>
      if c = '(' then go rest (depth + 1) (c :: cur) acc
      else if c = ')' then go rest (depth - 1) (c :: cur) acc
      else if c = ',' && depth = 0 then go rest depth [] (String.ofList cur.reverse :: acc)
      else go rest depth (c :: cur) acc
  go cs 0 [] []

/-- `Name(args)` → (Name, args); `Name` → (Name, []) -/
def splitCall (s : String) : String × List String :=
  match s.splitOn "(" with
  | [n] => (n, [])
  | n :: _ =>
    let inner := (s.drop (n.length + 1)).toString
    let inner := if inner.endsWith ")" then (inner.dropEnd 1).toString else inner
    (n, if inner.isEmpty then [] else splitArgs inner.toList)
  | [] => (s, [])

def parseReg (s : String) : Option Reg :=
  if s = "Top" then some .top else
  match splitCall s with
  | ("Offset", [n]) => n.toInt?.map .off
  | _ => none

def stripImm (n : String) : Option String :=
  if n.endsWith "Imm" then some (n.dropEnd 3).toString else none

def parseInstr (s : String) : Instr :=
  let (n, args) := splitCall s
  let other := Instr.other s
  match n, args with
  | "Pop", [] => .pop
  | "Duplicate", [] => .duplicate
  | "LoadOffset", [a] => (a.toInt?.map .loadOffset).getD other
  | "StoreOffset", [a] => (a.toInt?.map .storeOffset).getD other
  | "StoreOffsetImm", [a, b] =>
    match a.toInt?, b.toInt? with
    | some a, some b => .storeOffsetImm a b
    | _, _ => other
  | "PushNil", [a] => (a.toNat?.map .pushNil).getD other
  | "PushBool", ["true"] => .pushBool true
  | "PushBool", ["false"] => .pushBool false
  | "PushInt", [a] => (a.toInt?.map .pushInt).getD other
  | "PushFloat", [a] => .pushFloat a
  | "PushString", [a] => .pushString a
  | "Jump", [a] => .jump a
  | "JumpIf", [a] => .jumpIf a
  | "JumpIfFalse", [a] => .jumpIfFalse a
  | "Atan2", [d, r1, r2] =>
    match parseReg d, parseReg r1, parseReg r2 with
    | some d, some r1, some r2 => .atan2 d r1 r2
    | _, _, _ => other
  | "ArrayPush", [r1, r2] =>
    match parseReg r1, parseReg r2 with
    | some r1, some r2 => .arrayPush r1 r2
    | _, _ => other
  | "ArrayPushIntImm", [r1, imm] =>
    match parseReg r1, imm.toInt? with
    | some r1, some imm => .arrayPushIntImm r1 imm
    | _, _ => other
  | "GetIndex", [r1, r2] =>
    match parseReg r1, parseReg r2 with
    | some r1, some r2 => .getIndex r1 r2
    | _, _ => other
  | "SetIndex", [r1, r2] =>
    match parseReg r1, parseReg r2 with
    | some r1, some r2 => .setIndex r1 r2
    | _, _ => other
  | "GetField", [i, r] =>
    match i.toNat?, parseReg r with
    | some i, some r => .getField i r
    | _, _ => other
  | "SetField", [i, r] =>
    match i.toNat?, parseReg r with
    | some i, some r => .setField i r
    | _, _ => other
  | n, [d, r] =>
    match lookupName unOpNames n, parseReg d, parseReg r with
    | some op, some d, some r => .un op d r
    | _, _, _ => other
  | n, [d, r1, x] =>
    match parseReg d, parseReg r1 with
    | some d, some r1 =>
      match lookupName intOpNames n, lookupName floatOpNames n with
      | some op, _ => (parseReg x).elim other (fun r2 => .binI op d r1 r2)
      | _, some op => (parseReg x).elim other (fun r2 => .binF op d r1 r2)
      | none, none =>
        match stripImm n with
        | some base =>
          match lookupName intOpNames base, lookupName floatOpNames base with
          | some op, _ => (x.toInt?.map (fun imm => Instr.binIImm op d r1 imm)).getD other
          | _, some op => .binFImm op d r1 x
          | none, none => other
        | none => other
    | _, _ => other
  | _, _ => other

def renderReg : Reg → String
  | .top => "Top"
  | .off n => s!"Offset({n})"

def renderInstr : Instr → String
  | .pop => "Pop"
  | .duplicate => "Duplicate"
  | .loadOffset n => s!"LoadOffset({n})"
  | .storeOffset n => s!"StoreOffset({n})"
  | .storeOffsetImm n imm => s!"StoreOffsetImm({n},{imm})"
  | .pushNil n => s!"PushNil({n})"
  | .pushBool b => s!"PushBool({b})"
  | .pushInt n => s!"PushInt({n})"
  | .pushFloat f => s!"PushFloat({f})"
  | .pushString x => s!"PushString({x})"
  | .binI op d r1 r2 => s!"{nameOf intOpNames op}({renderReg d},{renderReg r1},{renderReg r2})"
  | .binIImm op d r1 imm => s!"{nameOf intOpNames op}Imm({renderReg d},{renderReg r1},{imm})"
  | .binF op d r1 r2 => s!"{nameOf floatOpNames op}({renderReg d},{renderReg r1},{renderReg r2})"
  | .binFImm op d r1 imm => s!"{nameOf floatOpNames op}Imm({renderReg d},{renderReg r1},{imm})"
  | .atan2 d r1 r2 => s!"Atan2({renderReg d},{renderReg r1},{renderReg r2})"
  | .un op d r => s!"{nameOf unOpNames op}({renderReg d},{renderReg r})"
  | .arrayPush r1 r2 => s!"ArrayPush({renderReg r1},{renderReg r2})"
  | .arrayPushIntImm r1 imm => s!"ArrayPushIntImm({renderReg r1},{imm})"
  | .getIndex r1 r2 => s!"GetIndex({renderReg r1},{renderReg r2})"
  | .setIndex r1 r2 => s!"SetIndex({renderReg r1},{renderReg r2})"
  | .getField i r => s!"GetField({i},{renderReg r})"
  | .setField i r => s!"SetField({i},{renderReg r})"
  | .jump l => s!"Jump({l})"
  | .jumpIf l => s!"JumpIf({l})"
  | .jumpIfFalse l => s!"JumpIfFalse({l})"
  | .other t => t

def parseLine (w : String) : Option Line :=
  if w.startsWith "L:" then some (.label (w.drop 2).toString) else
  if w.startsWith "I:" then
    match (w.drop 2).toString.splitOn ":" with
    | f :: l :: n :: rest =>
      match f.toNat?, l.toNat?, n.toNat? with
      | some f, some l, some n => some (.instr (parseInstr (":".intercalate rest)) { file := f, line := l, func := n })
      | _, _, _ => none
    | _ => none
  else none

def renderLine : Line → String
  | .label l => s!"L:{l}"
  | .instr i a => s!"I:{a.file}:{a.line}:{a.func}:{renderInstr i}"

def floatOpShort : List (String × FloatOp) :=
  [("add", .add), ("sub", .sub), ("mul", .mul), ("div", .div), ("pow", .pow)]

structure OptReq where
  folds : List (FloatOp × String × String × String)
  zeros : List String
  idxInt : List (Int × Nat) := []
  idxFloat : List (String × Nat) := []
  lines : List Line

def parseOptReq : List String → OptReq → Option OptReq
  | [], acc => some { acc with lines := acc.lines.reverse }
  | w :: ws, acc =>
    if w.startsWith "F:" then
      match (w.drop 2).toString.splitOn ":" with
      | [op, a, b, c] =>
        match lookupName floatOpShort op with
        | some op => parseOptReq ws { acc with folds := (op, a, b, c) :: acc.folds }
        | none => none
      | _ => none
    else if w.startsWith "Z:" then parseOptReq ws { acc with zeros := (w.drop 2).toString :: acc.zeros }
    else if w.startsWith "CI:" then
      match (w.drop 3).toString.splitOn ":" with
      | [v, i] =>
        match v.toInt?, i.toNat? with
        | some v, some i => parseOptReq ws { acc with idxInt := (v, i) :: acc.idxInt }
        | _, _ => none
      | _ => none
    else if w.startsWith "CF:" then
      match (w.drop 3).toString.splitOn ":" with
      | [v, i] =>
        match i.toNat? with
        | some i => parseOptReq ws { acc with idxFloat := (v, i) :: acc.idxFloat }
        | none => none
      | _ => none
    else match parseLine w with
      | some l => parseOptReq ws { acc with lines := l :: acc.lines }
      | none => none

def envOf (r : OptReq) : FoldEnv :=
  { foldF := fun op a b => (r.folds.find? (fun e => e.1 = op && e.2.1 == a && e.2.2.1 == b)).map
      (fun e => if e.2.2.2 = "NAN" then none else some e.2.2.2)
    isZeroLit := fun b => r.zeros.contains b }

def renderPassRes : PassRes → String
  | .ok ls => if ls.isEmpty then "-" else " ".intercalate (ls.map renderLine)
  | .needFold => "need-fold"

def instrName (i : Instr) : String :=
  match (renderInstr i).splitOn "(" with
  | n :: _ => match n.splitOn "{" with
    | m :: _ => m
    | [] => n
  | [] => "?"

/-- `Name` or `Name:<constant>` for pushes of numbers and immediate-operand instructions -/
def renderVm (i : Instr) : String :=
  match i with
  | .pushInt n => s!"PushInt:{n}"
  | .pushFloat f => s!"PushFloat:{f}"
  | .storeOffsetImm _ imm => s!"StoreOffsetImm:{imm}"
  | .binIImm _ _ _ imm => s!"{instrName i}:{imm}"
  | .binFImm _ _ _ imm => s!"{instrName i}:{imm}"
  | .arrayPushIntImm _ imm => s!"ArrayPushIntImm:{imm}"
  | i => instrName i

def handle : List String → String
  | mode :: ws =>
    match parseOptReq ws { folds := [], zeros := [], lines := [] } with
    | some r =>
      match mode with
      | "pass" => renderPassRes (pass (envOf r) r.lines)
      | "full" => renderPassRes (optimize (envOf r) r.lines)
      | "echo" => renderPassRes (.ok r.lines)
      | "expand" =>
        let pool : Pool := poolOfIndex
          (fun n => (r.idxInt.find? (·.1 == n)).map (·.2))
          (fun f => (r.idxFloat.find? (·.1 == f)).map (·.2))
        let out := (expandImmediates pool r.lines).filterMap fun l =>
          match l with
          | .instr i _ => some (renderVm i)
          | .label _ => none
        if out.isEmpty then "-" else " ".intercalate out
      | _ => "bad-op"
    | none => "bad-op"
  | _ => "bad-op"

end Abra.Drv.OptD

namespace Abra.Drv
def handleOpt : List String → String := OptD.handle
end Abra.Drv
