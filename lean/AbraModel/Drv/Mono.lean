import AbraModel.Mono
import AbraModel.Drv.Util
/- Driver for M13 `Mono`:
   `mono <sig> <inst> <msig> <callty> <impls> <ifaceMethods> <implMethods> <idx>`
   types: `i f b s v`, `p<n>` (p0 = Self), `N<n>[t,…]`, `F[t,…>t]`, `T[t,…]`; `impls` = `;`-separated types;
   `ifaceMethods` = `+`-separated names; `implMethods` = `;`-separated (one per impl) `+`-separated names
   answer: `impl=<index> method=<name>` (what runs: method `name` of implementation `index`) or `impl=none` -/
namespace Abra.Drv
open Abra.Mono

mutual
private def parseTy : Nat → List Char → Option (Ty × List Char)
  | 0, _ => none
  | fuel + 1, cs =>
    match cs with
    | 'i' :: r => some (.int, r)
    | 'f' :: r => some (.float, r)
    | 'b' :: r => some (.bool, r)
    | 's' :: r => some (.string, r)
    | 'v' :: r => some (.void, r)
    | 'p' :: r =>
      let ds := r.takeWhile Char.isDigit
      match (String.ofList ds).toNat? with
      | some n => some (.poly n, r.dropWhile Char.isDigit)
      | none => none
    | 'N' :: r =>
      let ds := r.takeWhile Char.isDigit
      match (String.ofList ds).toNat?, r.dropWhile Char.isDigit with
      | some n, '[' :: r2 =>
        match parseTys fuel r2 with
        | some (ts, ']' :: r3) => some (.nominal n ts, r3)
        | _ => none
      | _, _ => none
    | 'T' :: '[' :: r =>
      match parseTys fuel r with
      | some (ts, ']' :: r2) => some (.tuple ts, r2)
      | _ => none
    | 'F' :: '[' :: r =>
      match parseTys fuel r with
      | some (args, '>' :: r2) =>
        match parseTy fuel r2 with
        | some (out, ']' :: r3) => some (.func args out, r3)
        | _ => none
      | _ => none
    | _ => none

private def parseTys : Nat → List Char → Option (List Ty × List Char)
  | 0, _ => none
  | fuel + 1, cs =>
    match cs with
    | ']' :: _ => some ([], cs)
    | '>' :: _ => some ([], cs)
    | _ =>
      match parseTy fuel cs with
      | none => none
      | some (t, ',' :: rest) =>
        match parseTys fuel rest with
        | some (ts, r) => some (t :: ts, r)
        | none => none
      | some (t, rest) => some ([t], rest)
end

private def parseTyS (s : String) : Option Ty :=
  match parseTy (2 * s.length + 2) s.toList with
  | some (t, []) => some t
  | _ => none

private def parseOper : String → Option Oper
  | "add" => some .add | "sub" => some .sub | "mul" => some .mul | "div" => some .div | "pow" => some .pow
  | "lt" => some .lt | "le" => some .le | "gt" => some .gt | "ge" => some .ge
  | "eq" => some .eq | "ne" => some .ne | "concat" => some .concat
  | _ => none

/-- `monoop <operator> <0|1 compound>` → `<Interface> <method> <index in the interface>` -/
def handleMonoOp : List String → String
  | [o, c] =>
    match parseOper o with
    | none => "bad-op"
    | some op =>
      let m? := if c = "1" then compoundMethod op else if c = "0" then some op.method else none
      match m? with
      | none => "none"
      | some (i, m) =>
        match (ifaceMethods i).findIdx? (· = m) with
        | some k => i ++ " " ++ m ++ " " ++ toString k
        | none => "bad-model"
  | _ => "bad-op"

/-- `monolabel <type> <type>`: do two instantiations of one generic function at these two types get
    two labels (`distinct`) or one (`same`)? -/
def handleMonoLabel : List String → String
  | [a, b] =>
    match parseTyS a, parseTyS b with
    | some t1, some t2 =>
      let ls := twoLabels 0 t1 t2
      if ls.1 = ls.2 then "same" else "distinct"
    | _, _ => "bad-op"
  | _ => "bad-op"

def handleMonoWith (asValue : Bool) : List String → String
  | [sig, inst, msig, callty, impls, ifaceM, implM, idx] =>
    let implTys := (if impls = "-" then [] else impls.splitOn ";").mapM parseTyS
    match parseTyS sig, parseTyS inst, parseTyS msig, parseTyS callty, implTys, parseNat? idx with
    | some sg, some ins, some ms, some ct, some its, some i =>
      let iface := ifaceM.splitOn "+"
      let implMs := (if implM = "-" then [] else implM.splitOn ";").map (fun s => s.splitOn "+")
      match (if asValue then dispatchValue sg ins ms ct its else dispatch sg ins ms ct its) with
      | none => "impl=none"
      | some k =>
        match implMs[k]? with
        | none => "bad-op"
        | some ms =>
          match (if asValue then methodOfValue iface ms i else methodByName iface ms i) with
          | some j => "impl=" ++ toString k ++ " method=" ++ (ms[j]?.getD "?")
          | none => "impl=" ++ toString k ++ " method=none"
    | _, _, _, _, _, _ => "bad-op"
  | _ => "bad-op"

/-- `mono …`: a call of the interface method; `monov …`: the method used as a function value -/
def handleMono : List String → String := handleMonoWith false
def handleMonoV : List String → String := handleMonoWith true

end Abra.Drv
