/- Shared helpers for the line-protocol driver (import-free). -/
namespace Abra.Drv

/-- words of a request line; a word starting with `#` begins a trailing comment (harness bookkeeping) -/
def words (line : String) : List String :=
  ((line.trimAscii.toString.splitOn " ").filter (· ≠ "")).takeWhile (fun w => !w.startsWith "#")

def parseInt? (s : String) : Option Int := s.toInt?

def parseNat? (s : String) : Option Nat := s.toNat?

/-- hex string (no prefix) → bytes; used to carry arbitrary strings on one line -/
def hexVal (c : Char) : Option Nat :=
  if '0' ≤ c ∧ c ≤ '9' then some (c.toNat - '0'.toNat)
  else if 'a' ≤ c ∧ c ≤ 'f' then some (c.toNat - 'a'.toNat + 10)
  else if 'A' ≤ c ∧ c ≤ 'F' then some (c.toNat - 'A'.toNat + 10)
  else none

def unhexAux : List Char → List UInt8 → Option (List UInt8)
  | [], acc => some acc.reverse
  | [_], _ => none
  | a :: b :: rest, acc =>
    match hexVal a, hexVal b with
    | some x, some y => unhexAux rest (UInt8.ofNat (x * 16 + y) :: acc)
    | _, _ => none

/-- "-" denotes the empty byte string -/
def unhex (s : String) : Option (List UInt8) :=
  if s = "-" then some [] else unhexAux s.toList []

def hexDigit (n : Nat) : Char :=
  if n < 10 then Char.ofNat ('0'.toNat + n) else Char.ofNat ('a'.toNat + (n - 10))

def hex (bs : List UInt8) : String :=
  if bs.isEmpty then "-" else
  String.ofList (bs.foldr (fun b acc => hexDigit (b.toNat / 16) :: hexDigit (b.toNat % 16) :: acc) [])

end Abra.Drv
