import AbraModel.F64
import AbraModel.StrOps
/-!
# Hand model of the built-in `Equal` / `Ord` / `Hash` implementations (`modules/prelude.abra`)

Transliterated function by function from the Abra source (the quoted line above each definition).
The comparisons of the component types are parameters (`Eq'`, `Ord'`, `Hash'`), exactly as the
prelude reaches them through the `Equal`/`Ord`/`Hash` interfaces; `and`/`or` short-circuit, which
for these pure functions is `&&`/`||`; an early `return` is an `if … then … else`.
`int`, `float` and `string` comparisons are inlined by the translator to the VM instructions
(`translate_bytecode.rs`: `BinOp` fast paths) and the interface methods call the same intrinsics;
they are instantiated here from `Int`'s order, `Abra.F64` and `Abra.StrOps`.
`!=` is always `==` followed by `Not`.  Ints in hashes are 64-bit patterns (`UInt64`): `wrapping_mul`,
`wrapping_add` and `bit_xor` on `i64` are the same operations on the two's-complement pattern.
-/
namespace Abra.PreludeCmp

/-- the four methods of `interface Ord` for one type -/
structure Ord' (α : Type) where
  lt : α → α → Bool
  le : α → α → Bool
  gt : α → α → Bool
  ge : α → α → Bool

abbrev Eq' (α : Type) := α → α → Bool
abbrev Hash' (α : Type) := α → UInt64

/-- `!=`: `Equal.equal` then `Not` -/
def ne {α : Type} (eq : Eq' α) (a b : α) : Bool := !(eq a b)

/-! ### void -/

/-- `implement Equal for void { fn equal(a, b) = true }` -/
def voidEqual : Eq' Unit := fun _ _ => true
/-- `implement Ord for void`: `false`, `true`, `false`, `true` -/
def voidOrd : Ord' Unit := ⟨fun _ _ => false, fun _ _ => true, fun _ _ => false, fun _ _ => true⟩
/-- `implement Hash for void { fn hash(a) = 0 }` -/
def voidHash : Hash' Unit := fun _ => 0

/-! ### bool -/

/-- `if a and b { true } else if a or b { false } else { true }` -/
def boolEqual : Eq' Bool := fun a b => if a && b then true else if a || b then false else true

/-- `(not a) and b`, `not (a and not b)`, `a and (not b)`, `not ((not a) and b)` (the last one after
    the repair of D5; it was `a and not b`) -/
def boolOrd : Ord' Bool :=
  ⟨fun a b => (!a) && b, fun a b => !(a && !b), fun a b => a && (!b), fun a b => !((!a) && b)⟩

/-- `if a { 1 } else { 0 }` -/
def boolHash : Hash' Bool := fun a => if a then 1 else 0

/-! ### int (VM: `EqualInt`, `LessThanInt`, …: Rust's `==`, `<`, … on `i64`) -/

def intEqual : Eq' Int := fun a b => decide (a = b)
def intOrd : Ord' Int :=
  ⟨fun a b => decide (a < b), fun a b => decide (a ≤ b), fun a b => decide (a > b), fun a b => decide (a ≥ b)⟩
/-- 64-bit two's-complement pattern of an `i64` -/
def bitsOfInt (a : Int) : UInt64 := UInt64.ofNat (a % 2 ^ 64).toNat
/-- `implement Hash for int { fn hash(a) = a }` -/
def intHash : Hash' Int := bitsOfInt

/-! ### float (VM: `total_cmp`, see `Abra.F64`); no `Hash` implementation exists for float -/

def floatEqual : Eq' UInt64 := F64.feq
def floatOrd : Ord' UInt64 := ⟨F64.flt, F64.fle, F64.fgt, F64.fge⟩

/-! ### string (VM: the resumable byte-wise instructions, see `Abra.StrOps`) -/

open StrOps in
/-- run a string comparison instruction to completion from fresh registers -/
def strRun (step : Bytes → Bytes → Regs → Step Bool) (a b : Bytes) : Bool :=
  match run (step a b) (min a.length b.length + 1) {} with
  | .finished v _ => v
  | _ => false

def strEqual : Eq' StrOps.Bytes := strRun StrOps.eqStep
def strOrd : Ord' StrOps.Bytes :=
  ⟨strRun (StrOps.cmpStep .lt), strRun (StrOps.cmpStep .le), strRun (StrOps.cmpStep .gt), strRun (StrOps.cmpStep .ge)⟩

/-- FNV-1a: `var hash = -3750763034362895579` (= 0xcbf29ce484222325), `prime = 1099511628211`;
    per byte `hash = bit_xor(hash, byte); hash = wrapping_mul(hash, prime)` -/
def strHash : Hash' StrOps.Bytes :=
  fun s => s.foldl (fun h b => (h ^^^ UInt64.ofNat b.toNat) * 1099511628211) 0xcbf29ce484222325

/-- the loop as the prelude writes it: `for i in string_count_bytes(s) { hash = bit_xor(hash,
    string_nth_byte(s, i)); hash = wrapping_mul(hash, prime) }` — index `i`, `fuel` rounds left; an
    out-of-range `string_nth_byte` would be the runtime error (`none`) -/
def strHashLoop (s : StrOps.Bytes) : Nat → Nat → UInt64 → Option UInt64
  | 0, _, h => some h
  | fuel + 1, i, h =>
    match StrOps.nthByte s i with
    | .val b => strHashLoop s fuel (i + 1) ((h ^^^ bitsOfInt b) * 1099511628211)
    | .outOfBounds => none

def strHashIndexed (s : StrOps.Bytes) : Option UInt64 :=
  strHashLoop s (StrOps.countBytes s).toNat 0 0xcbf29ce484222325

/-! ### `fn hash_combine(seed, value) = wrapping_add(wrapping_mul(seed, 31), Hash.hash(value))` -/

def hashCombine {α : Type} (h : Hash' α) (seed : UInt64) (v : α) : UInt64 := seed * 31 + h v

/-! ### tuples: `implement Equal/Ord/Hash for (T1, T2)`, `(T1, T2, T3)`, `(T1, T2, T3, T4)` -/

/-- `(a1 == b1) and (a2 == b2)` -/
def tuple2Equal {α β : Type} (e1 : Eq' α) (e2 : Eq' β) : Eq' (α × β) :=
  fun (a1, a2) (b1, b2) => e1 a1 b1 && e2 a2 b2

def tuple3Equal {α β γ : Type} (e1 : Eq' α) (e2 : Eq' β) (e3 : Eq' γ) : Eq' (α × β × γ) :=
  fun (a1, a2, a3) (b1, b2, b3) => e1 a1 b1 && e2 a2 b2 && e3 a3 b3

def tuple4Equal {α β γ δ : Type} (e1 : Eq' α) (e2 : Eq' β) (e3 : Eq' γ) (e4 : Eq' δ) : Eq' (α × β × γ × δ) :=
  fun (a1, a2, a3, a4) (b1, b2, b3, b4) => e1 a1 b1 && e2 a2 b2 && e3 a3 b3 && e4 a4 b4

/-- `if Ord.less_than(a1, b1) return true; if Ord.greater_than(a1, b1) return false; Ord.<op>(a2, b2)` for
    `less_than` and `less_than_or_equal`; with `greater_than` tested first and `less_than` second
    for `greater_than` and `greater_than_or_equal` -/
def tuple2Ord {α β : Type} (o1 : Ord' α) (o2 : Ord' β) : Ord' (α × β) where
  lt := fun (a1, a2) (b1, b2) => if o1.lt a1 b1 then true else if o1.gt a1 b1 then false else o2.lt a2 b2
  le := fun (a1, a2) (b1, b2) => if o1.lt a1 b1 then true else if o1.gt a1 b1 then false else o2.le a2 b2
  gt := fun (a1, a2) (b1, b2) => if o1.gt a1 b1 then true else if o1.lt a1 b1 then false else o2.gt a2 b2
  ge := fun (a1, a2) (b1, b2) => if o1.gt a1 b1 then true else if o1.lt a1 b1 then false else o2.ge a2 b2

def tuple3Ord {α β γ : Type} (o1 : Ord' α) (o2 : Ord' β) (o3 : Ord' γ) : Ord' (α × β × γ) where
  lt := fun (a1, a2, a3) (b1, b2, b3) =>
    if o1.lt a1 b1 then true else if o1.gt a1 b1 then false
    else if o2.lt a2 b2 then true else if o2.gt a2 b2 then false else o3.lt a3 b3
  le := fun (a1, a2, a3) (b1, b2, b3) =>
    if o1.lt a1 b1 then true else if o1.gt a1 b1 then false
    else if o2.lt a2 b2 then true else if o2.gt a2 b2 then false else o3.le a3 b3
  gt := fun (a1, a2, a3) (b1, b2, b3) =>
    if o1.gt a1 b1 then true else if o1.lt a1 b1 then false
    else if o2.gt a2 b2 then true else if o2.lt a2 b2 then false else o3.gt a3 b3
  ge := fun (a1, a2, a3) (b1, b2, b3) =>
    if o1.gt a1 b1 then true else if o1.lt a1 b1 then false
    else if o2.gt a2 b2 then true else if o2.lt a2 b2 then false else o3.ge a3 b3

def tuple4Ord {α β γ δ : Type} (o1 : Ord' α) (o2 : Ord' β) (o3 : Ord' γ) (o4 : Ord' δ) :
    Ord' (α × β × γ × δ) where
  lt := fun (a1, a2, a3, a4) (b1, b2, b3, b4) =>
    if o1.lt a1 b1 then true else if o1.gt a1 b1 then false
    else if o2.lt a2 b2 then true else if o2.gt a2 b2 then false
    else if o3.lt a3 b3 then true else if o3.gt a3 b3 then false else o4.lt a4 b4
  le := fun (a1, a2, a3, a4) (b1, b2, b3, b4) =>
    if o1.lt a1 b1 then true else if o1.gt a1 b1 then false
    else if o2.lt a2 b2 then true else if o2.gt a2 b2 then false
    else if o3.lt a3 b3 then true else if o3.gt a3 b3 then false else o4.le a4 b4
  gt := fun (a1, a2, a3, a4) (b1, b2, b3, b4) =>
    if o1.gt a1 b1 then true else if o1.lt a1 b1 then false
    else if o2.gt a2 b2 then true else if o2.lt a2 b2 then false
    else if o3.gt a3 b3 then true else if o3.lt a3 b3 then false else o4.gt a4 b4
  ge := fun (a1, a2, a3, a4) (b1, b2, b3, b4) =>
    if o1.gt a1 b1 then true else if o1.lt a1 b1 then false
    else if o2.gt a2 b2 then true else if o2.lt a2 b2 then false
    else if o3.gt a3 b3 then true else if o3.lt a3 b3 then false else o4.ge a4 b4

/-- `var h = 17; h = hash_combine(h, a); h = hash_combine(h, b); h` -/
def tuple2Hash {α β : Type} (h1 : Hash' α) (h2 : Hash' β) : Hash' (α × β) :=
  fun (a, b) => hashCombine h2 (hashCombine h1 17 a) b

def tuple3Hash {α β γ : Type} (h1 : Hash' α) (h2 : Hash' β) (h3 : Hash' γ) : Hash' (α × β × γ) :=
  fun (a, b, c) => hashCombine h3 (hashCombine h2 (hashCombine h1 17 a) b) c

def tuple4Hash {α β γ δ : Type} (h1 : Hash' α) (h2 : Hash' β) (h3 : Hash' γ) (h4 : Hash' δ) :
    Hash' (α × β × γ × δ) :=
  fun (a, b, c, d) => hashCombine h4 (hashCombine h3 (hashCombine h2 (hashCombine h1 17 a) b) c) d

/-! ### arrays: `implement Equal for array<T Equal>`, `implement Hash for array<T Hash>` (no `Ord`) -/

/-- `for i in a.len() { if a[i] != b[i] { return false } }; true` from index `i`, `fuel` rounds left;
    an index past the end of either array would be the VM's out-of-bounds error (`none`) -/
def arrayEqualLoop {α : Type} (e : Eq' α) (a b : List α) : Nat → Nat → Option Bool
  | 0, _ => some true
  | fuel + 1, i =>
    match a[i]?, b[i]? with
    | some x, some y => if ne e x y then some false else arrayEqualLoop e a b fuel (i + 1)
    | _, _ => none

/-- `if a.len() != b.len() { return false }` then the loop -/
def arrayEqual? {α : Type} (e : Eq' α) (a b : List α) : Option Bool :=
  if a.length != b.length then some false else arrayEqualLoop e a b a.length 0

def arrayEqual {α : Type} (e : Eq' α) : Eq' (List α) := fun a b => (arrayEqual? e a b).getD false

/-- `var h = 17; for elem in a { h = hash_combine(h, elem) }; h` -/
def arrayHash {α : Type} (h : Hash' α) : Hash' (List α) := fun a => a.foldl (hashCombine h) 17

/-- a hash as the program prints it: the pattern read as a signed 64-bit integer -/
def signedOfBits (h : UInt64) : Int := if h.toNat ≥ 2 ^ 63 then (h.toNat : Int) - 2 ^ 64 else h.toNat

end Abra.PreludeCmp
