import AbraModel.Int64
/-
M4 (core) — the stack machine of abra_core/src/vm.rs for the instructions that the fragments F0
(C02), the try/unwrap lowering (C23) and closures (C19) compile to: values with tags, one operand
stack with a frame base, call frames, an append-only heap, `step`.

Every place where the Rust code would panic or read through a mistyped pointer is an explicit `fault`
outcome: `pop` on an empty stack, an index outside `value_stack`, a tag other than the one the arm asks
for (`check_type`, debug builds), `call_stack.pop().unwrap()` on an empty call stack, a pc outside the
program.  User errors (`self.error = Some(..)`) are the separate `error` outcome.

Instructions whose arms in vm.rs have literally the same shape are grouped:
  `intOp op d a b`  = AddInt / SubtractInt / MulInt / DivideInt / PowerInt / Modulo,
  `intCmp op d a b` = LessThanInt / LessThanOrEqualInt / GreaterThanInt / GreaterThanOrEqualInt / EqualInt.
`print t` is not a VM instruction: it abbreviates `Call 1 <prelude println for t>` and is given the
effect the prelude documents (pop the argument, append its text and a newline to the output).  That
the compiled prelude function behaves like this is an assumption of the F0 theorem (props/C02.py) and
is exercised by the end-to-end tie.

Jump targets are a parameter: `Instr Nat` (absolute pcs) is what the VM executes, the compiler model
emits `Instr Target` (relative) — see AbraModel/Compile.lean.
-/
namespace Abra.VM

inductive Reg where
  | top
  | off (i : Int)
  deriving DecidableEq, Repr, Inhabited

inductive IntOp where
  | add | sub | mul | div | pow | mod
  deriving DecidableEq, Repr, Inhabited

inductive CmpOp where
  | lt | le | gt | ge | eq
  deriving DecidableEq, Repr, Inhabited

inductive PTy where
  | int | bool
  deriving DecidableEq, Repr, Inhabited

/-- `Value(u64, ValueTag)`: the payload of pointer tags is a heap address -/
inductive Val where
  | int (n : Int)
  | bool (b : Bool)
  | addr (pc : Nat)
  | struct_ (a : Nat)
  | variant (a : Nat)
  | array (a : Nat)
  | str (a : Nat)
  deriving DecidableEq, Repr, Inhabited

inductive Obj where
  | struct_ (fields : List Val)
  | variant (tag : Nat) (v : Val)
  | array (vs : List Val)
  | str (s : String)
  deriving DecidableEq, Repr, Inhabited

inductive Instr (τ : Type) where
  | pushNil (n : Nat)
  | pushInt (n : Int)
  | pushBool (b : Bool)
  | pushStr (s : String)
  | pushAddr (t : τ)
  | pop
  | dup
  | load (i : Int)
  | store (i : Int)
  | intOp (op : IntOp) (d a b : Reg)
  | intCmp (op : CmpOp) (d a b : Reg)
  | eqBool (d a b : Reg)
  | not (d a : Reg)
  | jump (t : τ)
  | jumpIf (t : τ)
  | jumpIfFalse (t : τ)
  | call (nargs : Nat) (t : τ)
  | callFuncObj (nargs : Nat)
  | ret (nargs : Nat)
  | retVoid
  | stop
  | panic
  | constructStruct (n : Nat)
  | constructVariant (tag : Nat)
  | deconstructStruct
  | deconstructVariant
  | makeClosure (n : Nat)
  | getField (i : Nat) (r : Reg)
  | print (t : PTy)
  deriving DecidableEq, Repr, Inhabited

structure Frame where
  pc : Nat
  base : Nat
  nargs : Nat
  deriving DecidableEq, Repr, Inhabited

/-- user errors: `VmErrorKind::{IntegerOverflowUnderflow, DivisionByZero, ArrayOutOfBounds, Panic}` -/
inductive Err where
  | overflow | divZero | oob | panic
  deriving DecidableEq, Repr, Inhabited

structure State where
  pc : Nat
  /-- `value_stack`, bottom first -/
  stack : List Val
  /-- `stack_base` -/
  base : Nat
  frames : List Frame
  heap : List Obj
  /-- text handed to the host print function, most recent first -/
  out : List String
  deriving DecidableEq, Repr, Inhabited

inductive Fault where
  | underflow            -- pop / top on an empty stack
  | badIndex             -- value_stack[...] out of range, store_offset past the end, pop_n past the bottom
  | wrongType            -- check_type
  | noFrame              -- call_stack.pop().unwrap()
  | badPc                -- program[pc] out of range
  | badObject            -- heap address without the expected object
  deriving DecidableEq, Repr, Inhabited

inductive StepResult where
  | ok (s : State)
  | error (k : Err) (s : State)
  | done (s : State)
  | fault (f : Fault)
  deriving DecidableEq, Repr, Inhabited

abbrev Program := List (Instr Nat)

/-- pop the last element -/
def pop? : List Val → Option (Val × List Val)
  | [] => none
  | [v] => some (v, [])
  | a :: r => match pop? r with
    | some (v, r') => some (v, a :: r')
    | none => none

/-- `stack_base.wrapping_add_signed(offset)` as an index into the stack -/
def slotIdx (base : Nat) (i : Int) : Option Nat :=
  let k : Int := (base : Int) + i
  if 0 ≤ k then some k.toNat else none

/-- `load_offset_or_top`: value and the stack afterwards -/
def loadReg (r : Reg) (base : Nat) (stk : List Val) : Except Fault (Val × List Val) :=
  match r with
  | .top =>
    -- `value_stack[len - 1]` panics on an empty stack (index out of range)
    match pop? stk with
    | some (v, rest) => .ok (v, rest)
    | none => .error .badIndex
  | .off i =>
    match slotIdx base i with
    | some k => match stk[k]? with
      | some v => .ok (v, stk)
      | none => .error .badIndex
    | none => .error .badIndex

/-- `store_offset_or_top` -/
def storeReg (r : Reg) (base : Nat) (stk : List Val) (v : Val) : Except Fault (List Val) :=
  match r with
  | .top => .ok (stk ++ [v])
  | .off i =>
    match slotIdx base i with
    | some k => if k < stk.length then .ok (stk.set k v) else .error .badIndex
    | none => .error .badIndex

def getInt : Val → Except Fault Int
  | .int n => .ok n
  | _ => .error .wrongType

def getBool : Val → Except Fault Bool
  | .bool b => .ok b
  | _ => .error .wrongType

def IntOp.toI64 : IntOp → I64.Op
  | .add => .add | .sub => .sub | .mul => .mul | .div => .div | .pow => .pow | .mod => .mod

def CmpOp.eval : CmpOp → Int → Int → Bool
  | .lt, a, b => decide (a < b)
  | .le, a, b => decide (a ≤ b)
  | .gt, a, b => decide (a > b)
  | .ge, a, b => decide (a ≥ b)
  | .eq, a, b => decide (a = b)

def renderVal : PTy → Val → Except Fault String
  | .int, .int n => .ok (toString n)
  | .bool, .bool b => .ok (if b then "true" else "false")
  | _, _ => .error .wrongType

/-- the last `n` elements and what is below them (`pop_n`) -/
def splitLast (stk : List Val) (n : Nat) : Option (List Val × List Val) :=
  if n ≤ stk.length then some (stk.take (stk.length - n), stk.drop (stk.length - n)) else none

def step (P : Program) (s : State) : StepResult :=
  match P[s.pc]? with
  | none => .fault .badPc
  | some ins =>
    let pc := s.pc + 1
    match ins with
    | .pushNil n => .ok { s with pc := pc, stack := s.stack ++ List.replicate n (.int 0) }
    | .pushInt n => .ok { s with pc := pc, stack := s.stack ++ [.int n] }
    | .pushBool b => .ok { s with pc := pc, stack := s.stack ++ [.bool b] }
    | .pushStr t => .ok { s with pc := pc, stack := s.stack ++ [.str s.heap.length], heap := s.heap ++ [.str t] }
    | .pushAddr t => .ok { s with pc := pc, stack := s.stack ++ [.addr t] }
    | .pop =>
      match pop? s.stack with
      | some (_, rest) => .ok { s with pc := pc, stack := rest }
      | none => .fault .underflow
    | .dup =>
      match pop? s.stack with
      | some (v, _) => .ok { s with pc := pc, stack := s.stack ++ [v] }
      | none => .fault .underflow
    | .load i =>
      match slotIdx s.base i with
      | some k => match s.stack[k]? with
        | some v => .ok { s with pc := pc, stack := s.stack ++ [v] }
        | none => .fault .badIndex
      | none => .fault .badIndex
    | .store i =>
      match pop? s.stack with
      | none => .fault .underflow
      | some (v, rest) =>
        match slotIdx s.base i with
        | some k => if k < rest.length then .ok { s with pc := pc, stack := rest.set k v } else .fault .badIndex
        | none => .fault .badIndex
    | .intOp op d ra rb =>
      match loadReg rb s.base s.stack with
      | .error f => .fault f
      | .ok (vb, s1) =>
        match getInt vb with
        | .error f => .fault f
        | .ok b =>
          match loadReg ra s.base s1 with
          | .error f => .fault f
          | .ok (va, s2) =>
            match getInt va with
            | .error f => .fault f
            | .ok a =>
              match I64.apply op.toI64 a b with
              | .overflow => .error .overflow { s with pc := pc, stack := s2 }
              | .divZero => .error .divZero { s with pc := pc, stack := s2 }
              | .val c =>
                match storeReg d s.base s2 (.int c) with
                | .ok s3 => .ok { s with pc := pc, stack := s3 }
                | .error f => .fault f
    | .intCmp op d ra rb =>
      match loadReg rb s.base s.stack with
      | .error f => .fault f
      | .ok (vb, s1) =>
        match getInt vb with
        | .error f => .fault f
        | .ok b =>
          match loadReg ra s.base s1 with
          | .error f => .fault f
          | .ok (va, s2) =>
            match getInt va with
            | .error f => .fault f
            | .ok a =>
              match storeReg d s.base s2 (.bool (op.eval a b)) with
              | .ok s3 => .ok { s with pc := pc, stack := s3 }
              | .error f => .fault f
    | .eqBool d ra rb =>
      match loadReg rb s.base s.stack with
      | .error f => .fault f
      | .ok (vb, s1) =>
        match getBool vb with
        | .error f => .fault f
        | .ok b =>
          match loadReg ra s.base s1 with
          | .error f => .fault f
          | .ok (va, s2) =>
            match getBool va with
            | .error f => .fault f
            | .ok a =>
              match storeReg d s.base s2 (.bool (a == b)) with
              | .ok s3 => .ok { s with pc := pc, stack := s3 }
              | .error f => .fault f
    | .not d ra =>
      match loadReg ra s.base s.stack with
      | .error f => .fault f
      | .ok (va, s1) =>
        match getBool va with
        | .error f => .fault f
        | .ok a =>
          match storeReg d s.base s1 (.bool (!a)) with
          | .ok s2 => .ok { s with pc := pc, stack := s2 }
          | .error f => .fault f
    | .jump t => .ok { s with pc := t }
    | .jumpIf t =>
      match pop? s.stack with
      | none => .fault .underflow
      | some (v, rest) =>
        match getBool v with
        | .error f => .fault f
        | .ok b => .ok { s with pc := if b then t else pc, stack := rest }
    | .jumpIfFalse t =>
      match pop? s.stack with
      | none => .fault .underflow
      | some (v, rest) =>
        match getBool v with
        | .error f => .fault f
        | .ok b => .ok { s with pc := if b then pc else t, stack := rest }
    | .call nargs t =>
      .ok { s with pc := t, base := s.stack.length,
                   frames := { pc := pc, base := s.base, nargs := nargs } :: s.frames }
    | .callFuncObj nargs =>
      match pop? s.stack with
      | none => .fault .underflow
      | some (.struct_ a, rest) =>
        match s.heap[a]? with
        | some (.struct_ (.addr t :: captures)) =>
          .ok { s with pc := t, base := rest.length, stack := rest ++ captures,
                       frames := { pc := pc, base := s.base, nargs := nargs } :: s.frames }
        | some (.struct_ (_ :: _)) => .fault .wrongType
        | some (.struct_ []) => .fault .badObject      -- `fields.next().unwrap()`
        | _ => .fault .badObject
      | some (_, _) => .fault .wrongType
    | .ret nargs =>
      -- idx = stack_base - nargs; value_stack[idx] = top; truncate(stack_base - frame.nargs + 1)
      match pop? s.stack with
      | none => .fault .underflow
      | some (v, _) =>
        if nargs ≤ s.base ∧ s.base - nargs < s.stack.length then
          let stk := s.stack.set (s.base - nargs) v
          match s.frames with
          | [] => .fault .noFrame
          | fr :: frs =>
            if fr.nargs ≤ s.base + 1 then
              .ok { s with pc := fr.pc, base := fr.base, frames := frs,
                           stack := stk.take (s.base - fr.nargs + 1) }
            else .fault .badIndex
        else .fault .badIndex
    | .retVoid =>
      match s.frames with
      | [] => .fault .noFrame
      | fr :: frs =>
        if fr.nargs ≤ s.base then
          .ok { s with pc := fr.pc, base := fr.base, frames := frs, stack := s.stack.take (s.base - fr.nargs) }
        else .fault .badIndex
    | .stop => .done s
    | .panic =>
      match pop? s.stack with
      | none => .fault .underflow
      | some (.str a, rest) =>
        match s.heap[a]? with
        | some (.str _) => .error .panic { s with pc := pc, stack := rest }
        | _ => .fault .badObject
      | some (_, _) => .fault .wrongType
    | .constructStruct n =>
      match splitLast s.stack n with
      | some (rest, fields) =>
        .ok { s with pc := pc, stack := rest ++ [.struct_ s.heap.length], heap := s.heap ++ [.struct_ fields] }
      | none => .fault .badIndex
    | .makeClosure n =>
      match splitLast s.stack (n + 1) with
      | some (rest, fields) =>
        .ok { s with pc := pc, stack := rest ++ [.struct_ s.heap.length], heap := s.heap ++ [.struct_ fields] }
      | none => .fault .badIndex
    | .constructVariant tag =>
      match pop? s.stack with
      | some (v, rest) =>
        .ok { s with pc := pc, stack := rest ++ [.variant s.heap.length], heap := s.heap ++ [.variant tag v] }
      | none => .fault .underflow
    | .deconstructStruct =>
      match pop? s.stack with
      | none => .fault .underflow
      | some (.struct_ a, rest) =>
        match s.heap[a]? with
        | some (.struct_ fields) => .ok { s with pc := pc, stack := rest ++ fields.reverse }
        | _ => .fault .badObject
      | some (_, _) => .fault .wrongType
    | .deconstructVariant =>
      match pop? s.stack with
      | none => .fault .underflow
      | some (.variant a, rest) =>
        match s.heap[a]? with
        | some (.variant tag v) => .ok { s with pc := pc, stack := rest ++ [v, .int tag] }
        | _ => .fault .badObject
      | some (_, _) => .fault .wrongType
    | .getField i r =>
      match loadReg r s.base s.stack with
      | .error f => .fault f
      | .ok (.struct_ a, s1) =>
        match s.heap[a]? with
        | some (.struct_ fields) =>
          match fields[i]? with
          | some v => .ok { s with pc := pc, stack := s1 ++ [v] }
          | none => .fault .badIndex
        | _ => .fault .badObject
      | .ok (_, _) => .fault .wrongType
    | .print t =>
      match pop? s.stack with
      | none => .fault .underflow
      | some (v, rest) =>
        match renderVal t v with
        | .ok txt => .ok { s with pc := pc, stack := rest, out := (txt ++ "\n") :: s.out }
        | .error f => .fault f

/-- outcome of running at most `fuel` steps -/
inductive RunResult where
  | done (s : State)
  | error (k : Err) (s : State)
  | fault (f : Fault)
  | outOfFuel (s : State)
  deriving DecidableEq, Repr, Inhabited

def run (P : Program) : Nat → State → RunResult
  | 0, s => .outOfFuel s
  | n + 1, s =>
    match step P s with
    | .ok s' => run P n s'
    | .error k s' => .error k s'
    | .done s' => .done s'
    | .fault f => .fault f

def State.init : State := { pc := 0, stack := [], base := 0, frames := [], heap := [], out := [] }

/-! ### `Reg::encode` (assembly.rs) and its decoding in `load_offset_or_top` -/

/-- `Reg::encode`: `none` where the Rust code panics (offset outside the 15-bit range) -/
def encodeReg : Reg → Option Nat
  | .top => some 32768
  | .off n => if -16384 ≤ n ∧ n ≤ 16383 then some ((n % 65536).toNat % 32768) else none

/-- decoding as `load_offset_or_top` does it: `use_top = arg >> 15`,
    `offset = ((arg << 1) as i16) >> 1` -/
def decodeReg (w : Nat) : Reg :=
  if w / 32768 % 2 = 1 then .top
  else
    let shl := (w * 2) % 65536                      -- (arg << 1) as u16
    let asI16 : Int := if shl < 32768 then shl else (shl : Int) - 65536
    .off (asI16 / 2)                                 -- arithmetic shift right by one (floor)

end Abra.VM
