/-
M1 — 64-bit integer arithmetic exactly as the VM arms call Rust (vm.rs: AddInt … ModuloImm,
optimize_bytecode.rs: the five integer folds).  Integers are `Int` with an explicit range test;
no Mathlib, no imports: this file is linked into the model driver.
-/
namespace Abra.I64

def MIN : Int := -9223372036854775808
def MAX : Int := 9223372036854775807

def inRange (x : Int) : Bool := decide (MIN ≤ x) && decide (x ≤ MAX)

/-- Rust `checked_*`: `some` iff the exact result fits. -/
def checked (x : Int) : Option Int := if inRange x then some x else none

/-- What a VM integer instruction produces. -/
inductive Out where
  | val (n : Int)
  | overflow          -- VmErrorKind::IntegerOverflowUnderflow
  | divZero           -- VmErrorKind::DivisionByZero
  deriving Repr, DecidableEq, Inhabited

def ofChecked : Option Int → Out
  | some n => .val n
  | none => .overflow

def add (a b : Int) : Out := ofChecked (checked (a + b))
def sub (a b : Int) : Out := ofChecked (checked (a - b))
def mul (a b : Int) : Out := ofChecked (checked (a * b))
/-- unary minus is compiled as `0 - x` (translate_bytecode.rs) -/
def neg (a : Int) : Out := sub 0 a

/-- `DivideInt`: zero test, then `checked_div` (truncating), `None` ⇒ overflow. -/
def div (a b : Int) : Out :=
  if b = 0 then .divZero else ofChecked (checked (Int.tdiv a b))

/-- `Modulo`: zero test, then `wrapping_rem_euclid` (never fails for b ≠ 0). -/
def mod (a b : Int) : Out :=
  if b = 0 then .divZero else .val (Int.emod a b)

/-- executable exact power with early exit: `some (a^e)` iff it fits.
    For |a| ≥ 2 the loop leaves after at most 64 rounds. -/
def powLoop (a : Int) : Nat → Int → Option Int
  | 0, acc => some acc
  | e + 1, acc =>
    let acc' := acc * a
    if inRange acc' then powLoop a e acc' else none

def checkedPow (a : Int) (e : Nat) : Option Int :=
  if a = 0 then some (if e = 0 then 1 else 0)
  else if a = 1 then some 1
  else if a = -1 then some (if e % 2 = 0 then 1 else -1)
  else powLoop a e 1

/-- Rust `b as u32` on an i64. -/
def asU32 (b : Int) : Nat := (Int.emod b 4294967296).toNat

/-- `PowerInt` (helper `checked_pow_int` in vm.rs): exponents that fit `u32` use `checked_pow`;
    larger non-negative ones are exact for bases 0, 1, -1 and overflow otherwise; negative
    exponents keep the historical `as u32` behaviour (the language leaves them unspecified). -/
def pow (a b : Int) : Out :=
  if 0 ≤ b then ofChecked (checkedPow a b.toNat)
  else ofChecked (checkedPow a (asU32 b))

/-- Operators as the harness names them. -/
inductive Op where
  | add | sub | mul | div | mod | pow
  deriving Repr, DecidableEq, Inhabited

def apply : Op → Int → Int → Out
  | .add, a, b => add a b
  | .sub, a, b => sub a b
  | .mul, a, b => mul a b
  | .div, a, b => div a b
  | .mod, a, b => mod a b
  | .pow, a, b => pow a b

/-- The optimizer's constant folds (optimize_bytecode.rs, window of 3): a fold happens only when the
    guard holds, and then pushes the exact value; otherwise the instruction is left to the VM. -/
def fold : Op → Int → Int → Option Int
  | .add, a, b => checked (a + b)
  | .sub, a, b => checked (a - b)
  | .mul, a, b => checked (a * b)
  | .div, a, b => if b = 0 then none else checked (Int.tdiv a b)
  | .pow, a, b => match pow a b with | .val n => some n | _ => none
  | .mod, _, _ => none

/-- Behaviour of `PushInt a; PushInt b; op` after optimisation: folded constant, or the VM arm. -/
def applyFolded (op : Op) (a b : Int) : Out :=
  match fold op a b with
  | some c => .val c
  | none => apply op a b

/-- `x op1 c1 op2 c2` evaluated left to right as the compiler emits it (two instructions, the second
    consuming the first one's result): an error of the first operation is the program's error and
    the second operation is never executed. -/
def chain (op1 op2 : Op) (x c1 c2 : Int) : Out :=
  match apply op1 x c1 with
  | .val y => apply op2 y c2
  | e => e

def Out.render : Out → String
  | .val n => s!"ok {n}"
  | .overflow => "err overflow"
  | .divZero => "err divzero"

def Op.parse? : String → Option Op
  | "add" => some .add | "sub" => some .sub | "mul" => some .mul
  | "div" => some .div | "mod" => some .mod | "pow" => some .pow
  | _ => none

end Abra.I64
