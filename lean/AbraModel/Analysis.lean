/-
M8 (analysis) — the tables the code generator computes per function body in
abra_core/src/translate_bytecode.rs: `collect_locals_*`, `collect_captures_*` (as repaired: a nested
lambda / task contributes its own captures; a match scrutinee is visited; the object and index of a
field/index assignment target are read and their binders collected), `calculate_args_captures_locals`, the offset table of
`translate_func_body_helper`; and the two loop contexts (checker `ctx.loop_stack` with the `None`
pushed at function and task boundaries, code generator `st.loop_stack`).

The AST here is *resolved*: every variable use carries the id of the binding node it resolves to
(`resolution_map`), so shadowing plays no role; binders of void type (no slot) are simply absent
(`collect_locals_pat` / `Variable` skip them).  Sets are lists; order and multiplicity are not
observable (the real code uses hash sets) — the correspondence compares sizes per lambda.
-/
namespace Abra.Analysis

mutual
inductive RExpr where
  | lit                                        -- literals, `.Variant`, names of functions/types: no local
  | var (id : Nat)                             -- a use resolving to the local binding `id`
  | op (es : RExprs)                           -- operator / constructor / call / index / field / `?` / `!`
  | ite (c t f : RExpr)
  | block (ss : RStmts)
  | matchE (scrut : RExpr) (arms : RArms)
  | lam (params : List Nat) (body : RExpr)
  | task (body : RExpr)
inductive RStmt where
  | let_ (binders : List Nat) (e : RExpr)
  | assignVar (id : Nat) (e : RExpr)           -- `x = e`, `x op= e`
  | assignPlace (temps : List Nat) (target : RExpr) (e : RExpr)
      -- `o.f = e`, `a[i] = e` (target = the MemberAccess/IndexAccess); a compound form (`+=` …) evaluates the object
      -- (and index) once into hidden temporaries `temps` that own slots (29b0667)
  | expr (e : RExpr)
  | while_ (c : RExpr) (body : RStmts)
  | for_ (binders : List Nat) (it : RExpr) (body : RStmts)
  | break_
  | continue_
  | ret (e : RExpr)
inductive RStmts where
  | nil
  | cons (s : RStmt) (rest : RStmts)
inductive RExprs where
  | nil
  | cons (e : RExpr) (rest : RExprs)
inductive RArms where
  | nil
  | cons (binders : List Nat) (body : RExpr) (rest : RArms)
end

instance : Inhabited RExpr := ⟨.lit⟩
instance : Inhabited RStmt := ⟨.break_⟩

def RStmts.ofList : List RStmt → RStmts
  | [] => .nil
  | s :: r => .cons s (RStmts.ofList r)
def RExprs.ofList : List RExpr → RExprs
  | [] => .nil
  | s :: r => .cons s (RExprs.ofList r)
def RArms.ofList : List (List Nat × RExpr) → RArms
  | [] => .nil
  | (b, e) :: r => .cons b e (RArms.ofList r)

/- `collect_locals_expr` / `_stmts` / `_pat`: the binders that own a slot in this function
   (nested lambdas and tasks are separate functions: not entered) -/
mutual
def localsE : RExpr → List Nat
  | .lit => []
  | .var _ => []
  | .op es => localsEs es
  | .ite c t f => localsE c ++ localsE t ++ localsE f
  | .block ss => localsSs ss
  | .matchE s arms => localsE s ++ localsArms arms
  | .lam _ _ => []
  | .task _ => []
def localsS : RStmt → List Nat
  | .let_ bs e => bs ++ localsE e
  | .assignVar _ e => localsE e
  | .assignPlace ts t e => ts ++ localsE t ++ localsE e   -- `StmtKind::Assign(lhs, op, expr)`: both sides + temporaries
  | .expr e => localsE e
  | .while_ c body => localsE c ++ localsSs body
  | .for_ bs it body => bs ++ localsE it ++ localsSs body
  | .break_ => []
  | .continue_ => []
  | .ret e => localsE e
def localsSs : RStmts → List Nat
  | .nil => []
  | .cons s r => localsS s ++ localsSs r
def localsEs : RExprs → List Nat
  | .nil => []
  | .cons e r => localsE e ++ localsEs r
def localsArms : RArms → List Nat
  | .nil => []
  | .cons bs body r => bs ++ localsE body ++ localsArms r
end

/- `collect_captures_expr` / `_stmts`: the variables read in this function, a nested lambda / task
   standing for what it captures (`calculate_args_captures_locals` of the nested function) -/
mutual
def usesE : RExpr → List Nat
  | .lit => []
  | .var id => [id]
  | .op es => usesEs es
  | .ite c t f => usesE c ++ usesE t ++ usesE f
  | .block ss => usesSs ss
  | .matchE s arms => usesE s ++ usesArms arms
  | .lam ps body => (usesE body).filter fun i => !(localsE body).contains i && !ps.contains i
  | .task body => (usesE body).filter fun i => !(localsE body).contains i
def usesS : RStmt → List Nat
  | .let_ _ e => usesE e
  | .assignVar _ e => usesE e                  -- the assigned variable itself is not collected (the checker
                                               -- rejects assignment to a captured variable: `checkerAssign*`)
  | .assignPlace _ t e => usesE t ++ usesE e
  | .expr e => usesE e
  | .while_ c body => usesE c ++ usesSs body
  | .for_ _ it body => usesE it ++ usesSs body
  | .break_ => []
  | .continue_ => []
  | .ret e => usesE e
def usesSs : RStmts → List Nat
  | .nil => []
  | .cons s r => usesS s ++ usesSs r
def usesEs : RExprs → List Nat
  | .nil => []
  | .cons e r => usesE e ++ usesEs r
def usesArms : RArms → List Nat
  | .nil => []
  | .cons _ body r => usesE body ++ usesArms r
end

/-- `calculate_args_captures_locals`: captures = uses − (locals ∪ args) -/
def capturesOf (params : List Nat) (body : RExpr) : List Nat :=
  (usesE body).filter fun i => !(localsE body).contains i && !params.contains i

/-- `translate_func_body_helper`: args at −1, −2, … (reverse order), captures at 0…k−1, locals after them
    (`entry(..).or_insert`: the first entry for a key wins) -/
def offsetTable (params : List Nat) (body : RExpr) : List (Nat × Int) :=
  let caps := capturesOf params body
  let locs := localsE body
  (params.reverse.zipIdx.map fun (p, i) => (p, -(i : Int) - 1))
    ++ (caps.zipIdx.map fun (c, i) => (c, (i : Int)))
    ++ (locs.zipIdx.map fun (l, i) => (l, ((i + caps.length : Nat) : Int)))

def tableKeys (params : List Nat) (body : RExpr) : List Nat := (offsetTable params body).map (·.1)

/- the keys `translate_expr` / `translate_stmt` / `handle_pat_binding` look up in the offset table of the
   function they are translating: variable reads, assigned variables, pattern binders, and the captures
   loaded when a nested lambda / task is created -/
mutual
def lookupsE : RExpr → List Nat
  | .lit => []
  | .var id => [id]
  | .op es => lookupsEs es
  | .ite c t f => lookupsE c ++ lookupsE t ++ lookupsE f
  | .block ss => lookupsSs ss
  | .matchE s arms => lookupsE s ++ lookupsArms arms
  | .lam ps body => capturesOf ps body          -- `LoadOffset` of every capture, then `MakeClosure`
  | .task body => capturesOf [] body
def lookupsS : RStmt → List Nat
  | .let_ bs e => lookupsE e ++ bs
  | .assignVar id e => id :: lookupsE e
  | .assignPlace ts t e => ts ++ lookupsE e ++ lookupsE t
  | .expr e => lookupsE e
  | .while_ c body => lookupsE c ++ lookupsSs body
  | .for_ bs it body => lookupsE it ++ bs ++ lookupsSs body
  | .break_ => []
  | .continue_ => []
  | .ret e => lookupsE e
def lookupsSs : RStmts → List Nat
  | .nil => []
  | .cons s r => lookupsS s ++ lookupsSs r
def lookupsEs : RExprs → List Nat
  | .nil => []
  | .cons e r => lookupsE e ++ lookupsEs r
def lookupsArms : RArms → List Nat
  | .nil => []
  | .cons bs body r => bs ++ lookupsE body ++ lookupsArms r
end

/- variables assigned by `x = e` in this function body (not inside nested functions) -/
mutual
def assignedE : RExpr → List Nat
  | .lit => []
  | .var _ => []
  | .op es => assignedEs es
  | .ite c t f => assignedE c ++ assignedE t ++ assignedE f
  | .block ss => assignedSs ss
  | .matchE s arms => assignedE s ++ assignedArms arms
  | .lam _ _ => []
  | .task _ => []
def assignedS : RStmt → List Nat
  | .let_ _ e => assignedE e
  | .assignVar id e => id :: assignedE e
  | .assignPlace _ t e => assignedE t ++ assignedE e
  | .expr e => assignedE e
  | .while_ c body => assignedE c ++ assignedSs body
  | .for_ _ it body => assignedE it ++ assignedSs body
  | .break_ => []
  | .continue_ => []
  | .ret e => assignedE e
def assignedSs : RStmts → List Nat
  | .nil => []
  | .cons s r => assignedS s ++ assignedSs r
def assignedEs : RExprs → List Nat
  | .nil => []
  | .cons e r => assignedE e ++ assignedEs r
def assignedArms : RArms → List Nat
  | .nil => []
  | .cons _ body r => assignedE body ++ assignedArms r
end

/- loop contexts.  Checker (typecheck.rs): `loop_stack` gets `Some(loop)` at `while`/`for` and `None` at a
   function, lambda or task body; `break`/`continue` need `Some` on top.  Code generator: the body of a lambda
   or task is translated later, with an empty `loop_stack`; `break`/`continue` unwrap `loop_stack.last()`. -/
mutual
def checkerLoopsE (inLoop : Bool) : RExpr → Bool
  | .lit => true
  | .var _ => true
  | .op es => checkerLoopsEs inLoop es
  | .ite c t f => checkerLoopsE inLoop c && checkerLoopsE inLoop t && checkerLoopsE inLoop f
  | .block ss => checkerLoopsSs inLoop ss
  | .matchE s arms => checkerLoopsE inLoop s && checkerLoopsArms inLoop arms
  | .lam _ body => checkerLoopsE false body
  | .task body => checkerLoopsE false body
def checkerLoopsS (inLoop : Bool) : RStmt → Bool
  | .let_ _ e => checkerLoopsE inLoop e
  | .assignVar _ e => checkerLoopsE inLoop e
  | .assignPlace _ t e => checkerLoopsE inLoop t && checkerLoopsE inLoop e
  | .expr e => checkerLoopsE inLoop e
  | .while_ c body => checkerLoopsE inLoop c && checkerLoopsSs true body
  | .for_ _ it body => checkerLoopsE inLoop it && checkerLoopsSs true body
  | .break_ => inLoop
  | .continue_ => inLoop
  | .ret e => checkerLoopsE inLoop e
def checkerLoopsSs (inLoop : Bool) : RStmts → Bool
  | .nil => true
  | .cons s r => checkerLoopsS inLoop s && checkerLoopsSs inLoop r
def checkerLoopsEs (inLoop : Bool) : RExprs → Bool
  | .nil => true
  | .cons e r => checkerLoopsE inLoop e && checkerLoopsEs inLoop r
def checkerLoopsArms (inLoop : Bool) : RArms → Bool
  | .nil => true
  | .cons _ body r => checkerLoopsE inLoop body && checkerLoopsArms inLoop r
end

/- checker (typecheck.rs, fdfd074): inside a lambda or task, `x = e` / `x op= e` is rejected ("Can't modify captured
   variable") unless `x` is bound inside the innermost enclosing lambda/task, i.e. is one of its parameters or locals.
   `own = none`: not inside a lambda or task (a named function or `<main>`: no restriction). -/
mutual
def checkerAssignE (own : Option (List Nat)) : RExpr → Bool
  | .lit => true
  | .var _ => true
  | .op es => checkerAssignEs own es
  | .ite c t f => checkerAssignE own c && checkerAssignE own t && checkerAssignE own f
  | .block ss => checkerAssignSs own ss
  | .matchE s arms => checkerAssignE own s && checkerAssignArms own arms
  | .lam ps body => checkerAssignE (some (ps ++ localsE body)) body
  | .task body => checkerAssignE (some (localsE body)) body
def checkerAssignS (own : Option (List Nat)) : RStmt → Bool
  | .let_ _ e => checkerAssignE own e
  | .assignVar id e => (match own with | none => true | some o => o.contains id) && checkerAssignE own e
  | .assignPlace _ t e => checkerAssignE own t && checkerAssignE own e
  | .expr e => checkerAssignE own e
  | .while_ c body => checkerAssignE own c && checkerAssignSs own body
  | .for_ _ it body => checkerAssignE own it && checkerAssignSs own body
  | .break_ => true
  | .continue_ => true
  | .ret e => checkerAssignE own e
def checkerAssignSs (own : Option (List Nat)) : RStmts → Bool
  | .nil => true
  | .cons s r => checkerAssignS own s && checkerAssignSs own r
def checkerAssignEs (own : Option (List Nat)) : RExprs → Bool
  | .nil => true
  | .cons e r => checkerAssignE own e && checkerAssignEs own r
def checkerAssignArms (own : Option (List Nat)) : RArms → Bool
  | .nil => true
  | .cons _ body r => checkerAssignE own body && checkerAssignArms own r
end

/- the code generator does not panic on `loop_stack.last().unwrap()`: `depth` = length of its loop stack.
   The condition of a `while` is translated before the loop is pushed. -/
mutual
def codegenLoopsE (depth : Nat) : RExpr → Bool
  | .lit => true
  | .var _ => true
  | .op es => codegenLoopsEs depth es
  | .ite c t f => codegenLoopsE depth c && codegenLoopsE depth t && codegenLoopsE depth f
  | .block ss => codegenLoopsSs depth ss
  | .matchE s arms => codegenLoopsE depth s && codegenLoopsArms depth arms
  | .lam _ body => codegenLoopsE 0 body
  | .task body => codegenLoopsE 0 body
def codegenLoopsS (depth : Nat) : RStmt → Bool
  | .let_ _ e => codegenLoopsE depth e
  | .assignVar _ e => codegenLoopsE depth e
  | .assignPlace _ t e => codegenLoopsE depth t && codegenLoopsE depth e
  | .expr e => codegenLoopsE depth e
  | .while_ c body => codegenLoopsE depth c && codegenLoopsSs (depth + 1) body
  | .for_ _ it body => codegenLoopsE depth it && codegenLoopsSs (depth + 1) body
  | .break_ => decide (0 < depth)
  | .continue_ => decide (0 < depth)
  | .ret e => codegenLoopsE depth e
def codegenLoopsSs (depth : Nat) : RStmts → Bool
  | .nil => true
  | .cons s r => codegenLoopsS depth s && codegenLoopsSs depth r
def codegenLoopsEs (depth : Nat) : RExprs → Bool
  | .nil => true
  | .cons e r => codegenLoopsE depth e && codegenLoopsEs depth r
def codegenLoopsArms (depth : Nat) : RArms → Bool
  | .nil => true
  | .cons _ body r => codegenLoopsE depth body && codegenLoopsArms depth r
end

/- every lambda / task of a function body, outermost first: (number of captures, number of locals) -/
mutual
def closuresE : RExpr → List (Nat × Nat)
  | .lit => []
  | .var _ => []
  | .op es => closuresEs es
  | .ite c t f => closuresE c ++ closuresE t ++ closuresE f
  | .block ss => closuresSs ss
  | .matchE s arms => closuresE s ++ closuresArms arms
  | .lam ps body => ((capturesOf ps body).eraseDups.length, (localsE body).eraseDups.length) :: closuresE body
  | .task body => ((capturesOf [] body).eraseDups.length, (localsE body).eraseDups.length) :: closuresE body
def closuresS : RStmt → List (Nat × Nat)
  | .let_ _ e => closuresE e
  | .assignVar _ e => closuresE e
  | .assignPlace _ t e => closuresE t ++ closuresE e
  | .expr e => closuresE e
  | .while_ c body => closuresE c ++ closuresSs body
  | .for_ _ it body => closuresE it ++ closuresSs body
  | .break_ => []
  | .continue_ => []
  | .ret e => closuresE e
def closuresSs : RStmts → List (Nat × Nat)
  | .nil => []
  | .cons s r => closuresS s ++ closuresSs r
def closuresEs : RExprs → List (Nat × Nat)
  | .nil => []
  | .cons e r => closuresE e ++ closuresEs r
def closuresArms : RArms → List (Nat × Nat)
  | .nil => []
  | .cons _ body r => closuresE body ++ closuresArms r
end

end Abra.Analysis
