/-
M10 `Pratt` — token-level model of the expression parser in `/repo/abra_core/src/parse.rs`
(`parse_expr`, `parse_expr_bp`, `parse_prefix_op`, `parse_postfix_op`, `handle_postfix_expr`,
`parse_binop`, `parse_expr_term`, `parse_delimited_list`, `parse_func_call_args`), import-free.

The model works on an abstract token alphabet (`Tok`): atoms (identifier / literal tokens), the
binary-operator tokens (`op .sub` is the `-` token, which is also the prefix minus), `not`, the
bracket tokens, `.`, `!`, `?`, `,`, newline, and `other` for every token that cannot continue an
expression.  Loops take fuel; `fuelFor` is proved sufficient in `AbraProofs/Lemmas/Pratt.lean`.

Not modelled (the harness never produces these shapes; recorded in props/C31.py): lambda
speculation (`x -> e`, needs a `->` token), named call arguments (`f(x = e)`, needs `=`),
`match`/`if`/block/`task` terms and the leading-dot form `.variant`; all of them start with or
need a token that is `other` here, so the model answers `err` where the code would go on.
-/
namespace Abra.Pratt

inductive BinOp
  | and | or | eq | ne | fmt | lt | le | gt | ge | add | sub | mul | div | mod | pow
  deriving DecidableEq, Repr, Inhabited

/-- `BinaryOperator::precedence` (parse.rs) -/
def BinOp.prec : BinOp → Nat
  | .and | .or => 1
  | .eq | .ne => 2
  | .fmt => 3
  | .lt | .le | .gt | .ge => 5
  | .add | .sub => 6
  | .mul | .div => 7
  | .mod => 8
  | .pow => 9

inductive PrefixOp
  | neg | not
  deriving DecidableEq, Repr

/-- `PrefixOp::precedence` -/
def PrefixOp.prec : PrefixOp → Nat
  | .neg => 6
  | .not => 10

/-- `PostfixOp::precedence` -/
def precMember : Nat := 11
def precIndex : Nat := 12
def precCall : Nat := 13
def precUnwrap : Nat := 14
def precTry : Nat := 15

inductive Atom
  | ident (s : String)
  | int (n : Nat)        -- IntLit: the digits as a number (no sign; `_` already dropped)
  | float (s : String)   -- FloatLit: the spelling
  | str (s : String)
  | bool (b : Bool)
  | nil
  deriving DecidableEq, Repr, Inhabited

def Atom.isNum : Atom → Bool
  | .int _ | .float _ => true
  | _ => false

inductive Tok
  | atom (a : Atom)
  | op (o : BinOp)
  | not
  | lparen | rparen | lbrack | rbrack
  | dot | bang | question | comma
  | nl
  | other
  deriving DecidableEq, Repr, Inhabited

mutual
inductive Expr
  | atom (a : Atom)
  | neg (e : Expr)
  | not (e : Expr)
  | bin (o : BinOp) (l r : Expr)
  | member (e : Expr) (name : String)
  | index (e i : Expr)
  | unwrap (e : Expr)
  | try_ (e : Expr)
  | call (f : Expr) (args : Args)
  | tuple (es : Args)
  | array (es : Args)
inductive Args
  | nil
  | cons (e : Expr) (es : Args)
end

instance : Inhabited Expr := ⟨.atom .nil⟩

def Expr.unop : PrefixOp → Expr → Expr
  | .neg, e => .neg e
  | .not, e => .not e

/-- outcome of a parser function: a value and the remaining tokens, a diagnostic, or out of fuel -/
inductive Res (α : Type)
  | ok (v : α) (rest : List Tok)
  | err
  | fuel

def I64_MAX : Nat := 9223372036854775807

/-- `skip_newlines` -/
def skipNl : List Tok → List Tok
  | .nl :: r => skipNl r
  | ts => ts

/-- How `-` directly followed by a numeric literal is treated by `parse_prefix_op`:
    `never`  — an ordinary prefix minus, whatever follows (the reference behaviour of the table);
    `always` — never a prefix operator: `parse_expr_term` folds the sign into the literal before any
               binary operator is looked at (the code before the fix of D11: `-2 % 3` = `(-2) % 3`);
    `loose`  — the code today: folded into the literal (so that `-9223372036854775808` can be
               written) unless the token after the literal is a postfix operator or a binary operator
               binding tighter than unary minus, in which case it is an ordinary prefix minus. -/
inductive FoldMode | never | always | loose
  deriving DecidableEq, Repr

/-- `postfix_op_of_tag(t).is_some() || binop_of_tag(t).is_some_and(|op| op.precedence() > 6)` -/
def bindsTighter : List Tok → Bool
  | .lparen :: _ | .dot :: _ | .lbrack :: _ | .bang :: _ | .question :: _ => true
  | .op o :: _ => decide (PrefixOp.neg.prec < o.prec)
  | _ => false

/-- is the `-` in front of the numeric literal left to `parse_expr_term`? -/
def foldsHere (mode : FoldMode) (afterLiteral : List Tok) : Bool :=
  match mode with
  | .never => false
  | .always => true
  | .loose => !bindsTighter afterLiteral

/-- `parse_prefix_op` -/
def prefixOp? (mode : FoldMode) : List Tok → Option (PrefixOp × List Tok)
  | .op .sub :: .atom a :: rest =>
    if a.isNum && foldsHere mode rest then none else some (.neg, .atom a :: rest)
  | .op .sub :: rest => some (.neg, rest)
  | .not :: rest => some (.not, rest)
  | _ => none

mutual
/-- `parse_expr_bp(binding_power)` -/
def parseBp (fold : FoldMode) : Nat → Nat → List Tok → Res Expr
  | 0, _, _ => .fuel
  | f + 1, bp, toks =>
    -- an operand may start on a continuation line: newlines are skipped before the prefix-operator
    -- test (fix 7fe8312); never in front of a binary or postfix operator (see `loop`)
    match prefixOp? fold (skipNl toks) with
    | some (op, rest) =>
      match parseBp fold f op.prec rest with
      | .ok rhs r => loop fold f bp (Expr.unop op rhs) r
      | .err => .err
      | .fuel => .fuel
    | none =>
      match parseTerm fold f (skipNl toks) with
      | .ok lhs r => loop fold f bp lhs r
      | .err => .err
      | .fuel => .fuel

/-- the `loop` of `parse_expr_bp`: postfix operators, then binary operators -/
def loop (fold : FoldMode) : Nat → Nat → Expr → List Tok → Res Expr
  | 0, _, _, _ => .fuel
  | f + 1, bp, lhs, toks =>
    match toks with
    | .lparen :: rest =>
      if precCall ≤ bp then .ok lhs toks else
      match parseList fold f .rparen rest with
      | .ok args r => loop fold f bp (.call lhs args) r
      | .err => .err
      | .fuel => .fuel
    | .dot :: rest =>
      if precMember ≤ bp then .ok lhs toks else
      match rest with
      | .atom (.ident s) :: r => loop fold f bp (.member lhs s) r
      | _ => .err
    | .lbrack :: rest =>
      if precIndex ≤ bp then .ok lhs toks else
      match parseBp fold f 0 (skipNl rest) with
      | .ok i r =>
        match skipNl r with
        | .rbrack :: r' => loop fold f bp (.index lhs i) r'
        | _ => .err
      | .err => .err
      | .fuel => .fuel
    | .bang :: rest =>
      if precUnwrap ≤ bp then .ok lhs toks else loop fold f bp (.unwrap lhs) rest
    | .question :: rest =>
      if precTry ≤ bp then .ok lhs toks else loop fold f bp (.try_ lhs) rest
    | .op o :: rest =>
      if o.prec ≤ bp then .ok lhs toks else
      match parseBp fold f o.prec rest with
      | .ok rhs r => loop fold f bp (.bin o lhs rhs) r
      | .err => .err
      | .fuel => .fuel
    | _ => .ok lhs toks

/-- `parse_expr_term` (the modelled arms) -/
def parseTerm (fold : FoldMode) : Nat → List Tok → Res Expr
  | 0, _ => .fuel
  | f + 1, toks =>
    match skipNl toks with
    | .atom (.int n) :: rest => if n ≤ I64_MAX then .ok (.atom (.int n)) rest else .err
    | .atom a :: rest => .ok (.atom a) rest
    | .op .sub :: .atom (.int n) :: rest =>
      -- ("-" + s).parse::<i64>()
      if n ≤ I64_MAX + 1 then .ok (.neg (.atom (.int n))) rest else .err
    | .op .sub :: .atom (.float s) :: rest => .ok (.neg (.atom (.float s))) rest
    | .lparen :: rest =>
      match parseList fold f .rparen rest with
      | .ok .nil _ => .err                       -- EmptyParentheses
      | .ok (.cons e .nil) r => .ok e r          -- parenthesised expression
      | .ok es r => .ok (.tuple es) r
      | .err => .err
      | .fuel => .fuel
    | .lbrack :: rest =>
      match parseList fold f .rbrack rest with
      | .ok es r => .ok (.array es) r
      | .err => .err
      | .fuel => .fuel
    | _ => .err

/-- `parse_delimited_list(closing, Comma, parse_expr)` after the opening token, including the final
    `expect_token(closing)`; a missing closing token is the (first) diagnostic -/
def parseList (fold : FoldMode) : Nat → Tok → List Tok → Res Args
  | 0, _, _ => .fuel
  | f + 1, close, toks =>
    match skipNl toks with
    | [] => .err
    | t :: rest =>
      if t = close then .ok .nil rest else
      match parseBp fold f 0 (t :: rest) with
      | .ok e r =>
        match r with
        | .comma :: r' | .nl :: r' =>
          match parseList fold f close r' with
          | .ok es r'' => .ok (.cons e es) r''
          | .err => .err
          | .fuel => .fuel
        | t' :: r' => if t' = close then .ok (.cons e .nil) r' else .err
        | [] => .err
      | .err => .err
      | .fuel => .fuel
end

/-- fuel that always suffices (proved: `Abra.Pratt.fuel_suffices`) -/
def fuelFor (toks : List Tok) : Nat := 3 * toks.length + 3

/-- Which behaviour `/repo` has today for `-` directly followed by a numeric literal. -/
def codeFoldMode : FoldMode := .loose

/-- `Parser::parse_expr` on a whole token list (the `Eof` token is the end of the list) -/
def parseExprWith (fold : FoldMode) (toks : List Tok) : Res Expr :=
  parseBp fold (fuelFor toks) 0 (skipNl toks)

def parseExpr (toks : List Tok) : Res Expr := parseExprWith codeFoldMode toks

-- ---------------------------------------------------------------- rendering (same shape as the hook)
def BinOp.name : BinOp → String
  | .and => "and" | .or => "or" | .eq => "eq" | .ne => "ne" | .fmt => "fmt"
  | .lt => "lt" | .le => "le" | .gt => "gt" | .ge => "ge"
  | .add => "add" | .sub => "sub" | .mul => "mul" | .div => "div" | .mod => "mod" | .pow => "pow"

def Atom.render : Atom → String
  | .ident s => s
  | .int n => toString n
  | .float s => "f:" ++ s
  | .str s => "s:" ++ s
  | .bool b => if b then "true" else "false"
  | .nil => "nil"

mutual
def Expr.render : Expr → String
  | .atom a => a.render
  | .neg (.atom (.int 0)) => "0"   -- `-0` is the literal 0 in the real AST (the hook cannot tell them apart)
  | .neg e => "(neg " ++ e.render ++ ")"
  | .not e => "(not " ++ e.render ++ ")"
  | .bin o l r => "(" ++ o.name ++ " " ++ l.render ++ " " ++ r.render ++ ")"
  | .member e s => "(member " ++ e.render ++ " " ++ s ++ ")"
  | .index e i => "(index " ++ e.render ++ " " ++ i.render ++ ")"
  | .unwrap e => "(unwrap " ++ e.render ++ ")"
  | .try_ e => "(try " ++ e.render ++ ")"
  | .call f as => "(call " ++ f.render ++ as.render ++ ")"
  | .tuple as => "(tuple" ++ as.render ++ ")"
  | .array as => "(array" ++ as.render ++ ")"
def Args.render : Args → String
  | .nil => ""
  | .cons e es => " " ++ e.render ++ es.render
end

end Abra.Pratt
