/-
M10 `TopLevel` — model of the item loop of `parse_file` (`/repo/abra_core/src/parse.rs`) at the
level of separators: `Parser::done()` skips newlines and tests for end of input; otherwise an item
is parsed (`parse_item` skips leading newlines itself) and, directly behind it, one optional `;` is
consumed.  An item is abstracted to one token.  Import-free.
-/
namespace Abra.TopLevel

inductive TTok | item | semi | nl
  deriving DecidableEq, Repr

/-- does `parse_file` accept the file (no diagnostic from the separator handling)? -/
def accepted : List TTok → Bool
  | [] => true                           -- done(): end of input
  | .nl :: r => accepted r               -- skip_newlines
  | .item :: .semi :: r => accepted r    -- item, then the optional `;`
  | .item :: r => accepted r
  | .semi :: _ => false                  -- a `;` where an item must start: "expected expression"

end Abra.TopLevel
