/-
M5p — the byte arithmetic that paces the collector of one green thread (vm.rs: `maybe_gc`,
`process_gray(&mut slice)`, `sweep(slice)`, the counters `heap_size`, `last_gc_heap_size`, `gc_debt`,
constants `GC_PAUSE_FACTOR = 2`, `GC_STEP_FACTOR = 2`).

The object graph is the abstract heap of M5 (`Abra.GC.St`); on top of it every address has a size
(`nbytes` of the object: it changes when an array grows) and the thread has three counters.  One call of
`maybe_gc` is the function `maybeGc`:
  * Idle:      `if heap_size > last_gc_heap_size * 2 { mark_roots(); state = Marking }`
  * Marking:   `slice = 2 * gc_debt`; `process_gray` pops gray objects while `slice > 0`, each pop subtracts
               the object's size (saturating) and marks its children; after the loop, if the gray stack is
               empty the roots are rescanned and only if that finds nothing the state becomes `Sweeping{0}`
               (`GC.finishMark`)
  * Sweeping:  `slice = 2 * gc_debt`; `sweep` walks the heap list while `work_done < slice`, adding each object's
               size to `work_done`, freeing the unmarked ones (`heap_size -= nbytes`); when the index has
               reached the end: `state = Idle; last_gc_heap_size = heap_size`
`gc_debt` is increased by every allocation and array growth and never decreased (the code as it is).
The loop bodies are the one-object transitions of M5 (`blacken` is the pop of `gcMarkStep`, `sweepOne`),
so everything proved about which objects survive applies.

`leak` (a parameter of a marking increment) is the part of the slice consumed by gray-stack entries that are
not objects of the collected heap: the write barrier can push a static string (it does not test `no_gc`),
`process_gray` pops it and subtracts its size.  Static strings are outside the abstract heap, so that charge is
an input; it is 0 unless such an entry is on the gray stack.  (Deducting it up front is exact unless the
slice is exhausted by such an entry.)  usize arithmetic is modelled in `Nat` (no overflow below 2^63 bytes);
`saturating_sub` is `Nat` subtraction.  Imports only `AbraModel.GC`.
-/
import AbraModel.GC
namespace Abra.GCP
open Abra.GC

def pauseFactor : Nat := 2
def stepFactor : Nat := 2

structure PSt where
  /-- what the collector sees (M5) -/
  g : St
  /-- `nbytes` of the object at an address (meaningful on allocated addresses) -/
  size : Nat → Nat
  /-- `heap_size` -/
  heapBytes : Nat
  /-- `last_gc_heap_size` -/
  lastGc : Nat
  /-- `gc_debt` -/
  debt : Nat

def sumSize (size : Nat → Nat) : List Nat → Nat
  | [] => 0
  | a :: l => size a + sumSize size l

/-- a fresh green thread -/
def pinit : PSt :=
  { g := { obj := fun _ => ⟨[], false⟩, done := [], todo := [], roots := [], gray := [], phase := .idle },
    size := fun _ => 0, heapBytes := 0, lastGc := 0, debt := 0 }

/-- body of one iteration of the `process_gray` loop: pop the top gray object, blacken it, mark its
    children (`GC.gcMarkStep` is this followed by the end-of-call test `GC.finishMark`) -/
def blacken (σ : St) : St :=
  match σ.gray with
  | [] => σ
  | a :: g => markAll { σ with gray := g, obj := setMarked σ.obj a true } (σ.children a)

/-- the `while *batch > 0 && let Some(h) = gray_stack.pop()` loop (fuel: an upper bound of the number of
    pops, every pop blackens a different object or removes a gray entry) -/
def markLoop (size : Nat → Nat) : Nat → Nat → St → St
  | 0, _, σ => σ
  | fuel + 1, batch, σ =>
    if batch = 0 then σ else
    match σ.gray with
    | [] => σ
    | a :: _ => markLoop size fuel (batch - size a) (blacken σ)

def markFuel (σ : St) : Nat := σ.gray.length + σ.heap.length

/-- `maybe_gc` in state Marking -/
def markIncr (p : PSt) (leak : Nat) : PSt :=
  { p with g := finishMark (markLoop p.size (markFuel p.g) (stepFactor * p.debt - leak) p.g) }

/-- the `while work_done < batch && *index < heap_list.len()` loop of `sweep` -/
def sweepLoop : Nat → Nat → Nat → PSt → PSt
  | 0, _, _, p => p
  | fuel + 1, work, batch, p =>
    if work < batch then
      match p.g.todo with
      | [] => p
      | a :: _ =>
        sweepLoop fuel (work + p.size a) batch
          { p with g := sweepOne p.g,
                   heapBytes := if p.g.marked a then p.heapBytes else p.heapBytes - p.size a }
    else p

/-- `maybe_gc` in state Sweeping -/
def sweepIncr (p : PSt) : PSt :=
  let p1 := sweepLoop p.g.todo.length 0 (stepFactor * p.debt) p
  match p1.g.todo with
  | [] => { p1 with g := sweepTail p1.g, lastGc := p1.heapBytes }
  | _ :: _ => p1

/-- one call of `maybe_gc` (it runs once before every VM instruction) -/
def maybeGc (p : PSt) (leak : Nat) : PSt :=
  match p.g.phase with
  | .idle => if p.heapBytes > p.lastGc * pauseFactor then { p with g := gcStart p.g } else p
  | .marking => markIncr p leak
  | .sweeping => sweepIncr p

/-! ### the byte side of the mutator contract, executable -/

def nodupB : List Nat → Bool
  | [] => true
  | a :: l => !l.contains a && nodupB l

/-- the accounting facts about one state: `heap_size` is the sum of the sizes of the heap list, the debt
    covers it, and a running cycle has a positive debt -/
def acctB (p : PSt) : Bool :=
  p.heapBytes == sumSize p.size p.g.heap && decide (p.heapBytes ≤ p.debt) &&
  (p.g.phase == .idle || decide (0 < p.debt)) && nodupB p.g.gray

/-- `p'` may follow `p` by one VM instruction as far as bytes are concerned: no object shrinks, the heap
    size is again the sum of the sizes (so it grew by the new objects and the growth of old ones), the debt
    grew by exactly as much, `last_gc_heap_size` is untouched, the gray stack has no duplicates. -/
def mutBytesOKb (p p' : PSt) : Bool :=
  p.g.heap.all (fun a => decide (p.size a ≤ p'.size a)) &&
  p'.heapBytes == sumSize p'.size p'.g.heap &&
  p'.debt == p.debt + (p'.heapBytes - p.heapBytes) &&
  p'.lastGc == p.lastGc &&
  nodupB p'.g.gray

/-- the whole contract of one VM instruction on a pacing state -/
def pmutatorOKb (p p' : PSt) (fuel : Nat) : Bool :=
  mutatorOKb p.g p'.g fuel && mutBytesOKb p p'

/-- the explicit heap bound: `R` bounds the bytes of the reachable objects whenever a cycle starts, `A` the bytes
    allocated between two calls of `maybe_gc`, and the third parameter bounds the number of calls of a cycle
    beyond three: the number `N` of reachable objects (always sound), or the number `M` of marking increments per
    cycle that end with an unmarked root on the stack -/
def boundB (R A N : Nat) : Nat := 2 * R + (3 * N + 9) * A

end Abra.GCP
