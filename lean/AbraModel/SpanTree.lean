/- M12b `SpanTree`: the two offset searches of `abra_core/src/lsp_helper.rs`
   (`find_identifier_at_offset` for go-to-definition, `find_innermost_node_at_offset` for hover).

   The parsed file arrives as a generic tree `Ast` (one node per AST value: kind name, `loc`, node id,
   children in field-declaration order — a structural rendering of the derived `Debug` text, made by the
   harness without knowledge of the searches).  `identPlan` / `innerPlan` say, kind by kind, which
   children each search visits, in which order, behind which span test — this is where the walk order of
   the code lives.  The result is a small search tree (`STree` / `ITree`) on which the generic searches
   `search` / `searchI` run; the theorems are about these.

   Spans are half-open: `Location::contains_offset` is `lo <= offset && offset < hi`.
   `ExprKind::TaskBlock` is modelled as repaired by D45 (descend into the body; the unchanged code has
   `unimplemented!()` there). -/
namespace Abra.SpanTree

/-- generic rendering of an AST value -/
inductive Ast where
  | node (kind : String) (lo hi id : Nat) (kids : List Ast)
  deriving Repr, Inhabited

abbrev Span := Option (Nat × Nat)

/-- `loc.contains_offset(offset)`; `none` = no test at this level -/
def inSpan : Span → Nat → Bool
  | none, _ => true
  | some (lo, hi), off => decide (lo ≤ off) && decide (off < hi)

/-! ### identifier search (`find_ident_in_*`) -/

/-- Search tree of the identifier search.
    `ident lo hi id`: `if <loc>.contains_offset(offset) { return Some(<identifier id>) }`.
    `node span cut kids`: `if !loc.contains_offset(offset) { return None }` (when `span` is given), then the
    kids in order, first `Some` wins.  `cut`: when this node's span contains the offset its answer is final
    for the enclosing loop (`return find_…` inside `for arm in arms { if arm.loc.contains_offset(offset) {…} }`). -/
inductive STree where
  | ident (lo hi id : Nat)
  | node (span : Span) (cut : Bool) (kids : List STree)
  deriving Repr, Inhabited

def STree.cuts : STree → Nat → Bool
  | .node (some s) true _, off => inSpan (some s) off
  | _, _ => false

mutual
def search (off : Nat) : STree → Option Nat
  | .ident lo hi id => if inSpan (some (lo, hi)) off then some id else none
  | .node span _ kids => if inSpan span off then searchKids off kids else none
def searchKids (off : Nat) : List STree → Option Nat
  | [] => none
  | k :: ks =>
    match search off k with
    | some r => some r
    | none => if k.cuts off then none else searchKids off ks
end

/-! ### innermost-node search (`find_in_*`) -/

/-- Search tree of the innermost-node search.
    `leaf lo hi id`: `if <loc>.contains_offset(offset) { return Some(<node id>) }`.
    `node span self kids`: span test (when given), kids in order, first `Some` wins, otherwise `self`
    (`.or(Some(expr.node()))`) when the node answers for itself. -/
inductive ITree where
  | leaf (lo hi id : Nat)
  | node (span : Span) (self : Option Nat) (kids : List ITree)
  deriving Repr, Inhabited

mutual
def searchI (off : Nat) : ITree → Option Nat
  | .leaf lo hi id => if inSpan (some (lo, hi)) off then some id else none
  | .node span self kids =>
    if inSpan span off then
      match searchKidsI off kids with
      | some r => some r
      | none => self
    else none
def searchKidsI (off : Nat) : List ITree → Option Nat
  | [] => none
  | k :: ks =>
    match searchI off k with
    | some r => some r
    | none => searchKidsI off ks
end

/-! ### the walk order of `find_ident_in_*`, kind by kind -/

def grp (l : List STree) : STree := .node none false l

def Ast.kind : Ast → String
  | .node k _ _ _ _ => k

/-- first / second component of each planned pair `(a, b)` -/
def firsts : List STree → List STree
  | [] => []
  | .node _ _ (a :: _) :: r => a :: firsts r
  | _ :: r => firsts r
def seconds : List STree → List STree
  | [] => []
  | .node _ _ (_ :: b :: _) :: r => b :: seconds r
  | _ :: r => seconds r

/-- `kids`: the raw children; `ps`: their plans, same order.  `none` = a shape the model does not know. -/
def identCombine (kind : String) (lo hi id : Nat) (kids : List Ast) (ps : List STree) : Option STree :=
  let g : List STree → Option STree := fun l => some (.node (some (lo, hi)) false l)
  match kind, ps with
  -- wrappers: a loop over the elements / an `if let Some(..)` / a tuple visited left to right
  | "List", ps => some (grp ps)
  | "Tuple", ps => some (grp ps)
  | "Some", [p] => some (grp [p])
  | "A", [] => some (grp [])
  | "Identifier", _ => some (.ident lo hi id)
  -- find_identifier_at_offset: for item in items { if !item.loc.contains_offset(offset) { continue } find_ident_in_item }
  | "FileAst", [items, _, _, _] => some (grp [items])
  -- find_ident_in_item
  | "Item.FuncDef", [fd] => g [fd]
  | "Item.FuncDecl", [.node _ _ [_, args, ret]] => g [args, ret]
  | "Item.Stmt", [s] => g [s]
  | "Item.InterfaceImpl", [x] => g [x]
  | "Item.Extension", [x] => g [x]
  | "Item.Import", [name, _] => g [name]
  | "Item.TypeDef", [x] => g [x]
  | "Item.InterfaceDef", [x] => g [x]
  -- signature (args: name, type, default; then the return type), then the body; the name is not tested
  | "FuncDef", [_, args, ret, body, _] => some (grp [args, ret, body])
  | "FuncDecl", [name, args, ret, _] => some (grp [name, args, ret])
  | "ArgMaybeAnnotated", [name, ty, dflt] => some (grp [name, ty, dflt])
  | "InterfaceImpl", [iface, typ, methods] => some (grp [iface, typ, methods])
  | "Extension", [typ, methods] => some (grp [typ, methods])
  | "Enum", [x] => some (grp [x])
  | "Struct", [x] => some (grp [x])
  | "EnumDef", [name, tyArgs, variants, _] => some (grp [name, tyArgs, variants])
  | "StructDef", [name, tyArgs, fields, _] => some (grp [name, tyArgs, fields])
  | "EnumVariant", [ctor, fields] => some (grp [ctor, fields])
  | "VariantField", [_, ty, _] => some (grp [ty])
  | "StructField", [name, ty, dflt] => some (grp [name, ty, dflt])
  | "Polytype", [name, ifaces] => some (grp [name, ifaces])
  | "Interface", [name, args] => some (grp [name, args])
  | "InterfaceDef", [name, methods, outs, _] => some (grp [name, methods, outs])
  | "InterfaceOutputType", [name, ifaces] => some (grp [name, ifaces])
  | "Attribute", _ => some (grp [])
  | "Glob", [] => some (grp [])
  | "As", _ => some (grp [])
  | "Inclusion", _ => some (grp [])
  | "Exclusion", _ => some (grp [])
  -- find_ident_in_type
  | "Type.NamedWithParams", [_, name, params] => g [name, params]
  | "Type.Poly", [p] => g [p]
  | "Type.Function", [args, ret] => g [args, ret]
  | "Type.Tuple", [elems] => g [elems]
  | "Type.Void", [] => g []
  | "Type.Int", [] => g []
  | "Type.Float", [] => g []
  | "Type.Bool", [] => g []
  | "Type.Str", [] => g []
  | "Type.Wildcard", [] => g []
  -- find_ident_in_stmt
  | "Stmt.Let", [_, patTy, e] => g [patTy, e]
  | "Stmt.Assign", [l, _, r] => g [l, r]
  | "Stmt.Expr", [e] => g [e]
  | "Stmt.Return", [e] => g [e]
  | "Stmt.WhileLoop", [c, body] => g [c, body]
  | "Stmt.ForLoop", [p, it, body] => g [p, it, body]
  | "Stmt.Continue", [] => g []
  | "Stmt.Break", [] => g []
  -- find_ident_in_pat
  | "Pat.Variant", [prefixes, tag, data] => g [prefixes, tag, data]
  | "Positional", [x] => some (grp [x])
  | "Named", [x] => some (grp [x])
  | "Pat.Tuple", [ps] => g [ps]
  | "Pat.Struct", [name, fields] =>
    match kids, fields with
    -- named: every field name first, then every sub-pattern
    | [_, .node "Named" _ _ _ _], .node _ _ [.node _ _ pairs] => g [name, grp (firsts pairs), grp (seconds pairs)]
    | [_, .node "Positional" _ _ _ _], fields => g [name, fields]
    | _, _ => none
  | "Pat.Or", [l, r] => g [l, r]
  | "Pat.Wildcard", [] => g []
  | "Pat.Binding", [_] => g []
  | "Pat.Void", [] => g []
  | "Pat.Int", [_] => g []
  | "Pat.Float", [_] => g []
  | "Pat.Bool", [_] => g []
  | "Pat.Str", [_] => g []
  -- find_ident_in_expr
  | "Expr.Variable", [_] => some (.ident lo hi id)
  | "Expr.BinOp", [l, _, r] => g [l, r]
  | "Expr.Unop", [_, e] => g [e]
  | "Expr.FuncCall", [f, args] => g [f, args]
  | "FuncCallArg", [name, val] => some (grp [name, val])
  | "Expr.MemberAccess", [recv, member] => g [member, recv]
  -- `Some(ident.node())` behind the test of the expression's own span
  | "Expr.MemberAccessLeadingDot", [.ident _ _ iid] => some (.ident lo hi iid)
  | "Expr.IndexAccess", [a, i] => g [a, i]
  | "Expr.Block", [stmts] => g [stmts]
  | "Expr.IfElse", [c, t, e] => g [c, t, e]
  | "Expr.Match", [scrut, arms] => g [scrut, arms]
  -- `if arm.loc.contains_offset(offset) { pattern, else return find_ident_in_stmt(arm.stmt) }`
  | "MatchArm", [p, s] => some (.node (some (lo, hi)) true [p, s])
  | "Expr.AnonymousFunction", [args, ret, body] => g [grp [args, ret], body]
  | "Expr.Array", [elems] => g [elems]
  | "Expr.Tuple", [elems] => g [elems]
  | "Expr.Unwrap", [e] => g [e]
  | "Expr.Try", [e] => g [e]
  | "Expr.TaskBlock", [e] => g [e]
  | "Expr.Nil", [] => g []
  | "Expr.Int", [_] => g []
  | "Expr.Float", [_] => g []
  | "Expr.Bool", [_] => g []
  | "Expr.Str", [_] => g []
  | _, _ => none

mutual
def identPlan : Ast → Option STree
  | .node kind lo hi id kids =>
    match identPlanList kids with
    | none => none
    | some ps => identCombine kind lo hi id kids ps
def identPlanList : List Ast → Option (List STree)
  | [] => some []
  | k :: ks =>
    match identPlan k, identPlanList ks with
    | some p, some ps => some (p :: ps)
    | _, _ => none
end

/-! ### the walk order of `find_in_*`, kind by kind -/

def grpI (l : List ITree) : ITree := .node none none l

def firstsI : List ITree → List ITree
  | [] => []
  | .node _ _ (a :: _) :: r => a :: firstsI r
  | _ :: r => firstsI r

def innerCombine (kind : String) (lo hi id : Nat) (ps : List ITree) : Option ITree :=
  -- an expression that answers for itself when no child does
  let e : List ITree → Option ITree := fun l => some (.node (some (lo, hi)) (some id) l)
  -- a statement: span test, children, no answer of its own
  let s : List ITree → Option ITree := fun l => some (.node (some (lo, hi)) none l)
  -- find_innermost_node_at_offset: `if !item.loc.contains_offset(offset) { continue } find_in_item(..) else Some(item.node())`
  let it : List ITree → Option ITree := fun l => some (.node (some (lo, hi)) (some id) l)
  match kind, ps with
  | "List", ps => some (grpI ps)
  | "Tuple", ps => some (grpI ps)
  | "Some", [p] => some (grpI [p])
  | "A", [] => some (grpI [])
  | "Identifier", _ => some (.leaf lo hi id)
  | "FileAst", [items, _, _, _] => some (grpI [items])
  -- find_in_item
  | "Item.FuncDef", [fd] => it [fd]
  | "Item.Stmt", [st] => it [st]
  | "Item.InterfaceImpl", [x] => it [x]
  | "Item.Extension", [x] => it [x]
  | "Item.TypeDef", [x] => it [x]
  | "Item.FuncDecl", [_] => it []
  | "Item.Import", [_, _] => it []
  | "Item.InterfaceDef", [_] => it []
  -- find_in_func_def_body: name, then per argument its name and default value, then the body
  | "FuncDef", [name, args, _, body, _] => some (grpI [name, args, body])
  | "ArgMaybeAnnotated", [name, _, dflt] => some (grpI [name, dflt])
  | "InterfaceImpl", [_, _, methods] => some (grpI [methods])
  | "Extension", [_, methods] => some (grpI [methods])
  | "Struct", [x] => some (grpI [x])
  | "Enum", [_] => some (grpI [])
  | "StructDef", [_, _, fields, _] => some (grpI [fields])
  | "StructField", [_, _, dflt] => some (grpI [dflt])
  | "EnumDef", _ => some (grpI [])
  | "EnumVariant", _ => some (grpI [])
  | "VariantField", _ => some (grpI [])
  | "FuncDecl", _ => some (grpI [])
  | "Polytype", _ => some (grpI [])
  | "Interface", _ => some (grpI [])
  | "InterfaceDef", _ => some (grpI [])
  | "InterfaceOutputType", _ => some (grpI [])
  | "Attribute", _ => some (grpI [])
  | "Glob", [] => some (grpI [])
  | "As", _ => some (grpI [])
  | "Inclusion", _ => some (grpI [])
  | "Exclusion", _ => some (grpI [])
  | "Positional", _ => some (grpI [])
  | "Named", _ => some (grpI [])
  -- types are never entered
  | "Type.NamedWithParams", _ => some (grpI [])
  | "Type.Poly", _ => some (grpI [])
  | "Type.Function", _ => some (grpI [])
  | "Type.Tuple", _ => some (grpI [])
  | "Type.Void", [] => some (grpI [])
  | "Type.Int", [] => some (grpI [])
  | "Type.Float", [] => some (grpI [])
  | "Type.Bool", [] => some (grpI [])
  | "Type.Str", [] => some (grpI [])
  | "Type.Wildcard", [] => some (grpI [])
  -- a pattern is only ever tested as a whole (`pat.loc.contains_offset(offset)` → `pat.node()`)
  | "Pat.Variant", _ => some (.leaf lo hi id)
  | "Pat.Tuple", _ => some (.leaf lo hi id)
  | "Pat.Struct", _ => some (.leaf lo hi id)
  | "Pat.Or", _ => some (.leaf lo hi id)
  | "Pat.Wildcard", _ => some (.leaf lo hi id)
  | "Pat.Binding", _ => some (.leaf lo hi id)
  | "Pat.Void", _ => some (.leaf lo hi id)
  | "Pat.Int", _ => some (.leaf lo hi id)
  | "Pat.Float", _ => some (.leaf lo hi id)
  | "Pat.Bool", _ => some (.leaf lo hi id)
  | "Pat.Str", _ => some (.leaf lo hi id)
  -- find_in_stmt
  | "Stmt.Let", [_, .node _ _ (pat :: _), ex] => s [ex, pat]
  | "Stmt.Assign", [l, _, r] => s [l, r]
  | "Stmt.Expr", [ex] => s [ex]
  | "Stmt.Return", [ex] => s [ex]
  | "Stmt.WhileLoop", [c, body] => s [c, body]
  | "Stmt.ForLoop", [p, iter, body] => s [p, iter, body]
  | "Stmt.Continue", [] => s []
  | "Stmt.Break", [] => s []
  -- find_in_expr
  | "Expr.Variable", [_] => some (.leaf lo hi id)
  | "Expr.Nil", [] => some (.leaf lo hi id)
  | "Expr.Int", [_] => some (.leaf lo hi id)
  | "Expr.Float", [_] => some (.leaf lo hi id)
  | "Expr.Bool", [_] => some (.leaf lo hi id)
  | "Expr.Str", [_] => some (.leaf lo hi id)
  | "Expr.MemberAccessLeadingDot", [_] => some (.leaf lo hi id)
  | "Expr.BinOp", [l, _, r] => e [l, r]
  | "Expr.Unop", [_, x] => e [x]
  | "Expr.FuncCall", [f, args] => e [f, args]
  | "FuncCallArg", [_, val] => some (grpI [val])
  -- `if member.loc.contains_offset(offset) { return Some(expr.node()) }`, then the receiver
  | "Expr.MemberAccess", [recv, .leaf mlo mhi _] => e [.leaf mlo mhi id, recv]
  | "Expr.IndexAccess", [a, i] => e [a, i]
  | "Expr.Block", [stmts] => e [stmts]
  | "Expr.IfElse", [c, t, el] => e [c, t, el]
  | "Expr.Match", [scrut, arms] => e [scrut, arms]
  -- `if arm.loc.contains_offset(offset) { find_in_stmt(arm.stmt) else return Some(arm.node()) }`
  | "MatchArm", [_, st] => some (.node (some (lo, hi)) (some id) [st])
  -- argument names only (defaults are not entered), then the body
  | "Expr.AnonymousFunction", [.node _ _ args, _, body] => e [grpI (firstsI args), body]
  | "Expr.Array", [elems] => e [elems]
  | "Expr.Tuple", [elems] => e [elems]
  | "Expr.Unwrap", [x] => e [x]
  | "Expr.Try", [x] => e [x]
  | "Expr.TaskBlock", [x] => e [x]
  | _, _ => none

mutual
def innerPlan : Ast → Option ITree
  | .node kind lo hi id kids =>
    match innerPlanList kids with
    | none => none
    | some ps => innerCombine kind lo hi id ps
def innerPlanList : List Ast → Option (List ITree)
  | [] => some []
  | k :: ks =>
    match innerPlan k, innerPlanList ks with
    | some p, some ps => some (p :: ps)
    | _, _ => none
end

/-- `find_identifier_at_offset(file_ast, offset)`: the id of the identifier node; outer `none` = unknown shape -/
def findIdentifier (file : Ast) (off : Nat) : Option (Option Nat) :=
  (identPlan file).map (search off)

/-- `find_innermost_node_at_offset(file_ast, offset)` -/
def findInnermost (file : Ast) (off : Nat) : Option (Option Nat) :=
  (innerPlan file).map (searchI off)

end Abra.SpanTree

/-! ### executable checks of the hypotheses of the identifier-search theorem (`Nested`, `CutOK`, `Unique`)
    and of the innermost-search theorem (`NestedI`); their soundness is proved in
    `AbraProofs/Lemmas/SpanTreeWF.lean`, the driver reports them per tree -/
namespace Abra.SpanTree

mutual
/-- every identifier leaf as (lo, hi, id) -/
def idents : STree → List (Nat × Nat × Nat)
  | .ident lo hi id => [(lo, hi, id)]
  | .node _ _ kids => identsL kids
def identsL : List STree → List (Nat × Nat × Nat)
  | [] => []
  | k :: ks => idents k ++ identsL ks
end

/-- an (empty or) inside-the-span identifier -/
def within (s : Span) (e : Nat × Nat × Nat) : Bool :=
  match s with
  | none => true
  | some (lo, hi) => decide (e.2.1 ≤ e.1) || (decide (lo ≤ e.1) && decide (e.2.1 ≤ hi))

mutual
def nestedB : STree → Bool
  | .ident _ _ _ => true
  | .node span _ kids => (identsL kids).all (within span) && nestedBL kids
def nestedBL : List STree → Bool
  | [] => true
  | k :: ks => nestedB k && nestedBL ks
end

def disjointFrom (s : Nat × Nat) (e : Nat × Nat × Nat) : Bool :=
  decide (e.2.1 ≤ e.1) || decide (e.2.1 ≤ s.1) || decide (s.2 ≤ e.1)

def cutSpan : STree → Option (Nat × Nat)
  | .node (some s) true _ => some s
  | _ => none

mutual
def cutB : STree → Bool
  | .ident _ _ _ => true
  | .node _ _ kids => cutBL kids
def cutBL : List STree → Bool
  | [] => true
  | k :: ks =>
    cutB k && (match cutSpan k with
      | some s => (identsL ks).all (disjointFrom s)
      | none => true) && cutBL ks
end

def overlapOK (a b : Nat × Nat × Nat) : Bool :=
  decide (a.2.1 ≤ a.1) || decide (b.2.1 ≤ b.1) || decide (a.2.1 ≤ b.1) || decide (b.2.1 ≤ a.1) || a.2.2 == b.2.2

def uniqueB (t : STree) : Bool := (idents t).all (fun a => (idents t).all (fun b => overlapOK a b))

/-- all three hypotheses of `C35_search_spec` -/
def wfB (t : STree) : Bool := nestedB t && cutB t && uniqueB t

mutual
/-- every node that can answer as (span, id) -/
def cands : ITree → List (Span × Nat)
  | .leaf lo hi id => [(some (lo, hi), id)]
  | .node span self kids =>
    (match self with
      | some id => [(span, id)]
      | none => []) ++ candsL kids
def candsL : List ITree → List (Span × Nat)
  | [] => []
  | k :: ks => cands k ++ candsL ks
end

/-- a candidate that is empty or inside the span -/
def withinI (s : Span) (c : Span × Nat) : Bool :=
  match s, c.1 with
  | none, _ => true
  | some _, none => false
  | some (lo, hi), some (l, h) => decide (h ≤ l) || (decide (lo ≤ l) && decide (h ≤ hi))

mutual
def nestedIB : ITree → Bool
  | .leaf _ _ _ => true
  | .node span _ kids => (candsL kids).all (withinI span) && nestedIBL kids
def nestedIBL : List ITree → Bool
  | [] => true
  | k :: ks => nestedIB k && nestedIBL ks
end

end Abra.SpanTree
