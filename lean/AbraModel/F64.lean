/-!
# M2 — what the VM does with binary64 values besides IEEE arithmetic (`abra_core/src/vm.rs`)

Floats are carried as their 64 bit patterns (`UInt64`; `Value(bits, Float)` in the VM).

* comparisons: `LessThanFloat … EqualFloat` (and the `*Imm` forms) are
  `a.total_cmp(&b).is_lt()/is_le()/is_gt()/is_ge()/is_eq()`.  `f64::total_cmp` compares the keys
  obtained by flipping all bits of a negative pattern and the sign bit of a non-negative one
  (std: `left ^= (((left >> 63) as u64) >> 1) as i64`, then a signed compare — the same order).
* division: `if b == 0.0 { DivisionByZero }` (IEEE equality: both zeros, no NaN), then `a / b`.
* `IntFromFloat`: `f as i64` — Rust's saturating cast (NaN ↦ 0).
* `FloatFromInt`: `n as f64` — round to nearest, ties to even.
* constants: a literal, a constant-pool entry and a folded constant are all `text.parse::<f64>()`;
  a fold computes in `f64` and goes back through `to_string()`.
* unary minus is compiled as a subtraction from a zero constant (`-0.0 - x` after D33).

IEEE arithmetic itself (`+ - * / powf`, libm) is NOT modelled: it is a parameter (`arith`) of the
definitions that need it.
-/
namespace Abra.F64

abbrev Bits := UInt64

def signBit : Nat := 2 ^ 63

/-- sign, biased exponent and mantissa fields -/
def sign (b : Bits) : Bool := decide (b.toNat ≥ signBit)
def expField (b : Bits) : Nat := (b.toNat / 2 ^ 52) % 2 ^ 11
def mantissa (b : Bits) : Nat := b.toNat % 2 ^ 52
/-- the pattern without its sign -/
def magnitude (b : Bits) : Nat := b.toNat % signBit

def isNaN (b : Bits) : Bool := expField b = 2047 && mantissa b ≠ 0
def isInf (b : Bits) : Bool := expField b = 2047 && mantissa b = 0

/-! ### `total_cmp` -/

/-- the comparison key of `f64::total_cmp`, read as a number: all bits flipped when the sign is
    set (`2^64 - 1 - b`), the sign bit flipped otherwise (`b + 2^63`) -/
def key (b : Bits) : Nat :=
  if b.toNat ≥ signBit then 2 ^ 64 - 1 - b.toNat else b.toNat + signBit

/-- the same key computed with the bit operations -/
def keyBits (b : Bits) : Bits :=
  if b >>> 63 = 1 then ~~~b else b ^^^ 0x8000000000000000

def totalCmp (a b : Bits) : Ordering := compare (key a) (key b)

def flt (a b : Bits) : Bool := (totalCmp a b).isLT
def fle (a b : Bits) : Bool := (totalCmp a b).isLE
def fgt (a b : Bits) : Bool := (totalCmp a b).isGT
def fge (a b : Bits) : Bool := (totalCmp a b).isGE
def feq (a b : Bits) : Bool := (totalCmp a b).isEq
/-- `!=` is `EqualFloat` followed by `Not` -/
def fne (a b : Bits) : Bool := !(feq a b)

/-! ### division -/

/-- `b == 0.0` in IEEE arithmetic: +0 and -0, nothing else -/
def isZero (b : Bits) : Bool := b.toNat = 0 || b.toNat = signBit

inductive Res where
  | val (b : Bits)
  | divZero
  deriving Repr, DecidableEq

/-- `DivFloat` / `DivFloatImm`: `fdiv` is IEEE division (a parameter) -/
def divide (fdiv : Bits → Bits → Bits) (a b : Bits) : Res :=
  if isZero b then .divZero else .val (fdiv a b)

/-! ### constants and folding -/

def canonicalNaN : Bits := 0x7FF8000000000000

/-- `c.to_string().parse::<f64>()`: Rust prints the shortest decimal that parses back to the same
    value (documented guarantee, assumed), except that every NaN prints as `NaN`, which parses to the
    canonical quiet NaN with the sign clear -/
def viaString (c : Bits) : Bits := if isNaN c then canonicalNaN else c

inductive Arith where
  | add | sub | mul | div | pow
  deriving Repr, DecidableEq

/-- the optimizer's `FOLD FLOAT …` on two literal operands: computed at compile time and spelled as
    a decimal again; division by a zero literal is left to the VM (D4), and so is a NaN result,
    whose sign and payload a decimal cannot spell (D32 — repaired behaviour) -/
def folded (arith : Arith → Bits → Bits → Bits) (op : Arith) (a b : Bits) : Res :=
  if op = .div ∧ isZero b then .divZero
  else
    let c := arith op a b
    if isNaN c then .val c else .val (viaString c)

/-- the same expression on variables: the VM instruction -/
def computed (arith : Arith → Bits → Bits → Bits) (op : Arith) (a b : Bits) : Res :=
  if op = .div then divide (arith .div) a b else .val (arith op a b)

/-! ### chains `v op₁ a₁ op₂ a₂ …` with literal operands: one instruction per operator, left to right

A literal right operand becomes the immediate of an `*FloatImm` instruction; consecutive
immediate-operand instructions are NOT merged (IEEE operations do not reassociate), so the value is
the left fold of the single operations, each rounded on its own, and the first zero divisor stops. -/

def evalChain (arith : Arith → Bits → Bits → Bits) : Res → List (Arith × Bits) → Res
  | r, [] => r
  | .divZero, _ => .divZero
  | .val x, (op, a) :: rest => evalChain arith (computed arith op x a) rest

/-- `v op₁ (a op₂ b)` with literal `a`, `b` — also `x op₁= a op₂ b`, which is `x = x op₁ (a op₂ b)`:
    the parenthesised literal expression is folded (or run by the VM, same bits), then one instruction -/
def evalRight (arith : Arith → Bits → Bits → Bits) (v : Bits) (op1 : Arith) (a : Bits) (op2 : Arith) (b : Bits) : Res :=
  match folded arith op2 a b with
  | .val t => computed arith op1 v t
  | .divZero => .divZero

/-! ### `f as i64` -/

def i64Min : Int := -(2 ^ 63)
def i64Max : Int := 2 ^ 63 - 1

/-- truncation of the magnitude `(2^52 + m) · 2^(e-1075)` (normal numbers) by shifting -/
def truncMagnitude (e m : Nat) : Nat :=
  let sig := 2 ^ 52 + m
  if e ≥ 1075 then sig <<< (e - 1075) else sig >>> (1075 - e)

/-- `IntFromFloat` -/
def intFromFloat (b : Bits) : Int :=
  let e := expField b
  let m := mantissa b
  if e = 2047 then
    if m ≠ 0 then 0                                   -- NaN
    else if sign b then i64Min else i64Max            -- ±inf saturate
  else if e = 0 then 0                                -- ±0 and subnormals: |x| < 1
  else
    let mag := truncMagnitude e m
    if sign b then
      if (mag : Int) ≥ 2 ^ 63 then i64Min else -(mag : Int)
    else
      if (mag : Int) > i64Max then i64Max else (mag : Int)

/-! ### `n as f64` -/

/-- position of the most significant set bit (`63 - leading_zeros`), by halving -/
def msb : Nat → Nat → Nat
  | 0, _ => 0
  | fuel + 1, a => if a ≤ 1 then 0 else msb fuel (a / 2) + 1

/-- magnitude `a ≥ 1` rounded to 53 significant bits, nearest with ties to even, encoded
    (exponent field and mantissa; a carry out of the mantissa lands in the exponent) -/
def encodeMagnitude (a : Nat) : Nat :=
  let k := msb 64 a
  if k ≤ 52 then (k + 1023) * 2 ^ 52 + (a * 2 ^ (52 - k) - 2 ^ 52)
  else
    let sh := k - 52
    let q := a / 2 ^ sh
    let rem := a % 2 ^ sh
    let half := 2 ^ (sh - 1)
    let q' := if rem > half ∨ (rem = half ∧ q % 2 = 1) then q + 1 else q
    (k + 1023) * 2 ^ 52 + (q' - 2 ^ 52)

/-- `FloatFromInt` on an integer in the 64-bit range -/
def floatFromInt (n : Int) : Bits :=
  if n = 0 then 0
  else if n < 0 then UInt64.ofNat (signBit + encodeMagnitude n.natAbs)
  else UInt64.ofNat (encodeMagnitude n.natAbs)

/-- exact value of a finite pattern as numerator / denominator (denominator a power of two) -/
def finiteValue (b : Bits) : Int × Nat :=
  let e := expField b
  let m := mantissa b
  let mag : Nat × Nat :=
    if e = 0 then (m, 2 ^ 1074)
    else if e ≥ 1075 then ((2 ^ 52 + m) * 2 ^ (e - 1075), 1)
    else (2 ^ 52 + m, 2 ^ (1075 - e))
  (if sign b then -(mag.1 : Int) else (mag.1 : Int), mag.2)


/-! ### `floor`, `ceil`, `round` (`Instr::Floor/Ceil/Round` = `f64::floor/ceil/round`) and the other math instructions

`floor`, `ceil` and `round` (half away from zero) are exact functions of the operand, so they are
modelled completely: the exact rational value is rounded to an integer with integer division and
converted back (exactly: the integer has at most 53 bits).  Patterns with exponent field ≥ 1075
(`|x| ≥ 2^52`, ±inf) are already integral; a zero result keeps the operand's sign; a NaN stays a
(quiet) NaN.  `sqrt sin cos tan asin acos atan log log2 log10 atan2` are libm / IEEE functions: a
parameter, like the arithmetic. -/

inductive Rounding where
  | floor | ceil | round
  deriving Repr, DecidableEq

/-- the integer a rational `n/d` (`d > 0`) is rounded to -/
def roundInt : Rounding → Int → Nat → Int
  | .floor, n, d => n / d
  | .ceil, n, d => -((-n) / d)
  | .round, n, d => if n ≥ 0 then (2 * n + d) / (2 * d) else -((2 * (-n) + d) / (2 * d))

/-- a NaN operand comes back quiet: mantissa bit 51 set (it is already set in every NaN the
    hardware generates) -/
def quiet (x : Bits) : Bits := if mantissa x < 2 ^ 51 then UInt64.ofNat (x.toNat + 2 ^ 51) else x

def roundBits (mode : Rounding) (x : Bits) : Bits :=
  if isNaN x then quiet x
  else if expField x ≥ 1075 then x
  else
    let v := finiteValue x
    let n := roundInt mode v.1 v.2
    if n = 0 then (if sign x then 0x8000000000000000 else 0) else floatFromInt n

inductive Math1 where
  | sqrt | sin | cos | tan | asin | acos | atan | log | log2 | log10 | floor | ceil | round
  deriving Repr, DecidableEq

/-- the unary math instructions; `libm` stands for the host's `f64::sqrt`, `sin`, … `log10` -/
def math1 (libm : Math1 → Bits → Bits) : Math1 → Bits → Bits
  | .floor, x => roundBits .floor x
  | .ceil, x => roundBits .ceil x
  | .round, x => roundBits .round x
  | f, x => libm f x

/-! ### unary minus: `PushFloat -0.0; x; SubFloat` (D33 — repaired behaviour: subtracting from
`-0.0` is IEEE negation for every non-NaN operand, zeros included) -/

def negZero : Bits := 0x8000000000000000

def negate (fsub : Bits → Bits → Bits) (x : Bits) : Bits := fsub negZero x

end Abra.F64
