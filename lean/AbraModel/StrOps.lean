/-!
# M3 — the resumable string instructions of the VM (`abra_core/src/vm.rs`, `step()`)

`EqualString`, `LessThanString`, `LessThanOrEqualString`, `GreaterThanString`,
`GreaterThanOrEqualString` and `ConcatStrings` look at ONE byte per VM step.  While an instruction
is unfinished it rewinds the program counter (`self.pc.0 -= 1`), so the next step of the thread
executes the same instruction again; its progress lives in five thread registers
(`string_op_index1/2`, `string_operand1/2`, `concat_string_builder`).  The operands are read from
their registers (and popped, when the register is the stack top) only while the index is 0 and are
then *latched* into `string_operand1/2`.

The model keeps exactly that state and has one step function per instruction, written arm by arm
after the Rust code.  Strings are byte lists.  Every way the Rust code could panic
(`a.as_bytes()[i]` out of bounds, `String::from_utf8(..).unwrap()`) is an explicit `fault`; the
fall-through of `ConcatStrings` (none of its three `if` arms applies: the pc stays advanced and
nothing is stored) is an explicit `skip`.
-/
namespace Abra.StrOps

abbrev Bytes := List UInt8

/-- thread registers of an in-flight string instruction (`VmGreenThread` fields) -/
structure Regs where
  idx1 : Nat := 0          -- string_op_index1
  idx2 : Nat := 0          -- string_op_index2
  op1 : Bytes := []        -- bytes of the string string_operand1 points to
  op2 : Bytes := []        -- bytes of the string string_operand2 points to
  builder : Bytes := []    -- concat_string_builder
  deriving Repr, DecidableEq

/-- what one VM step of a string instruction does -/
inductive Step (ρ : Type) where
  /-- unfinished: pc rewound, the same instruction runs at the thread's next step -/
  | again (r : Regs)
  /-- finished: `v` stored to the destination register, pc stays advanced -/
  | done (v : ρ) (r : Regs)
  /-- no arm applied (ConcatStrings only): pc stays advanced, nothing stored -/
  | skip (r : Regs)
  /-- host panic (slice index out of bounds / `from_utf8(..).unwrap()` on invalid bytes) -/
  | fault
  deriving Repr

/-- `if self.string_op_index1 == 0 { operand2 = load(reg2); operand1 = load(reg1) }` -/
def latch (ra rb : Bytes) (r : Regs) : Regs :=
  if r.idx1 = 0 then { r with op2 := rb, op1 := ra } else r

/-- `Instr::EqualString` -/
def eqStep (ra rb : Bytes) (r0 : Regs) : Step Bool :=
  let r := latch ra rb r0
  let a := r.op1
  let b := r.op2
  let i := r.idx1
  if i = a.length ∧ i = b.length then .done true { r with idx1 := 0 }
  else if a.length ≠ b.length then .done false { r with idx1 := 0 }
  else
    match a[i]?, b[i]? with
    | some x, some y =>
      if x ≠ y then .done false { r with idx1 := 0 } else .again { r with idx1 := i + 1 }
    | _, _ => .fault

/-- the four ordering instructions differ in the answer on exhaustion and in which byte test comes first -/
inductive Cmp where
  | lt | le | gt | ge
  deriving Repr, DecidableEq

/-- `store(dest, a_bytes.len() ⋈ b_bytes.len())` when one or both strings are exhausted -/
def Cmp.onExhausted : Cmp → Nat → Nat → Bool
  | .lt, la, lb => decide (la < lb)
  | .le, la, lb => decide (la ≤ lb)
  | .gt, la, lb => decide (la > lb)
  | .ge, la, lb => decide (la ≥ lb)

/-- first byte test → `true`, second byte test → `false`, otherwise continue.
    `LessThan*`: `a[i] < b[i]` then `a[i] > b[i]`; `GreaterThan*`: `a[i] > b[i]` then `a[i] < b[i]`. -/
def Cmp.onByte : Cmp → UInt8 → UInt8 → Option Bool
  | .lt, x, y => if x < y then some true else if x > y then some false else none
  | .le, x, y => if x < y then some true else if x > y then some false else none
  | .gt, x, y => if x > y then some true else if x < y then some false else none
  | .ge, x, y => if x > y then some true else if x < y then some false else none

/-- `Instr::LessThanString`, `LessThanOrEqualString`, `GreaterThanString`, `GreaterThanOrEqualString` -/
def cmpStep (c : Cmp) (ra rb : Bytes) (r0 : Regs) : Step Bool :=
  let r := latch ra rb r0
  let a := r.op1
  let b := r.op2
  let i := r.idx1
  if i = a.length ∨ i = b.length then .done (c.onExhausted a.length b.length) { r with idx1 := 0 }
  else
    match a[i]?, b[i]? with
    | some x, some y =>
      match c.onByte x y with
      | some v => .done v { r with idx1 := 0 }
      | none => .again { r with idx1 := i + 1 }
    | _, _ => .fault

/-! ### UTF-8 validity, as `core::str::from_utf8` decides it (Unicode Table 3-7: no overlong forms,
no surrogates, nothing above U+10FFFF) -/

def isCont (b : UInt8) : Bool := 0x80 ≤ b && b ≤ 0xBF

def utf8Valid : Bytes → Bool
  | [] => true
  | b0 :: rest =>
    if b0 < 0x80 then utf8Valid rest
    else if 0xC2 ≤ b0 ∧ b0 ≤ 0xDF then
      match rest with
      | b1 :: r => isCont b1 && utf8Valid r
      | _ => false
    else if 0xE0 ≤ b0 ∧ b0 ≤ 0xEF then
      match rest with
      | b1 :: b2 :: r =>
        (if b0 = 0xE0 then 0xA0 ≤ b1 && b1 ≤ 0xBF
         else if b0 = 0xED then 0x80 ≤ b1 && b1 ≤ 0x9F
         else isCont b1) && isCont b2 && utf8Valid r
      | _ => false
    else if 0xF0 ≤ b0 ∧ b0 ≤ 0xF4 then
      match rest with
      | b1 :: b2 :: b3 :: r =>
        (if b0 = 0xF0 then 0x90 ≤ b1 && b1 ≤ 0xBF
         else if b0 = 0xF4 then 0x80 ≤ b1 && b1 ≤ 0x8F
         else isCont b1) && isCont b2 && isCont b3 && utf8Valid r
      | _ => false
    else false

/-- `if self.string_op_index1 == 0 && self.string_op_index2 == 0 { latch both operands;
    concat_string_builder = Vec::with_capacity(..) }` -/
def catLatch (ra rb : Bytes) (r : Regs) : Regs :=
  if r.idx1 = 0 ∧ r.idx2 = 0 then { r with op2 := rb, op1 := ra, builder := [] } else r

/-- the three arms of `Instr::ConcatStrings` after the latch -/
def catArms (r : Regs) : Step Bytes :=
  let a := r.op1
  let b := r.op2
  if r.idx1 = a.length ∧ r.idx2 = b.length then
    -- swap the builder out, `String::from_utf8(builder).unwrap()`, allocate, store
    if utf8Valid r.builder then .done r.builder { r with builder := [], idx1 := 0, idx2 := 0 }
    else .fault
  else if r.idx1 < a.length then
    match a[r.idx1]? with
    | some x => .again { r with builder := r.builder ++ [x], idx1 := r.idx1 + 1 }
    | none => .fault
  else if r.idx2 < b.length then
    match b[r.idx2]? with
    | some y => .again { r with builder := r.builder ++ [y], idx2 := r.idx2 + 1 }
    | none => .fault
  else .skip r

/-- `Instr::ConcatStrings` -/
def catStep (ra rb : Bytes) (r0 : Regs) : Step Bytes := catArms (catLatch ra rb r0)

/-! ### Running an instruction: the thread executes the same instruction again while it rewinds -/

inductive Run (ρ : Type) where
  | finished (v : ρ) (r : Regs)
  | running (r : Regs)            -- out of steps with the instruction still in flight
  | skipped (r : Regs)
  | faulted
  deriving Repr

/-- at most `n` VM steps spent on the instruction -/
def run {ρ : Type} (step : Regs → Step ρ) : Nat → Regs → Run ρ
  | 0, r => .running r
  | n + 1, r =>
    match step r with
    | .again r' => run step n r'
    | .done v r' => .finished v r'
    | .skip r' => .skipped r'
    | .fault => .faulted

/-- the embedder slices execution: `run_n_steps(k₁)`, `run_n_steps(k₂)`, …; the registers survive
    between slices (they are fields of the thread) -/
def runBudgets {ρ : Type} (step : Regs → Step ρ) : List Nat → Regs → Run ρ
  | [], r => .running r
  | k :: ks, r =>
    match run step k r with
    | .running r' => runBudgets step ks r'
    | x => x

/-! ### the heap side of `ConcatStrings`: strings are immutable values

On completion the instruction allocates a FRESH `StringObject` for the result
(`StringObject::new(s, self)`) and stores a pointer to it; no existing object is written.  The
heap of string objects is a list of byte strings (address = index), allocation appends. -/

abbrev Heap := List Bytes

/-- `ConcatStrings` on the string objects at addresses `p` and `q`, executed in slices `ks` -/
def concatHeap (h : Heap) (p q : Nat) (ks : List Nat) (r : Regs) : Option (Heap × Nat × Regs) :=
  match h[p]?, h[q]? with
  | some a, some b =>
    match runBudgets (catStep a b) ks r with
    | .finished v r' => some (h ++ [v], h.length, r')
    | _ => none
  | _, _ => none

/-! ### the byte intrinsics `string_count_bytes` / `string_nth_byte` (`Instr::StringCountBytes`,
`Instr::StringNthByte`): single-step instructions; an index that is negative or not below the
length is the array-out-of-bounds runtime error -/

inductive ByteRes where
  | val (n : Int)
  | outOfBounds
  deriving Repr, DecidableEq

/-- `s.len() as AbraInt` -/
def countBytes (s : Bytes) : Int := s.length

/-- `if n < 0 || n as usize >= s.len() { ArrayOutOfBounds } else { s.as_bytes()[n as usize] as AbraInt }` -/
def nthByte (s : Bytes) (n : Int) : ByteRes :=
  if n < 0 ∨ n.toNat ≥ s.length then .outOfBounds
  else
    match s[n.toNat]? with
    | some b => .val b.toNat
    | none => .outOfBounds

/-- `!=` is `EqualString` followed by `Not` -/
def neOfEq (v : Bool) : Bool := !v

end Abra.StrOps
