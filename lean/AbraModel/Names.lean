/-!
# M12 `Names` — namespaces, imports, scoped symbol tables (statics/resolve.rs)

* `addDecl`            ↔ `Namespace::add_declaration` (occupied entry → `NameClash`, the first one stays)
* `addOtherPred`       ↔ `Namespace::add_other_pred`
* `ownTable`, `ownKids` ↔ `gather_declarations_file` (functions, enums, interfaces of one file; every enum /
                         interface also gets a child namespace: `add_namespace`, which overwrites on collision)
* `effective`          ↔ `resolve_imports_file` (builtins + intrinsics inserted directly, then the prelude,
                         the file itself and every `use` item in source order: glob / inclusion list /
                         `except` list / `as` alias)
* `SymTab`, `lookup`, `extend`, `newScope` ↔ `SymbolTable` (a chain of hash maps, innermost first);
                         `resolvePat` ↔ `lookup_namespace` for qualified variant patterns (namespaces live at file level only)
* `resolveStmts`       ↔ `resolve_names_stmt/expr/pat` on the statement forms that bind or use names

Names are an arbitrary type `ν` with decidable equality (the driver uses `String`).
A hash map is modelled as an association list with at most one entry per key; iteration order is
irrelevant because every insertion sequence used here inserts each key at most once per source.
-/
namespace Abra.Names

variable {ν : Type} [DecidableEq ν]

/-- what a name can resolve to (only the identity matters) -/
inductive Decl (ν : Type) where
  | fn (file : Nat) (name : ν)            -- top-level function `name` of file `file`
  | alias (file : Nat) (name : ν) (target : Nat)  -- `use target as name` in `file` (Declaration::Namespace)
  | builtin (name : ν)                    -- builtin type / intrinsic operation
  | prelude (name : ν)                    -- declaration of prelude.abra
  | loc (id : Nat)                        -- local binding number `id` (let / for / match / parameter)
  | enum_ (file : Nat) (idx : Nat) (name : ν)     -- the `idx`-th type definition of `file`, an enum
  | iface (file : Nat) (idx : Nat) (name : ν)     -- …, an interface
  | variant (file : Nat) (idx : Nat) (ename : ν) (v : ν)   -- variant `v` of that enum
deriving DecidableEq, Repr

abbrev Table (ν : Type) := List (ν × Decl ν)

def Table.get (t : Table ν) (x : ν) : Option (Decl ν) :=
  match t with
  | [] => none
  | (y, d) :: rest => if y = x then some d else Table.get rest x

/-- `HashMap::insert` (overwrites) -/
def Table.put (t : Table ν) (x : ν) (d : Decl ν) : Table ν :=
  (x, d) :: t.filter (fun e => e.1 ≠ x)

/-- `Namespace::add_declaration`: returns the table and the clash reported (if any) -/
def addDecl (t : Table ν) (x : ν) (d : Decl ν) : Table ν × List ν :=
  match t.get x with
  | some _ => (t, [x])
  | none => (t ++ [(x, d)], [])

/-- `Namespace::add_other_pred` (declarations) -/
def addOtherPred (t : Table ν) (other : Table ν) (pred : ν → Bool) : Table ν × List ν :=
  match other with
  | [] => (t, [])
  | (x, d) :: rest =>
    if pred x then
      let r := addDecl t x d
      let r2 := addOtherPred r.1 rest pred
      (r2.1, r.2 ++ r2.2)
    else addOtherPred t rest pred

inductive Import (ν : Type) where
  | glob (file : Nat)                      -- use m
  | incl (file : Nat) (names : List ν)     -- use m.(a, b)
  | excl (file : Nat) (names : List ν)     -- use m except (a, b)
  | as_ (file : Nat) (alias : ν)           -- use m as p
  | missing                                -- use of a file that does not exist
deriving Repr

/-- statements that bind or use names; every callable takes one int, a use is `x(0)` -/
inductive Stmt (ν : Type) where
  | letv (x : ν) (id : Nat)                         -- let x = <lambda id>
  | use (x : ν)                                     -- x(0)
  | quse (q : ν) (x : ν)                            -- q.x(0)
  | block (body : List (Stmt ν))                    -- { … } (block expression / if / while body)
  | forv (x : ν) (id : Nat) (body : List (Stmt ν))  -- for x in [<lambda id>] { … }
  | matchv (x : ν) (id : Nat) (body : List (Stmt ν))   -- match <lambda id> { x -> { … } }
  | lam (x : ν) (id : Nat) (body : List (Stmt ν))      -- ((x) -> { … })(<lambda id>)
  | marms (arms : List (Option (ν × Nat) × List (Stmt ν)))   -- match … { p₁ -> { … }  p₂ -> { … } … }: each arm
                                                       -- binds at most one name (`some (x, id)`) and has its own scope
  | ifelse (a b : List (Stmt ν))                       -- if … { a } else { b }
  | pmatch (pre : Option ν) (ty : ν) (v : ν)           -- match … { [pre.]ty.v -> … }   (qualified variant pattern)
  | euse (pre : Option ν) (ty : ν) (v : ν)             -- [pre.]ty.v                     (variant as an expression)

/-- an enum (`members` = variants) or an interface (`members` = methods) -/
structure TypeD (ν : Type) where
  name : ν
  isEnum : Bool
  members : List ν

structure FileD (ν : Type) where
  decls : List ν                  -- names of the top-level functions, in source order
  types : List (TypeD ν)          -- enums and interfaces, in source order (after the functions)
  imports : List (Import ν)       -- `use` items, in source order
  probe : List (Stmt ν)           -- body of a function of this file (function scope)
  top : List (Stmt ν)             -- top-level statements (main file)

structure World (ν : Type) where
  builtins : List ν               -- "array", "channel" and the intrinsic operations
  prelude : List ν                -- names declared by prelude.abra
  files : List (FileD ν)

/-- `gather_declarations_file`: insert each (name, declaration) with `add_declaration` -/
def gather : Table ν → Table ν → Table ν × List ν
  | [], t => (t, [])
  | (x, d) :: xs, t =>
    let r := addDecl t x d
    let r2 := gather xs r.1
    (r2.1, r.2 ++ r2.2)

def typeDecl (file idx : Nat) (t : TypeD ν) : Decl ν :=
  if t.isEnum then Decl.enum_ file idx t.name else Decl.iface file idx t.name

def typeEntriesAux (file : Nat) : Nat → List (TypeD ν) → Table ν
  | _, [] => []
  | i, t :: ts => (t.name, typeDecl file i t) :: typeEntriesAux file (i + 1) ts

/-- the type definitions of a file as (name, declaration) pairs, in source order -/
def typeEntries (w : World ν) (file : Nat) : Table ν :=
  match w.files[file]? with
  | some f => typeEntriesAux file 0 f.types
  | none => []

def fnEntries (w : World ν) (file : Nat) : Table ν :=
  match w.files[file]? with
  | some f => f.decls.map fun x => (x, Decl.fn file x)
  | none => []

/-- everything a file declares, in source order -/
def ownEntries (w : World ν) (file : Nat) : Table ν := fnEntries w file ++ typeEntries w file

def ownTable (w : World ν) (file : Nat) : Table ν × List ν := gather (ownEntries w file) []

/-- `Namespace::add_namespace` for a list of entries: a later entry replaces an earlier one -/
def putAll (t : Table ν) : Table ν → Table ν
  | [] => t
  | (x, d) :: rest => putAll (t.put x d) rest

/-- child namespaces of a file's own namespace: one per enum / interface, keyed by its name and
    represented by the declaration that owns it -/
def ownKids (w : World ν) (file : Nat) : Table ν := putAll [] (typeEntries w file)

/-- members (variants / methods) of the type definition a declaration stands for -/
def membersOf (w : World ν) (file idx : Nat) : List ν :=
  match w.files[file]? with
  | some f =>
    match f.types[idx]? with
    | some t => t.members
    | none => []
  | none => []

/-- names inserted a second time into one fresh namespace (an enum's variants, an interface's
    methods): `enum_namespace.add_declaration` / `iface_namespace.add_declaration` report each -/
def dupNames (seen : List ν) : List ν → List ν
  | [] => []
  | x :: xs => if x ∈ seen then x :: dupNames seen xs else dupNames (x :: seen) xs

/-- clashes among the members of the type definitions of a file -/
def memberClashes (w : World ν) (file : Nat) : List ν :=
  match w.files[file]? with
  | some f => f.types.flatMap (fun t => dupNames [] t.members)
  | none => []

/-- effective namespace of a file -/
structure Eff (ν : Type) where
  table : Table ν                 -- declarations
  kids : Table ν                  -- child namespaces (`namespaces`), each represented by its owning declaration
  clashes : List ν                -- NameClash diagnostics, in emission order
  badImports : Nat                -- imports of files that do not exist

def applyImport (w : World ν) (file : Nat) (e : Eff ν) : Import ν → Eff ν
  | .glob m =>
    let r := addOtherPred e.table (ownTable w m).1 (fun _ => true)
    { e with table := r.1, clashes := e.clashes ++ r.2,
             kids := putAll e.kids (ownKids w m) }
  | .incl m names =>
    let r := addOtherPred e.table (ownTable w m).1 (fun x => names.contains x)
    { e with table := r.1, clashes := e.clashes ++ r.2,
             kids := putAll e.kids ((ownKids w m).filter (fun c => names.contains c.1)) }
  | .excl m names =>
    let r := addOtherPred e.table (ownTable w m).1 (fun x => !names.contains x)
    { e with table := r.1, clashes := e.clashes ++ r.2,
             kids := putAll e.kids ((ownKids w m).filter (fun c => !names.contains c.1)) }
  | .as_ m p =>
    let r := addDecl e.table p (Decl.alias file p m)
    { e with table := r.1, clashes := e.clashes ++ r.2, kids := e.kids.put p (Decl.alias file p m) }
  | .missing => { e with badImports := e.badImports + 1 }

def applyImports (w : World ν) (file : Nat) : List (Import ν) → Eff ν → Eff ν
  | [], e => e
  | i :: is, e => applyImports w file is (applyImport w file e i)

/-- builtin types and intrinsic operations: `declarations.insert` (no clash check) -/
def builtinTable (w : World ν) : Table ν :=
  w.builtins.foldl (fun t x => t.put x (Decl.builtin x)) []

/-- the namespace of prelude.abra -/
def preludeTable (w : World ν) : Table ν := w.prelude.map fun x => (x, Decl.prelude x)

/-- `resolve_imports_file` -/
def effective (w : World ν) (file : Nat) : Eff ν :=
  let r1 := addOtherPred (builtinTable w) (preludeTable w) (fun _ => true)
  let r2 := addOtherPred r1.1 (ownTable w file).1 (fun _ => true)
  let e : Eff ν := { table := r2.1, kids := putAll [] (ownKids w file),
                     clashes := r1.2 ++ r2.2, badImports := 0 }
  match w.files[file]? with
  | some f => applyImports w file f.imports e
  | none => e

/-! ### scoped symbol table -/

/-- innermost scope first; inside a scope the latest insertion of a key wins (`HashMap::insert`) -/
abbrev SymTab (ν : Type) := List (Table ν)

def lookup : SymTab ν → ν → Option (Decl ν)
  | [], _ => none
  | s :: rest, x =>
    match s.get x with
    | some d => some d
    | none => lookup rest x

def extend : SymTab ν → ν → Decl ν → SymTab ν
  | [], x, d => [[(x, d)]]
  | s :: rest, x, d => s.put x d :: rest

def newScope (st : SymTab ν) : SymTab ν := [] :: st

/-- resolution of one use -/
inductive Res (ν : Type) where
  | to (d : Decl ν)
  | unresolved
deriving DecidableEq, Repr

def Res.ofOption : Option (Decl ν) → Res ν
  | some d => Res.to d
  | none => Res.unresolved

/-- member `x` of whatever the qualifier resolved to: it must be a namespace declaration; the
    member is looked up among the declarations of the aliased file -/
def memberOf (w : World ν) (x : ν) : Option (Decl ν) → Res ν
  | some (Decl.alias _ _ m) => Res.ofOption ((ownTable w m).1.get x)
  | _ => Res.unresolved

/-- `p.x` -/
def resolveQualified (w : World ν) (st : SymTab ν) (q x : ν) : Res ν :=
  memberOf w x (lookup st q)

/-- variant `v` of the enum a declaration stands for (`EnumVariant` lookup in the enum's namespace /
    `resolve_names_member_helper` on `Declaration::Enum`) -/
def variantOf (w : World ν) (v : ν) : Option (Decl ν) → Res ν
  | some (Decl.enum_ m i n) => if (membersOf w m i).contains v then Res.to (Decl.variant m i n v) else Res.unresolved
  | _ => Res.unresolved

/-- child namespace `ty` of whatever namespace the prefix `p` denotes -/
def kidOfPrefix (w : World ν) (ty : ν) : Option (Decl ν) → Option (Decl ν)
  | some (Decl.alias _ _ m) => (ownKids w m).get ty
  | _ => none

/-- qualified variant pattern `[pre.]ty.v`: `symbol_table.lookup_namespace(prefixes[0])`, then the
    remaining prefixes through `namespaces`, then the tag among the namespace's declarations.
    `kids` are the file-level namespaces (locals never shadow a namespace). -/
def resolvePat (w : World ν) (kids : Table ν) (pre : Option ν) (ty v : ν) : Res ν :=
  match pre with
  | none => variantOf w v (kids.get ty)
  | some p => variantOf w v (kidOfPrefix w ty (kids.get p))

/-- declaration `ty` among the declarations of whatever the prefix `p` resolved to -/
def declOfPrefix (w : World ν) (ty : ν) : Option (Decl ν) → Option (Decl ν)
  | some (Decl.alias _ _ m) => (ownTable w m).1.get ty
  | _ => none

/-- variant expression `[pre.]ty.v` given how identifiers resolve -/
def enumExprWith (w : World ν) (look : ν → Option (Decl ν)) (pre : Option ν) (ty v : ν) : Res ν :=
  match pre with
  | none => variantOf w v (look ty)
  | some p => variantOf w v (declOfPrefix w ty (look p))

/-- variant expression `[pre.]ty.v`: the type name resolves like any identifier (declarations) -/
def resolveEnumExpr (w : World ν) (st : SymTab ν) (pre : Option ν) (ty v : ν) : Res ν :=
  enumExprWith w (lookup st) pre ty v

mutual
/-- `resolve_names_stmt`: returns the table after the statement (bindings made in the current
    scope persist) and the resolutions of the uses in textual order.
    `forScoped` = the for-loop pattern is bound inside the loop's own scope (lexical scoping);
    with `false` it is bound in the enclosing scope, as resolve.rs does today. -/
def resolveStmt (w : World ν) (forScoped : Bool) (kids : Table ν) (st : SymTab ν) : Stmt ν → SymTab ν × List (Res ν)
  | .letv x id => (extend st x (Decl.loc id), [])
  | .use x =>
    (st, [Res.ofOption (lookup st x)])
  | .quse q x => (st, [resolveQualified w st q x])
  | .block body => (st, (resolveStmts w forScoped kids (newScope st) body).2)
  | .forv x id body =>
    if forScoped then
      -- one new scope holds the pattern and the body's own bindings
      (st, (resolveStmts w forScoped kids (extend (newScope st) x (Decl.loc id)) body).2)
    else
      let st1 := extend st x (Decl.loc id)
      (st1, (resolveStmts w forScoped kids (newScope st1) body).2)
  | .matchv x id body =>
    -- arm: new scope, pattern binds in it, the arm's block opens another one
    (st, (resolveStmts w forScoped kids (newScope (extend (newScope st) x (Decl.loc id))) body).2)
  | .lam x id body =>
    (st, (resolveStmts w forScoped kids (newScope (extend (newScope st) x (Decl.loc id))) body).2)
  | .pmatch pre ty v => (st, [resolvePat w kids pre ty v])
  | .euse pre ty v => (st, [resolveEnumExpr w st pre ty v])
  | .marms arms => (st, resolveArms w forScoped kids st arms)
  | .ifelse a b =>
    (st, (resolveStmts w forScoped kids (newScope st) a).2 ++ (resolveStmts w forScoped kids (newScope st) b).2)

/-- `ExprKind::Match`: `for arm in arms { let symbol_table = symbol_table.new_scope(); pat; stmt }` —
    every arm starts from the table of the `match` itself -/
def resolveArms (w : World ν) (forScoped : Bool) (kids : Table ν) (st : SymTab ν) :
    List (Option (ν × Nat) × List (Stmt ν)) → List (Res ν)
  | [] => []
  | (some (x, id), body) :: rest =>
    (resolveStmts w forScoped kids (newScope (extend (newScope st) x (Decl.loc id))) body).2 ++
      resolveArms w forScoped kids st rest
  | (none, body) :: rest =>
    (resolveStmts w forScoped kids (newScope (newScope st)) body).2 ++ resolveArms w forScoped kids st rest

def resolveStmts (w : World ν) (forScoped : Bool) (kids : Table ν) (st : SymTab ν) : List (Stmt ν) → SymTab ν × List (Res ν)
  | [] => (st, [])
  | s :: ss =>
    let r := resolveStmt w forScoped kids st s
    let r2 := resolveStmts w forScoped kids r.1 ss
    (r2.1, r.2 ++ r2.2)
end

/-- file-level symbol table: `SymbolTable::from_namespace(effective_namespace)` -/
def fileSymTab (w : World ν) (file : Nat) : SymTab ν := [(effective w file).table]

/-- uses inside a function body: resolved before the file's top-level statements, in a fresh
    scope holding the parameter (`z`, never used by the generated bodies) and a block scope -/
def resolveProbe (w : World ν) (forScoped : Bool) (file : Nat) : List (Res ν) :=
  match w.files[file]? with
  | some f => (resolveStmts w forScoped (effective w file).kids (newScope (newScope (fileSymTab w file))) f.probe).2
  | none => []

/-- top-level statements extend the file-level scope itself -/
def resolveTop (w : World ν) (forScoped : Bool) (file : Nat) : List (Res ν) :=
  match w.files[file]? with
  | some f => (resolveStmts w forScoped (effective w file).kids (fileSymTab w file) f.top).2
  | none => []

end Abra.Names
