import AbraModel.Lex
/-
Specification side of C30: the printer `escape` that the generator uses to spell a string as a
literal (its inverse is the lexer's `processEscapes`), and the layout printer for triple-quoted
literals.  Import-free apart from the lexer model.
-/
namespace Abra.Lex

inductive Quote | single | double | triple
  deriving DecidableEq, Repr

def hexDigitLower (n : Nat) : Char :=
  if n < 10 then Char.ofNat ('0'.toNat + n) else Char.ofNat ('a'.toNat + (n - 10))

/-- how the generator spells one character inside a literal of quote style `q`:
    backslash and the style's own quote are escaped (`"` also in triple-quoted literals, so that no
    `"""` can arise), newline/tab/CR by their mnemonic escapes, the other control characters and
    DEL as `\xNN`, everything else — including every non-ASCII character — verbatim -/
def escapeChar (q : Quote) (c : Char) : List Char :=
  if c = '\\' then ['\\', '\\']
  else if c = '"' then (if q = .single then ['"'] else ['\\', '"'])
  else if c = '\'' then (if q = .single then ['\\', '\''] else ['\''])
  else if c = '\n' then ['\\', 'n']
  else if c = '\t' then ['\\', 't']
  else if c = '\r' then ['\\', 'r']
  else if c.toNat < 0x20 || c.toNat = 0x7f then
    ['\\', 'x', hexDigitLower (c.toNat / 16), hexDigitLower (c.toNat % 16)]
  else [c]

def escape (q : Quote) : List Char → List Char
  | [] => []
  | c :: cs => escapeChar q c ++ escape q cs

/-- source text of a one-line literal -/
def quoteChar : Quote → Char
  | .single => '\''
  | _ => '"'

def spellQuoted (q : Quote) (s : List Char) : List Char :=
  quoteChar q :: (escape q s ++ [quoteChar q])

end Abra.Lex
